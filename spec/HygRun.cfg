SPECIFICATION Spec
CONSTANTS Programs <- HProgs
          MaxSteps = 20000
          R2L = TRUE
INVARIANTS HVerdict
CHECK_DEADLOCK FALSE
