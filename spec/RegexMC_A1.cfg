SPECIFICATION Spec
CONSTANTS Sigma = {97, 98}
          MaxLen = 4
          Level = 1
          Fam = "full"
INVARIANTS TwoFormulations SearchIsContextMatch SearchFromMatch GroupsWF ReportSound ReportRejectsNonMatch Laws
CHECK_DEADLOCK FALSE
