---------------------------- MODULE Heap ----------------------------
(* The chibi-scheme heap: segments, address-ordered free lists, objects with
   strong / weak slots, roots (registered C locals = registers + saves stack),
   allocation, collection (mark with the ephemeron rule; weak reset; finalize;
   sweep), growth.  One action per critical section of gc.c:
     Alloc    = sexp_try_alloc      (placement is policy free here)
     Collect  = sexp_gc             (mark + reset_weak + finalize + sweep; atomic:
                                     the interpreter is single threaded)
     Grow     = sexp_grow_heap
   The acceptance reading of the properties C10 / C02 / C16 is the list of
   invariants at the end.  HeapMC*.cfg are focused model-checking configs,
   HeapTrace.tla replays implementation traces against these same actions. *)
EXTENDS Integers, Sequences, FiniteSets, TLC, SequencesExt, FiniteSetsExt, Functions

CONSTANTS Ids,        \* object identities available to the mutator
          NoId,       \* "no object" (immediate value / NULL)
          Menu,       \* allocatable shapes <<kind, size, nslots>>, kind \in {"data","node","eph","fin"}
          InitSeg,    \* size (chunks) of the first segment; chunk 0 is the free-list sentinel
          GrowSizes,  \* sizes a new segment may get
          MaxSegs,    \* bound on segments (model checking only)
          NRegs,      \* permanently registered C locals ("registers")
          MaxSaves,   \* bound on the dynamic saves stack (model checking only)
          AllowTmp,   \* TRUE: results may be left in an unregistered local (negative test)
          FirstFitOnly, \* TRUE: Alloc takes the first fitting chunk (the implementation's policy)
          TiedRegs    \* TRUE (model checking): object i may only live in register i, registers are only cleared

VARIABLES segs,     \* Seq of segment sizes
          free,     \* free[s] : Seq of <<off, size>> in list order
          obj,      \* obj[i] : NoObj or record
          regs,     \* regs[r] : Id or NoId
          saves,    \* Seq of Ids (stack of sexp_gc_preserve'd locals)
          tmp,      \* an unregistered C local
          pendFin,  \* addresses <<seg,off>> finalized by the last Collect and not yet observed
          lastAct   \* ghost: label of the last action (for behaviour extraction)

vars == <<segs, free, obj, regs, saves, tmp, pendFin, lastAct>>

NoObj == [kind |-> "none"]
Alive == {i \in Ids : obj[i].kind # "none"}
Regs  == 1..NRegs
RootIds == ({regs[r] : r \in Regs} \cup {saves[j] : j \in 1..Len(saves)}) \ {NoId}

SegIdx == 1..Len(segs)

\* ---------------------------------------------------------------- reachability
StrongSucc(i) == IF obj[i].kind = "eph" THEN {}
                 ELSE {obj[i].slots[x] : x \in 1..Len(obj[i].slots)} \ {NoId}
\* ephemeron rule: the value is traced iff the key is an immediate or already reached
EphValues(S) == {obj[e].slots[2] : e \in {e \in S : obj[e].kind = "eph" /\ obj[e].slots[1] \in (S \cup {NoId})}} \ {NoId}
RECURSIVE Reach(_)
Reach(S) == LET T == S \cup UNION {StrongSucc(i) : i \in S} \cup EphValues(S)
            IN IF T = S THEN S ELSE Reach(T)
Live == Reach(RootIds)
\* what the mutator may legitimately touch
Held == Live \cup (IF AllowTmp /\ tmp # NoId THEN {tmp} ELSE {})

\* ---------------------------------------------------------------- allocation
Fits(s, j, n) == free[s][j][2] >= n
IsFirstFit(s, j, n) ==
   /\ Fits(s, j, n)
   /\ \A s2 \in SegIdx : \A j2 \in 1..Len(free[s2]) :
        (s2 < s \/ (s2 = s /\ j2 < j)) => ~Fits(s2, j2, n)
RemoveAt1(q, j) == SubSeq(q, 1, j-1) \o SubSeq(q, j+1, Len(q))
Take(s, j, n) == LET c == free[s][j] IN
   IF c[2] > n THEN [free EXCEPT ![s][j] = <<c[1] + n, c[2] - n>>]
               ELSE [free EXCEPT ![s] = RemoveAt1(free[s], j)]

\* dk: "reg" = store into register r; "save" = push on saves; "tmp" = leave in the unregistered local.
\* o: offset of the new object inside free chunk j of segment s; newfree: the free lists afterwards
\* (model checking: Take = split off the front; trace validation: bound from the log, judged by Tiling).
AllocAt(i, shape, s, j, o, dk, r, newfree) ==
   /\ obj[i].kind = "none"
   /\ pendFin = {}      \* protocol: the finalizer log is read right after each collection
   /\ (TiedRegs /\ dk = "reg") => r = i
   /\ s \in SegIdx /\ j \in 1..Len(free[s])
   /\ free[s][j][1] <= o /\ o + shape[2] <= free[s][j][1] + free[s][j][2]
   /\ obj' = [obj EXCEPT ![i] = [kind |-> shape[1], seg |-> s, off |-> o, size |-> shape[2],
                                 slots |-> [x \in 1..shape[3] |-> NoId], broken |-> FALSE]]
   /\ free' = newfree
   /\ CASE dk = "reg"  -> r \in Regs /\ regs' = [regs EXCEPT ![r] = i] /\ UNCHANGED <<saves, tmp>>
        [] dk = "save" -> saves' = Append(saves, i) /\ UNCHANGED <<regs, tmp>>
        [] dk = "tmp"  -> AllowTmp /\ tmp' = i /\ UNCHANGED <<regs, saves>>
        [] dk = "none" -> UNCHANGED <<regs, saves, tmp>>
   /\ lastAct' = <<"Alloc", i, shape[1], shape[2], shape[3], dk, r>>
   /\ UNCHANGED <<segs, pendFin>>
Alloc(i, shape, s, j, dk, r) ==
   /\ s \in SegIdx /\ j \in 1..Len(free[s])
   /\ IF FirstFitOnly THEN IsFirstFit(s, j, shape[2]) ELSE Fits(s, j, shape[2])
   /\ AllocAt(i, shape, s, j, free[s][j][1], dk, r, Take(s, j, shape[2]))

NoFit(n) == \A s \in SegIdx : \A j \in 1..Len(free[s]) : ~Fits(s, j, n)

\* ---------------------------------------------------------------- mutator
SetSlot(i, x, v) ==
   /\ i \in Held /\ (v = NoId \/ v \in Held)
   /\ x \in 1..Len(obj[i].slots)
   \* ephemerons have no setters: key and value are given once, at construction
   /\ obj[i].kind = "eph" => (obj[i].slots[x] = NoId /\ v # NoId /\ ~obj[i].broken)
   /\ obj' = [obj EXCEPT ![i].slots[x] = v]
   /\ lastAct' = <<"Set", i, x, v>>
   /\ UNCHANGED <<segs, free, regs, saves, tmp, pendFin>>
SetReg(r, v) ==
   /\ r \in Regs /\ (v = NoId \/ v \in Held) /\ regs[r] # v
   /\ TiedRegs => v = NoId
   /\ regs' = [regs EXCEPT ![r] = v]
   /\ lastAct' = <<"Reg", r, v>>
   /\ UNCHANGED <<segs, free, obj, saves, tmp, pendFin>>
PushSave(v) ==
   /\ v \in Held
   /\ saves' = Append(saves, v)
   /\ lastAct' = <<"Push", v>>
   /\ UNCHANGED <<segs, free, obj, regs, tmp, pendFin>>
PopSave ==
   /\ saves # <<>>
   /\ saves' = Front(saves)
   /\ lastAct' = <<"Pop">>
   /\ UNCHANGED <<segs, free, obj, regs, tmp, pendFin>>

\* ---------------------------------------------------------------- collection
Addr(i) == <<obj[i].seg, obj[i].off>>
DeadIds(L) == Alive \ L
FreedIv(s, L) == {<<obj[i].off, obj[i].size>> : i \in {i \in DeadIds(L) : obj[i].seg = s}}
OldIv(s) == {free[s][j] : j \in 1..Len(free[s])}
\* maximal coalescing in address order (the sentinel at offset 0 is never merged into)
MergeStep(acc, iv) ==
   IF acc # <<>> /\ Last(acc)[1] + Last(acc)[2] = iv[1]
   THEN Append(Front(acc), <<Last(acc)[1], Last(acc)[2] + iv[2]>>)
   ELSE Append(acc, iv)
SweepSeg(s, L) ==
   FoldLeft(MergeStep, <<>>, SortSeq(SetToSeq(OldIv(s) \cup FreedIv(s, L)), LAMBDA a, b : a[1] < b[1]))
SweepAll(L) == [s \in SegIdx |-> SweepSeg(s, L)]

\* objects after a collection with live set L
ObjAfter(L) == [i \in Ids |->
   IF i \notin L THEN NoObj
   ELSE IF obj[i].kind = "eph" /\ obj[i].slots[1] # NoId /\ obj[i].slots[1] \notin L
        THEN [obj[i] EXCEPT !.slots = <<NoId, NoId>>, !.broken = TRUE]
        ELSE obj[i]]

\* newfree: the free lists the sweep produced (model checking: SweepAll; trace: bound from the log)
CollectWith(newfree) ==
   LET L == Live IN
   /\ obj' = ObjAfter(L)
   /\ free' = newfree
   /\ pendFin' = pendFin \cup {Addr(i) : i \in {i \in DeadIds(L) : obj[i].kind = "fin"}}
   /\ tmp' = tmp
   /\ lastAct' = <<"Collect">>
   /\ UNCHANGED <<segs, regs, saves>>
Collect == CollectWith(SweepAll(Live))

\* the harness observes (and clears) the finalizer log
ObserveFin ==
   /\ pendFin # {}
   /\ pendFin' = {}
   /\ lastAct' = <<"ObserveFin">>
   /\ UNCHANGED <<segs, free, obj, regs, saves, tmp>>

Grow(n) ==
   /\ Len(segs) < MaxSegs
   /\ segs' = Append(segs, n)
   /\ free' = Append(free, << <<1, n - 1>> >>)
   /\ lastAct' = <<"Grow", n>>
   /\ UNCHANGED <<obj, regs, saves, tmp, pendFin>>

\* ---------------------------------------------------------------- spec
Init == /\ segs = <<InitSeg>>
        /\ free = << << <<1, InitSeg - 1>> >> >>
        /\ obj = [i \in Ids |-> NoObj]
        /\ regs = [r \in Regs |-> NoId]
        /\ saves = <<>>
        /\ tmp = NoId
        /\ pendFin = {}
        /\ lastAct = <<"Init">>

DestKinds == {"reg", "none"} \cup (IF MaxSaves > 0 THEN {"save"} ELSE {}) \cup (IF AllowTmp THEN {"tmp"} ELSE {})
Next == \/ \E i \in Ids, shape \in Menu, s \in SegIdx, dk \in DestKinds, r \in Regs :
              \E j \in 1..Len(free[s]) : (dk # "reg" => r = 1) /\ Alloc(i, shape, s, j, dk, r)
        \/ \E i \in Ids, x \in 1..3, v \in Ids \cup {NoId} : SetSlot(i, x, v)
        \/ \E r \in Regs, v \in Ids \cup {NoId} : SetReg(r, v)
        \/ \E v \in Ids : PushSave(v)
        \/ PopSave
        \/ Collect
        \/ ObserveFin
        \/ \E n \in GrowSizes : Grow(n)
Spec == Init /\ [][Next]_vars

\* ---------------------------------------------------------------- invariants
Cells(s) == 1..(segs[s] - 1)
ObjCells(i) == obj[i].off .. (obj[i].off + obj[i].size - 1)
FreeCells(s, j) == free[s][j][1] .. (free[s][j][1] + free[s][j][2] - 1)

\* C10: exact tiling of every segment by allocated objects and free chunks
Tiling == \A s \in SegIdx :
   /\ \A c \in Cells(s) :
        Cardinality({i \in Alive : obj[i].seg = s /\ c \in ObjCells(i)})
        + Cardinality({j \in 1..Len(free[s]) : c \in FreeCells(s, j)}) = 1
   /\ \A i \in Alive : obj[i].seg = s => ObjCells(i) \subseteq Cells(s)
   /\ \A j \in 1..Len(free[s]) : FreeCells(s, j) \subseteq Cells(s) /\ free[s][j][2] >= 1
\* C10: sorted, non-overlapping free list
FreeSorted == \A s \in SegIdx : \A j \in 1..(Len(free[s]) - 1) :
   free[s][j][1] + free[s][j][2] <= free[s][j+1][1]
\* design-level extra (not demanded by the property): maximal coalescing after a collection
NoAdjacentFree == lastAct[1] = "Collect" =>
   \A s \in SegIdx : \A j \in 1..(Len(free[s]) - 1) : free[s][j][1] + free[s][j][2] < free[s][j+1][1]
\* C10: every reference held by an allocated object designates the start of an allocated object
RefsValid == \A i \in Alive : \A x \in 1..Len(obj[i].slots) : obj[i].slots[x] \in Alive \cup {NoId}
\* C02: nothing reachable from the roots is ever reclaimed
NoPrematureFree == Live \subseteq Alive
\* C02 (mutator side): what the mutator is about to use exists
HeldValid == Held \subseteq Alive
\* C10: after a collection, allocated = reachable (garbage was recycled)
NoLeak == lastAct[1] = "Collect" => Alive = Live
\* C16: broken iff the key was reclaimed; value retained while the key is alive
EphSound == \A e \in Alive : obj[e].kind = "eph" =>
   /\ obj[e].broken => obj[e].slots = <<NoId, NoId>>
   /\ (e \in Live /\ obj[e].slots[1] \in Live) => obj[e].slots[2] \in Live \cup {NoId}
EphBrokenAfterCollect == lastAct[1] = "Collect" =>
   \A e \in Alive : obj[e].kind = "eph" => (obj[e].slots[1] = NoId \/ obj[e].slots[1] \in Live)
\* C16: finalizers only for reclaimed objects
FinalizeOnlyDead == lastAct[1] = "Collect" => \A a \in pendFin : \A i \in Alive : Addr(i) # a

TypeOK == /\ \A i \in Alive : obj[i].seg \in SegIdx
          /\ Len(free) = Len(segs)

\* bounds for model checking
ViewNoGhost == <<segs, free, obj, regs, saves, tmp, pendFin, lastAct[1] = "Collect">>
StateConstraint == Len(saves) <= MaxSaves
=====================================================================
