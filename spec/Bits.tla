---------------------------- MODULE Bits ----------------------------
(* C17: an exact integer denotes an infinite two's-complement bit string

       Bit(x, i), i = 0, 1, 2, ...     constant (= SignBit(x)) from some position on.

   For x >= 0 these are the binary digits of x; for x < 0 the complemented binary digits of |x| - 1.
   Every SRFI 151 operation is specified by the bit string of its result: a bit function f, a number
   of digits nd beyond which f is constant, and that constant (the sign).  FromBits turns the
   description back into sign + magnitude.  BitsMC.tla checks Bit/FromBits and every operation below
   against TLC's integers ((x \div 2^i) % 2, -1-x, x*2^s, x \div 2^s, the Bitwise module) at W = 2.    *)
EXTENDS BigNat

\* bit view of an integer: <<sign, digits of (x >= 0 ? x : |x|-1)>>
BV(x) == <<x[1], IF x[1] = 0 THEN x[2] ELSE Sub(x[2], <<1>>)>>
VBit(v, i) == LET b == (D(v[2], i \div W + 1) \div 2^(i % W)) % 2 IN IF v[1] = 0 THEN b ELSE 1 - b
VLen(v) == Len(v[2])                       \* digits below which bits may differ from the sign
Bit(x, i) == VBit(BV(x), i)
SignBit(x) == x[1]

\* the integer whose bit i is f(i) for i < nd*W and neg beyond
FromBits(f(_), nd, neg) ==
   LET tc == [j \in 1..nd |-> FoldLeft(LAMBDA s, t : s + (IF neg = 0 THEN f((j - 1) * W + t - 1) ELSE 1 - f((j - 1) * W + t - 1)) * 2^(t - 1),
                                       0, Idx(W))]
   IN IF neg = 0 THEN <<0, Trim(tc)>> ELSE <<1, Add(Trim(tc), <<1>>)>>

\* ---- SRFI 151
BNot(x) == LET v == BV(x) IN FromBits(LAMBDA i : 1 - VBit(v, i), VLen(v) + 1, 1 - x[1])
\* a two-argument bitwise operation is its truth table tt(p, q)
BOp2(tt(_, _), x, y) == LET v == BV(x)  u == BV(y)
                        IN FromBits(LAMBDA i : tt(VBit(v, i), VBit(u, i)), MaxI(VLen(v), VLen(u)) + 1, tt(x[1], y[1]))
TAnd(p, q) == p * q
TIor(p, q) == p + q - p * q
TXor(p, q) == (p + q) % 2
BAnd(x, y) == BOp2(TAnd, x, y)
BIor(x, y) == BOp2(TIor, x, y)
BXor(x, y) == BOp2(TXor, x, y)
BEqv(x, y) == BOp2(LAMBDA p, q : 1 - TXor(p, q), x, y)
BNand(x, y) == BOp2(LAMBDA p, q : 1 - TAnd(p, q), x, y)
BNor(x, y) == BOp2(LAMBDA p, q : 1 - TIor(p, q), x, y)
BAndc1(x, y) == BOp2(LAMBDA p, q : TAnd(1 - p, q), x, y)
BAndc2(x, y) == BOp2(LAMBDA p, q : TAnd(p, 1 - q), x, y)
BOrc1(x, y) == BOp2(LAMBDA p, q : TIor(1 - p, q), x, y)
BOrc2(x, y) == BOp2(LAMBDA p, q : TIor(p, 1 - q), x, y)
BIf(m, x, y) == LET w == BV(m)  v == BV(x)  u == BV(y)
                IN FromBits(LAMBDA i : IF VBit(w, i) = 1 THEN VBit(v, i) ELSE VBit(u, i),
                            MaxI(VLen(w), MaxI(VLen(v), VLen(u))) + 1, IF m[1] = 1 THEN x[1] ELSE y[1])
\* shift by s positions (s TLC integer, either sign): bit i of the result is bit i-s of x, zero below
DigitsFor(n) == IF n <= 0 THEN 0 ELSE (n + W - 1) \div W
BShift(x, s) == LET v == BV(x)
                IN FromBits(LAMBDA i : IF i - s < 0 THEN 0 ELSE VBit(v, i - s),
                            DigitsFor(VLen(v) * W + s) + 1, x[1])
\* population count of the bits that differ from the sign (ones of x >= 0, zeros of x < 0)
BCount(x) == LET v == BV(x) IN FoldLeft(LAMBDA c, i : c + (IF VBit(v, i - 1) # v[1] THEN 1 ELSE 0), 0, Idx(VLen(v) * W))
\* least n such that all bits from n on equal the sign
BLength(x) == LET v == BV(x) IN FoldLeft(LAMBDA n, i : IF VBit(v, i - 1) # v[1] THEN i ELSE n, 0, Idx(VLen(v) * W))
BSet(i, x) == Bit(x, i) = 1
BFirstSet(x) == LET v == BV(x)            \* -1 for x = 0; a nonzero x has a set bit below (VLen+1)*W
                IN FoldLeft(LAMBDA n, j : IF n < 0 /\ VBit(v, j - 1) = 1 THEN j - 1 ELSE n, -1, Idx((VLen(v) + 1) * W))
BAny(t, x) == LET v == BV(t)  u == BV(x)
              IN (t[1] = 1 /\ x[1] = 1) \/ \E i \in 0..(MaxI(VLen(v), VLen(u)) * W) : VBit(v, i) = 1 /\ VBit(u, i) = 1
BEvery(t, x) == LET v == BV(t)  u == BV(x)
                IN (t[1] = 1 => x[1] = 1) /\ \A i \in 0..(MaxI(VLen(v), VLen(u)) * W) : VBit(v, i) = 1 => VBit(u, i) = 1
BCopyBit(k, x, b) == LET v == BV(x)
                     IN FromBits(LAMBDA i : IF i = k THEN b ELSE VBit(v, i), MaxI(VLen(v), k \div W + 1) + 1, x[1])
BSwap(k1, k2, x) == LET v == BV(x)
                    IN FromBits(LAMBDA i : IF i = k1 THEN VBit(v, k2) ELSE IF i = k2 THEN VBit(v, k1) ELSE VBit(v, i),
                                MaxI(VLen(v), MaxI(k1, k2) \div W + 1) + 1, x[1])
\* fields: bits s <= i < e
InF(i, s, e) == s <= i /\ i < e
BField(x, s, e) == LET v == BV(x) IN FromBits(LAMBDA i : IF i < e - s THEN VBit(v, i + s) ELSE 0, DigitsFor(e - s) + 1, 0)
BFieldAny(x, s, e) == LET v == BV(x) IN \E i \in s..(e - 1) : VBit(v, i) = 1
BFieldEvery(x, s, e) == LET v == BV(x) IN \A i \in s..(e - 1) : VBit(v, i) = 1
FieldDigits(v, e) == MaxI(VLen(v), DigitsFor(e)) + 1
BFieldClear(x, s, e) == LET v == BV(x) IN FromBits(LAMBDA i : IF InF(i, s, e) THEN 0 ELSE VBit(v, i), FieldDigits(v, e), x[1])
BFieldSet(x, s, e) == LET v == BV(x) IN FromBits(LAMBDA i : IF InF(i, s, e) THEN 1 ELSE VBit(v, i), FieldDigits(v, e), x[1])
BFieldReplace(x, y, s, e) == LET v == BV(x)  u == BV(y)      \* low bits of y into the field of x
                             IN FromBits(LAMBDA i : IF InF(i, s, e) THEN VBit(u, i - s) ELSE VBit(v, i), FieldDigits(v, e), x[1])
BFieldReplaceSame(x, y, s, e) == LET v == BV(x)  u == BV(y)  \* the same field of y into x
                                 IN FromBits(LAMBDA i : IF InF(i, s, e) THEN VBit(u, i) ELSE VBit(v, i), FieldDigits(v, e), x[1])
\* rotate the field left by c (any sign), e > s
BFieldRotate(x, c, s, e) == LET v == BV(x)
                            IN FromBits(LAMBDA i : IF InF(i, s, e) THEN VBit(v, s + ((i - s - c) % (e - s))) ELSE VBit(v, i),
                                        FieldDigits(v, e), x[1])
BFieldReverse(x, s, e) == LET v == BV(x)
                          IN FromBits(LAMBDA i : IF InF(i, s, e) THEN VBit(v, s + e - 1 - i) ELSE VBit(v, i), FieldDigits(v, e), x[1])
\* bits->list with an explicit length, list->bits (lists of 0/1, least significant first)
BToList(x, n) == LET v == BV(x) IN [i \in 1..n |-> VBit(v, i - 1)]
BOfList(l) == FromBits(LAMBDA i : IF i < Len(l) THEN l[i + 1] ELSE 0, DigitsFor(Len(l)) + 1, 0)
=====================================================================
