---------------------------- MODULE AdtSet ----------------------------
(* SRFI 113 sets as finite mathematical sets of integers.  The procedures with "!" are linear-update:
   they consume their first argument.  Observations: booleans as 0/1, a missing element as -1,
   set->list sorted by the driver (the SRFI leaves the order open). *)
EXTENDS AdtBase

SetTable == <<
  <<"set", "ks", 6>>, <<"list->set", "ks", 3>>, <<"unfold", "x", 1>>,
  <<"contains?", "vk", 4>>, <<"empty?", "v", 1>>, <<"size", "v", 3>>, <<"disjoint?", "vw", 2>>, <<"member", "vk", 2>>,
  <<"find", "vxk", 2>>, <<"count", "vxk", 2>>, <<"any?", "vxk", 2>>, <<"every?", "vxk", 2>>, <<"fold", "v", 2>>, <<"->list", "v", 3>>,
  <<"=?", "vw", 3>>, <<"<?", "vw", 3>>, <<">?", "vw", 3>>, <<"<=?", "vw", 3>>, <<">=?", "vw", 3>>,
  <<"adjoin", "vks", 8>>, <<"replace", "vk", 1>>, <<"delete", "vks", 4>>, <<"delete-all", "vks", 2>>, <<"map", "vx", 3>>,
  <<"filter", "vxk", 3>>, <<"remove", "vxk", 3>>, <<"partition", "vxk", 2>>, <<"copy", "v", 1>>,
  <<"union", "vw", 4>>, <<"intersection", "vw", 4>>, <<"difference", "vw", 4>>, <<"xor", "vw", 4>>,
  <<"adjoin!", "vks", 3>>, <<"replace!", "vk", 1>>, <<"delete!", "vks", 2>>, <<"delete-all!", "vks", 1>>,
  <<"filter!", "vxk", 1>>, <<"remove!", "vxk", 1>>, <<"partition!", "vxk", 1>>, <<"list->set!", "vks", 1>>,
  <<"union!", "vw", 2>>, <<"intersection!", "vw", 2>>, <<"difference!", "vw", 2>>, <<"xor!", "vw", 2>>,
  <<"search!", "vk", 2>> >>
SetLinear == {"adjoin!", "replace!", "delete!", "delete-all!", "filter!", "remove!", "partition!", "list->set!",
              "union!", "intersection!", "difference!", "xor!", "search!"}

SetCanon(S) == SortedSeq(S)
SetWF(c) == \A i \in 1..(Len(c) - 1) : c[i] < c[i + 1]
SetFrom(c) == RangeOf(c)
SetTypeOK(S, Keys) == S \subseteq Keys
SetNorm(o, s) == IF o.op = "unfold" THEN [o EXCEPT !.x = o.x % 7]
                 ELSE IF o.op = "map" THEN [o EXCEPT !.x = o.x % NFun]
                 ELSE [o EXCEPT !.x = o.x % NPred]
SetPre(o, s, M) == (o.op \in {"union!", "intersection!", "difference!", "xor!"} => o.v # o.w)

SetEval(o, s, M) ==
  LET A == s[o.v]  C == s[o.w]  KS == RangeOf(o.ks)
      P(e) == Pred(o.x, o.k, e)
      lin == o.op \in SetLinear
      Out(new, obs) == IF lin THEN ResKill(new, obs, {o.v}) ELSE Res(new, obs)
      Is(n) == o.op = n
      Is2(n, n2) == o.op \in {n, n2}
  IN CASE Is2("set", "list->set") -> Res(<<KS>>, None)
       [] Is("list->set!") -> Out(<<A \cup KS>>, None)
       [] Is("unfold") -> Res(<<{i \div 2 : i \in 0..(o.x - 1)}>>, None)
       [] Is("contains?") -> Res(<<>>, <<B(o.k \in A)>>)
       [] Is("empty?") -> Res(<<>>, <<B(A = {})>>)
       [] Is("size") -> Res(<<>>, <<Cardinality(A)>>)
       [] Is("disjoint?") -> Res(<<>>, <<B(A \cap C = {})>>)
       [] Is("member") -> Res(<<>>, <<IF o.k \in A THEN o.k ELSE -1>>)
       [] Is("find") -> (LET F == {e \in A : P(e)} IN ResAny(<<>>, IF F = {} THEN {<<-1>>} ELSE {<<e>> : e \in F}))
       [] Is("count") -> Res(<<>>, <<Cardinality({e \in A : P(e)})>>)
       [] Is("any?") -> Res(<<>>, <<B(\E e \in A : P(e))>>)
       [] Is("every?") -> Res(<<>>, <<B(\A e \in A : P(e))>>)
       [] Is("fold") -> Res(<<>>, <<SetSum(A)>>)
       [] Is("->list") -> Res(<<>>, SetCanon(A))
       [] Is("=?") -> Res(<<>>, <<B(A = C)>>)
       [] Is("<?") -> Res(<<>>, <<B(A \subseteq C /\ A # C)>>)
       [] Is(">?") -> Res(<<>>, <<B(C \subseteq A /\ A # C)>>)
       [] Is("<=?") -> Res(<<>>, <<B(A \subseteq C)>>)
       [] Is(">=?") -> Res(<<>>, <<B(C \subseteq A)>>)
       [] Is2("adjoin", "adjoin!") -> Out(<<A \cup KS>>, None)
       [] Is2("replace", "replace!") -> Out(<<A>>, None)
       [] o.op \in {"delete", "delete-all", "delete!", "delete-all!"} -> Out(<<A \ KS>>, None)
       [] Is("map") -> Res(<<{Fun(o.x, M, e) : e \in A}>>, None)
       [] Is2("filter", "filter!") -> Out(<<{e \in A : P(e)}>>, None)
       [] Is2("remove", "remove!") -> Out(<<{e \in A : ~P(e)}>>, None)
       [] Is2("partition", "partition!") -> Out(<<{e \in A : P(e)}, {e \in A : ~P(e)}>>, None)
       [] Is("copy") -> Res(<<A>>, None)
       [] Is2("union", "union!") -> Out(<<A \cup C>>, None)
       [] Is2("intersection", "intersection!") -> Out(<<A \cap C>>, None)
       [] Is2("difference", "difference!") -> Out(<<A \ C>>, None)
       [] Is2("xor", "xor!") -> Out(<<(A \ C) \cup (C \ A)>>, None)
       \* (set-search! s k (lambda (insert ignore) (insert 0)) (lambda (e update remove) (remove 1)))
       [] Is("search!") -> ResKill(<<IF o.k \in A THEN A \ {o.k} ELSE A \cup {o.k}>>, <<B(o.k \in A)>>, {o.v})

(* laws of the model, evaluated over every pair of live versions of every reachable store *)
SetLaws(s, live, M) ==
  \A v \in live, w \in live :
    LET A == s[v] C == s[w]
        E(name) == SetEval(Op(name, v, w, 0, 0, <<>>), s, M)
        N(name) == E(name).new[1]
        O(name) == CHOOSE x \in E(name).obs : TRUE
    IN /\ N("union") = s[w] \cup s[v] /\ N("intersection") \subseteq A
       /\ N("xor") = N("union") \ N("intersection")
       /\ Cardinality(N("union")) + Cardinality(N("intersection")) = Cardinality(A) + Cardinality(C)
       /\ N("difference") \cup N("intersection") = A
       /\ (O("<=?") = <<1>>) = (N("union") = C)
       /\ (O("<?") = <<1>>) = (O("<=?") = <<1>> /\ O("=?") = <<0>>)
       /\ (O("disjoint?") = <<1>>) = (N("intersection") = {})
       /\ (O("=?") = <<1>>) = (SetCanon(A) = SetCanon(C))
       /\ O("size") = <<Len(SetCanon(A))>> /\ SetWF(SetCanon(A)) /\ SetFrom(SetCanon(A)) = A
       /\ \A x \in 0..(NPred - 1), k \in 0..(M - 1) :
             LET part == SetEval(Op("partition", v, 0, k, x, <<>>), s, M).new IN
             part[1] \cup part[2] = A /\ part[1] \cap part[2] = {}
=======================================================================
