---------------------------- MODULE AdtSet ----------------------------
(* SRFI 113 sets as finite mathematical sets of integers.  The procedures with "!" are linear-update:
   they consume their first argument.  Observations: booleans as 0/1, a missing element as -1,
   set->list sorted by the driver (the SRFI leaves the order open). *)
EXTENDS AdtBase

SetTable == <<
  <<"set", S_s, 6>>, <<"list->set", S_s, 3>>, <<"unfold", S_x, 1>>,
  <<"contains?", S_vk, 4>>, <<"empty?", S_v, 1>>, <<"size", S_v, 3>>, <<"disjoint?", S_vw, 2>>, <<"member", S_vk, 2>>,
  <<"find", S_vxk, 2>>, <<"count", S_vxk, 2>>, <<"any?", S_vxk, 2>>, <<"every?", S_vxk, 2>>, <<"fold", S_v, 2>>, <<"->list", S_v, 3>>,
  <<"=?", S_vw, 3>>, <<"<?", S_vw, 3>>, <<">?", S_vw, 3>>, <<"<=?", S_vw, 3>>, <<">=?", S_vw, 3>>,
  <<"adjoin", S_vs, 8>>, <<"replace", S_vk, 1>>, <<"delete", S_vs, 4>>, <<"delete-all", S_vs, 2>>, <<"map", S_vx, 3>>,
  <<"filter", S_vxk, 3>>, <<"remove", S_vxk, 3>>, <<"partition", S_vxk, 2>>, <<"copy", S_v, 1>>,
  <<"union", S_vw, 4>>, <<"intersection", S_vw, 4>>, <<"difference", S_vw, 4>>, <<"xor", S_vw, 4>>,
  <<"adjoin!", S_vs, 3>>, <<"replace!", S_vk, 1>>, <<"delete!", S_vs, 2>>, <<"delete-all!", S_vs, 1>>,
  <<"filter!", S_vxk, 1>>, <<"remove!", S_vxk, 1>>, <<"partition!", S_vxk, 1>>, <<"list->set!", S_vs, 1>>,
  <<"union!", S_vw, 2>>, <<"intersection!", S_vw, 2>>, <<"difference!", S_vw, 2>>, <<"xor!", S_vw, 2>>,
  <<"search!", S_vk, 2>> >>
SetLinear == {"adjoin!", "replace!", "delete!", "delete-all!", "filter!", "remove!", "partition!", "list->set!",
              "union!", "intersection!", "difference!", "xor!", "search!"}

SetCanon(S) == SortedSeq(S)
SetWF(c) == \A i \in 1..(Len(c) - 1) : c[i] < c[i + 1]
SetFrom(c) == RangeOf(c)
SetTypeOK(S, Keys) == S \subseteq Keys
SetNorm(o, s) == IF o.op = "unfold" THEN [o EXCEPT !.x = o.x % 7]
                 ELSE IF o.op = "map" THEN [o EXCEPT !.x = o.x % NFun]
                 ELSE [o EXCEPT !.x = o.x % NPred]
SetPre(o, s, M) == (o.op \in {"union!", "intersection!", "difference!", "xor!"} => o.v # o.w)

SetEval(o, s, M) ==
  LET A == s[o.v]  C == s[o.w]  KS == RangeOf(o.ks)
      P(e) == Pred(o.x, o.k, e)
      lin == o.op \in SetLinear
      Out(new, obs) == IF lin THEN ResKill(new, obs, {o.v}) ELSE Res(new, obs)
      Is(n) == o.op = n
      Is2(n, n2) == o.op \in {n, n2}
  IN CASE Is2("set", "list->set") -> Res(<<KS>>, None)
       [] Is("list->set!") -> Out(<<A \cup KS>>, None)
       [] Is("unfold") -> Res(<<{i \div 2 : i \in 0..(o.x - 1)}>>, None)
       [] Is("contains?") -> Res(<<>>, <<B(o.k \in A)>>)
       [] Is("empty?") -> Res(<<>>, <<B(A = {})>>)
       [] Is("size") -> Res(<<>>, <<Cardinality(A)>>)
       [] Is("disjoint?") -> Res(<<>>, <<B(A \cap C = {})>>)
       [] Is("member") -> Res(<<>>, <<IF o.k \in A THEN o.k ELSE -1>>)
       [] Is("find") -> (LET F == {e \in A : P(e)} IN ResAny(<<>>, IF F = {} THEN {<<-1>>} ELSE {<<e>> : e \in F}))
       [] Is("count") -> Res(<<>>, <<Cardinality({e \in A : P(e)})>>)
       [] Is("any?") -> Res(<<>>, <<B(\E e \in A : P(e))>>)
       [] Is("every?") -> Res(<<>>, <<B(\A e \in A : P(e))>>)
       [] Is("fold") -> Res(<<>>, <<SetSum(A)>>)
       [] Is("->list") -> Res(<<>>, SetCanon(A))
       [] Is("=?") -> Res(<<>>, <<B(A = C)>>)
       [] Is("<?") -> Res(<<>>, <<B(A \subseteq C /\ A # C)>>)
       [] Is(">?") -> Res(<<>>, <<B(C \subseteq A /\ A # C)>>)
       [] Is("<=?") -> Res(<<>>, <<B(A \subseteq C)>>)
       [] Is(">=?") -> Res(<<>>, <<B(C \subseteq A)>>)
       [] Is2("adjoin", "adjoin!") -> Out(<<A \cup KS>>, None)
       [] Is2("replace", "replace!") -> Out(<<A>>, None)
       [] o.op \in {"delete", "delete-all", "delete!", "delete-all!"} -> Out(<<A \ KS>>, None)
       [] Is("map") -> Res(<<{Fun(o.x, M, e) : e \in A}>>, None)
       [] Is2("filter", "filter!") -> Out(<<{e \in A : P(e)}>>, None)
       [] Is2("remove", "remove!") -> Out(<<{e \in A : ~P(e)}>>, None)
       [] Is2("partition", "partition!") -> Out(<<{e \in A : P(e)}, {e \in A : ~P(e)}>>, None)
       [] Is("copy") -> Res(<<A>>, None)
       [] Is2("union", "union!") -> Out(<<A \cup C>>, None)
       [] Is2("intersection", "intersection!") -> Out(<<A \cap C>>, None)
       [] Is2("difference", "difference!") -> Out(<<A \ C>>, None)
       [] Is2("xor", "xor!") -> Out(<<(A \ C) \cup (C \ A)>>, None)
       \* (set-search! s k (lambda (insert ignore) (insert 0)) (lambda (e update remove) (remove 1)))
       [] Is("search!") -> ResKill(<<IF o.k \in A THEN A \ {o.k} ELSE A \cup {o.k}>>, <<B(o.k \in A)>>, {o.v})

(* laws of the model, evaluated over every pair of live versions of every reachable store *)
SetLaws(s, live, M) ==
  \A v \in live, w \in live :
    LET A == s[v] C == s[w]
        N(name) == SetEval(Op(name, v, w, 0, 0, <<>>), s, M).new[1]
        O(name) == CHOOSE x \in SetEval(Op(name, v, w, 0, 0, <<>>), s, M).obs : TRUE
    IN \A U \in {N("union")}, I \in {N("intersection")}, X \in {N("xor")}, D \in {N("difference")},
          le \in {O("<=?")}, eq \in {O("=?")}, cA \in {SetCanon(A)} :
       /\ U = C \cup A /\ I \subseteq A /\ X = U \ I
       /\ Cardinality(U) + Cardinality(I) = Cardinality(A) + Cardinality(C)
       /\ D \cup I = A /\ D \cap C = {}
       /\ (le = <<1>>) = (U = C)
       /\ (O("<?") = <<1>>) = (le = <<1>> /\ eq = <<0>>)
       /\ (O(">=?") = <<1>>) = (U = A)
       /\ (O("disjoint?") = <<1>>) = (I = {})
       /\ (eq = <<1>>) = (cA = SetCanon(C))
       /\ O("size") = <<Len(cA)>> /\ SetWF(cA) /\ SetFrom(cA) = A
       /\ (v = w) => \A x \in 0..(NPred - 1), k \in 0..(M - 1) :
             \A part \in {SetEval(Op("partition", v, 0, k, x, <<>>), s, M).new} :
             part[1] \cup part[2] = A /\ part[1] \cap part[2] = {}
=======================================================================
