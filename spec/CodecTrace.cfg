SPECIFICATION TraceSpec
INVARIANT TypeOk
POSTCONDITION Accepted
CHECK_DEADLOCK FALSE
