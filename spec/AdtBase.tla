---------------------------- MODULE AdtBase ----------------------------
(* C18, containers: vocabulary shared by the abstract data type modules.
   An operation is a record  [op, v, w, k, x, ks]:
     op  name;  v, w  indices of existing versions in the version store;  k  a key / element;
     x   a small number (index, count, value, code of a procedure argument);  ks  a sequence of keys.
   Evaluating an operation on the store s yields a record
     new   sequence of abstract values of the versions the operation creates (possibly empty),
     obs   the SET of observations the operation may return (a singleton where the library leaves no choice),
     kill  versions consumed by a linear-update ("!") procedure: their later contents are unspecified,
     upd   <<index, value>> pairs: in-place changes of mutable objects (SRFI 117 only).
   Procedure arguments (predicates, mapping functions) are drawn from the small coded families below;
   the drivers implement the same families. *)
EXTENDS Integers, Sequences, FiniteSets, SequencesExt, FiniteSetsExt

Op(name, v, w, k, x, ks) == [op |-> name, v |-> v, w |-> w, k |-> k, x |-> x, ks |-> ks]
Res(new, obs) == [new |-> new, obs |-> {obs}, kill |-> {}, upd |-> <<>>]
ResAny(new, obsset) == [new |-> new, obs |-> obsset, kill |-> {}, upd |-> <<>>]
ResKill(new, obs, kill) == [new |-> new, obs |-> {obs}, kill |-> kill, upd |-> <<>>]
ResUpd(upd, obs) == [new |-> <<>>, obs |-> {obs}, kill |-> {}, upd |-> upd]
None == <<>>                                 \* "no observation"
B(b) == IF b THEN 1 ELSE 0
RangeOf(q) == {q[i] : i \in DOMAIN q}
SortedSeq(S) == SetToSortSeq(S, <)
SumSeq(q) == FoldLeft(LAMBDA a, e : a + e, 0, q)
SetSum(S) == FoldSet(LAMBDA e, a : a + e, 0, S)
MaxOf(S) == CHOOSE m \in S : \A y \in S : y <= m
MinOf(S) == CHOOSE m \in S : \A y \in S : m <= y
RevSeq(q) == [i \in 1..Len(q) |-> q[Len(q) + 1 - i]]
Take(q, n) == SubSeq(q, 1, n)
Drop(q, n) == SubSeq(q, n + 1, Len(q))
FilterSeq(q, T(_)) == SelectSeq(q, T)
MapSeq(q, F(_)) == [i \in 1..Len(q) |-> F(q[i])]
(* index (from 1) of the first element satisfying T, 0 if none *)
FirstIdx(q, T(_)) == LET I == {i \in DOMAIN q : T(q[i])} IN IF I = {} THEN 0 ELSE MinOf(I)
LastIdx(q, T(_)) == LET I == {i \in DOMAIN q : T(q[i])} IN IF I = {} THEN 0 ELSE MaxOf(I)
(* length of the longest prefix / suffix whose elements all satisfy T *)
PrefixLen(q, T(_)) == LET f == FirstIdx(q, LAMBDA e : ~T(e)) IN IF f = 0 THEN Len(q) ELSE f - 1
SuffixLen(q, T(_)) == LET f == LastIdx(q, LAMBDA e : ~T(e)) IN Len(q) - f

(* coded predicates on an element e with parameter k *)
Pred(code, k, e) == CASE code = 0 -> e % 2 = 0
                      [] code = 1 -> e < k
                      [] code = 2 -> TRUE
                      [] code = 3 -> FALSE
                      [] code = 4 -> e = k
                      [] OTHER -> e % 3 = 0
NPred == 6
(* coded functions on an element e; M = size of the key universe 0..M-1 (closed under every code) *)
Fun(code, M, e) == CASE code = 0 -> (e + 1) % M
                     [] code = 1 -> e \div 2
                     [] code = 2 -> (M - 1) - e
                     [] OTHER -> 0
NFun == 4
Injective(code) == code \in {0, 2}

(* the signature of an operation = the set of fields it uses: "v" "w" versions, "k" key, "x" number, "s" key sequence *)
S_s == {"s"}           S_x == {"x"}            S_xk == {"x", "k"}        S_xs == {"x", "s"}      S_ks == {"k", "s"}
S_v == {"v"}           S_vk == {"v", "k"}      S_vs == {"v", "s"}        S_vw == {"v", "w"}      S_vx == {"v", "x"}
S_vxk == {"v", "x", "k"}  S_vwx == {"v", "w", "x"}  S_vxs == {"v", "x", "s"}  S_vws == {"v", "w", "s"}
S_vks == {"v", "k", "s"}  S_vkxw == {"v", "w", "k", "x"}
SigOps(name, sig, live, Keys, KSeqs, Xs) ==
  {Op(name, v, w, k, x, ks) : v \in (IF "v" \in sig THEN live ELSE {0}), w \in (IF "w" \in sig THEN live ELSE {0}),
                              k \in (IF "k" \in sig THEN Keys ELSE {0}), x \in (IF "x" \in sig THEN Xs ELSE {0}),
                              ks \in (IF "s" \in sig THEN KSeqs ELSE {<<>>})}
(* first occurrences only *)
DedupSeq(q) == LET keep == {i \in DOMAIN q : \A j \in 1..(i - 1) : q[j] # q[i]}
                   idx == SortedSeq(keep) IN [j \in 1..Len(idx) |-> q[idx[j]]]
=======================================================================
