---------------------------- MODULE AdtISet ----------------------------
(* (chibi iset) integer sets as finite sets of integers (negative and large members included; the driver
   additionally translates every history by an offset, e.g. across the fixnum boundary).
   iset->list is documented to be increasing, so it is compared as is.  The "!" procedures may mutate
   their first argument (linear update); the others must leave every argument unchanged. *)
EXTENDS AdtBase

ISetTable == <<
  <<"iset", S_s, 6>>, <<"list->iset", S_s, 3>>, <<"range", S_xk, 5>>, <<"single", S_xk, 1>>, <<"empty", S_x, 1>>,
  <<"adjoin", S_vs, 8>>, <<"delete", S_vs, 6>>, <<"copy", S_v, 2>>, <<"list->iset+", S_vs, 2>>,
  <<"union", S_vw, 6>>, <<"intersection", S_vw, 6>>, <<"difference", S_vw, 6>>,
  <<"contains?", S_vk, 5>>, <<"empty?", S_v, 2>>, <<"size", S_v, 4>>, <<"->list", S_v, 4>>, <<"fold", S_v, 2>>, <<"for-each", S_v, 1>>,
  <<"=", S_vw, 3>>, <<"<=", S_vw, 3>>, <<">=", S_vw, 3>>, <<"map", S_vx, 2>>, <<"rank", S_vxk, 3>>, <<"select", S_vx, 3>>,
  <<"cursor", S_v, 3>>, <<"balance", S_v, 2>>, <<"optimize", S_v, 2>>,
  <<"adjoin!", S_vs, 4>>, <<"delete!", S_vs, 4>>, <<"list->iset!", S_vs, 1>>,
  <<"union!", S_vw, 3>>, <<"intersection!", S_vw, 3>>, <<"difference!", S_vw, 3>> >>
ISetLinear == {"adjoin!", "delete!", "list->iset!", "union!", "intersection!", "difference!"}

ISetCanon(S) == SortedSeq(S)
ISetWF(c) == \A i \in 1..(Len(c) - 1) : c[i] < c[i + 1]
ISetFrom(c) == RangeOf(c)
ISetTypeOK(S) == S \subseteq Int
IFun(code, e) == CASE code = 0 -> e + 1
                   [] code = 1 -> e \div 2           \* floor
                   [] OTHER -> 0 - e
ISetNorm(o, s) ==
  IF o.op = "range" THEN [o EXCEPT !.x = o.x % 300]
  ELSE IF o.op \in {"single", "empty"} THEN [o EXCEPT !.x = 0]
  ELSE IF o.op = "map" THEN [o EXCEPT !.x = o.x % 3]
  \* the element whose rank is asked for: the (x mod size)-th member
  ELSE IF o.op = "rank" THEN (IF s[o.v] = {} THEN o ELSE [o EXCEPT !.k = SortedSeq(s[o.v])[1 + (o.x % Cardinality(s[o.v]))], !.x = 0])
  ELSE IF o.op = "select" THEN (IF s[o.v] = {} THEN o ELSE [o EXCEPT !.x = o.x % Cardinality(s[o.v])])
  ELSE o
ISetPre(o, s) == /\ (o.op \in {"union!", "intersection!", "difference!"} => o.v # o.w)
                 /\ (o.op \in {"rank", "select"} => s[o.v] # {})
                 /\ (o.op = "rank" => o.k \in s[o.v])
                 /\ (o.op = "select" => o.x < Cardinality(s[o.v]))

ISetEval(o, s) ==
  LET A == s[o.v]  C == s[o.w]  KS == RangeOf(o.ks)
      lin == o.op \in ISetLinear
      Out(new, obs) == IF lin THEN ResKill(new, obs, {o.v}) ELSE Res(new, obs)
      Is(n) == o.op = n
      Is2(n, n2) == o.op \in {n, n2}
  IN CASE Is2("iset", "list->iset") -> Res(<<KS>>, None)
       [] Is("range") -> Res(<<o.k..(o.k + o.x)>>, None)
       [] Is("single") -> Res(<<{o.k}>>, None)
       [] Is("empty") -> Res(<<{}>>, None)
       [] o.op \in {"adjoin", "adjoin!", "list->iset+", "list->iset!"} -> Out(<<A \cup KS>>, None)
       [] Is2("delete", "delete!") -> Out(<<A \ KS>>, None)
       [] o.op \in {"copy", "balance", "optimize"} -> Res(<<A>>, None)
       [] Is2("union", "union!") -> Out(<<A \cup C>>, None)
       [] Is2("intersection", "intersection!") -> Out(<<A \cap C>>, None)
       [] Is2("difference", "difference!") -> Out(<<A \ C>>, None)
       [] Is("contains?") -> Res(<<>>, <<B(o.k \in A)>>)
       [] Is("empty?") -> Res(<<>>, <<B(A = {})>>)
       [] Is("size") -> Res(<<>>, <<Cardinality(A)>>)
       [] o.op \in {"->list", "cursor", "for-each"} -> Res(<<>>, ISetCanon(A))
       [] Is("fold") -> Res(<<>>, <<SetSum(A)>>)
       [] Is("=") -> Res(<<>>, <<B(A = C)>>)
       [] Is("<=") -> Res(<<>>, <<B(A \subseteq C)>>)
       [] Is(">=") -> Res(<<>>, <<B(C \subseteq A)>>)
       [] Is("map") -> Res(<<{IFun(o.x, e) : e \in A}>>, None)
       [] Is("rank") -> Res(<<>>, <<Cardinality({e \in A : e < o.k})>>)
       [] Is("select") -> Res(<<>>, <<ISetCanon(A)[o.x + 1]>>)

ISetLaws(s, live) ==
  \A v \in live, w \in live :
    LET A == s[v] C == s[w]
        N(name) == ISetEval(Op(name, v, w, 0, 0, <<>>), s).new[1]
        O(name) == CHOOSE x \in ISetEval(Op(name, v, w, 0, 0, <<>>), s).obs : TRUE
    IN \A U \in {N("union")}, I \in {N("intersection")}, D \in {N("difference")}, cA \in {ISetCanon(A)} :
       /\ Cardinality(U) + Cardinality(I) = Cardinality(A) + Cardinality(C) /\ D \cup I = A /\ D \cap C = {}
       /\ (O("<=") = <<1>>) = (U = C) /\ (O(">=") = <<1>>) = (U = A)
       /\ (O("=") = <<1>>) = (O("<=") = <<1>> /\ O(">=") = <<1>>)
       /\ O("size") = <<Len(cA)>> /\ ISetWF(cA) /\ ISetFrom(cA) = A
       \* rank and select are inverse
       /\ (v = w) => \A i \in 0..(Len(cA) - 1) :
             \A e \in {ISetEval(Op("select", v, 0, 0, i, <<>>), s).obs} :
                \A x \in e : ISetEval(Op("rank", v, 0, x[1], 0, <<>>), s).obs = {<<i>>}
=======================================================================
