---------------------------- MODULE Map ----------------------------
(* C15, second half: a hash table is a finite map keyed by the classes of its equivalence.

   State: for every live table handle h
      m[h]  : the finite map (a function whose DOMAIN is the set of key classes present),
      al[h] : an association list (sequence of <<key class, value>>, newest binding first) maintained by
              the textbook assq/assoc operations - the "association map keyed by its equivalence" of the
              property statement.
   The invariants say the two never disagree (no duplicate key in the list, same bindings, same size), so
   every answer below may be read off either; the trace specification (MapTrace) compares each answer of
   the real SRFI 69 / SRFI 125 table with the one computed here.
   A key class is an opaque value: the trace specification maps a concrete key object to its class under
   the table's equivalence (equal?: abstract value; eqv?: abstract value for numbers/chars/symbols, location
   otherwise; eq?: location, or the symbol/boolean itself; string=?: code point sequence).
   Values are 0..NV-1; an updater is x |-> Upd(x, d).  Missing = -1, Error = -2 in answers. *)
EXTENDS Integers, Sequences, FiniteSets, TLC
CONSTANTS Keys,      \* key classes (used by the model-checking Next only)
          NV,        \* number of values
          Tabs       \* table handles
VARIABLES live, m, al
vars == <<live, m, al>>
Vals == 0..(NV - 1)
Missing == -1
Error == -2
Upd(x, d) == (x + d) % NV
Empty == [k \in {} |-> 0]

---------------------------------------------------------------------------
\* association list operations
AIndex(a, k) == LET I == {i \in 1..Len(a) : a[i][1] = k} IN      \* first binding of k, 0 if none
                IF I = {} THEN 0 ELSE CHOOSE i \in I : \A j \in I : i <= j
ASet(a, k, v) == IF AIndex(a, k) = 0 THEN <<<<k, v>>>> \o a ELSE [a EXCEPT ![AIndex(a, k)] = <<k, v>>]
ADel(a, k) == SelectSeq(a, LAMBDA p : p[1] # k)
AKeys(a) == {a[i][1] : i \in 1..Len(a)}
ARef(a, k) == IF AIndex(a, k) = 0 THEN Missing ELSE a[AIndex(a, k)][2]
\* finite map operations
MSet(f, k, v) == [x \in DOMAIN f \cup {k} |-> IF x = k THEN v ELSE f[x]]
MDel(f, k) == [x \in DOMAIN f \ {k} |-> f[x]]
MRef(f, k) == IF k \in DOMAIN f THEN f[k] ELSE Missing

---------------------------------------------------------------------------
\* answers (evaluated in the state before the operation)
RefRes(h, k) == MRef(m[h], k)                       \* value, or Missing
ExistsRes(h, k) == k \in DOMAIN m[h]
SizeRes(h) == Cardinality(DOMAIN m[h])
KeysRes(h) == DOMAIN m[h]
AlistRes(h) == {<<k, m[h][k]>> : k \in DOMAIN m[h]}
CountOf(h, v) == Cardinality({k \in DOMAIN m[h] : m[h][k] = v})   \* multiplicity of v among the values
SumRes(h) == LET S[i \in 0..Len(al[h])] == IF i = 0 THEN 0 ELSE S[i - 1] + al[h][i][2] IN S[Len(al[h])]

---------------------------------------------------------------------------
Init == live = {} /\ m = [h \in Tabs |-> Empty] /\ al = [h \in Tabs |-> << >>]

Put(h, k, v) == /\ m' = [m EXCEPT ![h] = MSet(m[h], k, v)]
                /\ al' = [al EXCEPT ![h] = ASet(al[h], k, v)]
                /\ UNCHANGED live

Make(h) == /\ live' = live \cup {h} /\ m' = [m EXCEPT ![h] = Empty] /\ al' = [al EXCEPT ![h] = << >>]
Set(h, k, v) == h \in live /\ Put(h, k, v)
Delete(h, k) == /\ h \in live
                /\ m' = [m EXCEPT ![h] = MDel(m[h], k)] /\ al' = [al EXCEPT ![h] = ADel(al[h], k)]
                /\ UNCHANGED live
\* hash-table-update! without default: the key must be present; otherwise an error and no change
Update(h, k, d) == h \in live /\ k \in DOMAIN m[h] /\ Put(h, k, Upd(m[h][k], d))
UpdateErr(h, k) == h \in live /\ k \notin DOMAIN m[h] /\ UNCHANGED vars
\* hash-table-update!/default and hash-table-update! with a failure thunk returning dv
UpdateDefault(h, k, d, dv) == h \in live /\ Put(h, k, Upd(IF k \in DOMAIN m[h] THEN m[h][k] ELSE dv, d))
\* hash-table-intern! : bind to v unless present; the answer is the binding afterwards
Intern(h, k, v) == h \in live /\ IF k \in DOMAIN m[h] THEN UNCHANGED vars ELSE Put(h, k, v)
InternRes(h, k, v) == IF k \in DOMAIN m[h] THEN m[h][k] ELSE v
\* hash-table-pop! : removes some binding (which one is the table's policy) and answers it
Pop(h, k) == h \in live /\ k \in DOMAIN m[h] /\ Delete(h, k)
Clear(h) == h \in live /\ m' = [m EXCEPT ![h] = Empty] /\ al' = [al EXCEPT ![h] = << >>] /\ UNCHANGED live
\* hash-table-copy : a new independent table with the same bindings (list order is not observable)
Copy(h, h2) == /\ h \in live /\ h2 # h
               /\ live' = live \cup {h2} /\ m' = [m EXCEPT ![h2] = m[h]] /\ al' = [al EXCEPT ![h2] = al[h]]
\* hash-table-merge! / union! : bindings of h2 whose key is not in h are added to h
Merge(h, h2) ==
   /\ h \in live /\ h2 \in live /\ h2 # h
   /\ LET add == SelectSeq(al[h2], LAMBDA p : p[1] \notin DOMAIN m[h]) IN
      /\ m' = [m EXCEPT ![h] = [x \in DOMAIN m[h] \cup DOMAIN m[h2] |-> IF x \in DOMAIN m[h] THEN m[h][x] ELSE m[h2][x]]]
      /\ al' = [al EXCEPT ![h] = add \o al[h]]
   /\ UNCHANGED live
\* pure queries (Ref, Ref/default, Exists, Size, Keys, Values, ->alist, Fold, Walk): the state does not change
Query(h) == h \in live /\ UNCHANGED vars

Next == \/ \E h \in Tabs : Make(h) \/ Clear(h) \/ Query(h)
        \/ \E h \in Tabs, k \in Keys, v \in Vals : Set(h, k, v) \/ Intern(h, k, v)
        \/ \E h \in Tabs, k \in Keys : Delete(h, k) \/ UpdateErr(h, k) \/ Pop(h, k)
        \/ \E h \in Tabs, k \in Keys, d \in Vals : Update(h, k, d)
        \/ \E h \in Tabs, k \in Keys, d \in Vals, dv \in Vals : UpdateDefault(h, k, d, dv)
        \/ \E h \in Tabs, h2 \in Tabs : Copy(h, h2) \/ Merge(h, h2)
Spec == Init /\ [][Next]_vars

---------------------------------------------------------------------------
\* the table and the association list are the same finite map
NoDuplicateKey == \A h \in Tabs : Cardinality(AKeys(al[h])) = Len(al[h])
SameBindings == \A h \in Tabs : /\ AKeys(al[h]) = DOMAIN m[h]
                                /\ \A i \in 1..Len(al[h]) : m[h][al[h][i][1]] = al[h][i][2]
\* (with NoDuplicateKey: assoc on the list and application of the map give the same answer for every key)
LookupAgrees == \A h \in Tabs : \A k \in DOMAIN m[h] : ARef(al[h], k) = m[h][k]
SameSize == \A h \in Tabs : Len(al[h]) = SizeRes(h)
DeadEmpty == \A h \in Tabs \ live : m[h] = Empty /\ al[h] = << >>
ValuesInRange == \A h \in Tabs : \A k \in DOMAIN m[h] : m[h][k] \in Vals
\* answers agree whichever representation is asked, and relate to each other as for any finite map
AnswersAgree == \A h \in Tabs :
   /\ SumRes(h) >= 0
   /\ Cardinality(AlistRes(h)) = SizeRes(h)
   /\ \A k \in DOMAIN m[h] : ExistsRes(h, k) /\ RefRes(h, k) # Missing
   /\ SizeRes(h) = Len(al[h])
=====================================================================
