---------------------------- MODULE EquivNestMC ----------------------------
(* The closed rule for deeply nested data (Equiv!SameNest) against the definition: for every two nests with
   k, k' <= MaxK over two leaves and the three shapes,
     - SameNest holds iff the graphs written out by NestGraph are bisimilar (SameGraph) iff their unfoldings
       cut at a depth beyond both are equal trees;
     - equal nests have equal bounded unfoldings (whatever a structural hash of bounded depth looks at);
     - the unfolding of a k-fold nest is deeper than k (so it cannot equal a graph that is shallower).
   The states are the pairs of nests; Next deepens one side, so that the rule is followed along growing k. *)
EXTENDS Equiv
CONSTANT MaxK
VARIABLES m, n
Shapes == {"lt", "vf", "car"}
Aux(s) == IF s = "lt" THEN <<3, 4>> ELSE IF s = "vf" THEN <<5>> ELSE <<4>>      \* atom ids of 1, (), 1.5
Mk(s, k, l) == [shape |-> s, k |-> k, leaf |-> l, aux |-> Aux(s)]
Nests == {Mk(s, k, l) : s \in Shapes, k \in 0..MaxK, l \in {1, 2}}
Init == m \in {x \in Nests : x.k = 0} /\ n \in {x \in Nests : x.k = 0}
Next == \/ m.k < MaxK /\ \E s \in Shapes : m' = Mk(s, m.k + 1, m.leaf) /\ UNCHANGED n
        \/ n.k < MaxK /\ \E s \in Shapes : n' = Mk(s, n.k + 1, n.leaf) /\ UNCHANGED m
        \/ m' = Mk(m.shape, m.k, 3 - m.leaf) /\ UNCHANGED n
Spec == Init /\ [][Next]_<<m, n>>
D == 3 * MaxK + 4
InvRuleIsBisimulation == SameNest(m, n) <=> SameGraph(NestGraph(m), NestGraph(n))
InvRuleIsUnfolding == SameNest(m, n) <=> (Tree(NestGraph(m), D, 1) = Tree(NestGraph(n), D, 1))
InvBoundedHash == SameNest(m, n) => \A d \in {1, 3, 5} : Tree(NestGraph(m), d, 1) = Tree(NestGraph(n), d, 1)
\* nothing of the leaf is visible above depth k: cut at depth k the two leaves give the same tree
InvLeafBelowK == m.k > 0 => Tree(NestGraph(m), m.k, 1) = Tree(NestGraph(Mk(m.shape, m.k, 3 - m.leaf)), m.k, 1)
InvDeclared == SameDeclared([sym |-> 1, nest |-> m], [sym |-> 1, nest |-> n])
               <=> SameDeclared([sym |-> 1, nest |-> m], [sym |-> 0, g |-> NestGraph(n)])
=============================================================================
