---------------------------- MODULE PrimTrace ----------------------------
(* Trace validation for C01: a long-lived session of the real interpreter applies the enumerated calls
   under `guard`; every outcome is checked against Contract, the actual contents of the session's
   objects are compared with the abstract state after EVERY call (an error must change nothing), a fixed
   probe program must keep its value, and every Begin must be followed by its result (no crash, no hang).
   Reader events: arbitrary text handed to `read`: value or error, session intact. *)
EXTENDS Prim, IOUtils
TraceLog == ndJsonDeserialize(IOEnv.TRACE)
VARIABLES l, pending
Ev == TraceLog[l]
IsEvent(e) == l <= Len(TraceLog) /\ Ev.e = e /\ l' = l + 1
SameRes(logged, v) ==
   /\ logged[1] = v[1]
   /\ CASE v[1] = "i" -> logged[2] = v[2]
        [] v[1] \in {"vec", "str", "bv", "list"} -> Len(logged[2]) = Len(v[2]) /\ \A i \in 1..Len(v[2]) : logged[2][i] = v[2][i]
        [] OTHER -> TRUE
StateLogged(s) == /\ Len(Ev.V) = Len(s.V) /\ \A i \in 1..Len(s.V) : Ev.V[i] = s.V[i]
                  /\ Len(Ev.S) = Len(s.S) /\ \A i \in 1..Len(s.S) : Ev.S[i] = s.S[i]
                  /\ Len(Ev.B) = Len(s.B) /\ \A i \in 1..Len(s.B) : Ev.B[i] = s.B[i]
                  /\ Ev.probe = 14
TBegin == /\ IsEvent("Begin") /\ pending = -1 /\ pending' = Ev.id /\ UNCHANGED <<sst, last>>
TCall == /\ IsEvent("Call") /\ pending = Ev.id /\ pending' = -1
         /\ LET r == Contract(Ev.c, sst) IN
            /\ (r[1] = "val" => Ev.class = "val" /\ SameRes(Ev.val, r[2]))
            /\ (r[1] = "err" => Ev.class = "err")
            /\ (r[1] = "errv" => (Ev.class = "err" \/ SameRes(Ev.val, r[2])))
            /\ Ev.class \in {"val", "err"}
            /\ last' = <<r[1], Ev.c[1]>>
            /\ IF r[1] = "shape"
               THEN /\ sst' = [V |-> Ev.V, S |-> Ev.S, B |-> Ev.B, L |-> sst.L] /\ Ev.probe = 14      \* bound from the log; Shape is an invariant
               ELSE /\ sst' = r[3] /\ StateLogged(r[3])
TRead == /\ IsEvent("Read") /\ pending = Ev.id /\ pending' = -1
         /\ Ev.class \in {"val", "err"} /\ StateLogged(sst) /\ UNCHANGED <<sst, last>>
TReset == /\ IsEvent("Reset") /\ pending = -1 /\ sst' = InitState /\ last' = <<"none">> /\ UNCHANGED pending
TDone == /\ IsEvent("Done") /\ pending = -1 /\ UNCHANGED <<sst, last, pending>>
TraceInit == Init /\ l = 1 /\ pending = -1
TraceNext == TBegin \/ TCall \/ TRead \/ TReset \/ TDone
TraceSpec == TraceInit /\ [][TraceNext]_<<sst, last, l, pending>>
Accepted == LET d == TLCGet("stats").diameter IN
            IF d - 1 = Len(TraceLog) /\ TraceLog[Len(TraceLog)].e = "Done" THEN TRUE
            ELSE PrintT(<<"TRACE_REJECTED_AT", d, Len(TraceLog)>>) /\ FALSE
=========================================================================
