SPECIFICATION Spec
CONSTANTS
  Alphabet <- Boundary8
  NRegs = 1
  NCur = 1
  MaxLen = 2
  Lits <- LitsFull
  UsePorts = FALSE
  UseCursors = TRUE
VIEW View
INVARIANTS TypeOK LenIsCount Utf8RoundTrip CursorIndexBijection
PROPERTY ErrKeepsState
