---------------------------- MODULE CoreRun ----------------------------
(* Runs the Core machine on every program of a batch and compares the terminal state with what the
   real interpreter printed for the same program (fields out / status of the record).  The verdict
   per program is printed by TLC ("OK" / "MISMATCH"); the check counts them. *)
EXTENDS Core, Json, IOUtils
Progs == ndJsonDeserialize(IOEnv.TRACE)
RECURSIVE SameVal(_, _)
IsDepth(a) == a[1] = "p" /\ a[2] = <<"s", "D">>      \* a stack-depth sample (cons 'D depth): units differ, compared by DepthOK
SameVal(a, b) ==
   /\ Len(a) = Len(b) /\ a[1] = b[1]
   /\ CASE a[1] \in {"i", "b", "s", "err"} -> a[2] = b[2]
        [] IsDepth(a) -> IsDepth(b)
        [] a[1] = "p" -> SameVal(a[2], b[2]) /\ SameVal(a[3], b[3])
        [] a[1] \in {"clo", "k", "param"} -> TRUE
        [] OTHER -> TRUE
\* how the machine's values are observed: procedures are opaque, error objects only by class
Obs(v) == CASE v[1] \in {"clo", "k", "param"} -> <<"s", "PROC">>
            [] v[1] = "err" -> <<"s", "ERR">>
            [] OTHER -> v
RECURSIVE ObsDeep(_)
ObsDeep(v) == IF v[1] = "p" THEN <<"p", ObsDeep(v[2]), ObsDeep(v[3])>> ELSE Obs(v)
SameOut(a, b) == Len(a) = Len(b) /\ \A i \in 1..Len(a) : SameVal(ObsDeep(a[i]), b[i])
\* C05: wherever the machine's continuation depth samples agree, the implementation's stack samples agree
\* C05: where the machine's continuation depth is the same at all samples (a loop in tail position), the
\* implementation's stack top is the same at all samples of the long run; where it grows, the stack grows
Depths(q) == SelectSeq(q, IsDepth)
AllSame(q) == \A i \in 1..Len(q) : q[i] = q[1]
Increasing(q) == \A i \in 1..(Len(q) - 1) : q[i] < q[i+1]
DepthOK(p) ==
   IF "big" \notin DOMAIN p THEN TRUE
   ELSE LET md == [i \in 1..Len(Depths(out)) |-> Depths(out)[i][3][2]] IN
        /\ Len(md) >= 2 /\ Len(p.big) >= 2
        /\ (AllSame(md) => AllSame(p.big))
        /\ (Increasing(md) => Increasing(p.big))
Verdict ==
   status # "run" =>
      LET p == Programs[pidx] IN
      IF status = p.status /\ SameOut(out, p.out) /\ DepthOK(p)
      THEN PrintT(<<"OK", p.id, steps, maxk>>)
      ELSE PrintT(<<"MISMATCH", p.id, status, steps>>)
=========================================================================
