SPECIFICATION Spec
CONSTANTS N = 4
          Mode = "gen4"
INVARIANTS WF CycleDef Emit
CHECK_DEADLOCK FALSE
