SPECIFICATION Spec
CONSTANTS Sigma = {97, 98}
          MaxLen = 1
          Level = 3
          Fam = "full"
INVARIANTS TwoFormulations SearchIsContextMatch SearchFromMatch GroupsWF ReportSound ReportRejectsNonMatch 
CHECK_DEADLOCK FALSE
