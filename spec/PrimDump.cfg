SPECIFICATION Spec
CONSTANTS DoDump = TRUE
 Vals <- FullVals
CONSTRAINT DumpConstraint
