SPECIFICATION GenSpec
CONSTANTS
  Ids = {1, 2, 3, 4, 5, 6}
  NoId = 0
  Menu <- MenuG
  InitSeg = 40
  GrowSizes = {80}
  MaxSegs = 1
  NRegs = 3
  TiedRegs = FALSE
  MaxSaves = 3
  AllowTmp = FALSE
  FirstFitOnly = TRUE
  D = 40
CONSTRAINT GenConstraint
INVARIANTS Dump Tiling FreeSorted RefsValid NoPrematureFree HeldValid NoLeak EphSound
