SPECIFICATION Spec
CONSTANTS N = 3
          Mode = "gen"
INVARIANTS WF CycleDef Emit
CHECK_DEADLOCK FALSE
