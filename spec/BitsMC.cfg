SPECIFICATION Spec
CONSTANTS W = 2
          N = 64
INVARIANTS DivSem BitView Logic Shift Counts Single Fields Lists
CHECK_DEADLOCK FALSE
