SPECIFICATION Spec
CONSTANTS W = 2
          N = 40
INVARIANTS DivSem BitView Logic Shift Counts Single Fields Lists
CHECK_DEADLOCK FALSE
