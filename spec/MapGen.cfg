SPECIFICATION GenSpec
CONSTANTS Keys = {1, 2, 3}
          NV = 2
          Tabs = {1, 2}
          D = 30
INVARIANTS Dump NoDuplicateKey SameBindings SameSize
