---------------------------- MODULE Num ----------------------------
(* C04: exact arithmetic is mathematically exact at every magnitude, results are canonical.

   A recorded call  [op, a (exact arguments), k (small integer parameters), cs (characters),
                     f (flags / 16-bit words), r (results), c (certificates), err]
   is accepted iff the results satisfy the defining relation of the operation (BigNat.tla) and
   are canonical.  Arguments are rationals <<n, d>> (d = <<1>> for integers); a result is a record
       [v |-> <<n, d>>, rat |-> 1 iff the implementation holds a ratio object, fx |-> (fixnum? result),
        cert |-> Bezout coefficients for (n, d) when rat = 1]
   Certificates (c, cert) are supplied by untrusted glue; a wrong certificate can only cause a
   rejection, never an acceptance of a wrong result.                                               *)
EXTENDS BigNat
CONSTANT FixBits              \* n is a fixnum iff -2^FixBits <= n < 2^FixBits (read from the build)

FixHi == <<0, Pow2(FixBits)>>
FixLo == <<1, Pow2(FixBits)>>
IsFix(n) == ILe(FixLo, n) /\ ILt(n, FixHi)
Q(R) == R.v
\* canonical form: integer <=> no ratio object; fixnum iff it fits; ratio in lowest terms, denominator >= 2
Canon(R) == LET n == R.v[1]  d == R.v[2] IN
   /\ IsInt(n) /\ IsNat(d) /\ Len(d) > 0
   /\ IF R.rat = 0 THEN d = <<1>> /\ R.fx = (IF IsFix(n) THEN 1 ELSE 0)
      ELSE d # <<1>> /\ R.fx = 0 /\ Coprime(n, d, R.cert)
IntRes(R) == Canon(R) /\ R.rat = 0
I(R) == R.v[1]
IsIntArg(q) == IsRat(q) /\ q[2] = <<1>>
Lowest(q, cert) == q[2] = <<1>> \/ Coprime(q[1], q[2], cert)
Flag(bool) == IF bool THEN 1 ELSE 0

\* IEEE double given as four 16-bit words (most significant first) denotes the rational q
DblOK(w, q) ==
   LET s == w[1] \div 32768
       e == (w[1] % 32768) \div 16
       hi == (w[1] % 16) + (IF e > 0 THEN 16 ELSE 0)
       m == Add(ShiftLeft(NatOf(hi), 48), Add(ShiftLeft(NatOf(w[2]), 32), Add(ShiftLeft(NatOf(w[3]), 16), NatOf(w[4]))))
       ex == IF e = 0 THEN 0 - 1074 ELSE e - 1075
   IN /\ e < 2047                                            \* finite
      /\ QEq(q, IF ex >= 0 THEN <<MkInt(s, ShiftLeft(m, ex)), <<1>> >> ELSE <<MkInt(s, m), Pow2(0 - ex)>>)

Args(ev, n) == Len(ev.a) = n /\ \A i \in 1..n : IsRat(ev.a[i])
IntArgs(ev, n) == Len(ev.a) = n /\ \A i \in 1..n : IsIntArg(ev.a[i])
Ress(ev, n) == Len(ev.r) = n

RECURSIVE AcceptNum(_)
AcceptNum(ev) ==
   LET op == ev.op
       x == ev.a[1]  y == ev.a[2]
       xi == ev.a[1][1]  yi == ev.a[2][1]
       r1 == ev.r[1]  r2 == ev.r[2]
   IN
   /\ ev.err = 0
   /\ CASE op = "+" -> Args(ev, 2) /\ Ress(ev, 1) /\ Canon(r1) /\ QEq(Q(r1), QAdd(x, y))
        [] op = "-" -> Args(ev, 2) /\ Ress(ev, 1) /\ Canon(r1) /\ QEq(Q(r1), QSub(x, y))
        [] op = "*" -> Args(ev, 2) /\ Ress(ev, 1) /\ Canon(r1) /\ QEq(Q(r1), QMul(x, y))
        [] op = "/" -> Args(ev, 2) /\ Ress(ev, 1) /\ QSign(y) # 0 /\ Canon(r1) /\ QEq(Q(r1), QDiv(x, y))
        [] op = "neg" -> Args(ev, 1) /\ Ress(ev, 1) /\ Canon(r1) /\ QEq(Q(r1), QNeg(x))
        [] op = "inv" -> Args(ev, 1) /\ Ress(ev, 1) /\ QSign(x) # 0 /\ Canon(r1) /\ QEq(Q(r1), QInv(x))
        [] op = "abs" -> Args(ev, 1) /\ Ress(ev, 1) /\ Canon(r1) /\ QEq(Q(r1), <<IAbs(xi), x[2]>>)
        [] op \in {"quotient", "truncate-quotient"} ->
              IntArgs(ev, 2) /\ Ress(ev, 1) /\ IntRes(r1) /\ TruncDiv(xi, yi, I(r1), ISub(xi, IMul(I(r1), yi)))
        [] op = "floor-quotient" ->
              IntArgs(ev, 2) /\ Ress(ev, 1) /\ IntRes(r1) /\ FloorDiv(xi, yi, I(r1), ISub(xi, IMul(I(r1), yi)))
        [] op \in {"remainder", "truncate-remainder"} ->          \* c[1]: the quotient
              IntArgs(ev, 2) /\ Ress(ev, 1) /\ IntRes(r1) /\ TruncDiv(xi, yi, ev.c[1], I(r1))
        [] op \in {"modulo", "floor-remainder"} ->
              IntArgs(ev, 2) /\ Ress(ev, 1) /\ IntRes(r1) /\ FloorDiv(xi, yi, ev.c[1], I(r1))
        [] op = "truncate/" -> IntArgs(ev, 2) /\ Ress(ev, 2) /\ IntRes(r1) /\ IntRes(r2) /\ TruncDiv(xi, yi, I(r1), I(r2))
        [] op = "floor/" -> IntArgs(ev, 2) /\ Ress(ev, 2) /\ IntRes(r1) /\ IntRes(r2) /\ FloorDiv(xi, yi, I(r1), I(r2))
        [] op = "gcd" -> IntArgs(ev, 2) /\ Ress(ev, 1) /\ IntRes(r1) /\ GcdOK(xi, yi, I(r1), ev.c)
        [] op = "lcm" -> IntArgs(ev, 2) /\ Ress(ev, 1) /\ IntRes(r1) /\ LcmOK(xi, yi, I(r1), ev.c)
        [] op = "numerator" -> Args(ev, 1) /\ Ress(ev, 1) /\ Lowest(x, ev.c) /\ IntRes(r1) /\ I(r1) = xi
        [] op = "denominator" -> Args(ev, 1) /\ Ress(ev, 1) /\ Lowest(x, ev.c) /\ IntRes(r1) /\ I(r1) = <<0, x[2]>>
        [] op = "expt" -> Args(ev, 1) /\ Ress(ev, 1) /\ (QSign(x) = 0 => ev.k[1] >= 0)
                          /\ Canon(r1) /\ QEq(Q(r1), QPow(x, ev.k[1]))
        [] op = "exact-integer-sqrt" -> IntArgs(ev, 1) /\ Ress(ev, 2) /\ IntRes(r1) /\ IntRes(r2) /\ SqrtOK(xi, I(r1), I(r2))
        [] op = "floor" -> Args(ev, 1) /\ Ress(ev, 1) /\ IntRes(r1) /\ FloorOK(x, I(r1))
        [] op = "ceiling" -> Args(ev, 1) /\ Ress(ev, 1) /\ IntRes(r1) /\ CeilOK(x, I(r1))
        [] op = "truncate" -> Args(ev, 1) /\ Ress(ev, 1) /\ IntRes(r1) /\ TruncOK(x, I(r1))
        [] op = "round" -> Args(ev, 1) /\ Ress(ev, 1) /\ IntRes(r1) /\ RoundOK(x, I(r1))
        [] op = "=" -> Args(ev, 2) /\ ev.f = <<Flag(QCmp(x, y) = 0)>>
        [] op = "<" -> Args(ev, 2) /\ ev.f = <<Flag(QCmp(x, y) < 0)>>
        [] op = ">" -> Args(ev, 2) /\ ev.f = <<Flag(QCmp(x, y) > 0)>>
        [] op = "<=" -> Args(ev, 2) /\ ev.f = <<Flag(QCmp(x, y) <= 0)>>
        [] op = ">=" -> Args(ev, 2) /\ ev.f = <<Flag(QCmp(x, y) >= 0)>>
        \* exact -> inexact of a representable value: f = the double's words
        [] op = "inexact" -> Args(ev, 1) /\ Len(ev.f) = 4 /\ DblOK(ev.f, x)
        \* inexact -> exact: k = the argument's words
        [] op = "exact" -> Ress(ev, 1) /\ Len(ev.k) = 4 /\ Canon(r1) /\ DblOK(ev.k, Q(r1))
        \* k[1] = radix; cs = the characters produced / consumed
        [] op = "number->string" -> Args(ev, 1) /\ ev.k[1] \in 2..36 /\ Denotes(ev.cs, ev.k[1], x)
        [] op = "string->number" -> Ress(ev, 1) /\ ev.k[1] \in 2..36 /\ Canon(r1) /\ Denotes(ev.cs, ev.k[1], Q(r1))
        \* two routes to a value: (x + y) and (z - w), resp. (x * y) and (z / w); f = (eqv? r1 r2).
        \* Canonical results are eqv? exactly when they are numerically equal.
        [] op = "eqv+-" -> Args(ev, 4) /\ Ress(ev, 2) /\ Canon(r1) /\ Canon(r2)
                           /\ QEq(Q(r1), QAdd(x, y)) /\ QEq(Q(r2), QSub(ev.a[3], ev.a[4]))
                           /\ ev.f = <<Flag(QEq(Q(r1), Q(r2)))>> /\ (QEq(Q(r1), Q(r2)) <=> Q(r1) = Q(r2))
        [] op = "eqv*/" -> Args(ev, 4) /\ Ress(ev, 2) /\ QSign(ev.a[4]) # 0 /\ Canon(r1) /\ Canon(r2)
                           /\ QEq(Q(r1), QMul(x, y)) /\ QEq(Q(r2), QDiv(ev.a[3], ev.a[4]))
                           /\ ev.f = <<Flag(QEq(Q(r1), Q(r2)))>> /\ (QEq(Q(r1), Q(r2)) <=> Q(r1) = Q(r2))
        \* base operation (ev.base) followed by the operand objects as they are after the call: results as for the
        \* base operation, and the operands still denote the values they had (an operation does not change its operands)
        [] op = "keep" -> /\ Len(ev.r) > Len(ev.a)
                          /\ LET nr == Len(ev.r) - Len(ev.a) IN
                             /\ AcceptNum([ev EXCEPT !.op = ev.base, !.r = SubSeq(ev.r, 1, nr)])
                             /\ \A i \in 1..Len(ev.a) : Canon(ev.r[nr + i]) /\ Q(ev.r[nr + i]) = ev.a[i]
        [] OTHER -> FALSE

\* ---- the boundary lattice (magnitudes; the generator takes both signs)
Lattice(KS, Words) ==
   {<<>>, <<1>>, <<2>>}
   \cup UNION {{Pow2(k), Add(Pow2(k), <<1>>), Sub(Pow2(k), <<1>>)} : k \in KS}
   \cup UNION {{Add(Pow2(FixBits), NatOf(dlt)), Sub(Pow2(FixBits), NatOf(dlt))} : dlt \in 0..2}
   \* all-ones words i..j-1 below a one / above a one, zero interior words
   \cup UNION {IF j <= i THEN {} ELSE
               {Sub(Pow2(64 * j), Pow2(64 * i)),
                Add(Sub(Pow2(64 * j), Pow2(64 * i)), <<1>>),
                Add(Pow2(64 * (j + 1)), Sub(Pow2(64 * j), Pow2(64 * i))),
                Add(Pow2(64 * j), Pow2(64 * i))} : i \in Words, j \in Words}
===================================================================
