SPECIFICATION TraceSpec
CONSTANTS
  Alphabet <- Boundary8
  NRegs = 3
  NCur = 2
  MaxLen = 100000
  Lits <- LitsFull
  UsePorts = TRUE
  UseCursors = TRUE
INVARIANTS TypeOK LiveLenIsCount
POSTCONDITION Accepted
CHECK_DEADLOCK FALSE
