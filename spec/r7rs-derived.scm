;; Derived expression types, as defined by syntax-rules in R7RS-small section 7.3 ("Derived expression types").
;; This file is part of the specification: Hygiene.tla has no built-in knowledge of these forms, it expands them
;; with these definitions.  (letrec / letrec* are primitive binding forms of Hygiene.tla, as Core.tla has letrec*.)
(define-syntax let
  (syntax-rules ()
    ((let ((name val) ...) body1 body2 ...)
     ((lambda (name ...) body1 body2 ...) val ...))
    ((let tag ((name val) ...) body1 body2 ...)
     ((letrec ((tag (lambda (name ...) body1 body2 ...))) tag) val ...))))
(define-syntax let*
  (syntax-rules ()
    ((let* () body1 body2 ...)
     (let () body1 body2 ...))
    ((let* ((name1 val1) (name2 val2) ...) body1 body2 ...)
     (let ((name1 val1)) (let* ((name2 val2) ...) body1 body2 ...)))))
(define-syntax and
  (syntax-rules ()
    ((and) #t)
    ((and test) test)
    ((and test1 test2 ...) (if test1 (and test2 ...) #f))))
(define-syntax or
  (syntax-rules ()
    ((or) #f)
    ((or test) test)
    ((or test1 test2 ...) (let ((x test1)) (if x x (or test2 ...))))))
(define-syntax when
  (syntax-rules ()
    ((when test result1 result2 ...) (if test (begin result1 result2 ...)))))
(define-syntax unless
  (syntax-rules ()
    ((unless test result1 result2 ...) (if (not test) (begin result1 result2 ...)))))
(define-syntax cond
  (syntax-rules (else =>)
    ((cond (else result1 result2 ...)) (begin result1 result2 ...))
    ((cond (test => result)) (let ((temp test)) (if temp (result temp))))
    ((cond (test => result) clause1 clause2 ...)
     (let ((temp test)) (if temp (result temp) (cond clause1 clause2 ...))))
    ((cond (test)) test)
    ((cond (test) clause1 clause2 ...)
     (let ((temp test)) (if temp temp (cond clause1 clause2 ...))))
    ((cond (test result1 result2 ...)) (if test (begin result1 result2 ...)))
    ((cond (test result1 result2 ...) clause1 clause2 ...)
     (if test (begin result1 result2 ...) (cond clause1 clause2 ...)))))
(define-syntax do
  (syntax-rules ()
    ((do ((var init step ...) ...) (test expr ...) command ...)
     (letrec ((loop (lambda (var ...)
                      (if test
                          (begin (if #f #f) expr ...)
                          (begin command ... (loop (do "step" var step ...) ...))))))
       (loop init ...)))
    ((do "step" x) x)
    ((do "step" x y) y)))
