SPECIFICATION Spec
CONSTANTS MaxK = 4
INVARIANTS InvRuleIsBisimulation InvRuleIsUnfolding InvBoundedHash InvLeafBelowK InvDeclared
