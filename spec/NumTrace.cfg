SPECIFICATION TraceSpec
CONSTANTS W = 10
          FixBits = 62
POSTCONDITION Accepted
CHECK_DEADLOCK FALSE
