---------------------------- MODULE HygRun ----------------------------
(* C07: for every generated program (S-expression with syntax-rules macros) and every consistent renaming of its
   user variables
     1. RenamingInvariant: the expansion (Hygiene.tla) of the renamed program is literally the expansion of the
        original (labels and marks are positions, not names) - the hygiene theorem, decided by TLC per case;
     2. the Core machine is run once on that expansion, and what the real interpreter printed for EVERY renamed
        copy must be the machine's output.
   Input (ndjson, IOEnv.TRACE): one record per program  [id, sx, rens: <<renaming>>, outs: <<[status, out]>>]
   with renaming = sequence of <<from, to>>.  IOEnv.PRELUDE: one record [name, spec] per R7RS 7.3 derived form. *)
EXTENDS CoreRun, Hygiene
Raw == ndJsonDeserialize(IOEnv.TRACE)
Pre == ndJsonDeserialize(IOEnv.PRELUDE)
Menv0 == [kk \in {"g:" \o Pre[i].name : i \in 1..Len(Pre)} |-> Norm(Pre[CHOOSE i \in 1..Len(Pre) : "g:" \o Pre[i].name = kk].spec)]
Expand(sx) == Exp(Norm(sx), Menv0, <<>>)
HProgs == [i \in 1..Len(Raw) |-> [id |-> Raw[i].id, prog |-> Expand(Raw[i].sx)]]

RenamingInvariant(i) == \A j \in 1..Len(Raw[i].rens) : CoreEq(Expand(Rename(Raw[i].sx, Raw[i].rens[j])), HProgs[i].prog)

HVerdict ==
   status # "run" =>
      LET p == Raw[pidx] IN
      IF HasErr(HProgs[pidx].prog) THEN PrintT(<<"EXPERR", p.id>>)
      ELSE IF ~RenamingInvariant(pidx) THEN PrintT(<<"NOTINVARIANT", p.id>>)
      ELSE \A j \in 1..Len(p.outs) :
              IF status = p.outs[j].status /\ SameOut(out, p.outs[j].out)
              THEN PrintT(<<"OK", p.id, j>>)
              ELSE PrintT(<<"MISMATCH", p.id, j, status>>)
=========================================================================
