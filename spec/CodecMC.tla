------------------------------ MODULE CodecMC ------------------------------
(* The specification checks itself: decoders invert the encoders / reference renderings, the
   Allowed predicates accept them and reject damaged texts, integer byte layouts agree with TLC's
   own integers, UTF-8 agrees with the well-formedness table.  One state per case (fam, c).
   GenSmall prints the small byte strings so that the same enumeration is run on the implementation. *)
EXTENDS Codec, TLC, Json
VARIABLES fam, c

Alpha == {0, 10, 13, 32, 37, 43, 61, 65, 95, 102, 127, 128, 255}
Strs(n) == UNION {[1..k -> Alpha] : k \in 0..n}
ByteStrs == Strs(3)

HexDigitU(v) == IF v < 10 THEN 48 + v ELSE 55 + v
\* reference encoders (simplest admissible ones)
QpRefByte(b) == IF b >= 33 /\ b <= 126 /\ b # 61 THEN <<b>> ELSE <<61, HexDigitU(b \div 16), HexDigitU(b % 16)>>
QpRef(x) == Cat([i \in 1..Len(x) |-> QpRefByte(x[i])])
QpAllEsc(x) == Cat([i \in 1..Len(x) |-> <<61, HexDigitU(x[i] \div 16), HexDigitU(x[i] % 16)>>])
QpWrap(x) == Cat([i \in 1..Len(x) |-> <<61, HexDigitU(x[i] \div 16), HexDigitU(x[i] % 16)>>
                                        \o (IF i % 25 = 0 /\ i < Len(x) THEN <<61, 13, 10>> ELSE <<>>)])
UriRefByte(b) == IF UriUnreserved(b) THEN <<b>> ELSE <<37, HexDigit(b \div 16), HexDigitU(b % 16)>>
UriRef(x) == Cat([i \in 1..Len(x) |-> UriRefByte(x[i])])
Damage(t, i, ch) == [t EXCEPT ![i] = ch]

BytesLaw(x) ==
  LET e == B64Enc(x) IN
  /\ Len(e) = B64EncLen(Len(x)) /\ B64Allowed(e) /\ B64Dec(e) = x
  /\ \A i \in 1..Len(e) : ~B64Allowed(Damage(e, i, 42))                        \* '*' is never allowed
  /\ (Len(e) > 0 => ~B64Allowed(SubSeq(e, 1, Len(e) - 1)))                     \* nor a truncated text
  /\ B64LaxDomain(e) /\ B64DecLax(e) = x                                        \* MIME reading agrees on strict text
  /\ LET u == SubSeq(e, 1, Len(e) - B64Pads(e))                                  \* padding removed
         w == Cat([i \in 1..Len(e) |-> <<e[i]>> \o (IF i % 2 = 0 THEN <<13, 10>> ELSE <<32>>)])   \* ignorable characters everywhere
     IN  /\ B64LaxDomain(u) /\ B64DecLax(u) = x
         /\ B64LaxDomain(w) /\ B64DecLax(w) = x
         /\ B64DecLax(u \o <<10>>) = x /\ B64DecLax(<<10, 46>> \o u) = x
         /\ (Len(u) > 0 => ~B64LaxDomain(u \o <<65>>) \/ B64DecLax(u \o <<65>>) # x \/ Len(u) % 4 = 3)
  /\ ~B64LaxDomain(<<65>> \o e \o <<65>>) \/ Len(e) = 0 \/ B64Pads(e) = 0         \* data after the padding
  /\ QpAllowed(QpRef(x)) /\ QpDec(QpRef(x)) = x
  /\ QpAllowed(QpAllEsc(x)) /\ QpDec(QpAllEsc(x)) = x
  /\ (Len(x) > 0 => ~QpCharsOk(SubSeq(QpAllEsc(x), 1, 3 * Len(x) - 1)))        \* escape cut short
  /\ ((\E i \in 1..Len(x) : x[i] > 126 \/ (x[i] < 32 /\ x[i] \notin {9, 10, 13})) => ~QpCharsOk(x))   \* raw 8-bit / control
  /\ UriAllowed(UriRef(x), FALSE) /\ UriDec(UriRef(x), FALSE) = x
  /\ UriAllowed(UriRef(x), TRUE) /\ UriDec(UriRef(x), TRUE) = x /\ UriDec(<<43>> \o UriRef(x), TRUE) = <<32>> \o x
  /\ ~UriAllowed(<<43>> \o UriRef(x), FALSE)
  /\ ((\E i \in 1..Len(x) : ~UriUnreserved(x[i]) /\ x[i] # 37) => ~UriAllowed(x, FALSE))
  /\ HexOfBytes(x) = Cat([i \in 1..Len(x) |-> <<HexDigit(x[i] \div 16), HexDigit(x[i] % 16)>>])

\* quoted-printable line rule: 76 is allowed, 77 is not; soft breaks repair it
QpLineLaw(n) ==
  LET x == [i \in 1..n |-> 255]
      lit == [i \in 1..n |-> 97] IN
  /\ QpAllowed(QpWrap(x)) /\ QpDec(QpWrap(x)) = x
  /\ QpLinesOk(QpAllEsc(x)) <=> 3 * n <= 76
  /\ QpLinesOk(lit) <=> n <= 76
  /\ QpLinesOk(lit \o <<13, 10>> \o lit) <=> n <= 76
  /\ QpDec(lit \o <<61, 13, 10>> \o lit) = lit \o lit

\* integers: digit layout against TLC's integers
Digits(m) == IF m = 0 THEN <<>> ELSE IF m < 256 THEN <<m>> ELSE IF m < 65536 THEN <<m % 256, m \div 256>>
             ELSE <<m % 256, (m \div 256) % 256, m \div 65536>>                \* m < 2^24
Abs(v) == IF v < 0 THEN -v ELSE v
IntLaw(size, v) ==
  LET neg == IF v < 0 THEN 1 ELSE 0
      mag == Digits(Abs(v))
      mod == 256 ^ size
      w == ((v % mod) + mod) % mod                                             \* v mod 256^size, non-negative
      le == [i \in 1..size |-> (w \div (256 ^ (i - 1))) % 256]
  IN
  /\ FitsU(neg, mag, size) <=> (v >= 0 /\ v < mod)
  /\ FitsS(neg, mag, size) <=> (v >= -(mod \div 2) /\ v < mod \div 2)
  /\ (FitsU(neg, mag, size) \/ FitsS(neg, mag, size)) =>
        /\ IntBytes(neg, mag, size, FALSE) = le
        /\ IntBytes(neg, mag, size, TRUE) = Rev(le)
  /\ FitsS(neg, mag, size) => IsValueOf(TRUE, neg, mag, le, FALSE) /\ IsValueOf(TRUE, neg, mag, Rev(le), TRUE)
  /\ FitsU(neg, mag, size) => IsValueOf(FALSE, neg, mag, le, FALSE)
  /\ (v >= 0 /\ v < 2097152) =>
        LET b == BerEnc(mag)  n == Len(b) IN
        /\ \A i \in 1..n : (b[i] >= 128) <=> (i < n)
        /\ v = FoldLeft(LAMBDA a, d : a * 128 + (d % 128), 0, b)
        /\ (n > 1 => b[1] # 128)
  /\ LET b == [i \in 1..(size + 2) |-> 17 * i] IN
     /\ Splice(b, 1, le) = [i \in 1..(size + 2) |-> IF i = 1 \/ i = size + 2 THEN 17 * i ELSE le[i - 1]]
     /\ Slice(Splice(b, 1, le), 1, size) = le
     /\ InRange(size + 2, 2, size) /\ ~InRange(size + 2, 3, size) /\ ~InRange(size + 2, -1, size)

IntCases == ({1} \X (-130..260)) \cup ({2} \X ((-32770..-32760) \cup (-260..260) \cup (32760..32775) \cup (65530..65540)))
            \cup ({2} \X {k * 37 : k \in -900..1800}) \cup ({3} \X {-8388609, -8388608, -8388607, -65536, -1, 0, 1, 255, 256, 65535, 65536, 8388607, 8388608, 16777215})

\* UTF-8
CpCases == (0..2200) \cup (55200..57400) \cup (63400..66000) \cup {k * 257 : k \in 0..4333} \cup (1113000..1114111)
CpLaw(cp) ==
  LET u == Utf8Of(cp) IN
  /\ IsScalar(cp) <=> Utf8Valid(u)
  /\ IsScalar(cp) => Utf8Dec(u) = <<cp>> /\ Utf8Enc(<<cp, 65, cp>>) = u \o <<65>> \o u
  /\ IsScalar(cp) => ~Utf8Valid(SubSeq(u, 1, Len(u) - 1)) \/ Len(u) = 1          \* truncated sequence
  /\ Len(u) > 1 => ~Utf8Valid(Tail(u))                                            \* stray continuation byte
  /\ Len(Utf16Enc(<<cp>>, TRUE)) = (IF cp < 65536 THEN 2 ELSE 4)
  /\ Utf16Enc(<<cp>>, TRUE) = Cat([k \in 1..Len(Utf16Units(cp)) |-> Rev(UnitBytes(Utf16Units(cp)[k], FALSE))])
  /\ (cp >= 65536 => LET w == Utf16Units(cp) IN w[1] \in 55296..56319 /\ w[2] \in 56320..57343
                                              /\ cp = 65536 + (w[1] - 55296) * 1024 + (w[2] - 56320))
  /\ Utf32Enc(<<cp>>, FALSE) = Rev(Utf32Enc(<<cp>>, TRUE))
  /\ cp = Utf32Enc(<<cp>>, FALSE)[1] + 256 * Utf32Enc(<<cp>>, FALSE)[2] + 65536 * Utf32Enc(<<cp>>, FALSE)[3]

\* JSON: small token sequences
JStrs == {<<>>, <<97>>, <<34, 92>>, <<10, 13, 9>>, <<8, 12, 47>>, <<1, 127>>, <<233, 955>>, <<8364, 128512>>, <<65533, 1114111, 0>>}
JScalars == {<<0>>, <<1>>, <<2>>, <<3, 0, 0>>, <<3, 0, 7>>, <<3, 1, 12>>, <<3, 0, 2147483647>>, <<3, 1, 2147483647>>, <<3, 0, 1000000000>>}
            \cup {<<4>> \o s : s \in JStrs}
JKeys == {<<9>> \o s : s \in {<<>>, <<107>>, <<34, 955>>}}
JVal0 == {<<v>> : v \in JScalars}
JArr(vals) == {<< <<5>>, <<6>> >>} \cup {<< <<5>> >> \o a \o << <<6>> >> : a \in vals}
              \cup {<< <<5>> >> \o a \o b \o << <<6>> >> : a \in vals, b \in {<< <<0>> >>, << <<4, 120>> >>, << <<5>>, <<6>> >>}}
JObj(vals) == {<< <<7>>, <<8>> >>} \cup {<< <<7>>, k >> \o a \o << <<8>> >> : k \in JKeys, a \in vals}
              \cup {<< <<7>>, <<9, 97>> >> \o a \o << <<9, 98>>, <<2>>, <<8>> >> : a \in vals}
JVal1 == JVal0 \cup JArr(JVal0) \cup JObj(JVal0)
JVal2 == JVal1 \cup JArr(JVal1) \cup JObj(JVal1)
JsonLaw(toks) ==
  LET t == JRender(toks) IN
  /\ JsonDec(t) = toks
  /\ JsonDec(<<32, 10>> \o t \o <<9, 13>>) = toks                                   \* white space around
  /\ (toks[1][1] # 3 => JsonDec(SubSeq(t, 1, Len(t) - 1)) = JBad)                    \* truncated
  /\ JsonDec(t \o <<93>>) = JBad /\ (toks[1][1] # 3 => JsonDec(t \o t) = JBad)      \* trailing garbage
  /\ \A i \in 1..Len(t) : t[i] = 34 => JsonDec(Damage(t, i, 10)) = JBad              \* raw control char / missing quote
CsvFields == {<<>>, <<97>>, <<34>>, <<44, 32>>, <<13, 10>>, <<10, 34, 34>>, <<195, 169>>}
CsvRows == {<<f>> : f \in CsvFields \ {<<>>}} \cup {<<f, g>> : f \in CsvFields, g \in CsvFields} \cup {<< <<>>, f, <<>> >> : f \in CsvFields}
CsvTabs == {<<>>} \cup {<<r>> : r \in CsvRows} \cup {<<r, q>> : r \in CsvRows, q \in {<< <<120>> >>, << <<>>, <<34, 44>> >>}}
Plain(f) == \A i \in 1..Len(f) : f[i] \notin {34, 44, 13, 10}
CsvLaw(tab) ==
  LET t == CsvRender(tab)
      min == Cat([i \in 1..Len(tab) |->
                    Cat([j \in 1..Len(tab[i]) |-> (IF j > 1 THEN <<44>> ELSE <<>>)
                           \o (IF Plain(tab[i][j]) THEN tab[i][j] ELSE CsvRenderField(tab[i][j]))]) \o <<10>>])
  IN
  /\ CsvDec(t) = tab /\ CsvDec(min) = tab
  /\ (Len(t) > 0 => CsvDec(SubSeq(t, 1, Len(t) - 2)) = tab)                          \* last terminator optional
  /\ (Len(t) > 0 => CsvDec(SubSeq(t, 1, Len(t) - 3)) = CBad)                         \* unterminated quote
  /\ (Len(t) > 0 => CsvDec(<<120>> \o t) = CBad)                                     \* quote inside an unquoted field

Init == \/ fam = "bytes" /\ c \in ByteStrs
        \/ fam = "qpline" /\ c \in 0..90
        \/ fam = "int" /\ c \in IntCases
        \/ fam = "cp" /\ c \in CpCases
        \/ fam = "json" /\ c \in JVal2
        \/ fam = "csv" /\ c \in CsvTabs
Next == UNCHANGED <<fam, c>>
Spec == Init /\ [][Next]_<<fam, c>>
Law == CASE fam = "bytes" -> BytesLaw(c)
         [] fam = "qpline" -> QpLineLaw(c)
         [] fam = "int" -> IntLaw(c[1], c[2])
         [] fam = "cp" -> CpLaw(c)
         [] fam = "json" -> JsonLaw(c)
         [] fam = "csv" -> CsvLaw(c)
\* vacuity guards: the families are not empty and contain the interesting members
ASSUME Cardinality(ByteStrs) = 1 + 13 + 169 + 2197
ASSUME Cardinality(JVal2) > 1000 /\ Cardinality(CsvTabs) > 100
\* the enumeration that is also run on the implementation
GenSmall == TLCGet("stats").diameter >= 0 /\ PrintT(<<"GEN", ToJson(SetToSeq(ByteStrs))>>)
=============================================================================
