---------------------------- MODULE TextReadMC ----------------------------
(* Model checking of TextRead.tla (the specification checks itself):
   Mode "rt"  : for every graph with <= N nodes numbered in depth-first order: Read(Write(g)) is
                isomorphic to g when all shared nodes are labelled, Equal to g when only cycles are
                labelled, and (acyclic g) Equal without labels; the written tokens are lexically valid.
   Mode "num" : the greedy scanners behind IsNumber agree with a generative formulation of the R7RS
                <number> grammar on every string of length <= 5 over the alphabet + - . 1 e i / @ a.
   Mode "int" : Horner's rule into base 1024 agrees with TLC's integers; hex likewise.
   Mode "esc" : Decode inverts Escape on every short string over an alphabet with all special characters. *)
EXTENDS TextRead
CONSTANTS N, Mode
VARIABLES g, s, n

Atom(k, p) == [k |-> k, c |-> <<>>, p |-> p]
SeqsUpTo(S, m) == UNION {[1..l -> S] : l \in 0..m}
PairChoices(m) == {[k |-> "pair", c |-> <<a, b>>, p |-> <<>>] : a \in 1..m, b \in 1..m}
VecChoices(m) == {[k |-> "vec", c |-> q, p |-> <<>>] : q \in SeqsUpTo(1..m, 2)}
Atoms == {Atom("sym", <<97>>), Atom("sym", <<97, 32, 124>>), Atom("int", <<1, 5>>), Atom("null", <<>>),
          Atom("str", <<34, 10, 92>>), Atom("bytes", <<0, 255>>), Atom("char", <<65>>), Atom("bool", <<1>>)}
ChoicesN == PairChoices(N) \cup VecChoices(N) \cup Atoms
RECURSIVE DfsAll(_, _, _)
DfsAll(h, stack, order) ==
  IF stack = <<>> THEN order
  ELSE LET i == Head(stack) rest == Tail(stack) IN
       IF InSeq(order, i) THEN DfsAll(h, rest, order)
       ELSE DfsAll(h, Kids(h, i) \o rest, Append(order, i))
CanonicalIds(h) == DfsAll(h, <<h.r>>, <<>>) = [j \in 1..Len(h.n) |-> j]
G0 == [r |-> 1, n |-> <<Atom("null", <<>>)>>]

Alpha == {43, 45, 46, 49, 101, 105, 47, 64, 97}
L == 5
Short(A) == {x \in A : Len(x) <= L}
Cat(A, B) == Short({a \o b : a \in A, b \in B})
Opt(A) == A \cup {<<>>}
DS == {[j \in 1..k |-> 49] : k \in 1..L}
SignS == {<<43>>, <<45>>}
ExpS == Cat({<<101>>}, Cat(Opt(SignS), DS))
DecS == Cat(DS \cup Cat(DS, {<<46>>}) \cup Cat(Cat(DS, {<<46>>}), DS) \cup Cat({<<46>>}, DS), Opt(ExpS))
URS == DS \cup Cat(Cat(DS, {<<47>>}), DS) \cup DecS
RS == Cat(Opt(SignS), URS)
ImS == Cat(Cat(SignS, Opt(URS)), {<<105>>})
GenNumbers == RS \cup Cat(Cat(RS, {<<64>>}), RS) \cup Cat(Opt(RS), ImS)

EscAlpha == {97, 34, 92, 124, 10, 7, 120, 59, 32}

Init == \/ /\ Mode = "rt" /\ s = <<>> /\ n = 0
           /\ \E m \in 1..N : \E ns \in [1..m -> ChoicesN] :
                 /\ \A j \in 1..m : \A q \in 1..Len(ns[j].c) : ns[j].c[q] <= m
                 /\ g = [r |-> 1, n |-> ns] /\ CanonicalIds(g)
        \/ /\ Mode = "num" /\ g = G0 /\ n = 0 /\ \E k \in 1..L : \E f \in [1..k -> Alpha] : s = f
        \/ /\ Mode = "int" /\ g = G0 /\ s = <<>> /\ n \in 0..4000
        \/ /\ Mode = "esc" /\ g = G0 /\ n = 0 /\ \E k \in 0..4 : \E f \in [1..k -> EscAlpha] : s = f
Next == UNCHANGED <<g, s, n>>
Spec == Init /\ [][Next]_<<g, s, n>>

\* offsets for a token sequence; the linear-time tiling check agrees with concatenation
WithOffsets(t) == LET off[i \in 1..Len(t)] == IF i = 1 THEN 1 ELSE off[i - 1] + Len(t[i - 1].s)
                  IN [i \in 1..Len(t) |-> [t |-> t[i].t, s |-> t[i].s, o |-> off[i]]]
RoundTripShared == Mode = "rt" =>
  LET t == Write(g, "shared") r == Read(t) IN
  LexOK(t, Flat(t)) /\ LexOKo(WithOffsets(t), Flat(t)) /\ ~Tiles(WithOffsets(t), Flat(t) \o <<32>>) /\ r.ok /\ WellFormed(r.g) /\ Iso(g, r.g) /\ MatchIso(g, r.g)
RoundTripCyclic == Mode = "rt" =>
  LET t == Write(g, "cyclic") r == Read(t) IN
  LexOK(t, Flat(t)) /\ r.ok /\ Equal(g, r.g) /\ MatchEqual(g, r.g) /\ (Shared(g) \/ Iso(g, r.g))
RoundTripPlain == (Mode = "rt" /\ Acyclic(g)) =>
  LET t == Write(g, "none") r == Read(t) IN
  LexOK(t, Flat(t)) /\ r.ok /\ Equal(g, r.g) /\ Acyclic(r.g) /\ ~Shared(r.g)
\* a label that is referenced but never defined, or defined twice, is rejected
BadLabels == Mode = "rt" =>
  LET t == Write(g, "shared") IN
  /\ ~Read(<<Tok("open", <<40>>), Tok("lref", <<35, 57, 35>>), SP>> \o t \o <<Tok("close", <<41>>)>>).ok
  /\ (Shared(g) => ~Read(<<Tok("open", <<40>>)>> \o t \o <<SP>> \o t \o <<Tok("close", <<41>>)>>).ok)
  /\ ~Read(t \o <<SP>> \o t).ok
  /\ ~Read(<<Tok("open", <<40>>)>> \o t).ok
NumberGrammar == Mode = "num" => (IsNumber(s) <=> s \in GenNumbers)
IdentOrNumber == Mode = "num" => ~(IsNumber(s) /\ IsIdentifier(s))
InfNan == /\ IsNumber(<<43>> \o INF) /\ IsNumber(<<45>> \o NAN) /\ IsNumber(<<43>> \o INF \o <<105>>)
          /\ IsNumber(<<49, 45>> \o NAN \o <<105>>) /\ IsNumber(<<43, 73, 110, 102, 46, 48>>)
          /\ ~IsNumber(INF) /\ ~IsNumber(<<43>> \o INF \o <<49>>) /\ IsIdentifier(INF) /\ ~IsIdentifier(<<43>> \o INF)
Horner == Mode = "int" =>
  /\ SmallVal(Magnitude(Dec10(n), 10), 1) = n
  /\ SmallVal(Magnitude(Dec10(n * 500000 + 77), 10), 1) = n * 500000 + 77
  /\ AtomNodes(Tok("atom", <<45>> \o Dec10(n + 1))) = <<Node("int", <<>>, IntPayload(TRUE, Magnitude(Dec10(n + 1), 10)))>>
  /\ IntOK(IntPayload(FALSE, Magnitude(Dec10(n * 1024), 10)))
  /\ SmallVal(Magnitude(<<49>> \o Dec10(n), 16), 1) = SmallVal(Magnitude(Dec10(n), 16), 1) + (IF n < 10 THEN 16 ELSE IF n < 100 THEN 256 ELSE IF n < 1000 THEN 4096 ELSE 65536)
NamedEscapes == /\ Decode(<<92, 97, 92, 98, 92, 116, 92, 110, 92, 114>>, 1) = <<7, 8, 9, 10, 13>>
                /\ Decode(<<92, 120, 52, 49, 59, 92, 88, 51, 98, 98, 59, 92, 34, 92, 92, 92, 124>>, 1) = <<65, 955, 34, 92, 124>>
                /\ ~DecodeOK(Decode(<<92, 120, 52, 49>>, 1)) /\ ~DecodeOK(Decode(<<97, 92>>, 1)) /\ ~DecodeOK(Decode(<<92, 120, 100, 56, 48, 48, 59>>, 1))
                /\ ~DecodeOK(Decode(<<92, 113>>, 1))
EscapeInverse == Mode = "esc" =>
  /\ AtomNodes(AtomTok(Atom("str", s))) = <<Node("str", <<>>, s)>>
  /\ AtomNodes(AtomTok(Atom("sym", s))) = <<Node("sym", <<>>, s)>>
  /\ TokOK(AtomTok(Atom("str", s))) /\ TokOK(AtomTok(Atom("sym", s)))
=========================================================================
