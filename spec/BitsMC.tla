---------------------------- MODULE BitsMC ----------------------------
(* Bits.tla checks itself against TLC's integers at W = 2: for all -N <= a, b < N the digit-level result
   of every operation, decoded to a TLC integer r, has exactly the bits the SRFI 151 definition gives in
   terms of BitI(x, i) = (x \div 2^i) % 2 (floor division = two's complement), and agrees with the
   arithmetic characterisations (-1-x, x*2^s, floor(x/2^s)) and with the community Bitwise module.    *)
EXTENDS Bits, Bitwise, FiniteSets, TLC
CONSTANT N
VARIABLES a, b
vars == <<a, b>>
Init == a \in (0 - N)..(N - 1) /\ b = 0 - N
Next == b < N - 1 /\ b' = b + 1 /\ a' = a
Spec == Init /\ [][Next]_vars

Val(m) == FoldRight(LAMBDA d, acc : d + B * acc, m, 0)
IVal(x) == IF x[1] = 1 THEN 0 - Val(x[2]) ELSE Val(x[2])
BitI(x, i) == IF i >= 30 THEN (IF x < 0 THEN 1 ELSE 0) ELSE (x \div 2^i) % 2     \* (2^31 overflows TLC)
K == 24                                      \* positions compared (all operands and results lie within +-2^(K-1))
\* r (digit level, canonical) has bit f(i) at every position i < K and sign neg
Agree(r, f(_), neg) == /\ IsInt(r)
                       /\ LET v == IVal(r) IN /\ (v < 0) = (neg = 1) /\ 0 - 2^(K - 1) <= v /\ v < 2^(K - 1)
                                              /\ \A i \in 0..(K - 1) : BitI(v, i) = f(i)
Neg(x) == IF x < 0 THEN 1 ELSE 0
A == IntOf(a)
Bb == IntOf(b)
c == ((a * 5 + b * 3 + 7) % (2 * N)) - N     \* a third operand
Cc == IntOf(c)
na == IF a < 0 THEN 0 - a ELSE a
nb == IF b < 0 THEN 0 - b ELSE b
sh == (nb % 17) - 8                          \* shift count -8..8 (crosses digit multiples both ways)
fs == nb % 7                                 \* field start
fe == fs + (na % 6)                          \* field end (width 0..5)
fr == fs + 1 + (na % 5)                      \* field end, width >= 1
rc == (c % 13) - 6                           \* rotate count
RECURSIVE BitLenI(_)
BitLenI(n) == IF n = 0 THEN 0 ELSE 1 + BitLenI(n \div 2)

\* TLC's own integer division is the floor / non-negative remainder the bit definition relies on
DivSem == /\ (0 - 7) \div 2 = 0 - 4 /\ (0 - 7) % 2 = 1 /\ (0 - 8) \div 4 = 0 - 2 /\ (0 - 1) \div 1024 = 0 - 1 /\ (0 - 1) % 5 = 4
BitView == /\ \A i \in 0..(K - 1) : Bit(A, i) = BitI(a, i)
           /\ SignBit(A) = Neg(a)
           /\ Agree(A, LAMBDA i : BitI(a, i), Neg(a))
           /\ FromBits(LAMBDA i : BitI(a, i), 6, Neg(a)) = A
Logic ==
   /\ Agree(BNot(A), LAMBDA i : 1 - BitI(a, i), 1 - Neg(a)) /\ BNot(A) = IntOf(0 - 1 - a)
   /\ Agree(BAnd(A, Bb), LAMBDA i : IF BitI(a, i) = 1 /\ BitI(b, i) = 1 THEN 1 ELSE 0, IF a < 0 /\ b < 0 THEN 1 ELSE 0)
   /\ Agree(BIor(A, Bb), LAMBDA i : IF BitI(a, i) = 1 \/ BitI(b, i) = 1 THEN 1 ELSE 0, IF a < 0 \/ b < 0 THEN 1 ELSE 0)
   /\ Agree(BXor(A, Bb), LAMBDA i : IF BitI(a, i) # BitI(b, i) THEN 1 ELSE 0, IF (a < 0) # (b < 0) THEN 1 ELSE 0)
   /\ (a >= 0 /\ b >= 0 => BAnd(A, Bb) = IntOf(a & b) /\ BIor(A, Bb) = IntOf(a | b) /\ BXor(A, Bb) = IntOf(a ^^ b))
   /\ BEqv(A, Bb) = BNot(BXor(A, Bb)) /\ BNand(A, Bb) = BNot(BAnd(A, Bb)) /\ BNor(A, Bb) = BNot(BIor(A, Bb))
   /\ BAndc1(A, Bb) = BAnd(BNot(A), Bb) /\ BAndc2(A, Bb) = BAnd(A, BNot(Bb))
   /\ BOrc1(A, Bb) = BIor(BNot(A), Bb) /\ BOrc2(A, Bb) = BIor(A, BNot(Bb))
   /\ IVal(BIor(A, Bb)) + IVal(BAnd(A, Bb)) = a + b /\ IVal(BXor(A, Bb)) + 2 * IVal(BAnd(A, Bb)) = a + b
   /\ Agree(BIf(Cc, A, Bb), LAMBDA i : IF BitI(c, i) = 1 THEN BitI(a, i) ELSE BitI(b, i), IF c < 0 THEN Neg(a) ELSE Neg(b))
Shift ==
   /\ BShift(A, sh) = IntOf(IF sh >= 0 THEN a * 2^sh ELSE a \div 2^(0 - sh))
   /\ Agree(BShift(A, sh), LAMBDA i : IF i < sh THEN 0 ELSE BitI(a, i - sh), Neg(a))
Counts ==
   /\ BCount(A) = Cardinality({i \in 0..(K - 1) : BitI(a, i) # Neg(a)})
   /\ BLength(A) = BitLenI(IF a < 0 THEN 0 - 1 - a ELSE a)
   /\ \A i \in 0..(K - 1) : BSet(i, A) = (BitI(a, i) = 1)
   /\ BFirstSet(A) = (IF a = 0 THEN -1 ELSE CHOOSE i \in 0..(K - 1) : BitI(a, i) = 1 /\ \A j \in 0..(i - 1) : BitI(a, j) = 0)
   /\ BAny(A, Bb) = (IVal(BAnd(A, Bb)) # 0) /\ BEvery(A, Bb) = (BAnd(A, Bb) = A)
Single ==
   /\ Agree(BCopyBit(fs + 3, A, nb % 2), LAMBDA i : IF i = fs + 3 THEN nb % 2 ELSE BitI(a, i), Neg(a))
   /\ Agree(BSwap(fs, fe + 2, A), LAMBDA i : IF i = fs THEN BitI(a, fe + 2) ELSE IF i = fe + 2 THEN BitI(a, fs) ELSE BitI(a, i), Neg(a))
Fields ==
   /\ Agree(BField(A, fs, fe), LAMBDA i : IF i < fe - fs THEN BitI(a, i + fs) ELSE 0, 0)
   /\ BField(A, fs, fe) = IntOf((a \div 2^fs) % 2^(fe - fs))
   /\ BFieldAny(A, fs, fe) = (IVal(BField(A, fs, fe)) # 0)
   /\ BFieldEvery(A, fs, fe) = (IVal(BField(A, fs, fe)) = 2^(fe - fs) - 1)
   /\ Agree(BFieldClear(A, fs, fe), LAMBDA i : IF fs <= i /\ i < fe THEN 0 ELSE BitI(a, i), Neg(a))
   /\ Agree(BFieldSet(A, fs, fe), LAMBDA i : IF fs <= i /\ i < fe THEN 1 ELSE BitI(a, i), Neg(a))
   /\ Agree(BFieldReplace(A, Bb, fs, fe), LAMBDA i : IF fs <= i /\ i < fe THEN BitI(b, i - fs) ELSE BitI(a, i), Neg(a))
   /\ Agree(BFieldReplaceSame(A, Bb, fs, fe), LAMBDA i : IF fs <= i /\ i < fe THEN BitI(b, i) ELSE BitI(a, i), Neg(a))
   /\ Agree(BFieldRotate(A, rc, fs, fr), LAMBDA i : IF fs <= i /\ i < fr THEN BitI(a, fs + ((i - fs - rc) % (fr - fs))) ELSE BitI(a, i), Neg(a))
   /\ BFieldRotate(A, fr - fs, fs, fr) = A
   /\ Agree(BFieldReverse(A, fs, fe), LAMBDA i : IF fs <= i /\ i < fe THEN BitI(a, fs + fe - 1 - i) ELSE BitI(a, i), Neg(a))
   /\ BFieldReverse(BFieldReverse(A, fs, fe), fs, fe) = A
Lists ==
   /\ BToList(A, fe + 4) = [i \in 1..(fe + 4) |-> BitI(a, i - 1)]
   /\ (a >= 0 => BOfList(BToList(A, 10 + (nb % 3))) = A)
=======================================================================
