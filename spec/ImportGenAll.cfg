SPECIFICATION BuildSpec
CONSTANTS
  Graph <- GenGraph
  MaxDepth = 1
  MaxIds = 2
  Pfx = {"p", "q:"}
  Pool = {"a", "x", "z", "pz", "q:z"}
  CopyImmediates = FALSE
  MaxEnvs = 2
  MaxTicks = 0
  StartLibs <- Libs
INVARIANTS GenOK Emit
CHECK_DEADLOCK FALSE
