SPECIFICATION BuildSpec
CONSTANTS
  Graph <- GenGraph
  MaxDepth = 1
  MaxIds = 2
  Pfx = {"p", "q:"}
  Pool = {"a", "x", "z", "pz", "q:z"}
  MaxTicks = 0
  StartLibs <- Libs
INVARIANTS GenOK Emit
CHECK_DEADLOCK FALSE
