------------------------------ MODULE RegexMC ------------------------------
(* Model checking of Regex.tla against itself: every SRE of a bounded grammar x every subject
   over Sigma up to MaxLen (the subject grows one character per step).  Invariants:
   the split-based and the derivative-based denotations coincide on every span of the subject,
   search = whole-string match of r wrapped in any-star on both sides, algebraic laws, submatch bookkeeping.        *)
EXTENDS Regex, TLC
CONSTANTS Sigma,      \* alphabet (set of code points)
          MaxLen,     \* subjects up to this length
          Level,      \* 1: all SREs of depth <= 1;  2: depth <= 2 with one atomic operand in binary nodes;  3: all of depth <= 2;
                      \* 4: (seq|or)(unary(seq(atom, atom)), atom) and mirrored
          Fam         \* "full" | "anchor" | "case" | "named" : which atoms / operators are used
VARIABLES r, s
vars == <<r, s>>

SomeTwo == CHOOSE T \in SUBSET Sigma : Cardinality(T) = (IF Cardinality(Sigma) >= 2 THEN 2 ELSE 1)
Lo == CHOOSE c \in Sigma : \A d \in Sigma : c <= d
\* (UNION of a set of sets, not nested \cup: TLC's binary union searches linearly)
XS == <<"set", {97, 49, 32, 33}>>     \* a letter, a digit, a blank, a punctuation mark: every class misses one of them
YS == <<"lit", 43>>
AtomsOf ==
   IF Fam = "named" THEN UNION { {<<"cls", n>> : n \in ClassNames}, {<<"lit", 97>>, XS, <<"nonl">>} }
   ELSE
   UNION { {<<"lit", c>> : c \in Sigma}, {<<"any">>, <<"eps">>},
           IF Fam = "full" THEN {<<"set", SomeTwo>>, <<"nset", {Lo}>>, <<"range", Lo, Lo + 1>>, <<"empty">>, <<"bol">>, <<"eol">>}
           ELSE IF Fam = "anchor" THEN {<<"bol">>, <<"eol">>, <<"nset", {NL}>>}
           ELSE {<<"set", SomeTwo>>, <<"range", Lo, Lo + 1>>} }
Reps == IF Fam \in {"case", "named"} THEN {} ELSE {<<0, 2>>, <<2, 2>>, <<1, -1>>, <<1, 2>>, <<0, 0>>}
UnTags == IF Fam = "case" THEN {"star", "plus", "opt", "sub", "nocase"}
          ELSE IF Fam = "named" THEN {"star", "sub", "nocase", "ascii", "ccompl", "cnocase", "cascii"}
          ELSE {"star", "plus", "opt", "sub"}
BinTags == IF Fam = "named" THEN {"seq", "or", "cor", "cand", "cdiff"} ELSE {"seq", "or"}
Unary(R) == UNION { {<<t, x>> : t \in UnTags, x \in R}, {<<"rep", mn[1], mn[2], x>> : mn \in Reps, x \in R} }
Binary(R1, R2) == {<<t, x, y>> : t \in BinTags, x \in R1, y \in R2}
\* level 5: every combination form with a named class as first / middle / last member (and the class alone)
Comb(n) ==
   LET N == <<"cls", n>> IN
   UNION { {N},
           UNION { {<<t, N, XS>>, <<t, XS, N>>, <<t, <<t, N, XS>>, YS>>, <<t, <<t, XS, N>>, YS>>, <<t, <<t, XS, YS>>, N>>}
                   : t \in {"cor", "cand", "cdiff", "or"} },
           {<<"ccompl", N>>, <<"ccompl", <<"cor", N, XS>>>>, <<"ccompl", <<"cor", XS, N>>>>,
            <<"cnocase", N>>, <<"cnocase", <<"cor", N, XS>>>>, <<"cnocase", <<"cor", XS, N>>>>,
            <<"cascii", N>>, <<"cascii", <<"cor", N, XS>>>>, <<"cascii", <<"cor", XS, N>>>>, <<"cascii", <<"cand", N, XS>>>>,
            <<"nocase", N>>, <<"nocase", <<"or", N, XS>>>>, <<"nocase", <<"or", XS, N>>>>,
            <<"ascii", N>>, <<"ascii", <<"or", N, XS>>>>, <<"ascii", <<"or", XS, N>>>>,
            <<"cor", <<"cnocase", N>>, XS>>, <<"cor", XS, <<"cascii", N>>>>, <<"cand", <<"cascii", N>>, XS>>,
            <<"star", <<"or", N, XS>>>>, <<"seq", <<"or", N, XS>>, N>>} }
\* only the requested level is ever built (LET definitions are evaluated on demand)
SREs0 == LET l0 == AtomsOf
             l1 == UNION {l0, Unary(l0), Binary(l0, l0)}
         IN  IF Level = 0 THEN l0
             ELSE IF Level = 1 THEN l1
             ELSE IF Level = 2 THEN UNION {l1, Unary(l1), Binary(l1, l0), Binary(l0, l1)}
             ELSE IF Level = 3 THEN UNION {l1, Unary(l1), Binary(l1, l1)}
             \* level 4: a unary operator over a two-element sequence, next to an atom (the "(op a b)" spellings)
             ELSE IF Level = 4 THEN LET us == Unary({<<"seq", x, y>> : x \in l0, y \in l0}) IN UNION {Binary(us, l0), Binary(l0, us)}
             ELSE UNION {Comb(n) : n \in ClassNames}
SREs == IF Fam = "named" THEN {x \in SREs0 : WF(x)} ELSE SREs0

Init == r \in SREs /\ s = <<>>
Next == Len(s) < MaxLen /\ \E c \in Sigma : s' = Append(s, c) /\ r' = r
Spec == Init /\ [][Next]_vars

q == Core(r)
n == Len(s)
\* (1) the two formulations of the denotation agree on every span
TwoFormulations == \A sp \in Spans(s) : MatchS(q, s, sp[1], sp[2]) = MatchD(q, s, sp[1], sp[2])
\* (2) searching = matching with arbitrary context, anchors still seeing the real subject
SearchIsContextMatch == Search(r, s) = SearchAsMatch(r, s) /\ Search(r, s) = SearchDef(r, s)
SearchFromMatch == Matches(r, s) => Search(r, s)
\* (3) algebraic laws of the derivative matcher
Same(a, b) == \A sp \in Spans(s) : MatchD(a, s, sp[1], sp[2]) = MatchD(b, s, sp[1], sp[2])
Laws == /\ Same(<<"star", <<"star", q>>>>, <<"star", q>>)
        /\ Same(<<"plus", q>>, <<"seq", q, <<"star", q>>>>)
        /\ Same(<<"opt", q>>, <<"or", Eps, q>>)
        /\ Same(<<"rep", 1, 1, q>>, q)
        /\ Same(<<"rep", 0, -1, q>>, <<"star", q>>)
        /\ Same(<<"rep", 1, -1, q>>, <<"plus", q>>)
        /\ Same(<<"rep", 0, 1, q>>, <<"opt", q>>)
        /\ Same(<<"rep", 2, 3, q>>, <<"seq", q, <<"seq", q, <<"opt", q>>>>>>)
        /\ Same(<<"seq", q, Empty>>, Empty) /\ Same(<<"seq", Eps, q>>, q) /\ Same(<<"or", q, Empty>>, q)
        /\ Same(Norm(<<"nocase", <<"nocase", r>>>>, NoFl), Norm(<<"nocase", r>>, NoFl))
        /\ (\A sp \in Spans(s) : MatchD(q, s, sp[1], sp[2]) => MatchD(Norm(<<"nocase", r>>, NoFl), s, sp[1], sp[2]))
\* (3b) named classes and the char-set algebra against TLC's sets, over all of KnownChars
Ext(e) == {c \in KnownChars : Cs0(e, FALSE, c)}
Cl(nm) == Ext(<<"cls", nm>>)
ClassLaws ==
   /\ Cl("alphanumeric") = Cl("alphabetic") \cup Cl("numeric")
   /\ Cl("lower-case") \cup Cl("upper-case") \subseteq Cl("alphabetic") /\ Cl("lower-case") \cap Cl("upper-case") = {}
   /\ Cl("hex-digit") \subseteq Cl("ascii") \cap Cl("alphanumeric")
   /\ Cl("punctuation") \cap Cl("alphanumeric") = {} /\ Cl("symbol") \cap (Cl("punctuation") \cup Cl("alphanumeric")) = {}
   /\ Cl("whitespace") \cap (Cl("alphanumeric") \cup Cl("punctuation") \cup Cl("symbol")) = {}
   /\ Cl("ascii") = 0..127 /\ NonAsciiKnown \cap (0..127) = {}
   /\ \A c \in KnownChars : Variants(c) \subseteq KnownChars
   /\ \A c \in Cl("lower-case") \cup Cl("upper-case") : Cardinality(Variants(c)) = 2
   /\ Ext(<<"cnocase", <<"cls", "lower-case">>>>) = Ext(<<"cnocase", <<"cls", "upper-case">>>>)
   /\ \A nm \in ClassNames : Ext(<<"cascii", <<"cls", nm>>>>) = Cl(nm) \cap (0..127)
CsLaws ==
   (IsCs(r) /\ s = <<>>) =>      \* depends on r only: evaluated once per SRE
      /\ Ext(<<"ccompl", r>>) = KnownChars \ Ext(r)
      /\ Ext(<<"ccompl", <<"ccompl", r>>>>) = Ext(r)
      /\ (r[1] = "cor" => Ext(r) = Ext(r[2]) \cup Ext(r[3]))
      /\ (r[1] = "cand" => Ext(r) = Ext(r[2]) \cap Ext(r[3]))
      /\ (r[1] = "cdiff" => Ext(r) = Ext(r[2]) \ Ext(r[3]))
      /\ (r[1] = "cor" => Ext(<<"ccompl", r>>) = Ext(<<"cand", <<"ccompl", r[2]>>, <<"ccompl", r[3]>>>>))
      /\ (r[1] = "cand" => Ext(<<"ccompl", r>>) = Ext(<<"cor", <<"ccompl", r[2]>>, <<"ccompl", r[3]>>>>))
      /\ Ext(<<"cnocase", r>>) = {c \in KnownChars : Variants(c) \cap Ext(r) # {}}
      /\ Ext(<<"cnocase", <<"cnocase", r>>>>) = Ext(<<"cnocase", r>>)
      /\ \A c \in Sigma : MatchD(Core(r), <<c>>, 0, 1) = (c \in Ext(r))
      /\ \A c \in Sigma : MatchD(Core(<<"or", r, r>>), <<c>>, 0, 1) = (c \in Ext(r))
      /\ \A c \in Sigma : MatchD(Core(<<"nocase", r>>), <<c>>, 0, 1) = (c \in Ext(<<"cnocase", r>>))
\* (4) submatch bookkeeping: one entry per (sub ..) node; a report built from a real parse is accepted
GroupsWF == WF(r) /\ Len(Groups(r, NoFl)) = NumSubs(r) /\ Depth(r) <= 3
\* a whole-string match with every group unmatched or spanning everything that its body matches is an acceptable report
ReportSound ==
   Matches(r, s) =>
      LET G == Groups(r, NoFl)
          sp == [g \in 1..(1 + Len(G)) |-> IF g = 1 THEN <<0, n>>
                                           ELSE IF MatchD(G[g - 1], s, 0, n) THEN <<0, n>> ELSE Unmatched]
      IN  ReportOk(r, s, sp) /\ ~ReportOk(r, s, [sp EXCEPT ![1] = <<0, n + 1>>])
\* a span whose text is not in the language is never an acceptable whole-match report
ReportRejectsNonMatch ==
   \A sp \in Spans(s) : ~MatchS(q, s, sp[1], sp[2]) =>
        ~ReportOk(r, s, [g \in 1..(1 + NumSubs(r)) |-> IF g = 1 THEN sp ELSE Unmatched])
=============================================================================
