------------------------------ MODULE RegexMC ------------------------------
(* Model checking of Regex.tla against itself: every SRE of a bounded grammar x every subject
   over Sigma up to MaxLen (the subject grows one character per step).  Invariants:
   the split-based and the derivative-based denotations coincide on every span of the subject,
   search = whole-string match of r wrapped in any-star on both sides, algebraic laws, submatch bookkeeping.        *)
EXTENDS Regex, TLC
CONSTANTS Sigma,      \* alphabet (set of code points)
          MaxLen,     \* subjects up to this length
          Level,      \* 1: all SREs of depth <= 1;  2: depth <= 2 with one atomic operand in binary nodes;  3: all of depth <= 2;
                      \* 4: (seq|or)(unary(seq(atom, atom)), atom) and mirrored
          Fam         \* "full" | "anchor" | "case" : which atoms / operators are used
VARIABLES r, s
vars == <<r, s>>

SomeTwo == CHOOSE T \in SUBSET Sigma : Cardinality(T) = (IF Cardinality(Sigma) >= 2 THEN 2 ELSE 1)
Lo == CHOOSE c \in Sigma : \A d \in Sigma : c <= d
\* (UNION of a set of sets, not nested \cup: TLC's binary union searches linearly)
AtomsOf ==
   UNION { {<<"lit", c>> : c \in Sigma}, {<<"any">>, <<"eps">>},
           IF Fam = "full" THEN {<<"set", SomeTwo>>, <<"nset", {Lo}>>, <<"range", Lo, Lo + 1>>, <<"empty">>, <<"bol">>, <<"eol">>}
           ELSE IF Fam = "anchor" THEN {<<"bol">>, <<"eol">>, <<"nset", {NL}>>}
           ELSE {<<"set", SomeTwo>>, <<"range", Lo, Lo + 1>>} }
Reps == IF Fam = "case" THEN {} ELSE {<<0, 2>>, <<2, 2>>, <<1, -1>>, <<1, 2>>, <<0, 0>>}
UnTags == IF Fam = "case" THEN {"star", "plus", "opt", "sub", "nocase"} ELSE {"star", "plus", "opt", "sub"}
Unary(R) == UNION { {<<t, x>> : t \in UnTags, x \in R}, {<<"rep", mn[1], mn[2], x>> : mn \in Reps, x \in R} }
Binary(R1, R2) == {<<t, x, y>> : t \in {"seq", "or"}, x \in R1, y \in R2}
\* only the requested level is ever built (LET definitions are evaluated on demand)
SREs == LET l0 == AtomsOf
            l1 == UNION {l0, Unary(l0), Binary(l0, l0)}
        IN  IF Level = 0 THEN l0
            ELSE IF Level = 1 THEN l1
            ELSE IF Level = 2 THEN UNION {l1, Unary(l1), Binary(l1, l0), Binary(l0, l1)}
            ELSE IF Level = 3 THEN UNION {l1, Unary(l1), Binary(l1, l1)}
            \* level 4: a unary operator over a two-element sequence, next to an atom (the "(op a b)" spellings)
            ELSE LET us == Unary({<<"seq", x, y>> : x \in l0, y \in l0}) IN UNION {Binary(us, l0), Binary(l0, us)}

Init == r \in SREs /\ s = <<>>
Next == Len(s) < MaxLen /\ \E c \in Sigma : s' = Append(s, c) /\ r' = r
Spec == Init /\ [][Next]_vars

q == Core(r)
n == Len(s)
\* (1) the two formulations of the denotation agree on every span
TwoFormulations == \A sp \in Spans(s) : MatchS(q, s, sp[1], sp[2]) = MatchD(q, s, sp[1], sp[2])
\* (2) searching = matching with arbitrary context, anchors still seeing the real subject
SearchIsContextMatch == Search(r, s) = SearchAsMatch(r, s) /\ Search(r, s) = SearchDef(r, s)
SearchFromMatch == Matches(r, s) => Search(r, s)
\* (3) algebraic laws of the derivative matcher
Same(a, b) == \A sp \in Spans(s) : MatchD(a, s, sp[1], sp[2]) = MatchD(b, s, sp[1], sp[2])
Laws == /\ Same(<<"star", <<"star", q>>>>, <<"star", q>>)
        /\ Same(<<"plus", q>>, <<"seq", q, <<"star", q>>>>)
        /\ Same(<<"opt", q>>, <<"or", Eps, q>>)
        /\ Same(<<"rep", 1, 1, q>>, q)
        /\ Same(<<"rep", 0, -1, q>>, <<"star", q>>)
        /\ Same(<<"rep", 1, -1, q>>, <<"plus", q>>)
        /\ Same(<<"rep", 0, 1, q>>, <<"opt", q>>)
        /\ Same(<<"rep", 2, 3, q>>, <<"seq", q, <<"seq", q, <<"opt", q>>>>>>)
        /\ Same(<<"seq", q, Empty>>, Empty) /\ Same(<<"seq", Eps, q>>, q) /\ Same(<<"or", q, Empty>>, q)
        /\ Same(Norm(<<"nocase", <<"nocase", r>>>>, FALSE), Norm(<<"nocase", r>>, FALSE))
        /\ (\A sp \in Spans(s) : MatchD(q, s, sp[1], sp[2]) => MatchD(Norm(<<"nocase", r>>, FALSE), s, sp[1], sp[2]))
\* (4) submatch bookkeeping: one entry per (sub ..) node; a report built from a real parse is accepted
GroupsWF == WF(r) /\ Len(Groups(r, FALSE)) = NumSubs(r) /\ Depth(r) <= 3
\* a whole-string match with every group unmatched or spanning everything that its body matches is an acceptable report
ReportSound ==
   Matches(r, s) =>
      LET G == Groups(r, FALSE)
          sp == [g \in 1..(1 + Len(G)) |-> IF g = 1 THEN <<0, n>>
                                           ELSE IF MatchD(G[g - 1], s, 0, n) THEN <<0, n>> ELSE Unmatched]
      IN  ReportOk(r, s, sp) /\ ~ReportOk(r, s, [sp EXCEPT ![1] = <<0, n + 1>>])
\* a span whose text is not in the language is never an acceptable whole-match report
ReportRejectsNonMatch ==
   \A sp \in Spans(s) : ~MatchS(q, s, sp[1], sp[2]) =>
        ~ReportOk(r, s, [g \in 1..(1 + NumSubs(r)) |-> IF g = 1 THEN sp ELSE Unmatched])
=============================================================================
