---------------------------- MODULE SortedTrace ----------------------------
(* Validates recorded calls of the SRFI 95 / SRFI 132 entry points (harness/scm/c18sort.scm)
   against the relations of Sorted.tla.  One event per call:
     fn   entry point        ord  "lt" | "gt" (which ordering was handed over)
     a,b  inputs as <<rank, id>> sequences (b = second sequence of a merge, or the target of vector-merge!)
     s1,e1 / s2,e2  ranges (0-based, half open) into a / b;   k  numeric argument;   to  target start
     out  resulting sequence;  res  other results;  err  1 if the call raised an error
   A call that does not satisfy its relation is recorded (REJECT line) and makes the final End event
   unacceptable; the remaining calls are still judged. *)
EXTENDS Sorted, TLC, Json, IOUtils
TraceLog == ndJsonDeserialize(IOEnv.TRACE)
VARIABLES l, nbad
Ev == TraceLog[l]

Sub(v, s, e) == SubSeq(v, s + 1, e)
StableSortFns == {"sort", "sort!", "list-stable-sort", "list-stable-sort!", "vector-stable-sort", "vector-stable-sort!"}
SortFns == {"list-sort", "list-sort!", "vector-sort", "vector-sort!"}
SortedPFns == {"sorted?", "list-sorted?", "vector-sorted?"}
StableMergeFns == {"merge", "merge!", "list-merge", "list-merge!", "vector-merge"}
B(x) == IF x THEN 1 ELSE 0
RangeOK(c) == 0 <= c.s1 /\ c.s1 <= c.e1 /\ c.e1 <= Len(c.a)
Range2OK(c) == 0 <= c.s2 /\ c.s2 <= c.e2 /\ c.e2 <= Len(c.b)

PureFns == {"sort", "merge", "list-sort", "list-stable-sort", "list-merge", "list-delete-neighbor-dups", "vector-sort",
            "vector-stable-sort", "vector-sort/range", "vector-stable-sort/range", "vector-merge", "vector-merge!",
            "vector-delete-neighbor-dups", "vector-find-median"}
Holds(c) ==
  /\ c.err = 0
  /\ (c.fn \in PureFns => c.aft = c.a \o c.b)        \* the arguments of a non-destructive procedure are left alone
  /\ (CASE c.fn \in StableSortFns -> IsStableSort(c.a, c.out, c.ord)
        [] c.fn \in SortFns -> IsSort(c.a, c.out, c.ord)
        \* fresh vector holding the sorted range
        [] c.fn = "vector-sort/range" -> IsSort(Sub(c.a, c.s1, c.e1), c.out, c.ord)
        [] c.fn = "vector-stable-sort/range" -> IsStableSort(Sub(c.a, c.s1, c.e1), c.out, c.ord)
        \* range sorted in place, the rest untouched
        [] c.fn = "vector-sort!/range" -> SameOutside(c.a, c.out, c.s1, c.e1) /\ IsSort(Sub(c.a, c.s1, c.e1), Sub(c.out, c.s1, c.e1), c.ord)
        [] c.fn = "vector-stable-sort!/range" -> SameOutside(c.a, c.out, c.s1, c.e1) /\ IsStableSort(Sub(c.a, c.s1, c.e1), Sub(c.out, c.s1, c.e1), c.ord)
        [] c.fn \in SortedPFns -> c.res = <<B(NonDecr(c.a, c.ord))>>
        [] c.fn \in StableMergeFns -> IsStableMerge(Sub(c.a, c.s1, c.e1), Sub(c.b, c.s2, c.e2), c.out, c.ord)
        \* b = target before, out = target after, to = start index in the target; a and the c.k-long tail come as res-independent fields
        [] c.fn = "vector-merge!" ->
              LET n == (c.e1 - c.s1) + (c.e2 - c.s2) IN
              /\ SameOutside(c.tgt, c.out, c.to, c.to + n)
              /\ IsStableMerge(Sub(c.a, c.s1, c.e1), Sub(c.b, c.s2, c.e2), Sub(c.out, c.to, c.to + n), c.ord)
        [] c.fn \in {"list-delete-neighbor-dups", "list-delete-neighbor-dups!"} -> c.out = Dedup(c.a)
        [] c.fn = "vector-delete-neighbor-dups" -> c.out = Dedup(Sub(c.a, c.s1, c.e1))
        \* returns the new end; the deduplicated range sits at s..end; what precedes s is untouched
        [] c.fn = "vector-delete-neighbor-dups!" ->
              LET d == Dedup(Sub(c.a, c.s1, c.e1)) IN
              /\ c.res = <<c.s1 + Len(d)>> /\ Len(c.out) = Len(c.a)
              /\ Sub(c.out, c.s1, c.s1 + Len(d)) = d /\ Sub(c.out, 0, c.s1) = Sub(c.a, 0, c.s1)
              /\ Sub(c.out, c.e1, Len(c.a)) = Sub(c.a, c.e1, Len(c.a))
        \* res = <<-1>> (knil) for the empty vector, <<key>> for odd length, <<key1, key2>> = the arguments handed to mean
        [] c.fn \in {"vector-find-median", "vector-find-median!"} ->
              LET n == Len(c.a) sk == SortedKeys(c.a, c.ord) IN
              /\ (IF n = 0 THEN c.res = <<-1>> ELSE IF n % 2 = 1 THEN c.res = <<sk[(n \div 2) + 1]>>
                  ELSE c.res = <<sk[n \div 2], sk[(n \div 2) + 1]>>)
              /\ (IF c.fn = "vector-find-median!" THEN IsSort(c.a, c.out, c.ord) ELSE c.out = c.a)
        \* k-th smallest of the range (k from 0); the range is permuted, the rest untouched
        [] c.fn = "vector-select!" ->
              /\ c.res = <<KthKey(Sub(c.a, c.s1, c.e1), c.k, c.ord)>>
              /\ SameOutside(c.a, c.out, c.s1, c.e1) /\ SameBag(Sub(c.a, c.s1, c.e1), Sub(c.out, c.s1, c.e1))
        [] c.fn = "vector-separate!" ->
              /\ SameOutside(c.a, c.out, c.s1, c.e1) /\ SameBag(Sub(c.a, c.s1, c.e1), Sub(c.out, c.s1, c.e1))
              /\ Separated(Sub(c.out, c.s1, c.e1), c.k, c.ord)
        [] OTHER -> FALSE)

(* which part of the relation failed (for the report key only) *)
SeqIn(c) == IF c.fn \in StableSortFns \cup SortFns \cup {"vector-find-median!"} THEN c.a
            ELSE IF c.fn \in StableMergeFns \cup {"vector-merge!"} THEN Sub(c.a, c.s1, c.e1) \o Sub(c.b, c.s2, c.e2)
            ELSE Sub(c.a, c.s1, c.e1)
SeqOut(c) == IF c.fn \in {"vector-sort!/range", "vector-stable-sort!/range", "vector-select!", "vector-separate!"} THEN Sub(c.out, c.s1, c.e1)
             ELSE IF c.fn = "vector-merge!" THEN Sub(c.out, c.to, c.to + (c.e1 - c.s1) + (c.e2 - c.s2))
             ELSE c.out
Sortish == StableSortFns \cup SortFns \cup StableMergeFns \cup
           {"vector-sort/range", "vector-stable-sort/range", "vector-sort!/range", "vector-stable-sort!/range", "vector-merge!"}
Why(c) == IF c.err # 0 THEN "error"
          ELSE IF c.fn \in PureFns /\ c.aft # c.a \o c.b THEN "argument-mutated"
          ELSE IF c.fn \in Sortish THEN
             (IF c.fn = "vector-merge!" /\ ~SameOutside(c.tgt, c.out, c.to, c.to + (c.e1 - c.s1) + (c.e2 - c.s2)) THEN "outside-range"
              ELSE IF c.fn \in {"vector-sort!/range", "vector-stable-sort!/range"} /\ ~SameOutside(c.a, c.out, c.s1, c.e1) THEN "outside-range"
              ELSE IF ~SameBag(SeqIn(c), SeqOut(c)) THEN "not-a-permutation"
              ELSE IF ~NonDecr(SeqOut(c), c.ord) THEN "not-ordered"
              ELSE "not-stable")
          \* vector-find-median! has to sort the vector first
          ELSE IF c.fn = "vector-find-median!" /\ ~SameBag(c.a, c.out) THEN "not-a-permutation"
          ELSE IF c.fn = "vector-find-median!" /\ ~NonDecr(c.out, c.ord) THEN "not-ordered"
          ELSE "wrong-result"

(* the case is one the property speaks about (guaranteed by the generator; a failure here is a broken check) *)
InDomain(c) ==
  /\ WFInput(c.a \o c.b) /\ RangeOK(c) /\ Range2OK(c) /\ c.ord \in {"lt", "gt"}
  /\ (c.fn \in StableMergeFns \cup {"vector-merge!"} => NonDecr(Sub(c.a, c.s1, c.e1), c.ord) /\ NonDecr(Sub(c.b, c.s2, c.e2), c.ord))
  /\ (c.fn \in {"vector-select!"} => c.k >= 0 /\ c.k < c.e1 - c.s1)
  /\ (c.fn \in {"vector-separate!"} => c.k >= 0 /\ c.k < c.e1 - c.s1)

TCall == /\ l <= Len(TraceLog) /\ Ev.e = "Call" /\ l' = l + 1
         /\ IF ~InDomain(Ev) THEN PrintT(<<"BADCASE", l>>) /\ nbad' = nbad + 1
            ELSE IF Holds(Ev) THEN nbad' = nbad
            ELSE PrintT(<<"REJECT", l, Why(Ev)>>) /\ nbad' = nbad + 1
(* the ordering handed to the procedures ranks the key table as the ranks say: up[i] = less(t[i], t[i+1]),
   down[i] = less(t[i+1], t[i]), same[j] = less between two representations of one rank *)
TTable == /\ l <= Len(TraceLog) /\ Ev.e = "Table" /\ l' = l + 1
          /\ IF (\A i \in DOMAIN Ev.up : Ev.up[i] = 1) /\ (\A i \in DOMAIN Ev.down : Ev.down[i] = 0)
                /\ (\A i \in DOMAIN Ev.same : Ev.same[i] = 0)
             THEN nbad' = nbad ELSE PrintT(<<"BADTABLE", l>>) /\ nbad' = nbad + 1
TEnd == /\ l <= Len(TraceLog) /\ Ev.e = "End" /\ nbad = 0 /\ l' = l + 1 /\ UNCHANGED nbad
TraceInit == l = 1 /\ nbad = 0
TraceNext == TCall \/ TTable \/ TEnd
TraceSpec == TraceInit /\ [][TraceNext]_<<l, nbad>>
Accepted == LET d == TLCGet("stats").diameter IN
            IF d - 1 = Len(TraceLog) THEN TRUE ELSE PrintT(<<"TRACE_REJECTED_AT", d, Len(TraceLog)>>) /\ FALSE
============================================================================
