---------------------------- MODULE SortedGen ----------------------------
(* Exhaustive small inputs for the sorting entry points, printed as JSON (one HIST line each):
   Pairs = FALSE: every key sequence up to MaxLen over NKeys ranks;
   Pairs = TRUE : every pair of non-decreasing sequences (the domain of the merge procedures). *)
EXTENDS Integers, Sequences, TLC, Json
CONSTANTS MaxLen, NKeys, Pairs
VARIABLES ks, ks2
Keys == 0..(NKeys - 1)
Seqs == UNION {[1..n -> Keys] : n \in 0..MaxLen}
Up(s) == \A i \in 1..(Len(s) - 1) : s[i] <= s[i + 1]
Init == IF Pairs THEN ks \in {s \in Seqs : Up(s)} /\ ks2 \in {s \in Seqs : Up(s)}
        ELSE ks \in Seqs /\ ks2 = <<>>
Next == UNCHANGED <<ks, ks2>>
Spec == Init /\ [][Next]_<<ks, ks2>>
Dump == PrintT(<<"HIST", ToJson(<<ks, ks2>>)>>)
==========================================================================
