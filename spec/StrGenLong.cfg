SPECIFICATION GenSpec
CONSTANTS
  Alphabet <- LongSet
  NRegs = 3
  NCur = 2
  MaxLen = 240
  Lits <- LitsFull
  UsePorts = TRUE
  UseCursors = TRUE
  D = 120
  MaxSteps = 40
  Profile = "long"
INVARIANTS Dump TypeOK
