SPECIFICATION GenSpec
CONSTANTS
  Alphabet <- Boundary8
  NRegs = 3
  NCur = 2
  MaxLen = 10
  Lits <- LitsFull
  UsePorts = TRUE
  UseCursors = TRUE
  D = 120
  MaxSteps = 40
  Profile = "main"
INVARIANTS Dump TypeOK LenIsCount Utf8RoundTrip CursorIndexBijection
