\* allocator / tiling focus: slot-less objects of 1,2,3 chunks, growth to a second segment
SPECIFICATION Spec
CONSTANTS
  Ids = {1, 2, 3, 4}
  NoId = 0
  Menu <- MenuA
  InitSeg = 7
  GrowSizes = {5}
  MaxSegs = 2
  NRegs = 4
  TiedRegs = TRUE
  MaxSaves = 0
  AllowTmp = FALSE
  FirstFitOnly = FALSE
CONSTRAINT StateConstraint
INVARIANTS TypeOK Tiling FreeSorted NoAdjacentFree RefsValid NoPrematureFree HeldValid NoLeak FinalizeOnlyDead
VIEW ViewNoGhost
