---------------------------- MODULE AdtTrace ----------------------------
(* Validates recorded operation histories of a container library (harness/scm/c18adt.scm) against Adt:
     {"e":"Reset"}                                   a new history starts with an empty version store
     {"e":"Op","op":{op,v,w,k,x,ks},"n":number of versions the operation creates,"err":0|1,"obs":..,
      "val":[canonical value of every new version],"prb":[probe of every new version],
      "chg":[[i, canonical value, probe] for every OLDER version whose content changed]}
     {"e":"End"}
   An Op is accepted iff it raised no error, its observation is one the model allows, every version it created has
   the model's value and probe, and every older live version is what the model says.  A rejected Op is recorded
   (REJECT line with the reason) and makes End unacceptable.  Judging goes on after a rejection: the store takes
   over what the implementation reported, and exactly the versions whose state can no longer be trusted (created
   by a rejected operation, changed behind the model's back, or derived from such a version) are POISONED:
   operations that use a poisoned version are not judged and poison what they create. *)
EXTENDS Adt, IOUtils
TraceLog == ndJsonDeserialize(IOEnv.TRACE)
VARIABLES l, nbad, poison, tainted    \* poison: versions not to be trusted; tainted: an operation of this history was rejected
Ev == TraceLog[l]
IsEvent(e) == l <= Len(TraceLog) /\ Ev.e = e /\ l' = l + 1

TReset == /\ IsEvent("Reset") /\ ver' = <<>> /\ live' = {} /\ poison' = {} /\ tainted' = FALSE /\ UNCHANGED nbad
(* what the library's own accessors must report about a version of this content (cached length, end pointers,
   deletability of every key): logged as "prb" with every new version and as third component of every chg entry *)
Probe(x) == CASE Kind = "deque" -> <<Len(x), IF x = <<>> THEN -1 ELSE x[1], IF x = <<>> THEN -1 ELSE x[Len(x)]>>
              [] Kind = "queue" -> <<IF x = <<>> THEN -1 ELSE x[1], IF x = <<>> THEN -1 ELSE x[Len(x)]>>
              \* <<red-black shape intact, size, number of keys that can be deleted>>
              [] Kind = "map" -> <<1, Cardinality(DOMAIN x), Cardinality(DOMAIN x)>>
              [] OTHER -> <<>>
ChgIdx == {Ev.chg[j][1] : j \in DOMAIN Ev.chg}
ChgPrb(i) == Ev.chg[CHOOSE j \in DOMAIN Ev.chg : Ev.chg[j][1] = i][3]
ChgVal(i) == Ev.chg[CHOOSE j \in DOMAIN Ev.chg : Ev.chg[j][1] = i][2]
UpdIdx(r) == {r.upd[j][1] : j \in DOMAIN r.upd}
UpdVal(r, i) == r.upd[CHOOSE j \in DOMAIN r.upd : r.upd[j][1] = i][2]
(* canonical value of existing version i after the step, as the model has it / as the implementation reported it *)
ModelPost(r, i) == Canon(IF i \in UpdIdx(r) THEN UpdVal(r, i) ELSE ver[i])
ImplPost(i) == IF i \in ChgIdx THEN ChgVal(i) ELSE Canon(ver[i])
NewIdx == (Len(ver) + 1)..(Len(ver) + Ev.n)
BadNew(r) == {Len(ver) + i : i \in {j \in 1..Len(r.new) :
                 Ev.err # 0 \/ Len(Ev.val) # Len(r.new) \/ Ev.val[j] # Canon(r.new[j]) \/ Ev.prb[j] # Probe(r.new[j])}}
BadOld(r) == {i \in ((ChgIdx \cup UpdIdx(r)) \cap live) \ (r.kill \cup poison) :
                 ImplPost(i) # ModelPost(r, i) \/ (i \in ChgIdx /\ ChgPrb(i) # Probe(From(ChgVal(i))))}
Why(r) == IF Ev.err # 0 THEN "error"
          ELSE IF Ev.obs \notin r.obs THEN "obs"
          ELSE IF Len(Ev.val) # Len(r.new) \/ \E j \in 1..Len(r.new) : Ev.val[j] # Canon(r.new[j]) THEN "val"
          ELSE IF \E i \in BadOld(r) : ImplPost(i) # ModelPost(r, i) THEN "clobber"
          ELSE IF BadNew(r) # {} \/ BadOld(r) # {} THEN "probe"
          ELSE "ok"
(* value of new version j as far as the implementation reported one *)
NewVal(j) == IF Ev.err = 0 /\ Len(Ev.val) = Ev.n /\ WF(Ev.val[j]) THEN From(Ev.val[j]) ELSE From(<<>>)
OldVal(r, i) == IF i \in ChgIdx /\ WF(ChgVal(i)) THEN From(ChgVal(i))
                ELSE IF i \in UpdIdx(r) THEN UpdVal(r, i) ELSE ver[i]
Uses(o) == LET sig == SigName(o.op) IN (IF "v" \in sig THEN {o.v} ELSE {}) \cup (IF "w" \in sig THEN {o.w} ELSE {})
NoRes == [new |-> <<>>, obs |-> {}, kill |-> {}, upd |-> <<>>]
TOp == /\ IsEvent("Op")
       /\ IF Uses(Ev.op) \cap poison # {} \/ ~Pre(Ev.op, ver, live)
          THEN \* not judged: an argument is poisoned, or (after a rejection) the operation no longer applies to the store
               /\ IF Uses(Ev.op) \cap poison = {} /\ ~tainted THEN PrintT(<<"BADCASE", l>>) /\ nbad' = nbad + 1 ELSE nbad' = nbad
               /\ ver' = [i \in 1..(Len(ver) + Ev.n) |-> IF i > Len(ver) THEN NewVal(i - Len(ver)) ELSE OldVal(NoRes, i)]
               /\ live' = live \cup NewIdx
               /\ poison' = poison \cup NewIdx \cup ChgIdx \cup (Uses(Ev.op) \cap DOMAIN ver)
               /\ UNCHANGED tainted
          ELSE \E r \in {Eval(Ev.op, ver)} : \E why \in {Why(r)} :
               /\ IF Len(r.new) # Ev.n THEN PrintT(<<"BADCASE", l>>) /\ nbad' = nbad + 1
                  ELSE IF why = "ok" THEN nbad' = nbad
                  ELSE PrintT(<<"REJECT", l, Ev.op.op, why>>) /\ nbad' = nbad + 1
               /\ tainted' = (tainted \/ why # "ok")
               /\ ver' = [i \in 1..(Len(ver) + Ev.n) |-> IF i > Len(ver) THEN NewVal(i - Len(ver)) ELSE OldVal(r, i)]
               /\ live' = (live \ r.kill) \cup NewIdx
               /\ poison' = poison \cup BadNew(r) \cup BadOld(r) \cup (IF Ev.err # 0 THEN NewIdx ELSE {})
TEnd == IsEvent("End") /\ nbad = 0 /\ UNCHANGED <<ver, live, nbad, poison, tainted>>
TraceInit == ver = <<>> /\ live = {} /\ l = 1 /\ nbad = 0 /\ poison = {} /\ tainted = FALSE /\ hist = <<>> /\ rnd = <<>> /\ tick = 0
TraceNext == (TReset \/ TOp \/ TEnd) /\ UNCHANGED <<hist, rnd, tick>>
TraceSpec == TraceInit /\ [][TraceNext]_<<vars, l, nbad, poison, tainted>>
Accepted == LET d == TLCGet("stats").diameter IN
            IF d - 1 = Len(TraceLog) THEN TRUE ELSE PrintT(<<"TRACE_REJECTED_AT", d, Len(TraceLog)>>) /\ FALSE
=========================================================================
