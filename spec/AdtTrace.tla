---------------------------- MODULE AdtTrace ----------------------------
(* Validates recorded operation histories of a container library (harness/scm/c18adt.scm) against Adt:
     {"e":"Reset"}                                   a new history starts with an empty version store
     {"e":"Op","op":{op,v,w,k,x,ks},"err":0|1,"obs":..,"val":[canonical value of every new version]}
     {"e":"End"}
   An Op is accepted iff the operation was applicable, raised no error, its observation is one the model
   allows and every version it created has the model's value.  A rejected Op is recorded (REJECT line) and
   makes End unacceptable; to keep judging the rest of the history the store continues with the value the
   implementation reported if that is a well-formed value, otherwise the history is skipped up to the next Reset. *)
EXTENDS Adt, IOUtils
TraceLog == ndJsonDeserialize(IOEnv.TRACE)
VARIABLES l, nbad, dead, tainted      \* tainted: an operation of the current history was rejected (the store follows the implementation since)
Ev == TraceLog[l]
IsEvent(e) == l <= Len(TraceLog) /\ Ev.e = e /\ l' = l + 1

TReset == /\ IsEvent("Reset") /\ ver' = <<>> /\ live' = {} /\ dead' = FALSE /\ tainted' = FALSE /\ UNCHANGED nbad
(* what the library's own accessors must report about a version of this content (cached length, end pointers,
   deletability of every key): logged as "prb" with every new version and as third component of every chg entry *)
Probe(x) == CASE Kind = "deque" -> <<Len(x), IF x = <<>> THEN -1 ELSE x[1], IF x = <<>> THEN -1 ELSE x[Len(x)]>>
              [] Kind = "queue" -> <<IF x = <<>> THEN -1 ELSE x[1], IF x = <<>> THEN -1 ELSE x[Len(x)]>>
              \* <<red-black shape intact, size, number of keys that can be deleted>>
              [] Kind = "map" -> <<1, Cardinality(DOMAIN x), Cardinality(DOMAIN x)>>
              [] OTHER -> <<>>
ChgIdx == {Ev.chg[j][1] : j \in DOMAIN Ev.chg}
ChgPrb(i) == Ev.chg[CHOOSE j \in DOMAIN Ev.chg : Ev.chg[j][1] = i][3]
ChgVal(i) == Ev.chg[CHOOSE j \in DOMAIN Ev.chg : Ev.chg[j][1] = i][2]
UpdIdx(r) == {r.upd[j][1] : j \in DOMAIN r.upd}
UpdVal(r, i) == r.upd[CHOOSE j \in DOMAIN r.upd : r.upd[j][1] = i][2]
(* canonical value of existing version i after the step, as the model has it / as the implementation reported it *)
ModelPost(r, i) == Canon(IF i \in UpdIdx(r) THEN UpdVal(r, i) ELSE ver[i])
ImplPost(i) == IF i \in ChgIdx THEN ChgVal(i) ELSE Canon(ver[i])
Why(r) == IF Ev.err # 0 THEN "error"
          ELSE IF Ev.obs \notin r.obs THEN "obs"
          ELSE IF Ev.val # [i \in 1..Len(r.new) |-> Canon(r.new[i])] THEN "val"
          ELSE IF \E i \in ((ChgIdx \cup UpdIdx(r)) \cap live) \ r.kill : ImplPost(i) # ModelPost(r, i) THEN "clobber"
          ELSE IF Ev.prb # [i \in 1..Len(r.new) |-> Probe(r.new[i])] THEN "probe"
          ELSE IF \E i \in (ChgIdx \cap live) \ r.kill : ChgPrb(i) # Probe(From(ChgVal(i))) THEN "probe"
          ELSE "ok"
(* the store continues with what the implementation reported (= the model's values when the step was accepted) *)
Reported(r) == Ev.err = 0 /\ Len(Ev.val) = Len(r.new) /\ (\A i \in DOMAIN Ev.val : WF(Ev.val[i]))
               /\ (\A i \in ChgIdx : WF(ChgVal(i)))
Continue(r) ==
   /\ ver' = [i \in 1..(Len(ver) + Len(r.new)) |->
                IF i > Len(ver) THEN From(Ev.val[i - Len(ver)])
                ELSE IF i \in ChgIdx THEN From(ChgVal(i))
                ELSE IF i \in UpdIdx(r) THEN UpdVal(r, i) ELSE ver[i]]
   /\ live' = (live \ r.kill) \cup ((Len(ver) + 1)..(Len(ver) + Len(r.new)))
TOp == /\ IsEvent("Op")
       /\ IF dead THEN UNCHANGED <<ver, live, nbad, dead, tainted>>
          \* after a rejection the store follows the implementation and a later operation of the history may no longer be applicable
          ELSE IF ~Pre(Ev.op, ver, live) /\ tainted THEN dead' = TRUE /\ UNCHANGED <<ver, live, nbad, tainted>>
          ELSE IF ~Pre(Ev.op, ver, live) THEN PrintT(<<"BADCASE", l>>) /\ nbad' = nbad + 1 /\ dead' = TRUE /\ UNCHANGED <<ver, live, tainted>>
          ELSE \E r \in {Eval(Ev.op, ver)} : \E why \in {Why(r)} :
               /\ IF why = "ok" THEN nbad' = nbad /\ UNCHANGED tainted
                  ELSE PrintT(<<"REJECT", l, Ev.op.op, why>>) /\ nbad' = nbad + 1 /\ tainted' = TRUE
               /\ IF Reported(r) THEN Continue(r) /\ UNCHANGED dead ELSE dead' = TRUE /\ UNCHANGED <<ver, live>>
TEnd == IsEvent("End") /\ nbad = 0 /\ UNCHANGED <<ver, live, nbad, dead, tainted>>
TraceInit == ver = <<>> /\ live = {} /\ l = 1 /\ nbad = 0 /\ dead = FALSE /\ tainted = FALSE /\ hist = <<>> /\ rnd = <<>> /\ tick = 0
TraceNext == (TReset \/ TOp \/ TEnd) /\ UNCHANGED <<hist, rnd, tick>>
TraceSpec == TraceInit /\ [][TraceNext]_<<vars, l, nbad, dead, tainted>>
Accepted == LET d == TLCGet("stats").diameter IN
            IF d - 1 = Len(TraceLog) THEN TRUE ELSE PrintT(<<"TRACE_REJECTED_AT", d, Len(TraceLog)>>) /\ FALSE
=========================================================================
