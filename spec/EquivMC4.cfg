SPECIFICATION Spec
CONSTANTS N = 4
          VecArities = {1}
INVARIANTS InvEquivalence InvExplore InvUnfolding InvBoundedHash
