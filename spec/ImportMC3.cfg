SPECIFICATION BuildSpec
CONSTANTS
  Graph <- SmallGraph
  MaxDepth = 3
  MaxIds = 2
  Pfx = {"p", "q:"}
  Pool = {"z", "o"}
  CopyImmediates = FALSE
  MaxEnvs = 2
  MaxTicks = 2
  StartLibs = {1}
INVARIANTS
  LawWF LawAgree LawNoInvent LawBindingsExist LawPrefixDrop LawPartition LawRename LawSwap
CHECK_DEADLOCK FALSE
