SPECIFICATION Spec
CONSTANTS MaxLen = 3
          NKeys = 3
          Pairs = TRUE
INVARIANTS Dump
CHECK_DEADLOCK FALSE
