---------------------------- MODULE Equiv ----------------------------
(* C15, first half: what equal? / eqv? / eq? / hash must say about two values.

   An abstract value, a term, is a rooted graph.  A graph is a sequence of nodes, the root is node 1,
   a node is a record  [k |-> kind, a |-> atom id, c |-> sequence of child node indices]:
     k = "atom" : a leaf; `a' identifies the abstract atom (exact number, flonum bit pattern, char, string as
                  code point sequence, bytevector contents, symbol name, boolean, (), ...); c = << >>
     k = "pair" : c = <<car, cdr>>             k = "vec" : c = the elements
   Cyclic data are cyclic graphs.  R7RS: "equal? returns #t iff the (possibly infinite) unfoldings of its
   arguments into regular trees are equal as ordered trees" - that is Tree equality below; SameGraph is the
   (finite) greatest-bisimulation computation used to decide it, and EquivMC model-checks that the two agree,
   that the result is an equivalence relation, and that anything computed from a bounded unfolding (such as a
   structural hash) is constant on its classes - also while the graph is being mutated into cycles. *)
EXTENDS Integers, Sequences, FiniteSets, TLC

Compat(x, y) == x.k = y.k /\ x.a = y.a /\ Len(x.c) = Len(y.c)

\* one refinement step: keep the pairs whose children are pairwise still related
Refine(g, h, R) == {p \in R : \A x \in 1..Len(g[p[1]].c) : <<g[p[1]].c[x], h[p[2]].c[x]>> \in R}

\* greatest bisimulation between the nodes of g and the nodes of h (m+n rounds suffice, Hopcroft/Karp)
Gfp(g, h) ==
   LET N == Len(g) + Len(h)
       F[r \in 0..N] == IF r = 0 THEN {p \in (1..Len(g)) \X (1..Len(h)) : Compat(g[p[1]], h[p[2]])}
                        ELSE Refine(g, h, F[r - 1])
   IN F[N]

\* The same question for one pair of roots, answered by exploring only the pairs of nodes that are reached
\* from <<i, j>> by descending in lockstep: the two denote the same value iff every reachable pair is locally
\* compatible.  (Linear in practice; EquivMC checks that it agrees with Gfp and with the unfoldings.)
RECURSIVE Explore(_, _, _, _)
Explore(g, h, seen, frontier) ==
   IF frontier = {} THEN seen
   ELSE LET good == {p \in frontier : Compat(g[p[1]], h[p[2]])}
            next == UNION {{<<g[p[1]].c[x], h[p[2]].c[x]>> : x \in 1..Len(g[p[1]].c)} : p \in good}
            new == next \ seen
        IN Explore(g, h, seen \cup new, new)
SameFrom(g, i, h, j) == \A p \in Explore(g, h, {<<i, j>>}, {<<i, j>>}) : Compat(g[p[1]], h[p[2]])
SameGraph(g, h) == SameFrom(g, 1, h, 1)

\* the unfolding of node i of g, cut at depth d, as an ordered tree
Tree(g, d, i) ==
   LET T[n \in 0..d] ==          \* T[n][j] = unfolding of node j cut at depth n
          IF n = 0 THEN [j \in 1..Len(g) |-> <<"cut", 0, << >> >>]
          ELSE LET below == T[n - 1]
               IN [j \in 1..Len(g) |-> <<g[j].k, g[j].a, [x \in 1..Len(g[j].c) |-> below[g[j].c[x]]]>>]
   IN T[d][i]

-----------------------------------------------------------------------------
(* What one observation of two value instances A, B may report.
     sameInst  : A and B are the very same object (same evaluation of the same route)
     sameTerm  : the abstract values are the same (SameGraph of their terms)
     clsA/clsB : class of the root: numbers "int" "ratio" "cplx" "flo", "char", "sym", "bool", "null",
                 located objects "str" "bv" "pair" "vec"
     freshA/B  : the route returns a newly allocated, non-empty object (R7RS guarantees a new location)
     nan       : both are NaNs (R7RS leaves eqv? between NaNs open unless they are the same object)        *)
NumberCls  == {"int", "ratio", "cplx", "flo"}
ValueCls   == NumberCls \cup {"char", "sym", "bool", "null"}   \* eqv? = same abstract value
IdentCls   == {"sym", "bool", "null"}                          \* eq?  = same abstract value
LocatedCls == {"str", "bv", "pair", "vec"}                     \* eqv? = same location

EqualOK(sameInst, sameTerm, nan, equal) ==
   IF sameInst THEN equal
   ELSE IF nan THEN TRUE
   ELSE equal = sameTerm

EqvOK(sameInst, sameTerm, nan, clsA, clsB, freshA, freshB, eqv) ==
   IF sameInst THEN eqv
   ELSE IF ~sameTerm THEN ~eqv
   ELSE IF nan THEN TRUE
   ELSE IF clsA \in ValueCls THEN eqv
   ELSE IF freshA \/ freshB THEN ~eqv       \* a new location differs from every other location
   ELSE TRUE                                \* two constants: may or may not share storage

EqOK(sameInst, sameTerm, clsA, clsB, freshA, freshB, eq) ==
   IF sameInst THEN eq
   ELSE IF ~sameTerm THEN ~eq
   ELSE IF clsA \in IdentCls THEN eq
   ELSE IF clsA \in LocatedCls /\ (freshA \/ freshB) THEN ~eq
   ELSE TRUE                                \* numbers, chars: unspecified by R7RS

\* eq? is finer than eqv? is finer than equal?
Lattice(eq, eqv, equal) == (eq => eqv) /\ (eqv => equal)

\* values that are equal? (by the specification or by the implementation's own answer) hash alike
HashOK(sameTerm, nan, equal, ha, hb) == ((sameTerm /\ ~nan) \/ equal) => ha = hb

IsEquivalence(S, R) ==
   /\ \A x \in S : <<x, x>> \in R
   /\ \A p \in R : <<p[2], p[1]>> \in R
   /\ \A p \in R : \A z \in S : <<p[2], z>> \in R => <<p[1], z>> \in R

-----------------------------------------------------------------------------
(* Deeply nested data, symbolically.  Nest(shape, k, leaf) is the leaf wrapped k times:
     shape "lt"  : x |-> (list x 1)       a fresh two-element list  = pair(x, pair(1, ()))
     shape "vf"  : x |-> (vector x 1.5)   a vector with a fresh flonum in its last slot
     shape "car" : x |-> (list x)         = pair(x, ())
   In "lt" and "vf" the nesting is in a non-last slot and the last slot holds another (non-eq?) object, so a
   recursive comparison must really recurse k levels; in "car" it may iterate.  The record is
     [shape |-> .., k |-> .., leaf |-> atom id, aux |-> the atom ids of the constants: <<1, ()>>, <<1.5>>, <<()>>].
   NestGraph writes the term out as a graph (nodes 1..k are the levels, outermost first); this is feasible for
   small k only.  For k = 10^4 .. 10^5 the trace specifications use the closed rule SameNest instead.  That the
   rule is the bisimulation/unfolding equality of the graphs - and that a graph with fewer than k nodes never
   equals a k-fold nest - is model checked for small k (EquivNestMC.tla, InvDeepNotSmall in EquivMC.tla). *)
NAtom(a) == [k |-> "atom", a |-> a, c |-> << >>]
NestGraph(n) ==
   LET k == n.k
       lvl(i) == IF n.shape = "vf" THEN [k |-> "vec", a |-> 0, c |-> <<i + 1, k + 2>>]
                 ELSE [k |-> "pair", a |-> 0, c |-> <<i + 1, k + 2>>]
       rest == IF n.shape = "lt" THEN <<[k |-> "pair", a |-> 0, c |-> <<k + 3, k + 4>>], NAtom(n.aux[1]), NAtom(n.aux[2])>>
               ELSE <<NAtom(n.aux[1])>>
   IN IF k = 0 THEN <<NAtom(n.leaf)>>
      ELSE [i \in 1..k |-> lvl(i)] \o <<NAtom(n.leaf)>> \o rest
SameNest(m, n) == IF m.k = 0 \/ n.k = 0 THEN m.k = n.k /\ m.leaf = n.leaf
                  ELSE m.shape = n.shape /\ m.k = n.k /\ m.leaf = n.leaf /\ m.aux = n.aux
\* a declared term is either a graph (sym = 0, field g) or a symbolic nest (sym = 1, field nest)
ExpandLimit == 64
SameDeclared(x, y) ==
   IF x.sym = 1 /\ y.sym = 1 THEN SameNest(x.nest, y.nest)
   ELSE IF x.sym = 1 THEN (x.nest.k <= ExpandLimit /\ SameGraph(NestGraph(x.nest), y.g))   \* deeper than any declared graph
   ELSE IF y.sym = 1 THEN (y.nest.k <= ExpandLimit /\ SameGraph(x.g, NestGraph(y.nest)))
   ELSE Compat(x.g[1], y.g[1]) /\ SameGraph(x.g, y.g)
=======================================================================
