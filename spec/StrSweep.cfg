SPECIFICATION SweepSpec
POSTCONDITION Accepted
CHECK_DEADLOCK FALSE
