SPECIFICATION Spec
CONSTANTS Ctxs = {1, 2, 3}
          Names = {"a", "b"}
          MaxOps = 4
INVARIANTS NonInterference DestroyLeavesOthers InitBeforeUse
CHECK_DEADLOCK FALSE
