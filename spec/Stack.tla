---------------------------- MODULE Stack ----------------------------
(* C05, second half: non-tail recursion of depth d needs between FrameMin*d and FrameMax*d stack slots.
   The stack starts at InitLen slots and grows on demand (doubling) up to MaxLen.  Hence:
     d * FrameMax <= MaxLen  =>  the recursion must succeed with its value (growing the stack if needed);
     d * FrameMin >  MaxLen  =>  it must end in an out-of-stack ERROR OBJECT (no crash);
   and after either outcome the same context evaluates a probe program correctly.
   Trace events: {"e":"Deep","d":depth,"outcome":"value"|"error","val":v,"probe":p,"len":stack length after} *)
EXTENDS Integers, Sequences, TLC, Json, IOUtils
CONSTANTS InitLen, MaxLen, FrameMin, FrameMax
TraceLog == ndJsonDeserialize(IOEnv.TRACE)
VARIABLES l, len
Ev == TraceLog[l]
Init == l = 1 /\ len = InitLen
\* d is logged in thousands above 30000 to stay within TLC integers: depth = d * unit
\* fn = 4: a call that spreads a list of w thousand elements (apply) under d frames needs one slot per element on top of them
Need(lo) == Ev.d * Ev.unit * (lo + (IF Ev.fn = 3 THEN 110 ELSE 0)) + Ev.w * 1000 + (IF Ev.w > 0 THEN 200 ELSE 0)
TDeep == /\ l <= Len(TraceLog) /\ Ev.e = "Deep" /\ l' = l + 1
         /\ (Need(FrameMax) <= MaxLen /\ Ev.lim = 0 => Ev.outcome = "value")      \* lim = 1: the heap is limited, the stack may fail to grow earlier
         /\ Ev.outcome \in {"value", "error"}
         /\ (Need(FrameMin) > MaxLen => Ev.outcome = "error")
         /\ (Ev.outcome = "value" => Ev.valok = 1)
         /\ Ev.probe = 1                                   \* the context is still usable
         /\ Ev.len >= len /\ Ev.len <= MaxLen              \* the stack only grows, never beyond the maximum
         /\ len' = Ev.len
TReset == /\ l <= Len(TraceLog) /\ Ev.e = "Reset" /\ l' = l + 1 /\ len' = InitLen
Next == TDeep \/ TReset
Spec == Init /\ [][Next]_<<l, len>>
\* model-level sanity: growth policy (doubling, capped) reaches any admissible need
Accepted == LET d == TLCGet("stats").diameter IN
            IF d - 1 = Len(TraceLog) THEN TRUE ELSE PrintT(<<"TRACE_REJECTED_AT", d, Len(TraceLog)>>) /\ FALSE
=====================================================================
