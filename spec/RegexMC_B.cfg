SPECIFICATION Spec
CONSTANTS Sigma = {97, 10}
          MaxLen = 2
          Level = 2
          Fam = "anchor"
INVARIANTS TwoFormulations SearchIsContextMatch SearchFromMatch GroupsWF ReportSound ReportRejectsNonMatch 
CHECK_DEADLOCK FALSE
