---------------------------- MODULE Sched ----------------------------
(* Green threads of chibi-scheme: a transcription of lib/srfi/18/threads.c (primitives and
   sexp_scheduler, fd-less / signal-less part), of the retry loops of lib/srfi/18/interface.scm
   and of the fuel loop of vm.c, shaped for binding: one action per primitive call, one for each
   Scheme-level step of a retry loop, Preempt between any two steps, Schedule = one run of
   sexp_scheduler.  Threads execute small scripts (Script[t] : sequence of op records) over
   shared variables, so that the same scenario data drives the model and the real interpreter
   (harness/scm/sched-driver.scm interprets the same scripts).
   Deadlines are abstract: dl[t] = 0 untimed, 1 = timeout 0 (expired by the next scheduler run),
   3 = soon (a few milliseconds: it expires at SOME later scheduler run, which one is not determined),
   2 = far future (never expires in a run).  Order of deadlines: 1 < 3 < 2. *)
EXTENDS Integers, Sequences, FiniteSets, TLC, SequencesExt

CONSTANTS Threads,     \* 0..N, 0 = the primordial thread
          Script,      \* Script[t] : Seq of op records
          Mutexes, Condvars, Vars

VARIABLES cur, runq, paused, waitp, timeoutp, event, dl, alive, started,
          locked, owner, pc, phase, tmp, sh, out, must, ran, done, res
vars == <<cur, runq, paused, waitp, timeoutp, event, dl, alive, started,
          locked, owner, pc, phase, tmp, sh, out, must, ran, done, res>>

None == <<>>
Del(s, x) == SelectSeq(s, LAMBDA y : y # x)
InSeq(s, x) == \E i \in 1..Len(s) : s[i] = x

Init == /\ cur = 0 /\ runq = <<>> /\ paused = <<>>
        /\ waitp = [t \in Threads |-> FALSE] /\ timeoutp = [t \in Threads |-> FALSE]
        /\ event = [t \in Threads |-> None] /\ dl = [t \in Threads |-> 0]
        /\ alive = [t \in Threads |-> TRUE] /\ started = [t \in Threads |-> t = 0]
        /\ locked = [m \in Mutexes |-> FALSE] /\ owner = [m \in Mutexes |-> -1]
        /\ pc = [t \in Threads |-> 1] /\ phase = [t \in Threads |-> "go"]
        /\ tmp = [t \in Threads |-> 0] /\ sh = [x \in Vars |-> 0] /\ out = <<>>
        /\ must = FALSE /\ ran = FALSE /\ done = FALSE /\ res = [t \in Threads |-> -1]

\* ---- sexp_insert_timed(thread, timeout): d = 0 (#f), 1 (expired soon), 2 (far)
\* delete, then insert after the timed entries that are not later (timed) / before the first untimed (untimed)
Rank(d) == IF d = 3 THEN 2 ELSE IF d = 2 THEN 3 ELSE d
Before(c, d, dls) == dls[c] # 0 /\ Rank(dls[c]) <= Rank(d)
InsertTimed(ps, t, d, dls) ==
   LET q == Del(ps, t)
       k == IF d # 0
            THEN Cardinality({i \in 1..Len(q) : \A j \in 1..i : Before(q[j], d, dls)})
            ELSE Cardinality({i \in 1..Len(q) : \A j \in 1..i : dls[q[j]] # 0})
   IN SubSeq(q, 1, k) \o <<t>> \o SubSeq(q, k + 1, Len(q))

Ins == Script[cur][pc[cur]]
Running == ~must /\ ~done /\ alive[cur]
Advance(t) == /\ pc' = [pc EXCEPT ![t] = @ + 1] /\ phase' = [phase EXCEPT ![t] = "go"]
TimeoutOf(i) == IF "d" \in DOMAIN i THEN i.d ELSE 0

\* cur blocks on ev with deadline class d (waitp, event, insert into paused)
Block(ev, d) ==
   /\ waitp' = [waitp EXCEPT ![cur] = TRUE]
   /\ event' = [event EXCEPT ![cur] = ev]
   /\ dl' = [dl EXCEPT ![cur] = d]
   /\ paused' = InsertTimed(paused, cur, d, [dl EXCEPT ![cur] = d])

\* first paused thread waiting for ev is moved to the FRONT of the run queue (unlock, signal)
FirstWaiter(ps, ev) == IF \E i \in 1..Len(ps) : event[ps[i]] = ev
                       THEN ps[CHOOSE i \in 1..Len(ps) : event[ps[i]] = ev /\ \A j \in 1..(i-1) : event[ps[j]] # ev]
                       ELSE -1

\* ------------------------------------------------------------------ primitives (C level)
\* %mutex-lock!
LockPrim(m, d) ==
   IF ~locked[m]
   THEN /\ locked' = [locked EXCEPT ![m] = TRUE] /\ owner' = [owner EXCEPT ![m] = cur]
        /\ tmp' = [tmp EXCEPT ![cur] = 1] /\ Advance(cur)
        /\ UNCHANGED <<runq, paused, waitp, timeoutp, event, dl>>
   ELSE /\ Block(<<"M", m>>, d) /\ phase' = [phase EXCEPT ![cur] = "yield"]
        /\ UNCHANGED <<locked, owner, tmp, pc, runq, timeoutp>>

\* %mutex-unlock! m [cv [timeout]]
UnlockPrim(m, cv, d) ==
   LET w == IF locked[m] THEN FirstWaiter(paused, <<"M", m>>) ELSE -1
       paused1 == IF w # -1 THEN Del(paused, w) ELSE paused
       runq1 == IF w # -1 THEN <<w>> \o runq ELSE runq
       waitp1 == IF w # -1 THEN [waitp EXCEPT ![w] = FALSE] ELSE waitp
       timeoutp1 == IF w # -1 THEN [timeoutp EXCEPT ![w] = FALSE] ELSE timeoutp
   IN /\ locked' = [locked EXCEPT ![m] = FALSE]
      /\ owner' = IF locked[m] THEN [owner EXCEPT ![m] = cur] ELSE owner
      /\ runq' = runq1
      /\ timeoutp' = timeoutp1
      /\ IF cv = -1
         THEN /\ paused' = paused1 /\ waitp' = waitp1 /\ Advance(cur)
              /\ UNCHANGED <<event, dl, tmp>>
         ELSE /\ waitp' = [waitp1 EXCEPT ![cur] = TRUE]
              /\ event' = [event EXCEPT ![cur] = <<"C", cv>>]
              /\ dl' = [dl EXCEPT ![cur] = d]
              /\ paused' = InsertTimed(paused1, cur, d, [dl EXCEPT ![cur] = d])
              /\ phase' = [phase EXCEPT ![cur] = "yield"]
              /\ UNCHANGED <<pc, tmp>>

\* condition-variable-signal! (one waiter to the front of the run queue); returns the new state pieces
SignalOnce(ps, rq, wp, tp, cv) ==
   LET w == FirstWaiter(ps, <<"C", cv>>) IN
   IF w = -1 THEN <<ps, rq, wp, tp, FALSE>>
   ELSE <<Del(ps, w), <<w>> \o rq, [wp EXCEPT ![w] = FALSE], [tp EXCEPT ![w] = FALSE], TRUE>>
RECURSIVE SignalAll(_, _, _, _, _)
SignalAll(ps, rq, wp, tp, cv) ==
   LET r == SignalOnce(ps, rq, wp, tp, cv) IN
   IF r[5] THEN SignalAll(r[1], r[2], r[3], r[4], cv) ELSE r

SignalPrim(cv, all) ==
   LET r == IF all THEN SignalAll(paused, runq, waitp, timeoutp, cv) ELSE SignalOnce(paused, runq, waitp, timeoutp, cv)
   IN /\ paused' = r[1] /\ runq' = r[2] /\ waitp' = r[3] /\ timeoutp' = r[4]
      /\ Advance(cur) /\ UNCHANGED <<event, dl, tmp>>

\* thread-start!
StartPrim(u) == /\ runq' = Append(runq, u) /\ started' = [started EXCEPT ![u] = TRUE] /\ Advance(cur)

\* %thread-join!
JoinPrim(u, d) ==
   IF ~alive[u]
   THEN /\ tmp' = [tmp EXCEPT ![cur] = res[u]] /\ Advance(cur)
        /\ UNCHANGED <<paused, waitp, timeoutp, event, dl>>
   ELSE /\ Block(<<"J", u>>, d) /\ timeoutp' = [timeoutp EXCEPT ![cur] = FALSE]
        /\ phase' = [phase EXCEPT ![cur] = "yield"] /\ UNCHANGED <<tmp, pc>>

\* %thread-sleep! timeout
SleepPrim(d) == /\ Block(<<"S">>, d) /\ phase' = [phase EXCEPT ![cur] = "yield"]

\* ------------------------------------------------------------------ one step of the running thread
Exec ==
  /\ Running /\ ran' = TRUE
  /\ LET i == Ins IN
     CASE i.op = "lock" ->
            (CASE phase[cur] = "go" -> LockPrim(i.m, TimeoutOf(i)) /\ UNCHANGED <<cur, alive, started, sh, out, must, done, res>>
               [] phase[cur] = "yield" ->        \* (thread-yield!)
                    /\ must' = TRUE /\ phase' = [phase EXCEPT ![cur] = "check"]
                    /\ UNCHANGED <<cur, runq, paused, waitp, timeoutp, event, dl, alive, started, locked, owner, pc, tmp, sh, out, done, res>>
               [] phase[cur] = "check" ->        \* (if (thread-timeout?) #f (retry))
                    /\ IF timeoutp[cur]
                       THEN tmp' = [tmp EXCEPT ![cur] = 0] /\ Advance(cur)
                       ELSE phase' = [phase EXCEPT ![cur] = "go"] /\ UNCHANGED <<tmp, pc>>
                    /\ UNCHANGED <<cur, runq, paused, waitp, timeoutp, event, dl, alive, started, locked, owner, sh, out, must, done, res>>)
       [] i.op = "unlock" ->
            (CASE phase[cur] = "go" -> UnlockPrim(i.m, IF "cv" \in DOMAIN i THEN i.cv ELSE -1, TimeoutOf(i))
                                       /\ UNCHANGED <<cur, alive, started, sh, out, must, done, res>>
               [] phase[cur] = "yield" ->
                    /\ must' = TRUE /\ phase' = [phase EXCEPT ![cur] = "check"]
                    /\ UNCHANGED <<cur, runq, paused, waitp, timeoutp, event, dl, alive, started, locked, owner, pc, tmp, sh, out, done, res>>
               [] phase[cur] = "check" ->        \* (not (thread-timeout?))
                    /\ tmp' = [tmp EXCEPT ![cur] = IF timeoutp[cur] THEN 0 ELSE 1] /\ Advance(cur)
                    /\ UNCHANGED <<cur, runq, paused, waitp, timeoutp, event, dl, alive, started, locked, owner, sh, out, must, done, res>>)
       [] i.op = "signal" -> SignalPrim(i.cv, FALSE) /\ UNCHANGED <<cur, alive, started, locked, owner, sh, out, must, done, res>>
       [] i.op = "broadcast" -> SignalPrim(i.cv, TRUE) /\ UNCHANGED <<cur, alive, started, locked, owner, sh, out, must, done, res>>
       [] i.op = "start" -> StartPrim(i.u) /\ UNCHANGED <<cur, paused, waitp, timeoutp, event, dl, alive, locked, owner, tmp, sh, out, must, done, res>>
       [] i.op = "join" ->
            (CASE phase[cur] = "go" -> JoinPrim(i.u, TimeoutOf(i)) /\ UNCHANGED <<cur, runq, alive, started, locked, owner, sh, out, must, done, res>>
               [] phase[cur] = "yield" ->
                    /\ must' = TRUE /\ phase' = [phase EXCEPT ![cur] = "check"]
                    /\ UNCHANGED <<cur, runq, paused, waitp, timeoutp, event, dl, alive, started, locked, owner, pc, tmp, sh, out, done, res>>
               [] phase[cur] = "check" ->        \* timed out -> default value (-1); else retry
                    /\ IF TimeoutOf(i) # 0 /\ timeoutp[cur]
                       THEN tmp' = [tmp EXCEPT ![cur] = -1] /\ Advance(cur)
                       ELSE phase' = [phase EXCEPT ![cur] = "go"] /\ UNCHANGED <<tmp, pc>>
                    /\ UNCHANGED <<cur, runq, paused, waitp, timeoutp, event, dl, alive, started, locked, owner, sh, out, must, done, res>>)
       [] i.op = "sleep" ->
            (CASE phase[cur] = "go" -> SleepPrim(TimeoutOf(i)) /\ UNCHANGED <<cur, runq, timeoutp, alive, started, locked, owner, pc, tmp, sh, out, must, done, res>>
               [] phase[cur] = "yield" ->
                    /\ must' = TRUE /\ Advance(cur)
                    /\ UNCHANGED <<cur, runq, paused, waitp, timeoutp, event, dl, alive, started, locked, owner, tmp, sh, out, done, res>>)
       [] i.op = "yield" -> /\ must' = TRUE /\ Advance(cur)
                            /\ UNCHANGED <<cur, runq, paused, waitp, timeoutp, event, dl, alive, started, locked, owner, tmp, sh, out, done, res>>
       [] i.op = "read" -> /\ tmp' = [tmp EXCEPT ![cur] = sh[i.x]] /\ Advance(cur)
                           /\ UNCHANGED <<cur, runq, paused, waitp, timeoutp, event, dl, alive, started, locked, owner, sh, out, must, done, res>>
       [] i.op = "write" -> /\ sh' = [sh EXCEPT ![i.x] = tmp[cur] + i.k] /\ Advance(cur)     \* x := tmp + k
                            /\ UNCHANGED <<cur, runq, paused, waitp, timeoutp, event, dl, alive, started, locked, owner, tmp, out, must, done, res>>
       [] i.op = "set" -> /\ sh' = [sh EXCEPT ![i.x] = i.k] /\ Advance(cur)
                          /\ UNCHANGED <<cur, runq, paused, waitp, timeoutp, event, dl, alive, started, locked, owner, tmp, out, must, done, res>>
       [] i.op = "brz" -> /\ pc' = [pc EXCEPT ![cur] = IF sh[i.x] = 0 THEN i.to ELSE @ + 1]    \* branch if x = 0
                          /\ UNCHANGED <<cur, runq, paused, waitp, timeoutp, event, dl, alive, started, locked, owner, phase, tmp, sh, out, must, done, res>>
       [] i.op = "jmp" -> /\ pc' = [pc EXCEPT ![cur] = i.to]
                          /\ UNCHANGED <<cur, runq, paused, waitp, timeoutp, event, dl, alive, started, locked, owner, phase, tmp, sh, out, must, done, res>>
       [] i.op = "emit" -> /\ out' = Append(out, <<cur, tmp[cur]>>) /\ Advance(cur)
                           /\ UNCHANGED <<cur, runq, paused, waitp, timeoutp, event, dl, alive, started, locked, owner, tmp, sh, must, done, res>>
       [] i.op = "end" ->
            IF cur = 0
            THEN /\ done' = TRUE
                 /\ UNCHANGED <<cur, runq, paused, waitp, timeoutp, event, dl, alive, started, locked, owner, pc, phase, tmp, sh, out, must, res>>
            ELSE /\ alive' = [alive EXCEPT ![cur] = FALSE] /\ res' = [res EXCEPT ![cur] = tmp[cur]] /\ must' = TRUE
                 /\ UNCHANGED <<cur, runq, paused, waitp, timeoutp, event, dl, started, locked, owner, pc, phase, tmp, sh, out, done>>

\* the time slice is exhausted between two steps (a slice is at least one instruction)
Preempt == /\ Running /\ ran /\ must' = TRUE
           /\ UNCHANGED <<cur, runq, paused, waitp, timeoutp, event, dl, alive, started, locked, owner, pc, phase, tmp, sh, out, ran, done, res>>

\* ------------------------------------------------------------------ sexp_scheduler(ctx = cur)
\* nto: how many leading expired entries of paused are timed out now (model checking: all of them)
Expired(ps, dls) == Cardinality({i \in 1..Len(ps) : \A j \in 1..i : dls[ps[j]] = 1})
\* the leading entries whose deadline MAY have passed (class 1: has passed, class 3: may have)
MayExpire(ps, dls) == Cardinality({i \in 1..Len(ps) : \A j \in 1..i : dls[ps[j]] \in {1, 3}})
\* sx: the waiting thread that is chosen because nothing else can run reached its own "soon" deadline in this run
ScheduleWith(nto, sx) ==
  /\ ~done /\ must /\ ran' = FALSE
  /\ LET \* joiners of a terminated cur go to the back of the run queue
         joiners == IF ~alive[cur] THEN SelectSeq(paused, LAMBDA p : event[p] = <<"J", cur>>) ELSE <<>>
         p1 == SelectSeq(paused, LAMBDA p : ~InSeq(joiners, p))
         q1 == runq \o joiners
         w1 == [t \in Threads |-> IF InSeq(joiners, t) THEN FALSE ELSE waitp[t]]
         t1 == [t \in Threads |-> IF InSeq(joiners, t) THEN FALSE ELSE timeoutp[t]]
         \* timeouts: a prefix of the (deadline-sorted) paused list
         tos == SubSeq(p1, 1, nto)
         p2 == SubSeq(p1, nto + 1, Len(p1))
         q2 == q1 \o tos
         w2 == [t \in Threads |-> IF InSeq(tos, t) THEN FALSE ELSE w1[t]]
         t2 == [t \in Threads |-> IF InSeq(tos, t) THEN TRUE ELSE t1[t]]
         \* dequeue the next thread (or keep cur when the run queue is empty)
         deq == q2 # <<>>
         r0 == IF deq THEN Head(q2) ELSE cur
         gone == ~alive[cur] \/ w2[cur]                       \* cur is terminated or paused
         reins == deq /\ gone /\ alive[cur] /\ ~InSeq(p2, cur)  \* a paused cur that fell off the list is re-inserted untimed
         dl3 == IF reins THEN [dl EXCEPT ![cur] = 0] ELSE dl
         p3 == IF reins THEN InsertTimed(p2, cur, 0, dl3) ELSE p2
         q3 == IF deq THEN (IF gone THEN Tail(q2) ELSE Append(Tail(q2), cur)) ELSE q2
         \* "the only thread available was waiting": prefer an earlier timed sleeper, take the thread off the paused list
         waiting == w2[r0]
         swap == waiting /\ p3 # <<>> /\ Before(Head(p3), dl3[r0], dl3) /\ Head(p3) # r0
         r1 == IF swap THEN Head(p3) ELSE r0
         p4 == IF ~waiting THEN p3
               ELSE IF swap THEN (IF ~InSeq(Tail(p3), r0) THEN InsertTimed(Tail(p3), r0, dl3[r0], dl3) ELSE Tail(p3))
               ELSE Del(p3, r0)
         exp == waiting /\ (dl3[r1] = 1 \/ (dl3[r1] = 3 /\ sx))    \* its deadline has passed: it times out now
     IN /\ nto <= MayExpire(p1, dl)
        /\ cur' = r1 /\ runq' = q3 /\ paused' = p4 /\ dl' = dl3
        /\ waitp' = IF exp THEN [w2 EXCEPT ![r1] = FALSE] ELSE w2
        /\ timeoutp' = IF exp THEN [t2 EXCEPT ![r1] = TRUE] ELSE t2
  \* vm.c: a thread that is still waiting (or terminated) is handed straight back to the scheduler
  /\ must' = (waitp'[cur'] \/ ~alive[cur'])
  /\ UNCHANGED <<event, alive, started, locked, owner, pc, phase, tmp, sh, out, done, res>>

P1 == SelectSeq(paused, LAMBDA p : ~(~alive[cur] /\ event[p] = <<"J", cur>>))
\* model checking: every class-1 entry times out, any number of the following class-3 entries may
Schedule == \E n \in Expired(P1, dl)..MayExpire(P1, dl), sx \in BOOLEAN : ScheduleWith(n, sx)

Next == Exec \/ Preempt \/ Schedule
Spec == Init /\ [][Next]_vars
FairSpec == Spec /\ WF_vars(Exec) /\ WF_vars(Schedule)

\* ------------------------------------------------------------------ properties (C11)
\* at most one thread between a successful lock of m and its unlock
Holds(t, m) == locked[m] /\ owner[m] = t
MutualExclusion == \A m \in Mutexes : locked[m] => owner[m] \in Threads
\* critical sections of the scripts: positions flagged cs = m
InCS(t, m) == started[t] /\ alive[t] /\ pc[t] <= Len(Script[t]) /\ "cs" \in DOMAIN Script[t][pc[t]] /\ Script[t][pc[t]].cs = m
CSExclusive == \A m \in Mutexes : Cardinality({t \in Threads : InCS(t, m)}) <= 1
Where(t) == (IF cur = t THEN 1 ELSE 0) + Cardinality({i \in 1..Len(runq) : runq[i] = t})
            + Cardinality({i \in 1..Len(paused) : paused[i] = t})
\* every started live thread is somewhere the scheduler can find it
QueuesWellFormed == \A t \in Threads : (started[t] /\ alive[t]) => Where(t) >= 1
NoDup == \A t \in Threads : /\ Cardinality({i \in 1..Len(runq) : runq[i] = t}) <= 1
                            /\ Cardinality({i \in 1..Len(paused) : paused[i] = t}) <= 1
\* a thread in the run queue is runnable
RunqRunnable == \A i \in 1..Len(runq) : ~waitp[runq[i]] \/ ~alive[runq[i]]
\* no lost wake-up (safety form): a thread paused untimed on an unlocked mutex has a runnable competitor
\* that was woken for it or holds the right to retry; checked as: it is never the case that the only
\* thing it waits for has happened and nobody is runnable at all
Stuck == /\ ~done /\ runq = <<>> /\ (waitp[cur] \/ ~alive[cur])
         /\ \A i \in 1..Len(paused) : dl[paused[i]] = 0
         /\ dl[cur] = 0
Happened(t) == \/ event[t][1] = "M" /\ ~locked[event[t][2]]
               \/ event[t][1] = "J" /\ ~alive[event[t][2]]
NoLostWakeup == Stuck => \A t \in Threads : (started[t] /\ alive[t] /\ waitp[t] /\ event[t] # None /\ event[t][1] \in {"M", "J"}) => ~Happened(t)
Termination == <>done
=====================================================================
