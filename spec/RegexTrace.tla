---------------------------- MODULE RegexTrace ----------------------------
(* C20 conformance: validates results recorded by harness/scm/regexdrv.scm against Regex.tla.
   Trace = {"e":"Call","id":k,"sre":<nested arrays>,"s":[code points],"err","m","mf","mm","sf","ss"}* {"e":"End"}.
   A pure-function property: every Call is judged on its own; a rejected call is printed
   (<<"REJECT", id, failed clauses>>) and remembered, the final End step is possible only when
   nothing was rejected, so the trace is accepted iff every recorded result satisfies the spec.  *)
EXTENDS Regex, TLC, Json, IOUtils
TraceLog == ndJsonDeserialize(IOEnv.TRACE)
VARIABLES l, bad
Ev == TraceLog[l]

\* JSON arrays arrive as tuples: rebuild the character sets
RECURSIVE FromJ(_)
FromJ(t) == CASE t[1] \in {"set", "nset"} -> <<t[1], {t[2][k] : k \in DOMAIN t[2]}>>
              [] t[1] \in {"seq", "or", "cor", "cand", "cdiff"} -> <<t[1], FromJ(t[2]), FromJ(t[3])>>
              [] t[1] \in {"star", "plus", "opt", "sub", "nocase", "ascii", "ccompl", "cnocase", "cascii"} -> <<t[1], FromJ(t[2])>>
              [] t[1] = "rep" -> <<"rep", t[2], t[3], FromJ(t[4])>>
              [] OTHER -> t

\* the clauses of the property that a recorded result fails to satisfy, as a bit mask (0 = accepted):
\*   1 malformed case (generator bug)   2 Scheme error / no result        4 regexp-matches? disagrees with L(r)
\*   8 regexp-matches disagrees         16 regexp-matches spans wrong      32 regexp-search existence disagrees
\*  64 regexp-search spans wrong
Bit(cond, b) == IF cond THEN 0 ELSE b
Failed(ev) ==
   LET r == FromJ(ev.sre)
       s == ev.s
       n == Len(s)
       inL == Matches(r, s)
       found == Search(r, s)
   IN  IF ~WF(r) \/ (UsesNamed(r) /\ \E k \in 1..n : s[k] \notin KnownChars) THEN 1
       ELSE IF ev.err # 0 THEN 2
       ELSE Bit((ev.m = 1) = inL, 4)
            + Bit((ev.mf = 1) = inL, 8)
            + Bit((ev.mf = 1 /\ inL) => (ReportOk(r, s, ev.mm) /\ ev.mm[1] = <<0, n>>), 16)
            + Bit((ev.sf = 1) = found, 32)
            + Bit((ev.sf = 1 /\ found) => ReportOk(r, s, ev.ss), 64)

TCall == /\ l <= Len(TraceLog) /\ Ev.e = "Call" /\ l' = l + 1
         /\ LET F == Failed(Ev) IN
            IF F = 0 THEN bad' = bad
            ELSE PrintT(<<"REJECT", Ev.id, F>>) /\ bad' = bad + 1
TEnd == /\ l <= Len(TraceLog) /\ Ev.e = "End" /\ bad = 0 /\ l' = l + 1 /\ bad' = bad
TraceInit == l = 1 /\ bad = 0
TraceNext == TCall \/ TEnd
TraceSpec == TraceInit /\ [][TraceNext]_<<l, bad>>
Accepted == LET d == TLCGet("stats").diameter IN
            IF d - 1 = Len(TraceLog) THEN TRUE ELSE PrintT(<<"TRACE_REJECTED_AT", d, Len(TraceLog)>>) /\ FALSE
=============================================================================
