---------------------------- MODULE Preserve ----------------------------
(* C10 / C02, embedding API: sexp_preserve_object / sexp_release_object keep a MULTISET of roots.
   An object that is referenced from nowhere else is reclaimed by the next full collection exactly when it
   is not in that multiset any more: releasing an object that was preserved n times n times (in ANY order
   relative to other objects) makes it reclaimable - storage of unreachable objects is returned to the
   allocator - and as long as one preservation is outstanding it must survive.
   Trace events (harness/c/preserve.c; liveness is observed through one ephemeron per object):
     Alloc id | Preserve id | Release id | Collect dead=<<ids reported broken by this collection>> | Done *)
EXTENDS Integers, Sequences, FiniteSets, TLC, Json, IOUtils
TraceLog == ndJsonDeserialize(IOEnv.TRACE)
VARIABLES l, held, alive
vars == <<l, held, alive>>
Ev == TraceLog[l]
IsEvent(e) == l <= Len(TraceLog) /\ Ev.e = e /\ l' = l + 1
Count(id) == IF id \in DOMAIN held THEN held[id] ELSE 0

Init == l = 1 /\ held = [i \in {} |-> 0] /\ alive = {}
TAlloc == IsEvent("Alloc") /\ Ev.id \notin alive /\ alive' = alive \cup {Ev.id} /\ UNCHANGED held
TPreserve == /\ IsEvent("Preserve") /\ Ev.id \in alive
             /\ held' = [i \in DOMAIN held \cup {Ev.id} |-> IF i = Ev.id THEN Count(i) + 1 ELSE held[i]] /\ UNCHANGED alive
\* releasing something that is not preserved is a no-op
TRelease == /\ IsEvent("Release")
            /\ held' = IF Count(Ev.id) > 0 THEN [held EXCEPT ![Ev.id] = @ - 1] ELSE held
            /\ UNCHANGED alive
\* a full collection reclaims exactly the objects without an outstanding preservation
Reclaimable == {i \in alive : Count(i) = 0}
TCollect == /\ IsEvent("Collect")
            /\ {Ev.dead[i] : i \in 1..Len(Ev.dead)} = Reclaimable
            /\ alive' = alive \ Reclaimable /\ UNCHANGED held
TDone == IsEvent("Done") /\ UNCHANGED <<held, alive>>
Next == TAlloc \/ TPreserve \/ TRelease \/ TCollect \/ TDone
Spec == Init /\ [][Next]_vars
\* design-level sanity, checked on every validated trace: a held object is alive
HeldAlive == \A i \in DOMAIN held : held[i] > 0 => i \in alive
Accepted == LET d == TLCGet("stats").diameter IN
            IF d - 1 = Len(TraceLog) /\ TraceLog[Len(TraceLog)].e = "Done" THEN TRUE
            ELSE PrintT(<<"TRACE_REJECTED_AT", d, Len(TraceLog)>>) /\ FALSE
=========================================================================
