SPECIFICATION Spec
CONSTANTS N = 3
          Mode = "num"
INVARIANTS NamedEscapes RoundTripShared RoundTripCyclic RoundTripPlain BadLabels NumberGrammar IdentOrNumber InfNan Horner EscapeInverse
CHECK_DEADLOCK FALSE
