SPECIFICATION Spec
CONSTANTS
  Ids = {1, 2}
  NoId = 0
  Menu <- MenuC
  InitSeg = 4
  GrowSizes = {3}
  MaxSegs = 1
  NRegs = 2
  TiedRegs = TRUE
  MaxSaves = 0
  AllowTmp = TRUE
  FirstFitOnly = FALSE
CONSTRAINT StateConstraint
INVARIANTS TypeOK Tiling FreeSorted NoAdjacentFree RefsValid NoPrematureFree HeldValid NoLeak FinalizeOnlyDead EphSound EphBrokenAfterCollect
VIEW ViewNoGhost
