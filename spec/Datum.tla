---------------------------- MODULE Datum ----------------------------
(* C08: Scheme data as rooted, ordered, labelled graphs.

   A graph is  [r |-> root id, n |-> <<node_1, ..., node_N>>]  and a node is
   [k |-> kind, c |-> <<child ids>>, p |-> <<payload integers>>]:
     "pair" (car, cdr), "vec" (elements)            -- nodes WITH identity (eq?-distinguishable, mutable);
                                                       the empty vector has no locations and no identity
                                                       (an implementation may share one object for all #())
     "rat" (numerator, denominator), "cpx" (real, imaginary)  -- numbers made of numbers, no identity
     atoms: "null" "bool"<<b>> "int"<<sign, base-1024 digits little endian>> "flo"<<four 16-bit words of
            the IEEE-754 pattern, most significant first>> "nan" "char"<<code point>> "str"/"sym"<<code
            points>> "bytes"<<octets>>.
   Two relations are defined:
     Equal(g1,g2)  - the (possibly infinite) unfoldings are the same tree: R7RS equal? extended to
                     circular data; what a writer WITHOUT labels for mere sharing must preserve;
     Iso(g1,g2)    - Equal, and the correspondence between the pair/vector nodes is one-to-one:
                     sharing and cycles are the same graph; what write-shared + read must preserve.
   Both are computed from the set of node pairs met by walking the two graphs in lock step from the
   roots.  Canon (numbering by depth-first search) and Unfold (bounded unfolding) are independent
   second formulations, compared with the first by TLC in DatumMC. *)
EXTENDS Integers, Sequences, FiniteSets, TLC

Identity == {"pair", "vec"}
Compound == {"pair", "vec", "rat", "cpx"}
AtomKinds == {"null", "bool", "int", "flo", "nan", "char", "str", "sym", "bytes"}
Kinds == Compound \cup AtomKinds

Ids(g) == 1..Len(g.n)
Kind(g, i) == g.n[i].k
Kids(g, i) == g.n[i].c
Pay(g, i) == g.n[i].p
HasId(g, i) == Kind(g, i) = "pair" \/ (Kind(g, i) = "vec" /\ Len(Kids(g, i)) > 0)

Scalar(cp) == cp \in 0..55295 \/ cp \in 57344..1114111

\* canonical integer payload: <<0>> is zero; otherwise sign, digits, most significant digit non-zero
IntOK(p) == /\ Len(p) >= 1 /\ p[1] \in {0, 1}
            /\ \A j \in 2..Len(p) : p[j] \in 0..1023
            /\ (Len(p) = 1 => p[1] = 0)
            /\ (Len(p) > 1 => p[Len(p)] # 0)
IsNaNBits(p) == ((p[1] % 32768) \div 16 = 2047) /\ (p[1] % 16 # 0 \/ p[2] # 0 \/ p[3] # 0 \/ p[4] # 0)
FloOK(p) == Len(p) = 4 /\ (\A j \in 1..4 : p[j] \in 0..65535) /\ ~IsNaNBits(p)

PayloadOK(nd) ==
  CASE nd.k = "null" -> Len(nd.p) = 0
    [] nd.k = "nan" -> Len(nd.p) = 0
    [] nd.k = "bool" -> Len(nd.p) = 1 /\ nd.p[1] \in {0, 1}
    [] nd.k = "int" -> IntOK(nd.p)
    [] nd.k = "flo" -> FloOK(nd.p)
    [] nd.k = "char" -> Len(nd.p) = 1 /\ Scalar(nd.p[1])
    [] nd.k \in {"str", "sym"} -> \A j \in 1..Len(nd.p) : Scalar(nd.p[j])
    [] nd.k = "bytes" -> \A j \in 1..Len(nd.p) : nd.p[j] \in 0..255
    [] OTHER -> Len(nd.p) = 0

RealKinds == {"int", "rat", "flo", "nan"}
ShapeOK(g, i) ==
  LET nd == g.n[i] IN
  /\ nd.k \in Kinds
  /\ \A j \in 1..Len(nd.c) : nd.c[j] \in Ids(g)
  /\ PayloadOK(nd)
  /\ (CASE nd.k = "pair" -> Len(nd.c) = 2
        [] nd.k = "vec" -> TRUE
        [] nd.k = "rat" -> /\ Len(nd.c) = 2
                           /\ Kind(g, nd.c[1]) = "int" /\ Kind(g, nd.c[2]) = "int"
                           /\ Len(Pay(g, nd.c[1])) > 1                      \* numerator non-zero
                           /\ Pay(g, nd.c[2])[1] = 0 /\ Len(Pay(g, nd.c[2])) > 1 /\ Pay(g, nd.c[2]) # <<0, 1>>
        [] nd.k = "cpx" -> Len(nd.c) = 2 /\ Kind(g, nd.c[1]) \in RealKinds /\ Kind(g, nd.c[2]) \in RealKinds
        [] OTHER -> Len(nd.c) = 0)

WellFormed(g) == /\ g.r \in Ids(g)
                 /\ \A i \in Ids(g) : ShapeOK(g, i)

\* ------------------------------------------------------------------ reachability, cycles, sharing
KidSet(g, i) == {Kids(g, i)[j] : j \in 1..Len(Kids(g, i))}

RECURSIVE RClose(_, _, _)
RClose(g, done, front) ==
  IF front = {} THEN done
  ELSE LET d2 == done \cup front
       IN RClose(g, d2, UNION {KidSet(g, i) : i \in front} \ d2)
Reach(g) == RClose(g, {}, {g.r})

\* repeatedly remove the nodes none of whose children remain: what is left lies on or leads to a cycle
RECURSIVE Strip(_, _)
Strip(g, S) == LET L == {i \in S : KidSet(g, i) \cap S = {}}
               IN IF L = {} THEN S ELSE Strip(g, S \ L)
Acyclic(g) == Strip(g, Reach(g)) = {}
Cyclic(g) == ~Acyclic(g)

\* number of references to node i from the root and from reachable nodes
Count(s, i) == Cardinality({j \in 1..Len(s) : s[j] = i})
RECURSIVE SumOver(_, _, _)
SumOver(g, S, i) == IF S = {} THEN 0
                    ELSE LET x == CHOOSE x \in S : TRUE IN Count(Kids(g, x), i) + SumOver(g, S \ {x}, i)
InDeg(g, i) == (IF g.r = i THEN 1 ELSE 0) + SumOver(g, Reach(g), i)
Shared(g) == \E i \in Reach(g) : HasId(g, i) /\ InDeg(g, i) > 1

\* ------------------------------------------------------------------ lock-step walk
Compat(g1, g2, a, b) == /\ Kind(g1, a) = Kind(g2, b)
                        /\ Len(Kids(g1, a)) = Len(Kids(g2, b))
                        /\ Pay(g1, a) = Pay(g2, b)

RECURSIVE PClose(_, _, _, _)
PClose(g1, g2, done, front) ==
  IF front = {} THEN done
  ELSE LET d2 == done \cup front
           nxt == UNION { IF Compat(g1, g2, q[1], q[2])
                          THEN {<<Kids(g1, q[1])[j], Kids(g2, q[2])[j]>> : j \in 1..Len(Kids(g1, q[1]))}
                          ELSE {} : q \in front }
       IN PClose(g1, g2, d2, nxt \ d2)
Pairs(g1, g2) == PClose(g1, g2, {}, {<<g1.r, g2.r>>})

Equal(g1, g2) == \A q \in Pairs(g1, g2) : Compat(g1, g2, q[1], q[2])

Iso(g1, g2) ==
  LET P == Pairs(g1, g2)
      PI == {q \in P : HasId(g1, q[1]) \/ HasId(g2, q[2])}
  IN /\ \A q \in P : Compat(g1, g2, q[1], q[2])
     /\ Cardinality({q[1] : q \in PI}) = Cardinality(PI)
     /\ Cardinality({q[2] : q \in PI}) = Cardinality(PI)

\* fast path used by the trace specs: identical tables are trivially isomorphic
Same(g1, g2) == g1 = g2 \/ Iso(g1, g2)

\* ------------------------------------------------------------------ second formulations (for DatumMC)
InSeq(s, x) == \E j \in 1..Len(s) : s[j] = x
Index(s, x) == CHOOSE j \in 1..Len(s) : s[j] = x

\* depth-first preorder of the identity nodes reachable from the root
RECURSIVE Dfs(_, _, _)
Dfs(g, stack, order) ==
  IF stack = <<>> THEN order
  ELSE LET i == Head(stack) rest == Tail(stack) IN
       IF ~HasId(g, i) \/ InSeq(order, i) THEN Dfs(g, rest, order)
       ELSE Dfs(g, Kids(g, i) \o rest, Append(order, i))
Order(g) == Dfs(g, <<g.r>>, <<>>)

\* value of a node without identity, as a tagged tuple (tag first, so that comparisons stop at the tag)
RECURSIVE Val(_, _)
Val(g, i) == IF Kind(g, i) \in {"rat", "cpx"}
             THEN <<Kind(g, i), Val(g, Kids(g, i)[1]), Val(g, Kids(g, i)[2])>>
             ELSE <<Kind(g, i), Pay(g, i)>>
Canon(g) ==
  LET ord == Order(g)
      Item(i) == IF HasId(g, i) THEN <<"ref", Index(ord, i)>> ELSE <<"val", Val(g, i)>>
  IN <<Item(g.r),
       [m \in 1..Len(ord) |-> <<Kind(g, ord[m]), [j \in 1..Len(Kids(g, ord[m])) |-> Item(Kids(g, ord[m])[j])]>>]>>

\* unfolding to depth d as a nested tuple
RECURSIVE Unfold(_, _, _)
Unfold(g, i, d) ==
  IF d = 0 THEN <<"cut">>
  ELSE <<Kind(g, i), Pay(g, i), [j \in 1..Len(Kids(g, i)) |-> Unfold(g, Kids(g, i)[j], d - 1)]>>

\* a node lies on a cycle, by the definition (a path of length >= 1 back to itself)
RECURSIVE Below(_, _, _)
Below(g, done, front) ==      \* nodes reachable in >= 0 steps from the set front
  IF front = {} THEN done
  ELSE LET d2 == done \cup front IN Below(g, d2, UNION {KidSet(g, i) : i \in front} \ d2)
OnCycle(g, i) == i \in Below(g, {}, KidSet(g, i))
CyclicByDef(g) == \E i \in Reach(g) : OnCycle(g, i)

\* renaming of node ids by a permutation f of Ids(g)
Rename(g, f) ==
  LET inv == [y \in Ids(g) |-> CHOOSE x \in Ids(g) : f[x] = y]
  IN [r |-> f[g.r],
      n |-> [y \in Ids(g) |-> [k |-> g.n[inv[y]].k,
                               c |-> [j \in 1..Len(g.n[inv[y]].c) |-> f[g.n[inv[y]].c[j]]],
                               p |-> g.n[inv[y]].p]]]
=====================================================================
