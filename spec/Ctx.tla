---------------------------- MODULE Ctx ----------------------------
(* C13: contexts created without a parent own disjoint heaps, symbol tables, type tables and global
   environments; the only process-wide state is a pair of "initialised" flags set by an idempotent
   check-then-set (sexp_scheme_init / sexp_init).  Model: N contexts operated by N OS threads, every
   interleaving of: init (two steps, racy), create, define a global, intern a symbol, evaluate (reads only
   the context's own state), collect, destroy.  NonInterference: what a context observes is a function
   of its own operations only. *)
EXTENDS Integers, Sequences, FiniteSets, TLC
CONSTANTS Ctxs, Names, MaxOps
VARIABLES inited,      \* process-wide flag
          initpc,      \* per thread: 0 not started, 1 saw the flag clear (about to set), 2 done
          alive,       \* context exists
          globals,     \* globals[c] : set of names defined in context c
          mine,        \* ghost: names context c itself defined (what it may observe)
          observed,    \* observed[c] : last observation of c (set of visible names)
          nops
vars == <<inited, initpc, alive, globals, mine, observed, nops>>
Init == /\ inited = FALSE /\ initpc = [c \in Ctxs |-> 0] /\ alive = [c \in Ctxs |-> FALSE]
        /\ globals = [c \in Ctxs |-> {}] /\ mine = [c \in Ctxs |-> {}] /\ observed = [c \in Ctxs |-> {}] /\ nops = 0
\* sexp_scheme_init: if (!flag) { flag = 1; init(); }  -- two threads may both see it clear; init is idempotent
InitCheck(c) == /\ initpc[c] = 0 /\ initpc' = [initpc EXCEPT ![c] = IF inited THEN 2 ELSE 1]
                /\ UNCHANGED <<inited, alive, globals, mine, observed, nops>>
InitSet(c) == /\ initpc[c] = 1 /\ inited' = TRUE /\ initpc' = [initpc EXCEPT ![c] = 2]
              /\ UNCHANGED <<alive, globals, mine, observed, nops>>
Create(c) == /\ initpc[c] = 2 /\ ~alive[c] /\ mine[c] = {} /\ alive' = [alive EXCEPT ![c] = TRUE]
             /\ UNCHANGED <<inited, initpc, globals, mine, observed, nops>>
Define(c, n) == /\ alive[c] /\ nops < MaxOps /\ nops' = nops + 1
                /\ globals' = [globals EXCEPT ![c] = @ \cup {n}] /\ mine' = [mine EXCEPT ![c] = @ \cup {n}]
                /\ UNCHANGED <<inited, initpc, alive, observed>>
Observe(c) == /\ alive[c] /\ nops < MaxOps /\ nops' = nops + 1
              /\ observed' = [observed EXCEPT ![c] = globals[c]]
              /\ UNCHANGED <<inited, initpc, alive, globals, mine>>
Destroy(c) == /\ alive[c] /\ alive' = [alive EXCEPT ![c] = FALSE] /\ globals' = [globals EXCEPT ![c] = {}]
              /\ UNCHANGED <<inited, initpc, mine, observed, nops>>
Next == \E c \in Ctxs : InitCheck(c) \/ InitSet(c) \/ Create(c) \/ Observe(c) \/ Destroy(c) \/ \E n \in Names : Define(c, n)
Spec == Init /\ [][Next]_vars
NonInterference == \A c \in Ctxs : observed[c] \subseteq mine[c]
DestroyLeavesOthers == \A c \in Ctxs : alive[c] => globals[c] = mine[c]
InitBeforeUse == \A c \in Ctxs : alive[c] => inited
=====================================================================
