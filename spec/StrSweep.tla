----------------------------- MODULE StrSweep -----------------------------
(* C12, exhaustive part: validates the log of harness/scm/strsweep.scm.  For every scalar value c of the
   chunk [from, to): the bytes produced by the three encoders of the implementation equal Utf8(c), they
   decode (strict decoder of Str) to <<c>>, and the implementation's own decoders give c back from a
   string of length 1.  `nextcp` makes TLC check that no code point of the chunk is missing. *)
EXTENDS Utf8, TLC, Json, IOUtils
TraceLog == ndJsonDeserialize(IOEnv.TRACE)
VARIABLES l, nextcp
Ev == TraceLog[l]
IsEvent(e) == l <= Len(TraceLog) /\ Ev.e = e /\ l' = l + 1
Skip(c) == IF c = 55296 THEN 57344 ELSE c
TBegin == IsEvent("SweepBegin") /\ l = 1 /\ nextcp' = Skip(Ev.from)
BlockOK == /\ Ev.n >= 1
           /\ Len(Ev.b1) = Ev.n /\ Len(Ev.b2) = Ev.n /\ Len(Ev.b3) = Ev.n
           /\ Len(Ev.d1) = Ev.n /\ Len(Ev.d2) = Ev.n /\ Len(Ev.len) = Ev.n
           /\ \A k \in 1..Ev.n :
                 LET c == Ev.from + k - 1 IN
                 /\ IsScalar(c)
                 /\ Ev.b1[k] = Utf8(c) /\ Ev.b2[k] = Utf8(c) /\ Ev.b3[k] = Utf8(c)
                 /\ Decode(Ev.b1[k]) = <<c>>
                 /\ Ev.d1[k] = c /\ Ev.d2[k] = c /\ Ev.len[k] = 1
\* a block continues exactly where the previous one ended; a block with a wrong code point is printed
\* as rejected and the sweep goes on (one TLC run gives the verdict on every block)
TBlock == /\ IsEvent("Sweep") /\ nextcp >= 0 /\ Ev.from = nextcp /\ Ev.n >= 1
          /\ IF BlockOK THEN TRUE ELSE PrintT(<<"BLOCK_REJECTED", Ev.from, Ev.n>>)
          /\ nextcp' = Skip(Ev.from + Ev.n)
TEnd == IsEvent("SweepEnd") /\ nextcp = Skip(Ev.to) /\ nextcp' = -1
SweepInit == l = 1 /\ nextcp = -1
SweepNext == TBegin \/ TBlock \/ TEnd
SweepSpec == SweepInit /\ [][SweepNext]_<<l, nextcp>>
Accepted == LET d == TLCGet("stats").diameter IN
            IF d - 1 = Len(TraceLog) THEN TRUE ELSE PrintT(<<"TRACE_REJECTED_AT", d, Len(TraceLog)>>) /\ FALSE
=============================================================================
