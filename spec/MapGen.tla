---------------------------- MODULE MapGen ----------------------------
(* Behaviour generation for the table replay: TLC -simulate walks the actions of Map.tla over 3 key classes,
   2 values and 2 tables; a history variable records one label per step and is printed as JSON when the
   behaviour is D steps long.  checks/c15.py turns the labels into operations on real SRFI 69 / SRFI 125 tables
   (each key class becomes a catalogue term, each occurrence one of its routes) and MapTrace judges what the
   tables answered.  Queries carry their key so that present and absent keys are both looked up. *)
EXTENDS Map, Json
CONSTANT D
VARIABLES hist
gvars == <<vars, hist>>
GenInit == Init /\ hist = << >>
Step(lbl, act) == act /\ hist' = Append(hist, lbl)
GenNext ==
   \/ \E h \in Tabs : \/ Step(<<"make", h>>, Make(h)) /\ h \notin live
                      \/ Step(<<"clear", h>>, Clear(h))
                      \/ \E q \in {"size", "keys", "vals", "alist", "walk", "fold", "empty"} : Step(<<q, h>>, Query(h))
   \/ \E h \in Tabs, k \in Keys :
         \/ \E v \in Vals : Step(<<"set", h, k, v>>, Set(h, k, v)) \/ Step(<<"intern", h, k, v>>, Intern(h, k, v))
         \/ Step(<<"del", h, k>>, Delete(h, k))
         \/ Step(<<"updmiss", h, k, 1>>, UpdateErr(h, k))
         \/ Step(<<"pop", h>>, Pop(h, k))
         \/ \E d \in Vals : Step(<<"upd", h, k, d>>, Update(h, k, d))
         \/ \E d \in Vals, dv \in Vals : \E o \in {"updt", "updd"} : Step(<<o, h, k, d, dv>>, UpdateDefault(h, k, d, dv))
         \/ \E q \in {"reft", "refd", "ex"} : Step(<<q, h, k>>, Query(h))
         \/ Step(<<IF k \in DOMAIN m[h] THEN "ref" ELSE "refmiss", h, k>>, Query(h))
   \/ \E h \in Tabs, h2 \in Tabs : Step(<<"copy", h, h2>>, Copy(h, h2)) \/ Step(<<"merge", h, h2>>, Merge(h, h2))
GenSpec == GenInit /\ [][GenNext]_gvars
Dump == (TLCGet("level") = D) => PrintT(<<"HIST", ToJson(hist)>>)
=======================================================================
