SPECIFICATION Spec
INVARIANT Law
POSTCONDITION GenSmall
CHECK_DEADLOCK FALSE
