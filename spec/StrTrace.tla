----------------------------- MODULE StrTrace -----------------------------
(* Validates what harness/scm/strdrv.scm recorded against Str: every Step event is the spec action
   named by its label; the logged error flag and result must be the action's, and after the step
   every register must read back -- as a code point list (string->list), by index (string-ref), as a
   length (string-length) and as bytes (string->utf8) -- exactly as the abstract array and its
   encoding Utf8Seq.  Histories are separated by Reset events (which also re-log the literals). *)
EXTENDS StrMC, Json, IOUtils
TraceLog == ndJsonDeserialize(IOEnv.TRACE)
VARIABLES l,      \* next event
          mode,   \* "ok" | "skip" (rest of a rejected history)
          hid     \* id of the current history
Ev == TraceLog[l]
IsEvent(e) == l <= Len(TraceLog) /\ Ev.e = e /\ l' = l + 1

TReset == /\ IsEvent("Reset")
          /\ Ev.lits = Lits
          /\ reg' = [r \in Regs |-> <<>>] /\ cur' = [k \in Curs |-> NoCur]
          /\ inp' = ClosedIn /\ outp' = ClosedOut /\ res' = NoRes /\ act' = NoAct
          /\ mode' = "ok" /\ hid' = Ev.id
\* literals damaged (or the driver's table differs from the specification's): reject the history
TResetBad == /\ IsEvent("Reset") /\ Ev.lits # Lits
             /\ mode' = "skip" /\ hid' = Ev.id /\ UNCHANGED vars
             /\ PrintT(<<"HISTORY_REJECTED", Ev.id, l>>)

Dispatch(op, a, p) ==
   CASE op = "MakeString" -> MakeString(a[1], a[2], a[3])
     [] op = "FromList" -> FromList(a[1], p)
     [] op = "String" -> StringOf(a[1], p)
     [] op = "FromVector" -> FromVector(a[1], p, a[2], a[3])
     [] op = "FromBytes" -> FromBytes(a[1], p)
     [] op = "ReadEsc" -> ReadEsc(a[1], a[2], p)
     [] op = "ReadRaw" -> ReadRaw(a[1], a[2], p)
     [] op = "FromUtf8" -> FromUtf8(a[1], a[2], a[3], a[4])
     [] op = "Length" -> Length(a[1])
     [] op = "Ref" -> Ref(a[1], a[2])
     [] op = "Set" -> Set(a[1], a[2], a[3])
     [] op = "Substring" -> Substring(a[1], a[2], a[3], a[4])
     [] op = "Copy" -> Copy(a[1], a[2], a[3], a[4], a[5])
     [] op = "Append" -> Append2(a[1], a[2], a[3])
     [] op = "Append3" -> Append3(a[1], a[2], a[3], a[4])
     [] op = "CopyBang" -> CopyBang(a[1], a[2], a[3], a[4], a[5], a[6])
     [] op = "Fill" -> Fill(a[1], a[2], a[3], a[4], a[5])
     [] op = "ToList" -> ToList(a[1], a[2], a[3], a[4])
     [] op = "ToVector" -> ToVector(a[1], a[2], a[3], a[4])
     [] op = "ToUtf8" -> ToUtf8(a[1], a[2], a[3], a[4])
     [] op = "Cmp" -> Cmp(a[1], a[2])
     [] op = "Reverse" -> StrReverse(a[1], a[2])
     [] op = "TakeDrop" -> TakeDrop(a[1], a[2], a[3], a[4])
     [] op = "CurStart" -> CurStart(a[1], a[2])
     [] op = "CurEnd" -> CurEnd(a[1], a[2])
     [] op = "CurNext" -> CurNext(a[1])
     [] op = "CurPrev" -> CurPrev(a[1])
     [] op = "CurForward" -> CurForward(a[1], a[2])
     [] op = "CurBack" -> CurBack(a[1], a[2])
     [] op = "CurFromIndex" -> CurFromIndex(a[1], a[2], a[3])
     [] op = "CurRef" -> CurRef(a[1])
     [] op = "CurInfo" -> CurInfo(a[1])
     [] op = "CurCmp" -> CurCmp(a[1], a[2])
     [] op = "SubstringCursor" -> SubstringCursor(a[1], a[2], a[3])
     [] op = "CurRefOn" -> CurRefOn(a[1], a[2])
     [] op = "CurIndexOn" -> CurIndexOn(a[1], a[2])
     [] op = "IndexOf" -> IndexOf(a[1], a[2], a[3])
     [] op = "IndexRight" -> IndexRight(a[1], a[2], a[3])
     [] op = "OpenIn" -> OpenIn(a[1])
     [] op = "ReadChar" -> ReadChar
     [] op = "PeekChar" -> PeekChar
     [] op = "ReadString" -> ReadString(a[1], a[2])
     [] op = "OpenOut" -> OpenOut
     [] op = "WriteChar" -> WriteChar(a[1])
     [] op = "WriteString" -> WriteString(a[1], a[2], a[3], a[4])
     [] op = "GetOut" -> GetOut(a[1])
     [] op = "FileRT" -> FileRT(a[1], a[2])
     [] OTHER -> FALSE

\* a step of the history that the specification accepts
TStepGood == /\ IsEvent("Step") /\ mode = "ok"
             /\ Dispatch(Ev.op, Ev.a, Ev.l)
             /\ Ev.err = B(res'.err)
             /\ Ev.out = res'.out
             /\ \A r \in Regs : /\ Ev.cp[r] = reg'[r]
                                /\ Ev.ref[r] = reg'[r]
                                /\ Ev.len[r] = Len(reg'[r])
                                /\ Ev.b[r] = Utf8Seq(reg'[r])
             /\ UNCHANGED <<mode, hid>>
\* a step the specification does not accept: the history is printed as rejected (at this event) and
\* the rest of it is skipped, so that one TLC run gives the verdict on every history of the log
TStepBad == /\ IsEvent("Step") /\ mode = "ok" /\ ~ENABLED TStepGood
            /\ mode' = "skip" /\ UNCHANGED <<vars, hid>>
            /\ PrintT(<<"HISTORY_REJECTED", hid, l>>)
TSkip == IsEvent("Step") /\ mode = "skip" /\ UNCHANGED <<vars, mode, hid>>

TraceInit == Init /\ l = 1 /\ mode = "skip" /\ hid = -1
TraceNext == TReset \/ TResetBad \/ TStepGood \/ TStepBad \/ TSkip
TraceSpec == TraceInit /\ [][TraceNext]_<<vars, l, mode, hid>>
\* verdict: the whole log was consumed (rejected histories have been printed on the way)
Accepted == LET d == TLCGet("stats").diameter IN
            /\ IF d - 1 = Len(TraceLog) THEN TRUE ELSE PrintT(<<"TRACE_REJECTED_AT", d, Len(TraceLog)>>) /\ FALSE
=============================================================================
