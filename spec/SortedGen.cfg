SPECIFICATION Spec
CONSTANTS MaxLen = 5
          NKeys = 3
          Pairs = FALSE
INVARIANTS Dump
CHECK_DEADLOCK FALSE
