---------------------------- MODULE AdtSeq ----------------------------
(* A selection of SRFI 1 (lists) and SRFI 133 (vectors) as pure functions on finite sequences.  The vector
   mutators are applied by the driver to a fresh vector copy of the version, so every operation is a function
   from sequences to sequences / observations.  Index arguments travel in ks (normalised into range). *)
EXTENDS AdtBase, TLC

SeqTable == <<
  <<"list", S_s, 8>>, <<"iota", S_xk, 2>>, <<"list-tabulate", S_x, 1>>, <<"make-list", S_xk, 1>>,
  <<"append", S_vw, 4>>, <<"append-reverse", S_vw, 2>>, <<"concatenate", S_vw, 2>>, <<"reverse", S_v, 3>>,
  <<"take", S_vx, 3>>, <<"drop", S_vx, 3>>, <<"take-right", S_vx, 3>>, <<"drop-right", S_vx, 3>>, <<"split-at", S_vx, 2>>,
  <<"last", S_v, 2>>, <<"length", S_v, 1>>, <<"length+", S_v, 1>>, <<"delete", S_vk, 4>>, <<"delete-duplicates", S_v, 4>>,
  <<"partition", S_vxk, 3>>, <<"filter", S_vxk, 2>>, <<"remove", S_vxk, 2>>, <<"fold-cons", S_v, 2>>, <<"fold-right-cons", S_v, 2>>,
  <<"fold+", S_v, 2>>, <<"reduce+", S_v, 1>>, <<"list-index", S_vxk, 3>>, <<"find", S_vxk, 2>>, <<"find-tail", S_vxk, 2>>,
  <<"any", S_vxk, 1>>, <<"every", S_vxk, 1>>, <<"count", S_vxk, 2>>, <<"take-while", S_vxk, 2>>, <<"drop-while", S_vxk, 2>>,
  <<"span", S_vxk, 2>>, <<"break", S_vxk, 2>>, <<"filter-map", S_vxk, 2>>, <<"append-map", S_v, 2>>, <<"list-copy", S_v, 1>>,
  <<"list=", S_vw, 2>>, <<"delete!", S_vk, 1>>, <<"reverse!", S_v, 1>>, <<"append!", S_vw, 1>>,
  <<"vector-append", S_vw, 3>>, <<"vector-concatenate", S_vw, 1>>, <<"subvector", S_vs, 4>>, <<"vector-reverse-copy", S_vs, 3>>,
  <<"vector-copy!", S_vws, 6>>, <<"vector-reverse-copy!", S_vws, 4>>, <<"vector-reverse!", S_vs, 4>>, <<"vector-fill!", S_vks, 3>>,
  <<"vector-swap!", S_vs, 3>>, <<"vector-index", S_vxk, 2>>, <<"vector-index-right", S_vxk, 2>>, <<"vector-skip", S_vxk, 2>>,
  <<"vector-skip-right", S_vxk, 2>>, <<"vector-binary-search", S_ks, 6>>, <<"vector-count", S_vxk, 2>>,
  <<"vector-fold", S_v, 2>>, <<"vector-fold-right", S_v, 2>>, <<"vector-map", S_vx, 2>>, <<"vector-cumulate", S_v, 2>>,
  <<"vector-partition", S_vxk, 3>>, <<"vector-any", S_vxk, 1>>, <<"vector-every", S_vxk, 1>>, <<"reverse-vector->list", S_vs, 2>>,
  <<"reverse-list->vector", S_v, 2>>, <<"vector-unfold", S_x, 1>>, <<"vector-unfold-right", S_x, 1>>, <<"vector-empty?", S_v, 1>>,
  <<"vector=", S_vw, 2>>, <<"vector->list", S_vs, 2>>, <<"vector-copy", S_vs, 2>> >>
(* the driver hands the linear-update list procedures a fresh copy (lists share structure legitimately), so they
   are judged as functions and consume nothing *)
SeqLinear == {}
(* ks -> <<s, e>> with 0 <= s <= e <= n *)
Rng(ks, n) == LET a == ks[1] % (n + 1) IN <<a, a + (ks[2] % (n - a + 1))>>
SeqNorm(o, s) ==
  LET n == IF o.v \in DOMAIN s THEN Len(s[o.v]) ELSE 0
      m == IF o.w \in DOMAIN s THEN Len(s[o.w]) ELSE 0 IN
  IF o.op \in {"iota", "list-tabulate", "make-list", "vector-unfold", "vector-unfold-right"} THEN [o EXCEPT !.x = o.x % 9]
  ELSE IF o.op \in {"take", "drop", "take-right", "drop-right", "split-at"} THEN [o EXCEPT !.x = o.x % (n + 1)]
  ELSE IF o.op = "vector-map" THEN [o EXCEPT !.x = o.x % NFun]
  ELSE IF o.op \in {"subvector", "vector-reverse-copy", "vector-reverse!", "vector-fill!", "reverse-vector->list", "vector->list", "vector-copy"}
       THEN (IF Len(o.ks) < 2 THEN o ELSE [o EXCEPT !.ks = Rng(o.ks, n)])
  \* <<at, s, e>>: the source range s..e of w fits into v at position at
  ELSE IF o.op \in {"vector-copy!", "vector-reverse-copy!"}
       THEN (IF Len(o.ks) < 3 THEN o
             ELSE LET at == o.ks[1] % (n + 1)
                      st == o.ks[2] % (m + 1)
                      room == IF m - st < n - at THEN m - st ELSE n - at
                  IN [o EXCEPT !.ks = <<at, st, st + (o.ks[3] % (room + 1))>>])
  ELSE IF o.op = "vector-swap!" THEN (IF Len(o.ks) < 2 \/ n = 0 THEN o ELSE [o EXCEPT !.ks = <<o.ks[1] % n, o.ks[2] % n>>])
  ELSE IF o.op = "vector-binary-search" THEN [o EXCEPT !.ks = SortSeq(o.ks, <)]
  ELSE [o EXCEPT !.x = o.x % NPred]
SeqPre(o, s) ==
  /\ (o.op \in {"last"} => s[o.v] # <<>>)
  /\ (o.op \in {"subvector", "vector-reverse-copy", "vector-reverse!", "vector-fill!", "reverse-vector->list", "vector->list", "vector-copy"} => Len(o.ks) = 2)
  /\ (o.op \in {"vector-copy!", "vector-reverse-copy!"} => Len(o.ks) = 3)
  /\ (o.op = "vector-swap!" => Len(o.ks) = 2 /\ s[o.v] # <<>>)
  /\ (o.op = "append!" => o.v # o.w)
  /\ (o.op \in {"append", "append!", "append-reverse", "concatenate", "vector-append", "vector-concatenate"} => Len(s[o.v]) + Len(s[o.w]) <= 40)
  /\ (o.op = "append-map" => Len(s[o.v]) <= 30)
  /\ (o.op \in {"take", "drop", "take-right", "drop-right", "split-at"} => o.x <= Len(s[o.v]))
  /\ (o.op \in {"subvector", "vector-reverse-copy", "vector-reverse!", "vector-fill!", "reverse-vector->list", "vector->list", "vector-copy"}
        => Len(o.ks) = 2 /\ o.ks[1] <= o.ks[2] /\ o.ks[2] <= Len(s[o.v]))
  /\ (o.op \in {"vector-copy!", "vector-reverse-copy!"}
        => Len(o.ks) = 3 /\ o.ks[2] <= o.ks[3] /\ o.ks[3] <= Len(s[o.w]) /\ o.ks[1] + (o.ks[3] - o.ks[2]) <= Len(s[o.v]))
  /\ (o.op = "vector-swap!" => Len(o.ks) = 2 /\ o.ks[1] < Len(s[o.v]) /\ o.ks[2] < Len(s[o.v]))
SeqEval(o, s, M) ==
  LET A == s[o.v]  C == s[o.w]  n == Len(s[o.v])
      P(e) == Pred(o.x, o.k, e)
      NP(e) == ~Pred(o.x, o.k, e)
      Is(nm) == o.op = nm  Is2(nm, n2) == o.op \in {nm, n2}
      lin == o.op \in SeqLinear
      Out(new, obs) == IF lin THEN ResKill(new, obs, {o.v}) ELSE Res(new, obs)
      s0 == o.ks[1]  e0 == o.ks[2]
      Splice(dst, at, src) == [i \in DOMAIN dst |-> IF i > at /\ i <= at + Len(src) THEN src[i - at] ELSE dst[i]]
      Count == [i \in 1..o.x |-> i - 1]
      DedupFirst == SelectSeq([i \in DOMAIN A |-> <<A[i], i>>], LAMBDA p : \A j \in 1..(p[2] - 1) : A[j] # p[1])
      Cumul == [i \in DOMAIN A |-> SumSeq(Take(A, i))]
      Idx(i) == <<IF i = 0 THEN -1 ELSE i - 1>>
  IN CASE Is("list") -> Res(<<o.ks>>, None)
       [] Is("iota") -> Res(<<[i \in 1..o.x |-> o.k + i - 1]>>, None)
       [] Is2("list-tabulate", "vector-unfold") -> Res(<<[i \in 1..o.x |-> ((i - 1) * 2) % M]>>, None)
       [] Is("vector-unfold-right") -> Res(<<[i \in 1..o.x |-> ((i - 1) * 2) % M]>>, None)
       [] Is("make-list") -> Res(<<[i \in 1..o.x |-> o.k]>>, None)
       [] o.op \in {"append", "append!", "vector-append"} -> Out(<<A \o C>>, None)
       [] Is("append-reverse") -> Res(<<RevSeq(A) \o C>>, None)
       [] Is2("concatenate", "vector-concatenate") -> Res(<<A \o C \o A>>, None)
       [] o.op \in {"reverse", "reverse!", "fold-cons", "reverse-list->vector"} -> Out(<<RevSeq(A)>>, None)
       [] Is("take") -> Res(<<Take(A, o.x)>>, None)
       [] Is("drop") -> Res(<<Drop(A, o.x)>>, None)
       [] Is("take-right") -> Res(<<Drop(A, n - o.x)>>, None)
       [] Is("drop-right") -> Res(<<Take(A, n - o.x)>>, None)
       [] Is("split-at") -> Res(<<Take(A, o.x), Drop(A, o.x)>>, None)
       [] Is("last") -> Res(<<>>, <<A[n]>>)
       [] Is2("length", "length+") -> Res(<<>>, <<n>>)
       [] Is2("delete", "delete!") -> Out(<<SelectSeq(A, LAMBDA e : e # o.k)>>, None)
       [] Is("delete-duplicates") -> Res(<<[i \in DOMAIN DedupFirst |-> DedupFirst[i][1]]>>, None)
       [] Is("partition") -> Res(<<SelectSeq(A, P), SelectSeq(A, NP)>>, None)
       [] Is("filter") -> Res(<<SelectSeq(A, P)>>, None)
       [] Is("remove") -> Res(<<SelectSeq(A, NP)>>, None)
       [] o.op \in {"fold-right-cons", "list-copy"} -> Res(<<A>>, None)
       [] Is2("fold+", "reduce+") -> Res(<<>>, <<SumSeq(A)>>)
       [] Is2("list-index", "vector-index") -> Res(<<>>, Idx(FirstIdx(A, P)))
       [] Is("vector-index-right") -> Res(<<>>, Idx(LastIdx(A, P)))
       [] Is("vector-skip") -> Res(<<>>, Idx(FirstIdx(A, NP)))
       [] Is("vector-skip-right") -> Res(<<>>, Idx(LastIdx(A, NP)))
       [] Is("find") -> Res(<<>>, <<IF FirstIdx(A, P) = 0 THEN -1 ELSE A[FirstIdx(A, P)]>>)
       [] Is("find-tail") -> Res(<<>>, IF FirstIdx(A, P) = 0 THEN <<-1>> ELSE Drop(A, FirstIdx(A, P) - 1))
       [] Is2("any", "vector-any") -> Res(<<>>, <<B(\E i \in DOMAIN A : P(A[i]))>>)
       [] Is2("every", "vector-every") -> Res(<<>>, <<B(\A i \in DOMAIN A : P(A[i]))>>)
       [] Is2("count", "vector-count") -> Res(<<>>, <<Cardinality({i \in DOMAIN A : P(A[i])})>>)
       [] Is("take-while") -> Res(<<Take(A, PrefixLen(A, P))>>, None)
       [] Is("drop-while") -> Res(<<Drop(A, PrefixLen(A, P))>>, None)
       [] Is("span") -> Res(<<Take(A, PrefixLen(A, P)), Drop(A, PrefixLen(A, P))>>, None)
       [] Is("break") -> Res(<<Take(A, PrefixLen(A, NP)), Drop(A, PrefixLen(A, NP))>>, None)
       [] Is("filter-map") -> Res(<<MapSeq(SelectSeq(A, P), LAMBDA e : e + 1)>>, None)
       [] Is("append-map") -> Res(<<FlattenSeq([i \in DOMAIN A |-> <<A[i], A[i]>>])>>, None)
       [] Is2("list=", "vector=") -> Res(<<>>, <<B(A = C)>>)
       [] o.op \in {"subvector", "vector->list", "vector-copy"} -> Res(<<SubSeq(A, s0 + 1, e0)>>, None)
       [] Is("vector-reverse-copy") -> Res(<<RevSeq(SubSeq(A, s0 + 1, e0))>>, None)
       [] Is("reverse-vector->list") -> Res(<<RevSeq(SubSeq(A, s0 + 1, e0))>>, None)
       \* (vector-copy! to at from s e) on a fresh copy of v
       [] Is("vector-copy!") -> Res(<<Splice(A, o.ks[1], SubSeq(C, o.ks[2] + 1, o.ks[3]))>>, None)
       [] Is("vector-reverse-copy!") -> Res(<<Splice(A, o.ks[1], RevSeq(SubSeq(C, o.ks[2] + 1, o.ks[3])))>>, None)
       [] Is("vector-reverse!") -> Res(<<Splice(A, s0, RevSeq(SubSeq(A, s0 + 1, e0)))>>, None)
       [] Is("vector-fill!") -> Res(<<[i \in DOMAIN A |-> IF i > s0 /\ i <= e0 THEN o.k ELSE A[i]]>>, None)
       [] Is("vector-swap!") -> Res(<<[A EXCEPT ![s0 + 1] = A[e0 + 1], ![e0 + 1] = A[s0 + 1]]>>, None)
       \* any index holding the key, or -1
       [] Is("vector-binary-search") ->
             (LET I == {i \in DOMAIN o.ks : o.ks[i] = o.k} IN ResAny(<<>>, IF I = {} THEN {<<-1>>} ELSE {<<i - 1>> : i \in I}))
       [] Is("vector-fold") -> Res(<<>>, RevSeq(A))               \* (vector-fold (lambda (acc e) (cons e acc)) '() v)
       [] Is("vector-fold-right") -> Res(<<>>, A)
       [] Is("vector-map") -> Res(<<[i \in DOMAIN A |-> Fun(o.x, M, A[i])]>>, None)
       [] Is("vector-cumulate") -> Res(<<Cumul>>, None)
       [] Is("vector-partition") -> Res(<<SelectSeq(A, P) \o SelectSeq(A, NP)>>, <<Len(SelectSeq(A, P))>>)
       [] Is("vector-empty?") -> Res(<<>>, <<B(A = <<>>)>>)
SeqLaws(s, live, M) ==
  /\ \A v \in live :
       LET A == s[v]
           E(name, x, k) == SeqEval(Op(name, v, v, k, x, <<>>), s, M)
           N(name, x, k) == E(name, x, k).new
       IN /\ \A x \in 0..Len(A) :
               /\ N("take", x, 0)[1] \o N("drop", x, 0)[1] = A /\ N("drop-right", x, 0)[1] \o N("take-right", x, 0)[1] = A
          /\ \A x \in 0..(NPred - 1), k \in 0..(M - 1) : \A sp \in {N("span", x, k)}, br \in {N("break", x, k)}, fl \in {N("filter", x, k)[1]}, rm \in {N("remove", x, k)[1]} :
               /\ sp[1] \o sp[2] = A /\ br[1] \o br[2] = A
               /\ Len(fl) + Len(rm) = Len(A) /\ N("partition", x, k) = <<fl, rm>>
               /\ E("count", x, k).obs = {<<Len(fl)>>}
          /\ N("reverse", 0, 0)[1] = Reverse(A)
          /\ \A dd \in {N("delete-duplicates", 0, 0)[1]} : ToSet(dd) = ToSet(A) /\ Len(dd) = Cardinality(ToSet(A))
          /\ \A k \in 0..(M - 1) : k \notin ToSet(N("delete", 0, k)[1])
  /\ \A v \in live, w \in live : SeqEval(Op("append-reverse", v, w, 0, 0, <<>>), s, M).new[1] = Reverse(s[v]) \o s[w]
=======================================================================
