---------------------------- MODULE NumGen ----------------------------
(* The boundary lattice of C04 / C17 is enumerated by TLC from Num!Lattice and printed as JSON
   (magnitudes as base-2^W digit arrays); the checks take their lattice operands from this output. *)
EXTENDS Num, Json, TLC
CONSTANT KS, Words
KQuick == {1, 2, 3, 9, 10, 11, 29, 30, 31, 32, 33, 52, 53, 54, 60, 61, 62, 63, 64, 65, 66, 100, 126, 127, 128, 129, 130,
           191, 192, 193, 200, 255, 256, 257, 300, 319, 320, 321, 383, 384, 385, 399, 400}
KAll == 1..400
WQuick == 0..4
WAll == 0..6
ASSUME PrintT("LATTICE " \o ToJson(SetToSeq(Lattice(KS, Words))))
VARIABLE u
Init == u = 0
Next == UNCHANGED u
Spec == Init /\ [][Next]_u
=======================================================================
