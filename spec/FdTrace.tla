---------------------------- MODULE FdTrace ----------------------------
(* validates traces of harness/scm/fdprog.scm (+ hook H7) against Fd *)
EXTENDS Fd, Sequences, Json, IOUtils
TSlots == 0..15
TFds == 0..1023
TraceLog == ndJsonDeserialize(IOEnv.TRACE)
VARIABLE l
Ev == TraceLog[l]
IsEvent(e) == l <= Len(TraceLog) /\ Ev.e = e /\ l' = l + 1
\* the descriptor actually closed by this hook event (-1: none)
ClosedFd == IF Ev.e = "Close" THEN Ev.fd ELSE IF Ev.e = "PortClose" /\ Ev.stream >= 0 THEN Ev.stream ELSE -1
ByGc == Ev.gc = 1
TBegin == /\ IsEvent("Begin") /\ phase \in {"pre", "ended"}
          /\ slotfd' = [s \in Slots |-> -1] /\ open' = {} /\ dropped' = {} /\ phase' = "run" /\ target' = -1
TOpen == IsEvent("Open") /\ Open(Ev.slot, Ev.fd)
TDrop == IsEvent("Drop") /\ Drop(Ev.slot)
TCloseCall == IsEvent("CloseCall") /\ CloseCall(Ev.slot)
TClosed == IsEvent("Closed") /\ Closed(Ev.slot)
TCollectCall == IsEvent("CollectCall") /\ CollectCall
TCollected == /\ IsEvent("Collected") /\ Collected
              /\ Ev.nfd = Cardinality(open)        \* /proc/self/fd agrees: nothing else stays open
\* hook events; descriptors that are not ours (opened before Begin, e.g. by the module loader) are ignored
THookClose ==
   /\ l <= Len(TraceLog) /\ Ev.e \in {"Close", "PortClose"} /\ l' = l + 1
   /\ IF ClosedFd = -1 \/ phase \in {"pre", "ended"}     \* not a close(2), or outside the observed window
      THEN UNCHANGED vars
      ELSE IF ByGc THEN CloseByGc(ClosedFd) ELSE CloseExplicit(ClosedFd)
TEndRun == /\ IsEvent("EndRun") /\ phase = "run" /\ phase' = "ended" /\ UNCHANGED <<slotfd, open, dropped, target>>
TExit == /\ IsEvent("Exit") /\ phase = "ended" /\ Ev.rc = 0 /\ UNCHANGED vars
TOther == /\ l <= Len(TraceLog) /\ Ev.e \in {"Gc", "Grow"} /\ l' = l + 1 /\ UNCHANGED vars
TraceInit == slotfd = [s \in Slots |-> -1] /\ open = {} /\ dropped = {} /\ phase = "pre" /\ target = -1 /\ l = 1
TraceNext == TBegin \/ TOpen \/ TDrop \/ TCloseCall \/ TClosed \/ TCollectCall \/ TCollected \/ THookClose \/ TEndRun \/ TExit \/ TOther
TraceSpec == TraceInit /\ [][TraceNext]_<<vars, l>>
Accepted == LET d == TLCGet("stats").diameter IN
            IF d - 1 = Len(TraceLog) THEN TRUE ELSE PrintT(<<"TRACE_REJECTED_AT", d, Len(TraceLog)>>) /\ FALSE
=========================================================================
