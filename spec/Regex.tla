------------------------------ MODULE Regex ------------------------------
(* C20.  Denotational semantics of the SRFI 115 subset exercised on (chibi regexp).

   Characters are code points (integers), a subject is a sequence of them.
   An SRE is a tagged tuple:
      <<"lit",c>>  <<"set",S>>  <<"nset",S>> (complement)  <<"range",lo,hi>>  <<"any">>
      <<"eps">>  <<"empty">>  <<"bol">>  <<"eol">>
      <<"seq",r1,r2>>  <<"or",r1,r2>>  <<"star",r>>  <<"plus",r>>  <<"opt",r>>
      <<"rep",m,n,r>>   (n = -1: no upper bound)
      <<"sub",r>>  (numbered submatch)   <<"nocase",r>>  (case-insensitive scope)   <<"ascii",r>>  (w/ascii scope)
      named classes and the char-set algebra: see CsTags below

   Zero-width assertions make membership depend on where in the subject the text
   lies, so the basic judgement is  "subject s, between positions i and j (0..Len(s)),
   is matched by r".  It is defined twice, independently:
      MatchS : directly, by splitting the span (the textbook denotation of each operator),
      MatchD : by Brzozowski derivatives with position flags (bol/eol resolved in Null),
   and RegexMC.tla model checks that both coincide, together with algebraic laws.
   MatchD is what the trace spec evaluates on implementation results.             *)
EXTENDS Integers, Sequences, FiniteSets

NL == 10                                           \* #\newline delimits lines

----------------------------------------------------------------------------
(* simple case pairs: upper + 32 = lower (ASCII, Latin-1, Greek, Cyrillic basic letters).
   Characters with a case class of more than two members (K/Kelvin, s/long s, sigma/final
   sigma, micro sign, dotless i ...) are outside the domain: generators never emit them.  *)
UpperSimple == (65..90) \cup (192..214) \cup (216..222) \cup (913..929) \cup (931..939) \cup (1040..1071)
IsUpper(c) == c \in UpperSimple
IsLower(c) == (c - 32) \in UpperSimple
Variants(c) == IF IsUpper(c) THEN {c, c + 32} ELSE IF IsLower(c) THEN {c, c - 32} ELSE {c}

AtomTags == {"lit", "set", "nset", "range", "any"}

(* ---- named character classes (SRFI 115) and the char-set algebra around them ----
   Membership is stated for the characters of KnownChars only: all of ASCII (by Unicode general category) and a
   few representatives of the non-ASCII categories; subjects of SREs that mention a named class stay inside it.
     <<"cls", name>>  <<"nonl">>  <<"cor",a,b>> (or)  <<"cand",a,b>> (and)  <<"cdiff",a,b>> (-)  <<"ccompl",a>> (~)
     <<"cnocase",a>> / <<"cascii",a>> : (w/nocase cs) / (w/ascii cs) as operands of the algebra                      *)
ClassNames == {"alphabetic", "numeric", "alphanumeric", "whitespace", "punctuation", "symbol", "lower-case", "upper-case",
               "hex-digit", "ascii"}
NonAsciiKnown == {160, 178, 191, 201, 233, 923, 955, 1044, 1076, 1635, 8195, 8232, 26085, 65296, 128512}
KnownChars == (0..127) \cup NonAsciiKnown
LowerL == (97..122) \cup {233, 955, 1076}                 \* Ll
UpperL == (65..90) \cup {201, 923, 1044}                  \* Lu
OtherL == {26085}                                         \* Lo
DigitN == (48..57) \cup {1635, 65296}                     \* Nd (178 = superscript two is No: not numeric)
PunctP == {33, 34, 35, 37, 38, 39, 40, 41, 42, 44, 45, 46, 47, 58, 59, 63, 64, 91, 92, 93, 95, 123, 125, 191}   \* Pc Pd Ps Pe Po
SymbolS == {36, 43, 60, 61, 62, 94, 96, 124, 126, 128512} \* Sc Sk Sm So
WhiteZ == (9..13) \cup {32, 160, 8195, 8232}              \* White_Space
HexD == (48..57) \cup (65..70) \cup (97..102)
ClassHas(name, c) ==
   CASE name = "alphabetic"   -> c \in LowerL \cup UpperL \cup OtherL
     [] name = "numeric"      -> c \in DigitN
     [] name = "alphanumeric" -> c \in LowerL \cup UpperL \cup OtherL \cup DigitN
     [] name = "whitespace"   -> c \in WhiteZ
     [] name = "punctuation"  -> c \in PunctP
     [] name = "symbol"       -> c \in SymbolS
     [] name = "lower-case"   -> c \in LowerL
     [] name = "upper-case"   -> c \in UpperL
     [] name = "hex-digit"    -> c \in HexD
     [] name = "ascii"        -> c < 128
CsTags == AtomTags \cup {"cls", "nonl", "cor", "cand", "cdiff", "ccompl", "cnocase", "cascii"}
IsCs(r) == r[1] \in CsTags
\* membership of c in a char-set expression; asc = inside w/ascii (named classes keep their ASCII members only);
\* case-insensitively a set matches c when some member of the set equals c up to case (the set is folded as a whole)
RECURSIVE Cs0(_, _, _), CsIn(_, _, _, _)
CsIn(e, ci, asc, c) == IF ci THEN \E v \in Variants(c) : Cs0(e, asc, v) ELSE Cs0(e, asc, c)
Cs0(e, asc, c) ==
   CASE e[1] = "lit"     -> c = e[2]
     [] e[1] = "set"     -> c \in e[2]
     [] e[1] = "nset"    -> c \notin e[2]
     [] e[1] = "range"   -> e[2] <= c /\ c <= e[3]
     [] e[1] = "any"     -> TRUE
     [] e[1] = "nonl"    -> c # NL
     [] e[1] = "cls"     -> ClassHas(e[2], c) /\ (asc => c < 128)
     [] e[1] = "cor"     -> Cs0(e[2], asc, c) \/ Cs0(e[3], asc, c)
     [] e[1] = "cand"    -> Cs0(e[2], asc, c) /\ Cs0(e[3], asc, c)
     [] e[1] = "cdiff"   -> Cs0(e[2], asc, c) /\ ~Cs0(e[3], asc, c)
     [] e[1] = "ccompl"  -> ~Cs0(e[2], asc, c)
     [] e[1] = "cnocase" -> CsIn(e[2], TRUE, asc, c)
     [] e[1] = "cascii"  -> Cs0(e[2], TRUE, c)
\* a core atom is a char-set expression, or <<"cs", ci, asc, expr>> (the expression inside w/nocase / w/ascii scopes)
IsAtom(r) == r[1] \in CsTags \/ r[1] = "cs"
CharIn(a, c) == IF a[1] = "cs" THEN CsIn(a[4], a[2], a[3], c) ELSE Cs0(a, FALSE, c)
\* does the SRE mention a named class (then subjects must stay inside KnownChars)
RECURSIVE UsesNamed(_)
UsesNamed(r) == CASE r[1] = "cls" -> TRUE
                  [] r[1] \in {"seq", "or", "cor", "cand", "cdiff"} -> UsesNamed(r[2]) \/ UsesNamed(r[3])
                  [] r[1] \in {"star", "plus", "opt", "sub", "nocase", "ascii", "ccompl", "cnocase", "cascii"} -> UsesNamed(r[2])
                  [] r[1] = "rep" -> UsesNamed(r[4])
                  [] OTHER -> FALSE

----------------------------------------------------------------------------
(* well-formedness = the domain in which SRFI 115 fixes the outcome.  Inside w/nocase: no complement, intersection
   or difference (whether operands or the result are folded is not fixed); inside w/ascii: no complement / any / nonl
   (complement relative to what is not fixed).                                                                     *)
RECURSIVE WF0(_, _, _)
WF0(r, ci, asc) ==
   CASE r[1] = "lit"   -> r[2] \in Nat
     [] r[1] = "set"   -> r[2] # {}
     [] r[1] = "nset"  -> ~ci /\ ~asc /\ r[2] # {}
     [] r[1] = "range" -> r[2] <= r[3]
     [] r[1] \in {"any", "nonl"} -> ~asc
     [] r[1] \in {"eps", "empty", "bol", "eol"} -> TRUE
     [] r[1] = "cls"   -> r[2] \in ClassNames
     [] r[1] = "cor"   -> IsCs(r[2]) /\ IsCs(r[3]) /\ WF0(r[2], ci, asc) /\ WF0(r[3], ci, asc)
     [] r[1] \in {"cand", "cdiff"} -> ~ci /\ IsCs(r[2]) /\ IsCs(r[3]) /\ WF0(r[2], ci, asc) /\ WF0(r[3], ci, asc)
     [] r[1] = "ccompl" -> ~ci /\ ~asc /\ IsCs(r[2]) /\ WF0(r[2], ci, asc)
     [] r[1] = "cnocase" -> IsCs(r[2]) /\ WF0(r[2], TRUE, asc)
     [] r[1] = "cascii" -> IsCs(r[2]) /\ WF0(r[2], ci, TRUE)
     [] r[1] \in {"seq", "or"} -> WF0(r[2], ci, asc) /\ WF0(r[3], ci, asc)
     [] r[1] \in {"star", "plus", "opt", "sub"} -> WF0(r[2], ci, asc)
     [] r[1] = "nocase" -> WF0(r[2], TRUE, asc)
     [] r[1] = "ascii" -> WF0(r[2], ci, TRUE)
     [] r[1] = "rep"   -> r[2] >= 0 /\ (r[3] = -1 \/ r[2] <= r[3]) /\ WF0(r[4], ci, asc)
     [] OTHER -> FALSE
WF(r) == WF0(r, FALSE, FALSE)

(* generator restriction, not part of the semantics: chibi folds case by enumerating the class, so a class with
   very many members inside w/nocase (any, a complement, a wide range, a large named class inside an or) takes
   seconds to minutes to compile; such SREs are not generated (their results are not in question, the run time is) *)
BigNamed == {"alphabetic", "alphanumeric", "symbol"}
RECURSIVE Tractable0(_, _, _)
Tractable0(r, ci, inor) ==
   CASE r[1] \in {"any", "nonl", "nset", "ccompl"} -> ~ci
     [] r[1] = "range" -> ~ci \/ r[3] - r[2] <= 1000
     [] r[1] = "cls" -> ~(ci /\ inor /\ r[2] \in BigNamed)
     [] r[1] \in {"or", "cor"} -> Tractable0(r[2], ci, TRUE) /\ Tractable0(r[3], ci, TRUE)
     [] r[1] \in {"seq", "cand", "cdiff"} -> Tractable0(r[2], ci, inor) /\ Tractable0(r[3], ci, inor)
     [] r[1] \in {"star", "plus", "opt", "sub", "ascii", "cascii"} -> Tractable0(r[2], ci, inor)
     [] r[1] \in {"nocase", "cnocase"} -> Tractable0(r[2], TRUE, inor)
     [] r[1] = "rep" -> Tractable0(r[4], ci, inor)
     [] OTHER -> TRUE
Tractable(r) == Tractable0(r, FALSE, FALSE)

RECURSIVE Depth(_)
Depth(r) == CASE r[1] \in {"seq", "or", "cor", "cand", "cdiff"} -> 1 + (IF Depth(r[2]) >= Depth(r[3]) THEN Depth(r[2]) ELSE Depth(r[3]))
              [] r[1] \in {"star", "plus", "opt", "sub", "nocase", "ascii", "ccompl", "cnocase", "cascii"} -> 1 + Depth(r[2])
              [] r[1] = "rep" -> 1 + Depth(r[4])
              [] OTHER -> 0

(* Norm: erase submatch markers and push the w/nocase / w/ascii scopes down to the char-set expressions: the core
   language.  fl = <<case-insensitive, ascii>>                                                                  *)
NoFl == <<FALSE, FALSE>>
RECURSIVE Norm(_, _)
Norm(r, fl) ==
   CASE r[1] \in CsTags -> IF fl = NoFl THEN r ELSE <<"cs", fl[1], fl[2], r>>
     [] r[1] \in {"seq", "or"} -> <<r[1], Norm(r[2], fl), Norm(r[3], fl)>>
     [] r[1] \in {"star", "plus", "opt"} -> <<r[1], Norm(r[2], fl)>>
     [] r[1] = "rep" -> <<"rep", r[2], r[3], Norm(r[4], fl)>>
     [] r[1] = "sub" -> Norm(r[2], fl)
     [] r[1] = "nocase" -> Norm(r[2], <<TRUE, fl[2]>>)
     [] r[1] = "ascii" -> Norm(r[2], <<fl[1], TRUE>>)
     [] OTHER -> r

(* the numbered submatches, in order of their opening parenthesis, each as a core expression *)
RECURSIVE Groups(_, _)
Groups(r, fl) ==
   CASE r[1] = "sub" -> <<Norm(r[2], fl)>> \o Groups(r[2], fl)
     [] r[1] \in {"seq", "or"} -> Groups(r[2], fl) \o Groups(r[3], fl)
     [] r[1] \in {"star", "plus", "opt"} -> Groups(r[2], fl)
     [] r[1] = "rep" -> Groups(r[4], fl)
     [] r[1] = "nocase" -> Groups(r[2], <<TRUE, fl[2]>>)
     [] r[1] = "ascii" -> Groups(r[2], <<fl[1], TRUE>>)
     [] OTHER -> <<>>
RECURSIVE NumSubs(_)
NumSubs(r) == CASE r[1] = "sub" -> 1 + NumSubs(r[2])
                [] r[1] \in {"seq", "or"} -> NumSubs(r[2]) + NumSubs(r[3])
                [] r[1] \in {"star", "plus", "opt", "nocase", "ascii"} -> NumSubs(r[2])
                [] r[1] = "rep" -> NumSubs(r[4])
                [] OTHER -> 0

----------------------------------------------------------------------------
(* positions 0..Len(s); position p lies between s[p] and s[p+1] *)
Bol(s, p) == p = 0 \/ s[p] = NL
Eol(s, p) == p = Len(s) \/ s[p + 1] = NL

Eps == <<"eps">>
Empty == <<"empty">>
RepRest(r) == \* what remains of a bounded repeat after one iteration
   LET m == IF r[2] > 0 THEN r[2] - 1 ELSE 0
       n == IF r[3] = -1 THEN -1 ELSE r[3] - 1
   IN  IF n = 0 THEN Eps ELSE <<"rep", m, n, r[4]>>

(* ---- formulation 1: split based, on core expressions ---- *)
RECURSIVE MatchS(_, _, _, _)
MatchS(r, s, i, j) ==
   CASE r[1] = "eps"   -> i = j
     [] r[1] = "empty" -> FALSE
     [] r[1] = "bol"   -> i = j /\ Bol(s, i)
     [] r[1] = "eol"   -> i = j /\ Eol(s, i)
     [] IsAtom(r)      -> j = i + 1 /\ CharIn(r, s[j])
     [] r[1] = "seq"   -> \E k \in i..j : MatchS(r[2], s, i, k) /\ MatchS(r[3], s, k, j)
     [] r[1] = "or"    -> MatchS(r[2], s, i, j) \/ MatchS(r[3], s, i, j)
     [] r[1] = "opt"   -> i = j \/ MatchS(r[2], s, i, j)
        \* empty iterations never add anything, so the first iteration of the rest may be taken non-empty
     [] r[1] = "star"  -> i = j \/ \E k \in (i + 1)..j : MatchS(r[2], s, i, k) /\ MatchS(r, s, k, j)
     [] r[1] = "plus"  -> \E k \in i..j : MatchS(r[2], s, i, k) /\ MatchS(<<"star", r[2]>>, s, k, j)
     [] r[1] = "rep"   ->
          IF r[2] > 0 THEN \E k \in i..j : MatchS(r[4], s, i, k) /\ MatchS(RepRest(r), s, k, j)
          ELSE IF r[3] = 0 THEN i = j
          ELSE i = j \/ \E k \in (i + 1)..j : MatchS(r[4], s, i, k) /\ MatchS(RepRest(r), s, k, j)

(* ---- formulation 2: derivatives; b,e = "at beginning / end of a line" at the current position ---- *)
RECURSIVE Null(_, _, _)
Null(r, b, e) ==
   CASE r[1] = "eps"   -> TRUE
     [] r[1] = "empty" -> FALSE
     [] r[1] = "bol"   -> b
     [] r[1] = "eol"   -> e
     [] IsAtom(r)      -> FALSE
     [] r[1] = "seq"   -> Null(r[2], b, e) /\ Null(r[3], b, e)
     [] r[1] = "or"    -> Null(r[2], b, e) \/ Null(r[3], b, e)
     [] r[1] \in {"star", "opt"} -> TRUE
     [] r[1] = "plus"  -> Null(r[2], b, e)
     [] r[1] = "rep"   -> r[2] = 0 \/ Null(r[4], b, e)

MkSeq(a, b) == IF a = Empty \/ b = Empty THEN Empty ELSE IF a = Eps THEN b ELSE IF b = Eps THEN a ELSE <<"seq", a, b>>
MkOr(a, b)  == IF a = Empty THEN b ELSE IF b = Empty THEN a ELSE IF a = b THEN a ELSE <<"or", a, b>>

RECURSIVE Deriv(_, _, _, _)
Deriv(r, c, b, e) ==
   CASE r[1] \in {"eps", "empty", "bol", "eol"} -> Empty
     [] IsAtom(r)     -> IF CharIn(r, c) THEN Eps ELSE Empty
     [] r[1] = "seq"  -> LET d1 == MkSeq(Deriv(r[2], c, b, e), r[3])
                         IN  IF Null(r[2], b, e) THEN MkOr(d1, Deriv(r[3], c, b, e)) ELSE d1
     [] r[1] = "or"   -> MkOr(Deriv(r[2], c, b, e), Deriv(r[3], c, b, e))
     [] r[1] = "opt"  -> Deriv(r[2], c, b, e)
     [] r[1] = "star" -> MkSeq(Deriv(r[2], c, b, e), r)
     [] r[1] = "plus" -> MkSeq(Deriv(r[2], c, b, e), <<"star", r[2]>>)
     [] r[1] = "rep"  ->
          IF r[3] = 0 THEN Empty
          ELSE LET d1 == MkSeq(Deriv(r[4], c, b, e), RepRest(r))
               IN  IF r[2] > 0 /\ Null(r[4], b, e) THEN MkOr(d1, Deriv(RepRest(r), c, b, e)) ELSE d1

\* the residual expression after consuming s[i+1..k], k = i..j
Residual(r, s, i, j) ==
   LET f[k \in i..j] == IF k = i THEN r ELSE Deriv(f[k - 1], s[k], Bol(s, k - 1), Eol(s, k - 1))
   IN  f[j]
MatchD(r, s, i, j) == Null(Residual(r, s, i, j), Bol(s, j), Eol(s, j))

----------------------------------------------------------------------------
(* what the property speaks about; r is a source SRE (with sub / nocase) *)
Core(r) == Norm(r, NoFl)
Matches(r, s) == MatchD(Core(r), s, 0, Len(s))                       \* regexp-matches?
Spans(s) == {<<i, j>> \in (0..Len(s)) \X (0..Len(s)) : i <= j}
SearchDef(r, s) == \E sp \in Spans(s) : MatchD(Core(r), s, sp[1], sp[2]) \* regexp-search finds something: some substring matches
\* the same, sharing the residuals of one start position (RegexMC checks Search = SearchDef)
Residuals(q, s, i) ==      \* <<residual after s[i+1..j] : j = i..Len(s)>>
   LET f[k \in i..Len(s)] == IF k = i THEN <<q>>
                             ELSE LET p == f[k - 1] IN Append(p, Deriv(p[Len(p)], s[k], Bol(s, k - 1), Eol(s, k - 1)))
   IN  f[Len(s)]
Search(r, s) == \E i \in 0..Len(s) : LET rs == Residuals(Core(r), s, i)
                                      IN  \E k \in 1..Len(rs) : Null(rs[k], Bol(s, i + k - 1), Eol(s, i + k - 1))
AnyStar == <<"star", <<"any">>>>
SearchAsMatch(r, s) == MatchD(<<"seq", AnyStar, <<"seq", Core(r), AnyStar>>>>, s, 0, Len(s))

(* a reported match: spans[1] = whole match, spans[g+1] = submatch g; <<-1,-1>> = unmatched (#f).
   The whole-match text belongs to L(r) in its context; every matched group lies inside the match
   and its text belongs to the language of the group's own subexpression; an unmatched group has
   neither start nor end.  No preference among ambiguous parses is demanded.                      *)
Unmatched == <<-1, -1>>
SpanOk(q, s, lo, hi, sp) == /\ lo <= sp[1] /\ sp[1] <= sp[2] /\ sp[2] <= hi /\ MatchD(q, s, sp[1], sp[2])
ReportOk(r, s, spans) ==
   LET G == Groups(r, NoFl) IN
   /\ Len(spans) = 1 + Len(G)
   /\ SpanOk(Core(r), s, 0, Len(s), spans[1])
   /\ \A g \in 1..Len(G) : spans[g + 1] = Unmatched \/ SpanOk(G[g], s, spans[1][1], spans[1][2], spans[g + 1])
=============================================================================
