SPECIFICATION Spec
CONSTANTS Kind = "queue"
          Keys = {0, 1, 2}
          M = 3
          MaxVer = 2
          KLen = 1
          GenDepth = 0
INVARIANTS TypeInv LawInv CanonInv LiveInv
PROPERTIES Persist
CHECK_DEADLOCK FALSE
