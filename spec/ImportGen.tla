---------------------------- MODULE ImportGen ----------------------------
(* Case generation for C14: the expression builder of ImportMC.tla pointed at a generated library graph
   (read from $GRAPH, the same JSON the harness turns into .sld files).  Every state is one well-formed
   import set; it is printed together with the map it denotes (the check uses the names to assemble
   the probe universe and the next layer of libraries, never to judge results).
   Exhaustive mode: BuildSpec (all expressions up to MaxDepth).  Simulation mode: GenSpec picks the kind
   of the next modifier at random so that long chains of every kind occur. *)
EXTENDS ImportMC, Json, IOUtils
GenGraph == ndJsonDeserialize(IOEnv.GRAPH)[1].libs
GNext == /\ d < MaxDepth /\ d' = d + 1
         /\ LET k == RandomElement(IF d >= 0 THEN WKinds ELSE {})     \* mentions a variable: not cached as a constant
            IN e' \in (IF WrapsK(e, k) = {} THEN WrapsK(e, 6) ELSE WrapsK(e, k))
GenSpec == BInit /\ RInit /\ lcells = <<>> /\ envs = <<>> /\ [][GNext /\ UNCHANGED <<rvars, tab, ovars>>]_<<bvars, rvars, tab, ovars>>
Emit == LET M == N(e) IN PrintT(<<"CASE", ToJson([e |-> e, names |-> SetToSeq({<<n, M[n]>> : n \in DOMAIN M})])>>)
GenOK == W(e)
ASSUME GraphWF
=============================================================================
