---------------------------- MODULE TextRead ----------------------------
(* C08: an abstract reader.  A text is given as a sequence of tokens [t |-> type, s |-> code points];
   the token types are  "ws" "open" "close" "vopen" (#( ) "bopen" (#u8( ) "dot" "ldef" (#n=) "lref" (#n#)
   "str" ("...") "psym" (|...|) "atom" (everything else: numbers, identifiers, booleans, #\ characters).
   Lexing (finding the token boundaries) is done outside; LexOK states what a correct lexing is
   (the tokens concatenate to the text, every token is well-formed for its type, atoms end at a
   delimiter) and Read builds the datum graph (module Datum): lists, dotted tails, vectors,
   bytevectors, datum labels with forward references to enclosing data, and the atoms:
   strings and |symbols| with the R7RS escapes, characters, booleans, exact integers and ratios by
   Horner's rule into base 1024, R7RS <number> / <identifier> classification of bare tokens.
   The text of an inexact or complex number is NOT evaluated (that needs real arithmetic): such a
   token becomes an opaque "num" node and MatchText only requires the shape of the text to agree with
   the datum (sign, infinity / NaN spelling, presence of a decimal point or exponent, trailing i).
   Bare tokens that are neither an R7RS number nor an R7RS identifier, or that are a number only when case
   is ignored, become "odd" nodes: the specification does not say what they denote and MatchText accepts them
   for a symbol of the same spelling (what the implementation's own readers make of them is judged separately).
   Write is an abstract writer (labels for shared or for cyclic nodes) used to model check Read. *)
EXTENDS Datum

\* ------------------------------------------------------------------ characters
WSChars == {32, 9, 10, 13, 12}
Delims == WSChars \cup {40, 41, 34, 59}             \* ( ) " ;
IsDigit(c) == c \in 48..57
HexVal(c) == IF c \in 48..57 THEN c - 48 ELSE IF c \in 65..70 THEN c - 55 ELSE IF c \in 97..102 THEN c - 87 ELSE -1
Lower(c) == IF c \in 65..90 THEN c + 32 ELSE c
LowerSeq(s) == [j \in 1..Len(s) |-> Lower(s[j])] \o <<>>     \* (\o forces TLC to build the tuple: function constructors are lazy)
Sub(s, a, b) == SubSeq(s, a, b)                               \* s[a..b], empty when b < a
Str(s) == s                                                   \* (documentation only)

\* ------------------------------------------------------------------ exact integers: decimal / hex text -> base 1024
\* Horner's rule without a carry chain per step: the accumulator is kept in a REDUNDANT little-endian
\* base-1024 form (digits may exceed 1023 by a bounded amount), so that one step  acc * m + a  (m <= 1000)
\* is computed position by position; Normalize propagates the carries once at the end.
\* Bound: digits <= B with B = 1023 + (B * 1000 + 999) / 1024, i.e. B < 44000 and B * 1000 < 2^31.
Pass(d, m, a) ==
  LET n == Len(d)
      v(j) == IF j = 0 \/ j > n THEN 0 ELSE d[j] * m + (IF j = 1 THEN a ELSE 0)
  IN IF n = 0 THEN (IF a = 0 THEN <<>> ELSE <<a>>)
     ELSE [j \in 1..(IF v(n) \div 1024 > 0 THEN n + 1 ELSE n) |-> (v(j) % 1024) + (v(j - 1) \div 1024)] \o <<>>
RECURSIVE NormFrom(_, _, _)
NormFrom(d, j, carry) ==
  IF j > Len(d) THEN (IF carry = 0 THEN <<>> ELSE <<carry % 1024>> \o NormFrom(d, j, carry \div 1024))
  ELSE LET v == d[j] + carry IN <<v % 1024>> \o NormFrom(d, j + 1, v \div 1024)
Normalize(d) == NormFrom(d, 1, 0)
\* value of the digit characters s[a..b] (at most 3 of them) in the given base, as a TLC integer
RECURSIVE ChunkVal(_, _, _, _)
ChunkVal(s, base, a, b) == IF a > b THEN 0 ELSE ChunkVal(s, base, a, b - 1) * base + HexVal(s[b])
Pow(base, k) == IF k = 0 THEN 1 ELSE IF k = 1 THEN base ELSE IF k = 2 THEN base * base ELSE base * base * base
\* chunks of k = 3 digits for base 10, 2 for base 16 (m = 1000 / 256)
RECURSIVE DigitsFrom(_, _, _, _, _)
DigitsFrom(s, base, k, j, acc) ==
  IF j > Len(s) THEN acc
  ELSE LET e == IF j + k - 1 > Len(s) THEN Len(s) ELSE j + k - 1
       IN DigitsFrom(s, base, k, e + 1, Pass(acc, Pow(base, e - j + 1), ChunkVal(s, base, j, e)))
Magnitude(s, base) == Normalize(DigitsFrom(s, base, IF base = 10 THEN 3 ELSE 2, 1, <<>>))
IntPayload(neg, mag) == IF mag = <<>> THEN <<0>> ELSE <<IF neg THEN 1 ELSE 0>> \o mag
AllDigits(s, base) == Len(s) >= 1 /\ \A j \in 1..Len(s) : HexVal(s[j]) >= 0 /\ HexVal(s[j]) < base
\* value of a small digit sequence as a TLC integer (for model checking only)
RECURSIVE SmallVal(_, _)
SmallVal(d, j) == IF j > Len(d) THEN 0 ELSE d[j] + 1024 * SmallVal(d, j + 1)

\* ------------------------------------------------------------------ R7RS <number> (radix 10) and <identifier>
\* all scanners return the index after the longest match starting at i, or 0
RECURSIVE SkipDigits(_, _)
SkipDigits(s, i) == IF i <= Len(s) /\ IsDigit(s[i]) THEN SkipDigits(s, i + 1) ELSE i
At(s, i, c) == i <= Len(s) /\ s[i] = c
Suffix(s, i) ==           \* optional exponent
  IF At(s, i, 101) THEN
     LET j == IF At(s, i + 1, 43) \/ At(s, i + 1, 45) THEN i + 2 ELSE i + 1
         k == SkipDigits(s, j)
     IN IF k > j THEN k ELSE i           \* "e" without digits is not part of the number
  ELSE i
UReal(s, i) ==
  LET a == SkipDigits(s, i) IN
  IF a > i THEN
     IF At(s, a, 47) THEN LET b == SkipDigits(s, a + 1) IN IF b > a + 1 THEN b ELSE 0      \* n/d
     ELSE IF At(s, a, 46) THEN Suffix(s, SkipDigits(s, a + 1))                             \* n. n.d
     ELSE Suffix(s, a)
  ELSE IF At(s, i, 46) THEN LET b == SkipDigits(s, i + 1) IN IF b > i + 1 THEN Suffix(s, b) ELSE 0   \* .d
  ELSE 0
HasAt(s, i, w) == i + Len(w) - 1 <= Len(s) /\ \A j \in 1..Len(w) : s[i + j - 1] = w[j]
INF == <<105, 110, 102, 46, 48>>
NAN == <<110, 97, 110, 46, 48>>
IsSign(c) == c = 43 \/ c = 45
Real(s, i) ==
  IF i <= Len(s) /\ IsSign(s[i]) THEN
     IF HasAt(s, i + 1, INF) \/ HasAt(s, i + 1, NAN) THEN i + 6 ELSE UReal(s, i + 1)
  ELSE UReal(s, i)
\* imaginary part  [+-] (ureal | inf.0 | nan.0)? i  reaching the end of the token
Imag(s, i) ==
  /\ i <= Len(s) /\ IsSign(s[i])
  /\ LET j == IF HasAt(s, i + 1, INF) \/ HasAt(s, i + 1, NAN) THEN i + 6
              ELSE LET u == UReal(s, i + 1) IN IF u = 0 THEN i + 1 ELSE u
     IN j = Len(s) /\ s[j] = 105
IsRealTok(s) == Len(s) >= 1 /\ Real(s, 1) = Len(s) + 1
IsNumberLC(s) ==                       \* s in lower case
  LET e == IF Len(s) >= 1 THEN Real(s, 1) ELSE 0 IN
  /\ Len(s) >= 1
  /\ \/ e = Len(s) + 1
     \/ (e > 1 /\ e <= Len(s) /\ s[e] = 64 /\ Real(s, e + 1) = Len(s) + 1)        \* polar
     \/ (e > 1 /\ e <= Len(s) /\ Imag(s, e))
     \/ Imag(s, 1)
IsNumber(s) == IsNumberLC(LowerSeq(s))        \* R7RS 2.1: case is not significant in numbers

SpecialInitial == {33, 36, 37, 38, 42, 47, 58, 60, 61, 62, 63, 94, 95, 126}      \* ! $ % & * / : < = > ? ^ _ ~
IsLetter(c) == c \in 65..90 \/ c \in 97..122
IsInitial(c) == IsLetter(c) \/ c \in SpecialInitial
IsSubsequent(c) == IsInitial(c) \/ IsDigit(c) \/ c \in {43, 45, 46, 64}
IsSignSubsequent(c) == IsInitial(c) \/ IsSign(c) \/ c = 64
IsDotSubsequent(c) == IsSignSubsequent(c) \/ c = 46
AllSubsequent(s, i) == \A j \in i..Len(s) : IsSubsequent(s[j])
IsIdentifierNN(s) ==            \* for s that is not a number
  /\ Len(s) >= 1
  /\ \/ IsInitial(s[1]) /\ AllSubsequent(s, 2)
     \/ Len(s) = 1 /\ IsSign(s[1])
     \/ IsSign(s[1]) /\ Len(s) >= 2 /\ IsSignSubsequent(s[2]) /\ AllSubsequent(s, 3)
     \/ IsSign(s[1]) /\ Len(s) >= 3 /\ s[2] = 46 /\ IsDotSubsequent(s[3]) /\ AllSubsequent(s, 4)
     \/ s[1] = 46 /\ Len(s) >= 2 /\ IsDotSubsequent(s[2]) /\ AllSubsequent(s, 3)
IsIdentifier(s) == ~IsNumber(s) /\ IsIdentifierNN(s)            \* +i, -i, <infnan> are numbers

\* ------------------------------------------------------------------ escapes in "..." and |...|
\* scanning state after each character: 0 plain, 1 after a backslash, 2 a bare terminator was met
ScanState(s, term) ==
  LET st[i \in 0..Len(s)] == IF i = 0 THEN 0
                             ELSE LET q == st[i - 1] IN          \* (bound once: a function is not memoised)
                                  IF q = 2 THEN 2
                                  ELSE IF q = 1 THEN 0
                                  ELSE IF s[i] = 92 THEN 1
                                  ELSE IF s[i] = term THEN 2 ELSE 0
  IN st[Len(s)]
RECURSIVE HexRun(_, _)
HexRun(s, i) == IF i <= Len(s) /\ HexVal(s[i]) >= 0 THEN HexRun(s, i + 1) ELSE i
SmallHex(s) == SmallVal(Magnitude(s, 16), 1)           \* callers bound Len(s) <= 6
\* decoded code points of the interior s[i..]; <<-1>> marks an invalid escape
RECURSIVE Decode(_, _)
Decode(s, i) ==
  IF i > Len(s) THEN <<>>
  ELSE IF \A j \in i..Len(s) : s[j] # 92 THEN Sub(s, i, Len(s))             \* no escape left
  ELSE IF s[i] # 92 THEN <<s[i]>> \o Decode(s, i + 1)
  ELSE IF i = Len(s) THEN <<-1>>
  ELSE LET c == s[i + 1] IN
       IF c = 97 THEN <<7>> \o Decode(s, i + 2)
       ELSE IF c = 98 THEN <<8>> \o Decode(s, i + 2)
       ELSE IF c = 116 THEN <<9>> \o Decode(s, i + 2)
       ELSE IF c = 110 THEN <<10>> \o Decode(s, i + 2)
       ELSE IF c = 114 THEN <<13>> \o Decode(s, i + 2)
       ELSE IF c = 120 \/ c = 88 THEN
            LET e == HexRun(s, i + 2) IN
            IF e > i + 2 /\ e - (i + 2) <= 6 /\ At(s, e, 59) /\ Scalar(SmallHex(Sub(s, i + 2, e - 1)))
            THEN <<SmallHex(Sub(s, i + 2, e - 1))>> \o Decode(s, e + 1)
            ELSE <<-1>>
       ELSE IF c \in {34, 92, 124} THEN <<c>> \o Decode(s, i + 2)
       ELSE <<-1>>                                   \* line continuations etc.: not produced by a writer
DecodeOK(d) == \A j \in 1..Len(d) : d[j] >= 0

\* ------------------------------------------------------------------ lexical well-formedness
TokTypes == {"ws", "open", "close", "vopen", "bopen", "dot", "ldef", "lref", "str", "psym", "atom", "abbr"}
Abbrevs == {<<39>>, <<96>>, <<44>>, <<44, 64>>}                     \* ' ` , ,@
LabelDigits(s) == Sub(s, 2, Len(s) - 1)
TokOK(tk) ==
  LET s == tk.s IN
  CASE tk.t = "ws" -> Len(s) >= 1 /\ \A j \in 1..Len(s) : s[j] \in WSChars
    [] tk.t = "open" -> s = <<40>>
    [] tk.t = "close" -> s = <<41>>
    [] tk.t = "vopen" -> s = <<35, 40>>
    [] tk.t = "bopen" -> s = <<35, 117, 56, 40>>
    [] tk.t = "dot" -> s = <<46>>
    [] tk.t = "abbr" -> s \in Abbrevs
    [] tk.t = "ldef" -> Len(s) >= 3 /\ s[1] = 35 /\ s[Len(s)] = 61 /\ AllDigits(LabelDigits(s), 10) /\ Len(s) <= 8
    [] tk.t = "lref" -> Len(s) >= 3 /\ s[1] = 35 /\ s[Len(s)] = 35 /\ AllDigits(LabelDigits(s), 10) /\ Len(s) <= 8
    [] tk.t = "str" -> Len(s) >= 2 /\ s[1] = 34 /\ s[Len(s)] = 34 /\ ScanState(Sub(s, 2, Len(s) - 1), 34) = 0
    [] tk.t = "psym" -> Len(s) >= 2 /\ s[1] = 124 /\ s[Len(s)] = 124 /\ ScanState(Sub(s, 2, Len(s) - 1), 124) = 0
    [] tk.t = "atom" -> /\ Len(s) >= 1
                        /\ IF Len(s) >= 3 /\ s[1] = 35 /\ s[2] = 92       \* #\c : the character itself may be anything
                           THEN \A j \in 4..Len(s) : s[j] \notin Delims
                           ELSE /\ \A j \in 1..Len(s) : s[j] \notin Delims /\ s[j] # 124
                                /\ s # <<46>> /\ s[1] \notin {39, 96, 44}
                                /\ ~(s[1] = 35 /\ Len(s) >= 2 /\ (IsDigit(s[2]) \/ s[2] = 40))
    [] OTHER -> FALSE
\* a token that is not self-delimiting must be followed by white space, a closing parenthesis or the end
NeedsDelim == {"atom", "lref", "dot", "str", "psym"}
Flat(toks) == LET f[i \in 0..Len(toks)] == IF i = 0 THEN <<>> ELSE f[i - 1] \o toks[i].s IN f[Len(toks)]
\* every token carries its offset o in the text: the tokens tile the text (same as Flat(toks) = text, in linear time)
Tiles(toks, text) ==
  /\ (Len(toks) = 0) = (Len(text) = 0)
  /\ Len(toks) > 0 => toks[1].o = 1 /\ toks[Len(toks)].o + Len(toks[Len(toks)].s) - 1 = Len(text)
  /\ \A i \in 1..(Len(toks) - 1) : toks[i + 1].o = toks[i].o + Len(toks[i].s)
  /\ \A i \in 1..Len(toks) : Len(toks[i].s) >= 1 /\ SubSeq(text, toks[i].o, toks[i].o + Len(toks[i].s) - 1) = toks[i].s
LexOKBy(toks, text, tiling) ==
  /\ \A i \in 1..Len(toks) : toks[i].t \in TokTypes /\ TokOK(toks[i])
  /\ \A i \in 1..(Len(toks) - 1) : toks[i].t \in NeedsDelim => toks[i + 1].t \in {"ws", "close"}
  /\ \A i \in 1..(Len(toks) - 1) : toks[i].t = "ws" => toks[i + 1].t # "ws"
  /\ tiling
LexOK(toks, text) == LexOKBy(toks, text, Flat(toks) = text)
LexOKo(toks, text) == LexOKBy(toks, text, Tiles(toks, text))

\* ------------------------------------------------------------------ atoms
CharNames == << <<<<97, 108, 97, 114, 109>>, 7>>, <<<<98, 97, 99, 107, 115, 112, 97, 99, 101>>, 8>>,
                <<<<100, 101, 108, 101, 116, 101>>, 127>>, <<<<101, 115, 99, 97, 112, 101>>, 27>>,
                <<<<110, 101, 119, 108, 105, 110, 101>>, 10>>, <<<<110, 117, 108, 108>>, 0>>,
                <<<<114, 101, 116, 117, 114, 110>>, 13>>, <<<<115, 112, 97, 99, 101>>, 32>>,
                <<<<116, 97, 98>>, 9>> >>
Node(k, c, p) == [k |-> k, c |-> c, p |-> p]
Bad == Node("bad", <<>>, <<>>)
\* nodes denoted by an atom token: a sequence whose LAST element is the datum (a ratio has two parts before it,
\* with child ids relative: 1 = first appended node)
AtomNodes(tk) ==
  LET s == tk.s IN
  IF tk.t = "str" THEN
     LET d == Decode(Sub(s, 2, Len(s) - 1), 1) IN IF DecodeOK(d) THEN <<Node("str", <<>>, d)>> ELSE <<Bad>>
  ELSE IF tk.t = "psym" THEN
     LET d == Decode(Sub(s, 2, Len(s) - 1), 1) IN IF DecodeOK(d) THEN <<Node("sym", <<>>, d)>> ELSE <<Bad>>
  ELSE IF s[1] = 35 THEN       \* # syntax
     IF LowerSeq(s) \in {<<35, 116>>, <<35, 116, 114, 117, 101>>} THEN <<Node("bool", <<>>, <<1>>)>>
     ELSE IF LowerSeq(s) \in {<<35, 102>>, <<35, 102, 97, 108, 115, 101>>} THEN <<Node("bool", <<>>, <<0>>)>>
     ELSE IF Len(s) >= 3 /\ s[2] = 92 THEN
        IF Len(s) = 3 THEN (IF Scalar(s[3]) THEN <<Node("char", <<>>, <<s[3]>>)>> ELSE <<Bad>>)
        ELSE IF s[3] \in {120, 88} /\ AllDigits(Sub(s, 4, Len(s)), 16) THEN
           (IF Len(s) <= 9 /\ Scalar(SmallHex(Sub(s, 4, Len(s)))) THEN <<Node("char", <<>>, <<SmallHex(Sub(s, 4, Len(s)))>>)>> ELSE <<Bad>>)
        ELSE LET nm == Sub(s, 3, Len(s))
                 hit == {j \in 1..Len(CharNames) : CharNames[j][1] = nm}
             IN IF hit = {} THEN <<Bad>> ELSE <<Node("char", <<>>, <<CharNames[CHOOSE j \in hit : TRUE][2]>>)>>
     ELSE IF Len(s) >= 3 /\ Lower(s[2]) = 120 /\ AllDigits(Sub(s, 3, Len(s)), 16) THEN      \* #xHH
        <<Node("int", <<>>, IntPayload(FALSE, Magnitude(Sub(s, 3, Len(s)), 16)))>>
     ELSE <<Bad>>
  ELSE IF IsNumberLC(s) THEN
     LET neg == s[1] = 45
         b == IF IsSign(s[1]) THEN Sub(s, 2, Len(s)) ELSE s
         sl == {j \in 1..Len(b) : b[j] = 47}
     IN IF AllDigits(b, 10) THEN <<Node("int", <<>>, IntPayload(neg, Magnitude(b, 10)))>>
        ELSE IF Cardinality(sl) = 1 /\ LET j == CHOOSE j \in sl : TRUE IN AllDigits(Sub(b, 1, j - 1), 10) /\ AllDigits(Sub(b, j + 1, Len(b)), 10)
        THEN LET j == CHOOSE j \in sl : TRUE IN
             << Node("int", <<>>, IntPayload(neg, Magnitude(Sub(b, 1, j - 1), 10))),
                Node("int", <<>>, IntPayload(FALSE, Magnitude(Sub(b, j + 1, Len(b)), 10))),
                Node("rat", <<1, 2>>, <<>>) >>
        ELSE <<Node("num", <<>>, LowerSeq(s))>>
  ELSE IF IsNumber(s) THEN <<Node("odd", <<>>, s)>>   \* a number only if case is ignored (+I, +Inf.0): not judged
  ELSE IF IsIdentifierNN(s) THEN <<Node("sym", <<>>, s)>>
  ELSE <<Node("odd", <<>>, s)>>          \* neither an R7RS number nor an R7RS identifier: not judged

\* ------------------------------------------------------------------ the reader
Hole == Node("hole", <<>>, <<>>)
Frame(k, id) == [k |-> k, id |-> id, items |-> <<>>, dot |-> 0, tail |-> 0]
PS0 == [stk |-> <<>>, nodes |-> <<>>, lab |-> <<>>, pend |-> <<>>, root |-> 0, err |-> ""]
Fail(ps, msg) == [ps EXCEPT !.err = msg]
LabelOf(tk) == SmallVal(Magnitude(LabelDigits(tk.s), 10), 1)
LabDefined(ps, n) == \E j \in 1..Len(ps.lab) : ps.lab[j][1] = n
LabNode(ps, n) == ps.lab[CHOOSE j \in 1..Len(ps.lab) : ps.lab[j][1] = n][2]
Bind(ps, id) == ps.lab \o [j \in 1..Len(ps.pend) |-> <<ps.pend[j], id>>]
Top(ps) == ps.stk[Len(ps.stk)]
SetTop(ps, f) == [ps.stk EXCEPT ![Len(ps.stk)] = f]
Pop(ps) == Sub(ps.stk, 1, Len(ps.stk) - 1)

AbbrName(s) == IF s = <<39>> THEN <<113, 117, 111, 116, 101>>                                      \* quote
               ELSE IF s = <<96>> THEN <<113, 117, 97, 115, 105, 113, 117, 111, 116, 101>>             \* quasiquote
               ELSE IF s = <<44>> THEN <<117, 110, 113, 117, 111, 116, 101>>                           \* unquote
               ELSE <<117, 110, 113, 117, 111, 116, 101, 45, 115, 112, 108, 105, 99, 105, 110, 103>>   \* unquote-splicing
RECURSIVE Deliver(_, _), CloseFrame(_)
Deliver(ps, d) ==
  IF ps.stk = <<>> THEN (IF ps.root # 0 THEN Fail(ps, "second datum") ELSE [ps EXCEPT !.root = d])
  ELSE LET f == Top(ps) IN
       IF f.k = "abbr" THEN CloseFrame([ps EXCEPT !.stk = SetTop(ps, [f EXCEPT !.items = Append(f.items, d)])])   \* 'x = (quote x)
       ELSE IF f.dot = 1 THEN [ps EXCEPT !.stk = SetTop(ps, [f EXCEPT !.dot = 2, !.tail = d])]
       ELSE IF f.dot = 2 THEN Fail(ps, "two data after dot")
       ELSE [ps EXCEPT !.stk = SetTop(ps, [f EXCEPT !.items = Append(f.items, d)])]

SmallIntVal(nd) == IF Len(nd.p) = 1 THEN 0 ELSE IF Len(nd.p) = 2 /\ nd.p[1] = 0 THEN nd.p[2] ELSE -1
CloseFrame(ps) ==
  LET f == Top(ps) k == Len(f.items) n0 == Len(ps.nodes) IN
  IF f.dot = 1 THEN Fail(ps, "nothing after dot")
  ELSE IF f.k = "vec" THEN
     Deliver([ps EXCEPT !.stk = Pop(ps), !.nodes = [ps.nodes EXCEPT ![f.id] = Node("vec", f.items, <<>>)]], f.id)
  ELSE IF f.k = "bytes" THEN
     IF \A j \in 1..k : ps.nodes[f.items[j]].k = "int" /\ SmallIntVal(ps.nodes[f.items[j]]) \in 0..255
     THEN Deliver([ps EXCEPT !.stk = Pop(ps),
                             !.nodes = [ps.nodes EXCEPT ![f.id] = Node("bytes", <<>>, [j \in 1..k |-> SmallIntVal(ps.nodes[f.items[j]])] \o <<>>)]], f.id)
     ELSE Fail(ps, "bad bytevector element")
  ELSE IF k = 0 THEN
     Deliver([ps EXCEPT !.stk = Pop(ps), !.nodes = [ps.nodes EXCEPT ![f.id] = Node("null", <<>>, <<>>)]], f.id)
  ELSE \* pairs: the first one takes the reserved id, the others n0+1 .. n0+k-1, a fresh () after them if needed
     LET pid(j) == IF j = 1 THEN f.id ELSE n0 + j - 1
         tailid == IF f.dot = 2 THEN f.tail ELSE n0 + k
         nxt(j) == IF j < k THEN pid(j + 1) ELSE tailid
         more == [j \in 1..(k - 1) |-> Node("pair", <<f.items[j + 1], nxt(j + 1)>>, <<>>)]
         nil == IF f.dot = 2 THEN <<>> ELSE <<Node("null", <<>>, <<>>)>>
     IN Deliver([ps EXCEPT !.stk = Pop(ps),
                           !.nodes = [ps.nodes EXCEPT ![f.id] = Node("pair", <<f.items[1], nxt(1)>>, <<>>)] \o more \o nil], f.id)

Step(ps, tk) ==
  IF ps.err # "" \/ tk.t = "ws" THEN ps
  ELSE IF tk.t \in {"open", "vopen", "bopen"} THEN
     LET id == Len(ps.nodes) + 1 IN
     [ps EXCEPT !.nodes = Append(ps.nodes, Hole), !.lab = Bind(ps, id), !.pend = <<>>,
                !.stk = Append(ps.stk, Frame(IF tk.t = "open" THEN "list" ELSE IF tk.t = "vopen" THEN "vec" ELSE "bytes", id))]
  ELSE IF tk.t = "abbr" THEN
     LET id == Len(ps.nodes) + 1 IN
     [ps EXCEPT !.nodes = ps.nodes \o <<Hole, Node("sym", <<>>, AbbrName(tk.s))>>, !.lab = Bind(ps, id), !.pend = <<>>,
                !.stk = Append(ps.stk, [Frame("abbr", id) EXCEPT !.items = <<id + 1>>])]
  ELSE IF tk.t = "close" THEN
     IF ps.stk = <<>> THEN Fail(ps, "unbalanced )") ELSE IF ps.pend # <<>> THEN Fail(ps, "label without datum")
     ELSE IF Top(ps).k = "abbr" THEN Fail(ps, "abbreviation without datum") ELSE CloseFrame(ps)
  ELSE IF tk.t = "dot" THEN
     IF ps.stk = <<>> \/ ps.pend # <<>> THEN Fail(ps, "stray dot")
     ELSE LET f == Top(ps) IN
          IF f.k # "list" \/ f.items = <<>> \/ f.dot # 0 THEN Fail(ps, "misplaced dot")
          ELSE [ps EXCEPT !.stk = SetTop(ps, [f EXCEPT !.dot = 1])]
  ELSE IF tk.t = "ldef" THEN
     LET n == LabelOf(tk) IN
     IF LabDefined(ps, n) \/ InSeq(ps.pend, n) THEN Fail(ps, "duplicate label") ELSE [ps EXCEPT !.pend = Append(ps.pend, n)]
  ELSE IF tk.t = "lref" THEN
     LET n == LabelOf(tk) IN
     IF ps.pend # <<>> THEN Fail(ps, "label of a reference")
     ELSE IF ~LabDefined(ps, n) THEN Fail(ps, "unknown label") ELSE Deliver(ps, LabNode(ps, n))
  ELSE \* atom, str, psym
     LET an == AtomNodes(tk) n0 == Len(ps.nodes) id == n0 + Len(an)
         shifted == [j \in 1..Len(an) |-> [an[j] EXCEPT !.c = [m \in 1..Len(an[j].c) |-> n0 + an[j].c[m]] \o <<>>]]
     IN IF an[Len(an)].k = "bad" THEN Fail(ps, "bad atom")
        ELSE Deliver([ps EXCEPT !.nodes = ps.nodes \o shifted, !.lab = Bind(ps, id), !.pend = <<>>], id)

Run(toks) == LET f[i \in 0..Len(toks)] == IF i = 0 THEN PS0 ELSE Step(f[i - 1], toks[i]) IN f[Len(toks)]
\* result: [ok, g, err]
Read(toks) ==
  LET ps == Run(toks) IN
  IF ps.err # "" THEN [ok |-> FALSE, g |-> [r |-> 0, n |-> <<>>], err |-> ps.err]
  ELSE IF ps.stk # <<>> THEN [ok |-> FALSE, g |-> [r |-> 0, n |-> <<>>], err |-> "unterminated"]
  ELSE IF ps.root = 0 \/ ps.pend # <<>> THEN [ok |-> FALSE, g |-> [r |-> 0, n |-> <<>>], err |-> "no datum"]
  ELSE [ok |-> TRUE, g |-> [r |-> ps.root, n |-> ps.nodes], err |-> ""]

\* ------------------------------------------------------------------ comparing a datum x with the graph t read from its text
IsInfBits(p) == (p[1] % 32768) = 32752 /\ p[2] = 0 /\ p[3] = 0 /\ p[4] = 0
HasChar(s, c) == \E j \in 1..Len(s) : s[j] = c
MatchNode(x, t, a, b) ==
  LET xn == x.n[a] tn == t.n[b] IN
  CASE xn.k = "flo" ->
         /\ tn.k = "num" /\ IsRealTok(tn.p)
         /\ (tn.p[1] = 45) = (xn.p[1] >= 32768)                               \* sign
         /\ IF IsInfBits(xn.p) THEN Sub(tn.p, 2, Len(tn.p)) = INF
            ELSE ~HasAt(tn.p, 2, INF) /\ ~HasAt(tn.p, 2, NAN) /\ (HasChar(tn.p, 46) \/ HasChar(tn.p, 101)) /\ ~HasChar(tn.p, 47)
    [] xn.k = "nan" -> tn.k = "num" /\ Len(tn.p) = 6 /\ Sub(tn.p, 2, 6) = NAN
    [] xn.k = "cpx" -> tn.k = "num" /\ ~IsRealTok(tn.p) /\ (tn.p[Len(tn.p)] = 105 \/ HasChar(tn.p, 64))
    [] xn.k = "sym" /\ tn.k = "odd" -> xn.p = tn.p                            \* outside R7RS: not judged further
    [] OTHER -> Compat(x, t, a, b)

RECURSIVE MClose(_, _, _, _)
MClose(x, t, done, front) ==
  IF front = {} THEN done
  ELSE LET d2 == done \cup front
           nxt == UNION { IF MatchNode(x, t, q[1], q[2]) /\ Len(Kids(x, q[1])) = Len(Kids(t, q[2]))
                          THEN {<<Kids(x, q[1])[j], Kids(t, q[2])[j]>> : j \in 1..Len(Kids(x, q[1]))}
                          ELSE {} : q \in front }
       IN MClose(x, t, d2, nxt \ d2)
MPairs(x, t) == MClose(x, t, {}, {<<x.r, t.r>>})
MatchEqual(x, t) == \A q \in MPairs(x, t) : MatchNode(x, t, q[1], q[2])
MatchIso(x, t) ==
  LET P == MPairs(x, t)
      PI == {q \in P : HasId(x, q[1]) \/ HasId(t, q[2])}
  IN /\ \A q \in P : MatchNode(x, t, q[1], q[2])
     /\ Cardinality({q[1] : q \in PI}) = Cardinality(PI)
     /\ Cardinality({q[2] : q \in PI}) = Cardinality(PI)

\* ------------------------------------------------------------------ an abstract writer (for model checking Read)
Tok(t, s) == [t |-> t, s |-> s]
SP == Tok("ws", <<32>>)
\* decimal text of a small natural number
RECURSIVE Dec10(_)
Dec10(n) == IF n < 10 THEN <<48 + n>> ELSE Dec10(n \div 10) \o <<48 + (n % 10)>>
\* text of a string / symbol interior with escapes
HexChar(v) == IF v < 10 THEN 48 + v ELSE 87 + v
RECURSIVE Escape(_, _, _)
Escape(p, j, term) ==
  IF j > Len(p) THEN <<>>
  ELSE LET c == p[j]
           e == IF c = term \/ c = 92 THEN <<92, c>>
                ELSE IF c = 10 THEN <<92, 110>>
                ELSE IF c < 16 THEN <<92, 120, HexChar(c), 59>>
                ELSE IF c < 32 THEN <<92, 120, 49, HexChar(c - 16), 59>>
                ELSE <<c>>
       IN e \o Escape(p, j + 1, term)
CharTok(cp) == IF cp < 16 THEN <<35, 92, 120, HexChar(cp)>> ELSE <<35, 92, 120, HexChar(cp \div 16), HexChar(cp % 16)>>
AtomTok(nd) ==
  CASE nd.k = "sym" -> IF IsIdentifier(nd.p) THEN Tok("atom", nd.p) ELSE Tok("psym", <<124>> \o Escape(nd.p, 1, 124) \o <<124>>)
    [] nd.k = "str" -> Tok("str", <<34>> \o Escape(nd.p, 1, 34) \o <<34>>)
    [] nd.k = "int" -> Tok("atom", (IF nd.p[1] = 1 THEN <<45>> ELSE <<>>) \o Dec10(SmallVal(Sub(nd.p, 2, Len(nd.p)), 1)))
    [] nd.k = "bool" -> Tok("atom", IF nd.p[1] = 1 THEN <<35, 116>> ELSE <<35, 102>>)
    [] nd.k = "char" -> Tok("atom", CharTok(nd.p[1]))
    [] OTHER -> Tok("atom", <<63>>)

\* L: the labelled nodes; def: labelled nodes already written, in label order.  Result [t |-> tokens, d |-> def]
RECURSIVE WNode(_, _, _, _), WTail(_, _, _, _), WItems(_, _, _, _, _)
WNode(g, L, i, def) ==
  IF i \in L /\ InSeq(def, i) THEN [t |-> <<Tok("lref", <<35>> \o Dec10(Index(def, i) - 1) \o <<35>>)>>, d |-> def]
  ELSE LET def1 == IF i \in L THEN Append(def, i) ELSE def
           pre == IF i \in L THEN <<Tok("ldef", <<35>> \o Dec10(Len(def)) \o <<61>>)>> ELSE <<>>
       IN IF Kind(g, i) = "pair" THEN
             LET a == WNode(g, L, Kids(g, i)[1], def1)
                 r == WTail(g, L, Kids(g, i)[2], a.d)
             IN [t |-> pre \o <<Tok("open", <<40>>)>> \o a.t \o r.t, d |-> r.d]
          ELSE IF Kind(g, i) = "vec" THEN
             LET r == WItems(g, L, Kids(g, i), 1, def1)
             IN [t |-> pre \o <<Tok("vopen", <<35, 40>>)>> \o r.t \o <<Tok("close", <<41>>)>>, d |-> r.d]
          ELSE IF Kind(g, i) = "null" THEN [t |-> pre \o <<Tok("open", <<40>>), Tok("close", <<41>>)>>, d |-> def1]
          ELSE IF Kind(g, i) = "bytes" THEN
             [t |-> pre \o <<Tok("bopen", <<35, 117, 56, 40>>)>>
                    \o [j \in 1..(2 * Len(Pay(g, i))) |-> IF j % 2 = 1 THEN Tok("atom", Dec10(Pay(g, i)[(j + 1) \div 2])) ELSE SP]
                    \o <<Tok("close", <<41>>)>>, d |-> def1]
          ELSE [t |-> pre \o <<AtomTok(g.n[i])>>, d |-> def1]
WTail(g, L, j, def) ==
  IF Kind(g, j) = "null" THEN [t |-> <<Tok("close", <<41>>)>>, d |-> def]
  ELSE IF Kind(g, j) = "pair" /\ j \notin L THEN
     LET a == WNode(g, L, Kids(g, j)[1], def)
         r == WTail(g, L, Kids(g, j)[2], a.d)
     IN [t |-> <<SP>> \o a.t \o r.t, d |-> r.d]
  ELSE LET a == WNode(g, L, j, def)
       IN [t |-> <<SP, Tok("dot", <<46>>), SP>> \o a.t \o <<Tok("close", <<41>>)>>, d |-> a.d]
WItems(g, L, ks, j, def) ==
  IF j > Len(ks) THEN [t |-> <<>>, d |-> def]
  ELSE LET a == WNode(g, L, ks[j], def)
           r == WItems(g, L, ks, j + 1, a.d)
       IN [t |-> (IF j > 1 THEN <<SP>> ELSE <<>>) \o a.t \o r.t, d |-> r.d]

SharedNodes(g) == {i \in Reach(g) : HasId(g, i) /\ InDeg(g, i) > 1}
CycleNodes(g) == {i \in SharedNodes(g) : OnCycle(g, i)}
Write(g, mode) == WNode(g, IF mode = "shared" THEN SharedNodes(g) ELSE IF mode = "cyclic" THEN CycleNodes(g) ELSE {}, g.r, <<>>).t
=========================================================================
