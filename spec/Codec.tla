------------------------------- MODULE Codec -------------------------------
(* C19 -- what the codec libraries mean.

   Bytes are sequences of integers 0..255, text is a sequence of byte values (or of code points
   where the library works on characters), integers wider than 31 bits are sign + little-endian
   base-256 digit sequences.  Encoders that are functions of the input are written by index
   arithmetic (B64Enc, Utf8Enc, Utf16Enc, IntBytes); formats with several admissible encodings
   (quoted-printable, URI escaping, JSON, CSV) are given by an abstract *decoder* that says what a
   text means, together with the predicate saying which texts the format allows.  Decoders are
   folds over the text (one step per byte, no recursion).

   Nothing here mentions the implementation; CodecMC checks the definitions against each other and
   against TLC's own integers, CodecTrace judges recorded results of the real libraries.          *)
EXTENDS Integers, Sequences, FiniteSets, SequencesExt

Byte == 0..255
IsBytes(s) == \A i \in 1..Len(s) : s[i] \in Byte
At(t, i) == IF i >= 1 /\ i <= Len(t) THEN t[i] ELSE -1          \* -1 outside the text
Idx(t) == [i \in 1..Len(t) |-> i]
Rev(s) == [i \in 1..Len(s) |-> s[Len(s) + 1 - i]]

IsDigit(c) == c >= 48 /\ c <= 57
IsUpper(c) == c >= 65 /\ c <= 90
IsLower(c) == c >= 97 /\ c <= 122
IsHexU(c) == IsDigit(c) \/ (c >= 65 /\ c <= 70)                   \* 0-9 A-F
IsHex(c) == IsHexU(c) \/ (c >= 97 /\ c <= 102)
HexV(c) == IF c <= 57 THEN c - 48 ELSE IF c <= 70 THEN c - 55 ELSE c - 87

(***************************************************************************)
(* base64 (RFC 4648 section 4, no line wrapping)                           *)
(***************************************************************************)
B64Char(v) == IF v < 26 THEN 65 + v ELSE IF v < 52 THEN 71 + v ELSE IF v < 62 THEN v - 4
              ELSE IF v = 62 THEN 43 ELSE 47
B64Val(c) == IF IsUpper(c) THEN c - 65 ELSE IF IsLower(c) THEN c - 71 ELSE IF IsDigit(c) THEN c + 4
             ELSE IF c = 43 THEN 62 ELSE IF c = 47 THEN 63 ELSE -1
B64EncLen(n) == 4 * ((n + 2) \div 3)
ByteOr0(x, j) == IF j <= Len(x) THEN x[j] ELSE 0
B64Enc(x) ==
  LET n == Len(x) IN
  [i \in 1..B64EncLen(n) |->
     LET g == (i - 1) \div 4
         p == (i - 1) % 4
         b1 == ByteOr0(x, 3 * g + 1)
         b2 == ByteOr0(x, 3 * g + 2)
         b3 == ByteOr0(x, 3 * g + 3)
         have == n - 3 * g                       \* bytes of x in this group: 1, 2 or >= 3
     IN  IF p = 0 THEN B64Char(b1 \div 4)
         ELSE IF p = 1 THEN B64Char((b1 % 4) * 16 + b2 \div 16)
         ELSE IF p = 2 THEN (IF have >= 2 THEN B64Char((b2 % 16) * 4 + b3 \div 64) ELSE 61)
         ELSE (IF have >= 3 THEN B64Char(b3 % 64) ELSE 61)]

B64Pads(t) == IF Len(t) >= 2 /\ t[Len(t)] = 61 /\ t[Len(t) - 1] = 61 THEN 2
              ELSE IF Len(t) >= 1 /\ t[Len(t)] = 61 THEN 1 ELSE 0
\* the texts RFC 4648 allows: whole quadruples, alphabet only, padding only at the very end, zero pad bits
B64Allowed(t) ==
  LET n == Len(t)  p == B64Pads(t) IN
  /\ n % 4 = 0
  /\ \A i \in 1..(n - p) : B64Val(t[i]) >= 0
  /\ p = 1 => B64Val(t[n - 1]) % 4 = 0
  /\ p = 2 => B64Val(t[n - 2]) % 16 = 0
V0(c) == IF B64Val(c) < 0 THEN 0 ELSE B64Val(c)
B64Dec(t) ==                                    \* meaning of an allowed text
  LET n == Len(t)  p == B64Pads(t) IN
  [j \in 1..(3 * (n \div 4) - p) |->
     LET g == (j - 1) \div 3
         q == (j - 1) % 3
         v1 == V0(t[4 * g + 1])  v2 == V0(t[4 * g + 2])  v3 == V0(t[4 * g + 3])  v4 == V0(t[4 * g + 4])
     IN  IF q = 0 THEN v1 * 4 + v2 \div 16
         ELSE IF q = 1 THEN (v2 % 16) * 16 + v3 \div 4
         ELSE (v3 % 4) * 64 + v4]

(* MIME reading of base64 text (RFC 2045 6.8): characters outside the alphabet (line breaks, white   *)
(* space, ...) are ignored, the first '=' ends the data, and the padding of the last group may be    *)
(* missing (2 or 3 characters left over; a single left-over character carries no byte and is not in  *)
(* the domain).  This is what a decoder must make of wrapped / streamed text, however it is chunked. *)
B64Skip == {9, 10, 13, 32, 33, 46, 58}                   \* the ignorable characters the generator uses
B64Data(t) == LET e == SelectInSeq(t, LAMBDA c : c = 61)
                  body == IF e = 0 THEN t ELSE SubSeq(t, 1, e - 1)
              IN  SelectSeq(body, LAMBDA c : B64Val(c) >= 0)
B64LaxDomain(t) ==
  LET e == SelectInSeq(t, LAMBDA c : c = 61) IN
  /\ \A i \in 1..Len(t) : B64Val(t[i]) >= 0 \/ t[i] = 61 \/ t[i] \in B64Skip
  /\ (e > 0 => \A i \in e..Len(t) : t[i] = 61 \/ t[i] \in B64Skip)
  /\ Len(B64Data(t)) % 4 # 1
SV(s, i) == IF i <= Len(s) THEN B64Val(s[i]) ELSE 0
B64DecLax(t) ==
  LET s == B64Data(t)
      n == Len(s)
      r == n % 4
  IN  [j \in 1..(3 * (n \div 4) + (IF r = 2 THEN 1 ELSE IF r = 3 THEN 2 ELSE 0)) |->
         LET g == (j - 1) \div 3
             q == (j - 1) % 3
         IN  IF q = 0 THEN SV(s, 4 * g + 1) * 4 + SV(s, 4 * g + 2) \div 16
             ELSE IF q = 1 THEN (SV(s, 4 * g + 2) % 16) * 16 + SV(s, 4 * g + 3) \div 4
             ELSE (SV(s, 4 * g + 3) % 4) * 64 + SV(s, 4 * g + 4)]
\* sizes of the fixed internal buffers of the streaming / buffered code paths in the libraries (the runner reads
\* the actual values from the sources and generates lengths around their multiples; these are the values of the
\* pinned tree, recorded for the reader): base64-decode reads lcm(76,78) = 2964 characters per step and carries
\* 1-3 left-over characters into the next buffer; base64-encode reads 3 * 1024 bytes (it used to read 2048) and
\* writes 4096 characters per step; qp-encode fills a line buffer of max-col = 76; json_read_string starts with a
\* 128-byte buffer and doubles it.
StreamBuffers == [b64decode |-> 2964, b64encode |-> 3072, b64encodeOld |-> 2048, qpline |-> 76, jsonstring |-> 128]

(***************************************************************************)
(* quoted-printable (RFC 2045 section 6.7)                                 *)
(***************************************************************************)
QpEsc(t, i)   == At(t, i) = 61 /\ IsHexU(At(t, i + 1)) /\ IsHexU(At(t, i + 2))   \* =XX, upper case only
QpSoft2(t, i) == At(t, i) = 61 /\ At(t, i + 1) = 13 /\ At(t, i + 2) = 10          \* =CRLF
QpSoft1(t, i) == At(t, i) = 61 /\ At(t, i + 1) = 10                               \* =LF (lenient)
\* position i belongs to an escape / soft break that starts before it ('=' is neither hex, CR nor LF,
\* so the decomposition is unambiguous)
QpCovered(t, i) == \/ QpEsc(t, i - 1) \/ QpSoft2(t, i - 1) \/ QpSoft1(t, i - 1)
                   \/ QpEsc(t, i - 2) \/ QpSoft2(t, i - 2)
QpCharsOk(t) ==
  \A i \in 1..Len(t) :
     \/ QpCovered(t, i)
     \/ t[i] = 61 /\ (QpEsc(t, i) \/ QpSoft2(t, i) \/ QpSoft1(t, i))
     \/ (t[i] >= 33 /\ t[i] <= 126 /\ t[i] # 61)
     \/ (t[i] \in {32, 9} /\ i < Len(t) /\ t[i + 1] \notin {13, 10})     \* no white space at a line end
     \/ (t[i] = 13 /\ At(t, i + 1) = 10)                                  \* hard line break CRLF
     \/ (t[i] = 10 /\ At(t, i - 1) = 13)
QpMaxLine == 76
QpLinesOk(t) ==                                 \* no line (not counting its CRLF) longer than 76
  LET n == Len(t)
      starts == {1} \cup {i + 1 : i \in {j \in 1..n : t[j] = 10}}
  IN  \A s \in starts :
         \/ n - s + 1 <= QpMaxLine
         \/ \E j \in s..(s + QpMaxLine) : t[j] \in {10, 13}
QpAllowed(t) == QpCharsOk(t) /\ QpLinesOk(t)
QpDec(t) ==
  LET step(acc, i) ==
        IF QpCovered(t, i) THEN acc
        ELSE IF t[i] = 61
             THEN (IF QpEsc(t, i) THEN Append(acc, 16 * HexV(t[i + 1]) + HexV(t[i + 2])) ELSE acc)
             ELSE Append(acc, t[i])
  IN  FoldLeft(step, <<>>, Idx(t))

(***************************************************************************)
(* URI escaping (RFC 3986 2.1, unreserved set of RFC 2396 = RFC 3986 + marks) *)
(***************************************************************************)
UriUnreserved(c) == IsDigit(c) \/ IsUpper(c) \/ IsLower(c) \/ c \in {45, 95, 46, 126, 33, 42, 39, 40, 41}
UriEsc(t, i) == At(t, i) = 37 /\ IsHex(At(t, i + 1)) /\ IsHex(At(t, i + 2))
UriCovered(t, i) == UriEsc(t, i - 1) \/ UriEsc(t, i - 2)
UriAllowed(t, plus) ==
  \A i \in 1..Len(t) : \/ UriCovered(t, i) \/ UriEsc(t, i) \/ UriUnreserved(t[i]) \/ (plus /\ t[i] = 43)
UriDec(t, plus) ==
  LET step(acc, i) ==
        IF UriCovered(t, i) THEN acc
        ELSE IF UriEsc(t, i) THEN Append(acc, 16 * HexV(t[i + 1]) + HexV(t[i + 2]))
        ELSE IF plus /\ t[i] = 43 THEN Append(acc, 32)
        ELSE Append(acc, t[i])
  IN  FoldLeft(step, <<>>, Idx(t))

(***************************************************************************)
(* UTF-8 / UTF-16 / UTF-32 of sequences of Unicode scalar values           *)
(***************************************************************************)
IsScalar(cp) == cp >= 0 /\ cp <= 1114111 /\ ~(cp >= 55296 /\ cp <= 57343)
Utf8Of(cp) ==
  IF cp < 128 THEN <<cp>>
  ELSE IF cp < 2048 THEN <<192 + cp \div 64, 128 + (cp % 64)>>
  ELSE IF cp < 65536 THEN <<224 + cp \div 4096, 128 + ((cp \div 64) % 64), 128 + (cp % 64)>>
  ELSE <<240 + cp \div 262144, 128 + ((cp \div 4096) % 64), 128 + ((cp \div 64) % 64), 128 + (cp % 64)>>
Cat(ss) == FoldLeft(LAMBDA acc, s : acc \o s, <<>>, ss)
Utf8Enc(cps) == Cat([i \in 1..Len(cps) |-> Utf8Of(cps[i])])
\* well-formed UTF-8 (Unicode table 3-7) as a decoder: one step per byte
\* state <<out, need, acc, lo, hi>> : continuation bytes still needed, bounds for the next continuation byte
Utf8Step(s, b) ==
  IF s[2] = -1 THEN s
  ELSE IF s[2] = 0 THEN
       (IF b < 128 THEN <<Append(s[1], b), 0, 0, 128, 191>>
        ELSE IF b >= 194 /\ b <= 223 THEN <<s[1], 1, b - 192, 128, 191>>
        ELSE IF b = 224 THEN <<s[1], 2, 0, 160, 191>>
        ELSE IF b >= 225 /\ b <= 239 /\ b # 237 THEN <<s[1], 2, b - 224, 128, 191>>
        ELSE IF b = 237 THEN <<s[1], 2, 13, 128, 159>>
        ELSE IF b = 240 THEN <<s[1], 3, 0, 144, 191>>
        ELSE IF b >= 241 /\ b <= 243 THEN <<s[1], 3, b - 240, 128, 191>>
        ELSE IF b = 244 THEN <<s[1], 3, 4, 128, 143>>
        ELSE <<s[1], -1, 0, 0, 0>>)
  ELSE IF b >= s[4] /\ b <= s[5]
       THEN (IF s[2] = 1 THEN <<Append(s[1], s[3] * 64 + b - 128), 0, 0, 128, 191>>
             ELSE <<s[1], s[2] - 1, s[3] * 64 + b - 128, 128, 191>>)
       ELSE <<s[1], -1, 0, 0, 0>>
Utf8Run(bytes) == FoldLeft(Utf8Step, <<<<>>, 0, 0, 128, 191>>, bytes)
Utf8Valid(bytes) == Utf8Run(bytes)[2] = 0
Utf8Dec(bytes) == Utf8Run(bytes)[1]
Utf16Units(cp) == IF cp < 65536 THEN <<cp>>
                  ELSE <<55296 + (cp - 65536) \div 1024, 56320 + ((cp - 65536) % 1024)>>
UnitBytes(u, big) == IF big THEN <<u \div 256, u % 256>> ELSE <<u % 256, u \div 256>>
Utf16Enc(cps, big) == Cat([i \in 1..Len(cps) |->
                             Cat([k \in 1..Len(Utf16Units(cps[i])) |-> UnitBytes(Utf16Units(cps[i])[k], big)])])
Utf32Of(cp, big) == LET le == <<cp % 256, (cp \div 256) % 256, (cp \div 65536) % 256, 0>>
                    IN  IF big THEN Rev(le) ELSE le
Utf32Enc(cps, big) == Cat([i \in 1..Len(cps) |-> Utf32Of(cps[i], big)])

(***************************************************************************)
(* integers in byte arrays.  A value is (neg, mag): neg \in {0,1}, mag the *)
(* little-endian base-256 digits of |v| without leading (high) zeros.      *)
(***************************************************************************)
IsMag(mag) == IsBytes(mag) /\ (Len(mag) > 0 => mag[Len(mag)] # 0)
Pad(mag, size) == [i \in 1..size |-> IF i <= Len(mag) THEN mag[i] ELSE 0]
LowZero(d, i) == \A j \in 1..(i - 1) : d[j] = 0
\* digits of 256^size - m  (two's complement of m), m given by its padded digits d
TwoComp(d) == [i \in 1..Len(d) |-> IF LowZero(d, i) THEN (256 - d[i]) % 256 ELSE 255 - d[i]]
FitsU(neg, mag, size) == size >= 1 /\ neg = 0 /\ IsMag(mag) /\ Len(mag) <= size
FitsS(neg, mag, size) ==
  /\ size >= 1 /\ neg \in {0, 1} /\ IsMag(mag) /\ Len(mag) <= size /\ (neg = 1 => Len(mag) > 0)
  /\ LET d == Pad(mag, size) IN
     IF neg = 0 THEN d[size] < 128
     ELSE d[size] < 128 \/ (d[size] = 128 /\ LowZero(d, size))
Fits(signed, neg, mag, size) == IF signed THEN FitsS(neg, mag, size) ELSE FitsU(neg, mag, size)
\* the size bytes that represent the value, in storage order
IntBytes(neg, mag, size, big) ==
  LET d == Pad(mag, size)
      le == IF neg = 1 THEN TwoComp(d) ELSE d
  IN  IF big THEN Rev(le) ELSE le
InRange(len, k, size) == k >= 0 /\ size >= 1 /\ k + size <= len
Splice(b, k, bytes) == [i \in 1..Len(b) |-> IF i - 1 >= k /\ i - 1 < k + Len(bytes) THEN bytes[i - k] ELSE b[i]]
Slice(b, k, size) == [i \in 1..size |-> b[k + i]]
\* (neg, mag) is the integer stored in these bytes
IsValueOf(signed, neg, mag, bytes, big) ==
  Fits(signed, neg, mag, Len(bytes)) /\ IntBytes(neg, mag, Len(bytes), big) = bytes
\* BER compressed integer (X.209): base-128 digits, most significant first, high bit on all but the last
BitOf(mag, k) == LET d == k \div 8 IN IF d + 1 <= Len(mag) THEN (mag[d + 1] \div (2 ^ (k % 8))) % 2 ELSE 0
Septet(mag, j) == BitOf(mag, 7*j) + 2 * BitOf(mag, 7*j + 1) + 4 * BitOf(mag, 7*j + 2) + 8 * BitOf(mag, 7*j + 3)
                  + 16 * BitOf(mag, 7*j + 4) + 32 * BitOf(mag, 7*j + 5) + 64 * BitOf(mag, 7*j + 6)
BerLen(mag) == LET cand == {j \in 0..(2 * Len(mag) + 1) : Septet(mag, j) # 0}
               IN  IF cand = {} THEN 1 ELSE 1 + CHOOSE j \in cand : \A k \in cand : k <= j
BerEnc(mag) == LET n == BerLen(mag) IN
               [i \in 1..n |-> Septet(mag, n - i) + (IF i < n THEN 128 ELSE 0)]
HexDigit(v) == IF v < 10 THEN 48 + v ELSE 87 + v                          \* lower case
HexOfBytes(b) == [i \in 1..(2 * Len(b)) |-> IF i % 2 = 1 THEN HexDigit(b[(i + 1) \div 2] \div 16)
                                                           ELSE HexDigit(b[i \div 2] % 16)]

(***************************************************************************)
(* JSON (RFC 8259).  A value is the sequence of its tokens in document     *)
(* order; a token is a sequence of integers:                               *)
(*   <<0>> null  <<1>> false  <<2>> true  <<3, neg, n>> integer            *)
(*   <<4, cp...>> string  <<5>> [  <<6>> ]  <<7>> {  <<8>> }               *)
(*   <<9, cp...>> member name                                              *)
(* JsonDec(text) is the token sequence a UTF-8 text denotes, or JBad when  *)
(* the text is not a JSON text.  Numbers: integers only (fractions and     *)
(* exponents are outside what this property quantifies over).              *)
(***************************************************************************)
JBad == << <<-1>> >>
JInit == [out |-> <<>>, stk |-> <<>>, ph |-> "val", lex |-> "", buf |-> <<>>, key |-> FALSE,
          n |-> 0, acc |-> 0, hs |-> 0, neg |-> 0, nd |-> 0, rem |-> <<>>, tok |-> <<>>, lo |-> 0, hi |-> 0]
JErr(s) == [s EXCEPT !.ph = "err", !.lex = ""]
JTop(s) == IF Len(s.stk) = 0 THEN 0 ELSE s.stk[Len(s.stk)]
JAfterPh(stk) == IF Len(stk) = 0 THEN "done" ELSE "more"
\* a complete value (scalar or closed container) has just been emitted
JValue(s, tok) == [s EXCEPT !.out = Append(s.out, tok), !.ph = JAfterPh(s.stk), !.lex = ""]
JWantsValue(s) == s.ph \in {"val", "valOrEnd"}
JFinishNum(s) == IF s.nd = 0 THEN JErr(s) ELSE JValue(s, <<3, IF s.acc = 0 THEN 0 ELSE s.neg, s.acc>>)
JPut(s, cp) == [s EXCEPT !.buf = Append(s.buf, cp), !.lex = "str"]
JEndString(s) == IF s.key THEN [s EXCEPT !.out = Append(s.out, <<9>> \o s.buf), !.ph = "colon", !.lex = ""]
                 ELSE JValue(s, <<4>> \o s.buf)
JNormal(s, c) ==
  IF c \in {32, 9, 10, 13} THEN s
  ELSE IF c = 91 THEN (IF JWantsValue(s) THEN [s EXCEPT !.out = Append(s.out, <<5>>), !.stk = Append(s.stk, 5), !.ph = "valOrEnd"] ELSE JErr(s))
  ELSE IF c = 123 THEN (IF JWantsValue(s) THEN [s EXCEPT !.out = Append(s.out, <<7>>), !.stk = Append(s.stk, 7), !.ph = "keyOrEnd"] ELSE JErr(s))
  ELSE IF c = 93 THEN (IF JTop(s) = 5 /\ s.ph \in {"valOrEnd", "more"}
                       THEN LET st == SubSeq(s.stk, 1, Len(s.stk) - 1) IN
                            [s EXCEPT !.out = Append(s.out, <<6>>), !.stk = st, !.ph = JAfterPh(st)]
                       ELSE JErr(s))
  ELSE IF c = 125 THEN (IF JTop(s) = 7 /\ s.ph \in {"keyOrEnd", "more"}
                        THEN LET st == SubSeq(s.stk, 1, Len(s.stk) - 1) IN
                             [s EXCEPT !.out = Append(s.out, <<8>>), !.stk = st, !.ph = JAfterPh(st)]
                        ELSE JErr(s))
  ELSE IF c = 44 THEN (IF s.ph = "more" THEN [s EXCEPT !.ph = IF JTop(s) = 5 THEN "val" ELSE "key"] ELSE JErr(s))
  ELSE IF c = 58 THEN (IF s.ph = "colon" THEN [s EXCEPT !.ph = "val"] ELSE JErr(s))
  ELSE IF c = 34 THEN (IF JWantsValue(s) THEN [s EXCEPT !.lex = "str", !.buf = <<>>, !.key = FALSE]
                       ELSE IF s.ph \in {"keyOrEnd", "key"} THEN [s EXCEPT !.lex = "str", !.buf = <<>>, !.key = TRUE]
                       ELSE JErr(s))
  ELSE IF c = 45 THEN (IF JWantsValue(s) THEN [s EXCEPT !.lex = "num", !.neg = 1, !.acc = 0, !.nd = 0] ELSE JErr(s))
  ELSE IF IsDigit(c) THEN (IF JWantsValue(s) THEN [s EXCEPT !.lex = "num", !.neg = 0, !.acc = c - 48, !.nd = 1] ELSE JErr(s))
  ELSE IF c = 116 THEN (IF JWantsValue(s) THEN [s EXCEPT !.lex = "lit", !.rem = <<114, 117, 101>>, !.tok = <<2>>] ELSE JErr(s))
  ELSE IF c = 102 THEN (IF JWantsValue(s) THEN [s EXCEPT !.lex = "lit", !.rem = <<97, 108, 115, 101>>, !.tok = <<1>>] ELSE JErr(s))
  ELSE IF c = 110 THEN (IF JWantsValue(s) THEN [s EXCEPT !.lex = "lit", !.rem = <<117, 108, 108>>, !.tok = <<0>>] ELSE JErr(s))
  ELSE JErr(s)
JHexDone(s, v) ==                     \* four hex digits of a \u escape read, value v
  IF s.hs # 0
  THEN (IF v >= 56320 /\ v <= 57343
        THEN [JPut(s, 65536 + (s.hs - 55296) * 1024 + (v - 56320)) EXCEPT !.hs = 0]
        ELSE JErr(s))
  ELSE IF v >= 55296 /\ v <= 56319 THEN [s EXCEPT !.hs = v, !.lex = "hs1"]
  ELSE IF v >= 56320 /\ v <= 57343 THEN JErr(s)
  ELSE JPut(s, v)
JStep(s, c) ==
  IF s.ph = "err" THEN s
  ELSE IF s.lex = "" THEN (IF s.ph = "done" /\ c \notin {32, 9, 10, 13} THEN JErr(s) ELSE JNormal(s, c))
  ELSE IF s.lex = "num" THEN
       (IF IsDigit(c)
        THEN (IF \/ (s.nd >= 1 /\ s.acc = 0)                                      \* leading zero
                 \/ s.nd >= 10 \/ (s.nd = 9 /\ (s.acc > 214748364 \/ (s.acc = 214748364 /\ c > 55)))   \* |n| >= 2^31: not modelled
              THEN JErr(s)
              ELSE [s EXCEPT !.acc = s.acc * 10 + (c - 48), !.nd = s.nd + 1])
        ELSE IF c \in {46, 101, 69} THEN JErr(s)                 \* fraction / exponent: not modelled
        ELSE LET f == JFinishNum(s) IN IF f.ph = "err" THEN f ELSE JNormal(f, c))
  ELSE IF s.lex = "lit" THEN
       (IF c = s.rem[1] THEN (IF Len(s.rem) = 1 THEN JValue(s, s.tok) ELSE [s EXCEPT !.rem = Tail(s.rem)])
        ELSE JErr(s))
  ELSE IF s.lex = "str" THEN
       (IF c = 34 THEN JEndString(s)
        ELSE IF c = 92 THEN [s EXCEPT !.lex = "esc"]
        ELSE IF c < 32 THEN JErr(s)                              \* control characters must be escaped
        ELSE IF c < 128 THEN JPut(s, c)
        ELSE IF c >= 194 /\ c <= 223 THEN [s EXCEPT !.lex = "utf", !.n = 1, !.acc = c - 192, !.lo = 128, !.hi = 191]
        ELSE IF c = 224 THEN [s EXCEPT !.lex = "utf", !.n = 2, !.acc = 0, !.lo = 160, !.hi = 191]
        ELSE IF c >= 225 /\ c <= 239 /\ c # 237 THEN [s EXCEPT !.lex = "utf", !.n = 2, !.acc = c - 224, !.lo = 128, !.hi = 191]
        ELSE IF c = 237 THEN [s EXCEPT !.lex = "utf", !.n = 2, !.acc = 13, !.lo = 128, !.hi = 159]
        ELSE IF c = 240 THEN [s EXCEPT !.lex = "utf", !.n = 3, !.acc = 0, !.lo = 144, !.hi = 191]
        ELSE IF c >= 241 /\ c <= 243 THEN [s EXCEPT !.lex = "utf", !.n = 3, !.acc = c - 240, !.lo = 128, !.hi = 191]
        ELSE IF c = 244 THEN [s EXCEPT !.lex = "utf", !.n = 3, !.acc = 4, !.lo = 128, !.hi = 143]
        ELSE JErr(s))
  ELSE IF s.lex = "utf" THEN
       (IF c >= s.lo /\ c <= s.hi
        THEN (IF s.n = 1 THEN JPut(s, s.acc * 64 + c - 128)
              ELSE [s EXCEPT !.n = s.n - 1, !.acc = s.acc * 64 + c - 128, !.lo = 128, !.hi = 191])
        ELSE JErr(s))
  ELSE IF s.lex = "esc" THEN
       (IF c = 34 THEN JPut(s, 34) ELSE IF c = 92 THEN JPut(s, 92) ELSE IF c = 47 THEN JPut(s, 47)
        ELSE IF c = 98 THEN JPut(s, 8) ELSE IF c = 102 THEN JPut(s, 12) ELSE IF c = 110 THEN JPut(s, 10)
        ELSE IF c = 114 THEN JPut(s, 13) ELSE IF c = 116 THEN JPut(s, 9)
        ELSE IF c = 117 THEN [s EXCEPT !.lex = "hex", !.n = 4, !.acc = 0]
        ELSE JErr(s))
  ELSE IF s.lex = "hex" THEN
       (IF IsHex(c)
        THEN (IF s.n = 1 THEN JHexDone(s, s.acc * 16 + HexV(c))
              ELSE [s EXCEPT !.n = s.n - 1, !.acc = s.acc * 16 + HexV(c)])
        ELSE JErr(s))
  ELSE IF s.lex = "hs1" THEN (IF c = 92 THEN [s EXCEPT !.lex = "hs2"] ELSE JErr(s))
  ELSE IF s.lex = "hs2" THEN (IF c = 117 THEN [s EXCEPT !.lex = "hex", !.n = 4, !.acc = 0] ELSE JErr(s))
  ELSE JErr(s)
JsonDec(text) ==
  LET s0 == FoldLeft(JStep, JInit, text)
      s == IF s0.ph # "err" /\ s0.lex = "num" THEN JFinishNum(s0) ELSE s0
  IN  IF s.ph = "done" /\ s.lex = "" THEN s.out ELSE JBad

\* a canonical rendering of a token sequence (used only to check JsonDec against itself in CodecMC)
JHex4(v) == <<HexDigit(v \div 4096), HexDigit((v \div 256) % 16), HexDigit((v \div 16) % 16), HexDigit(v % 16)>>
JRenderCp(cp) ==
  IF cp = 34 THEN <<92, 34>> ELSE IF cp = 92 THEN <<92, 92>>
  ELSE IF cp = 8 THEN <<92, 98>> ELSE IF cp = 12 THEN <<92, 102>> ELSE IF cp = 10 THEN <<92, 110>>
  ELSE IF cp = 13 THEN <<92, 114>> ELSE IF cp = 9 THEN <<92, 116>>
  ELSE IF cp < 32 \/ cp = 127 THEN <<92, 117>> \o JHex4(cp)
  ELSE IF cp < 128 THEN <<cp>>
  ELSE IF cp < 65536 THEN Utf8Of(cp)                               \* raw UTF-8
  ELSE <<92, 117>> \o JHex4(Utf16Units(cp)[1]) \o <<92, 117>> \o JHex4(Utf16Units(cp)[2])   \* surrogate pair
JRenderStr(cps) == <<34>> \o Cat([i \in 1..Len(cps) |-> JRenderCp(cps[i])]) \o <<34>>
DecDigits(n) == LET nd == IF n < 10 THEN 1 ELSE IF n < 100 THEN 2 ELSE IF n < 1000 THEN 3 ELSE IF n < 10000 THEN 4
                          ELSE IF n < 100000 THEN 5 ELSE IF n < 1000000 THEN 6 ELSE IF n < 10000000 THEN 7
                          ELSE IF n < 100000000 THEN 8 ELSE IF n < 1000000000 THEN 9 ELSE 10
                IN  [i \in 1..nd |-> 48 + ((n \div (10 ^ (nd - i))) % 10)]
JRenderTok(tok) ==
  IF tok[1] = 0 THEN <<110, 117, 108, 108>> ELSE IF tok[1] = 1 THEN <<102, 97, 108, 115, 101>>
  ELSE IF tok[1] = 2 THEN <<116, 114, 117, 101>>
  ELSE IF tok[1] = 3 THEN (IF tok[2] = 1 THEN <<45>> ELSE <<>>) \o DecDigits(tok[3])
  ELSE IF tok[1] = 4 THEN JRenderStr(Tail(tok))
  ELSE IF tok[1] = 5 THEN <<91>> ELSE IF tok[1] = 6 THEN <<93>>
  ELSE IF tok[1] = 7 THEN <<123>> ELSE IF tok[1] = 8 THEN <<125>>
  ELSE JRenderStr(Tail(tok)) \o <<58>>
\* a comma goes before every token that starts a value or member, except the first of its container
JNeedsComma(toks, i) == i > 1 /\ toks[i][1] \notin {6, 8} /\ toks[i - 1][1] \notin {5, 7, 9}
JRender(toks) == Cat([i \in 1..Len(toks) |-> (IF JNeedsComma(toks, i) THEN <<44>> ELSE <<>>) \o JRenderTok(toks[i])])

(***************************************************************************)
(* CSV (RFC 4180; a record ends with CRLF or LF, the last one may lack it).*)
(* A table is a sequence of rows, a row a non-empty sequence of fields, a  *)
(* field a byte sequence.  CsvDec(text) = the table, or CBad when the text *)
(* is not allowed by the grammar.                                          *)
(***************************************************************************)
CBad == << << <<-1>> >> >>
CInit == [rows |-> <<>>, row |-> <<>>, fld |-> <<>>, m |-> "start", fresh |-> TRUE]
CEndField(s) == [s EXCEPT !.row = Append(s.row, s.fld), !.fld = <<>>, !.m = "start", !.fresh = FALSE]
CEndRow(s, m) == [s EXCEPT !.rows = Append(s.rows, Append(s.row, s.fld)), !.row = <<>>, !.fld = <<>>, !.m = m, !.fresh = TRUE]
CStep(s, c) ==
  IF s.m = "err" THEN s
  ELSE IF s.m = "cr" THEN (IF c = 10 THEN [s EXCEPT !.m = "start"] ELSE [s EXCEPT !.m = "err"])
  ELSE IF s.m = "q" THEN (IF c = 34 THEN [s EXCEPT !.m = "qq"] ELSE [s EXCEPT !.fld = Append(s.fld, c)])
  ELSE IF c = 44 THEN CEndField(s)
  ELSE IF c = 13 THEN CEndRow(s, "cr")
  ELSE IF c = 10 THEN CEndRow(s, "start")
  ELSE IF c = 34 THEN (IF s.m = "start" THEN [s EXCEPT !.m = "q", !.fresh = FALSE]
                       ELSE IF s.m = "qq" THEN [s EXCEPT !.m = "q", !.fld = Append(s.fld, 34)]
                       ELSE [s EXCEPT !.m = "err"])
  ELSE IF s.m = "qq" THEN [s EXCEPT !.m = "err"]
  ELSE [s EXCEPT !.fld = Append(s.fld, c), !.m = "unq", !.fresh = FALSE]
CsvDec(text) ==
  LET s == FoldLeft(CStep, CInit, text) IN
  IF s.m \in {"err", "q", "cr"} THEN CBad
  ELSE IF s.fresh THEN s.rows
  ELSE Append(s.rows, Append(s.row, s.fld))
\* canonical rendering: every field quoted, CRLF after every record
CsvRenderField(f) == <<34>> \o Cat([i \in 1..Len(f) |-> IF f[i] = 34 THEN <<34, 34>> ELSE <<f[i]>>]) \o <<34>>
CsvRenderRow(r) == Cat([i \in 1..Len(r) |-> (IF i > 1 THEN <<44>> ELSE <<>>) \o CsvRenderField(r[i])]) \o <<13, 10>>
CsvRender(tab) == Cat([i \in 1..Len(tab) |-> CsvRenderRow(tab[i])])
=============================================================================
