SPECIFICATION Spec
CONSTANTS Programs <- Progs
          MaxSteps = 20000
          R2L = TRUE
INVARIANTS Verdict WindOrder
CHECK_DEADLOCK FALSE
