SPECIFICATION Spec
CONSTANTS
  Alphabet <- Boundary8
  NRegs = 1
  NCur = 1
  MaxLen = 3
  Lits <- LitsNone
  UsePorts = FALSE
  UseCursors = FALSE
VIEW View
INVARIANTS TypeOK LenIsCount Utf8RoundTrip CursorIndexBijection
PROPERTY ErrKeepsState
