------------------------------ MODULE StrEnum ------------------------------
(* Exhaustive small case enumerations for the C12 replay, computed by TLC from the definitions of Str
   and written as JSON files into $ENUMDIR (python only cuts them into driver scripts):
     SET    every string of length 1..3 over the boundary alphabet x every position x every replacement
            character (all width changes at first / middle / last position), with the string's bytes
     SET4   length 4 over one representative per width class (thorough tier)
     READER every string of length 0..2 over the reader alphabet (escape and raw literal syntax)
     ERR    the error-class calls enabled in EnumInit: the labels of all Str actions that must raise,
            found by a one-step model-checking run (see StrEnumErr.cfg) *)
EXTENDS StrMC, Json, IOUtils
StrsOver(A, lo, hi) == UNION {[1..m -> A] : m \in lo..hi}
SetCases(A, lo, hi) == UNION {{<<s, i, c, Utf8Seq(s)>> : i \in 0..(Len(s) - 1), c \in A} : s \in StrsOver(A, lo, hi)}
ReaderAlphabet == Boundary8 \cup {0, 1, 32, 129, 255, 256, 55295, 57344, 65533}
\* the encoding lemmas of Str on every string of length <= 3 over the boundary alphabet (585 strings),
\* evaluated outright (the model-checking configurations reach only some of them with small alphabets)
ASSUME LenIsCountOn(StrsOver(Boundary8, 0, 3))
ASSUME Utf8RoundTripOn(StrsOver(Boundary8, 0, 3))
ASSUME CursorIndexBijectionOn(StrsOver(Boundary8, 0, 3))
ASSUME \A c \in Boundary8 \cup ReaderAlphabet : IsScalar(c) /\ Len(Utf8(c)) = Width(c) /\ Decode(Utf8(c)) = <<c>>
\* malformed byte sequences are not decoded: stray continuation, truncation, overlong, surrogate, > U+10FFFF
ASSUME \A b \in {<<128>>, <<194>>, <<224, 160>>, <<192, 128>>, <<224, 128, 128>>, <<240, 128, 128, 128>>,
                  <<237, 160, 128>>, <<244, 144, 128, 128>>, <<245, 128, 128, 128>>, <<65, 191>>} : ~WellFormed(b)
Out(name) == IOEnv.ENUMDIR \o "/" \o name \o ".json"
ASSUME JsonSerialize(Out("SET"), SetToSeq(SetCases(Boundary8, 1, 3)))
ASSUME JsonSerialize(Out("SET4"), SetToSeq(SetCases(Classes4, 4, 4)))
\* CMP    every ordered pair of strings of length 0..2 over an alphabet with U+0000 and all four widths
CmpAlphabet == {0, 65, 66, 128, 2048, 65536, 1114111}
ASSUME JsonSerialize(Out("CMP"), SetToSeq(StrsOver(CmpAlphabet, 0, 2) \X StrsOver(CmpAlphabet, 0, 2)))
ASSUME JsonSerialize(Out("READER"), SetToSeq(StrsOver(ReaderAlphabet, 0, 2)))

\* COPY   string-copy! on every arrangement of the four width classes (length 4) and one string of length 5:
\*        every in-domain (at, start, end) -- the aliased call (to = from, all overlaps in both directions)
\*        and the same call from a distinct source
Perm4 == {s \in [1..4 -> Classes4] : \A i \in 1..4, j \in 1..4 : i # j => s[i] # s[j]}
CopyStrings == Perm4 \cup {<<65, 233, 8364, 128512, 66>>}
CopyCases == UNION {{<<s, at, a, b>> : at \in 0..Len(s), a \in 0..Len(s), b \in 0..Len(s)} : s \in CopyStrings}
ASSUME JsonSerialize(Out("COPY"), SetToSeq({c \in CopyCases : c[3] <= c[4] /\ c[2] + (c[4] - c[3]) <= Len(c[1])}))
\* UTF8   every pair of character positions of the four-character literals, as byte offsets for utf8->string
\*        <<literal source, i, j, byte offset of i, byte offset of j>>
Utf8Cases == UNION {{<<LitBase + k, i, j, ByteOff(Lits[k], i), ByteOff(Lits[k], j)>> : i \in 0..Len(Lits[k]), j \in 0..Len(Lits[k])} : k \in 5..8}
ASSUME JsonSerialize(Out("UTF8"), SetToSeq({c \in Utf8Cases : c[2] <= c[3]}))

\* LONGSET strings around the 64-character chunk boundaries of the index table / ref cache: make-string of
\*        length L with a character of every width, string-set! of every width at the chunk positions
\*        (the driver then reads back every index)  <<L, fill, position, replacement>>
LongLens == {63, 64, 65, 77, 128, 129, 130, 192, 200}
ASSUME JsonSerialize(Out("LONGSET"), SetToSeq(UNION {{<<n, c1, i, c2>> : c1 \in Classes4, c2 \in Classes4, i \in {0, 63, 64, 127, 128, n - 1} \cap 0..(n - 1)} : n \in LongLens}))

\* --- error-class enumeration: one step from a loaded state
EnumRegs == << <<65, 128, 2048, 65536>>, <<1114111>> >>
\* the steps that load EnumInit (replayed before every error case)
ErrPrefix == << <<"FromList", <<1>>, EnumRegs[1]>>, <<"FromList", <<2>>, EnumRegs[2]>>,
                <<"CurEnd", <<1, 16>>, <<>> >>, <<"CurFromIndex", <<2, 1, 3>>, <<>> >>,
                <<"OpenIn", <<12>>, <<>> >>, <<"OpenOut", <<>>, <<>> >> >>
ASSUME JsonSerialize(Out("ERRPREFIX"), ErrPrefix)
EnumInit == /\ reg = [r \in Regs |-> EnumRegs[r]]
            /\ cur = [k \in Curs |-> IF k = 1 THEN <<16, 4>> ELSE <<1, 3>>]
            /\ inp = [open |-> TRUE, s |-> 12, rest |-> Lits[2]]
            /\ outp = [open |-> TRUE, acc |-> <<>>]
            /\ res = NoRes /\ act = NoAct
EnumSpec == EnumInit /\ [][Next]_vars
OneStep == TLCGet("level") < 2
PrintErr == res.err => PrintT(<<"ENUM", "ERR", ToJson(<<act.op, act.a, act.l>>)>>)
=============================================================================
