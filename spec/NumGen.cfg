SPECIFICATION Spec
CONSTANTS W = 10
 FixBits = 62
 KS <- KQuick
 Words <- WQuick
