------------------------------ MODULE StrGen ------------------------------
(* History generation for the C12 replay: TLC -simulate walks Str's actions; which operation and which
   arguments is drawn with RandomElement (seeded by TLC's -seed), biased towards the cases the property
   singles out -- width-changing string-set! at first / middle / last position, aliasing string-copy!,
   optional-argument forms, a few error-class calls -- and the action itself decides whether the draw
   is enabled (a disabled draw is a skipped tick).  The labels of the steps taken are collected in
   `hist` and printed as JSON at depth D.  Profile: "main" | "long" (big strings, index-heavy). *)
EXTENDS StrMC, Json
CONSTANTS D, MaxSteps, Profile
VARIABLES hist, tick
gvars == <<vars, hist, tick>>

Rnd(S) == RandomElement(IF tick >= 0 THEN S ELSE {})      \* mentions a variable: re-drawn every time
Long == Profile = "long"
RReg == Rnd(Regs)
RSrc == IF Len(Lits) > 0 /\ Rnd(1..3) = 1 THEN Rnd(LitSrc) ELSE Rnd(Regs)
RChr == Rnd(Alphabet)
\* an index into a string of length n: first / last / middle, now and then just outside
PIdx(n) == LET k == Rnd(1..16) IN
           IF k = 1 THEN -1 ELSE IF k = 2 THEN n ELSE IF k = 3 THEN n + 1
           ELSE IF k \in 4..6 \/ n = 0 THEN 0 ELSE IF k \in 7..9 THEN n - 1 ELSE Rnd(0..(n - 1))
\* a position 0..n
PPos(n) == LET k == Rnd(1..6) IN IF k = 1 THEN 0 ELSE IF k = 2 THEN n ELSE Rnd(0..n)
\* an end position for start a in a string of length n (now and then out of range)
PEnd(a, n) == LET k == Rnd(1..14) IN
              IF k = 1 THEN n + 1 ELSE IF k = 2 /\ a > 0 THEN a - 1 ELSE IF a >= n THEN n ELSE Rnd(a..n)
PEndOK(a, n) == IF a >= n THEN n ELSE Rnd(a..n)
RStr == LET n == Rnd(0..(IF Long THEN 6 ELSE 4)) IN [k \in 1..n |-> Rnd(Alphabet)]
RCur == Rnd(Curs)
\* cursors live longest on literals (never overwritten)
RCSrc == IF Len(Lits) > 0 /\ Rnd(1..2) = 1 THEN Rnd(LitSrc) ELSE Rnd(Regs)

GenStep ==
   \E kind \in {Rnd(1..120)} :
   \/ /\ kind \in 1..4
      /\ \E r \in {RReg}, n \in {IF Long THEN Rnd(0..(MaxLen \div 2)) ELSE Rnd(-1..4)}, c \in {RChr} : MakeString(r, n, c)
   \/ /\ kind \in 5..9
      /\ \E r \in {RReg}, l \in {RStr}, w \in {Rnd(1..5)} :
            \/ w = 1 /\ FromList(r, l)
            \/ w = 2 /\ StringOf(r, l)
            \/ w = 3 /\ FromBytes(r, Utf8Seq(l))
            \/ w = 4 /\ \E a \in {PPos(Len(l))} : \E b \in {PEnd(a, Len(l))} : FromVector(r, l, a, b)
            \/ w = 5 /\ \E v \in {Rnd(0..1)} : ReadRaw(r, v, l)
   \/ /\ kind \in 10..12
      /\ \E r \in {RReg}, s \in {RSrc} : \E i \in {PPos(Len(Src(s)))} : \E j \in {PEndOK(i, Len(Src(s)))} :
            FromUtf8(r, s, ByteOff(Src(s), i), ByteOff(Src(s), j))
   \/ /\ kind = 13 /\ \E s \in {RSrc} : Length(s)
   \/ /\ kind \in 14..17 /\ \E s \in {RSrc} : \E i \in {PIdx(Len(Src(s)))} : Ref(s, i)
   \/ /\ kind \in 18..31 /\ \E r \in {RReg}, c \in {RChr} : \E i \in {PIdx(Len(reg[r]))} : Set(r, i, c)
   \/ /\ kind \in 32..34
      /\ \E r \in {RReg}, s \in {RSrc} : \E a \in {PPos(Len(Src(s)))} : \E b \in {PEnd(a, Len(Src(s)))} : Substring(r, s, a, b)
   \/ /\ kind \in 35..37
      /\ \E r \in {RReg}, s \in {RSrc}, f \in {Rnd(0..2)} :
         \E a \in {IF f = 0 THEN 0 ELSE PPos(Len(Src(s)))} :
         \E b \in {IF f <= 1 THEN Len(Src(s)) ELSE PEnd(a, Len(Src(s)))} : Copy(r, s, f, a, b)
   \/ /\ kind \in 38..41
      /\ \E r \in {RReg}, s1 \in {RSrc}, s2 \in {RSrc}, s3 \in {RSrc}, w \in {Rnd(1..3)} :
            IF w = 1 THEN Append3(r, s1, s2, s3) ELSE Append2(r, s1, s2)
   \/ /\ kind \in 42..50          \* string-copy!, half of the time onto itself
      /\ \E t \in {RReg}, al \in {Rnd(1..2)}, f \in {Rnd(0..2)} :
         \E s \in {IF al = 1 THEN t ELSE RSrc} :
         \E a \in {IF f = 0 THEN 0 ELSE PPos(Len(Src(s)))} :
         \E b \in {IF f <= 1 THEN Len(Src(s)) ELSE PEndOK(a, Len(Src(s)))} :
         \E at \in {IF Len(reg[t]) - (b - a) >= 0 THEN Rnd(0..(Len(reg[t]) - (b - a))) ELSE 0} :
            CopyBang(t, at, s, f, a, b)
   \/ /\ kind \in 51..54
      /\ \E r \in {RReg}, c \in {RChr}, f \in {Rnd(0..2)} :
         \E a \in {IF f = 0 THEN 0 ELSE PPos(Len(reg[r]))} :
         \E b \in {IF f <= 1 THEN Len(reg[r]) ELSE PEndOK(a, Len(reg[r]))} : Fill(r, c, f, a, b)
   \/ /\ kind \in 55..59
      /\ \E s \in {RSrc}, f \in {Rnd(0..2)}, w \in {Rnd(1..3)} :
         \E a \in {IF f = 0 THEN 0 ELSE PPos(Len(Src(s)))} :
         \E b \in {IF f <= 1 THEN Len(Src(s)) ELSE PEnd(a, Len(Src(s)))} :
            IF w = 1 THEN ToList(s, f, a, b) ELSE IF w = 2 THEN ToVector(s, f, a, b) ELSE ToUtf8(s, f, a, b)
   \/ /\ kind \in 60..62 /\ \E s1 \in {RSrc}, s2 \in {RSrc} : Cmp(s1, s2)
   \/ /\ kind \in 63..65
      /\ \E r \in {RReg}, s \in {RSrc}, w \in {Rnd(0..4)} : \E n \in {Rnd(0..Len(Src(s)))} :
            IF w = 4 THEN StrReverse(r, s) ELSE TakeDrop(r, s, w, n)
   \* cursors
   \/ /\ kind \in 66..73
      /\ \E k \in {RCur}, s \in {RCSrc}, w \in {Rnd(1..5)}, c \in {RChr} : \E i \in {PIdx(Len(Src(s)) + 1)} :
            \/ w = 1 /\ CurStart(k, s)
            \/ w = 2 /\ CurEnd(k, s)
            \/ w = 3 /\ CurFromIndex(k, s, i)
            \/ w = 4 /\ IndexOf(k, s, c)
            \/ w = 5 /\ IndexRight(k, s, c)
   \/ /\ kind \in 74..85
      /\ \E k \in {RCur}, w \in {Rnd(1..4)}, n \in {Rnd(0..3)} :
            \/ w = 1 /\ CurNext(k)
            \/ w = 2 /\ CurPrev(k)
            \/ w = 3 /\ CurForward(k, n)
            \/ w = 4 /\ CurBack(k, n)
   \/ /\ kind \in 86..92 /\ \E k \in {RCur}, w \in {Rnd(1..2)} : IF w = 1 THEN CurRef(k) ELSE CurInfo(k)
   \/ /\ kind \in 93..94 /\ \E k1 \in {RCur}, k2 \in {RCur} : CurCmp(k1, k2)
   \/ /\ kind \in 95..97 /\ \E r \in {RReg}, k1 \in {RCur}, k2 \in {RCur} : SubstringCursor(r, k1, k2)
   \/ /\ kind = 98 /\ \E k \in {RCur}, s \in {RSrc}, w \in {Rnd(1..2)} : IF w = 1 THEN CurRefOn(k, s) ELSE CurIndexOn(k, s)
   \* ports
   \/ /\ kind \in 99..101 /\ \E s \in {RSrc} : OpenIn(s)
   \/ /\ kind \in 102..108 /\ \E w \in {Rnd(1..3)}, r \in {RReg}, n \in {Rnd(1..4)} :
            \/ w = 1 /\ ReadChar
            \/ w = 2 /\ PeekChar
            \/ w = 3 /\ ReadString(r, n)
   \/ /\ kind \in 109..110 /\ OpenOut
   \/ /\ kind \in 111..116
      /\ \E w \in {Rnd(1..3)}, c \in {RChr}, s \in {RSrc}, f \in {Rnd(0..2)} :
         \E a \in {IF f = 0 THEN 0 ELSE PPos(Len(Src(s)))} :
         \E b \in {IF f <= 1 THEN Len(Src(s)) ELSE PEndOK(a, Len(Src(s)))} :
            IF w = 1 THEN WriteChar(c) ELSE WriteString(s, f, a, b)
   \/ /\ kind \in 117..118 /\ \E r \in {RReg} : GetOut(r)
   \/ /\ kind \in 119..120 /\ \E r \in {RReg}, s \in {RSrc} : FileRT(r, s)

GenInit == Init /\ hist = <<>> /\ tick = 0
GenNext == \/ Len(hist) < MaxSteps /\ GenStep /\ hist' = Append(hist, <<act'.op, act'.a, act'.l>>) /\ tick' = tick + 1
           \/ UNCHANGED <<vars, hist>> /\ tick' = tick + 1      \* the draw was disabled, or the history is full
GenSpec == GenInit /\ [][GenNext]_gvars
Dump == (TLCGet("level") = D) => PrintT(<<"HIST", ToJson(hist)>>)
=========================================================================
