---------------------------- MODULE Hygiene ----------------------------
(* C07: what a program that uses syntax-rules macros MEANS.

   A definitional macro expander from S-expressions to the expression language of Core.tla, by the
   marks-and-substitutions ("renaming") algorithm in its eager form:

     * an identifier is  <<"sym", name, marks, label>> ; marks = the set of expansion steps that
       INTRODUCED it (an identifier copied from a template gets the mark of that expansion step, an
       identifier that came in through a pattern variable keeps its marks), label = the binding it
       refers to ("" = none yet: it refers to whatever the name means at top level);
     * a binding form (lambda, letrec, let-syntax, letrec-syntax) creates one fresh label per bound
       identifier and substitutes it, in its scope, for every identifier with the SAME NAME AND THE SAME
       MARKS (bound-identifier=?), before the scope is expanded; an inner binding, processed later,
       overrides; a macro template lives where the macro was defined, so the identifiers it inserts
       carry the labels visible THERE (referential transparency), and because they carry a new mark,
       binders they introduce never capture identifiers supplied by the macro user (hygiene);
     * pattern literals match by free-identifier=? (same label, or both unbound with the same name).

   Labels and marks are POSITIONS (paths into the expansion), never names, so that the expansion of a
   program and of any consistently renamed copy are literally equal terms: that is the theorem
   RenamingInvariant checked by TLC for every generated program and renaming (HygRun.tla), and the
   expansion is then run on the Core machine and compared with what the real interpreter printed.

   The derived forms (let, let*, named let, and, or, cond, when, unless, do) are NOT built in: they are
   given to the expander as syntax-rules macros exactly as R7RS 7.3 defines them (spec/r7rs-derived.scm).

   S-expressions:  <<"sym",name>> (input) / <<"sym",name,marks,label>>, <<"int",n>>, <<"bool",0|1>>, <<"list",<<...>>>> *)
EXTENDS Integers, Sequences, FiniteSets, TLC, SequencesExt

IsSym(x) == x[1] = "sym"
IsLst(x) == x[1] = "list"

RECURSIVE Norm(_)
Norm(x) == CASE x[1] = "sym" -> <<"sym", x[2], {}, "">>
             [] x[1] = "list" -> <<"list", [i \in 1..Len(x[2]) |-> Norm(x[2][i])]>>
             [] OTHER -> x

\* consistent renaming of user identifiers in a source program: r = sequence of <<from, to>>
RECURSIVE Rename(_, _)
Rename(x, r) == CASE x[1] = "sym" -> IF \E i \in 1..Len(r) : r[i][1] = x[2]
                                      THEN <<"sym", r[CHOOSE i \in 1..Len(r) : r[i][1] = x[2]][2]>> ELSE x
                  [] x[1] = "list" -> <<"list", [i \in 1..Len(x[2]) |-> Rename(x[2][i], r)]>>
                  [] OTHER -> x

Key(id) == <<id[2], id[3]>>                                   \* bound-identifier=? : same name, same marks
Resolve(id) == IF id[4] # "" THEN id[4] ELSE "g:" \o id[2]    \* free-identifier=? : same binding
IsEll(x) == IsSym(x) /\ x[2] = "..." /\ x[4] = ""
IsAny(x) == IsSym(x) /\ x[2] = "_" /\ x[4] = ""

RECURSIVE Subst(_, _, _, _)
Subst(x, n, m, lab) ==
   CASE IsSym(x) -> IF x[2] = n /\ x[3] = m THEN <<"sym", n, m, lab>> ELSE x
     [] IsLst(x) -> <<"list", [i \in 1..Len(x[2]) |-> Subst(x[2][i], n, m, lab)]>>
     [] OTHER -> x
RECURSIVE SubstAll(_, _, _, _)
SubstAll(x, ids, labs, i) == IF i > Len(ids) THEN x ELSE SubstAll(Subst(x, ids[i][2], ids[i][3], labs[i]), ids, labs, i + 1)

\* quoted data: identifiers lose marks and labels
RECURSIVE Datum(_)
RECURSIVE DatumList(_, _)
Datum(x) == CASE IsSym(x) -> <<"s", x[2]>>
              [] x[1] = "int" -> <<"i", x[2]>>
              [] x[1] = "bool" -> <<"b", x[2]>>
              [] IsLst(x) -> DatumList(x[2], 1)
DatumList(xs, i) == IF i > Len(xs) THEN <<"nil">> ELSE <<"p", Datum(xs[i]), DatumList(xs, i + 1)>>

\* ---------------------------------------------------------------- syntax-rules: matching
Fail == [ok |-> FALSE, b |-> <<>>]
EmptyB == [kk \in {} |-> <<>>]
Ok(b) == [ok |-> TRUE, b |-> b]
Merge(b1, b2) == [kk \in DOMAIN b1 \cup DOMAIN b2 |-> IF kk \in DOMAIN b2 THEN b2[kk] ELSE b1[kk]]
InLits(p, lits) == \E i \in 1..Len(lits) : Key(lits[i]) = Key(p)
EllPos(ps) == IF \E i \in 1..(Len(ps) - 1) : IsEll(ps[i + 1])
              THEN CHOOSE i \in 1..(Len(ps) - 1) : IsEll(ps[i + 1]) /\ \A j \in 1..(i - 1) : ~IsEll(ps[j + 1])
              ELSE 0

RECURSIVE PatVars(_, _)
PatVars(p, lits) == CASE IsSym(p) -> IF InLits(p, lits) \/ IsEll(p) \/ IsAny(p) THEN {} ELSE {Key(p)}
                      [] IsLst(p) -> UNION {PatVars(p[2][i], lits) : i \in 1..Len(p[2])}
                      [] OTHER -> {}

\* a binding is <<"one", sx>> or <<"many", <<binding, ...>>>>
RECURSIVE Match(_, _, _)
RECURSIVE MatchSeq(_, _, _)
Match(p, f, lits) ==
   CASE IsSym(p) ->
          IF InLits(p, lits) THEN (IF IsSym(f) /\ Resolve(f) = Resolve(p) THEN Ok(EmptyB) ELSE Fail)
          ELSE IF IsAny(p) THEN Ok(EmptyB)
          ELSE Ok([kk \in {Key(p)} |-> <<"one", f>>])
     [] IsLst(p) ->
          IF ~IsLst(f) THEN Fail
          ELSE LET ps == p[2]
                   fs == f[2]
                   e == EllPos(ps)
               IN IF e = 0 THEN (IF Len(ps) # Len(fs) THEN Fail ELSE MatchSeq(ps, fs, lits))
                  ELSE LET nb == e - 1
                           na == Len(ps) - e - 1
                           nm == Len(fs) - nb - na
                       IN IF nm < 0 THEN Fail
                          ELSE LET before == MatchSeq(SubSeq(ps, 1, nb), SubSeq(fs, 1, nb), lits)
                                   after == MatchSeq(SubSeq(ps, e + 2, Len(ps)), SubSeq(fs, nb + nm + 1, Len(fs)), lits)
                                   mids == [j \in 1..nm |-> Match(ps[e], fs[nb + j], lits)]
                                   vars == PatVars(ps[e], lits)
                               IN IF ~before.ok \/ ~after.ok \/ (\E j \in 1..nm : ~mids[j].ok) THEN Fail
                                  ELSE Ok(Merge(Merge(before.b, [kk \in vars |-> <<"many", [j \in 1..nm |-> mids[j].b[kk]]>>]), after.b))
     [] OTHER -> IF p[1] = f[1] /\ p = f THEN Ok(EmptyB) ELSE Fail          \* numbers, booleans, strings
MatchSeq(ps, fs, lits) ==
   IF ps = <<>> THEN Ok(EmptyB)
   ELSE LET h == Match(ps[1], fs[1], lits) IN
        IF ~h.ok THEN Fail
        ELSE LET t == MatchSeq(Tail(ps), Tail(fs), lits) IN IF ~t.ok THEN Fail ELSE Ok(Merge(h.b, t.b))

\* ---------------------------------------------------------------- syntax-rules: instantiation
RECURSIVE TmplVars(_)
TmplVars(t) == CASE IsSym(t) -> {Key(t)}
                 [] IsLst(t) -> UNION {TmplVars(t[2][i]) : i \in 1..Len(t[2])}
                 [] OTHER -> {}
RECURSIVE Inst(_, _, _)
RECURSIVE InstSeq(_, _, _, _)
Inst(t, b, mark) ==
   CASE IsSym(t) -> IF Key(t) \in DOMAIN b THEN b[Key(t)][2]                    \* supplied by the user of the macro: untouched
                    ELSE <<"sym", t[2], t[3] \cup {mark}, t[4]>>                 \* inserted by the macro: marked, label of the definition site
     [] IsLst(t) -> <<"list", InstSeq(t[2], 1, b, mark)>>
     [] OTHER -> t
InstSeq(ts, i, b, mark) ==
   IF i > Len(ts) THEN <<>>
   ELSE IF i < Len(ts) /\ IsEll(ts[i + 1])
   THEN LET vars == {kk \in TmplVars(ts[i]) : kk \in DOMAIN b /\ b[kk][1] = "many"}
            n == IF vars = {} THEN 0 ELSE Len(b[CHOOSE kk \in vars : TRUE][2])
        IN [j \in 1..n |-> Inst(ts[i], [kk \in DOMAIN b |-> IF kk \in vars THEN b[kk][2][j] ELSE b[kk]], mark)]
           \o InstSeq(ts, i + 2, b, mark)
   ELSE <<Inst(ts[i], b, mark)>> \o InstSeq(ts, i + 1, b, mark)

\* spec = (syntax-rules (literal ...) (pattern template) ...); the keyword position of a pattern is ignored
RECURSIVE TryRules(_, _, _, _, _)
TryRules(rules, i, lits, form, mark) ==
   IF i > Len(rules) THEN <<"nomatch">>
   ELSE LET pat == rules[i][2][1]
            tmpl == rules[i][2][2]
            m == Match(<<"list", Tail(pat[2])>>, <<"list", Tail(form[2])>>, lits)
        IN IF m.ok THEN Inst(tmpl, m.b, mark) ELSE TryRules(rules, i + 1, lits, form, mark)
Transcribe(spec, form, mark) == TryRules(SubSeq(spec[2], 3, Len(spec[2])), 1, spec[2][2][2], form, mark)

\* ---------------------------------------------------------------- expansion into Core.tla expressions
PrimNames == {"+", "-", "*", "quotient", "remainder", "=", "<", ">", "<=", "zero?", "not", "cons", "car", "cdr", "null?", "pair?",
              "procedure?", "eq?", "eqv?", "equal?", "list", "length", "append", "reverse"}
VarLabel(path, i) == "v" \o ToString(path) \o "#" \o ToString(i)
KwLabel(path, i) == "m" \o ToString(path) \o "#" \o ToString(i)
ExpErr(msg) == <<"experr", msg>>
VoidC == <<"const", <<"void">>>>

RECURSIVE Exp(_, _, _)
RECURSIVE ExpBody(_, _, _)
ExpBody(es, menv, path) ==
   IF Len(es) = 1 THEN Exp(es[1], menv, path \o <<1>>)
   ELSE <<"begin", [i \in 1..Len(es) |-> Exp(es[i], menv, path \o <<i>>)]>>
Exp(x, menv, path) ==
   CASE x[1] = "int" -> <<"const", <<"i", x[2]>>>>
     [] x[1] = "bool" -> <<"const", <<"b", x[2]>>>>
     [] IsSym(x) -> IF Resolve(x) \in DOMAIN menv THEN ExpErr("keyword used as a variable")
                    ELSE IF x[4] # "" THEN <<"var", x[4]>> ELSE <<"var", "g:" \o x[2]>>
     [] IsLst(x) ->
          LET xs == x[2]
              n == Len(xs)
              h == IF n > 0 THEN xs[1] ELSE <<"int", 0>>
              r == IF n > 0 /\ IsSym(h) THEN Resolve(h) ELSE ""
              args == [i \in 1..(n - 1) |-> Exp(xs[i + 1], menv, path \o <<i + 1>>)]
          IN
          IF n = 0 THEN ExpErr("empty application")
          ELSE IF r \in DOMAIN menv
          THEN LET tx == Transcribe(menv[r], x, path) IN
               IF tx = <<"nomatch">> THEN ExpErr("no rule matches") ELSE Exp(tx, menv, path \o <<0>>)
          ELSE IF r = "g:quote" THEN <<"const", Datum(xs[2])>>
          ELSE IF r = "g:if" THEN <<"if", Exp(xs[2], menv, path \o <<1>>), Exp(xs[3], menv, path \o <<2>>),
                                   IF n = 4 THEN Exp(xs[4], menv, path \o <<3>>) ELSE VoidC>>
          ELSE IF r = "g:begin" THEN (IF n = 1 THEN VoidC ELSE ExpBody(Tail(xs), menv, path))
          ELSE IF r = "g:emit" THEN <<"emit", Exp(xs[2], menv, path \o <<1>>)>>
          ELSE IF r = "g:set!"
          THEN (IF IsSym(xs[2]) /\ xs[2][4] # "" /\ xs[2][4] \notin DOMAIN menv
                THEN <<"set", xs[2][4], Exp(xs[3], menv, path \o <<1>>)>> ELSE ExpErr("set! of an unbound or syntactic identifier"))
          ELSE IF r = "g:lambda"
          THEN LET fm == xs[2]
                   ps == IF IsLst(fm) THEN fm[2] ELSE <<>>
                   all == IF IsSym(fm) THEN <<fm>> ELSE ps
                   labs == [i \in 1..Len(all) |-> VarLabel(path, i)]
                   body == [i \in 1..(n - 2) |-> SubstAll(xs[i + 2], all, labs, 1)]
               IN IF \E i \in 1..Len(all) : ~IsSym(all[i]) THEN ExpErr("lambda: a formal is not an identifier")
                  ELSE <<"lam", SubSeq(labs, 1, Len(ps)), IF IsSym(fm) THEN labs[1] ELSE "", ExpBody(body, menv, path)>>
          ELSE IF r \in {"g:letrec", "g:letrec*"}
          THEN LET bs == xs[2][2]
                   names == [i \in 1..Len(bs) |-> bs[i][2][1]]
                   labs == [i \in 1..Len(bs) |-> VarLabel(path, i)]
                   inits == [i \in 1..Len(bs) |-> Exp(SubstAll(bs[i][2][2], names, labs, 1), menv, path \o <<1000 + i>>)]
                   body == [i \in 1..(n - 2) |-> SubstAll(xs[i + 2], names, labs, 1)]
               IN IF \E i \in 1..Len(bs) : ~IsSym(names[i]) THEN ExpErr("letrec: a bound name is not an identifier")
                  ELSE <<"letrec", labs, inits, ExpBody(body, menv, path)>>
          ELSE IF r \in {"g:let-syntax", "g:letrec-syntax"}
          THEN LET bs == xs[2][2]
                   kws == [i \in 1..Len(bs) |-> bs[i][2][1]]
                   labs == [i \in 1..Len(bs) |-> KwLabel(path, i)]
                   specs == [i \in 1..Len(bs) |-> IF r = "g:letrec-syntax" THEN SubstAll(bs[i][2][2], kws, labs, 1) ELSE bs[i][2][2]]
                   body == [i \in 1..(n - 2) |-> SubstAll(xs[i + 2], kws, labs, 1)]
                   menv2 == [kk \in DOMAIN menv \cup {labs[i] : i \in 1..Len(bs)} |->
                               IF \E i \in 1..Len(bs) : labs[i] = kk THEN specs[CHOOSE i \in 1..Len(bs) : labs[i] = kk] ELSE menv[kk]]
               IN ExpBody(body, menv2, path)
          ELSE IF IsSym(h) /\ h[4] = "" /\ h[2] \in PrimNames THEN <<"prim", h[2], args>>
          ELSE <<"app", Exp(h, menv, path \o <<1>>), args>>
     [] OTHER -> ExpErr("not an expression")

\* equality of Core expressions that is safe on terms of different shape (TLC's = is not)
RECURSIVE ValEq(_, _)
ValEq(a, b) == a[1] = b[1] /\ CASE a[1] \in {"i", "b", "s"} -> a[2] = b[2]
                                [] a[1] = "p" -> ValEq(a[2], b[2]) /\ ValEq(a[3], b[3])
                                [] OTHER -> TRUE
RECURSIVE CoreEq(_, _)
AllEq(as, bs) == Len(as) = Len(bs) /\ \A i \in 1..Len(as) : CoreEq(as[i], bs[i])
CoreEq(a, b) ==
   a[1] = b[1] /\
   CASE a[1] = "const" -> ValEq(a[2], b[2])
     [] a[1] = "var" -> a[2] = b[2]
     [] a[1] = "lam" -> a[2] = b[2] /\ a[3] = b[3] /\ CoreEq(a[4], b[4])
     [] a[1] = "app" -> CoreEq(a[2], b[2]) /\ AllEq(a[3], b[3])
     [] a[1] = "if" -> CoreEq(a[2], b[2]) /\ CoreEq(a[3], b[3]) /\ CoreEq(a[4], b[4])
     [] a[1] = "set" -> a[2] = b[2] /\ CoreEq(a[3], b[3])
     [] a[1] = "begin" -> AllEq(a[2], b[2])
     [] a[1] = "letrec" -> a[2] = b[2] /\ AllEq(a[3], b[3]) /\ CoreEq(a[4], b[4])
     [] a[1] = "prim" -> a[2] = b[2] /\ AllEq(a[3], b[3])
     [] a[1] = "emit" -> CoreEq(a[2], b[2])
     [] a[1] = "experr" -> TRUE
     [] OTHER -> FALSE

RECURSIVE HasErr(_)
AnyErr(cs) == \E i \in 1..Len(cs) : HasErr(cs[i])
HasErr(c) == CASE c[1] = "experr" -> TRUE
               [] c[1] \in {"const", "var"} -> FALSE
               [] c[1] = "lam" -> HasErr(c[4])
               [] c[1] = "app" -> HasErr(c[2]) \/ AnyErr(c[3])
               [] c[1] = "if" -> HasErr(c[2]) \/ HasErr(c[3]) \/ HasErr(c[4])
               [] c[1] = "set" -> HasErr(c[3])
               [] c[1] = "begin" -> AnyErr(c[2])
               [] c[1] = "letrec" -> AnyErr(c[3]) \/ HasErr(c[4])
               [] c[1] = "prim" -> AnyErr(c[3])
               [] c[1] = "emit" -> HasErr(c[2])
               [] OTHER -> TRUE
=========================================================================
