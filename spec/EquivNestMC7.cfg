SPECIFICATION Spec
CONSTANTS MaxK = 7
INVARIANTS InvRuleIsBisimulation InvRuleIsUnfolding InvBoundedHash InvLeafBelowK InvDeclared
