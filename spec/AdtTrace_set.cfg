SPECIFICATION TraceSpec
CONSTANTS Kind = "set"
          Keys = {0, 1, 2, 3, 4, 5, 6, 7, 8, 9, 10, 11, 12, 13, 14, 15}
          M = 16
          MaxVer = 0
          KLen = 4
          GenDepth = 0
POSTCONDITION Accepted
CHECK_DEADLOCK FALSE
