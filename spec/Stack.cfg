SPECIFICATION Spec
CONSTANTS InitLen = 1024
          MaxLen = 1024000
          FrameMin = 2
          FrameMax = 24
POSTCONDITION Accepted
CHECK_DEADLOCK FALSE
