SPECIFICATION Spec
CONSTANTS Sigma = {97, 10}
          MaxLen = 4
          Level = 1
          Fam = "anchor"
INVARIANTS TwoFormulations SearchIsContextMatch SearchFromMatch GroupsWF ReportSound ReportRejectsNonMatch Laws
CHECK_DEADLOCK FALSE
