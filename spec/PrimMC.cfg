SPECIFICATION Spec
CONSTANTS DoDump = FALSE
 Vals <- MCVals
INVARIANTS Shape
CONSTRAINT MCConstraint
