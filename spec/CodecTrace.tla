----------------------------- MODULE CodecTrace -----------------------------
(* Judges recorded runs of harness/scm/codec.scm against Codec.

   Trace: {"e":"B","id":n} opens case n, {"e":"C","id":n,"kind":kind,...} records its results,
   {"e":"Done"} = the driver reached the end of its input, {"e":"X","rc":r,"to":t,"grp":g} = the
   process ended (appended by the runner: exit status, timed out, which group of cases it ran).  Every event is consumed; a case whose
   recorded results violate a claim of its kind is *rejected*: TLC prints
   <<"REJECT", id, <<claim names>>>> and counts it, the rest of the trace is still judged.
   A case that was opened and never closed before the process ended is rejected as crash / hang
   (totality), a non-zero exit status likewise.  Claims named "gen:..." say that the generated
   input itself is what the specification says it should be (machinery, not implementation).    *)
EXTENDS Codec, TLC, Json, IOUtils
TraceLog == ndJsonDeserialize(IOEnv.TRACE)
VARIABLES l, open, nacc, nrej
vars == <<l, open, nacc, nrej>>
Ev == TraceLog[l]

Failed(pairs) == LET f == SelectSeq(pairs, LAMBDA p : ~p[2]) IN [i \in 1..Len(f) |-> f[i][1]]
Neg(v) == v[1]
Mag(v) == Tail(v)
IsVal(v) == Len(v) >= 1 /\ v[1] \in {0, 1} /\ IsMag(Tail(v)) /\ (v[1] = 1 => Len(v) > 1)
LowerHex(t) == [i \in 1..Len(t) |-> IF t[i] >= 65 /\ t[i] <= 70 THEN t[i] + 32 ELSE t[i]]

(* ---------------- byte-string codecs ---------------- *)
B64Claims(e) ==
  << <<"gen:st", e.st = B64Enc(e.x)>>,
     <<"enc-allowed", B64Allowed(e.enc)>>,
     <<"enc-means-x", B64Dec(e.enc) = e.x>>,
     <<"dec-enc", e.dec = e.x>>,
     <<"dec-spec-enc", e.sd = e.x>>,
     <<"port-enc-allowed", B64Allowed(e.encp)>>,
     <<"port-enc-means-x", B64Dec(e.encp) = e.x>>,
     <<"port-dec-spec-enc", e.decp = e.x>>,
     <<"string-enc-allowed", B64Allowed(e.encs)>>,
     <<"string-enc-means-utf8", B64Dec(e.encs) = Utf8Enc(e.x)>>,
     <<"file-port-enc", B64Allowed(e.encf) /\ B64Dec(e.encf) = e.x>>,
     <<"text-port-enc", e.enct = e.encs>> >>
\* a base64 text (wrapped, with ignorable characters, padded or not) through every decoding interface:
\* each must return what the text means, however the implementation chunks it
B64TextClaims(e) ==
  << <<"gen:t", B64LaxDomain(e.t) /\ B64DecLax(e.t) = e.x>>,
     <<"dec-bytevector", e.dbv = e.x>>,
     <<"dec-string", e.dstr = e.x>>,
     <<"dec-binary-port", e.dbp = e.x>>,
     <<"dec-file-port", e.dfp = e.x>>,
     <<"dec-text-port", e.dtp = e.x>> >>
QpClaims(e) ==
  << <<"enc-chars", QpCharsOk(e.enc)>>,
     <<"enc-lines", QpLinesOk(e.enc)>>,
     <<"enc-means-x", QpDec(e.enc) = e.x>>,
     <<"dec-enc", e.dec = e.x>> >>
QpPortClaims(e) == QpClaims(e) \o << <<"port-enc", e.encp = e.enc>>, <<"port-dec-enc", e.decp = e.x>> >>
UriClaims(e) ==
  LET plus == e.plus = 1
      bytes == \A i \in 1..Len(e.x) : e.x[i] <= 255 IN
  << <<"enc-allowed", UriAllowed(e.enc, plus)>>,
     <<"enc-means-x", bytes => UriDec(e.enc, plus) = e.x>>,
     <<"dec-enc", e.dec = e.x>> >>
UtfClaims(e) ==
  << <<"gen:x", \A i \in 1..Len(e.x) : IsScalar(e.x[i])>>,
     <<"gen:st", e.st = Utf8Enc(e.x)>>,
     <<"length", e.slen = Len(e.x)>>,
     <<"enc", e.enc = Utf8Enc(e.x)>>,
     <<"dec-enc", e.dec = e.x>>,
     <<"dec-spec-enc", e.sd = e.x>>,
     <<"utf16-enc", e.e16b = Utf16Enc(e.x, TRUE) /\ e.e16l = Utf16Enc(e.x, FALSE)>>,
     <<"utf16-dec-enc", e.d16b = e.x /\ e.d16l = e.x>>,
     <<"utf32-enc", e.e32b = Utf32Enc(e.x, TRUE) /\ e.e32l = Utf32Enc(e.x, FALSE)>>,
     <<"utf32-dec-enc", e.d32b = e.x /\ e.d32l = e.x>> >>

(* ---------------- numeric accessors ---------------- *)
\* what the accessor names mean: <<signed, size (0 = given by the call), writes>>
OpInfo(op) ==
  CASE op = "u8-ref" -> <<FALSE, 1, FALSE>> [] op = "s8-ref" -> <<TRUE, 1, FALSE>>
    [] op = "u8-set" -> <<FALSE, 1, TRUE>>  [] op = "s8-set" -> <<TRUE, 1, TRUE>>
    [] op = "u16-ref" -> <<FALSE, 2, FALSE>> [] op = "s16-ref" -> <<TRUE, 2, FALSE>>
    [] op = "u16-set" -> <<FALSE, 2, TRUE>>  [] op = "s16-set" -> <<TRUE, 2, TRUE>>
    [] op = "u32-ref" -> <<FALSE, 4, FALSE>> [] op = "s32-ref" -> <<TRUE, 4, FALSE>>
    [] op = "u32-set" -> <<FALSE, 4, TRUE>>  [] op = "s32-set" -> <<TRUE, 4, TRUE>>
    [] op = "u64-ref" -> <<FALSE, 8, FALSE>> [] op = "s64-ref" -> <<TRUE, 8, FALSE>>
    [] op = "u64-set" -> <<FALSE, 8, TRUE>>  [] op = "s64-set" -> <<TRUE, 8, TRUE>>
    [] op = "uint-ref" -> <<FALSE, 0, FALSE>> [] op = "sint-ref" -> <<TRUE, 0, FALSE>>
    [] op = "uint-set" -> <<FALSE, 0, TRUE>>  [] op = "sint-set" -> <<TRUE, 0, TRUE>>
    [] op = "le16-ref" -> <<FALSE, 2, FALSE>> [] op = "be16-ref" -> <<FALSE, 2, FALSE>>
    [] op = "le32-ref" -> <<FALSE, 4, FALSE>> [] op = "be32-ref" -> <<FALSE, 4, FALSE>>
AccClaims(e) ==
  LET info == OpInfo(e.op)
      signed == info[1]
      size == IF info[2] = 0 THEN e.sz ELSE info[2]
      writes == info[3]
      big == IF e.op \in {"le16-ref", "le32-ref"} THEN FALSE
             ELSE IF e.op \in {"be16-ref", "be32-ref"} THEN TRUE
             ELSE IF e.endian = "native" THEN e.nat = "big" ELSE e.endian = "big"
      dom == InRange(Len(e.b0), e.k, size)
      ok == e.oc = "ok"
  IN
  << <<"gen:bytes", IsBytes(e.b0) /\ e.endian \in {"big", "little", "native"} /\ e.nat \in {"big", "little"}>>,
     <<"gen:value", writes => IsVal(e.v) /\ Fits(signed, Neg(e.v), Mag(e.v), size)>>,
     <<"outcome-class", e.oc \in {"ok", "err"}>>,
     <<"out-of-range-must-be-error", ~dom => ~ok>>,
     <<"in-range-must-succeed", dom => ok>>,
     <<"same-length", Len(e.b1) = Len(e.b0)>>,
     <<"set-bytes", (dom /\ ok /\ writes) => e.b1 = Splice(e.b0, e.k, IntBytes(Neg(e.v), Mag(e.v), size, big))>>,
     <<"ref-value", (dom /\ ok /\ ~writes) => IsVal(e.v) /\ IsValueOf(signed, Neg(e.v), Mag(e.v), Slice(e.b0, e.k, size), big)>>,
     <<"ref-pure", ~writes => e.b1 = e.b0>> >>
TyInfo(ty) == CASE ty = "s8" -> <<TRUE, 1>> [] ty = "u16" -> <<FALSE, 2>> [] ty = "s16" -> <<TRUE, 2>>
                [] ty = "u32" -> <<FALSE, 4>> [] ty = "s32" -> <<TRUE, 4>> [] ty = "u64" -> <<FALSE, 8>> [] ty = "s64" -> <<TRUE, 8>>
UvClaims(e) ==
  LET info == TyInfo(e.ty)
      dom == e.i >= 0 /\ e.i < e.n
      ok == e.oc = "ok"
      writes == e.op = "set"
      filled == [j \in 1..e.n |-> e.fill]
  IN
  << <<"gen:value", IsVal(e.fill) /\ Fits(info[1], Neg(e.fill), Mag(e.fill), info[2])
                    /\ (writes => IsVal(e.v) /\ Fits(info[1], Neg(e.v), Mag(e.v), info[2]))>>,
     <<"length", e.len = e.n>>,
     <<"out-of-range-must-be-error", ~dom => ~ok>>,
     <<"in-range-must-succeed", dom => ok>>,
     <<"set-contents", (dom /\ ok /\ writes) => e.after = [filled EXCEPT ![e.i + 1] = e.v]>>,
     <<"ref-value", (dom /\ ok /\ ~writes) => e.v = e.fill>>,
     <<"untouched", ~(dom /\ ok /\ writes) => e.after = filled>> >>
IntClaims(e) ==
  LET mag == Mag(e.v)
      be == IF mag = <<>> THEN <<0>> ELSE Rev(mag)
      ber == BerEnc(mag)
  IN
  << <<"gen:value", IsVal(e.v) /\ Neg(e.v) = 0 /\ Len(mag) <= 20>>,
     <<"integer->bytevector", e.i2b = be>>,
     <<"bytevector->integer", e.b2i = e.v>>,
     <<"integer->hex-string", LowerHex(e.hex) = HexOfBytes(be)>>,
     <<"hex-string->integer", e.h2i = e.v>>,
     <<"ber-set", e.berset = "ok" /\ e.ber = [i \in 1..Len(e.ber) |-> IF i >= 3 /\ i <= 2 + Len(ber) THEN ber[i - 2] ELSE 0]>>,
     <<"ber-ref", e.berv = e.v>> >>
HexClaims(e) ==
  << <<"bytevector->hex-string", LowerHex(e.hex) = HexOfBytes(e.x)>>,
     <<"hex-string->bytevector", (Len(e.x) >= 1 /\ e.x[1] # 0) => e.hb = e.x>>,
     <<"bytevector->integer", IF Len(e.x) = 0 THEN e.b2i = <<0>>
                              ELSE IsVal(e.b2i) /\ IsValueOf(FALSE, Neg(e.b2i), Mag(e.b2i), e.x, TRUE)>> >>

(* ---------------- structured text ---------------- *)
JsonClaims(e) ==
  << <<"gen:text", JsonDec(e.text) = e.toks>>,
     <<"read", e.rd = e.toks>>,
     <<"write", JsonDec(e.wt) = e.toks>>,
     <<"reread", e.rd2 = e.toks>> >>
CsvClaims(e) ==
  << <<"gen:text", CsvDec(e.text) = e.tab>>,
     <<"read", e.rd = e.tab>>,
     <<"write", CsvDec(e.wt) = e.tab>>,
     <<"reread", e.rd2 = e.tab>> >>
HostileClaims(e) == << <<"outcome-class", e.oc \in {"val", "err"}>> >>

Claims(e) ==
  CASE e.kind = "b64" -> B64Claims(e) [] e.kind = "b64t" -> B64TextClaims(e) [] e.kind = "qp" -> QpClaims(e) [] e.kind = "qpp" -> QpPortClaims(e) [] e.kind = "uri" -> UriClaims(e)
    [] e.kind = "utf" -> UtfClaims(e) [] e.kind = "acc" -> AccClaims(e) [] e.kind = "uv" -> UvClaims(e)
    [] e.kind = "int" -> IntClaims(e) [] e.kind = "hex" -> HexClaims(e)
    [] e.kind = "json" -> JsonClaims(e) [] e.kind = "csv" -> CsvClaims(e) [] e.kind = "h" -> HostileClaims(e)

IsEvent(n) == l <= Len(TraceLog) /\ Ev.e = n /\ l' = l + 1
Reject(id, names) == PrintT(<<"REJECT", id, names>>) /\ nrej' = nrej + 1 /\ nacc' = nacc
TBegin == IsEvent("B") /\ open = 0 /\ Ev.id > 0 /\ open' = Ev.id /\ UNCHANGED <<nacc, nrej>>
TCase == /\ IsEvent("C") /\ open = Ev.id /\ open' = 0
         /\ LET f == Failed(Claims(Ev)) IN
            IF f = <<>> THEN nacc' = nacc + 1 /\ nrej' = nrej ELSE Reject(Ev.id, f)
TDone == IsEvent("Done") /\ open = 0 /\ UNCHANGED <<open, nacc, nrej>>
TExit == /\ IsEvent("X") /\ open' = 0
         /\ IF open # 0 THEN Reject(open, <<IF Ev.to = 1 THEN "hang" ELSE "crash">>)
            ELSE IF Ev.rc # 0 THEN Reject(0, <<"exit-status", Ev.grp>>)
            ELSE UNCHANGED <<nacc, nrej>>
TraceInit == l = 1 /\ open = 0 /\ nacc = 0 /\ nrej = 0
\* the totals are printed when the last event is consumed
Fin == IF l = Len(TraceLog) THEN PrintT(<<"SUMMARY", nacc', nrej', open'>>) ELSE TRUE
TraceNext == (TBegin \/ TCase \/ TDone \/ TExit) /\ Fin
TraceSpec == TraceInit /\ [][TraceNext]_vars
\* every event consumed (an event that fits no action blocks the trace = broken machinery)
Accepted == LET d == TLCGet("stats").diameter IN
            IF d - 1 = Len(TraceLog) THEN TRUE
            ELSE PrintT(<<"TRACE_REJECTED_AT", d, Len(TraceLog)>>) /\ FALSE
TypeOk == l \in 1..(Len(TraceLog) + 1) /\ nacc >= 0 /\ nrej >= 0
=============================================================================
