SPECIFICATION Spec
CONSTANTS Sigma = {97, 98}
          MaxLen = 3
          Level = 1
          Fam = "full"
INVARIANTS TwoFormulations SearchIsContextMatch SearchFromMatch Laws GroupsWF ReportSound ReportRejectsNonMatch
CHECK_DEADLOCK FALSE
