SPECIFICATION TraceSpec
CONSTANTS DoDump = FALSE
 Vals <- OneVal
INVARIANTS Shape
POSTCONDITION Accepted
CHECK_DEADLOCK FALSE
