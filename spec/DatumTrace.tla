---------------------------- MODULE DatumTrace ----------------------------
(* C08: validates the recorded behaviour of the real writers and readers (harness/scm/c08drv.scm)
   against Datum.tla / TextRead.tla.  Every case is independent, so a rejected case does not stop the
   validation: the reason is printed as <<"C08REJECT", case id, reason, writer, reader>> and counted;
   the trace as a whole must still be consumed to the end (Accepted) - otherwise the machinery is broken.

   Events of one round-trip case (x is built by the driver from a recipe graph):
     Recipe(g)                  the graph the generator asked for
     Begin                      (a Begin while a case is open: the previous one crashed or hung)
     Datum(g)                   node table of x measured by the canonicaliser: must be Iso to the recipe
     Write(w, ok, t, tok, nt)   text t (code points) produced by writer w, with its tokenisation (nt = 0):
                                LexOKo(tok, t) and the abstract reader must yield x again
     Read(w, r, ok, g, rest)    what reader r made of t: Iso to x for write-shared, Equal to x otherwise;
                                the whole text is consumed; both readers agree on the same text
     End
   and of a text case (a text fed to both readers):  Begin, Text(t, tok, j), Read("text", r, ..) x 2, End.
   What is required depends on the text (decided here, not by the generator):
     j = "agree"     (texts produced by the writers, R7RS-valid hand-written and generated texts):
                     both readers fall in the same outcome class (error / datum / non-datum such as the
                     end-of-file object) and, if both return a datum, the data are isomorphic;
     j = "truncated" (a prefix of a written text): if the abstract reader finds it INCOMPLETE (open list,
                     vector, string, |symbol|, label or abbreviation without datum) both readers must
                     signal an error (R7RS read); if it is a complete valid datum, as for "agree";
     j = "undefined" (hand-written texts with many / out-of-order labels and one reference #m#): if the abstract
                     reader finds that label m is never defined, both readers must signal an error (a reader has
                     nothing it could return; the native reader indexes a table with m);
     otherwise       (arbitrary mutations; R7RS leaves the outcome open): only Begin/End pairing - the
                     readers must return or raise, not crash or hang. *)
EXTENDS TextRead, Json, IOUtils
TraceLog == ndJsonDeserialize(IOEnv.TRACE)
NoG == [r |-> 0, n |-> <<>>]
VARIABLES l,      \* next event
          ph,     \* "idle" | "open"
          cid,    \* id of the open case
          rec,    \* recipe graph
          x,      \* measured datum
          wr,     \* writer of the current text ("text" for a given text)
          y1,     \* <<reader, ok, g>> of the first read of the current text, or <<>>
          pt,     \* <<text, lexically ok, result of the abstract reader>> of the last written text of this case
                  \* (different writers mostly produce the same text: it is parsed once)
          tj,     \* what is required of the readers on the current given text: <<"agree" | "error" | "total", what is left open>>
          cnt     \* [cases, writes, reads, textreads, rejects]
vars == <<l, ph, cid, rec, x, wr, y1, pt, tj, cnt>>
Ev == TraceLog[l]
IsEvent(e) == l <= Len(TraceLog) /\ Ev.e = e /\ l' = l + 1
Reject(id, why, w, r) == PrintT(<<"C08REJECT", id, why, w, r>>)
\* evaluate a list of <<condition, reason>> in order; the first failing one is reported
FirstFail(checks) == LET bad == {j \in 1..Len(checks) : ~checks[j][1]} IN
                     IF bad = {} THEN "" ELSE checks[CHOOSE j \in bad : \A m \in bad : j <= m][2]
Bump(f, bad) == [cnt EXCEPT ![f] = @ + 1, !.rejects = @ + (IF bad THEN 1 ELSE 0)]

TRecipe == /\ IsEvent("Recipe")
           /\ rec' = Ev.g
           /\ UNCHANGED <<ph, cid, x, wr, y1, pt, tj, cnt>>
TBegin == /\ IsEvent("Begin")
          /\ IF ph = "idle" THEN TRUE ELSE Reject(cid, "no-end", wr, "")
          /\ ph' = "open" /\ cid' = Ev.id /\ x' = NoG /\ wr' = "" /\ y1' = <<>> /\ tj' = <<"total", "">> /\ pt' = <<>>
          /\ cnt' = Bump("cases", ph # "idle")
          /\ UNCHANGED rec
TDatum == /\ IsEvent("Datum")
          /\ LET why == IF ~(ph = "open" /\ Ev.id = cid) THEN "event-order"
                        ELSE IF ~WellFormed(Ev.g) THEN "datum-malformed"
                        ELSE IF ~WellFormed(rec) THEN "recipe-malformed"
                        ELSE IF ~Same(rec, Ev.g) THEN "build-mismatch" ELSE ""
             IN /\ (IF why = "" THEN TRUE ELSE Reject(Ev.id, why, "", ""))
                /\ cnt' = [cnt EXCEPT !.rejects = @ + (IF why = "" THEN 0 ELSE 1)]
          /\ x' = Ev.g
          /\ UNCHANGED <<ph, cid, rec, wr, y1, pt, tj>>
Parsed(t, tok) == IF pt # <<>> /\ pt[1] = t THEN pt ELSE <<t, LexOKo(tok, t), Read(tok)>>
TextWhy(w, pp) ==
  IF ~pp[2] THEN "text-lex"
  ELSE LET rd == pp[3] IN
       IF ~rd.ok THEN "text-syntax"
       ELSE IF w = "shared" THEN (IF MatchIso(x, rd.g) THEN "" ELSE "text-not-iso")
       ELSE (IF MatchEqual(x, rd.g) THEN "" ELSE "text-not-equal")
TWrite == /\ IsEvent("Write")
          /\ LET pp == IF Ev.ok = 1 /\ ph = "open" /\ x # NoG /\ Ev.nt = 0 THEN Parsed(Ev.t, Ev.tok) ELSE <<>>
                 why == IF ~(ph = "open" /\ Ev.id = cid /\ x # NoG) THEN "event-order"
                        ELSE IF Ev.ok # 1 THEN "write-error"
                        ELSE IF Ev.w \in {"native", "simple"} /\ Cyclic(x) THEN "plain-write-on-cycle"
                        ELSE IF Ev.nt = 1 THEN ""            \* no tokens supplied (sampled out for the big sweep vectors)
                        ELSE TextWhy(Ev.w, pp)
             IN /\ (IF why = "" THEN TRUE ELSE Reject(Ev.id, why, Ev.w, ""))
                /\ cnt' = [Bump("writes", why # "") EXCEPT !.texts = @ + (IF Ev.nt = 0 THEN 1 ELSE 0)]
                /\ pt' = pp
          /\ wr' = Ev.w /\ y1' = <<>>
          /\ UNCHANGED <<ph, cid, rec, x, tj>>
\* the abstract reader met no error but the datum is not finished: what is open ("" = not incomplete)
IncompleteWhy(tok) ==
  LET n == Len(tok)
      unterminated == n >= 1 /\ tok[n].t \in {"str", "psym"} /\ ~TokOK(tok[n])
      body == IF unterminated THEN SubSeq(tok, 1, n - 1) ELSE tok
      ps == Run(body)
  IN IF ~(\A i \in 1..Len(body) : TokOK(body[i])) \/ ps.err # "" THEN ""
     ELSE IF unterminated THEN (IF tok[n].t = "str" THEN "open-string" ELSE "open-bar-symbol")
     ELSE IF ps.pend # <<>> THEN "label-without-datum"
     ELSE IF ps.stk # <<>> THEN "open-" \o Top(ps).k
     ELSE ""
Incomplete(tok) == IncompleteWhy(tok) # ""
NoOdd(g) == \A i \in 1..Len(g.n) : g.n[i].k # "odd"
ValidText(tok, t) == LexOKo(tok, t) /\ Read(tok).ok /\ NoOdd(Read(tok).g)
TText == /\ IsEvent("Text")
         /\ (IF ph = "open" /\ Ev.id = cid THEN TRUE ELSE Reject(Ev.id, "event-order", "text", ""))
         /\ wr' = "text" /\ y1' = <<>>
         /\ tj' = IF Ev.j = "agree" THEN <<"agree", "">>
                  ELSE IF Ev.j = "truncated" THEN (IF Incomplete(Ev.tok) THEN <<"error", IncompleteWhy(Ev.tok)>>
                                                  ELSE IF ValidText(Ev.tok, Ev.t) THEN <<"agree", "">> ELSE <<"total", "">>)
                  ELSE IF Ev.j = "undefined"      \* the abstract reader finds a reference to a label that is never defined
                  THEN (IF LexOKo(Ev.tok, Ev.t) /\ Read(Ev.tok).err = "unknown label" THEN <<"error", "undefined-label">> ELSE <<"total", "">>)
                  ELSE <<"total", "">>
         /\ cnt' = [cnt EXCEPT !.rejects = @ + (IF ph = "open" /\ Ev.id = cid THEN 0 ELSE 1)]
         /\ UNCHANGED <<ph, cid, rec, x, pt>>
Agree(a, ok, g) ==        \* a = <<reader, ok, g>> of the other reader on the same text
  IF (a[2] = 1) # (ok = 1) THEN "readers-differ-outcome"
  ELSE IF ok = 1 /\ ~Same(a[3], g) THEN "readers-differ-datum" ELSE ""
\* outcome classes of reading an arbitrary text: an error, a datum, or a non-datum object (end of file, ...)
Cls(ok, g) == IF ok # 1 THEN "error" ELSE IF WellFormed(g) THEN "datum" ELSE "nondatum"
AgreeText(a, ok, g) ==
  IF Cls(a[2], a[3]) # Cls(ok, g) THEN "readers-differ-outcome"
  ELSE IF Cls(ok, g) = "datum" /\ ~Same(a[3], g) THEN "readers-differ-datum" ELSE ""
TRead == /\ IsEvent("Read")
         /\ LET why ==
                  IF ~(ph = "open" /\ Ev.id = cid /\ Ev.w = wr) THEN "event-order"
                  ELSE IF wr = "text" THEN
                     (IF tj[1] = "error" THEN (IF Ev.ok # 1 THEN "" ELSE IF tj[2] = "undefined-label" THEN "undefined-label-accepted" ELSE "incomplete-text-accepted:" \o tj[2])
                      ELSE IF tj[1] = "agree" /\ y1 # <<>> THEN AgreeText(y1, Ev.ok, Ev.g)
                      ELSE "")
                  ELSE IF Ev.ok # 1 THEN "read-error"
                  ELSE IF ~WellFormed(Ev.g) THEN "read-malformed"
                  ELSE IF wr = "shared" /\ ~Same(x, Ev.g) THEN "not-iso"
                  ELSE IF wr # "shared" /\ ~(x = Ev.g \/ Equal(x, Ev.g)) THEN "not-equal"
                  ELSE IF Ev.rest # 1 THEN "text-not-consumed"
                  ELSE IF y1 = <<>> THEN "" ELSE Agree(y1, Ev.ok, Ev.g)
            IN /\ (IF why = "" THEN TRUE ELSE Reject(Ev.id, why, wr, Ev.r))
               /\ (IF why \in {"not-iso", "not-equal"}       \* how many corresponding nodes differ (of how many)
                   THEN PrintT(<<"C08DETAIL", Ev.id, wr, Ev.r, Cardinality({q \in Pairs(x, Ev.g) : ~Compat(x, Ev.g, q[1], q[2])}), Cardinality(Pairs(x, Ev.g))>>)
                   ELSE TRUE)
               /\ cnt' = Bump(IF wr = "text" THEN "textreads" ELSE "reads", why # "")
         /\ y1' = <<Ev.r, Ev.ok, Ev.g>>
         /\ (IF wr = "text" THEN PrintT(<<"C08TEXT", Ev.id, tj[1], Ev.r, Cls(Ev.ok, Ev.g)>>) ELSE TRUE)
         /\ UNCHANGED <<ph, cid, rec, x, wr, pt, tj>>
TEnd == /\ IsEvent("End")
        /\ (IF ph = "open" /\ Ev.id = cid THEN TRUE ELSE Reject(Ev.id, "event-order", "", ""))
        /\ cnt' = [cnt EXCEPT !.rejects = @ + (IF ph = "open" /\ Ev.id = cid THEN 0 ELSE 1)]
        /\ ph' = "idle" /\ UNCHANGED <<cid, rec, x, wr, y1, pt, tj>>
TInfo == /\ IsEvent("Info") /\ UNCHANGED <<ph, cid, rec, x, wr, y1, pt, tj, cnt>>
TFin == /\ IsEvent("Fin")
        /\ IF ph = "idle" THEN TRUE ELSE Reject(cid, "no-end", wr, "")
        /\ PrintT(<<"C08SUMMARY", cnt.cases, cnt.writes, cnt.reads, cnt.textreads, cnt.rejects + (IF ph = "idle" THEN 0 ELSE 1), cnt.texts>>)
        /\ ph' = "idle" /\ UNCHANGED <<cid, rec, x, wr, y1, pt, tj, cnt>>
TraceInit == /\ l = 1 /\ ph = "idle" /\ cid = 0 /\ rec = NoG /\ x = NoG /\ wr = "" /\ y1 = <<>> /\ pt = <<>> /\ tj = <<"total", "">>
             /\ cnt = [cases |-> 0, writes |-> 0, reads |-> 0, textreads |-> 0, rejects |-> 0, texts |-> 0]
TraceNext == TRecipe \/ TBegin \/ TDatum \/ TWrite \/ TText \/ TRead \/ TEnd \/ TInfo \/ TFin
TraceSpec == TraceInit /\ [][TraceNext]_vars
Accepted == LET d == TLCGet("stats").diameter IN
            IF d - 1 = Len(TraceLog) THEN TRUE ELSE PrintT(<<"TRACE_REJECTED_AT", d, Len(TraceLog)>>) /\ FALSE
=========================================================================
