---------------------------- MODULE Adt ----------------------------
(* C18, containers: one state machine over a VERSION STORE for all container libraries.
     ver  : sequence of abstract values; version i of the history is ver[i]
     live : versions that may still be used (not consumed by a linear-update procedure)
   Every operation names existing versions and yields new versions and / or an observation, so persistence
   is part of the model: an operation never changes ver[i] of another version (except the in-place
   mutators of SRFI 117, which change exactly the object they are applied to).
   Kind selects the library; its abstract semantics lives in the module of that name.
   MC: all histories up to MaxVer versions over a small key universe, checking the laws of the model.
   Gen: -simulate; the random choices of a step are drawn into the variable rnd one step ahead, the
        operation is a function of the state, the history is printed as JSON at depth GenDepth. *)
EXTENDS AdtSet, AdtBag, AdtMap, AdtISet, AdtRAList, AdtQueue, AdtDeque, AdtSeq, TLC, Json
CONSTANTS Kind, Keys, M, MaxVer, KLen, GenDepth
VARIABLES ver, live, hist, rnd, tick
vars == <<ver, live, hist, rnd, tick>>

(* key universe of the iset histories: members around the 128-wide node boundaries, negative and far apart (cfg: Keys <- ISetKeysGen) *)
ISetKeysGen == {-300, -129, -128, -127, -1, 0, 1, 2, 63, 64, 126, 127, 128, 129, 255, 256, 400, 1000}
IsSeqKind == Kind \in {"ralist", "queue", "deque", "seq"}
Table == CASE Kind = "set" -> SetTable [] Kind = "bag" -> BagTable [] Kind = "map" -> MapTable [] Kind = "iset" -> ISetTable
           [] Kind = "ralist" -> RATable [] Kind = "queue" -> QTable [] Kind = "deque" -> DQTable [] Kind = "seq" -> SeqTable
Canon(x) == CASE Kind = "set" -> SetCanon(x) [] Kind = "bag" -> BagCanon(x) [] Kind = "map" -> MapCanon(x)
              [] Kind = "iset" -> ISetCanon(x) [] OTHER -> x
WF(c) == CASE Kind = "set" -> SetWF(c) [] Kind = "bag" -> BagWF(c, Keys) [] Kind = "map" -> MapWF(c)
           [] Kind = "iset" -> ISetWF(c) [] OTHER -> TRUE
From(c) == CASE Kind = "set" -> SetFrom(c) [] Kind = "bag" -> BagFrom(c, Keys) [] Kind = "map" -> MapFrom(c)
             [] Kind = "iset" -> ISetFrom(c) [] OTHER -> c
TypeOK(x) == CASE Kind = "set" -> SetTypeOK(x, Keys) [] Kind = "bag" -> BagTypeOK(x, Keys) [] Kind = "map" -> MapTypeOK(x, Keys)
               [] Kind = "iset" -> ISetTypeOK(x) [] OTHER -> x \in Seq(Int)
Norm(o, s) == CASE Kind = "set" -> SetNorm(o, s) [] Kind = "bag" -> BagNorm(o, s) [] Kind = "map" -> MapNorm(o, s, M)
                [] Kind = "iset" -> ISetNorm(o, s) [] Kind = "ralist" -> RANorm(o, s) [] Kind = "queue" -> QNorm(o, s)
                [] Kind = "deque" -> DQNorm(o, s) [] Kind = "seq" -> SeqNorm(o, s)
KindPre(o, s) == CASE Kind = "set" -> SetPre(o, s, M) [] Kind = "bag" -> BagPre(o, s) [] Kind = "map" -> MapPre(o, s)
                   [] Kind = "iset" -> ISetPre(o, s) [] Kind = "ralist" -> RAPre(o, s) [] Kind = "queue" -> QPre(o, s)
                   [] Kind = "deque" -> DQPre(o, s) [] Kind = "seq" -> SeqPre(o, s)
KindEval(o, s) == CASE Kind = "set" -> SetEval(o, s, M) [] Kind = "bag" -> BagEval(o, s, M, Keys) [] Kind = "map" -> MapEval(o, s, M)
                    [] Kind = "iset" -> ISetEval(o, s) [] Kind = "ralist" -> RAEval(o, s, M) [] Kind = "queue" -> QEval(o, s, M)
                    [] Kind = "deque" -> DQEval(o, s, M) [] Kind = "seq" -> SeqEval(o, s, M)
Laws(s, lv) == CASE Kind = "set" -> SetLaws(s, lv, M) [] Kind = "bag" -> BagLaws(s, lv, M, Keys) [] Kind = "map" -> MapLaws(s, lv, M)
                 [] Kind = "iset" -> ISetLaws(s, lv) [] Kind = "ralist" -> RALaws(s, lv, M) [] Kind = "queue" -> QLaws(s, lv, M)
                 [] Kind = "deque" -> DQLaws(s, lv, M) [] Kind = "seq" -> SeqLaws(s, lv, M)

Peek(v) == Op("peek", v, 0, 0, 0, <<>>)
Eval(o, s) == IF o.op = "peek" THEN Res(<<>>, Canon(s[o.v])) ELSE KindEval(o, s)
SigName(name) == IF name = "peek" THEN S_v ELSE Table[CHOOSE i \in DOMAIN Table : Table[i][1] = name][2]
(* an operation may be applied: it names live versions and meets the library's own preconditions *)
Pre(o, s, lv) == LET sig == SigName(o.op) IN
                 /\ ("v" \in sig => o.v \in lv) /\ ("w" \in sig => o.w \in lv)
                 /\ KindPre(o, s)

Init == ver = <<>> /\ live = {} /\ hist = <<>> /\ rnd = <<>> /\ tick = 0
Apply(o) == \E r \in {Eval(o, ver)} :      \* (bound by a quantifier so that TLC evaluates it once)
            LET n == Len(ver)
                U(i) == {j \in DOMAIN r.upd : r.upd[j][1] = i}
            IN /\ ver' = (IF r.upd = <<>> THEN ver \o r.new
                          ELSE [i \in 1..(n + Len(r.new)) |->
                                  IF i > n THEN r.new[i - n]
                                  ELSE IF U(i) # {} THEN r.upd[CHOOSE j \in U(i) : TRUE][2] ELSE ver[i]])
               /\ live' = (live \ r.kill) \cup ((n + 1)..(n + Len(r.new)))

(* ---------------- MC ---------------- *)
KSeqs == UNION {[1..n -> Keys] : n \in 0..KLen}
Xs == 0..5
AllOps == {Peek(v) : v \in live} \cup
          UNION {SigOps(Table[i][1], Table[i][2], live, Keys, KSeqs, Xs) : i \in DOMAIN Table}
(* histories are explored while the store has fewer than MaxVer versions (and, for sequences, short contents) *)
Expandable == Len(ver) < MaxVer /\ (IsSeqKind => \A i \in DOMAIN ver : Len(ver[i]) <= 3)
Next == /\ Expandable
        /\ \/ \E i \in DOMAIN Table : \E o \in SigOps(Table[i][1], Table[i][2], live, Keys, KSeqs, Xs) :
                 /\ o = Norm(o, ver) /\ KindPre(o, ver)
                 /\ Apply(o) /\ UNCHANGED <<hist, rnd, tick>>
           \/ \E v \in live : Apply(Peek(v)) /\ UNCHANGED <<hist, rnd, tick>>
Spec == Init /\ [][Next]_vars
TypeInv == \A i \in DOMAIN ver : TypeOK(ver[i])
LawInv == Laws(ver, live)
CanonInv == \A i \in DOMAIN ver : WF(Canon(ver[i])) /\ From(Canon(ver[i])) = ver[i]
(* persistence: a step never changes an existing version that it does not explicitly update in place *)
Persist == [][\A i \in DOMAIN ver : ver'[i] = ver[i] \/ Kind = "queue"]_vars
LiveInv == live \subseteq DOMAIN ver

(* ---------------- Gen ---------------- *)
NRnd == 12
Rnd(n) == RandomElement(IF tick >= 0 THEN 0..(n - 1) ELSE {})
Total == FoldLeft(LAMBDA a, e : a + e[3], 0, Table)
Cum == [i \in 0..Len(Table) |-> FoldLeft(LAMBDA a, e : a + e[3], 0, SubSeq(Table, 1, i))]
KeySeq == SortedSeq(Keys)
KeyAt(r) == KeySeq[1 + (r % Len(KeySeq))]
PickOp(rn, s, lv) ==
  LET n == rn[1] % Total
      idx == CHOOSE i \in DOMAIN Table : Cum[i - 1] <= n /\ n < Cum[i]
      e == Table[idx]   sig == e[2]
      lvs == SortedSeq(lv)   nl == Len(lvs)
      \* half of the time one of the four most recent versions, otherwise any (older) version
      PickV(r) == IF nl = 0 THEN 0
                  ELSE IF r % 2 = 0 THEN lvs[nl - ((r \div 2) % (IF nl < 4 THEN nl ELSE 4))]
                  ELSE lvs[1 + ((r \div 2) % nl)]
      ks == [i \in 1..(rn[6] % (KLen + 1)) |-> KeyAt(rn[6 + i])]
      raw == Norm(Op(e[1], IF "v" \in sig THEN PickV(rn[2]) ELSE 0, IF "w" \in sig THEN PickV(rn[3]) ELSE 0,
                     IF "k" \in sig THEN KeyAt(rn[4]) ELSE 0, IF "x" \in sig THEN rn[5] % 1000 ELSE 0,
                     IF "s" \in sig THEN ks ELSE <<>>), s)
  IN IF ("v" \in sig => nl > 0) /\ Pre(raw, s, lv) THEN raw
     ELSE IF nl > 0 /\ rn[5] % 2 = 0 THEN Peek(PickV(rn[2]))
     ELSE Op(Table[1][1], 0, 0, 0, 0, ks)
GenInit == ver = <<>> /\ live = {} /\ hist = <<>> /\ tick = 0 /\ rnd = [i \in 1..NRnd |-> i * 7919]
GenNext == /\ tick' = tick + 1
           /\ rnd' = [i \in 1..NRnd |-> Rnd(1000003)]
           /\ LET o == PickOp(rnd, ver, live) IN Apply(o) /\ hist' = Append(hist, [o |-> o, n |-> Len(Eval(o, ver).new)])
GenSpec == GenInit /\ [][GenNext]_vars
Dump == (TLCGet("level") = GenDepth) => PrintT(<<"HIST", ToJson([h |-> hist, live |-> SortedSeq(live)])>>)
=======================================================================
