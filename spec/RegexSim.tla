---------------------------- MODULE RegexSim ----------------------------
(* C20 case generation, random part: TLC -simulate walks a small stack machine that builds an
   SRE bottom-up (push atom / wrap the top / combine the two topmost) and grows a subject,
   D steps per behaviour; at depth D the case is written out.  Depth(sre) <= MaxDepth and
   Len(subject) <= MaxLen by construction; only well-formed SREs (Regex!WF) are emitted.   *)
EXTENDS Regex, TLC, Json
CONSTANTS Sigma, D, MaxDepth, MaxLen,
          Named        \* TRUE: leaves are also drawn from the named classes, char-set algebra and w/ascii are used
VARIABLES stk, subj, tick
vars == <<stk, subj, tick>>

Pick(n) == RandomElement(IF tick >= 0 THEN 1..n ELSE {})     \* mentions a variable: not cached as a constant
Lits == {<<"lit", c>> : c \in Sigma}
Classes == UNION { {<<"set", T>> : T \in {U \in SUBSET Sigma : Cardinality(U) \in 1..3}},
                   {<<"nset", {c}>> : c \in Sigma},
                   {<<"range", p[1], p[2]>> : p \in {q \in Sigma \X Sigma : q[1] <= q[2]}}, {<<"any">>} }
NamedAtoms == {<<"cls", nm>> : nm \in ClassNames} \cup {<<"nonl">>}
Zero == {<<"bol">>, <<"eol">>, <<"eps">>}
Reps == {<<0, 1>>, <<0, 2>>, <<1, 1>>, <<1, 2>>, <<1, 3>>, <<2, 2>>, <<2, 3>>, <<3, 3>>, <<0, -1>>, <<1, -1>>, <<2, -1>>}
MaxD(q) == IF Len(q) = 0 THEN 0 ELSE
           LET f[k \in 1..Len(q)] == IF k = 1 THEN Depth(q[1]) ELSE (IF Depth(q[k]) > f[k - 1] THEN Depth(q[k]) ELSE f[k - 1]) IN f[Len(q)]
\* folding the stack with seq adds Len-1 levels
Fits(q) == Len(q) = 0 \/ MaxD(q) + Len(q) - 1 <= MaxDepth
Top == stk[Len(stk)]
Pop1 == SubSeq(stk, 1, Len(stk) - 1)
Pop2 == SubSeq(stk, 1, Len(stk) - 2)

Push == /\ Len(stk) < 3
        /\ LET k == Pick(10) IN
           \E a \in (IF k <= 4 THEN Lits ELSE IF k <= 6 /\ Named THEN NamedAtoms ELSE IF k <= 8 THEN Classes ELSE IF k = 9 \/ Pick(3) > 1 THEN Zero ELSE {<<"empty">>}) :
               stk' = Append(stk, a)
        /\ Fits(stk') /\ UNCHANGED subj
Wrap == /\ Len(stk) >= 1
        /\ \/ \E t \in {"star", "plus", "opt", "sub", "sub", "nocase"} : stk' = Append(Pop1, <<t, Top>>)
           \/ Named /\ stk' = Append(Pop1, <<"ascii", Top>>)
           \/ Named /\ IsCs(Top) /\ \E t \in {"ccompl", "cnocase", "cascii"} : stk' = Append(Pop1, <<t, Top>>)
           \/ \E mn \in (IF Pick(20) = 1 THEN {<<0, 0>>} ELSE Reps) : stk' = Append(Pop1, <<"rep", mn[1], mn[2], Top>>)
        /\ Fits(stk') /\ WF(stk'[Len(stk')]) /\ Tractable(stk'[Len(stk')]) /\ UNCHANGED subj
Combine == /\ Len(stk) >= 2
           /\ \/ \E t \in {"seq", "seq", "or"} : stk' = Append(Pop2, <<t, stk[Len(stk) - 1], Top>>)
              \/ Named /\ IsCs(Top) /\ IsCs(stk[Len(stk) - 1]) /\ \E t \in {"cor", "cand", "cdiff"} : stk' = Append(Pop2, <<t, stk[Len(stk) - 1], Top>>)
           /\ WF(stk'[Len(stk')]) /\ Tractable(stk'[Len(stk')]) /\ UNCHANGED subj
Grow == /\ Len(subj) < MaxLen /\ \E c \in Sigma : subj' = Append(subj, c) /\ UNCHANGED stk

Step == LET k == Pick(12) IN
        \/ k \in 1..3 /\ Push
        \/ k \in 4..5 /\ Wrap
        \/ k \in 6..7 /\ Combine
        \/ k \in 8..12 /\ Grow
Init == stk = <<>> /\ subj = <<>> /\ tick = 0
Next == \/ Step /\ tick' = tick + 1
        \/ UNCHANGED <<stk, subj>> /\ tick' = tick + 1      \* the picked kind may be disabled: skip
Spec == Init /\ [][Next]_vars

Final == LET f[k \in 1..Len(stk)] == IF k = 1 THEN stk[1] ELSE <<"seq", f[k - 1], stk[k]>> IN f[Len(stk)]
Dump == (TLCGet("level") = D /\ Len(stk) >= 1) =>
           /\ Assert(WF(Final) /\ Tractable(Final) /\ Depth(Final) <= MaxDepth /\ Len(subj) <= MaxLen, "generator emitted a case outside the domain")
           /\ PrintT(<<"CASE", ToJson(<<Final, subj>>)>>)
=========================================================================
