------------------------------- MODULE Str -------------------------------
(* C12 -- strings are sequences of Unicode scalar values whatever the byte encoding.

   A string is a Seq of code points (integers).  The byte encoding is the *function* Utf8 below
   (integer arithmetic only); nothing in the operations refers to bytes except the conversions
   to/from UTF-8 and the byte offset of a cursor.  State: string registers reg[1..NRegs] (fresh,
   mutable strings), the literal table Lits (immutable, never a target), cursor registers, one
   input string port and one output string port.  Every action records its result in `res`
   (err = the operation must raise a Scheme error and leave the state unchanged) and its label in
   `act` (op name, integer arguments, list payload) -- the label is what the replay driver
   interprets and what StrTrace.tla dispatches on.

   Sources: an integer s denotes register s if s <= NRegs and literal s - LitBase otherwise. *)
EXTENDS Integers, Sequences, FiniteSets, SequencesExt, TLC, Utf8

CONSTANTS Alphabet,     \* code points the generator / model checker draws characters from
          NRegs,        \* number of string registers
          NCur,         \* number of cursor registers
          MaxLen,       \* bound on string lengths (model checking / generation only)
          Lits,         \* literal table: a sequence of code point sequences
          UsePorts,     \* enable the port actions (focus switch for model checking)
          UseCursors    \* enable the cursor actions

VARIABLES reg, cur, inp, outp, res, act
vars  == <<reg, cur, inp, outp, res, act>>
svars == <<reg, cur, inp, outp>>          \* the abstract string state proper

LitBase == 10
Regs    == 1..NRegs
Curs    == 1..NCur
LitSrc  == {LitBase + k : k \in 1..Len(Lits)}
Sources == Regs \cup LitSrc
Src(s)  == IF s <= NRegs THEN reg[s] ELSE Lits[s - LitBase]

-----------------------------------------------------------------------------
(* abstract array operations *)
Rep(n, c) == [k \in 1..n |-> c]
Sub(s, a, b) == SubSeq(s, a + 1, b)                     \* 0-based half-open [a, b)
InRange(s, a, b) == 0 <= a /\ a <= b /\ b <= Len(s)
\* a non-empty range that reaches outside the sequence: the operation would have to touch an element
\* that does not exist, so it must raise.  (Empty or reversed ranges outside the bounds are "an error"
\* in R7RS without any access being needed: neither outcome is fixed, such calls are not in the domain.)
MustFail(s, a, b) == a < b /\ (a < 0 \/ b > Len(s))
Ranged(s, a, b) == InRange(s, a, b) \/ MustFail(s, a, b)
SetAt(s, i, c) == [s EXCEPT ![i + 1] = c]
\* string-copy!: simultaneous (as if through a temporary), so aliasing and overlap are harmless
CopyInto(t, at, f, a, b) ==
   [k \in 1..Len(t) |-> IF k - 1 >= at /\ k - 1 < at + (b - a) THEN f[a + (k - 1 - at) + 1] ELSE t[k]]
FillIn(t, c, a, b) == [k \in 1..Len(t) |-> IF k - 1 >= a /\ k - 1 < b THEN c ELSE t[k]]
RevSeq(s) == [k \in 1..Len(s) |-> s[Len(s) + 1 - k]]
\* lexicographic order on code point sequences: -1, 0, 1
CmpSeq(x, y) ==
   LET n == IF Len(x) < Len(y) THEN Len(x) ELSE Len(y)
       D == {k \in 1..n : x[k] # y[k]}
   IN IF D = {} THEN (IF Len(x) < Len(y) THEN -1 ELSE IF Len(x) > Len(y) THEN 1 ELSE 0)
      ELSE LET k == CHOOSE k \in D : \A j \in D : k <= j IN IF x[k] < y[k] THEN -1 ELSE 1
B(p) == IF p THEN 1 ELSE 0
EOF == <<-1>>

-----------------------------------------------------------------------------
NoCur == <<0, 0>>                 \* cursor = <<source, character index>>
ClosedIn == [open |-> FALSE, s |-> 0, rest |-> <<>>]
ClosedOut == [open |-> FALSE, acc |-> <<>>]
NoAct == [op |-> "Init", a |-> <<>>, l |-> <<>>]
NoRes == [err |-> FALSE, out |-> <<>>]

Init == /\ reg = [r \in Regs |-> <<>>]
        /\ cur = [k \in Curs |-> NoCur]
        /\ inp = ClosedIn /\ outp = ClosedOut
        /\ res = NoRes /\ act = NoAct

Lab(op, a, l) == act' = [op |-> op, a |-> a, l |-> l]
Ret(o) == res' = [err |-> FALSE, out |-> o]
\* the operation raises a Scheme error; nothing observable changes
Fail == res' = [err |-> TRUE, out |-> <<>>] /\ UNCHANGED svars
DropCur(r) == [k \in Curs |-> IF cur[k][1] = r THEN NoCur ELSE cur[k]]
\* register r receives a *new* string object v (cursors into the old object are dead, an input
\* port opened on the old object keeps reading it)
Assign(r, v) == /\ Len(v) <= MaxLen
                /\ reg' = [reg EXCEPT ![r] = v]
                /\ cur' = DropCur(r)
                /\ inp' = IF inp.s = r THEN [inp EXCEPT !.s = 0] ELSE inp
\* the string object in register r is mutated in place (a port reading it is no longer usable)
Mutate(r, v) == /\ reg' = [reg EXCEPT ![r] = v]
                /\ cur' = DropCur(r)
                /\ inp' = IF inp.s = r THEN ClosedIn ELSE inp
Pure == UNCHANGED svars
Idx  == -1..(MaxLen + 1)          \* indices tried, including the out-of-range ones

-----------------------------------------------------------------------------
(* construction *)
MakeString(r, n, c) ==
   /\ Lab("MakeString", <<r, n, c>>, <<>>)
   /\ IF n >= 0 THEN Assign(r, Rep(n, c)) /\ Ret(<<>>) /\ UNCHANGED outp ELSE Fail
FromList(r, l) == Lab("FromList", <<r>>, l) /\ Assign(r, l) /\ Ret(<<>>) /\ UNCHANGED outp
StringOf(r, l) == Lab("String", <<r>>, l) /\ Assign(r, l) /\ Ret(<<>>) /\ UNCHANGED outp
\* (vector->string (list->vector l) a b)
FromVector(r, l, a, b) ==
   /\ Lab("FromVector", <<r, a, b>>, l) /\ Ranged(l, a, b)
   /\ IF InRange(l, a, b) THEN Assign(r, Sub(l, a, b)) /\ Ret(<<>>) /\ UNCHANGED outp ELSE Fail
\* (utf8->string (bytevector l...)) on well-formed bytes
FromBytes(r, l) == /\ Lab("FromBytes", <<r>>, l) /\ WellFormed(l)
                   /\ Assign(r, Decode(l)) /\ Ret(<<>>) /\ UNCHANGED outp
\* (utf8->string (string->utf8 s) ba bb): byte offsets; defined when both fall on character
\* boundaries; a non-empty byte range reaching outside the bytevector must raise
FromUtf8(r, s, ba, bb) ==
   /\ Lab("FromUtf8", <<r, s, ba, bb>>, <<>>)
   /\ LET x == Src(s) IN
      /\ (0 <= ba /\ ba <= bb /\ bb <= ByteLen(x)) \/ (ba < bb /\ (ba < 0 \/ bb > ByteLen(x)))
      /\ IF 0 <= ba /\ ba <= bb /\ bb <= ByteLen(x)
            THEN /\ IsBoundary(x, ba) /\ IsBoundary(x, bb)
                 /\ Assign(r, Sub(x, IndexOfOff(x, ba), IndexOfOff(x, bb))) /\ Ret(<<>>) /\ UNCHANGED outp
            ELSE Fail

\* the reader: (read (open-input-string text)) where text is the string literal written with \\x<hex>;
\* escapes (ReadEsc) or with the characters themselves, i.e. raw UTF-8 (ReadRaw; no quote / backslash);
\* w = 0: the native reader (the one that reads program text), w = 1: `read' of (scheme read)
ReadEsc(r, w, l) == Lab("ReadEsc", <<r, w>>, l) /\ Assign(r, l) /\ Ret(<<>>) /\ UNCHANGED outp
ReadRaw(r, w, l) == /\ Lab("ReadRaw", <<r, w>>, l) /\ \A k \in 1..Len(l) : l[k] \notin {34, 92}
                 /\ Assign(r, l) /\ Ret(<<>>) /\ UNCHANGED outp

(* element access *)
Length(s) == Lab("Length", <<s>>, <<>>) /\ Pure /\ Ret(<<Len(Src(s))>>)
Ref(s, i) == /\ Lab("Ref", <<s, i>>, <<>>)
             /\ IF i \in 0..(Len(Src(s)) - 1) THEN Pure /\ Ret(<<Src(s)[i + 1]>>) ELSE Fail
Set(r, i, c) == /\ Lab("Set", <<r, i, c>>, <<>>)
                /\ IF i \in 0..(Len(reg[r]) - 1) THEN Mutate(r, SetAt(reg[r], i, c)) /\ Ret(<<>>) /\ UNCHANGED outp ELSE Fail

(* copying; `form` is the number of optional arguments given (0: none, 1: start, 2: start end) *)
OptOK(x, form, a, b) == (form = 0 => a = 0) /\ (form <= 1 => b = Len(x))
Substring(r, s, a, b) ==
   /\ Lab("Substring", <<r, s, a, b>>, <<>>) /\ Ranged(Src(s), a, b)
   /\ IF InRange(Src(s), a, b) THEN Assign(r, Sub(Src(s), a, b)) /\ Ret(<<>>) /\ UNCHANGED outp ELSE Fail
Copy(r, s, form, a, b) ==
   /\ OptOK(Src(s), form, a, b) /\ Lab("Copy", <<r, s, form, a, b>>, <<>>) /\ Ranged(Src(s), a, b)
   /\ IF InRange(Src(s), a, b) THEN Assign(r, Sub(Src(s), a, b)) /\ Ret(<<>>) /\ UNCHANGED outp ELSE Fail
Append2(r, s1, s2) == /\ Lab("Append", <<r, s1, s2>>, <<>>)
                      /\ Assign(r, Src(s1) \o Src(s2)) /\ Ret(<<>>) /\ UNCHANGED outp
Append3(r, s1, s2, s3) == /\ Lab("Append3", <<r, s1, s2, s3>>, <<>>)
                          /\ Assign(r, Src(s1) \o Src(s2) \o Src(s3)) /\ Ret(<<>>) /\ UNCHANGED outp
\* string-copy!: only the defined domain (R7RS leaves a too-short target open)
CopyBang(t, at, s, form, a, b) ==
   /\ OptOK(Src(s), form, a, b) /\ Lab("CopyBang", <<t, at, s, form, a, b>>, <<>>)
   /\ InRange(Src(s), a, b) /\ 0 <= at /\ at + (b - a) <= Len(reg[t])
   /\ Mutate(t, CopyInto(reg[t], at, Src(s), a, b)) /\ Ret(<<>>) /\ UNCHANGED outp
Fill(r, c, form, a, b) ==
   /\ OptOK(reg[r], form, a, b) /\ Lab("Fill", <<r, c, form, a, b>>, <<>>)
   /\ InRange(reg[r], a, b)
   /\ Mutate(r, FillIn(reg[r], c, a, b)) /\ Ret(<<>>) /\ UNCHANGED outp

(* conversions out *)
ToList(s, form, a, b) ==
   /\ OptOK(Src(s), form, a, b) /\ Lab("ToList", <<s, form, a, b>>, <<>>) /\ Ranged(Src(s), a, b)
   /\ IF InRange(Src(s), a, b) THEN Pure /\ Ret(Sub(Src(s), a, b)) ELSE Fail
ToVector(s, form, a, b) ==
   /\ OptOK(Src(s), form, a, b) /\ Lab("ToVector", <<s, form, a, b>>, <<>>) /\ Ranged(Src(s), a, b)
   /\ IF InRange(Src(s), a, b) THEN Pure /\ Ret(Sub(Src(s), a, b)) ELSE Fail
ToUtf8(s, form, a, b) ==
   /\ OptOK(Src(s), form, a, b) /\ Lab("ToUtf8", <<s, form, a, b>>, <<>>) /\ Ranged(Src(s), a, b)
   /\ IF InRange(Src(s), a, b) THEN Pure /\ Ret(Utf8Seq(Sub(Src(s), a, b))) ELSE Fail

(* comparison: =, <, >, <=, >= and equal? *)
Cmp(s1, s2) ==
   /\ Lab("Cmp", <<s1, s2>>, <<>>) /\ Pure
   /\ LET d == CmpSeq(Src(s1), Src(s2)) IN
      Ret(<<B(d = 0), B(d < 0), B(d > 0), B(d <= 0), B(d >= 0), B(d = 0)>>)

(* whole-string library operations, (srfi 130) *)
StrReverse(r, s) == Lab("Reverse", <<r, s>>, <<>>) /\ Assign(r, RevSeq(Src(s))) /\ Ret(<<>>) /\ UNCHANGED outp
\* kind 0 take, 1 drop, 2 take-right, 3 drop-right
TakeDrop(r, s, kind, n) ==
   /\ Lab("TakeDrop", <<r, s, kind, n>>, <<>>) /\ n \in 0..Len(Src(s))
   /\ LET x == Src(s) m == Len(Src(s)) IN
      Assign(r, IF kind = 0 THEN Sub(x, 0, n) ELSE IF kind = 1 THEN Sub(x, n, m)
                ELSE IF kind = 2 THEN Sub(x, m - n, m) ELSE Sub(x, 0, m - n))
   /\ Ret(<<>>) /\ UNCHANGED outp

-----------------------------------------------------------------------------
(* cursors: <<source, index>>; the implementation's cursor is the byte offset ByteOff(Src, index) *)
CurOK(k) == cur[k] # NoCur
CurS(k) == Src(cur[k][1])
CurI(k) == cur[k][2]
SetCur(k, s, i) == cur' = [cur EXCEPT ![k] = <<s, i>>] /\ UNCHANGED <<reg, inp, outp>>
CurStart(k, s) == UseCursors /\ Lab("CurStart", <<k, s>>, <<>>) /\ SetCur(k, s, 0) /\ Ret(<<>>)
CurEnd(k, s) == UseCursors /\ Lab("CurEnd", <<k, s>>, <<>>) /\ SetCur(k, s, Len(Src(s))) /\ Ret(<<>>)
CurNext(k) == /\ Lab("CurNext", <<k>>, <<>>) /\ CurOK(k) /\ CurI(k) < Len(CurS(k))
              /\ SetCur(k, cur[k][1], CurI(k) + 1) /\ Ret(<<>>)
CurPrev(k) == /\ Lab("CurPrev", <<k>>, <<>>) /\ CurOK(k) /\ CurI(k) > 0
              /\ SetCur(k, cur[k][1], CurI(k) - 1) /\ Ret(<<>>)
CurForward(k, n) == /\ Lab("CurForward", <<k, n>>, <<>>) /\ CurOK(k) /\ n >= 0 /\ CurI(k) + n <= Len(CurS(k))
                    /\ SetCur(k, cur[k][1], CurI(k) + n) /\ Ret(<<>>)
CurBack(k, n) == /\ Lab("CurBack", <<k, n>>, <<>>) /\ CurOK(k) /\ n >= 0 /\ CurI(k) - n >= 0
                 /\ SetCur(k, cur[k][1], CurI(k) - n) /\ Ret(<<>>)
CurFromIndex(k, s, i) ==
   /\ UseCursors /\ Lab("CurFromIndex", <<k, s, i>>, <<>>)
   /\ IF i \in 0..Len(Src(s)) THEN SetCur(k, s, i) /\ Ret(<<>>) ELSE Fail
\* reading through a cursor: at the end cursor it is a range error
CurRef(k) == /\ Lab("CurRef", <<k>>, <<>>) /\ CurOK(k)
             /\ IF CurI(k) < Len(CurS(k)) THEN Pure /\ Ret(<<CurS(k)[CurI(k) + 1]>>) ELSE Fail
\* out: index, byte offset
CurInfo(k) == /\ Lab("CurInfo", <<k>>, <<>>) /\ CurOK(k) /\ Pure
              /\ Ret(<<CurI(k), ByteOff(CurS(k), CurI(k))>>)
\* two cursors of the same string: =, <, >, <=, >=, index difference (srfi 130 string-cursor-diff)
CurCmp(k1, k2) == /\ Lab("CurCmp", <<k1, k2>>, <<>>) /\ CurOK(k1) /\ CurOK(k2) /\ cur[k1][1] = cur[k2][1] /\ Pure
                  /\ LET d == CurI(k1) - CurI(k2) IN
                     Ret(<<B(d = 0), B(d < 0), B(d > 0), B(d <= 0), B(d >= 0), CurI(k2) - CurI(k1)>>)
SubstringCursor(r, k1, k2) ==
   /\ Lab("SubstringCursor", <<r, k1, k2>>, <<>>) /\ CurOK(k1) /\ CurOK(k2) /\ cur[k1][1] = cur[k2][1]
   /\ CurI(k1) <= CurI(k2) /\ Assign(r, Sub(CurS(k1), CurI(k1), CurI(k2))) /\ Ret(<<>>) /\ UNCHANGED outp
\* a cursor of one string used on another one, beyond its byte size: error class
CurRefOn(k, s2) == /\ Lab("CurRefOn", <<k, s2>>, <<>>) /\ CurOK(k) /\ s2 # cur[k][1]
                   /\ ByteOff(CurS(k), CurI(k)) >= ByteLen(Src(s2)) /\ Fail
CurIndexOn(k, s2) == /\ Lab("CurIndexOn", <<k, s2>>, <<>>) /\ CurOK(k) /\ s2 # cur[k][1]
                     /\ ByteOff(CurS(k), CurI(k)) > ByteLen(Src(s2)) /\ Fail
\* search: cursor of the first / last occurrence of character c (srfi 130 string-index / string-index-right);
\* string-index answers the end cursor when absent; string-index-right answers the cursor *after* the last
\* occurrence and the start cursor when absent
IndexOf(k, s, c) ==
   /\ UseCursors /\ Lab("IndexOf", <<k, s, c>>, <<>>)
   /\ LET x == Src(s) H == {i \in 1..Len(x) : x[i] = c}
          i == IF H = {} THEN Len(x) ELSE (CHOOSE i \in H : \A j \in H : i <= j) - 1
      IN SetCur(k, s, i) /\ Ret(<<>>)
IndexRight(k, s, c) ==
   /\ UseCursors /\ Lab("IndexRight", <<k, s, c>>, <<>>)
   /\ LET x == Src(s) H == {i \in 1..Len(x) : x[i] = c}
          i == IF H = {} THEN 0 ELSE (CHOOSE i \in H : \A j \in H : i >= j)
      IN SetCur(k, s, i) /\ Ret(<<>>)

-----------------------------------------------------------------------------
(* string ports *)
OpenIn(s) == /\ UsePorts /\ Lab("OpenIn", <<s>>, <<>>) /\ inp' = [open |-> TRUE, s |-> s, rest |-> Src(s)]
             /\ UNCHANGED <<reg, cur, outp>> /\ Ret(<<>>)
ReadChar == /\ Lab("ReadChar", <<>>, <<>>) /\ inp.open /\ UNCHANGED <<reg, cur, outp>>
            /\ IF inp.rest = <<>> THEN Ret(EOF) /\ UNCHANGED inp
               ELSE Ret(<<Head(inp.rest)>>) /\ inp' = [inp EXCEPT !.rest = Tail(inp.rest)]
PeekChar == /\ Lab("PeekChar", <<>>, <<>>) /\ inp.open /\ Pure
            /\ Ret(IF inp.rest = <<>> THEN EOF ELSE <<Head(inp.rest)>>)
ReadString(r, n) ==
   /\ Lab("ReadString", <<r, n>>, <<>>) /\ inp.open /\ n >= 1 /\ UNCHANGED outp
   /\ IF inp.rest = <<>> THEN Ret(EOF) /\ UNCHANGED <<reg, cur, inp>>
      ELSE LET m == IF n < Len(inp.rest) THEN n ELSE Len(inp.rest) IN
           /\ Len(SubSeq(inp.rest, 1, m)) <= MaxLen
           /\ reg' = [reg EXCEPT ![r] = SubSeq(inp.rest, 1, m)]
           /\ cur' = DropCur(r)
           /\ inp' = [open |-> TRUE, s |-> IF inp.s = r THEN 0 ELSE inp.s, rest |-> SubSeq(inp.rest, m + 1, Len(inp.rest))]
           /\ Ret(<<>>)
OutBound == 2 * MaxLen
OpenOut == UsePorts /\ Lab("OpenOut", <<>>, <<>>) /\ outp' = [open |-> TRUE, acc |-> <<>>] /\ UNCHANGED <<reg, cur, inp>> /\ Ret(<<>>)
WriteChar(c) == /\ Lab("WriteChar", <<c>>, <<>>) /\ outp.open /\ Len(outp.acc) < OutBound
                /\ outp' = [outp EXCEPT !.acc = @ \o <<c>>] /\ UNCHANGED <<reg, cur, inp>> /\ Ret(<<>>)
WriteString(s, form, a, b) ==
   /\ OptOK(Src(s), form, a, b) /\ Lab("WriteString", <<s, form, a, b>>, <<>>)
   /\ outp.open /\ InRange(Src(s), a, b) /\ Len(outp.acc) + (b - a) <= OutBound
   /\ outp' = [outp EXCEPT !.acc = @ \o Sub(Src(s), a, b)] /\ UNCHANGED <<reg, cur, inp>> /\ Ret(<<>>)
GetOut(r) == /\ Lab("GetOut", <<r>>, <<>>) /\ outp.open /\ Assign(r, outp.acc) /\ UNCHANGED outp /\ Ret(<<>>)
\* write the string to a file port; read the file back as bytes and, through a textual port, as
\* characters (peek-char before every read-char): out = bytes, -1, peeked characters; r = read characters
FileRT(r, s) == /\ UsePorts /\ Lab("FileRT", <<r, s>>, <<>>) /\ Len(Src(s)) >= 1
                /\ Assign(r, Src(s)) /\ UNCHANGED outp /\ Ret(Utf8Seq(Src(s)) \o <<-1>> \o Src(s))

-----------------------------------------------------------------------------
Strs(n) == UNION {[1..m -> Alphabet] : m \in 0..n}
NextStr ==
   \/ \E r \in Regs, n \in -1..MaxLen, c \in Alphabet : MakeString(r, n, c)
   \/ \E r \in Regs, l \in Strs(MaxLen) : FromList(r, l) \/ StringOf(r, l) \/ FromBytes(r, Utf8Seq(l))
   \/ \E r \in Regs, l \in Strs(MaxLen), w \in 0..1 : ReadEsc(r, w, l) \/ ReadRaw(r, w, l)
   \/ \E r \in Regs, l \in Strs(MaxLen), a \in Idx, b \in Idx : FromVector(r, l, a, b)
   \/ \E r \in Regs, s \in Sources, ba \in 0..(4 * MaxLen + 1), bb \in 0..(4 * MaxLen + 1) : FromUtf8(r, s, ba, bb)
   \/ \E s \in Sources : Length(s)
   \/ \E s \in Sources, i \in Idx : Ref(s, i)
   \/ \E r \in Regs, i \in Idx, c \in Alphabet : Set(r, i, c)
   \/ \E r \in Regs, s \in Sources, a \in Idx, b \in Idx : Substring(r, s, a, b)
   \/ \E r \in Regs, s \in Sources, f \in 0..2, a \in Idx, b \in Idx : Copy(r, s, f, a, b)
   \/ \E r \in Regs, s1 \in Sources, s2 \in Sources : Append2(r, s1, s2)
   \/ \E r \in Regs, s1 \in Sources, s2 \in Sources, s3 \in Sources : Append3(r, s1, s2, s3)
   \/ \E t \in Regs, at \in Idx, s \in Sources, f \in 0..2, a \in Idx, b \in Idx : CopyBang(t, at, s, f, a, b)
   \/ \E r \in Regs, c \in Alphabet, f \in 0..2, a \in Idx, b \in Idx : Fill(r, c, f, a, b)
   \/ \E s \in Sources, f \in 0..2, a \in Idx, b \in Idx : ToList(s, f, a, b) \/ ToVector(s, f, a, b) \/ ToUtf8(s, f, a, b)
   \/ \E s1 \in Sources, s2 \in Sources : Cmp(s1, s2)
   \/ \E r \in Regs, s \in Sources : StrReverse(r, s)
   \/ \E r \in Regs, s \in Sources, kind \in 0..3, n \in 0..MaxLen : TakeDrop(r, s, kind, n)
\* (UseCursors / UsePorts switch off the actions that create a cursor / open a port, hence all of them)
NextCur ==
   \/ \E k \in Curs, s \in Sources : CurStart(k, s) \/ CurEnd(k, s)
   \/ \E k \in Curs : CurNext(k) \/ CurPrev(k) \/ CurRef(k) \/ CurInfo(k)
   \/ \E k \in Curs, n \in 0..MaxLen : CurForward(k, n) \/ CurBack(k, n)
   \/ \E k \in Curs, s \in Sources, i \in Idx : CurFromIndex(k, s, i)
   \/ \E k1 \in Curs, k2 \in Curs : CurCmp(k1, k2)
   \/ \E r \in Regs, k1 \in Curs, k2 \in Curs : SubstringCursor(r, k1, k2)
   \/ \E k \in Curs, s \in Sources : CurRefOn(k, s) \/ CurIndexOn(k, s)
   \/ \E k \in Curs, s \in Sources, c \in Alphabet : IndexOf(k, s, c) \/ IndexRight(k, s, c)
NextPort ==
   \/ \E s \in Sources : OpenIn(s)
   \/ ReadChar \/ PeekChar \/ OpenOut
   \/ \E r \in Regs, n \in 1..(MaxLen + 1) : ReadString(r, n)
   \/ \E c \in Alphabet : WriteChar(c)
   \/ \E s \in Sources, f \in 0..2, a \in Idx, b \in Idx : WriteString(s, f, a, b)
   \/ \E r \in Regs : GetOut(r)
   \/ \E r \in Regs, s \in Sources : FileRT(r, s)
Next == NextStr \/ NextCur \/ NextPort
Spec == Init /\ [][Next]_vars

-----------------------------------------------------------------------------
(* invariants: the encoding really is a faithful representation of the abstract array *)
LiveStrings == {reg[r] : r \in Regs} \cup {inp.rest, outp.acc}
AllStrings == LiveStrings \cup {Lits[k] : k \in 1..Len(Lits)}
TypeOK == /\ \A r \in Regs : reg[r] \in Seq(Nat) /\ \A k \in 1..Len(reg[r]) : IsScalar(reg[r][k])
          /\ \A k \in Curs : cur[k] = NoCur \/ (cur[k][1] \in Sources /\ cur[k][2] \in 0..Len(Src(cur[k][1])))
          /\ res.err \in BOOLEAN
\* string-length = number of characters = number of non-continuation bytes of the encoding
LenIsCountOn(S) == \A s \in S :
                      LET b == Utf8Seq(s) IN /\ Len(b) = ByteLen(s)
                                             /\ CharsBefore(b, Len(b)) = Len(s)
\* decoding the encoding gives the characters back, and the encoding is well formed
Utf8RoundTripOn(S) == \A s \in S : Decode(Utf8Seq(s)) = s
\* index <-> byte offset is a bijection between 0..Len and the character boundaries
CursorIndexBijectionOn(S) ==
   \A s \in S :
      LET b == Utf8Seq(s)
          Bnd == {off \in 0..Len(b) : off = Len(b) \/ ~IsCont(b[off + 1])}
      IN /\ {ByteOff(s, i) : i \in 0..Len(s)} = Bnd
         /\ \A i \in 0..Len(s) : CharsBefore(b, ByteOff(s, i)) = i
         /\ \A i \in 0..Len(s), j \in 0..Len(s) : i < j => ByteOff(s, i) < ByteOff(s, j)
LenIsCount == LenIsCountOn(AllStrings)
Utf8RoundTrip == /\ \A c \in Alphabet : IsScalar(c) /\ Len(Utf8(c)) = Width(c) /\ Decode(Utf8(c)) = <<c>>
                 /\ Utf8RoundTripOn(AllStrings)
CursorIndexBijection == CursorIndexBijectionOn(AllStrings)
\* the same over the strings that change (used when validating implementation traces: the literals are constant)
LiveLenIsCount == LenIsCountOn(LiveStrings)
LiveUtf8RoundTrip == Utf8RoundTripOn(LiveStrings)
LiveCursorIndexBijection == CursorIndexBijectionOn(LiveStrings)
\* an error leaves the abstract state alone
ErrKeepsState == [][res'.err => UNCHANGED svars]_vars
=============================================================================
