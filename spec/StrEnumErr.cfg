SPECIFICATION EnumSpec
CONSTANTS
  Alphabet <- Two
  NRegs = 2
  NCur = 2
  MaxLen = 4
  Lits <- LitsFull
  UsePorts = TRUE
  UseCursors = TRUE
CONSTRAINT OneStep
INVARIANT PrintErr
CHECK_DEADLOCK FALSE
