---------------------------- MODULE HeapGen ----------------------------
(* Behaviour generation for the micro-heap replay: TLC -simulate walks Heap's
   actions (first-fit placement = the implementation's policy, so that the
   replayed action sequence stays enabled), a history variable records the
   action labels, and the history is printed as JSON when the trace is D long.
   Action kinds are weighted with RandomElement so that collections, growth
   and root changes are frequent. *)
EXTENDS HeapMC, Json
CONSTANT D
VARIABLES hist, tick
gvars == <<vars, hist, tick>>
GenInit == Init /\ hist = <<>> /\ tick = 0
Pick == RandomElement(IF tick >= 0 THEN 1..12 ELSE {})  \* mentions a variable so that TLC does not cache it as a constant
GenStep ==
   LET k == Pick IN
   \/ /\ k \in 1..4
      /\ \E i \in Ids, shape \in Menu, s \in SegIdx, dk \in DestKinds, r \in Regs :
              \E j \in 1..Len(free[s]) : (dk # "reg" => r = 1) /\ Alloc(i, shape, s, j, dk, r)
   \/ /\ k \in 5..6 /\ \E i \in Ids, x \in 1..3, v \in Ids \cup {NoId} : SetSlot(i, x, v)
   \/ /\ k = 7 /\ \E r \in Regs, v \in Ids \cup {NoId} : SetReg(r, v)
   \/ /\ k = 8 /\ ((\E v \in Ids : PushSave(v)) \/ PopSave)
   \/ /\ k = 9 /\ \E r \in Regs : SetReg(r, NoId)
   \/ /\ k = 10 /\ \E n \in GrowSizes : Grow(n)
   \/ /\ k \in 11..12 /\ Collect
   \/ ObserveFin
GenNext == \/ GenStep /\ hist' = Append(hist, lastAct') /\ tick' = tick + 1
           \/ UNCHANGED <<vars, hist>> /\ tick' = tick + 1      \* the picked kind may be disabled: skip
GenSpec == GenInit /\ [][GenNext]_gvars
Dump == (TLCGet("level") = D) => PrintT(<<"HIST", ToJson(hist)>>)
GenConstraint == Len(saves) <= MaxSaves
=======================================================================
