------------------------------ MODULE StrMC ------------------------------
(* model-checking / generation constants for Str (cfg files cannot hold tuples) *)
EXTENDS Str
\* the literal table of harness/scm/strdrv.scm (the driver logs its literals; StrTrace compares)
LitsFull == << <<>>,
               <<65>>,
               <<128>>,
               <<2048, 65>>,
               <<65536, 2047, 127>>,
               <<65, 128, 2048, 65536>>,
               <<1114111, 65535, 2047, 127>>,
               <<65535, 65, 65, 1114111>> >>
LitsSmall == << <<>>, <<65536, 128>> >>
LitsNone == << >>
Boundary8 == {65, 127, 128, 2047, 2048, 65535, 65536, 1114111}
Classes4 == {127, 128, 2048, 65536}
Three == {65, 2047, 65536}
Two == {128, 65536}
\* U+0000 and the neighbours of the surrogate gap
NulSet == {0, 65, 128, 55295, 57344, 65533, 65536}
LongSet == {65, 127, 128, 2047, 2048, 65535, 65536, 1114111, 97, 233, 8364}
\* hide the result / label ghosts from the fingerprint
View == svars
=========================================================================
