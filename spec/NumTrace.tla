---------------------------- MODULE NumTrace ----------------------------
(* C04 trace validation: every recorded call of harness/scm/numdrv.scm is accepted or rejected by
   Num!AcceptNum.  A rejected case is printed (CASE_REJECTED id) and counted; the whole trace is
   consumed so that one TLC run judges every case of the shard.                                   *)
EXTENDS Num, Json, IOUtils, TLC
TraceLog == ndJsonDeserialize(IOEnv.TRACE)
VARIABLES l, rej
Ev == TraceLog[l]
TCall == /\ l <= Len(TraceLog) /\ Ev.e = "Call" /\ l' = l + 1
         /\ IF AcceptNum(Ev) THEN rej' = rej
            ELSE PrintT(<<"CASE_REJECTED", Ev.id>>) /\ TLCSet(42, TLCGet(42) + 1) /\ rej' = rej + 1
TraceInit == l = 1 /\ rej = 0 /\ TLCSet(42, 0)
TraceSpec == TraceInit /\ [][TCall]_<<l, rej>>
Accepted == LET d == TLCGet("stats").diameter
            IN IF d - 1 = Len(TraceLog) /\ TLCGet(42) = 0 THEN TRUE
               ELSE PrintT(<<"TRACE_REJECTED", d - 1, Len(TraceLog), TLCGet(42)>>) /\ FALSE
=========================================================================
