SPECIFICATION BuildSpec
CONSTANTS
  Graph <- SmallGraph
  MaxDepth = 2
  MaxIds = 1
  Pfx = {"p", "q:"}
  Pool = {"z"}
  CopyImmediates = FALSE
  MaxEnvs = 2
  MaxTicks = 2
  StartLibs = {3}
INVARIANTS
  LawWF LawAgree LawNoInvent LawBindingsExist LawPrefixDrop LawPartition LawRename LawSwap
CHECK_DEADLOCK FALSE
