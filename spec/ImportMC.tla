---------------------------- MODULE ImportMC ----------------------------
(* Model checking of Import.tla / ImportRun.tla on a small library graph, and the generator of
   import-set expressions (the same builder machine is pointed at the generated graphs by ImportGen.tla).

   BuildSpec: the state is one import-set expression e; a step wraps e in one more modifier (all
   well-formed choices), up to nesting depth MaxDepth.  TLC thus enumerates every well-formed
   expression and checks the algebraic laws of the specification on each one.
   RunSpec: programs import sets drawn from MCSets one after the other and refer to names. *)
EXTENDS ImportRun
CONSTANTS MaxDepth, MaxIds, Pfx, Pool, MaxTicks, StartLibs, CopyImmediates, MaxEnvs
VARIABLES e, d,
          lcells,   \* (RunSpec) lcells[l] : frame of the instantiated library l : identifier in its scope -> cell
          envs      \* (RunSpec) live importers created so far: [sets, immut, cells]
bvars == <<e, d>>
ovars == <<lcells, envs>>

P == Prefix(Lib(1), "p")
SmallGraph == <<
   \* a 3-name library with one renamed export; variables holding a heap value, a fixnum, a character; a macro /
   \* procedure / tick around a private helper; bump assigns the variables
   [imports |-> <<>>,
    defs |-> <<<<"a", "var", "list", 1>>, <<"pb", "var", "fix", 2>>, <<"i", "var", "char", 3>>, <<"m", "mac", "", 0>>,
               <<"h1", "priv", "", 0>>, <<"g", "proc", "", 0>>, <<"t", "tick", "", 0>>, <<"bp", "bump", "", 0>>>>,
    exports |-> <<<<"a", "a">>, <<"pb", "pb">>, <<"o", "i">>>>],
   \* imports it with a prefix, re-exports its renamed export under a third name, reads an imported variable itself
   [imports |-> <<P>>,
    defs |-> <<<<"a", "var", "bool", 4>>, <<"t", "tick", "", 0>>, <<"m", "mac", "", 0>>, <<"h1", "var", "list", 5>>,
               <<"h2", "priv", "", 0>>, <<"r", "rd", "ppb", 0>>, <<"bp", "bump", "", 0>>>>,
    exports |-> <<<<"a", "a">>, <<"x", "po">>, <<"t", "t">>, <<"pm", "m">>, <<"r", "r">>, <<"bp", "bp">>>>],
   \* a diamond: both libraries again, one binding under two names, a reader through the re-export chain,
   \* a relay that makes library 2 assign its variables
   [imports |-> <<Only(Lib(1), <<"o">>), Rename(Only(Lib(2), <<"x", "t", "bp", "a">>), <<<<"x", "y">>, <<"a", "f">>>>)>>,
    defs |-> <<<<"g", "proc", "", 0>>, <<"h3", "priv", "", 0>>, <<"rr", "rd", "y", 0>>, <<"rf", "rd", "f", 0>>, <<"rl", "relay", "bp", 0>>>>,
    exports |-> <<<<"o", "o">>, <<"y", "y">>, <<"g", "g">>, <<"t2", "t">>, <<"rr", "rr">>, <<"rf", "rf">>, <<"rl", "rl">>, <<"f", "f">>>>] >>

N(x) == NamesG(tab, x)
W(x) == WFG(tab, x)
Dom(x) == DOMAIN N(x)
Small(S) == {X \in SUBSET S : Cardinality(X) \in 1..MaxIds}
WrapsK(x, k) ==
   LET D == Dom(x) IN
   CASE k = 1 -> {Only(x, SetToSeq(X)) : X \in Small(D)}
     [] k = 2 -> {Except(x, SetToSeq(X)) : X \in Small(D)}
     [] k = 3 -> {Rename(x, <<<<a, b>>>>) : a \in D, b \in Pool \ D}
     [] k = 4 -> {Rename(x, <<<<sq[1], sq[2]>>, <<sq[2], sq[1]>>>>) : sq \in {SetToSeq(X) : X \in {Y \in SUBSET D : Cardinality(Y) = 2}}}   \* swap
     [] k = 5 -> {Rename(x, <<<<pr[1], pr[2]>>, <<pr[2], b>>>>) : pr \in {q \in D \X D : q[1] # q[2]}, b \in Pool \ D}   \* chain
     [] k = 6 -> {Prefix(x, p) : p \in Pfx}
     [] k = 7 -> {Drop(x, p) : p \in {q \in Pfx : D # {} /\ \A m \in D : HasPrefix(m, q)}}
WKinds == 1..7
Wraps(x) == UNION {WrapsK(x, k) : k \in WKinds}

BInit == /\ d = 0 /\ e \in {Lib(l) : l \in StartLibs}
BNext == /\ d < MaxDepth /\ d' = d + 1 /\ e' \in Wraps(e)
BuildSpec == BInit /\ RInit /\ lcells = <<>> /\ envs = <<>> /\ [][BNext /\ UNCHANGED <<rvars, tab, ovars>>]_<<bvars, rvars, tab, ovars>>

(* ---------------- laws of the specification itself ---------------- *)
Univ(x) == LET B == GraphNamesG(tab) \cup Pool \cup Dom(x)
           IN B \cup {p \o n : p \in Pfx, n \in B} \cup UNION {{Strip(n, p) : n \in {m \in B : HasPrefix(m, p)}} : p \in Pfx}
LawWF == W(e) /\ Depth(e) = d
\* forward and backward formulation agree, name by name, also on names that are not visible
LawAgree == LET M == N(e) IN \A n \in Univ(e) : LookupG(tab, e, n) = (IF n \in DOMAIN M THEN M[n] ELSE None)
\* no modifier invents a binding or reaches one the library does not export
LawNoInvent == LET M == N(e) IN {M[n] : n \in DOMAIN M} \subseteq {tab[Base(e)][n] : n \in DOMAIN tab[Base(e)]}
LawBindingsExist == LET M == N(e) IN \A n \in DOMAIN M : M[n] \in Bindings
\* prefix then drop-prefix is the identity; drop-prefix then prefix too where drop-prefix is defined
LawPrefixDrop == LET M == N(e) IN
                 \A p \in Pfx :
                    /\ W(Drop(Prefix(e, p), p)) /\ N(Drop(Prefix(e, p), p)) = M
                    /\ W(Drop(e, p)) => N(Prefix(Drop(e, p), p)) = M
\* only / except partition the set
LawPartition == LET M == N(e) IN
                \A X \in SUBSET DOMAIN M :
                   LET o == N(Only(e, SetToSeq(X)))
                       x == N(Except(e, SetToSeq(X)))
                   IN /\ DOMAIN o = X /\ DOMAIN x = (DOMAIN M) \ X
                      /\ \A n \in X : o[n] = M[n]
                      /\ \A n \in (DOMAIN M) \ X : x[n] = M[n]
\* only after rename selects by the new name and yields the old binding; renaming back is the identity
LawRename == LET M == N(e)
                 D == DOMAIN M
             IN \A a \in D : \A z \in Pool \ D :
                LET r == Rename(e, <<<<a, z>>>>)
                    R == N(r)
                IN /\ W(r) /\ W(Only(r, <<z>>)) /\ ~W(Only(r, <<a>>))
                   /\ N(Only(r, <<z>>)) = (z :> M[a])
                   /\ N(Rename(r, <<<<z, a>>>>)) = M
                   /\ DOMAIN R = (D \ {a}) \cup {z}
LawSwap == LET M == N(e)
               D == DOMAIN M
           IN \A a, b \in D : a # b =>
                LET r == Rename(e, <<<<a, b>>, <<b, a>>>>)
                    R == N(r)
                IN /\ W(r) /\ DOMAIN R = D /\ R[a] = M[b] /\ R[b] = M[a]
                   /\ ~W(Rename(e, <<<<a, b>>>>))

(* ---------------- the dynamic part on the same graph ----------------
   Second, operational formulation of what an importer holds (how an implementation does it, level by level):
   an environment frame maps each imported identifier to a CELL found by looking the exported name up in the
   exporting library's own frame - <<"loc", b>> (an alias of location b) - never to a value.  CopyImmediates = TRUE
   is the tempting shortcut "an immutable import of an immediate constant cannot change, bind the value":
   the model checker shows that SameLocation then fails as soon as the exporter assigns its variable. *)
NoCells == <<>>
\* visible name -> exported name of the base library (the association list an import set resolves to)
IdTab == [l \in Libs |-> [x \in {p[1] : p \in Rng(Graph[l].exports)} |-> <<l, x>>]]
AList(x) == LET M == NamesG(IdTab, x) IN [n \in DOMAIN M |-> M[n][2]]
IntOf(l, ext) == (CHOOSE p \in Rng(Graph[l].exports) : p[1] = ext)[2]
Snap(cell, immut) == IF CopyImmediates /\ immut /\ cell[1] = "loc" /\ Kind(cell[2]) = "var" /\ Immediate(cell[2])
                     THEN <<"copy", Cur(cell[2])>> ELSE cell
ImportCells(x, immut) == LET A == AList(x) IN [n \in DOMAIN A |-> Snap(lcells[Base(x)][IntOf(Base(x), A[n])], immut)]
MergeCells(sets, immut) == LET maps == [i \in DOMAIN sets |-> ImportCells(sets[i], immut)]
                           IN [n \in UNION {DOMAIN maps[i] : i \in DOMAIN maps} |-> maps[CHOOSE i \in DOMAIN maps : n \in DOMAIN maps[i]][n]]
OwnCells(l) == [n \in DefNames(l) |-> <<"loc", <<l, n>>>>]
ReadCell(c) == IF c[1] = "loc" THEN Cur(c[2]) ELSE c[2]

MCSets == { <<Lib(1)>>, <<Lib(2)>>, <<Lib(3)>>, <<Prefix(Lib(2), "q:"), Only(Lib(1), <<"o">>)>>,
            <<Rename(Lib(3), <<<<"t2", "t">>>>), Only(Lib(2), <<"t", "bp">>)>> }
MCNames == {"a", "o", "y", "t", "t2", "q:t", "g", "pm", "i", "pb", "r", "rr", "rf", "rl", "bp", "q:bp", "f"}
BatchNames == {"o", "t", "r", "rl", "bp", "f"}
Keep == UNCHANGED <<bvars, tab>>
DoBegin == Keep /\ Len(envs) < MaxEnvs /\ UNCHANGED ovars /\ \E s \in MCSets : BeginImport(s)
\* the library's frame: its own definitions and what its import declarations bring (libraries import immutably)
DoBody == Keep /\ UNCHANGED envs /\ \E l \in Libs :
             /\ Body(l)
             /\ lcells' = [lcells EXCEPT ![l] = OwnCells(l) @@ MergeCells(Graph[l].imports, TRUE)]
\* the importer is an environment (immutable import) or a program
DoEnd == Keep /\ UNCHANGED lcells /\ EndImport
              /\ \E im \in BOOLEAN : envs' = Append(envs, [sets |-> cur, immut |-> im, cells |-> MergeCells(cur, im)])
DoRefer == Keep /\ UNCHANGED ovars /\ \E n \in MCNames : Refer(n, Expected(Vis, ticks, vers, n)[1], Expected(Vis, ticks, vers, n)[2])
DoDiscard == Keep /\ UNCHANGED ovars /\ Discard
\* somebody calls the bump procedure of an instantiated library
DoBump == Keep /\ UNCHANGED ovars /\ \E l \in Libs :
             /\ inst[l] = 1 /\ \E dd \in Rng(Graph[l].defs) : dd[2] = "bump"
             /\ vers' = [vers EXCEPT ![l] = @ + 1] /\ UNCHANGED <<inst, ticks, phase, cur>>
RNext == DoBegin \/ DoBody \/ DoEnd \/ DoRefer \/ DoDiscard \/ DoBump
RunSpec == RInit /\ d = 0 /\ e = Lib(1) /\ lcells = [l \in Libs |-> NoCells] /\ envs = <<>>
           /\ [][RNext]_<<bvars, rvars, tab, ovars>>
RunConstraint == \A l \in Libs : ticks[l] <= MaxTicks /\ vers[l] <= MaxTicks

\* THE aliasing invariant: every identifier that denotes a binding - in a program, an environment, a library that
\* imported it through any chain of modifiers and re-exports - holds that location and reads its current value
SameLocation ==
   /\ \A k \in DOMAIN envs :
         LET V == VisibleG(tab, envs[k].sets) IN
         /\ DOMAIN envs[k].cells = DOMAIN V
         /\ \A n \in DOMAIN V : Kind(V[n]) = "var" => ReadCell(envs[k].cells[n]) = Cur(V[n])
         /\ \A n \in DOMAIN V : envs[k].cells[n][1] = "loc" => envs[k].cells[n][2] = V[n]
   /\ \A l \in Libs : inst[l] = 1 =>
         /\ DOMAIN lcells[l] = DefNames(l) \cup DOMAIN ImportedG(SubSeq(tab, 1, l - 1), l)
         /\ \A n \in DOMAIN lcells[l] :
               LET b == BindInG(tab, l, n) IN
               /\ Kind(b) = "var" => ReadCell(lcells[l][n]) = Cur(b)
               /\ lcells[l][n][1] = "loc" => lcells[l][n][2] = b
\* the batch formula used by the trace specification = referring to the names one at a time
RECURSIVE SeqExpected(_, _, _, _)
SeqExpected(vis, tk, vs, ns) ==
   IF ns = <<>> THEN <<>>
   ELSE <<Expected(vis, tk, vs, Head(ns))>> \o
        SeqExpected(vis, Bumped(tk, "tick", Effect(vis, Head(ns))), Bumped(vs, "ver", Effect(vis, Head(ns))), Tail(ns))
LawBatch == phase = "ready" =>
               \A ns \in UNION {[1..k -> BatchNames] : k \in 0..2} :
                   BatchExpected(Vis, ticks, vers, ns) = SeqExpected(Vis, ticks, vers, ns)
\* two names for one binding behave alike: same value, same counter
LawShared == phase = "ready" =>
               \A n, m \in DOMAIN Vis : Vis[n] = Vis[m] => Expected(Vis, ticks, vers, n) = Expected(Vis, ticks, vers, m)
MCSetsWF == GraphWF /\ \A s \in MCSets : SetsWFG(tab, s)
=============================================================================
