---------------------------- MODULE ImportMC ----------------------------
(* Model checking of Import.tla / ImportRun.tla on a small library graph, and the generator of
   import-set expressions (the same builder machine is pointed at the generated graphs by ImportGen.tla).

   BuildSpec: the state is one import-set expression e; a step wraps e in one more modifier (all
   well-formed choices), up to nesting depth MaxDepth.  TLC thus enumerates every well-formed
   expression and checks the algebraic laws of the specification on each one.
   RunSpec: programs import sets drawn from MCSets one after the other and refer to names. *)
EXTENDS ImportRun
CONSTANTS MaxDepth, MaxIds, Pfx, Pool, MaxTicks, StartLibs
VARIABLES e, d
bvars == <<e, d>>

P == Prefix(Lib(1), "p")
SmallGraph == <<
   \* a 3-name library with one renamed export, a macro / procedure / tick around a private helper
   [imports |-> <<>>,
    defs |-> <<<<"a", "var">>, <<"pb", "var">>, <<"i", "var">>, <<"m", "mac">>, <<"h1", "priv">>, <<"g", "proc">>, <<"t", "tick">>>>,
    exports |-> <<<<"a", "a">>, <<"pb", "pb">>, <<"o", "i">>>>],
   \* imports it with a prefix, re-exports its renamed export under a third name, exports the other kinds
   [imports |-> <<P>>,
    defs |-> <<<<"a", "var">>, <<"t", "tick">>, <<"m", "mac">>, <<"h1", "var">>, <<"h2", "priv">>>>,
    exports |-> <<<<"a", "a">>, <<"x", "po">>, <<"t", "t">>, <<"pm", "m">>>>],
   \* a diamond: both libraries again, re-exporting one binding under two names
   [imports |-> <<Only(Lib(1), <<"o">>), Rename(Only(Lib(2), <<"x", "t">>), <<<<"x", "y">>>>)>>,
    defs |-> <<<<"g", "proc">>, <<"h3", "priv">>>>,
    exports |-> <<<<"o", "o">>, <<"y", "y">>, <<"g", "g">>, <<"t2", "t">>>>] >>

N(x) == NamesG(tab, x)
W(x) == WFG(tab, x)
Dom(x) == DOMAIN N(x)
Small(S) == {X \in SUBSET S : Cardinality(X) \in 1..MaxIds}
WrapsK(x, k) ==
   LET D == Dom(x) IN
   CASE k = 1 -> {Only(x, SetToSeq(X)) : X \in Small(D)}
     [] k = 2 -> {Except(x, SetToSeq(X)) : X \in Small(D)}
     [] k = 3 -> {Rename(x, <<<<a, b>>>>) : a \in D, b \in Pool \ D}
     [] k = 4 -> {Rename(x, <<<<pr[1], pr[2]>>, <<pr[2], pr[1]>>>>) : pr \in {q \in D \X D : q[1] # q[2]}}      \* swap
     [] k = 5 -> {Rename(x, <<<<pr[1], pr[2]>>, <<pr[2], b>>>>) : pr \in {q \in D \X D : q[1] # q[2]}, b \in Pool \ D}   \* chain
     [] k = 6 -> {Prefix(x, p) : p \in Pfx}
     [] k = 7 -> {Drop(x, p) : p \in {q \in Pfx : D # {} /\ \A m \in D : HasPrefix(m, q)}}
WKinds == 1..7
Wraps(x) == UNION {WrapsK(x, k) : k \in WKinds}

BInit == /\ d = 0 /\ e \in {Lib(l) : l \in StartLibs}
BNext == /\ d < MaxDepth /\ d' = d + 1 /\ e' \in Wraps(e)
BuildSpec == BInit /\ RInit /\ [][BNext /\ UNCHANGED <<rvars, tab>>]_<<bvars, rvars, tab>>

(* ---------------- laws of the specification itself ---------------- *)
Univ(x) == LET B == GraphNamesG(tab) \cup Pool \cup Dom(x)
           IN B \cup {p \o n : p \in Pfx, n \in B} \cup UNION {{Strip(n, p) : n \in {m \in B : HasPrefix(m, p)}} : p \in Pfx}
LawWF == W(e) /\ Depth(e) = d
\* forward and backward formulation agree, name by name, also on names that are not visible
LawAgree == LET M == N(e) IN \A n \in Univ(e) : LookupG(tab, e, n) = (IF n \in DOMAIN M THEN M[n] ELSE None)
\* no modifier invents a binding or reaches one the library does not export
LawNoInvent == LET M == N(e) IN {M[n] : n \in DOMAIN M} \subseteq {tab[Base(e)][n] : n \in DOMAIN tab[Base(e)]}
LawBindingsExist == LET M == N(e) IN \A n \in DOMAIN M : M[n] \in Bindings
\* prefix then drop-prefix is the identity; drop-prefix then prefix too where drop-prefix is defined
LawPrefixDrop == LET M == N(e) IN
                 \A p \in Pfx :
                    /\ W(Drop(Prefix(e, p), p)) /\ N(Drop(Prefix(e, p), p)) = M
                    /\ W(Drop(e, p)) => N(Prefix(Drop(e, p), p)) = M
\* only / except partition the set
LawPartition == LET M == N(e) IN
                \A X \in SUBSET DOMAIN M :
                   LET o == N(Only(e, SetToSeq(X)))
                       x == N(Except(e, SetToSeq(X)))
                   IN /\ DOMAIN o = X /\ DOMAIN x = (DOMAIN M) \ X
                      /\ \A n \in X : o[n] = M[n]
                      /\ \A n \in (DOMAIN M) \ X : x[n] = M[n]
\* only after rename selects by the new name and yields the old binding; renaming back is the identity
LawRename == LET M == N(e)
                 D == DOMAIN M
             IN \A a \in D : \A z \in Pool \ D :
                LET r == Rename(e, <<<<a, z>>>>)
                    R == N(r)
                IN /\ W(r) /\ W(Only(r, <<z>>)) /\ ~W(Only(r, <<a>>))
                   /\ N(Only(r, <<z>>)) = (z :> M[a])
                   /\ N(Rename(r, <<<<z, a>>>>)) = M
                   /\ DOMAIN R = (D \ {a}) \cup {z}
LawSwap == LET M == N(e)
               D == DOMAIN M
           IN \A a, b \in D : a # b =>
                LET r == Rename(e, <<<<a, b>>, <<b, a>>>>)
                    R == N(r)
                IN /\ W(r) /\ DOMAIN R = D /\ R[a] = M[b] /\ R[b] = M[a]
                   /\ ~W(Rename(e, <<<<a, b>>>>))

(* ---------------- the dynamic part on the same graph ---------------- *)
MCSets == { <<Lib(1)>>, <<Lib(2)>>, <<Lib(3)>>, <<Prefix(Lib(2), "q:"), Only(Lib(1), <<"o">>)>>,
            <<Rename(Lib(3), <<<<"t2", "t">>>>), Only(Lib(2), <<"t">>)>> }
MCNames == {"a", "o", "x", "y", "t", "t2", "q:t", "g", "m", "pm", "i", "h1"}
Keep == UNCHANGED <<bvars, tab>>
DoBegin == Keep /\ \E s \in MCSets : BeginImport(s)
DoBody == Keep /\ \E l \in Libs : Body(l)
DoEnd == Keep /\ EndImport
DoRefer == Keep /\ \E n \in MCNames : Refer(n, Expected(Vis, ticks, n)[1], Expected(Vis, ticks, n)[2])
DoDiscard == Keep /\ Discard
RNext == DoBegin \/ DoBody \/ DoEnd \/ DoRefer \/ DoDiscard
RunSpec == RInit /\ d = 0 /\ e = Lib(1) /\ [][RNext]_<<bvars, rvars, tab>>
RunConstraint == \A l \in Libs : ticks[l] <= MaxTicks
\* the batch formula used by the trace specification = referring to the names one at a time
RECURSIVE SeqExpected(_, _, _)
SeqExpected(vis, tk, ns) == IF ns = <<>> THEN <<>>
                            ELSE <<Expected(vis, tk, Head(ns))>> \o SeqExpected(vis, After(vis, tk, Head(ns)), Tail(ns))
LawBatch == phase = "ready" =>
               \A ns \in UNION {[1..k -> MCNames] : k \in 0..2} :
                   BatchExpected(Vis, ticks, ns) = SeqExpected(Vis, ticks, ns)
\* two importers of one library see one counter: the same binding under every visible name
LawShared == phase = "ready" =>
               \A n, m \in DOMAIN Vis : Vis[n] = Vis[m] => Expected(Vis, ticks, n) = Expected(Vis, ticks, m)
MCSetsWF == GraphWF /\ \A s \in MCSets : SetsWFG(tab, s)
=============================================================================
