SPECIFICATION GenSpec
CONSTANTS
  Ids = {1, 2, 3, 4, 5, 6}
  NoId = 0
  Menu <- MenuW
  InitSeg = 12
  GrowSizes = {24}
  MaxSegs = 2
  NRegs = 3
  TiedRegs = FALSE
  MaxSaves = 3
  AllowTmp = FALSE
  FirstFitOnly = TRUE
  D = 40
CONSTRAINT GenConstraint
INVARIANTS Dump Tiling FreeSorted RefsValid NoPrematureFree HeldValid NoLeak EphSound
