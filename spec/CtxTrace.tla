---------------------------- MODULE CtxTrace ----------------------------
(* Validates the log of harness/c/ctxpar.c: every OS thread creates its own context, loads the standard
   environment and C-backed libraries, runs its own workload (with collections), probes for the globals /
   symbols of the other threads, and destroys the context - first alone ("solo"), then all at once
   ("par").  NonInterference for the implementation: the result of thread t in the concurrent phase
   equals its solo result, no foreign definition is visible, every started thread finished. *)
EXTENDS Integers, Sequences, FiniteSets, TLC, Json, IOUtils
TraceLog == ndJsonDeserialize(IOEnv.TRACE)
VARIABLES l, solo, started, finished
vars == <<l, solo, started, finished>>
Ev == TraceLog[l]
IsEvent(e) == l <= Len(TraceLog) /\ Ev.e = e /\ l' = l + 1
Init == l = 1 /\ solo = [t \in {} |-> ""] /\ started = {} /\ finished = {}
TRound == /\ IsEvent("Round") /\ started = finished          \* a new round starts only when every thread of the last one finished
          /\ started' = {} /\ finished' = {} /\ UNCHANGED solo
TStart == /\ IsEvent("Start") /\ started' = started \cup {Ev.t} /\ UNCHANGED <<solo, finished>>
TResult == /\ IsEvent("Result") /\ Ev.t \in started /\ Ev.t \notin finished
           /\ Ev.ok = 1                                   \* context created, libraries loaded, workload evaluated to a value
           /\ Ev.foreign = 0                               \* no global / symbol value of another context is visible
           /\ IF Ev.mode = "solo"
              THEN solo' = [t \in DOMAIN solo \cup {Ev.t} |-> IF t = Ev.t THEN Ev.res ELSE solo[t]]
              ELSE Ev.t \in DOMAIN solo /\ Ev.res = solo[Ev.t] /\ UNCHANGED solo
           /\ finished' = finished \cup {Ev.t} /\ UNCHANGED started
TDone == /\ IsEvent("Done") /\ started = finished /\ UNCHANGED <<solo, started, finished>>
Next == TRound \/ TStart \/ TResult \/ TDone
Spec == Init /\ [][Next]_vars
Accepted == LET d == TLCGet("stats").diameter IN
            IF d - 1 = Len(TraceLog) /\ TraceLog[Len(TraceLog)].e = "Done" THEN TRUE
            ELSE PrintT(<<"TRACE_REJECTED_AT", d, Len(TraceLog)>>) /\ FALSE
=========================================================================
