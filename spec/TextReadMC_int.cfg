SPECIFICATION Spec
CONSTANTS N = 3
          Mode = "int"
INVARIANTS NamedEscapes RoundTripShared RoundTripCyclic RoundTripPlain BadLabels NumberGrammar IdentOrNumber InfNan Horner EscapeInverse
CHECK_DEADLOCK FALSE
