SPECIFICATION Spec
CONSTANTS N = 2
          Mode = "pairs"
INVARIANTS WF IsoRefl IsoSym IsoImpliesEqual IsoIsCanon EqualIsUnfold TreeIso CycleDef CyclicUnfoldsForever
CHECK_DEADLOCK FALSE
