---------------------------- MODULE Fd ----------------------------
(* C16, resources: descriptors owned by port / fileno objects.  A descriptor is closed
   exactly once: either by an explicit close of its (reachable) owner, or by the
   finalizer during a collection that found the owner unreachable - never while the
   owner is reachable, and at the latest by the first collection after it was dropped. *)
EXTENDS Integers, FiniteSets, TLC
CONSTANTS Slots, Fds
VARIABLES slotfd,     \* slotfd[s] : descriptor held (reachable) through slot s, or -1
          open,       \* set of descriptors currently open in the process (owned by our objects)
          dropped,    \* subset of open : owner no longer reachable
          phase,      \* "run" | "closing" | "collecting"
          target      \* descriptor being closed explicitly (phase = "closing")
vars == <<slotfd, open, dropped, phase, target>>

Init == /\ slotfd = [s \in Slots |-> -1] /\ open = {} /\ dropped = {} /\ phase = "run" /\ target = -1

Open(s, fd) == /\ phase = "run" /\ slotfd[s] = -1 /\ fd \notin open      \* the OS never hands out an open descriptor
               /\ slotfd' = [slotfd EXCEPT ![s] = fd] /\ open' = open \cup {fd}
               /\ UNCHANGED <<dropped, phase, target>>
Drop(s) == /\ phase = "run" /\ slotfd[s] # -1
           /\ dropped' = dropped \cup {slotfd[s]} /\ slotfd' = [slotfd EXCEPT ![s] = -1]
           /\ UNCHANGED <<open, phase, target>>
CloseCall(s) == /\ phase = "run" /\ slotfd[s] # -1
                /\ phase' = "closing" /\ target' = slotfd[s]
                /\ UNCHANGED <<slotfd, open, dropped>>
\* the close(2) performed on behalf of an explicit close-port
CloseExplicit(fd) == /\ phase = "closing" /\ fd = target /\ fd \in open
                     /\ open' = open \ {fd} /\ UNCHANGED <<slotfd, dropped, phase, target>>
Closed(s) == /\ phase = "closing" /\ slotfd[s] = target /\ target \notin open
             /\ slotfd' = [slotfd EXCEPT ![s] = -1] /\ phase' = "run" /\ target' = -1
             /\ UNCHANGED <<open, dropped>>
CollectCall == /\ phase = "run" /\ phase' = "collecting" /\ UNCHANGED <<slotfd, open, dropped, target>>
\* the close(2) performed by a finalizer: only for a descriptor whose owner is unreachable, once
\* (a collection may also be triggered implicitly by any allocation, so this is enabled in every phase)
CloseByGc(fd) == /\ fd \in dropped /\ fd \in open
                 /\ open' = open \ {fd} /\ dropped' = dropped \ {fd}
                 /\ UNCHANGED <<slotfd, phase, target>>
\* the collection is over: every dropped owner has been finalized
Collected == /\ phase = "collecting" /\ dropped = {}
             /\ phase' = "run" /\ UNCHANGED <<slotfd, open, dropped, target>>

Next == \/ \E s \in Slots, fd \in Fds : Open(s, fd)
        \/ \E s \in Slots : Drop(s) \/ CloseCall(s) \/ Closed(s)
        \/ \E fd \in Fds : CloseExplicit(fd) \/ CloseByGc(fd)
        \/ CollectCall \/ Collected
Spec == Init /\ [][Next]_vars

Held == {slotfd[s] : s \in Slots} \ {-1}
\* never closed while the owner is reachable
HeldAreOpen == Held \subseteq open \cup (IF phase = "closing" THEN {target} ELSE {})
\* bounded descriptors: open = held + dropped-not-yet-collected
NoLeak == open = (Held \cap open) \cup dropped
DroppedOpen == dropped \subseteq open
AfterCollect == phase = "run" => TRUE
=====================================================================
