---------------------------- MODULE SchedTrace ----------------------------
(* Trace validation for Sched: events of hook H6 (one per SRFI 18 primitive and per scheduler
   run, each with the projected run queue / paused list / flags AFTER the change) and of the
   script driver (shared-variable operations, logged atomically with the access) are replayed
   against the actions of Sched.  Scheme-level steps of the retry loops (thread-yield!, the
   timeout test) and the end of a time slice are not logged: they are silent steps. *)
EXTENDS Sched, Json, IOUtils

TraceLog == ndJsonDeserialize(IOEnv.TRACE)
VARIABLE l
tvars == <<vars, l>>
Ev == TraceLog[l]
HasEv == l <= Len(TraceLog)
IsEvent(e) == HasEv /\ Ev.e = e /\ l' = l + 1

\* ---- logged projection vs. specification state (primed values passed explicitly)
Ids(q) == [i \in 1..Len(q) |-> q[i][1]]
EvTag(k) == CASE k = "M" -> "M" [] k = "C" -> "C" [] k = "J" -> "J" [] k = "S" -> "S" [] OTHER -> "?"
QueuesMatch(ev, rq, pz, wp, tp, al, evt, dls) ==
   /\ rq = Ids(ev.rq)
   /\ pz = Ids(ev.pz)
   /\ \A i \in 1..Len(ev.rq) : LET e == ev.rq[i] IN
         /\ (e[2] = 1) = wp[e[1]] /\ (e[3] = 1) = tp[e[1]] /\ (e[4] = 1) = al[e[1]]
   /\ \A i \in 1..Len(ev.pz) : LET e == ev.pz[i] IN
         /\ (e[2] = 1) = wp[e[1]] /\ (e[3] = 1) = tp[e[1]] /\ (e[4] = 1) = al[e[1]]
         /\ evt[e[1]] # None /\ evt[e[1]][1] = EvTag(e[5])
         /\ (evt[e[1]][1] \in {"M", "C", "J"} => evt[e[1]][2] = e[6])
         /\ (e[7] = 1) = (dls[e[1]] # 0)
PostMatch == QueuesMatch(Ev, runq', paused', waitp', timeoutp', alive', event', dl')

ByCur == cur = Ev.t
DOf(timed, i) == (timed = 1) = (TimeoutOf(i) # 0)

\* ---- events of the driver
\* the driver logs "end" just before the thread body returns; the thread terminates at the hook's End event
TOpEnd == /\ IsEvent("Op") /\ Ev.op = "end" /\ ByCur /\ cur # 0 /\ Ins.op = "end" /\ ~must /\ phase[cur] = "go"
          /\ Ev.v = tmp[cur]
          /\ phase' = [phase EXCEPT ![cur] = "ending"]
          /\ UNCHANGED <<cur, runq, paused, waitp, timeoutp, event, dl, alive, started, locked, owner, pc, tmp, sh, out, must, ran, done, res>>
TEndHook == /\ IsEvent("End") /\ ByCur /\ cur # 0 /\ Ins.op = "end" /\ ~must /\ phase[cur] = "ending" /\ Exec
\* a terminated thread that is still (twice) in the run queue is handed to the VM again, which passes through its
\* end-of-thread code once more: no state change
TEndAgain == /\ IsEvent("End") /\ ~alive[Ev.t] /\ UNCHANGED vars
TOp == /\ IsEvent("Op") /\ ByCur /\ Ins.op = Ev.op /\ ~must /\ (Ev.op = "end" => cur = 0) /\ Exec
       /\ CASE Ev.op = "read"  -> Ev.x = Ins.x /\ Ev.v = tmp'[cur]
            [] Ev.op = "write" -> Ev.x = Ins.x /\ Ev.v = sh'[Ins.x]
            [] Ev.op = "set"   -> Ev.x = Ins.x /\ Ev.v = sh'[Ins.x]
            [] Ev.op = "brz"   -> Ev.x = Ins.x /\ Ev.v = sh[Ins.x]
            [] Ev.op = "emit"  -> Ev.v = tmp[cur]
            [] Ev.op = "end"   -> Ev.v = tmp[cur]
            [] OTHER -> TRUE
\* ---- events of hook H6
TStart == /\ IsEvent("Start") /\ ByCur /\ Ins.op = "start" /\ Ins.u = Ev.u /\ Exec /\ PostMatch
TLock == /\ IsEvent("Lock") /\ ByCur /\ Ins.op = "lock" /\ phase[cur] = "go" /\ Ins.m = Ev.m
         /\ DOf(Ev.timed, Ins)
         /\ (Ev.res = 1) = ~locked[Ins.m]
         /\ Exec /\ PostMatch
TUnlock == /\ IsEvent("Unlock") /\ ByCur /\ Ins.op = "unlock" /\ phase[cur] = "go" /\ Ins.m = Ev.m
           /\ (Ev.was = 1) = locked[Ins.m]
           /\ Ev.cv = (IF "cv" \in DOMAIN Ins THEN Ins.cv ELSE -1)
           /\ Ev.woke = (IF locked[Ins.m] THEN FirstWaiter(paused, <<"M", Ins.m>>) ELSE -1)
           /\ Exec /\ PostMatch
TSignal == /\ IsEvent("Signal") /\ ByCur /\ Ins.op = "signal" /\ Ins.cv = Ev.cv
           /\ Ev.woke = FirstWaiter(paused, <<"C", Ins.cv>>)
           /\ Exec /\ PostMatch
TBroadcast == /\ IsEvent("Broadcast") /\ ByCur /\ Ins.op = "broadcast" /\ Ins.cv = Ev.cv
              /\ Ev.count = Cardinality({i \in 1..Len(paused) : event[paused[i]] = <<"C", Ins.cv>>})
              /\ Exec /\ PostMatch
TJoin == /\ IsEvent("Join") /\ ByCur /\ Ins.op = "join" /\ phase[cur] = "go" /\ Ins.u = Ev.u
         /\ DOf(Ev.timed, Ins)
         /\ (Ev.res = 1) = ~alive[Ins.u]
         /\ Exec /\ PostMatch
TSleep == /\ IsEvent("Sleep") /\ ByCur /\ Ins.op = "sleep" /\ phase[cur] = "go" /\ Exec /\ PostMatch
\* one run of sexp_scheduler: the chosen thread and the number of timed-out sleepers are bound from the log
TSched == /\ IsEvent("Sched") /\ ByCur /\ must
          /\ ScheduleWith(Ev.ntimed, Ev.selftimed = 1)
          /\ cur' = Ev.res
          /\ PostMatch
          /\ (Ev.rw[1] = 1) = waitp'[cur'] /\ (Ev.rw[2] = 1) = timeoutp'[cur'] /\ (Ev.rw[3] = 1) = alive'[cur']
\* vm.c logs the end of a thread body right after the driver's own "end" event
TSkip == /\ HasEv /\ Ev.e \in {"MakeThread", "Gc", "Grow"} /\ l' = l + 1 /\ UNCHANGED vars
\* a new execution of the scenario starts (several executions are concatenated in one log)
TBegin == /\ IsEvent("Begin")
          /\ cur' = 0 /\ runq' = <<>> /\ paused' = <<>>
          /\ waitp' = [t \in Threads |-> FALSE] /\ timeoutp' = [t \in Threads |-> FALSE]
          /\ event' = [t \in Threads |-> None] /\ dl' = [t \in Threads |-> 0]
          /\ alive' = [t \in Threads |-> TRUE] /\ started' = [t \in Threads |-> t = 0]
          /\ locked' = [m \in Mutexes |-> FALSE] /\ owner' = [m \in Mutexes |-> -1]
          /\ pc' = [t \in Threads |-> 1] /\ phase' = [t \in Threads |-> "go"]
          /\ tmp' = [t \in Threads |-> 0] /\ sh' = [x \in Vars |-> 0] /\ out' = <<>>
          /\ must' = FALSE /\ ran' = FALSE /\ done' = FALSE /\ res' = [t \in Threads |-> -1]
\* after the scenario's last step the driver keeps running (it writes the result): scheduler runs are no longer constrained
TAfterDone == /\ HasEv /\ done /\ Ev.e = "Sched" /\ l' = l + 1 /\ UNCHANGED vars
\* the primordial thread finished the scenario: the observable result
TEndRun == /\ IsEvent("EndRun") /\ done
           /\ Len(Ev.out) = Len(out) /\ \A i \in 1..Len(out) : out[i] = Ev.out[i]
           /\ UNCHANGED vars

\* ---- silent steps
SilentExec == /\ l' = l /\ ~must /\ phase[cur] \in {"yield", "check"} /\ Exec
\* (the interpreter executes instructions that are no model steps, so a slice may end without one)
SilentPreempt == /\ l' = l /\ HasEv /\ Ev.e = "Sched" /\ ~must /\ ~done /\ must' = TRUE
                 /\ UNCHANGED <<cur, runq, paused, waitp, timeoutp, event, dl, alive, started, locked, owner, pc, phase, tmp, sh, out, ran, done, res>>

TraceInit == Init /\ l = 1
TraceNext == TOp \/ TOpEnd \/ TEndHook \/ TEndAgain \/ TStart \/ TLock \/ TUnlock \/ TSignal \/ TBroadcast \/ TJoin \/ TSleep \/ TSched
             \/ TSkip \/ TBegin \/ TAfterDone \/ TEndRun \/ SilentExec \/ SilentPreempt
TraceSpec == TraceInit /\ [][TraceNext]_tvars

\* acceptance: some behaviour consumes the whole log (violation of NotAccepted = accepted)
NotAccepted == l <= Len(TraceLog)
\* diagnosis: furthest event reached
ASSUME TLCSet(1, 0)
TrackMax == IF l > TLCGet(1) THEN TLCSet(1, l) ELSE TRUE
Report == PrintT(<<"TRACE_MAXL", TLCGet(1), Len(TraceLog)>>)
\* POSTCONDITION: some behaviour consumed every event (cheaper than the NotAccepted idiom: no counterexample is printed)
Accepted == IF TLCGet(1) > Len(TraceLog) THEN TRUE ELSE Report /\ FALSE
=========================================================================
