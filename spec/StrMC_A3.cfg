SPECIFICATION Spec
CONSTANTS
  Alphabet <- Two
  NRegs = 2
  NCur = 1
  MaxLen = 3
  Lits <- LitsSmall
  UsePorts = FALSE
  UseCursors = TRUE
VIEW View
INVARIANTS TypeOK LenIsCount Utf8RoundTrip CursorIndexBijection
PROPERTY ErrKeepsState
