SPECIFICATION Spec
CONSTANTS Keys = {k1, k2, k3}
          NV = 2
          Tabs = {1, 2}
INVARIANTS NoDuplicateKey SameBindings LookupAgrees SameSize DeadEmpty ValuesInRange AnswersAgree
