---------------------------- MODULE BigNatMC ----------------------------
(* The specification checks itself: every digit-level operator and every defining relation of BigNat
   is compared with TLC's built-in integers, exhaustively for all operand pairs -N < a, b < N at a small
   digit width (W = 2, i.e. base 4), before BigNat is trusted at W = 10 to judge the implementation.
   A state is one operand pair; the invariants are the comparisons.                                  *)
EXTENDS BigNat, TLC
CONSTANT N
VARIABLES a, b
vars == <<a, b>>
Init == a \in (1 - N)..(N - 1) /\ b = 1 - N
Next == b < N - 1 /\ b' = b + 1 /\ a' = a
Spec == Init /\ [][Next]_vars

Val(m) == FoldRight(LAMBDA d, acc : d + B * acc, m, 0)
IVal(x) == IF x[1] = 1 THEN 0 - Val(x[2]) ELSE Val(x[2])
Abs(x) == IF x < 0 THEN 0 - x ELSE x
Sgn(x) == IF x < 0 THEN -1 ELSE IF x > 0 THEN 1 ELSE 0
PowI(x, e) == IF e = 0 THEN 1 ELSE x^e          \* TLC leaves 0^0 undefined; here x^0 = 1
RECURSIVE GCD(_, _)
GCD(x, y) == IF y = 0 THEN x ELSE GCD(y, x % y)
RECURSIVE Egcd(_, _)            \* <<g, s, t>> with s*x + t*y = g, for x, y >= 0
Egcd(x, y) == IF y = 0 THEN <<x, 1, 0>> ELSE LET r == Egcd(y, x % y) IN <<r[1], r[3], r[2] - (x \div y) * r[3]>>
RECURSIVE BitLenI(_)
BitLenI(n) == IF n = 0 THEN 0 ELSE 1 + BitLenI(n \div 2)
Ch(d) == IF d < 10 THEN 48 + d ELSE 87 + d
ChU(d) == IF d < 10 THEN 48 + d ELSE 55 + d
RECURSIVE Chars(_, _)
Chars(n, R) == IF n < R THEN <<Ch(n)>> ELSE Chars(n \div R, R) \o <<IF n % 2 = 0 THEN Ch(n % R) ELSE ChU(n % R)>>

A == IntOf(a)
Bb == IntOf(b)
na == Abs(a)
nb == Abs(b)

NatOps ==
   /\ IsNat(NatOf(na)) /\ Val(NatOf(na)) = na
   /\ Add(NatOf(na), NatOf(nb)) = NatOf(na + nb)
   /\ (na >= nb => Sub(NatOf(na), NatOf(nb)) = NatOf(na - nb))
   /\ Cmp(NatOf(na), NatOf(nb)) = Sgn(na - nb)
   /\ Mul(NatOf(na), NatOf(nb)) = NatOf(na * nb)
   /\ MulOK(NatOf(na), NatOf(nb), NatOf(na * nb)) /\ ~MulOK(NatOf(na), NatOf(nb), NatOf(na * nb + 1))
   /\ MulAddSmall(NatOf(na), nb % 37, nb % 5) = NatOf(na * (nb % 37) + (nb % 5))
   /\ ShiftLeft(NatOf(na), nb % 11) = NatOf(na * 2^(nb % 11))
   /\ Pow2(nb % 20) = NatOf(2^(nb % 20))
   /\ NPow(NatOf(na % 7), nb % 9) = NatOf(PowI(na % 7, nb % 9))
   /\ BitLen(NatOf(na)) = BitLenI(na)
   /\ IsEvenNat(NatOf(na)) = (na % 2 = 0)
   /\ Trim(NatOf(na) \o Zeros(nb % 3)) = NatOf(na)

IntOps ==
   /\ IsInt(A) /\ IVal(A) = a
   /\ IAdd(A, Bb) = IntOf(a + b) /\ ISub(A, Bb) = IntOf(a - b) /\ IMul(A, Bb) = IntOf(a * b)
   /\ ICmp(A, Bb) = Sgn(a - b) /\ INeg(A) = IntOf(0 - a) /\ IAbs(A) = IntOf(na) /\ ISign(A) = Sgn(a)
   /\ ILt(A, Bb) = (a < b) /\ ILe(A, Bb) = (a <= b)
   /\ IPow(IntOf((a % 9) - 4), nb % 8) = IntOf(PowI((a % 9) - 4, nb % 8))
   /\ IShiftLeft(A, nb % 7) = IntOf(a * 2^(nb % 7))

\* reference quotients on TLC integers
TQ == IF (a < 0) # (b < 0) THEN 0 - (na \div nb) ELSE na \div nb
FQ == IF b > 0 THEN a \div b ELSE (0 - a) \div (0 - b)
DivRel == b # 0 =>
   /\ TruncDiv(A, Bb, IntOf(TQ), IntOf(a - TQ * b))
   /\ ~TruncDiv(A, Bb, IntOf(TQ + 1), IntOf(a - (TQ + 1) * b))
   /\ ~TruncDiv(A, Bb, IntOf(TQ - 1), IntOf(a - (TQ - 1) * b))
   /\ ~TruncDiv(A, Bb, IntOf(TQ), IntOf(a - TQ * b + 1))
   /\ FloorDiv(A, Bb, IntOf(FQ), IntOf(a - FQ * b))
   /\ ~FloorDiv(A, Bb, IntOf(FQ + 1), IntOf(a - (FQ + 1) * b))
   /\ ~FloorDiv(A, Bb, IntOf(FQ - 1), IntOf(a - (FQ - 1) * b))

G == GCD(na, nb)
GcdRel == (a # 0 \/ b # 0) =>
   LET x == a \div G   y == b \div G       \* exact
       e == Egcd(Abs(x), Abs(y))
       cert == <<IntOf(x), IntOf(y), IntOf(e[2] * Sgn(x)), IntOf(e[3] * Sgn(y))>>
   IN /\ GcdOK(A, Bb, IntOf(G), cert)
      /\ ~GcdOK(A, Bb, IntOf(G + 1), cert) /\ ~GcdOK(A, Bb, IntOf(0 - G), cert)
      /\ (G > 1 /\ a # 0 /\ b # 0 =>                   \* a common divisor that is not the greatest has no certificate
             ~GcdOK(A, Bb, One, <<A, Bb, cert[3], cert[4]>>))
      /\ (a # 0 /\ b # 0 => LcmOK(A, Bb, IntOf(Abs(a * y)), <<IntOf(G)>> \o cert))
      /\ (a # 0 /\ b # 0 => ~LcmOK(A, Bb, IntOf(Abs(a * b) + (IF G = 1 THEN 1 ELSE 0)), <<IntOf(G)>> \o cert))
      /\ (b # 0 => Coprime(IntOf(x), NatOf(Abs(y)), <<cert[3], IntOf(e[3])>>))
      /\ (G > 1 /\ b # 0 => ~Coprime(A, NatOf(nb), <<cert[3], IntOf(e[3])>>))
GcdZero == GcdOK(Zero, Zero, Zero, <<>>) /\ ~GcdOK(Zero, Zero, One, <<Zero, Zero, Zero, Zero>>)
           /\ LcmOK(Zero, A, Zero, <<>>) /\ ~LcmOK(A, Zero, One, <<>>)

S == CHOOSE s \in 0..(N \div 2) : s * s <= na /\ na < (s + 1) * (s + 1)
SqrtRel == /\ SqrtOK(IntOf(na), IntOf(S), IntOf(na - S * S))
           /\ ~SqrtOK(IntOf(na), IntOf(S + 1), IntOf(na - (S + 1) * (S + 1)))
           /\ (S > 0 => ~SqrtOK(IntOf(na), IntOf(S - 1), IntOf(na - (S - 1) * (S - 1))))
           /\ ~SqrtOK(IntOf(na), IntOf(S), IntOf(na - S * S + 1))
           /\ (a < 0 => ~SqrtOK(A, Zero, A))

\* rationals p = a/d1, q = b/d2
d1 == (nb % 5) + 1
d2 == (na % 7) + 1
P == <<A, NatOf(d1)>>
Q == <<Bb, NatOf(d2)>>
RatOps ==
   /\ IsRat(P)
   /\ QAdd(P, Q) = <<IntOf(a * d2 + b * d1), NatOf(d1 * d2)>>
   /\ QSub(P, Q) = <<IntOf(a * d2 - b * d1), NatOf(d1 * d2)>>
   /\ QMul(P, Q) = <<IntOf(a * b), NatOf(d1 * d2)>>
   /\ (b # 0 => QDiv(P, Q) = <<IntOf(a * d2 * Sgn(b)), NatOf(d1 * nb)>>)
   /\ QCmp(P, Q) = Sgn(a * d2 - b * d1)
   /\ QEq(P, Q) = (a * d2 = b * d1)
   /\ QEq(P, <<IntOf(a * 3), NatOf(d1 * 3)>>)
   /\ QSign(P) = Sgn(a)
   /\ LET x == (a % 7) - 3   e == (b % 9) - 4   pw == <<IntOf(x), NatOf(d1)>>
      IN x # 0 => QPow(pw, e) = (IF e >= 0 THEN <<IntOf(PowI(x, e)), NatOf(PowI(d1, e))>>
                                 ELSE <<IntOf(PowI(Sgn(x), 0 - e) * PowI(d1, 0 - e)), NatOf(PowI(Abs(x), 0 - e))>>)

\* integer parts of p = a/d,  d = |b| > 0
FL == a \div nb
CE == 0 - ((0 - a) \div nb)
TR == IF a >= 0 THEN FL ELSE CE
RD == LET h == (2 * a + nb) \div (2 * nb)               \* round half up
      IN IF (2 * a + nb) % (2 * nb) = 0 /\ h % 2 = 1 THEN h - 1 ELSE h
PartRel == b # 0 =>
   LET p == <<A, NatOf(nb)>> IN
   /\ FloorOK(p, IntOf(FL)) /\ ~FloorOK(p, IntOf(FL + 1)) /\ ~FloorOK(p, IntOf(FL - 1))
   /\ CeilOK(p, IntOf(CE)) /\ ~CeilOK(p, IntOf(CE + 1)) /\ ~CeilOK(p, IntOf(CE - 1))
   /\ TruncOK(p, IntOf(TR)) /\ ~TruncOK(p, IntOf(TR + 1)) /\ ~TruncOK(p, IntOf(TR - 1))
   /\ RoundOK(p, IntOf(RD)) /\ ~RoundOK(p, IntOf(RD + 1)) /\ ~RoundOK(p, IntOf(RD - 1))

\* positional notation in every radix 2..36
Radix == (nb % 35) + 2
Str == (IF a < 0 THEN <<45>> ELSE IF a % 2 = 0 THEN <<43>> ELSE <<>>) \o Chars(na, Radix)
TextRel ==
   /\ Horner(Chars(na, Radix), Radix) = NatOf(na)
   /\ Denotes(Str, Radix, QOfInt(A))
   /\ ~Denotes(Str, Radix, QOfInt(IntOf(a + 1)))
   /\ Denotes(Str \o <<47>> \o Chars(d1 * 2, Radix), Radix, <<IntOf(a * 3), NatOf(d1 * 6)>>)
   /\ ~Denotes(Str \o <<47>> \o Chars(d1, Radix), Radix, <<IntOf(a + 1), NatOf(d1)>>)
   /\ ~Denotes(Str \o <<47, 48>>, Radix, P)                                   \* zero denominator
   /\ ~Denotes(Str \o <<Ch(Radix)>>, Radix, P) /\ ~Denotes(<<45>>, Radix, P)  \* digit out of range, no digits
=========================================================================
