SPECIFICATION TraceSpec
CONSTANT Graph <- TraceGraph
POSTCONDITION Accepted
CHECK_DEADLOCK FALSE
