---------------------------- MODULE ImportRun ----------------------------
(* C14, dynamic part: one process that creates importing programs / environments one after the other.
   A library body is evaluated once, before the first importer can use it and after the bodies of the
   libraries it imports; all importers see the one instance (observable through a library's exported
   `tick' procedure, which counts its calls in a private variable).

   What a program observes when it refers to identifier n (the harness probes `n' and `(n)'):
     not visible            ref = <<>> (unbound)      call = <<"err">>
     variable  <<L,i>>      ref = <<L,i>>             call = <<"err">>
     procedure / macro      ref = <<"called">>        call = <<L,i>>   (computed by L's private helper)
     tick                   ref = <<"called">>        call = <<L,i,c>> c = number of calls of L's tick so far *)
EXTENDS Import
VARIABLES inst,     \* inst[l]  : how often the body of library l has been evaluated
          ticks,    \* ticks[l] : calls of l's tick procedure so far (the state of the single instance)
          phase,    \* "idle" | "loading" | "ready"
          cur,      \* import sets of the current program
          tab       \* = ExpTab, the export maps of all libraries (constant; kept in a variable so that TLC computes it once)
rvars == <<inst, ticks, phase, cur>>
Vis == VisibleG(tab, cur)

RInit == /\ inst = [l \in Libs |-> 0] /\ ticks = [l \in Libs |-> 0] /\ phase = "idle" /\ cur = <<>> /\ tab = ExpTab

BeginImport(sets) == /\ phase = "idle" /\ SetsWFG(tab, sets)
                     /\ phase' = "loading" /\ cur' = sets /\ UNCHANGED <<inst, ticks>>
BodyOK(l) == /\ l \in Needed(cur) /\ inst[l] = 0 /\ \A d \in Deps(l) : inst[d] = 1
Body(l) == /\ phase = "loading" /\ BodyOK(l)
           /\ inst' = [inst EXCEPT ![l] = 1] /\ UNCHANGED <<ticks, phase, cur>>
Loaded(sets) == \A l \in Needed(sets) : inst[l] = 1
EndImport == /\ phase = "loading" /\ Loaded(cur)
             /\ phase' = "ready" /\ UNCHANGED <<inst, ticks, cur>>

TickLib(vis, n) == IF n \in DOMAIN vis /\ Kind(vis[n]) = "tick" THEN vis[n][1] ELSE 0
Expected(vis, tk, n) ==
   IF n \notin DOMAIN vis THEN <<None, <<"err">>>>
   ELSE LET b == vis[n]
            k == Kind(b)
        IN CASE k = "var" -> <<b, <<"err">>>>
             [] k \in {"proc", "mac"} -> <<<<"called">>, b>>
             [] k = "tick" -> <<<<"called">>, <<b[1], b[2], tk[b[1]] + 1>>>>
After(vis, tk, n) == IF TickLib(vis, n) = 0 THEN tk ELSE [tk EXCEPT ![TickLib(vis, n)] = @ + 1]
Refer(n, ref, call) == /\ phase = "ready"
                       /\ <<ref, call>> = Expected(Vis, ticks, n)
                       /\ ticks' = After(Vis, ticks, n) /\ UNCHANGED <<inst, phase, cur>>
Discard == /\ phase = "ready" /\ phase' = "idle" /\ cur' = <<>> /\ UNCHANGED <<inst, ticks>>

\* a batch of references, one after the other (what the harness logs per program)
BatchTicks(vis, tk, ns, i) == [l \in Libs |-> tk[l] + Cardinality({j \in 1..i : TickLib(vis, ns[j]) = l})]
BatchExpected(vis, tk, ns) == [i \in DOMAIN ns |-> Expected(vis, BatchTicks(vis, tk, ns, i - 1), ns[i])]

InstOnce == \A l \in Libs : inst[l] \in {0, 1}
DepsFirst == \A l \in Libs : inst[l] = 1 => \A d \in Deps(l) : inst[d] = 1
ReadyLoaded == phase = "ready" => Loaded(cur)
=============================================================================
