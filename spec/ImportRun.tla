---------------------------- MODULE ImportRun ----------------------------
(* C14, dynamic part: one process that creates importing programs / environments one after the other.
   A library body is evaluated once, before the first importer can use it and after the bodies of the
   libraries it imports; all importers see the one instance: its private state (a `tick' procedure counts
   its calls) and its variables.  A variable binding is a location: the library assigns its variables when
   its `bump' procedure is called (by a program, an environment or - `relay' - another library), and every
   identifier that denotes the binding, in whatever importer and under whatever name, reads the current
   value - never a copy made when the importer was created.

   What a program observes when it refers to identifier n (the harness probes `(n)' and, if that fails, `n'):
     not visible            ref = <<>> (unbound)          call = <<"err">>
     variable  b = <<L,i>>  ref = Val(b, vers[L])         call = <<"err">>
     procedure / macro      ref = <<"called">>            call = <<L,i>>   (computed by L's private helper)
     tick                   ref = <<"called">>            call = <<L,i,c>>  c = calls of L's tick so far
     bump                   ref = <<"called">>            call = <<L,i,v>>  v = vers[L] after the call
     rd (reads variable t)  ref = <<"called">>            call = Val(t, vers[library of t])
     relay (calls bump of T)ref = <<"called">>            call = <<L,i,v>>  v = vers[T] after the call *)
EXTENDS Import
VARIABLES inst,     \* inst[l]  : how often the body of library l has been evaluated
          ticks,    \* ticks[l] : calls of l's tick procedure so far (private state of the single instance)
          vers,     \* vers[l]  : how often l has assigned its variables; location b holds Val(b, vers[b[1]])
          phase,    \* "idle" | "loading" | "ready"
          cur,      \* import sets of the current program
          tab       \* = ExpTab, the export maps of all libraries (constant; kept in a variable so that TLC computes it once)
rvars == <<inst, ticks, vers, phase, cur>>
Vis == VisibleG(tab, cur)
\* the current value of location b
Cur(b) == Val(b, vers[b[1]])

RInit == /\ inst = [l \in Libs |-> 0] /\ ticks = [l \in Libs |-> 0] /\ vers = [l \in Libs |-> 0]
         /\ phase = "idle" /\ cur = <<>> /\ tab = ExpTab

BeginImport(sets) == /\ phase = "idle" /\ SetsWFG(tab, sets)
                     /\ phase' = "loading" /\ cur' = sets /\ UNCHANGED <<inst, ticks, vers>>
BodyOK(l) == /\ l \in Needed(cur) /\ inst[l] = 0 /\ \A d \in Deps(l) : inst[d] = 1
Body(l) == /\ phase = "loading" /\ BodyOK(l)
           /\ inst' = [inst EXCEPT ![l] = 1] /\ UNCHANGED <<ticks, vers, phase, cur>>
Loaded(sets) == \A l \in Needed(sets) : inst[l] = 1
EndImport == /\ phase = "loading" /\ Loaded(cur)
             /\ phase' = "ready" /\ UNCHANGED <<inst, ticks, vers, cur>>

\* which counter a reference to n advances: <<"tick", L>>, <<"ver", L>> or <<>>
Effect(vis, n) ==
   IF n \notin DOMAIN vis THEN <<>>
   ELSE LET b == vis[n]
            k == Kind(b)
        IN CASE k = "tick"  -> <<"tick", b[1]>>
             [] k = "bump"  -> <<"ver", b[1]>>
             [] k = "relay" -> <<"ver", BindInG(tab, b[1], Def(b)[3])[1]>>
             [] OTHER -> <<>>
Expected(vis, tk, vs, n) ==
   IF n \notin DOMAIN vis THEN <<None, <<"err">>>>
   ELSE LET b == vis[n]
            k == Kind(b)
        IN CASE k = "var" -> <<Val(b, vs[b[1]]), <<"err">>>>
             [] k \in {"proc", "mac"} -> <<<<"called">>, b>>
             [] k = "tick" -> <<<<"called">>, <<b[1], b[2], tk[b[1]] + 1>>>>
             [] k = "bump" -> <<<<"called">>, <<b[1], b[2], vs[b[1]] + 1>>>>
             [] k = "rd" -> LET t == BindInG(tab, b[1], Def(b)[3]) IN <<<<"called">>, Val(t, vs[t[1]])>>
             [] k = "relay" -> LET t == BindInG(tab, b[1], Def(b)[3]) IN <<<<"called">>, <<b[1], b[2], vs[t[1]] + 1>>>>
Bumped(c, kind, eff) == IF eff # <<>> /\ eff[1] = kind THEN [c EXCEPT ![eff[2]] = @ + 1] ELSE c
Refer(n, ref, call) == /\ phase = "ready"
                       /\ <<ref, call>> = Expected(Vis, ticks, vers, n)
                       /\ ticks' = Bumped(ticks, "tick", Effect(Vis, n))
                       /\ vers' = Bumped(vers, "ver", Effect(Vis, n))
                       /\ UNCHANGED <<inst, phase, cur>>
Discard == /\ phase = "ready" /\ phase' = "idle" /\ cur' = <<>> /\ UNCHANGED <<inst, ticks, vers>>

\* a batch of references, one after the other (what the harness logs per program)
BatchCount(vis, c, kind, ns, i) == [l \in Libs |-> c[l] + Cardinality({j \in 1..i : Effect(vis, ns[j]) = <<kind, l>>})]
BatchExpected(vis, tk, vs, ns) ==
   [i \in DOMAIN ns |-> Expected(vis, BatchCount(vis, tk, "tick", ns, i - 1), BatchCount(vis, vs, "ver", ns, i - 1), ns[i])]

InstOnce == \A l \in Libs : inst[l] \in {0, 1}
DepsFirst == \A l \in Libs : inst[l] = 1 => \A d \in Deps(l) : inst[d] = 1
ReadyLoaded == phase = "ready" => Loaded(cur)
=============================================================================
