---------------------------- MODULE Sorted ----------------------------
(* C18, sorting: what it means for a sort / merge / selection procedure of SRFI 95 and SRFI 132
   to be right.  Elements are pairs <<key, id>>:
     key : rank of the element's sort key in the ordering handed to the procedure (an integer;
           equal rank = neither element is less than the other),
     id  : > 0  identity of the object (unique among the inputs of one call: its input position),
           = 0  the object has no identity (an immediate such as a fixnum or a character; two such
                elements of equal rank are the same value).
   ord = "lt": ascending in rank; ord = "gt": the procedure was handed the converse ordering.
   Everything is a defining relation between logged input(s) and logged output; nothing here
   computes a sort except the reference formulations used to check the relations themselves. *)
EXTENDS Integers, Sequences, FiniteSets, SequencesExt

K(e, ord) == IF ord = "gt" THEN 0 - e[1] ELSE e[1]
NonDecr(s, ord) == \A i \in 1..(Len(s) - 1) : K(s[i], ord) <= K(s[i + 1], ord)
KeysOf(s) == {s[i][1] : i \in DOMAIN s}
(* rank |-> the ids of the elements of that rank, in order of appearance *)
Grp(s) == FoldLeft(LAMBDA acc, e : [acc EXCEPT ![e[1]] = Append(@, e[2])], [k \in KeysOf(s) |-> <<>>], s)
PosIds(a) == {a[i] : i \in DOMAIN a} \ {0}
NumPos(a) == Cardinality({i \in DOMAIN a : a[i] > 0})
(* ids with identity are unique among the inputs of a call (guaranteed by the driver) *)
WFInput(s) == LET ids == [i \in DOMAIN s |-> s[i][2]] IN NumPos(ids) = Cardinality(PosIds(ids))
(* equal as multisets, given that the positive ids of a are unique *)
SameBagIds(a, b) == Len(a) = Len(b) /\ PosIds(a) = PosIds(b) /\ NumPos(a) = NumPos(b)
SameBag(s, t) == LET gs == Grp(s) gt == Grp(t) IN
                 DOMAIN gs = DOMAIN gt /\ \A k \in DOMAIN gs : SameBagIds(gs[k], gt[k])

(* out is a sorted permutation of in *)
IsSort(in, out, ord) == NonDecr(out, ord) /\ SameBag(in, out)
(* ... and elements of equal rank keep their input order *)
IsStableSort(in, out, ord) == NonDecr(out, ord) /\ Grp(in) = Grp(out)
(* stable merge of two sorted sequences: ties go to the first sequence *)
IsStableMerge(a, b, out, ord) == IsStableSort(a \o b, out, ord)
(* merge without a stability promise *)
IsMerge(a, b, out, ord) == IsSort(a \o b, out, ord)

(* delete-neighbor-dups: the first element of every run of equal neighbours *)
Dedup(s) == LET keep == {i \in DOMAIN s : i = 1 \/ s[i][1] # s[i - 1][1]}
                idx == SetToSortSeq(keep, <) IN [j \in 1..Len(idx) |-> s[idx[j]]]

(* the keys of s in sorted order *)
SortedKeys(s, ord) == LET g == Grp(s)
                          ks == SetToSortSeq(DOMAIN g, LAMBDA x, y : IF ord = "gt" THEN x > y ELSE x < y)
                      IN FlattenSeq([j \in 1..Len(ks) |-> [n \in 1..Len(g[ks[j]]) |-> ks[j]]])
(* k-th smallest (k from 0) *)
KthKey(s, k, ord) == SortedKeys(s, ord)[k + 1]
(* separated at k: no element of the first k is greater than any later one *)
Separated(s, k, ord) == \A i \in 1..k : \A j \in (k + 1)..Len(s) : K(s[i], ord) <= K(s[j], ord)
SameOutside(a, out, s, e) == /\ Len(a) = Len(out)
                             /\ \A i \in 1..Len(a) : (i <= s \/ i > e) => a[i] = out[i]

(* ------------- reference formulations (model checked against the relations above) ------------- *)
RefInsert(sorted, e, ord) ==   \* after every element that is not greater
   LET n == Cardinality({i \in DOMAIN sorted : K(sorted[i], ord) <= K(e, ord)})
   IN SubSeq(sorted, 1, n) \o <<e>> \o SubSeq(sorted, n + 1, Len(sorted))
RefStableSort(s, ord) == FoldLeft(LAMBDA acc, e : RefInsert(acc, e, ord), <<>>, s)
RECURSIVE RefMerge(_, _, _)
RefMerge(a, b, ord) == IF a = <<>> THEN b ELSE IF b = <<>> THEN a
                       ELSE IF K(b[1], ord) < K(a[1], ord) THEN <<b[1]>> \o RefMerge(a, Tail(b), ord)
                       ELSE <<a[1]>> \o RefMerge(Tail(a), b, ord)
IsPermOf(in, out) == /\ Len(in) = Len(out)
                     /\ \E p \in [1..Len(in) -> 1..Len(in)] :
                           /\ \A i, j \in 1..Len(in) : i # j => p[i] # p[j]
                           /\ \A i \in 1..Len(in) : out[i] = in[p[i]]
RECURSIVE RefDedup(_)
RefDedup(s) == IF Len(s) <= 1 THEN s
               ELSE IF s[1][1] = s[2][1] THEN RefDedup(<<s[1]>> \o Tail(Tail(s)))
               ELSE <<s[1]>> \o RefDedup(Tail(s))
=======================================================================
