SPECIFICATION TraceSpec
POSTCONDITION Accepted
CHECK_DEADLOCK FALSE
