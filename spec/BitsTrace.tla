---------------------------- MODULE BitsTrace ----------------------------
(* C17 trace validation: recorded SRFI 151 calls against Bits.tla (see NumTrace for the idiom).
   Integer results must also be canonical (fixnum iff it fits), as for C04.                       *)
EXTENDS Num, Bits, Json, IOUtils, TLC
TraceLog == ndJsonDeserialize(IOEnv.TRACE)
VARIABLES l, rej
Ev == TraceLog[l]

Small(n) == IntOf(n)
AcceptBits(ev) ==
   LET op == ev.op
       x == ev.a[1][1]  y == ev.a[2][1]  z == ev.a[3][1]
       k == ev.k
       r1 == ev.r[1]
       Is(v) == Ress(ev, 1) /\ IntRes(r1) /\ I(r1) = v
   IN
   /\ ev.err = 0
   /\ \A i \in 1..Len(ev.a) : IsIntArg(ev.a[i])
   /\ CASE op = "bitwise-not" -> Is(BNot(x))
        [] op = "bitwise-and" -> Is(BAnd(x, y))
        [] op = "bitwise-ior" -> Is(BIor(x, y))
        [] op = "bitwise-xor" -> Is(BXor(x, y))
        [] op = "bitwise-eqv" -> Is(BEqv(x, y))
        [] op = "bitwise-nand" -> Is(BNand(x, y))
        [] op = "bitwise-nor" -> Is(BNor(x, y))
        [] op = "bitwise-andc1" -> Is(BAndc1(x, y))
        [] op = "bitwise-andc2" -> Is(BAndc2(x, y))
        [] op = "bitwise-orc1" -> Is(BOrc1(x, y))
        [] op = "bitwise-orc2" -> Is(BOrc2(x, y))
        [] op = "bitwise-if" -> Is(BIf(x, y, z))
        [] op = "arithmetic-shift" -> Is(BShift(x, k[1]))
        [] op = "bit-count" -> Is(Small(BCount(x)))
        [] op = "integer-length" -> Is(Small(BLength(x)))
        [] op = "first-set-bit" -> Is(Small(BFirstSet(x)))
        [] op = "bit-set?" -> k[1] >= 0 /\ ev.f = <<Flag(BSet(k[1], x))>>
        [] op = "any-bit-set?" -> ev.f = <<Flag(BAny(x, y))>>
        [] op = "every-bit-set?" -> ev.f = <<Flag(BEvery(x, y))>>
        [] op = "copy-bit" -> k[1] >= 0 /\ k[2] \in {0, 1} /\ Is(BCopyBit(k[1], x, k[2]))
        [] op = "bit-swap" -> k[1] >= 0 /\ k[2] >= 0 /\ Is(BSwap(k[1], k[2], x))
        [] op = "bit-field" -> 0 <= k[1] /\ k[1] <= k[2] /\ Is(BField(x, k[1], k[2]))
        [] op = "bit-field-any?" -> 0 <= k[1] /\ k[1] <= k[2] /\ ev.f = <<Flag(BFieldAny(x, k[1], k[2]))>>
        [] op = "bit-field-every?" -> 0 <= k[1] /\ k[1] <= k[2] /\ ev.f = <<Flag(BFieldEvery(x, k[1], k[2]))>>
        [] op = "bit-field-clear" -> 0 <= k[1] /\ k[1] <= k[2] /\ Is(BFieldClear(x, k[1], k[2]))
        [] op = "bit-field-set" -> 0 <= k[1] /\ k[1] <= k[2] /\ Is(BFieldSet(x, k[1], k[2]))
        [] op = "bit-field-replace" -> 0 <= k[1] /\ k[1] <= k[2] /\ Is(BFieldReplace(x, y, k[1], k[2]))
        [] op = "bit-field-replace-same" -> 0 <= k[1] /\ k[1] <= k[2] /\ Is(BFieldReplaceSame(x, y, k[1], k[2]))
        [] op = "bit-field-rotate" -> 0 <= k[2] /\ k[2] < k[3] /\ Is(BFieldRotate(x, k[1], k[2], k[3]))
        [] op = "bit-field-reverse" -> 0 <= k[1] /\ k[1] <= k[2] /\ Is(BFieldReverse(x, k[1], k[2]))
        [] op = "bits->list" -> k[1] >= 0 /\ ev.f = BToList(x, k[1])
        [] op = "list->bits" -> (\A i \in 1..Len(k) : k[i] \in {0, 1}) /\ Is(BOfList(k))
        [] OTHER -> FALSE

TCall == /\ l <= Len(TraceLog) /\ Ev.e = "Call" /\ l' = l + 1
         /\ IF AcceptBits(Ev) THEN rej' = rej
            ELSE PrintT(<<"CASE_REJECTED", Ev.id>>) /\ TLCSet(42, TLCGet(42) + 1) /\ rej' = rej + 1
TraceInit == l = 1 /\ rej = 0 /\ TLCSet(42, 0)
TraceSpec == TraceInit /\ [][TCall]_<<l, rej>>
Accepted == LET d == TLCGet("stats").diameter
            IN IF d - 1 = Len(TraceLog) /\ TLCGet(42) = 0 THEN TRUE
               ELSE PrintT(<<"TRACE_REJECTED", d - 1, Len(TraceLog), TLCGet(42)>>) /\ FALSE
==========================================================================
