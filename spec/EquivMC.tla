---------------------------- MODULE EquivMC ----------------------------
(* Model check of the definitions in Equiv.tla: every graph with N nodes over two atoms, pairs and small
   vectors (all cyclic shapes included), reachable from the all-atom graph by mutating one node at a time
   (set-car!/set-cdr!/vector-set! are how cycles come into being).  On every graph, for the relation
   "node i and node j denote the same value":
     - it is an equivalence relation,
     - it coincides with equality of the unfoldings cut at depth 2N (R7RS definition of equal?),
     - a function of the unfolding cut at any depth (a structural hash of bounded depth) respects it. *)
EXTENDS Equiv
CONSTANTS N, VecArities
VARIABLE g
Idx == 1..N
Atom(a) == [k |-> "atom", a |-> a, c |-> << >>]
NodeVals == {Atom(1), Atom(2)}
            \cup {[k |-> "pair", a |-> 0, c |-> <<i, j>>] : i \in Idx, j \in Idx}
            \cup (IF 1 \in VecArities THEN {[k |-> "vec", a |-> 0, c |-> <<i>>] : i \in Idx} ELSE {})
            \cup (IF 2 \in VecArities THEN {[k |-> "vec", a |-> 0, c |-> <<i, j>>] : i \in Idx, j \in Idx} ELSE {})
Init == g = [i \in Idx |-> Atom(1)]
Mutate(i, v) == g[i] # v /\ g' = [g EXCEPT ![i] = v]
Next == \E i \in Idx, v \in NodeVals : Mutate(i, v)
Spec == Init /\ [][Next]_g

Rel == Gfp(g, g)
InvEquivalence == IsEquivalence(Idx, Rel)
InvExplore == \A i \in Idx, j \in Idx : SameFrom(g, i, g, j) <=> (<<i, j>> \in Rel)
InvUnfolding == \A i \in Idx, j \in Idx : (<<i, j>> \in Rel) <=> (Tree(g, 2 * N, i) = Tree(g, 2 * N, j))
InvBoundedHash == \A p \in Rel : \A d \in {1, 3, 5} : Tree(g, d, p[1]) = Tree(g, d, p[2])
\* the specification's answer for one instance compared with itself / two instances of one term is an
\* admissible observation, and flipping any answer is not (the observation rules are not vacuous)
\* a nest deeper than the graph has nodes is never the same value as the graph (the graph is either shallower
\* or, if cyclic, infinite): the reason why the trace specifications may answer FALSE without unfolding
InvDeepNotSmall == \A s \in {"lt", "vf", "car"}, l \in {1, 2} :
   ~SameGraph(NestGraph([shape |-> s, k |-> N + 1, leaf |-> l, aux |-> IF s = "lt" THEN <<1, 2>> ELSE <<2>>]), g)
ASSUME RulesNotVacuous ==
            /\ EqualOK(TRUE, TRUE, FALSE, TRUE) /\ ~EqualOK(TRUE, TRUE, TRUE, FALSE)
            /\ \A s \in BOOLEAN : EqualOK(FALSE, s, FALSE, s) /\ ~EqualOK(FALSE, s, FALSE, ~s)
            /\ \A c \in ValueCls : EqvOK(FALSE, TRUE, FALSE, c, c, FALSE, FALSE, TRUE) /\ ~EqvOK(FALSE, TRUE, FALSE, c, c, TRUE, TRUE, FALSE)
            /\ \A c \in LocatedCls : EqvOK(FALSE, TRUE, FALSE, c, c, TRUE, TRUE, FALSE) /\ ~EqvOK(FALSE, TRUE, FALSE, c, c, TRUE, FALSE, TRUE)
            /\ \A c \in LocatedCls : ~EqOK(FALSE, TRUE, c, c, TRUE, TRUE, TRUE) /\ EqOK(TRUE, TRUE, c, c, TRUE, TRUE, TRUE)
            /\ HashOK(TRUE, FALSE, TRUE, <<"1">>, <<"1">>) /\ ~HashOK(TRUE, FALSE, TRUE, <<"1">>, <<"2">>)
            /\ ~HashOK(TRUE, FALSE, FALSE, <<"1">>, <<"2">>) /\ HashOK(FALSE, FALSE, FALSE, <<"1">>, <<"2">>)
            /\ Lattice(FALSE, TRUE, TRUE) /\ ~Lattice(TRUE, FALSE, TRUE) /\ ~Lattice(FALSE, TRUE, FALSE)
=========================================================================
