---------------------------- MODULE AdtMap ----------------------------
(* SRFI 146 mappings (ordered by an SRFI 128 comparator) as finite functions from keys to values.
   Orders are by key; the sub-mapping relations compare values with =.  Constructors are only judged on
   pairwise distinct keys; mapping-map only with injective key functions (the SRFI leaves collisions open). *)
EXTENDS AdtBase

MapTable == <<
  <<"mapping", S_xs, 6>>, <<"alist->mapping", S_xs, 3>>, <<"unfold", S_x, 1>>, <<"alist->mapping!", S_vxs, 1>>,
  <<"contains?", S_vk, 3>>, <<"empty?", S_v, 1>>, <<"size", S_v, 3>>, <<"disjoint?", S_vw, 2>>,
  <<"ref", S_vk, 4>>, <<"ref/default", S_vk, 2>>,
  <<"adjoin", S_vxs, 6>>, <<"set", S_vxs, 6>>, <<"replace", S_vxk, 2>>, <<"delete", S_vs, 5>>, <<"delete-all", S_vs, 2>>,
  <<"intern", S_vxk, 3>>, <<"update", S_vxk, 3>>, <<"update/default", S_vxk, 3>>, <<"pop", S_v, 3>>,
  <<"search", S_vxk, 3>>, <<"search-update", S_vxk, 2>>,
  <<"find", S_vxk, 2>>, <<"count", S_vxk, 2>>, <<"any?", S_vxk, 1>>, <<"every?", S_vxk, 1>>,
  <<"keys", S_v, 2>>, <<"values", S_v, 2>>, <<"entries", S_v, 1>>, <<"->alist", S_v, 3>>,
  <<"map", S_vx, 2>>, <<"map->list", S_v, 1>>, <<"for-each", S_v, 1>>, <<"fold", S_v, 2>>, <<"fold/reverse", S_v, 2>>,
  <<"filter", S_vxk, 3>>, <<"remove", S_vxk, 3>>, <<"partition", S_vxk, 2>>, <<"copy", S_v, 1>>,
  <<"=?", S_vw, 3>>, <<"<?", S_vw, 3>>, <<">?", S_vw, 3>>, <<"<=?", S_vw, 3>>, <<">=?", S_vw, 3>>,
  <<"union", S_vw, 4>>, <<"intersection", S_vw, 4>>, <<"difference", S_vw, 4>>, <<"xor", S_vw, 4>>,
  <<"min-key", S_v, 1>>, <<"max-key", S_v, 1>>, <<"min-value", S_v, 1>>, <<"max-value", S_v, 1>>,
  <<"key-predecessor", S_vk, 2>>, <<"key-successor", S_vk, 2>>,
  <<"range=", S_vk, 2>>, <<"range<", S_vk, 2>>, <<"range>", S_vk, 2>>, <<"range<=", S_vk, 2>>, <<"range>=", S_vk, 2>>,
  <<"split", S_vk, 3>>, <<"catenate", S_vkxw, 3>>, <<"map/monotone", S_vx, 2>>,
  <<"set!", S_vxs, 2>>, <<"delete!", S_vs, 2>>, <<"update!", S_vxk, 1>>, <<"filter!", S_vxk, 1>>, <<"union!", S_vw, 1>>,
  <<"adjoin!", S_vxs, 1>>, <<"pop!", S_v, 1>>, <<"intersection!", S_vw, 1>>, <<"difference!", S_vw, 1>>, <<"xor!", S_vw, 1>> >>
MapLinear == {"alist->mapping!", "set!", "delete!", "update!", "filter!", "union!", "adjoin!", "pop!", "intersection!", "difference!", "xor!"}


MRestrict(f, S) == [k \in S |-> f[k]]
MapCanon(f) == LET ks == SortedSeq(DOMAIN f) IN [i \in 1..Len(ks) |-> <<ks[i], f[ks[i]]>>]
MapWF(c) == \A i \in 1..(Len(c) - 1) : c[i][1] < c[i + 1][1]
MapFrom(c) == [k \in {c[i][1] : i \in DOMAIN c} |-> c[CHOOSE i \in DOMAIN c : c[i][1] = k][2]]
MapTypeOK(f, Keys) == DOMAIN f \subseteq Keys
(* the i-th key of ks is bound to (x + i) mod M *)
MAssoc(ks, x, M) == [k \in RangeOf(ks) |-> (x + (CHOOSE i \in DOMAIN ks : ks[i] = k)) % M]
MOverride(f, g) == [k \in DOMAIN f \cup DOMAIN g |-> IF k \in DOMAIN g THEN g[k] ELSE f[k]]    \* g wins
MapNorm(o, s, M) ==
  IF o.op \in {"mapping", "alist->mapping", "alist->mapping!", "adjoin", "set", "set!", "adjoin!"} THEN [o EXCEPT !.ks = DedupSeq(o.ks), !.x = o.x % M]
  ELSE IF o.op = "unfold" THEN [o EXCEPT !.x = o.x % (M + 1)]
  ELSE IF o.op = "map" THEN [o EXCEPT !.x = IF o.x % 2 = 0 THEN 0 ELSE 2]
  ELSE IF o.op \in {"replace", "intern", "search", "search-update", "catenate", "map/monotone"} THEN [o EXCEPT !.x = o.x % M]
  ELSE IF o.op \in {"update", "update!", "update/default"} THEN [o EXCEPT !.x = o.x % NFun]
  ELSE [o EXCEPT !.x = o.x % NPred]
MapPre(o, s) ==
  /\ (o.op \in {"union!", "intersection!", "difference!", "xor!"} => o.v # o.w)
  /\ (o.op = "alist->mapping!" => RangeOf(o.ks) \cap DOMAIN s[o.v] = {})
  /\ (o.op \in {"update", "update!"} => o.k \in DOMAIN s[o.v])
  /\ (o.op \in {"pop", "pop!", "min-key", "max-key", "min-value", "max-value"} => DOMAIN s[o.v] # {})
  /\ (o.op = "catenate" => (\A a \in DOMAIN s[o.v] : a < o.k) /\ (\A b \in DOMAIN s[o.w] : o.k < b))

MapEval(o, s, M) ==
  LET A == s[o.v]  C == s[o.w]  DA == DOMAIN s[o.v]  DC == DOMAIN s[o.w]
      P(e) == Pred(o.x, o.k, e)
      lin == o.op \in MapLinear
      Out(new, obs) == IF lin THEN ResKill(new, obs, {o.v}) ELSE Res(new, obs)
      Is(n) == o.op = n
      Is2(n, n2) == o.op \in {n, n2}
      KS == SortedSeq(DA)
      Sub(f, g) == DOMAIN f \subseteq DOMAIN g /\ \A k \in DOMAIN f : f[k] = g[k]
      Lo(S) == MinOf(S)  Hi(S) == MaxOf(S)
  IN CASE Is2("mapping", "alist->mapping") -> Res(<<MAssoc(o.ks, o.x, M)>>, None)
       [] Is("alist->mapping!") -> Out(<<MOverride(A, MAssoc(o.ks, o.x, M))>>, None)
       [] Is("unfold") -> Res(<<[k \in 0..(o.x - 1) |-> (2 * k) % M]>>, None)
       [] Is("contains?") -> Res(<<>>, <<B(o.k \in DA)>>)
       [] Is("empty?") -> Res(<<>>, <<B(DA = {})>>)
       [] Is("size") -> Res(<<>>, <<Cardinality(DA)>>)
       [] Is("disjoint?") -> Res(<<>>, <<B(DA \cap DC = {})>>)
       [] Is2("ref", "ref/default") -> Res(<<>>, <<IF o.k \in DA THEN A[o.k] ELSE -1>>)
       [] Is2("adjoin", "adjoin!") -> Out(<<MOverride(MAssoc(o.ks, o.x, M), A)>>, None)          \* existing associations win
       [] Is2("set", "set!") -> Out(<<MOverride(A, MAssoc(o.ks, o.x, M))>>, None)
       [] Is("replace") -> Res(<<IF o.k \in DA THEN [A EXCEPT ![o.k] = o.x] ELSE A>>, None)
       [] o.op \in {"delete", "delete-all", "delete!"} -> Out(<<MRestrict(A, DA \ RangeOf(o.ks))>>, None)
       [] Is("intern") -> (IF o.k \in DA THEN Res(<<A>>, <<A[o.k]>>) ELSE Res(<<MOverride(A, [k \in {o.k} |-> o.x])>>, <<o.x>>))
       [] Is2("update", "update!") -> Out(<<[A EXCEPT ![o.k] = Fun(o.x, M, @)]>>, None)
       [] Is("update/default") -> Res(<<MOverride(A, [k \in {o.k} |-> Fun(o.x, M, IF o.k \in DA THEN A[o.k] ELSE 7 % M)])>>, None)
       [] Is2("pop", "pop!") -> Out(<<MRestrict(A, DA \ {Lo(DA)})>>, <<Lo(DA), A[Lo(DA)]>>)
       \* absent: insert k -> x, observe 0; present: remove, observe 1
       [] Is("search") -> (IF o.k \in DA THEN Res(<<MRestrict(A, DA \ {o.k})>>, <<1>>) ELSE Res(<<MOverride(A, [k \in {o.k} |-> o.x])>>, <<0>>))
       \* absent: ignore, observe 0; present: update to x, observe 1
       [] Is("search-update") -> (IF o.k \in DA THEN Res(<<[A EXCEPT ![o.k] = o.x]>>, <<1>>) ELSE Res(<<A>>, <<0>>))
       [] Is("find") -> (LET F == {e \in DA : P(e)} IN Res(<<>>, IF F = {} THEN <<-1>> ELSE <<Lo(F), A[Lo(F)]>>))
       [] Is("count") -> Res(<<>>, <<Cardinality({e \in DA : P(e)})>>)
       [] Is("any?") -> Res(<<>>, <<B(\E e \in DA : P(e))>>)
       [] Is("every?") -> Res(<<>>, <<B(\A e \in DA : P(e))>>)
       [] Is2("keys", "for-each") -> Res(<<>>, KS)
       [] Is("fold/reverse") -> Res(<<>>, KS)                     \* consing the keys from the largest down
       [] Is("fold") -> Res(<<>>, RevSeq(KS))                     \* consing the keys from the smallest up
       [] Is("values") -> Res(<<>>, [i \in DOMAIN KS |-> A[KS[i]]])
       [] Is("entries") -> Res(<<>>, <<KS, [i \in DOMAIN KS |-> A[KS[i]]]>>)
       [] Is("->alist") -> Res(<<>>, MapCanon(A))
       [] Is("map") -> Res(<<[k \in {Fun(o.x, M, j) : j \in DA} |-> (A[CHOOSE j \in DA : Fun(o.x, M, j) = k] + 1) % M]>>, None)
       [] Is("map->list") -> Res(<<>>, [i \in DOMAIN KS |-> KS[i] + A[KS[i]]])
       [] Is2("filter", "filter!") -> Out(<<MRestrict(A, {e \in DA : P(e)})>>, None)
       [] Is("remove") -> Res(<<MRestrict(A, {e \in DA : ~P(e)})>>, None)
       [] Is("partition") -> Res(<<MRestrict(A, {e \in DA : P(e)}), MRestrict(A, {e \in DA : ~P(e)})>>, None)
       [] Is("copy") -> Res(<<A>>, None)
       [] Is("=?") -> Res(<<>>, <<B(A = C)>>)
       [] Is("<?") -> Res(<<>>, <<B(Sub(A, C) /\ A # C)>>)
       [] Is(">?") -> Res(<<>>, <<B(Sub(C, A) /\ A # C)>>)
       [] Is("<=?") -> Res(<<>>, <<B(Sub(A, C))>>)
       [] Is(">=?") -> Res(<<>>, <<B(Sub(C, A))>>)
       [] Is2("union", "union!") -> Out(<<MOverride(C, A)>>, None)               \* the first mapping wins
       [] Is2("intersection", "intersection!") -> Out(<<MRestrict(A, DA \cap DC)>>, None)
       [] Is2("difference", "difference!") -> Out(<<MRestrict(A, DA \ DC)>>, None)
       [] Is2("xor", "xor!") -> Out(<<MOverride(MRestrict(A, DA \ DC), MRestrict(C, DC \ DA))>>, None)
       [] Is("min-key") -> Res(<<>>, <<Lo(DA)>>)
       [] Is("max-key") -> Res(<<>>, <<Hi(DA)>>)
       [] Is("min-value") -> Res(<<>>, <<A[Lo(DA)]>>)
       [] Is("max-value") -> Res(<<>>, <<A[Hi(DA)]>>)
       [] Is("key-predecessor") -> (LET F == {e \in DA : e < o.k} IN Res(<<>>, <<IF F = {} THEN -1 ELSE Hi(F)>>))
       [] Is("key-successor") -> (LET F == {e \in DA : e > o.k} IN Res(<<>>, <<IF F = {} THEN -1 ELSE Lo(F)>>))
       [] Is("range=") -> Res(<<MRestrict(A, {e \in DA : e = o.k})>>, None)
       [] Is("range<") -> Res(<<MRestrict(A, {e \in DA : e < o.k})>>, None)
       [] Is("range>") -> Res(<<MRestrict(A, {e \in DA : e > o.k})>>, None)
       [] Is("range<=") -> Res(<<MRestrict(A, {e \in DA : e <= o.k})>>, None)
       [] Is("range>=") -> Res(<<MRestrict(A, {e \in DA : e >= o.k})>>, None)
       [] Is("split") -> Res(<<MRestrict(A, {e \in DA : e < o.k}), MRestrict(A, {e \in DA : e <= o.k}), MRestrict(A, {e \in DA : e = o.k}),
                               MRestrict(A, {e \in DA : e >= o.k}), MRestrict(A, {e \in DA : e > o.k})>>, None)
       [] Is("catenate") -> Res(<<MOverride(MOverride(A, C), [k \in {o.k} |-> o.x])>>, None)
       [] Is("map/monotone") -> Res(<<[k \in DA |-> (A[k] + o.x) % M]>>, None)

MapLaws(s, live, M) ==
  \A v \in live, w \in live :
    LET A == s[v] C == s[w]
        N(name) == MapEval(Op(name, v, w, 0, 0, <<>>), s, M).new[1]
        O(name) == CHOOSE x \in MapEval(Op(name, v, w, 0, 0, <<>>), s, M).obs : TRUE
    IN \A U \in {N("union")}, I \in {N("intersection")}, X \in {N("xor")}, D \in {N("difference")},
          le \in {O("<=?")}, eq \in {O("=?")}, cA \in {MapCanon(A)} :
       /\ DOMAIN U = DOMAIN A \cup DOMAIN C /\ DOMAIN I = DOMAIN A \cap DOMAIN C /\ DOMAIN X = DOMAIN U \ DOMAIN I
       /\ DOMAIN D \cup DOMAIN I = DOMAIN A /\ (\A k \in DOMAIN A : U[k] = A[k])
       /\ (le = <<1>>) => (DOMAIN U = DOMAIN C /\ DOMAIN I = DOMAIN A /\ DOMAIN D = {})
       /\ (le = <<1>> /\ O(">=?") = <<1>>) = (eq = <<1>>)
       /\ (O("<?") = <<1>>) = (le = <<1>> /\ eq = <<0>>)
       /\ (eq = <<1>>) = (cA = MapCanon(C))
       /\ O("size") = <<Len(cA)>> /\ MapWF(cA) /\ MapFrom(cA) = A
       /\ O("keys") = [i \in DOMAIN cA |-> cA[i][1]] /\ O("values") = [i \in DOMAIN cA |-> cA[i][2]]
       /\ (v = w) => \A k \in 0..(M - 1) :
             \A sp \in {MapEval(Op("split", v, 0, k, 0, <<>>), s, M).new} :
                /\ DOMAIN sp[1] \cup DOMAIN sp[3] = DOMAIN sp[2] /\ DOMAIN sp[3] \cup DOMAIN sp[5] = DOMAIN sp[4]
                /\ DOMAIN sp[2] \cup DOMAIN sp[5] = DOMAIN A /\ DOMAIN sp[2] \cap DOMAIN sp[5] = {}
                /\ \A c \in {MapEval(Op("catenate", 1, 2, k, 1, <<>>), <<sp[1], sp[5]>>, M).new[1]} :
                      DOMAIN c = DOMAIN A \cup {k} /\ c[k] = 1 /\ \A j \in DOMAIN A \ {k} : c[j] = A[j]
=======================================================================
