SPECIFICATION Spec
CONSTANTS W = 2
          N = 320
INVARIANTS NatOps IntOps DivRel GcdRel GcdZero SqrtRel RatOps PartRel TextRel
CHECK_DEADLOCK FALSE
