SPECIFICATION Spec
CONSTANTS Sigma = {97, 65, 98}
          MaxLen = 2
          Level = 2
          Fam = "case"
INVARIANTS TwoFormulations SearchIsContextMatch SearchFromMatch GroupsWF ReportSound ReportRejectsNonMatch 
CHECK_DEADLOCK FALSE
