SPECIFICATION Spec
CONSTANTS
  Alphabet <- Two
  NRegs = 1
  NCur = 1
  MaxLen = 2
  Lits <- LitsSmall
  UsePorts = TRUE
  UseCursors = FALSE
VIEW View
INVARIANTS TypeOK LenIsCount Utf8RoundTrip CursorIndexBijection
PROPERTY ErrKeepsState
