SPECIFICATION Spec
CONSTANTS W = 2
          N = 160
INVARIANTS DivSem BitView Logic Shift Counts Single Fields Lists
CHECK_DEADLOCK FALSE
