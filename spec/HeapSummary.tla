---------------------------- MODULE HeapSummary ----------------------------
(* Trace validation of whole-program runs (hooks H2/H4): every collection of a real
   workload logs, per segment, <<size, #free, free chunks, #live, live chunks, walk
   reached the segment end>> plus anomaly counters computed by the post-GC heap walk
   (the walker itself is validated against Heap.tla on the micro heap, see HeapTrace!TGc).
   The abstract state is the sequence of segment sizes, the peak of live chunks and the
   number of collections; the judgement per event:
     - segments are only ever appended, sizes never change            (well-formed heap)
     - sentinel + free + live chunks = segment size; the walk tiles to the end (exact tiling)
     - no anomaly: free list sorted / disjoint / in bounds, no mark bit left, slack bytes
       zero, no slot designating a non-object, no bad object header     (C10 / C02)
     - growth only by Grow events, and the total stays within Bound(peak live) (recycling) *)
EXTENDS Integers, Sequences, FiniteSets, TLC, SequencesExt, Json, IOUtils

CONSTANTS GrowNum, GrowDen   \* Bound: total <= max(initial, GrowNum/GrowDen * peakLive + slack)

TraceLog == ndJsonDeserialize(IOEnv.TRACE)
VARIABLES l, segs, peak, gcs, pendingGrow, run,
          expect    \* expect[prog] = observable output of the first (reference) run of prog
vars == <<l, segs, peak, gcs, pendingGrow, run, expect>>

Ev == TraceLog[l]
IsEvent(e) == l <= Len(TraceLog) /\ Ev.e = e /\ l' = l + 1
Sum(q) == FoldLeft(LAMBDA a, b : a + b, 0, q)
Total(sg) == Sum(sg)

Init == l = 1 /\ segs = <<>> /\ peak = 0 /\ gcs = 0 /\ pendingGrow = <<>> /\ run = 0 /\ expect = [p \in {} |-> ""]

\* a new execution starts (harness marker)
TRun == /\ IsEvent("Run")
        /\ segs' = <<>> /\ peak' = 0 /\ gcs' = 0 /\ pendingGrow' = <<>> /\ run' = run + 1
        /\ UNCHANGED expect

\* C02 schedule independence: an execution ended; its exit status is 0 and its observable output equals
\* the output of the reference run of the same program (the first run, made without forced collections)
TEnd == /\ IsEvent("End")
        /\ Ev.rc = 0
        /\ IF Ev.prog \in DOMAIN expect
           THEN Ev.out = expect[Ev.prog] /\ UNCHANGED expect
           ELSE expect' = [p \in DOMAIN expect \cup {Ev.prog} |-> IF p = Ev.prog THEN Ev.out ELSE expect[p]]
        /\ UNCHANGED <<segs, peak, gcs, pendingGrow, run>>

SegOk(sm) == /\ sm[3] + sm[5] + 1 = sm[1]     \* free + live + sentinel = size
             /\ sm[6] = 1                     \* the tiling walk ended exactly at the segment end
             /\ sm[2] <= sm[3]                \* every free chunk has at least one cell

TGc == /\ IsEvent("Gc")
       /\ LET sizes == [s \in 1..Len(Ev.segs) |-> Ev.segs[s][1]]
              live == Sum([s \in 1..Len(Ev.segs) |-> Ev.segs[s][5]])
          IN /\ \A s \in 1..Len(Ev.segs) : SegOk(Ev.segs[s])
             /\ \A k \in 1..Len(Ev.anom) : Ev.anom[k] = 0
             \* segments are only appended (first Gc of a run defines the initial segments)
             /\ IF segs = <<>> THEN TRUE
                ELSE /\ Len(sizes) = Len(segs) + Len(pendingGrow)
                     /\ SubSeq(sizes, 1, Len(segs)) = segs
                     /\ \A k \in 1..Len(pendingGrow) : pendingGrow[k] \in {sizes[j] : j \in Len(segs)+1..Len(sizes)}
             /\ segs' = sizes
             /\ peak' = IF live > peak THEN live ELSE peak
             /\ gcs' = gcs + 1
             /\ pendingGrow' = <<>>
       /\ UNCHANGED <<run, expect>>

TGrow == /\ IsEvent("Grow")
         /\ pendingGrow' = IF Ev.ok = 1 THEN Append(pendingGrow, Ev.new) ELSE pendingGrow
         /\ UNCHANGED <<segs, peak, gcs, run, expect>>

\* events of other subsystems interleaved in the same log are skipped
\* (a Crash event has no action: a crashed execution is never accepted)
TOther == /\ l <= Len(TraceLog) /\ Ev.e \notin {"Run", "Gc", "Grow", "End", "Crash"}
          /\ l' = l + 1 /\ UNCHANGED <<segs, peak, gcs, pendingGrow, run, expect>>

Next == TRun \/ TGc \/ TGrow \/ TEnd \/ TOther
Spec == Init /\ [][Next]_vars

\* recycling: the heap total is bounded by a constant multiple of the peak live size
\* (growth policy: grow when live > 3/4 total or nothing fits; new segment = 2 * max(last, request))
Bounded == segs # <<>> /\ gcs >= 2 =>
   Total(segs) * GrowDen <= (IF Total(SubSeq(segs, 1, 1)) > peak THEN Total(SubSeq(segs, 1, 1)) ELSE peak) * GrowNum

Accepted ==
    LET d == TLCGet("stats").diameter IN
    IF d - 1 = Len(TraceLog) THEN TRUE
    ELSE PrintT(<<"TRACE_REJECTED_AT", d, Len(TraceLog)>>) /\ FALSE
=============================================================================
