---------------------------- MODULE AdtQueue ----------------------------
(* SRFI 117 list queues: MUTABLE objects.  ver[i] is the current content of queue object i; the mutators
   change exactly the object they are applied to (upd), every other object keeps its content.
   list-queue-append! may destroy its arguments (kill); list-queue-append returns a fresh queue. *)
EXTENDS AdtBase

QTable == <<
  <<"list-queue", S_s, 5>>, <<"make", S_s, 3>>, <<"copy", S_v, 3>>, <<"unfold", S_x, 1>>, <<"unfold-right", S_x, 1>>,
  <<"empty?", S_v, 2>>, <<"front", S_v, 4>>, <<"back", S_v, 6>>, <<"list", S_v, 4>>,
  <<"add-front!", S_vk, 8>>, <<"add-back!", S_vk, 10>>, <<"remove-front!", S_v, 6>>, <<"remove-back!", S_v, 8>>,
  <<"remove-all!", S_v, 2>>, <<"set-list!", S_vs, 3>>, <<"append", S_vw, 4>>, <<"append!", S_vw, 2>>, <<"concatenate", S_vw, 2>>,
  <<"map", S_vx, 2>>, <<"map!", S_vx, 2>>, <<"for-each", S_v, 2>>, <<"unfold+", S_vx, 1>>, <<"unfold-right+", S_vx, 1>> >>
QNorm(o, s) == IF o.op \in {"unfold", "unfold-right", "unfold+", "unfold-right+"} THEN [o EXCEPT !.x = o.x % 6]
               ELSE IF o.op \in {"map", "map!"} THEN [o EXCEPT !.x = o.x % NFun] ELSE o
QPre(o, s) == /\ (o.op \in {"front", "back", "remove-front!", "remove-back!"} => s[o.v] # <<>>)
              /\ (o.op = "append!" => o.v # o.w)
              /\ (o.op \in {"append", "append!", "concatenate"} => Len(s[o.v]) + Len(s[o.w]) <= 60)
QEval(o, s, M) ==
  LET A == s[o.v]  C == s[o.w]  Is(n) == o.op = n  Is2(n, n2) == o.op \in {n, n2}
      Up(val, obs) == ResUpd(<< <<o.v, val>> >>, obs)
      Count == [i \in 1..o.x |-> i - 1]            \* 0, 1, .., x-1
  IN CASE Is2("list-queue", "make") -> Res(<<o.ks>>, None)
       [] Is("copy") -> Res(<<A>>, None)
       [] Is("unfold") -> Res(<<Count>>, None)                 \* seeds 0..x-1 in order
       [] Is("unfold-right") -> Res(<<RevSeq(Count)>>, None)
       \* with a queue argument: the new elements go in front / at the back of that queue, which is returned
       [] Is("unfold+") -> Up(Count \o A, None)
       [] Is("unfold-right+") -> Up(A \o RevSeq(Count), None)
       [] Is("empty?") -> Res(<<>>, <<B(A = <<>>)>>)
       [] Is("front") -> Res(<<>>, <<A[1]>>)
       [] Is("back") -> Res(<<>>, <<A[Len(A)]>>)
       [] Is2("list", "for-each") -> Res(<<>>, A)
       [] Is("add-front!") -> Up(<<o.k>> \o A, None)
       [] Is("add-back!") -> Up(A \o <<o.k>>, None)
       [] Is("remove-front!") -> Up(Tail(A), <<A[1]>>)
       [] Is("remove-back!") -> Up(SubSeq(A, 1, Len(A) - 1), <<A[Len(A)]>>)
       [] Is("remove-all!") -> Up(<<>>, A)
       [] Is("set-list!") -> Up(o.ks, None)
       [] Is2("append", "concatenate") -> Res(<<A \o C>>, None)
       [] Is("append!") -> ResKill(<<A \o C>>, None, {o.v, o.w})
       [] Is("map") -> Res(<<[i \in DOMAIN A |-> Fun(o.x, M, A[i])]>>, None)
       [] Is("map!") -> Up([i \in DOMAIN A |-> Fun(o.x, M, A[i])], None)
QLaws(s, live, M) ==
  \A v \in live :
    LET A == s[v]
        R(name, k) == QEval(Op(name, v, v, k, 0, <<>>), s, M)
    IN /\ \A k \in 0..(M - 1) :
            \A a \in {R("add-back!", k).upd[1][2]}, f \in {R("add-front!", k).upd[1][2]} :
              /\ QEval(Op("remove-back!", 1, 0, 0, 0, <<>>), <<a>>, M).upd[1][2] = A
              /\ QEval(Op("remove-back!", 1, 0, 0, 0, <<>>), <<a>>, M).obs = {<<k>>}
              /\ QEval(Op("remove-front!", 1, 0, 0, 0, <<>>), <<f>>, M).upd[1][2] = A
              /\ QEval(Op("back", 1, 0, 0, 0, <<>>), <<a>>, M).obs = {<<k>>}
       /\ R("remove-all!", 0).obs = {A}
=========================================================================
