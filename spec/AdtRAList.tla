---------------------------- MODULE AdtRAList ----------------------------
(* SRFI 101 purely functional random-access lists as finite sequences. *)
EXTENDS AdtBase

RATable == <<
  <<"list", S_s, 6>>, <<"make-list", S_xk, 2>>, <<"list->ra", S_s, 2>>,
  <<"cons", S_vk, 8>>, <<"car", S_v, 3>>, <<"cdr", S_v, 5>>, <<"null?", S_v, 1>>, <<"pair?", S_v, 1>>, <<"list?", S_v, 1>>,
  <<"length", S_v, 3>>, <<"length<=?", S_vx, 2>>, <<"list-ref", S_vx, 6>>, <<"list-set", S_vxk, 6>>, <<"list-ref/update", S_vxk, 4>>,
  <<"list-tail", S_vx, 4>>, <<"append", S_vw, 5>>, <<"reverse", S_v, 3>>, <<"map", S_vx, 3>>, <<"map2", S_vw, 2>>,
  <<"for-each", S_v, 2>>, <<"->list", S_v, 3>>, <<"cadr", S_v, 1>>, <<"cddr", S_v, 2>>, <<"append3", S_vw, 1>> >>
RANorm(o, s) ==
  LET n == IF o.v \in DOMAIN s THEN Len(s[o.v]) ELSE 0 IN
  IF o.op = "make-list" THEN [o EXCEPT !.x = o.x % 12]
  ELSE IF o.op = "length<=?" THEN [o EXCEPT !.x = o.x % 10]
  ELSE IF o.op \in {"list-ref", "list-set", "list-ref/update"} THEN [o EXCEPT !.x = IF n = 0 THEN 0 ELSE o.x % n]
  ELSE IF o.op = "list-tail" THEN [o EXCEPT !.x = o.x % (n + 1)]
  ELSE IF o.op = "map" THEN [o EXCEPT !.x = o.x % NFun]
  ELSE o
RAPre(o, s) ==
  /\ (o.op \in {"car", "cdr", "list-ref", "list-set", "list-ref/update"} => s[o.v] # <<>>)
  /\ (o.op \in {"cadr", "cddr"} => Len(s[o.v]) >= 2)
  /\ (o.op \in {"list-ref", "list-set", "list-ref/update"} => o.x < Len(s[o.v]))
  /\ (o.op = "list-tail" => o.x <= Len(s[o.v]))
  /\ (o.op = "map2" => Len(s[o.v]) = Len(s[o.w]))
  /\ (o.op \in {"append", "append3"} => Len(s[o.v]) + Len(s[o.w]) <= 60)
RAEval(o, s, M) ==
  LET A == s[o.v]  C == s[o.w]  Is(n) == o.op = n  Is2(n, n2) == o.op \in {n, n2}
  IN CASE Is2("list", "list->ra") -> Res(<<o.ks>>, None)
       [] Is("make-list") -> Res(<<[i \in 1..o.x |-> o.k]>>, None)
       [] Is("cons") -> Res(<<<<o.k>> \o A>>, None)
       [] Is("car") -> Res(<<>>, <<A[1]>>)
       [] Is("cdr") -> Res(<<Tail(A)>>, None)
       [] Is("cadr") -> Res(<<>>, <<A[2]>>)
       [] Is("cddr") -> Res(<<Tail(Tail(A))>>, None)
       [] Is("null?") -> Res(<<>>, <<B(A = <<>>)>>)
       [] Is("pair?") -> Res(<<>>, <<B(A # <<>>)>>)
       [] Is("list?") -> Res(<<>>, <<1>>)
       [] Is("length") -> Res(<<>>, <<Len(A)>>)
       [] Is("length<=?") -> Res(<<>>, <<B(o.x <= Len(A))>>)
       [] Is("list-ref") -> Res(<<>>, <<A[o.x + 1]>>)
       [] Is("list-set") -> Res(<<[A EXCEPT ![o.x + 1] = o.k]>>, None)
       \* (list-ref/update l i (lambda (e) (modulo (+ e k) M))) -> element and updated list
       [] Is("list-ref/update") -> Res(<<[A EXCEPT ![o.x + 1] = (@ + o.k) % M]>>, <<A[o.x + 1]>>)
       [] Is("list-tail") -> Res(<<Drop(A, o.x)>>, None)
       [] Is("append") -> Res(<<A \o C>>, None)
       [] Is("append3") -> Res(<<A \o C \o A>>, None)
       [] Is("reverse") -> Res(<<RevSeq(A)>>, None)
       [] Is("map") -> Res(<<[i \in DOMAIN A |-> Fun(o.x, M, A[i])]>>, None)
       [] Is("map2") -> Res(<<[i \in DOMAIN A |-> (A[i] + C[i]) % M]>>, None)
       [] Is2("for-each", "->list") -> Res(<<>>, A)
RALaws(s, live, M) ==
  \A v \in live, w \in live :
    LET A == s[v] C == s[w]
        N(name, x) == RAEval(Op(name, v, w, 0, x, <<>>), s, M).new[1]
    IN /\ Len(N("append", 0)) = Len(A) + Len(C) /\ N("reverse", 0) = Reverse(A)
       /\ \A x \in 0..Len(A) : (N("list-tail", x) = SubSeq(A, x + 1, Len(A)))
       /\ (A # <<>> => <<A[1]>> \o N("cdr", 0) = A)
       /\ RAEval(Op("reverse", 1, 0, 0, 0, <<>>), <<N("reverse", 0)>>, M).new[1] = A
==========================================================================
