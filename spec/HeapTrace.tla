---------------------------- MODULE HeapTrace ----------------------------
(* Trace validation for Heap: replays an ndjson trace recorded from the real
   allocator / collector (harness/c/microheap.c + hooks H2/H4) against the
   actions of Heap.  Placement and the shape of the free lists are BOUND from
   the log (policy free); which objects survive a collection, what the
   ephemerons and finalizers do, and all invariants are the specification's. *)
EXTENDS Heap, Json, IOUtils

TIds == 1..16
TMenu == {}
TraceLog == ndJsonDeserialize(IOEnv.TRACE)

VARIABLE l            \* next event to consume
tvars == <<vars, l>>

Ev == TraceLog[l]
IsEvent(e) == l <= Len(TraceLog) /\ Ev.e = e /\ l' = l + 1

\* ---- conversions from the log (segments are 0-based there, 1-based here)
FreeOfLog(fl, n) == [s \in 1..n |->
    LET q == SelectSeq(fl, LAMBDA x : x[1] = s - 1) IN [k \in 1..Len(q) |-> <<q[k][2], q[k][3]>>]]
AddrOfId(o, v) == IF v = NoId THEN <<-1, -1>> ELSE <<o[v].seg - 1, o[v].off>>
ObjView(o, i) == <<o[i].seg - 1, o[i].off, o[i].size, o[i].kind, IF o[i].broken THEN 1 ELSE 0,
                   [x \in 1..Len(o[i].slots) |-> AddrOfId(o, o[i].slots[x])]>>
AliveOf(o) == {i \in Ids : o[i].kind # "none"}

\* the implementation state logged with event ev equals the specification state (sg, fr, o, rg, sv)
Matches(ev, sg, fr, o, rg, sv) ==
    /\ sg = ev.segs
    /\ fr = FreeOfLog(ev.free, Len(ev.segs))
    /\ {ObjView(o, i) : i \in AliveOf(o)} = {ev.objs[k] : k \in 1..Len(ev.objs)}
    /\ Cardinality(AliveOf(o)) = Len(ev.objs)
    /\ \A r \in Regs : AddrOfId(o, rg[r]) = ev.regs[r]
    /\ Len(sv) = Len(ev.saves)
    /\ \A k \in 1..Len(sv) : AddrOfId(o, sv[k]) = ev.saves[k]

\* ---- trace actions
TReset ==
    /\ IsEvent("Reset")
    /\ segs' = <<Ev.init>>
    /\ free' = << << <<1, Ev.init - 1>> >> >>
    /\ obj' = [i \in Ids |-> NoObj]
    /\ regs' = [r \in Regs |-> NoId]
    /\ saves' = <<>> /\ tmp' = NoId /\ pendFin' = {}
    /\ lastAct' = <<"Init">>
    /\ Matches(Ev, segs', free', obj', regs', saves')

TAlloc ==
    /\ IsEvent("Alloc")
    /\ LET s == Ev.seg + 1
           nf == FreeOfLog(Ev.free, Len(Ev.segs))
       IN /\ s \in SegIdx
          /\ \E j \in 1..Len(free[s]) :
                AllocAt(Ev.id, <<Ev.kind, Ev.size, Ev.ns>>, s, j, Ev.off, Ev.dk, Ev.r, nf)
    /\ Matches(Ev, segs', free', obj', regs', saves')

\* an allocation may fail only if nothing fits (after the collection and growth attempts logged before it)
TAllocFail ==
    /\ IsEvent("AllocFail")
    /\ NoFit(Ev.size)
    /\ lastAct' = <<"AllocFail">>
    /\ UNCHANGED <<segs, free, obj, regs, saves, tmp, pendFin>>
    /\ Matches(Ev, segs, free, obj, regs, saves)

TSet == /\ IsEvent("Set") /\ SetSlot(Ev.id, Ev.slot, Ev.v)
        /\ Matches(Ev, segs', free', obj', regs', saves')
TReg == /\ IsEvent("Reg") /\ Ev.r \in Regs
        /\ (Ev.v = NoId \/ Ev.v \in Held)
        /\ regs' = [regs EXCEPT ![Ev.r] = Ev.v]
        /\ lastAct' = <<"Reg", Ev.r, Ev.v>>
        /\ UNCHANGED <<segs, free, obj, saves, tmp, pendFin>>
        /\ Matches(Ev, segs', free', obj', regs', saves')
TPush == /\ IsEvent("Push") /\ PushSave(Ev.v)
         /\ Matches(Ev, segs', free', obj', regs', saves')
TPop == /\ IsEvent("Pop") /\ PopSave
        /\ Matches(Ev, segs', free', obj', regs', saves')

\* hook H2 event: a collection happened; the free lists are the logged ones, everything else is the spec's.
\* The hook's own summary (per segment: size, #free, free chunks, #live, live chunks, walk reached the end)
\* and its anomaly counters are checked against the specification state after the collection.
TGc ==
    /\ IsEvent("Gc")
    /\ CollectWith(FreeOfLog(Ev.free, Len(Ev.segs)))
    /\ Len(Ev.segs) = Len(segs)
    /\ \A s \in SegIdx :
         LET sm == Ev.segs[s]
             al == {i \in AliveOf(obj') : obj'[i].seg = s}
         IN /\ sm[1] = segs[s]
            /\ sm[2] = Len(free'[s])
            /\ sm[3] = FoldLeft(LAMBDA a, c : a + c[2], 0, free'[s])
            /\ sm[4] = Cardinality(al)
            /\ sm[5] = FoldSet(LAMBDA i, a : a + obj'[i].size, 0, al)
            /\ sm[6] = 1
    /\ \A k \in 1..Len(Ev.anom) : Ev.anom[k] = 0

TGrow ==
    /\ IsEvent("Grow")
    /\ IF Ev.ok = 1 THEN Grow(Ev.new)
       ELSE UNCHANGED vars

TFin ==
    /\ IsEvent("Fin")
    /\ pendFin = {<<Ev.fin[k][1] + 1, Ev.fin[k][2]>> : k \in 1..Len(Ev.fin)}
    /\ Cardinality(pendFin) = Len(Ev.fin)          \* each finalizer ran exactly once
    /\ pendFin' = {}
    /\ lastAct' = <<"ObserveFin">>
    /\ UNCHANGED <<segs, free, obj, regs, saves, tmp>>

TState ==
    /\ IsEvent("State")
    /\ UNCHANGED vars
    /\ Matches(Ev, segs, free, obj, regs, saves)

TDone == IsEvent("Done") /\ UNCHANGED vars

TraceInit == Init /\ l = 1
TraceNext == TReset \/ TAlloc \/ TAllocFail \/ TSet \/ TReg \/ TPush \/ TPop \/ TGc \/ TGrow \/ TFin \/ TState \/ TDone
TraceSpec == TraceInit /\ [][TraceNext]_tvars

\* acceptance: every event was explained
TraceAccepted ==
    LET d == TLCGet("stats").diameter IN
    IF d - 1 = Len(TraceLog) THEN TRUE
    ELSE /\ PrintT(<<"TRACE_REJECTED_AT", d, Len(TraceLog)>>)
         /\ FALSE
=========================================================================
