SPECIFICATION BuildSpec
CONSTANTS
  Graph <- SmallGraph
  MaxDepth = 2
  MaxIds = 2
  Pfx = {"p", "q:"}
  Pool = {"a", "o", "z"}
  MaxTicks = 2
  StartLibs = {1, 2, 3}
INVARIANTS
  LawWF LawAgree LawNoInvent LawBindingsExist LawPrefixDrop LawPartition LawRename LawSwap
CHECK_DEADLOCK FALSE
