---------------------------- MODULE AdtBag ----------------------------
(* SRFI 113 bags as functions Keys -> Nat (multiplicities).  Sub-bag order: pointwise <=.
   union = pointwise max, intersection = min, difference = monus, xor = |c1 - c2|, sum = +, product = n * c.
   bag-delete / bag-replace are only judged on elements of multiplicity <= 1 (the SRFI text does not settle
   whether one or all copies go); bag-search! is not judged. *)
EXTENDS AdtBase

BagTable == <<
  <<"bag", S_s, 6>>, <<"list->bag", S_s, 3>>, <<"alist->bag", S_xs, 2>>, <<"set->bag", S_s, 1>>,
  <<"contains?", S_vk, 3>>, <<"empty?", S_v, 1>>, <<"size", S_v, 3>>, <<"unique-size", S_v, 2>>, <<"element-count", S_vk, 4>>,
  <<"disjoint?", S_vw, 2>>, <<"member", S_vk, 1>>, <<"find", S_vxk, 1>>, <<"count", S_vxk, 2>>, <<"any?", S_vxk, 1>>, <<"every?", S_vxk, 1>>,
  <<"fold", S_v, 2>>, <<"fold-unique", S_v, 2>>, <<"->list", S_v, 3>>, <<"->alist", S_v, 2>>, <<"->set", S_v, 2>>,
  <<"=?", S_vw, 4>>, <<"<?", S_vw, 3>>, <<">?", S_vw, 3>>, <<"<=?", S_vw, 4>>, <<">=?", S_vw, 3>>,
  <<"adjoin", S_vs, 8>>, <<"delete", S_vk, 3>>, <<"replace", S_vk, 1>>, <<"map", S_vx, 2>>,
  <<"filter", S_vxk, 2>>, <<"remove", S_vxk, 2>>, <<"partition", S_vxk, 2>>, <<"copy", S_v, 1>>,
  <<"union", S_vw, 4>>, <<"intersection", S_vw, 4>>, <<"difference", S_vw, 4>>, <<"xor", S_vw, 4>>, <<"sum", S_vw, 4>>,
  <<"product", S_vx, 3>>,
  <<"adjoin!", S_vs, 3>>, <<"delete!", S_vk, 1>>, <<"replace!", S_vk, 1>>, <<"filter!", S_vxk, 1>>, <<"remove!", S_vxk, 1>>,
  <<"partition!", S_vxk, 1>>, <<"list->bag!", S_vs, 1>>, <<"set->bag!", S_vs, 1>>,
  <<"union!", S_vw, 2>>, <<"intersection!", S_vw, 2>>, <<"difference!", S_vw, 2>>, <<"xor!", S_vw, 2>>, <<"sum!", S_vw, 2>>,
  <<"product!", S_vx, 1>>, <<"increment!", S_vxk, 3>>, <<"decrement!", S_vxk, 3>> >>
BagLinear == {"adjoin!", "delete!", "replace!", "filter!", "remove!", "partition!", "list->bag!", "set->bag!", "union!",
              "intersection!", "difference!", "xor!", "sum!", "product!", "increment!", "decrement!"}

BagOf(q, Keys) == [k \in Keys |-> Cardinality({i \in DOMAIN q : q[i] = k})]
BagDom(f) == {k \in DOMAIN f : f[k] > 0}
BagCanon(f) == LET ks == SortedSeq(BagDom(f)) IN [i \in 1..Len(ks) |-> <<ks[i], f[ks[i]]>>]
BagWF(c, Keys) == /\ \A i \in DOMAIN c : c[i][1] \in Keys /\ c[i][2] > 0
                  /\ \A i \in 1..(Len(c) - 1) : c[i][1] < c[i + 1][1]
BagFrom(c, Keys) == [k \in Keys |-> IF \E i \in DOMAIN c : c[i][1] = k THEN c[CHOOSE i \in DOMAIN c : c[i][1] = k][2] ELSE 0]
BagTypeOK(f, Keys) == DOMAIN f = Keys /\ \A k \in Keys : f[k] \in Nat
BagNorm(o, s) == IF o.op = "alist->bag" THEN [o EXCEPT !.ks = DedupSeq(o.ks), !.x = o.x % 3]
                 ELSE IF o.op \in {"product", "product!", "increment!", "decrement!"} THEN [o EXCEPT !.x = o.x % 4]
                 ELSE IF o.op = "map" THEN [o EXCEPT !.x = o.x % NFun]
                 ELSE [o EXCEPT !.x = o.x % NPred]
BagPre(o, s) == /\ (o.op \in {"union!", "intersection!", "difference!", "xor!", "sum!"} => o.v # o.w)
                /\ (o.op \in {"delete", "delete!", "replace", "replace!"} => s[o.v][o.k] <= 1)
BagMonus(a, b) == IF a > b THEN a - b ELSE 0
BagAbsDiff(a, b) == IF a > b THEN a - b ELSE b - a
BagMax2(a, b) == IF a > b THEN a ELSE b
BagMin2(a, b) == IF a < b THEN a ELSE b
BagTotal(f) == FoldSet(LAMBDA k, a : a + f[k], 0, DOMAIN f)
BagWSum(f) == FoldSet(LAMBDA k, a : a + k * f[k], 0, DOMAIN f)

BagEval(o, s, M, Keys) ==
  LET A == s[o.v]  C == s[o.w]
      P(e) == Pred(o.x, o.k, e)
      lin == o.op \in BagLinear
      Out(new, obs) == IF lin THEN ResKill(new, obs, {o.v}) ELSE Res(new, obs)
      Is(n) == o.op = n
      Is2(n, n2) == o.op \in {n, n2}
      Pt(F(_, _)) == [k \in Keys |-> F(A[k], C[k])]
      Le(f, g) == \A k \in Keys : f[k] <= g[k]
  IN CASE Is2("bag", "list->bag") -> Res(<<BagOf(o.ks, Keys)>>, None)
       \* i-th distinct key with multiplicity 1 + (x + i) mod 3
       [] Is("alist->bag") -> Res(<<[k \in Keys |-> IF \E i \in DOMAIN o.ks : o.ks[i] = k
                                      THEN 1 + ((o.x + (CHOOSE i \in DOMAIN o.ks : o.ks[i] = k)) % 3) ELSE 0]>>, None)
       [] Is("set->bag") -> Res(<<[k \in Keys |-> B(k \in RangeOf(o.ks))]>>, None)
       [] Is("set->bag!") -> Out(<<[k \in Keys |-> A[k] + B(k \in RangeOf(o.ks))]>>, None)
       [] Is("list->bag!") -> Out(<<[k \in Keys |-> A[k] + BagOf(o.ks, Keys)[k]]>>, None)
       [] Is("contains?") -> Res(<<>>, <<B(A[o.k] > 0)>>)
       [] Is("empty?") -> Res(<<>>, <<B(BagDom(A) = {})>>)
       [] Is("size") -> Res(<<>>, <<BagTotal(A)>>)
       [] Is("unique-size") -> Res(<<>>, <<Cardinality(BagDom(A))>>)
       [] Is("element-count") -> Res(<<>>, <<A[o.k]>>)
       [] Is("disjoint?") -> Res(<<>>, <<B(BagDom(A) \cap BagDom(C) = {})>>)
       [] Is("member") -> Res(<<>>, <<IF A[o.k] > 0 THEN o.k ELSE -1>>)
       [] Is("find") -> (LET F == {e \in BagDom(A) : P(e)} IN ResAny(<<>>, IF F = {} THEN {<<-1>>} ELSE {<<e>> : e \in F}))
       [] Is("count") -> Res(<<>>, <<BagTotal([k \in Keys |-> IF P(k) THEN A[k] ELSE 0])>>)
       [] Is("any?") -> Res(<<>>, <<B(\E e \in BagDom(A) : P(e))>>)
       [] Is("every?") -> Res(<<>>, <<B(\A e \in BagDom(A) : P(e))>>)
       [] Is("fold") -> Res(<<>>, <<BagWSum(A)>>)
       [] Is2("fold-unique", "->alist") -> Res(<<>>, BagCanon(A))
       [] Is("->list") -> Res(<<>>, FlattenSeq([i \in 1..Len(BagCanon(A)) |-> [j \in 1..BagCanon(A)[i][2] |-> BagCanon(A)[i][1]]]))
       [] Is("->set") -> Res(<<>>, SortedSeq(BagDom(A)))
       [] Is("=?") -> Res(<<>>, <<B(A = C)>>)
       [] Is("<?") -> Res(<<>>, <<B(Le(A, C) /\ A # C)>>)
       [] Is(">?") -> Res(<<>>, <<B(Le(C, A) /\ A # C)>>)
       [] Is("<=?") -> Res(<<>>, <<B(Le(A, C))>>)
       [] Is(">=?") -> Res(<<>>, <<B(Le(C, A))>>)
       [] Is2("adjoin", "adjoin!") -> Out(<<[k \in Keys |-> A[k] + BagOf(o.ks, Keys)[k]]>>, None)
       [] Is2("delete", "delete!") -> Out(<<[A EXCEPT ![o.k] = 0]>>, None)        \* multiplicity was <= 1
       [] Is2("replace", "replace!") -> Out(<<A>>, None)                          \* multiplicity was <= 1
       [] Is("map") -> Res(<<[k \in Keys |-> BagTotal([j \in Keys |-> IF Fun(o.x, M, j) = k THEN A[j] ELSE 0])]>>, None)
       [] Is2("filter", "filter!") -> Out(<<[k \in Keys |-> IF P(k) THEN A[k] ELSE 0]>>, None)
       [] Is2("remove", "remove!") -> Out(<<[k \in Keys |-> IF P(k) THEN 0 ELSE A[k]]>>, None)
       [] Is2("partition", "partition!") -> Out(<<[k \in Keys |-> IF P(k) THEN A[k] ELSE 0], [k \in Keys |-> IF P(k) THEN 0 ELSE A[k]]>>, None)
       [] Is("copy") -> Res(<<A>>, None)
       [] Is2("union", "union!") -> Out(<<Pt(BagMax2)>>, None)
       [] Is2("intersection", "intersection!") -> Out(<<Pt(BagMin2)>>, None)
       [] Is2("difference", "difference!") -> Out(<<Pt(BagMonus)>>, None)
       [] Is2("xor", "xor!") -> Out(<<Pt(BagAbsDiff)>>, None)
       [] Is2("sum", "sum!") -> Out(<<Pt(LAMBDA a, b : a + b)>>, None)
       [] Is2("product", "product!") -> Out(<<[k \in Keys |-> o.x * A[k]]>>, None)
       [] Is("increment!") -> Out(<<[A EXCEPT ![o.k] = @ + o.x]>>, None)
       [] Is("decrement!") -> Out(<<[A EXCEPT ![o.k] = BagMonus(@, o.x)]>>, None)

BagLaws(s, live, M, Keys) ==
  \A v \in live, w \in live :
    LET A == s[v] C == s[w]
        N(name) == BagEval(Op(name, v, w, 0, 0, <<>>), s, M, Keys).new[1]
        O(name) == CHOOSE x \in BagEval(Op(name, v, w, 0, 0, <<>>), s, M, Keys).obs : TRUE
    IN \A U \in {N("union")}, I \in {N("intersection")}, X \in {N("xor")}, D \in {N("difference")}, S \in {N("sum")},
          le \in {O("<=?")}, eq \in {O("=?")}, cA \in {BagCanon(A)} :
       /\ \A k \in Keys : U[k] + I[k] = S[k] /\ X[k] = U[k] - I[k] /\ D[k] + I[k] = A[k]
       /\ (le = <<1>>) = (U = C) /\ (le = <<1>>) = (I = A) /\ (le = <<1>>) = (D = [k \in Keys |-> 0])
       /\ (O("<?") = <<1>>) = (le = <<1>> /\ eq = <<0>>)
       /\ (eq = <<1>>) = (cA = BagCanon(C))
       /\ (O("disjoint?") = <<1>>) = (I = [k \in Keys |-> 0])
       /\ O("size") = <<SumSeq([i \in DOMAIN cA |-> cA[i][2]])>> /\ O("unique-size") = <<Len(cA)>>
       /\ O("size") = <<Len(O("->list"))>>
       /\ BagWF(cA, Keys) /\ BagFrom(cA, Keys) = A
       /\ (v = w) => (N("sum") = BagEval(Op("product", v, 0, 0, 2, <<>>), s, M, Keys).new[1])
=======================================================================
