---------------------------- MODULE ImportTrace ----------------------------
(* Validates what the real chibi-scheme did (harness/scm/c14) against Import / ImportRun.
   $GRAPH : the library graph (one JSON line: libs, base = identifiers of other libraries that must stay invisible)
   $CASES : line i = case i : {"sets": [import set, ...]}  (the import sets of one program / environment)
   $TRACE : events of one or more processes:
      Start                    a new process: nothing instantiated
      Import id                the program starts importing
      Body lib                 written by the body of the library itself
      Imported id err msg      the import finished / raised an error
      Probed id obs            obs = <<name, ref, call>> for every name of the universe, in the order probed
      End, Exit rc
   One verdict line is printed per case: "CASE id ok|rejected|skipped reason", followed by <<"DETAIL", ..>>;
   "skipped" = the case is not well-formed (R7RS: "it is an error"), its outcome is not judged. *)
EXTENDS ImportRun, Json, IOUtils
Meta == ndJsonDeserialize(IOEnv.GRAPH)[1]
TraceGraph == Meta.libs
Cases == ndJsonDeserialize(IOEnv.CASES)
TraceLog == ndJsonDeserialize(IOEnv.TRACE)
VARIABLES l, seq, cid, flag,
          req       \* the identifiers every program must have been probed at (constant, computed once)
tvars == <<rvars, tab, l, seq, cid, flag, req>>
Ev == TraceLog[l]
IsEvent(x) == l <= Len(TraceLog) /\ Ev.e = x /\ l' = l + 1
Step == Ev.n = seq + 1 /\ seq' = Ev.n

CaseWF(i) == SetsWFG(tab, Cases[i].sets)
\* every identifier some case of this run makes visible, every identifier of the graph, and the foreign ones
Required == {x \in GraphNamesG(tab) \cup Rng(Meta.base) \cup
                     UNION {DOMAIN VisibleG(tab, Cases[i].sets) : i \in {j \in DOMAIN Cases : CaseWF(j)}} : TRUE}
\* one line "CASE <id> <verdict> <reason>" (TLC wraps long tuples over several lines), then the detail
Verdict(id, v, reason, detail) == PrintT("CASE " \o ToString(id) \o " " \o v \o " " \o reason) /\ PrintT(<<"DETAIL", detail>>)
MaxOf(S) == CHOOSE x \in S : \A y \in S : y <= x
Resync(obs) == [k \in Libs |-> MaxOf({ticks[k]} \cup
                  {obs[i][3][3] : i \in {j \in DOMAIN obs : Len(obs[j][3]) = 3 /\ obs[j][3][1] = k}})]

TStart == /\ IsEvent("Start") /\ phase = "off"
          /\ inst' = [k \in Libs |-> 0] /\ ticks' = [k \in Libs |-> 0] /\ phase' = "idle"
          /\ seq' = Ev.n /\ cur' = <<>> /\ cid' = 0 /\ flag' = FALSE
TImport == /\ IsEvent("Import") /\ phase = "idle" /\ Step /\ Ev.id \in DOMAIN Cases
           /\ phase' = "loading" /\ cur' = Cases[Ev.id].sets /\ cid' = Ev.id /\ flag' = FALSE
           /\ UNCHANGED <<inst, ticks>>
\* a body evaluated twice, out of order, or of a library nobody asked for taints the case
TBody == /\ IsEvent("Body") /\ phase = "loading" /\ Ev.lib \in Libs
         /\ inst' = [inst EXCEPT ![Ev.lib] = @ + 1]
         /\ flag' = (flag \/ ~BodyOK(Ev.lib))
         /\ UNCHANGED <<ticks, phase, cur, seq, cid>>
TImported ==
   /\ IsEvent("Imported") /\ phase = "loading" /\ Step /\ Ev.id = cid
   /\ UNCHANGED <<inst, ticks, cur, cid>>
   /\ IF ~CaseWF(cid)
        THEN /\ Verdict(cid, "skipped", "not-wellformed", Ev.err)
             /\ phase' = (IF Ev.err = 0 THEN "unjudged" ELSE "idle") /\ flag' = (Ev.err # 0)
      ELSE IF Ev.err # 0
        THEN /\ Verdict(cid, "rejected", "import-error", Ev.msg)
             /\ phase' = "idle" /\ flag' = TRUE
      ELSE IF flag \/ ~Loaded(cur)
        THEN /\ Verdict(cid, "rejected", "instances", inst)
             /\ phase' = "unjudged" /\ flag' = FALSE
      ELSE phase' = "ready" /\ flag' = FALSE
TProbed ==
   /\ IsEvent("Probed") /\ phase \in {"ready", "unjudged"} /\ Step /\ Ev.id = cid
   /\ phase' = "idle" /\ UNCHANGED <<inst, cur, cid, flag>>
   /\ IF phase = "unjudged" THEN ticks' = Resync(Ev.obs)
      ELSE LET obs == Ev.obs
               vis == Vis
               names == [i \in DOMAIN obs |-> obs[i][1]]
               exp == BatchExpected(vis, ticks, names)
               bad == {i \in DOMAIN obs : <<obs[i][2], obs[i][3]>> # exp[i]}
           IN IF ~(NoDup(names) /\ req \subseteq Rng(names))
                THEN Verdict(cid, "rejected", "incomplete", req \ Rng(names)) /\ ticks' = Resync(obs)
              ELSE IF bad # {}
                THEN LET i == CHOOSE i \in bad : \A j \in bad : i <= j
                     IN Verdict(cid, "rejected", "visibility", [name |-> obs[i][1], got |-> <<obs[i][2], obs[i][3]>>, expected |-> exp[i], nbad |-> Cardinality(bad)])
                        /\ ticks' = Resync(obs)
              ELSE /\ Verdict(cid, "ok", "-", <<Cardinality(DOMAIN vis), {Kind(vis[n]) : n \in DOMAIN vis}>>)
                   /\ ticks' = BatchTicks(vis, ticks, names, Len(names))
TEnd == /\ IsEvent("End") /\ phase = "idle" /\ Step /\ phase' = "ended" /\ UNCHANGED <<inst, ticks, cur, cid, flag>>
\* a process may die only of the import error of its first import (program path); that case has been rejected above
TExit == /\ IsEvent("Exit") /\ ((phase = "ended" /\ Ev.rc = 0) \/ (phase = "idle" /\ flag /\ seq = 3))
         /\ phase' = "off" /\ UNCHANGED <<inst, ticks, cur, cid, flag, seq>>

TraceInit == /\ tab = ExpTab /\ req = Required
             /\ l = 1 /\ seq = 0 /\ cid = 0 /\ flag = FALSE /\ phase = "off" /\ cur = <<>>
             /\ inst = [k \in Libs |-> 0] /\ ticks = [k \in Libs |-> 0]
TraceNext == TStart \/ TImport \/ TBody \/ TImported \/ TProbed \/ TEnd \/ TExit
TraceSpec == TraceInit /\ [][TraceNext /\ UNCHANGED <<tab, req>>]_tvars
Accepted == LET n == TLCGet("stats").diameter IN
            IF n - 1 = Len(TraceLog) /\ GraphWF THEN TRUE
            ELSE PrintT(<<"TRACE_REJECTED_AT", n, Len(TraceLog), GraphWF>>) /\ FALSE
=============================================================================
