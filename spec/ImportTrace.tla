---------------------------- MODULE ImportTrace ----------------------------
(* Validates what the real chibi-scheme did (harness/scm/c14) against Import / ImportRun.
   $GRAPH : the library graph (one JSON line: libs, base = identifiers of other libraries that must stay invisible)
   $CASES : line i = case i : {"sets": [import set, ...]}  (the import sets of one program / environment)
   $TRACE : events of one or more processes:
      Start                    a new process: nothing instantiated
      Import id                the program starts importing
      Body lib                 written by the body of the library itself
      Imported id err msg      the import finished / raised an error
      Probed id obs            obs = <<name, ref, call>> for every name of the universe, in the order probed
      Reprobed id obs          an importer created EARLIER refers to (some of) its names again, after other importers
                               have called procedures of the shared libraries: it must see the libraries' current state
      Assigned id obs          the importer tried to assign imported variables (R7RS: an error, nothing is judged;
                               recorded, and nothing but End may follow in this process)
      End, Exit rc
   One verdict line is printed per Probed / Reprobed event: "CASE id ok|rejected|skipped reason", followed by
   <<"DETAIL", ..>>; a case is accepted iff none of its verdicts is a rejection.
   "skipped" = the case is not well-formed (R7RS: "it is an error"), its outcome is not judged. *)
EXTENDS ImportRun, Json, IOUtils
Meta == ndJsonDeserialize(IOEnv.GRAPH)[1]
TraceGraph == Meta.libs
Cases == ndJsonDeserialize(IOEnv.CASES)
TraceLog == ndJsonDeserialize(IOEnv.TRACE)
VARIABLES l, seq, cid, flag,
          live,     \* cases of this process whose import succeeded: their environments stay in use
          req       \* the identifiers every program must have been probed at (constant, computed once)
tvars == <<rvars, tab, l, seq, cid, flag, live, req>>
Ev == TraceLog[l]
IsEvent(x) == l <= Len(TraceLog) /\ Ev.e = x /\ l' = l + 1
Step == Ev.n = seq + 1 /\ seq' = Ev.n

CaseWF(i) == SetsWFG(tab, Cases[i].sets)
\* every identifier some case of this run makes visible, every identifier of the graph, and the foreign ones
Required == {x \in GraphNamesG(tab) \cup Rng(Meta.base) \cup
                     UNION {DOMAIN VisibleG(tab, Cases[i].sets) : i \in {j \in DOMAIN Cases : CaseWF(j)}} : TRUE}
\* one line "CASE <id> <verdict> <reason>" (TLC wraps long tuples over several lines), then the detail
Verdict(id, v, reason, detail) == PrintT("CASE " \o ToString(id) \o " " \o v \o " " \o reason) /\ PrintT(<<"DETAIL", detail>>)
MaxOf(S) == CHOOSE x \in S : \A y \in S : y <= x
\* after a rejected observation the counters are taken from the record (so that one defect is reported once)
CallsOf(obs, kind, k) == {obs[i][3][3] : i \in {j \in DOMAIN obs : /\ Len(obs[j][3]) = 3 /\ obs[j][3][1] \in Libs
                                                                  /\ <<obs[j][3][1], obs[j][3][2]>> \in Bindings
                                                                  /\ Kind(<<obs[j][3][1], obs[j][3][2]>>) = kind
                                                                  /\ obs[j][3][1] = k}}
ResyncT(obs) == [k \in Libs |-> MaxOf({ticks[k]} \cup CallsOf(obs, "tick", k))]
Tagged(x) == Len(x) = 3 /\ x[1] \in Libs /\ <<x[1], x[2]>> \in Bindings
ResyncV(obs) == [k \in Libs |-> MaxOf({vers[k]} \cup CallsOf(obs, "bump", k)
                    \cup {obs[i][3][3] : i \in {j \in DOMAIN obs : /\ Tagged(obs[j][3]) /\ Kind(<<obs[j][3][1], obs[j][3][2]>>) = "relay"
                                                                   /\ BindInG(tab, obs[j][3][1], Def(<<obs[j][3][1], obs[j][3][2]>>)[3])[1] = k}}
                    \cup {obs[i][2][3] : i \in {j \in DOMAIN obs : Tagged(obs[j][2]) /\ Kind(<<obs[j][2][1], obs[j][2][2]>>) = "var" /\ obs[j][2][1] = k}})]
\* a stale copy: the importer read a value the exporter's variable held EARLIER (the location was not shared)
Stale(vis, n, got) ==
   /\ n \in DOMAIN vis
   /\ LET b == vis[n] IN
      \/ Kind(b) = "var" /\ \E v \in 0..vers[b[1]] : got[1] = Val(b, v)
      \/ Kind(b) = "rd" /\ LET t == BindInG(tab, b[1], Def(b)[3]) IN \E v \in 0..vers[t[1]] : got[2] = Val(t, v)
StaleInfo(vis, n, sets) ==
   LET b == vis[n]
       t == IF Kind(b) = "rd" THEN BindInG(tab, b[1], Def(b)[3]) ELSE b
   IN [name |-> n, holds |-> Def(t)[3], via |-> IF Kind(b) = "rd" THEN "library" ELSE "direct",
       reexported |-> \E i \in DOMAIN sets : n \in DOMAIN NamesG(tab, sets[i]) /\ Base(sets[i]) # b[1],
       variable |-> t]
\* judges one batch of observations of the importer with import sets `sets'
Judge(id, sets, obs, full) ==
   LET vis == VisibleG(tab, sets)
       names == [i \in DOMAIN obs |-> obs[i][1]]
       exp == BatchExpected(vis, ticks, vers, names)
       bad == {i \in DOMAIN obs : <<obs[i][2], obs[i][3]>> # exp[i]}
       pass == IF full THEN "first" ELSE "again"
   IN IF ~NoDup(names) \/ (full /\ ~(req \subseteq Rng(names)))
        THEN Verdict(id, "rejected", "incomplete", req \ Rng(names)) /\ ticks' = ResyncT(obs) /\ vers' = ResyncV(obs)
      ELSE IF bad # {}
        THEN LET i == CHOOSE i \in bad : \A j \in bad : i <= j
                 got == <<obs[i][2], obs[i][3]>>
             IN /\ IF Stale(vis, obs[i][1], got)
                     THEN Verdict(id, "rejected", "aliasing", [info |-> StaleInfo(vis, obs[i][1], sets), got |-> got, expected |-> exp[i], pass |-> pass, nbad |-> Cardinality(bad)])
                     ELSE Verdict(id, "rejected", "visibility", [name |-> obs[i][1], got |-> got, expected |-> exp[i], pass |-> pass, nbad |-> Cardinality(bad)])
                /\ ticks' = ResyncT(obs) /\ vers' = ResyncV(obs)
      ELSE /\ Verdict(id, "ok", pass, <<Cardinality(DOMAIN vis), {Kind(vis[n]) : n \in DOMAIN vis},
                                       {Def(vis[n])[3] : n \in {m \in DOMAIN vis : Kind(vis[m]) = "var"}},
                                       Cardinality({i \in DOMAIN obs : obs[i][1] \in DOMAIN vis /\ Kind(vis[obs[i][1]]) = "var"
                                                                        /\ vers[vis[obs[i][1]][1]] > 0})>>)   \* reads of variables assigned since their library was loaded
           /\ ticks' = BatchCount(vis, ticks, "tick", names, Len(names))
           /\ vers' = BatchCount(vis, vers, "ver", names, Len(names))

TStart == /\ IsEvent("Start") /\ phase = "off"
          /\ inst' = [k \in Libs |-> 0] /\ ticks' = [k \in Libs |-> 0] /\ vers' = [k \in Libs |-> 0] /\ phase' = "idle"
          /\ seq' = Ev.n /\ cur' = <<>> /\ cid' = 0 /\ flag' = FALSE /\ live' = {}
TImport == /\ IsEvent("Import") /\ phase = "idle" /\ Step /\ Ev.id \in DOMAIN Cases
           /\ phase' = "loading" /\ cur' = Cases[Ev.id].sets /\ cid' = Ev.id /\ flag' = FALSE
           /\ UNCHANGED <<inst, ticks, vers, live>>
\* a body evaluated twice, out of order, or of a library nobody asked for taints the case
TBody == /\ IsEvent("Body") /\ phase = "loading" /\ Ev.lib \in Libs
         /\ inst' = [inst EXCEPT ![Ev.lib] = @ + 1]
         /\ flag' = (flag \/ ~BodyOK(Ev.lib))
         /\ UNCHANGED <<ticks, vers, phase, cur, seq, cid, live>>
TImported ==
   /\ IsEvent("Imported") /\ phase = "loading" /\ Step /\ Ev.id = cid
   /\ UNCHANGED <<inst, ticks, vers, cur, cid, live>>
   /\ IF ~CaseWF(cid)
        THEN /\ Verdict(cid, "skipped", "not-wellformed", Ev.err)
             /\ phase' = (IF Ev.err = 0 THEN "unjudged" ELSE "idle") /\ flag' = (Ev.err # 0)
      ELSE IF Ev.err # 0
        THEN /\ Verdict(cid, "rejected", "import-error", Ev.msg)
             /\ phase' = "idle" /\ flag' = TRUE
      ELSE IF flag \/ ~Loaded(cur)
        THEN /\ Verdict(cid, "rejected", "instances", inst)
             /\ phase' = "unjudged" /\ flag' = FALSE
      ELSE phase' = "ready" /\ flag' = FALSE
TProbed ==
   /\ IsEvent("Probed") /\ phase \in {"ready", "unjudged"} /\ Step /\ Ev.id = cid
   /\ phase' = "idle" /\ UNCHANGED <<inst, cur, cid, flag>>
   /\ IF phase = "unjudged" THEN ticks' = ResyncT(Ev.obs) /\ vers' = ResyncV(Ev.obs) /\ UNCHANGED live
      ELSE Judge(cid, cur, Ev.obs, TRUE) /\ live' = live \cup {cid}
\* an importer created earlier is used again
TReprobed ==
   /\ IsEvent("Reprobed") /\ phase = "idle" /\ Step
   /\ UNCHANGED <<inst, cur, cid, flag, phase, live>>
   /\ IF Ev.id \in live THEN Judge(Ev.id, Cases[Ev.id].sets, Ev.obs, FALSE)
      ELSE ticks' = ResyncT(Ev.obs) /\ vers' = ResyncV(Ev.obs)
\* R7RS 5.2: "it is an error to ... mutate an imported binding": recorded, not judged; the process must end here
TAssigned == /\ IsEvent("Assigned") /\ phase = "idle" /\ Step /\ phase' = "closing"
             /\ UNCHANGED <<inst, ticks, vers, cur, cid, flag, live>>
TEnd == /\ IsEvent("End") /\ phase \in {"idle", "closing"} /\ Step /\ phase' = "ended" /\ UNCHANGED <<inst, ticks, vers, cur, cid, flag, live>>
\* a process may die only of the import error of its first import (program path); that case has been rejected above
TExit == /\ IsEvent("Exit") /\ ((phase = "ended" /\ Ev.rc = 0) \/ (phase = "idle" /\ flag /\ seq = 3))
         /\ phase' = "off" /\ UNCHANGED <<inst, ticks, vers, cur, cid, flag, seq, live>>

TraceInit == /\ tab = ExpTab /\ req = Required
             /\ l = 1 /\ seq = 0 /\ cid = 0 /\ flag = FALSE /\ phase = "off" /\ cur = <<>> /\ live = {}
             /\ inst = [k \in Libs |-> 0] /\ ticks = [k \in Libs |-> 0] /\ vers = [k \in Libs |-> 0]
TraceNext == TStart \/ TImport \/ TBody \/ TImported \/ TProbed \/ TReprobed \/ TAssigned \/ TEnd \/ TExit
TraceSpec == TraceInit /\ [][TraceNext /\ UNCHANGED <<tab, req>>]_tvars
Accepted == LET n == TLCGet("stats").diameter IN
            IF n - 1 = Len(TraceLog) /\ GraphWF THEN TRUE
            ELSE PrintT(<<"TRACE_REJECTED_AT", n, Len(TraceLog), GraphWF>>) /\ FALSE
=============================================================================
