---------------------------- MODULE Core ----------------------------
(* A definitional abstract machine (CESK style) for the core language of R7RS as chibi-scheme's
   compiler + VM must implement it: variables with mutable locations, closures with fixed / rest
   parameters, application, if, set!, begin, letrec*, call/cc, dynamic-wind (wind list, before /
   after thunks run one by one as machine steps when a continuation is thrown to), handler stack
   (with-exception-handler, raise, raise-continuable), parameter objects / parameterize,
   multiple values, apply, and an `emit` form that appends to the observable output.
   Programs are data (tagged tuples, read from ndjson); every program is one initial state and
   the machine is deterministic, so TLC simply runs all programs.  The terminal state is
   compared with what the real interpreter printed for the same program (CoreRun).
   Derived forms (let, let*, named let, do, cond, case, and, or, when, unless, quasiquote, guard,
   internal define) are desugared by the generator for this machine only; chibi gets the
   surface syntax.

   Values:   <<"i",n>> <<"b",0|1>> <<"s",name>> <<"nil">> <<"p",car,cdr>> <<"void">> <<"undef">>
             <<"clo",params,rest,body,env>> <<"k",kont,winds,hs,params>> <<"param",id,init,conv>>
             <<"mv",vals>> <<"err",kind>>
   Exprs:    <<"const",v>> <<"var",x>> <<"lam",params,rest,body>> <<"app",f,args>> <<"if",c,t,e>>
             <<"set",x,e>> <<"begin",es>> <<"letrec",names,inits,body>> <<"prim",name,args>>
             <<"callcc",f>> <<"dw",b,t,a>> <<"weh",h,t>> <<"raise",e>> <<"raisec",e>>
             <<"mkparam",init,conv>> <<"paramz",ps,vs,body>> <<"values",es>> <<"cwv",p,c>>
             <<"apply",f,l>> <<"emit",e>>
             <<"delayf",e>> (delay-force e)   <<"mkprom",e>> (make-promise e)   <<"force",e>>
   Promises (R7RS 4.2.5 and the reference implementation of 7.3): a promise value <<"prom",p>> names a store cell
   <<"pref",c>> that points to a content cell <<"pc",done,payload>> (payload = the value, or the thunk still to run);
   forcing runs the thunk, which must deliver another promise, makes the forced promise SHARE that promise's content
   (unless it was forced meanwhile, re-entrantly: then the first value stays) and loops WITHOUT keeping a frame: a chain of
   delay-force steps is forced in constant continuation depth.  (delay e) is (delay-force (make-promise e)). *)
EXTENDS Integers, Sequences, FiniteSets, TLC, SequencesExt

CONSTANTS Programs,   \* sequence of records [id, prog]
          MaxSteps,
          R2L         \* TRUE: operands are evaluated right to left (R7RS leaves the order open; chibi does this)

VARIABLES pidx, ctl, env, store, k, winds, hs, params, out, nid, status, steps, maxk
vars == <<pidx, ctl, env, store, k, winds, hs, params, out, nid, status, steps, maxk>>

Tag(v) == v[1]
T == <<"b", 1>>
F == <<"b", 0>>
Void == <<"void">>
Bool(x) == IF x THEN T ELSE F
IsFalse(v) == Tag(v) = "b" /\ v[2] = 0
Err(kind) == <<"err", kind>>
EmptyEnv == [x \in {} |-> 0]
Bind(e, names, locs) == [x \in DOMAIN e \cup {names[i] : i \in 1..Len(names)} |->
                            IF \E i \in 1..Len(names) : names[i] = x
                            THEN locs[CHOOSE i \in 1..Len(names) : names[i] = x /\ \A j \in (i+1)..Len(names) : names[j] # x]
                            ELSE e[x]]
RECURSIVE ListOf(_, _)
ListOf(vs, i) == IF i > Len(vs) THEN <<"nil">> ELSE <<"p", vs[i], ListOf(vs, i + 1)>>
RECURSIVE ConsOnto(_, _, _)
ConsOnto(vs, i, tail) == IF i > Len(vs) THEN tail ELSE <<"p", vs[i], ConsOnto(vs, i + 1, tail)>>
RECURSIVE SeqOfList(_)
SeqOfList(l) == IF Tag(l) = "p" THEN <<l[2]>> \o SeqOfList(l[3]) ELSE <<>>
RECURSIVE IsList(_)
IsList(l) == IF Tag(l) = "nil" THEN TRUE ELSE IF Tag(l) = "p" THEN IsList(l[3]) ELSE FALSE

\* eqv? on machine values (structural for immediates; pairs/closures compare as FALSE unless identical terms - the
\* generator only applies eq?/eqv? to immediates)
Eqv(a, b) == /\ Tag(a) = Tag(b)
             /\ CASE Tag(a) \in {"i", "b", "s"} -> a[2] = b[2]
                  [] Tag(a) \in {"nil", "void"} -> TRUE
                  [] OTHER -> FALSE
RECURSIVE Equal(_, _)
Equal(a, b) == /\ Tag(a) = Tag(b)
               /\ CASE Tag(a) = "p" -> Equal(a[2], b[2]) /\ Equal(a[3], b[3])
                    [] OTHER -> Eqv(a, b)

\* ---- primitives: result is a value, or <<"err",kind>> meaning "raise this"
AllInts(vs) == \A i \in 1..Len(vs) : Tag(vs[i]) = "i"
RECURSIVE SumSeq(_, _)
SumSeq(vs, i) == IF i > Len(vs) THEN 0 ELSE vs[i][2] + SumSeq(vs, i + 1)
RECURSIVE ProdSeq(_, _)
ProdSeq(vs, i) == IF i > Len(vs) THEN 1 ELSE vs[i][2] * ProdSeq(vs, i + 1)
Chain(vs, R(_, _)) == \A i \in 1..(Len(vs) - 1) : R(vs[i][2], vs[i+1][2])
Quot(a, b) == IF (a >= 0) = (b > 0) \/ a = 0 THEN (IF a >= 0 THEN a ELSE -a) \div (IF b >= 0 THEN b ELSE -b)
              ELSE -((IF a >= 0 THEN a ELSE -a) \div (IF b >= 0 THEN b ELSE -b))
Prim(name, vs) ==
  CASE name = "+" -> IF AllInts(vs) THEN <<"i", SumSeq(vs, 1)>> ELSE Err("type")
    [] name = "*" -> IF AllInts(vs) THEN <<"i", ProdSeq(vs, 1)>> ELSE Err("type")
    [] name = "-" -> IF ~AllInts(vs) \/ Len(vs) = 0 THEN Err("type")
                     ELSE IF Len(vs) = 1 THEN <<"i", -vs[1][2]>> ELSE <<"i", vs[1][2] - SumSeq(vs, 2)>>
    [] name = "quotient" -> IF Len(vs) # 2 \/ ~AllInts(vs) THEN Err("type")
                            ELSE IF vs[2][2] = 0 THEN Err("div0") ELSE <<"i", Quot(vs[1][2], vs[2][2])>>
    [] name = "remainder" -> IF Len(vs) # 2 \/ ~AllInts(vs) THEN Err("type")
                             ELSE IF vs[2][2] = 0 THEN Err("div0") ELSE <<"i", vs[1][2] - vs[2][2] * Quot(vs[1][2], vs[2][2])>>
    [] name = "=" -> IF AllInts(vs) THEN Bool(Chain(vs, LAMBDA a, b : a = b)) ELSE Err("type")
    [] name = "<" -> IF AllInts(vs) THEN Bool(Chain(vs, LAMBDA a, b : a < b)) ELSE Err("type")
    [] name = ">" -> IF AllInts(vs) THEN Bool(Chain(vs, LAMBDA a, b : a > b)) ELSE Err("type")
    [] name = "<=" -> IF AllInts(vs) THEN Bool(Chain(vs, LAMBDA a, b : a <= b)) ELSE Err("type")
    [] name = "zero?" -> IF Len(vs) = 1 /\ AllInts(vs) THEN Bool(vs[1][2] = 0) ELSE Err("type")
    [] name = "not" -> Bool(IsFalse(vs[1]))
    [] name = "cons" -> <<"p", vs[1], vs[2]>>
    [] name = "car" -> IF Tag(vs[1]) = "p" THEN vs[1][2] ELSE Err("type")
    [] name = "cdr" -> IF Tag(vs[1]) = "p" THEN vs[1][3] ELSE Err("type")
    [] name = "null?" -> Bool(Tag(vs[1]) = "nil")
    [] name = "pair?" -> Bool(Tag(vs[1]) = "p")
    [] name = "procedure?" -> Bool(Tag(vs[1]) \in {"clo", "k", "param"})
    [] name = "promise?" -> Bool(Tag(vs[1]) = "prom")
    [] name = "eq?" -> Bool(Eqv(vs[1], vs[2]))
    [] name = "eqv?" -> Bool(Eqv(vs[1], vs[2]))
    [] name = "equal?" -> Bool(Equal(vs[1], vs[2]))
    [] name = "list" -> ListOf(vs, 1)
    [] name = "length" -> IF IsList(vs[1]) THEN <<"i", Len(SeqOfList(vs[1]))>> ELSE Err("type")
    [] name = "append" -> IF IsList(vs[1]) THEN ConsOnto(SeqOfList(vs[1]), 1, vs[2]) ELSE Err("type")   \* R7RS: the last argument may be any object
    [] name = "reverse" -> IF IsList(vs[1]) THEN ListOf(Reverse(SeqOfList(vs[1])), 1) ELSE Err("type")
    [] name = "error-object?" -> Bool(Tag(vs[1]) = "err")
    [] name = "void" -> Void
    [] OTHER -> Err("unknown-primitive")

\* ---- machine plumbing
Push(fr) == k' = Append(k, fr)
Ret(v) == ctl' = <<"val", v>>
Ev(e) == ctl' = <<"ev", e>>
Same(vs) == UNCHANGED vs

\* evaluate a sequence of expressions left to right, then dispatch on tag (generated programs are order-insensitive)
StartSeq(tag, extra, es0, e) ==
   LET es == IF R2L THEN Reverse(es0) ELSE es0 IN
   IF es = <<>> THEN ctl' = <<"dispatch", tag, extra, <<>>>> /\ UNCHANGED <<k, env>>
   ELSE /\ Ev(es[1]) /\ Push(<<"seq", tag, extra, <<>>, Tail(es), e>>) /\ env' = e

\* wind bookkeeping for a throw: afters of the winds being left (innermost first), befores of the winds being entered
CommonLen(w1, w2) == Cardinality({i \in 1..Len(w1) : i <= Len(w2) /\ \A j \in 1..i : w1[j][1] = w2[j][1]})
Pending(cur, tgt) ==
   LET c == CommonLen(cur, tgt)
       outs == [i \in 1..(Len(cur) - c) |-> LET j == Len(cur) - i + 1 IN <<cur[j][3], SubSeq(cur, 1, j - 1), cur[j][4], cur[j][5]>>]
       ins == [i \in 1..(Len(tgt) - c) |-> LET j == c + i IN <<tgt[j][2], SubSeq(tgt, 1, j - 1), tgt[j][4], tgt[j][5]>>]
   IN outs \o ins

\* raise v in the current handler context
DoRaise(v, continuable) ==
   IF hs = <<>>
   THEN /\ status' = "error" /\ out' = Append(out, <<"s", "UNCAUGHT">>) /\ ctl' = <<"val", v>>
        /\ UNCHANGED <<env, store, k, winds, hs, params, nid>>
   ELSE /\ hs' = Front(hs)
        /\ k' = Append(k, IF continuable THEN <<"restore", hs, params>> ELSE <<"noncont", hs, params>>)
        /\ ctl' = <<"call", Last(hs), <<v>>>>
        /\ UNCHANGED <<env, store, winds, params, out, nid, status>>

\* apply a procedure value to argument values
DoApply(f, vs) ==
   CASE Tag(f) = "clo" ->
          LET ps == f[2]
              rest == f[3]
              okar == IF rest = "" THEN Len(vs) = Len(ps) ELSE Len(vs) >= Len(ps)
          IN IF ~okar THEN DoRaise(Err("arity"), FALSE)
             ELSE LET names == IF rest = "" THEN ps ELSE Append(ps, rest)
                      vals == IF rest = "" THEN vs ELSE Append(SubSeq(vs, 1, Len(ps)), ListOf(SubSeq(vs, Len(ps) + 1, Len(vs)), 1))
                      locs == [i \in 1..Len(names) |-> Len(store) + i]
                  IN /\ store' = store \o vals
                     /\ env' = Bind(f[5], names, locs)
                     /\ Ev(f[4])
                     /\ UNCHANGED <<k, winds, hs, params, out, nid, status>>
     [] Tag(f) = "k" ->
          /\ ctl' = <<"travel", Pending(winds, f[3]), f, IF Len(vs) = 1 THEN vs[1] ELSE <<"mv", vs>>>>
          /\ UNCHANGED <<env, store, k, winds, hs, params, out, nid, status>>
     [] Tag(f) = "param" ->
          IF vs # <<>> THEN DoRaise(Err("arity"), FALSE)
          ELSE LET hits == {i \in 1..Len(params) : params[i][1] = f[2]}
               IN /\ Ret(IF hits = {} THEN f[3] ELSE params[CHOOSE i \in hits : \A j \in hits : j <= i][2])
                  /\ UNCHANGED <<env, store, k, winds, hs, params, out, nid, status>>
     [] OTHER -> DoRaise(Err("not-applicable"), FALSE)

\* all operands are evaluated: perform the operation
Dispatch(tag, extra, vs) ==
   CASE tag = "app" -> DoApply(vs[1], Tail(vs))
     [] tag = "prim" ->
          LET r == Prim(extra, vs) IN
          IF Tag(r) = "err" THEN DoRaise(r, FALSE)
          ELSE Ret(r) /\ UNCHANGED <<env, store, k, winds, hs, params, out, nid, status>>
     [] tag = "values" -> /\ Ret(IF Len(vs) = 1 THEN vs[1] ELSE <<"mv", vs>>)
                          /\ UNCHANGED <<env, store, k, winds, hs, params, out, nid, status>>
     [] tag = "emit" -> /\ out' = Append(out, vs[1]) /\ Ret(Void)
                        /\ UNCHANGED <<env, store, k, winds, hs, params, nid, status>>
     [] tag = "callcc" -> /\ ctl' = <<"call", vs[1], << <<"k", k, winds, hs, params>> >> >>
                          /\ UNCHANGED <<env, store, k, winds, hs, params, out, nid, status>>
     [] tag = "dw" ->     \* vs = <<before, thunk, after>>: run before in the outer extent
          /\ k' = Append(k, <<"dw1", vs[1], vs[2], vs[3]>>)
          /\ ctl' = <<"call", vs[1], <<>>>>
          /\ UNCHANGED <<env, store, winds, hs, params, out, nid, status>>
     [] tag = "weh" ->    \* vs = <<handler, thunk>>
          /\ hs' = Append(hs, vs[1])
          /\ k' = Append(k, <<"restore", hs, params>>)
          /\ ctl' = <<"call", vs[2], <<>>>>
          /\ UNCHANGED <<env, store, winds, params, out, nid, status>>
     [] tag = "raise" -> DoRaise(vs[1], FALSE)
     [] tag = "raisec" -> DoRaise(vs[1], TRUE)
     [] tag = "mkparam" ->    \* vs = <<init>> or <<init, converter>>: the converter is applied to init first
          IF Len(vs) = 1
          THEN /\ Ret(<<"param", nid, vs[1], <<"none">>>>) /\ nid' = nid + 1
               /\ UNCHANGED <<env, store, k, winds, hs, params, out, status>>
          ELSE /\ k' = Append(k, <<"mkparam2", vs[2]>>) /\ ctl' = <<"call", vs[2], <<vs[1]>>>>
               /\ UNCHANGED <<env, store, winds, hs, params, out, nid, status>>
     [] tag = "paramz" ->     \* vs = p1..pn v1..vn ; extra = <<n, body, env>> ; converters are applied one by one
          /\ ctl' = <<"pz", extra, vs, 1, <<>>>>
          /\ UNCHANGED <<env, store, k, winds, hs, params, out, nid, status>>
     [] tag = "cwv" ->        \* vs = <<producer, consumer>>
          /\ k' = Append(k, <<"cwv", vs[2]>>) /\ ctl' = <<"call", vs[1], <<>>>>
          /\ UNCHANGED <<env, store, winds, hs, params, out, nid, status>>
     [] tag = "apply" ->      \* vs = <<f, arglist>>
          IF IsList(vs[2]) THEN /\ ctl' = <<"call", vs[1], SeqOfList(vs[2])>>
                                /\ UNCHANGED <<env, store, k, winds, hs, params, out, nid, status>>
          ELSE DoRaise(Err("type"), FALSE)
     [] tag = "mkprom" ->     \* a promise is returned as it is, any other value becomes an already forced promise
          IF Tag(vs[1]) = "prom" THEN Ret(vs[1]) /\ UNCHANGED <<env, store, k, winds, hs, params, out, nid, status>>
          ELSE /\ store' = store \o << <<"pc", 1, vs[1]>>, <<"pref", Len(store) + 1>> >>
               /\ Ret(<<"prom", Len(store) + 2>>)
               /\ UNCHANGED <<env, k, winds, hs, params, out, nid, status>>
     [] tag = "force" ->      \* vs = <<v>>: not a promise: v itself; forced: its value; else run the thunk under a "force" frame
          IF Tag(vs[1]) # "prom" THEN Ret(vs[1]) /\ UNCHANGED <<env, store, k, winds, hs, params, out, nid, status>>
          ELSE LET cell == store[store[vs[1][2]][2]] IN
               IF cell[2] = 1 THEN Ret(cell[3]) /\ UNCHANGED <<env, store, k, winds, hs, params, out, nid, status>>
               ELSE /\ k' = Append(k, <<"force", vs[1]>>) /\ ctl' = <<"call", cell[3], <<>>>>
                    /\ UNCHANGED <<env, store, winds, hs, params, out, nid, status>>
     [] OTHER -> DoRaise(Err("bad-dispatch"), FALSE)

\* one step of evaluating expression e
StepEv(e) ==
   CASE Tag(e) = "const" -> Ret(e[2]) /\ UNCHANGED <<env, store, k, winds, hs, params, out, nid, status>>
     [] Tag(e) = "var" ->
          IF e[2] \notin DOMAIN env THEN DoRaise(Err("unbound"), FALSE)
          ELSE IF Tag(store[env[e[2]]]) = "undef" THEN DoRaise(Err("undefined"), FALSE)
          ELSE Ret(store[env[e[2]]]) /\ UNCHANGED <<env, store, k, winds, hs, params, out, nid, status>>
     [] Tag(e) = "depth" -> Ret(<<"i", Len(k)>>) /\ UNCHANGED <<env, store, k, winds, hs, params, out, nid, status>>
     [] Tag(e) = "lam" -> Ret(<<"clo", e[2], e[3], e[4], env>>) /\ UNCHANGED <<env, store, k, winds, hs, params, out, nid, status>>
     [] Tag(e) = "if" -> /\ Ev(e[2]) /\ Push(<<"if", e[3], e[4], env>>)
                         /\ UNCHANGED <<env, store, winds, hs, params, out, nid, status>>
     [] Tag(e) = "set" -> /\ Ev(e[3]) /\ Push(<<"set", env[e[2]], env>>)
                          /\ UNCHANGED <<env, store, winds, hs, params, out, nid, status>>
     [] Tag(e) = "begin" ->
          IF Len(e[2]) = 1 THEN Ev(e[2][1]) /\ UNCHANGED <<env, store, k, winds, hs, params, out, nid, status>>
          ELSE /\ Ev(e[2][1]) /\ Push(<<"begin", Tail(e[2]), env>>)
               /\ UNCHANGED <<env, store, winds, hs, params, out, nid, status>>
     [] Tag(e) = "letrec" ->     \* letrec*: fresh locations holding <<"undef">>, inits assigned in order, then the body
          LET names == e[2]
              locs == [i \in 1..Len(names) |-> Len(store) + i]
              sets == [i \in 1..Len(names) |-> <<"set", names[i], e[3][i]>>]
          IN /\ store' = store \o [i \in 1..Len(names) |-> <<"undef">>]
             /\ env' = Bind(env, names, locs)
             /\ Ev(<<"begin", Append(sets, e[4])>>)
             /\ UNCHANGED <<k, winds, hs, params, out, nid, status>>
     [] Tag(e) = "app" -> StartSeq("app", <<>>, <<e[2]>> \o e[3], env) /\ UNCHANGED <<store, winds, hs, params, out, nid, status>>
     [] Tag(e) = "prim" -> StartSeq("prim", e[2], e[3], env) /\ UNCHANGED <<store, winds, hs, params, out, nid, status>>
     [] Tag(e) = "values" -> StartSeq("values", <<>>, e[2], env) /\ UNCHANGED <<store, winds, hs, params, out, nid, status>>
     [] Tag(e) = "emit" -> StartSeq("emit", <<>>, <<e[2]>>, env) /\ UNCHANGED <<store, winds, hs, params, out, nid, status>>
     [] Tag(e) = "callcc" -> StartSeq("callcc", <<>>, <<e[2]>>, env) /\ UNCHANGED <<store, winds, hs, params, out, nid, status>>
     [] Tag(e) = "dw" -> StartSeq("dw", <<>>, <<e[2], e[3], e[4]>>, env) /\ UNCHANGED <<store, winds, hs, params, out, nid, status>>
     [] Tag(e) = "weh" -> StartSeq("weh", <<>>, <<e[2], e[3]>>, env) /\ UNCHANGED <<store, winds, hs, params, out, nid, status>>
     [] Tag(e) = "raise" -> StartSeq("raise", <<>>, <<e[2]>>, env) /\ UNCHANGED <<store, winds, hs, params, out, nid, status>>
     [] Tag(e) = "raisec" -> StartSeq("raisec", <<>>, <<e[2]>>, env) /\ UNCHANGED <<store, winds, hs, params, out, nid, status>>
     [] Tag(e) = "mkparam" -> StartSeq("mkparam", <<>>, IF Tag(e[3]) = "none" THEN <<e[2]>> ELSE <<e[2], e[3]>>, env)
                              /\ UNCHANGED <<store, winds, hs, params, out, nid, status>>
     [] Tag(e) = "paramz" -> StartSeq("paramz", <<Len(e[2]), e[4], env>>, e[2] \o e[3], env)
                             /\ UNCHANGED <<store, winds, hs, params, out, nid, status>>
     [] Tag(e) = "cwv" -> StartSeq("cwv", <<>>, <<e[2], e[3]>>, env) /\ UNCHANGED <<store, winds, hs, params, out, nid, status>>
     [] Tag(e) = "apply" -> StartSeq("apply", <<>>, <<e[2], e[3]>>, env) /\ UNCHANGED <<store, winds, hs, params, out, nid, status>>
     [] Tag(e) = "delayf" ->     \* a fresh promise whose content is the thunk (lambda () e)
          /\ store' = store \o << <<"pc", 0, <<"clo", <<>>, "", e[2], env>>>>, <<"pref", Len(store) + 1>> >>
          /\ Ret(<<"prom", Len(store) + 2>>)
          /\ UNCHANGED <<env, k, winds, hs, params, out, nid, status>>
     [] Tag(e) = "mkprom" -> StartSeq("mkprom", <<>>, <<e[2]>>, env) /\ UNCHANGED <<store, winds, hs, params, out, nid, status>>
     [] Tag(e) = "force" -> StartSeq("force", <<>>, <<e[2]>>, env) /\ UNCHANGED <<store, winds, hs, params, out, nid, status>>
     [] OTHER -> DoRaise(Err("bad-expression"), FALSE)

\* a value v is returned to the top frame
StepVal(v) ==
   IF k = <<>>
   THEN /\ status' = "done" /\ UNCHANGED <<ctl, env, store, k, winds, hs, params, out, nid>>
   ELSE LET fr == Last(k)
            rest == Front(k)
        IN CASE fr[1] = "seq" ->
                  LET done == Append(fr[4], v) IN
                  IF fr[5] = <<>>
                  THEN /\ k' = rest /\ ctl' = <<"dispatch", fr[2], fr[3], IF R2L THEN Reverse(done) ELSE done>>
                       /\ UNCHANGED <<env, store, winds, hs, params, out, nid, status>>
                  ELSE /\ k' = Append(rest, <<"seq", fr[2], fr[3], done, Tail(fr[5]), fr[6]>>)
                       /\ Ev(fr[5][1]) /\ env' = fr[6]
                       /\ UNCHANGED <<store, winds, hs, params, out, nid, status>>
             [] fr[1] = "if" -> /\ k' = rest /\ env' = fr[4] /\ Ev(IF IsFalse(v) THEN fr[3] ELSE fr[2])
                                /\ UNCHANGED <<store, winds, hs, params, out, nid, status>>
             [] fr[1] = "set" -> /\ k' = rest /\ store' = [store EXCEPT ![fr[2]] = v] /\ Ret(Void)
                                 /\ UNCHANGED <<env, winds, hs, params, out, nid, status>>
             [] fr[1] = "begin" ->
                  /\ env' = fr[3] /\ Ev(fr[2][1])
                  /\ k' = IF Len(fr[2]) = 1 THEN rest ELSE Append(rest, <<"begin", Tail(fr[2]), fr[3]>>)
                  /\ UNCHANGED <<store, winds, hs, params, out, nid, status>>
             [] fr[1] = "restore" -> /\ k' = rest /\ hs' = fr[2] /\ params' = fr[3] /\ Ret(v)
                                     /\ UNCHANGED <<env, store, winds, out, nid, status>>
             [] fr[1] = "noncont" ->   \* a handler returned from a non-continuable raise: secondary error in the handler's context
                  /\ k' = rest /\ ctl' = <<"raise2">>
                  /\ UNCHANGED <<env, store, winds, hs, params, out, nid, status>>
             [] fr[1] = "dw1" ->       \* before thunk returned: enter the extent, call the body thunk
                  /\ winds' = Append(winds, <<nid, fr[2], fr[4], hs, params>>) /\ nid' = nid + 1
                  /\ k' = Append(rest, <<"dw2", fr[4]>>) /\ ctl' = <<"call", fr[3], <<>>>>
                  /\ UNCHANGED <<env, store, hs, params, out, status>>
             [] fr[1] = "dw2" ->       \* body returned v: leave the extent, call the after thunk, then deliver v
                  /\ winds' = Front(winds)
                  /\ k' = Append(rest, <<"dw3", v>>) /\ ctl' = <<"call", fr[2], <<>>>>
                  /\ UNCHANGED <<env, store, hs, params, out, nid, status>>
             [] fr[1] = "dw3" -> /\ k' = rest /\ Ret(fr[2]) /\ UNCHANGED <<env, store, winds, hs, params, out, nid, status>>
             [] fr[1] = "mkparam2" -> /\ k' = rest /\ Ret(<<"param", nid, v, fr[2]>>) /\ nid' = nid + 1
                                      /\ UNCHANGED <<env, store, winds, hs, params, out, status>>
             [] fr[1] = "pzconv" ->    \* a converter returned: continue converting the parameterize values
                  /\ k' = rest /\ ctl' = <<"pz", fr[2], fr[3], fr[4] + 1, Append(fr[5], v)>>
                  /\ UNCHANGED <<env, store, winds, hs, params, out, nid, status>>
             [] fr[1] = "cwv" -> /\ k' = rest /\ ctl' = <<"call", fr[2], IF Tag(v) = "mv" THEN v[2] ELSE <<v>>>>
                                 /\ UNCHANGED <<env, store, winds, hs, params, out, nid, status>>
             [] fr[1] = "force" ->     \* the thunk of promise fr[2] delivered v: share v's content (unless forced meanwhile), force again - no frame is kept
                  IF Tag(v) # "prom" THEN /\ k' = rest /\ ctl' = <<"raise2">> /\ UNCHANGED <<env, store, winds, hs, params, out, nid, status>>
                  ELSE LET c == store[fr[2][2]][2]
                           c2 == store[v[2]][2]
                       IN /\ k' = rest
                          /\ store' = IF store[c][2] = 0 THEN [store EXCEPT ![c] = store[c2], ![v[2]] = <<"pref", c>>] ELSE store
                          /\ ctl' = <<"dispatch", "force", <<>>, <<fr[2]>>>>
                          /\ UNCHANGED <<env, winds, hs, params, out, nid, status>>
             [] fr[1] = "travelk" ->   \* a before/after thunk of a throw returned: go on travelling
                  /\ k' = rest /\ ctl' = <<"travel", fr[2], fr[3], fr[4]>>
                  /\ UNCHANGED <<env, store, winds, hs, params, out, nid, status>>
             [] OTHER -> /\ status' = "stuck" /\ UNCHANGED <<ctl, env, store, k, winds, hs, params, out, nid>>

Step ==
   /\ status = "run" /\ steps' = steps + 1 /\ pidx' = pidx
   /\ maxk' = IF Len(k) > maxk THEN Len(k) ELSE maxk
   /\ IF steps >= MaxSteps THEN /\ status' = "diverged" /\ UNCHANGED <<ctl, env, store, k, winds, hs, params, out, nid>>
      ELSE
      CASE ctl[1] = "ev" -> StepEv(ctl[2])
        [] ctl[1] = "val" -> StepVal(ctl[2])
        [] ctl[1] = "dispatch" -> Dispatch(ctl[2], ctl[3], ctl[4])
        [] ctl[1] = "call" -> DoApply(ctl[2], ctl[3])
        [] ctl[1] = "raise2" -> DoRaise(Err("handler-returned"), FALSE)
        [] ctl[1] = "pz" ->       \* <<"pz", <<n, body, env>>, vs, i, converted>>
             LET n == ctl[2][1]
                 i == ctl[4]
             IN IF i > n
                THEN /\ params' = params \o [j \in 1..n |-> <<ctl[3][j][2], ctl[5][j]>>]
                     /\ k' = Append(k, <<"restore", hs, params>>)
                     /\ env' = ctl[2][3] /\ Ev(ctl[2][2])
                     /\ UNCHANGED <<store, winds, hs, out, nid, status>>
                ELSE IF Tag(ctl[3][i]) # "param" THEN DoRaise(Err("type"), FALSE)
                ELSE IF Tag(ctl[3][i][4]) = "none"
                THEN /\ ctl' = <<"pz", ctl[2], ctl[3], i + 1, Append(ctl[5], ctl[3][n + i])>>
                     /\ UNCHANGED <<env, store, k, winds, hs, params, out, nid, status>>
                ELSE /\ k' = Append(k, <<"pzconv", ctl[2], ctl[3], i, ctl[5]>>)
                     /\ ctl' = <<"call", ctl[3][i][4], <<ctl[3][n + i]>>>>
                     /\ UNCHANGED <<env, store, winds, hs, params, out, nid, status>>
        [] ctl[1] = "travel" ->   \* <<"travel", pending, target k-value, value>>
             IF ctl[2] = <<>>
             THEN /\ k' = ctl[3][2] /\ winds' = ctl[3][3] /\ hs' = ctl[3][4] /\ params' = ctl[3][5]
                  /\ Ret(ctl[4]) /\ UNCHANGED <<env, store, out, nid, status>>
             ELSE LET p == ctl[2][1] IN
                  /\ winds' = p[2] /\ hs' = p[3] /\ params' = p[4]
                  /\ k' = << <<"travelk", Tail(ctl[2]), ctl[3], ctl[4]>> >>
                  /\ ctl' = <<"call", p[1], <<>>>>
                  /\ UNCHANGED <<env, store, out, nid, status>>
        [] OTHER -> /\ status' = "stuck" /\ UNCHANGED <<ctl, env, store, k, winds, hs, params, out, nid>>

\* design-level invariants of the machine (C06): winds are nested in creation order; every before/after pair is balanced
WindOrder == \A i \in 1..(Len(winds) - 1) : winds[i][1] < winds[i+1][1]
Count(q, v) == Cardinality({i \in 1..Len(q) : q[i] = v})
WindBalance == \A w \in 1..4 : Count(out, <<"i", 100 + w>>) - Count(out, <<"i", 200 + w>>) \in {0, 1}

Init == /\ pidx \in 1..Len(Programs)
        /\ ctl = <<"ev", Programs[pidx].prog>> /\ env = EmptyEnv /\ store = <<>> /\ k = <<>>
        /\ winds = <<>> /\ hs = <<>> /\ params = <<>> /\ out = <<>> /\ nid = 1
        /\ status = "run" /\ steps = 0 /\ maxk = 0
Next == Step
Spec == Init /\ [][Next]_vars
=====================================================================
