SPECIFICATION Spec
CONSTANTS Programs <- Progs
          MaxSteps = 20000
          R2L = TRUE
INVARIANTS Verdict WindOrder WindBalance
CHECK_DEADLOCK FALSE
