SPECIFICATION Spec
CONSTANTS Sigma = {97, 65, 98}
          MaxLen = 3
          Level = 2
          Fam = "case"
INVARIANTS TwoFormulations SearchIsContextMatch SearchFromMatch GroupsWF ReportSound ReportRejectsNonMatch Laws
CHECK_DEADLOCK FALSE
