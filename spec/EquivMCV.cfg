SPECIFICATION Spec
CONSTANTS N = 3
          VecArities = {1, 2}
INVARIANTS InvEquivalence InvExplore InvUnfolding InvBoundedHash InvDeepNotSmall
