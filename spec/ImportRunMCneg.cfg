SPECIFICATION RunSpec
CONSTANTS
  Graph <- SmallGraph
  MaxDepth = 0
  MaxIds = 2
  Pfx = {"p", "q:"}
  Pool = {"a", "o", "z", "pz"}
  CopyImmediates = TRUE
  MaxEnvs = 2
  MaxTicks = 1
  StartLibs = {1, 2, 3}
CONSTRAINT RunConstraint
INVARIANTS
  SameLocation
CHECK_DEADLOCK FALSE
