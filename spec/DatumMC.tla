---------------------------- MODULE DatumMC ----------------------------
(* Model checking of Datum.tla on all small graphs (requirement: the specification checks itself) and
   enumeration of small graphs as conformance cases.
   Mode "pairs"  : all ordered pairs of graphs with <= N nodes; Iso/Equal against Canon/Unfold.
   Mode "single" : every graph with exactly N nodes; invariance under renaming, cycle detection.
   Mode "gen"    : like single, restricted to graphs numbered in depth-first order (one representative
                   per isomorphism class); each is printed as JSON and becomes a recipe for the driver.
   Mode "gen4"   : 4-node graphs built from pairs and one symbol only. *)
EXTENDS Datum, Json
CONSTANTS N, Mode
VARIABLES g1, g2

Atom(k, p) == [k |-> k, c |-> <<>>, p |-> p]
SeqsUpTo(S, m) == UNION {[1..l -> S] : l \in 0..m}
PairChoices(n) == {[k |-> "pair", c |-> <<a, b>>, p |-> <<>>] : a \in 1..n, b \in 1..n}
VecChoices(n) == {[k |-> "vec", c |-> s, p |-> <<>>] : s \in SeqsUpTo(1..n, 2)}
Atoms == {Atom("sym", <<97>>), Atom("int", <<0, 5>>), Atom("null", <<>>)}
Choices(n) == IF Mode = "gen4" THEN PairChoices(n) \cup {Atom("sym", <<97>>)}
              ELSE PairChoices(n) \cup VecChoices(n) \cup Atoms

\* depth-first preorder over ALL nodes
RECURSIVE DfsAll(_, _, _)
DfsAll(g, stack, order) ==
  IF stack = <<>> THEN order
  ELSE LET i == Head(stack) rest == Tail(stack) IN
       IF InSeq(order, i) THEN DfsAll(g, rest, order)
       ELSE DfsAll(g, Kids(g, i) \o rest, Append(order, i))
CanonicalIds(g) == DfsAll(g, <<g.r>>, <<>>) = [j \in 1..Len(g.n) |-> j]

\* (the sets of graphs are never built as values: TLC enumerates the function sets lazily)
Mk(r, ns) == [r |-> r, n |-> ns]
Init == \/ /\ Mode = "pairs"
           /\ \E n1 \in 1..N, n2 \in 1..N :
                \E r1 \in 1..n1, r2 \in 1..n2, ns1 \in [1..n1 -> Choices(n1)], ns2 \in [1..n2 -> Choices(n2)] :
                   g1 = Mk(r1, ns1) /\ g2 = Mk(r2, ns2)
        \/ /\ Mode = "single"
           /\ \E r1 \in 1..N, ns1 \in [1..N -> Choices(N)] : g1 = Mk(r1, ns1) /\ g2 = g1
        \/ /\ Mode \in {"gen", "gen4"}
           /\ \E ns1 \in [1..N -> Choices(N)] : g1 = Mk(1, ns1) /\ g2 = g1 /\ CanonicalIds(g1)
Next == UNCHANGED <<g1, g2>>
Spec == Init /\ [][Next]_<<g1, g2>>

Perms(S) == {f \in [S -> S] : \A a, b \in S : f[a] = f[b] => a = b}
D == N * N + 1

WF == WellFormed(g1) /\ WellFormed(g2)
IsoRefl == Iso(g1, g1) /\ Equal(g1, g1)
IsoSym == Mode = "pairs" => (Iso(g1, g2) = Iso(g2, g1) /\ Equal(g1, g2) = Equal(g2, g1))
IsoImpliesEqual == Mode = "pairs" => (Iso(g1, g2) => Equal(g1, g2))
IsoIsCanon == Mode = "pairs" => (Iso(g1, g2) <=> (Canon(g1) = Canon(g2)))
EqualIsUnfold == Mode = "pairs" => (Equal(g1, g2) <=> (Unfold(g1, g1.r, D) = Unfold(g2, g2.r, D)))
\* without sharing and cycles the two relations coincide
TreeIso == Mode = "pairs" => ((Acyclic(g1) /\ ~Shared(g1) /\ Acyclic(g2) /\ ~Shared(g2)) => (Equal(g1, g2) = Iso(g1, g2)))
RenameInvariant == Mode = "single" => \A f \in Perms(Ids(g1)) : Iso(g1, Rename(g1, f)) /\ Canon(g1) = Canon(Rename(g1, f))
CycleDef == Cyclic(g1) <=> CyclicByDef(g1)
\* a cyclic graph is never Equal to an acyclic one?  no: only the unfolding of a cyclic graph is infinite
CyclicUnfoldsForever == Mode = "pairs" => ((Cyclic(g1) /\ Acyclic(g2)) => ~Equal(g1, g2))
Emit == Mode \in {"gen", "gen4"} => PrintT(<<"GRAPH", ToJson([g |-> g1, cyc |-> IF Cyclic(g1) THEN 1 ELSE 0, shr |-> IF Shared(g1) THEN 1 ELSE 0])>>)
=========================================================================
