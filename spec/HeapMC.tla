---------------------------- MODULE HeapMC ----------------------------
(* Model-checking instances of Heap: constant definitions that a .cfg cannot express. *)
EXTENDS Heap
MenuA == {<<"data",1,0>>, <<"data",2,0>>, <<"data",3,0>>}
MenuB == {<<"node",1,1>>, <<"eph",1,2>>}
MenuC == {<<"node",1,1>>}
MenuD == {<<"fin",1,0>>, <<"node",1,1>>, <<"eph",1,2>>}
MenuG == {<<"node",1,2>>, <<"node",2,3>>, <<"data",1,0>>, <<"data",2,0>>, <<"data",3,0>>, <<"eph",1,2>>, <<"fin",1,0>>}
MenuW == {<<"node",1,2>>, <<"eph",1,2>>, <<"eph",1,2>>, <<"fin",1,0>>, <<"data",2,0>>}
Sym == Permutations(Ids)
=======================================================================
