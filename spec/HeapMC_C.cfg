SPECIFICATION Spec
CONSTANTS
  Ids = {1, 2, 3}
  NoId = 0
  Menu <- MenuC
  InitSeg = 4
  GrowSizes = {3}
  MaxSegs = 1
  NRegs = 3
  TiedRegs = TRUE
  MaxSaves = 2
  AllowTmp = FALSE
  FirstFitOnly = TRUE
CONSTRAINT StateConstraint
INVARIANTS TypeOK Tiling FreeSorted NoAdjacentFree RefsValid NoPrematureFree HeldValid NoLeak FinalizeOnlyDead EphSound EphBrokenAfterCollect
VIEW ViewNoGhost
