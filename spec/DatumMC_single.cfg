SPECIFICATION Spec
CONSTANTS N = 3
          Mode = "single"
INVARIANTS WF IsoRefl RenameInvariant CycleDef
CHECK_DEADLOCK FALSE
