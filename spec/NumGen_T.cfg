SPECIFICATION Spec
CONSTANTS W = 10
 FixBits = 62
 KS <- KAll
 Words <- WAll
