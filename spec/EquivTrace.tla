---------------------------- MODULE EquivTrace ----------------------------
(* Validates the recorded answers of eq?/eqv?/equal?/hash of the real interpreter (driver
   harness/scm/c15_equiv.scm) against Equiv.tla.
   Trace layout: lines 1..NT are Term declarations (line k declares term id k with its graph), then batches:
   Batch, one Inst per value instance (with its hash values), one Obs per ordered pair of instances
   (diagonal included), EndBatch; finally Exit.  In a batch with bg = 1 (cyclic data) every hash and every
   comparison is announced by a Begin event, so a computation that does not return leaves a Begin without
   answer and the trace cannot be accepted.
   An answer that breaks a rule of Equiv.tla is printed as C15_REJECT <<rule, line>> and the validation goes on
   (one run lists every rejected observation); the structure of the trace itself is mandatory. *)
EXTENDS Equiv, Json, IOUtils
TraceLog == ndJsonDeserialize(IOEnv.TRACE)
NT == Cardinality({i \in DOMAIN TraceLog : TraceLog[i].e = "Term"})
ASSUME TermsFirst == \A i \in 1..NT : TraceLog[i].e = "Term" /\ TraceLog[i].id = i
Cls(t) == TraceLog[t].cls
IsNan(t) == TraceLog[t].nan = 1
\* terms are declared as graphs or as symbolic nests (Equiv!SameDeclared)
SameT(t, u) == IF t = u THEN TRUE ELSE SameDeclared(TraceLog[t], TraceLog[u])


VARIABLES l,        \* next line of the trace
          bid,      \* current batch id, 0 between batches
          bn, bg,   \* announced number of instances, Begin discipline
          insts,    \* instance id -> [t, fresh, h] of the current batch
          seen,     \* ordered pairs observed in the current batch
          req, rv, rl,   \* the pairs answered #t by eq?, eqv?, equal?
          pend,     \* the announced computation not yet answered, or << >>
          nrej      \* number of rejected answers so far
vars == <<l, bid, bn, bg, insts, seen, req, rv, rl, pend, nrej>>
Ev == TraceLog[l]
IsEvent(e) == l <= Len(TraceLog) /\ Ev.e = e /\ l' = l + 1
B(x) == x = 1
NoInst == [i \in {} |-> 0]

\* a rule of Equiv.tla applied to one recorded answer: 0 if it holds, else 1 after printing the rejection
Rule(name, ok) == IF ok THEN 0 ELSE IF PrintT(<<"C15_REJECT", name, l>>) THEN 1 ELSE 1

TTerm == IsEvent("Term") /\ l <= NT /\ UNCHANGED <<bid, bn, bg, insts, seen, req, rv, rl, pend, nrej>>
TBatch == /\ IsEvent("Batch") /\ l > NT /\ bid = 0 /\ Ev.b > 0
          /\ bid' = Ev.b /\ bn' = Ev.n /\ bg' = Ev.bg /\ insts' = NoInst
          /\ seen' = {} /\ req' = {} /\ rv' = {} /\ rl' = {} /\ pend' = << >> /\ UNCHANGED nrej
TBegin == /\ IsEvent("Begin") /\ bid # 0 /\ bg = 1 /\ pend = << >>
          /\ pend' = <<Ev.a, Ev.b>> /\ UNCHANGED <<bid, bn, bg, insts, seen, req, rv, rl, nrej>>
TInst == /\ IsEvent("Inst") /\ bid # 0 /\ seen = {}
         /\ Ev.err = 0                                   \* the route produced a value and hash returned
         /\ Ev.i \notin DOMAIN insts /\ Ev.t \in 1..NT
         /\ IF bg = 1 THEN pend = <<Ev.i, 0>> ELSE pend = << >>
         /\ Len(Ev.h) >= 4
         /\ insts' = [x \in DOMAIN insts \cup {Ev.i} |-> IF x = Ev.i THEN [t |-> Ev.t, fresh |-> B(Ev.fresh), h |-> Ev.h] ELSE insts[x]]
         /\ pend' = << >> /\ UNCHANGED <<bid, bn, bg, seen, req, rv, rl, nrej>>
TObs ==
   /\ IsEvent("Obs") /\ bid # 0
   /\ Ev.a \in DOMAIN insts /\ Ev.b \in DOMAIN insts /\ <<Ev.a, Ev.b>> \notin seen
   /\ Cardinality(DOMAIN insts) = bn
   /\ Ev.err = 0
   /\ IF bg = 1 THEN pend = <<Ev.a, Ev.b>> ELSE pend = << >>
   /\ LET A == insts[Ev.a]  Bb == insts[Ev.b]
          sameInst == Ev.a = Ev.b
          sameTerm == SameT(A.t, Bb.t)
          nan == IsNan(A.t) /\ IsNan(Bb.t)
          eq == B(Ev.eq)  eqv == B(Ev.eqv)  equal == B(Ev.equal)
      IN /\ nrej' = nrej
                    + Rule("equal", EqualOK(sameInst, sameTerm, nan, equal))
                    + Rule("pequal", Ev.pequal = -1 \/ EqualOK(sameInst, sameTerm, nan, B(Ev.pequal)))
                    + Rule("member", Ev.mem = -1 \/ EqualOK(sameInst, sameTerm, nan, B(Ev.mem)))    \* (member a (list b))
                    + Rule("assoc", Ev.ass = -1 \/ EqualOK(sameInst, sameTerm, nan, B(Ev.ass)))     \* (assoc a (list (cons b 0)))
                    + Rule("eqv", EqvOK(sameInst, sameTerm, nan, Cls(A.t), Cls(Bb.t), A.fresh, Bb.fresh, eqv))
                    + Rule("eq", EqOK(sameInst, sameTerm, Cls(A.t), Cls(Bb.t), A.fresh, Bb.fresh, eq))
                    + Rule("lattice", Lattice(eq, eqv, equal))
                    + Rule("hash", HashOK(sameTerm, nan, equal \/ B(Ev.pequal), A.h, Bb.h))
         /\ req' = IF eq THEN req \cup {<<Ev.a, Ev.b>>} ELSE req
         /\ rv' = IF eqv THEN rv \cup {<<Ev.a, Ev.b>>} ELSE rv
         /\ rl' = IF equal THEN rl \cup {<<Ev.a, Ev.b>>} ELSE rl
   /\ seen' = seen \cup {<<Ev.a, Ev.b>>} /\ pend' = << >>
   /\ UNCHANGED <<bid, bn, bg, insts>>
\* the batch is complete: every ordered pair was answered, and each predicate is an equivalence relation
\* on the instances of the batch (this does not use the term declarations at all)
TEndBatch ==
   /\ IsEvent("EndBatch") /\ bid # 0 /\ Ev.b = bid /\ pend = << >>
   /\ Cardinality(DOMAIN insts) = bn
   /\ seen = (DOMAIN insts) \X (DOMAIN insts)
   /\ nrej' = nrej + Rule("eq-equivalence", IsEquivalence(DOMAIN insts, req))
                   + Rule("eqv-equivalence", IsEquivalence(DOMAIN insts, rv))
                   + Rule("equal-equivalence", IsEquivalence(DOMAIN insts, rl))
   /\ bid' = 0 /\ UNCHANGED <<bn, bg, insts, seen, req, rv, rl, pend>>
TExit == /\ IsEvent("Exit") /\ bid = 0 /\ Ev.rc = 0 /\ UNCHANGED <<bid, bn, bg, insts, seen, req, rv, rl, pend, nrej>>

TraceInit == /\ l = 1 /\ bid = 0 /\ bn = 0 /\ bg = 0 /\ insts = NoInst /\ seen = {} /\ req = {} /\ rv = {} /\ rl = {}
             /\ pend = << >> /\ nrej = 0
TraceNext == TTerm \/ TBatch \/ TBegin \/ TInst \/ TObs \/ TEndBatch \/ TExit
TraceSpec == TraceInit /\ [][TraceNext]_vars
\* structural acceptance: the whole trace was consumed, and it ends with a clean Exit
Accepted == LET d == TLCGet("stats").diameter IN
            IF d - 1 = Len(TraceLog) /\ TraceLog[Len(TraceLog)].e = "Exit" THEN TRUE
            ELSE PrintT(<<"TRACE_REJECTED_AT", d, Len(TraceLog)>>) /\ FALSE
=============================================================================
