SPECIFICATION Spec
CONSTANTS Sigma = {97, 65, 48, 32, 33, 43, 955, 1635, 10}
          MaxLen = 2
          Level = 5
          Fam = "named"
INVARIANTS TwoFormulations SearchIsContextMatch SearchFromMatch GroupsWF ReportSound ReportRejectsNonMatch CsLaws
CHECK_DEADLOCK FALSE
