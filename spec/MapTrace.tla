---------------------------- MODULE MapTrace ----------------------------
(* Validates one recorded history of operations on real SRFI 69 / SRFI 125 hash tables (driver
   harness/scm/c15_map.scm) against Map.tla.  Trace layout: lines 1..NT declare the terms (line k = term id k
   with its graph, as in EquivTrace), then one Inst line per key instance (instance -> term, fresh?), then
   Make/Set/Ref/... events, finally Exit.
   The class of a key instance under the table's equivalence is computed here from the term graphs:
     equal?, string=? : the abstract value (representative of its SameGraph class)
     eqv?             : the abstract value for numbers, chars, symbols, booleans, (); the location otherwise
     eq?              : the abstract value for symbols, booleans, (); the location otherwise
   "location" = the instance, which is sound only for routes that allocate (fresh); anything else is outside
   the domain of the property and flagged C15_OUT_OF_DOMAIN (a generator error, not a verdict).
   The first answer that differs from Map.tla is printed as C15_MAP_REJECT <<tag, line>> and the trace is not
   accepted. *)
EXTENDS Map, Equiv, Json, IOUtils
TraceLog == ndJsonDeserialize(IOEnv.TRACE)
NT == Cardinality({i \in DOMAIN TraceLog : TraceLog[i].e = "Term"})
ASSUME TermsFirst == \A i \in 1..NT : TraceLog[i].e = "Term" /\ TraceLog[i].id = i
Cls(t) == TraceLog[t].cls
IsNan(t) == TraceLog[t].nan = 1
\* terms are declared as graphs or as symbolic nests (Equiv!SameDeclared)
SameT(t, u) == IF t = u THEN TRUE ELSE SameDeclared(TraceLog[t], TraceLog[u])
\* representative of the class of abstract values equal to t
RepTab == [t \in 1..NT |-> CHOOSE u \in 1..NT : SameT(u, t) /\ \A w \in 1..(u - 1) : ~SameT(w, t)]

TTabs == 1..4
NoKeys == {}
VARIABLES l,      \* next line
          teq,    \* table handle -> "equal" | "eqv" | "eq" | "string"
          ki      \* key instance -> [t, fresh]
tvars == <<l, teq, ki>>
Ev == TraceLog[l]
IsEvent(e) == l <= Len(TraceLog) /\ Ev.e = e /\ l' = l + 1
Expect(tag, cond) == IF cond THEN TRUE ELSE PrintT(<<"C15_MAP_REJECT", tag, l>>) /\ FALSE

InDomain(h, i) ==
   /\ i \in DOMAIN ki /\ ~IsNan(ki[i].t)
   /\ LET c == Cls(ki[i].t) IN
      CASE teq[h] = "equal" -> TRUE
        [] teq[h] = "string" -> c = "str"
        [] teq[h] = "eqv" -> c \in ValueCls \/ (c \in LocatedCls /\ ki[i].fresh)
        [] teq[h] = "eq" -> c \in IdentCls \/ (c \in LocatedCls /\ ki[i].fresh)
        [] OTHER -> FALSE
InDom(h, i) == IF InDomain(h, i) THEN TRUE ELSE PrintT(<<"C15_OUT_OF_DOMAIN", l>>) /\ FALSE
KeyOf(h, i) ==
   LET t == ki[i].t  c == Cls(ki[i].t) IN
   IF teq[h] \in {"equal", "string"} \/ (teq[h] = "eqv" /\ c \in ValueCls) \/ (teq[h] = "eq" /\ c \in IdentCls)
   THEN <<"t", RepTab[t]>> ELSE <<"i", i>>
SizeAfter(h) == Cardinality(DOMAIN m'[h])
H == Ev.h
K == KeyOf(Ev.h, Ev.k)
Live == Ev.h \in live /\ Ev.err = 0
Same == UNCHANGED <<teq, ki>>
Range(s) == {s[i] : i \in DOMAIN s}

TTerm == IsEvent("Term") /\ l <= NT /\ UNCHANGED <<vars, teq, ki>>
TInst == /\ IsEvent("Inst") /\ l > NT /\ live = {} /\ Ev.err = 0 /\ Ev.i \notin DOMAIN ki /\ Ev.t \in 1..NT
         /\ ki' = [x \in DOMAIN ki \cup {Ev.i} |-> IF x = Ev.i THEN [t |-> Ev.t, fresh |-> Ev.fresh = 1] ELSE ki[x]]
         /\ UNCHANGED <<vars, teq>>
TMake == /\ IsEvent("Make") /\ Ev.err = 0 /\ H \in TTabs /\ Ev.eqv \in {"equal", "eqv", "eq", "string"}
         /\ Make(H) /\ teq' = [teq EXCEPT ![H] = Ev.eqv] /\ UNCHANGED ki
         /\ Expect("make:size", Ev.n = 0)
TSet == /\ IsEvent("Set") /\ Live /\ InDom(H, Ev.k) /\ Ev.v \in Vals
        /\ Set(H, K, Ev.v) /\ Same /\ Expect("set:size", Ev.n = SizeAfter(H))
TDelete == /\ IsEvent("Delete") /\ Live /\ InDom(H, Ev.k)
           /\ Delete(H, K) /\ Same /\ Expect("delete:size", Ev.n = SizeAfter(H))
\* hash-table-ref without failure thunk: the value, or an error (-2) exactly when the key is missing
TRef == /\ IsEvent("Ref") /\ Live /\ InDom(H, Ev.k) /\ Query(H) /\ Same
        /\ Expect("ref:value", Ev.res = (IF ExistsRes(H, K) THEN RefRes(H, K) ELSE Error))
TRefThunk == /\ IsEvent("RefThunk") /\ Live /\ InDom(H, Ev.k) /\ Query(H) /\ Same
             /\ Expect("ref-thunk:value", Ev.res = RefRes(H, K))
TRefDefault == /\ IsEvent("RefDefault") /\ Live /\ InDom(H, Ev.k) /\ Query(H) /\ Same
               /\ Expect("ref-default:value", Ev.res = RefRes(H, K))
TExists == /\ IsEvent("Exists") /\ Live /\ InDom(H, Ev.k) /\ Query(H) /\ Same
           /\ Expect("exists:answer", (Ev.res = 1) = ExistsRes(H, K))
\* hash-table-update! without default
TUpdate == /\ IsEvent("Update") /\ Live /\ InDom(H, Ev.k) /\ Ev.d \in Vals /\ Same
           /\ IF ExistsRes(H, K)
              THEN /\ Update(H, K, Ev.d)
                   /\ Expect("update:no-error", Ev.raised = 0) /\ Expect("update:size", Ev.n = SizeAfter(H))
              ELSE /\ UpdateErr(H, K)
                   /\ Expect("update-missing-key:error", Ev.raised = 1)
                   /\ Expect("update-missing-key:table-unchanged", Ev.n = SizeAfter(H))
TUpdateThunk == /\ IsEvent("UpdateThunk") /\ Live /\ InDom(H, Ev.k) /\ Ev.d \in Vals /\ Ev.dv \in Vals /\ Same
                /\ UpdateDefault(H, K, Ev.d, Ev.dv) /\ Expect("update-thunk:size", Ev.n = SizeAfter(H))
TUpdateDefault == /\ IsEvent("UpdateDefault") /\ Live /\ InDom(H, Ev.k) /\ Ev.d \in Vals /\ Ev.dv \in Vals /\ Same
                  /\ UpdateDefault(H, K, Ev.d, Ev.dv) /\ Expect("update-default:size", Ev.n = SizeAfter(H))
TSize == /\ IsEvent("Size") /\ Live /\ Query(H) /\ Same /\ Expect("size:answer", Ev.res = SizeRes(H))
TEmpty == /\ IsEvent("Empty") /\ Live /\ Query(H) /\ Same /\ Expect("empty:answer", (Ev.res = 1) = (SizeRes(H) = 0))
TKeys == /\ IsEvent("Keys") /\ Live /\ Query(H) /\ Same
         /\ Expect("keys:known-objects", \A i \in DOMAIN Ev.res : Ev.res[i] \in DOMAIN ki)
         /\ Expect("keys:count", Len(Ev.res) = SizeRes(H))
         /\ Expect("keys:set", {KeyOf(H, Ev.res[i]) : i \in DOMAIN Ev.res} = KeysRes(H))
TValues == /\ IsEvent("Values") /\ Live /\ Query(H) /\ Same
           /\ Expect("values:count", Len(Ev.res) = SizeRes(H))
           /\ Expect("values:bag", \A v \in Range(Ev.res) \cup Range(m[H]) :
                                       Cardinality({i \in DOMAIN Ev.res : Ev.res[i] = v}) = CountOf(H, v))
PairsOK(tag) == /\ Expect(tag \o ":known-objects", \A i \in DOMAIN Ev.res : Ev.res[i][1] \in DOMAIN ki)
                /\ Expect(tag \o ":count", Len(Ev.res) = SizeRes(H))
                /\ Expect(tag \o ":bindings", {<<KeyOf(H, Ev.res[i][1]), Ev.res[i][2]>> : i \in DOMAIN Ev.res} = AlistRes(H))
TAlist == IsEvent("Alist") /\ Live /\ Query(H) /\ Same /\ PairsOK("alist")
TWalk == IsEvent("Walk") /\ Live /\ Query(H) /\ Same /\ PairsOK("walk")
TFold == /\ IsEvent("Fold") /\ Live /\ Query(H) /\ Same
         /\ Expect("fold:count", Ev.cnt = SizeRes(H)) /\ Expect("fold:sum", Ev.sum = SumRes(H))
TCount == /\ IsEvent("Count") /\ Live /\ Query(H) /\ Same /\ Expect("count:answer", Ev.res = CountOf(H, Ev.v))
TCopy == /\ IsEvent("Copy") /\ Live /\ Ev.h2 \in TTabs
         /\ Copy(H, Ev.h2) /\ teq' = [teq EXCEPT ![Ev.h2] = teq[H]] /\ UNCHANGED ki
         /\ Expect("copy:size", Ev.n = SizeAfter(Ev.h2))
TMerge == /\ IsEvent("Merge") /\ Live /\ Ev.h2 \in live /\ teq[Ev.h2] = teq[H]
          /\ Merge(H, Ev.h2) /\ Same /\ Expect("merge:size", Ev.n = SizeAfter(H))
TClear == /\ IsEvent("Clear") /\ Live /\ Clear(H) /\ Same /\ Expect("clear:size", Ev.n = 0)
TIntern == /\ IsEvent("Intern") /\ Live /\ InDom(H, Ev.k) /\ Ev.v \in Vals
           /\ Intern(H, K, Ev.v) /\ Same
           /\ Expect("intern:value", Ev.res = InternRes(H, K, Ev.v)) /\ Expect("intern:size", Ev.n = SizeAfter(H))
\* hash-table-pop! : an error on an empty table; otherwise some binding of the table, which is removed
TPop == /\ IsEvent("Pop") /\ Live /\ Same
        /\ IF SizeRes(H) = 0
           THEN Query(H) /\ Expect("pop-empty:error", Ev.raised = 1)
           ELSE /\ Expect("pop:no-error", Ev.raised = 0) /\ Expect("pop:known-object", Ev.k \in DOMAIN ki)
                /\ Expect("pop:binding", ExistsRes(H, K) /\ RefRes(H, K) = Ev.v)
                /\ Pop(H, K) /\ Expect("pop:size", Ev.n = SizeAfter(H))
TExit == IsEvent("Exit") /\ Ev.rc = 0 /\ UNCHANGED <<vars, teq, ki>>

TraceInit == Init /\ l = 1 /\ teq = [h \in TTabs |-> "none"] /\ ki = [i \in {} |-> 0]
TraceNext == \/ TTerm \/ TInst \/ TMake \/ TSet \/ TDelete \/ TRef \/ TRefThunk \/ TRefDefault \/ TExists
             \/ TUpdate \/ TUpdateThunk \/ TUpdateDefault \/ TSize \/ TEmpty \/ TKeys \/ TValues \/ TAlist \/ TWalk
             \/ TFold \/ TCount \/ TCopy \/ TMerge \/ TClear \/ TIntern \/ TPop \/ TExit
TraceSpec == TraceInit /\ [][TraceNext]_<<vars, tvars>>
Accepted == LET d == TLCGet("stats").diameter IN
            IF d - 1 = Len(TraceLog) /\ TraceLog[Len(TraceLog)].e = "Exit" THEN TRUE
            ELSE PrintT(<<"TRACE_REJECTED_AT", d, Len(TraceLog)>>) /\ FALSE
=========================================================================
