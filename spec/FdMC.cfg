SPECIFICATION Spec
CONSTANTS Slots = {1, 2}
          Fds = {5, 6, 7}
INVARIANTS HeldAreOpen NoLeak DroppedOpen
