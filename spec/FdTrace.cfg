SPECIFICATION TraceSpec
CONSTANTS Slots <- TSlots
          Fds <- TFds
INVARIANTS HeldAreOpen NoLeak DroppedOpen
POSTCONDITION Accepted
CHECK_DEADLOCK FALSE
