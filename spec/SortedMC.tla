---------------------------- MODULE SortedMC ----------------------------
(* The defining relations of Sorted.tla agree with independent reference formulations
   (insertion sort, two-finger merge, explicit permutations) on every small input/output pair. *)
EXTENDS Sorted, TLC
CONSTANTS MaxLen, NKeys
VARIABLES in, in2, out, ord
vars == <<in, in2, out, ord>>
Keys == 0..(NKeys - 1)
(* inputs: every key sequence up to MaxLen, every choice of which elements have an identity *)
Inputs == UNION {{[i \in 1..n |-> <<ks[i], IF fl[i] THEN i ELSE 0>>] : ks \in [1..n -> Keys], fl \in [1..n -> BOOLEAN]} : n \in 0..MaxLen}
Foreign == <<0, 9>>
(* candidate outputs: any arrangement of input elements (with repetition / omission) and a foreign element,
   of the same length or one shorter / longer *)
Cands(s) == LET E == {s[i] : i \in DOMAIN s} \cup {Foreign} IN
            UNION {[1..n -> E] : n \in {m \in {Len(s) - 1, Len(s), Len(s) + 1} : m >= 0 /\ m <= MaxLen}}
Shift(s, d) == [i \in DOMAIN s |-> <<s[i][1], IF s[i][2] > 0 THEN s[i][2] + d ELSE 0>>]
Init == /\ ord \in {"lt", "gt"}
        /\ in \in Inputs
        /\ in2 \in {Shift(s, Len(in)) : s \in {t \in Inputs : Len(t) + Len(in) <= MaxLen}}
        /\ out \in Cands(in \o in2)
Next == UNCHANGED vars
Spec == Init /\ [][Next]_vars
WF == WFInput(in \o in2)
AgreeStable == (in2 = <<>>) => (IsStableSort(in, out, ord) <=> out = RefStableSort(in, ord))
AgreeSort == (in2 = <<>>) => (IsSort(in, out, ord) <=> (NonDecr(out, ord) /\ IsPermOf(in, out)))
AgreeMerge == (NonDecr(in, ord) /\ NonDecr(in2, ord)) =>
                 /\ IsStableMerge(in, in2, out, ord) <=> out = RefMerge(in, in2, ord)
                 /\ IsMerge(in, in2, out, ord) <=> (NonDecr(out, ord) /\ IsPermOf(in \o in2, out))
AgreeDedup == (in2 = <<>> /\ out = in) => Dedup(in) = RefDedup(in)
AgreeKth == (in2 = <<>> /\ out = in /\ in # <<>>) =>
               LET r == RefStableSort(in, ord) IN
               /\ SortedKeys(in, ord) = [i \in DOMAIN r |-> r[i][1]]
               /\ \A k \in 0..Len(in) : Separated(r, k, ord)
StableImpliesSort == IsStableSort(in, out, ord) => IsSort(in, out, ord)
=========================================================================
