SPECIFICATION RunSpec
CONSTANTS
  Graph <- SmallGraph
  MaxDepth = 0
  MaxIds = 2
  Pfx = {"p", "q:"}
  Pool = {"a", "o", "z", "pz"}
  CopyImmediates = FALSE
  MaxEnvs = 2
  MaxTicks = 1
  StartLibs = {1, 2, 3}
CONSTRAINT RunConstraint
INVARIANTS
  MCSetsWF InstOnce DepsFirst ReadyLoaded LawBatch LawShared SameLocation
CHECK_DEADLOCK FALSE
