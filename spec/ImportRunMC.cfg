SPECIFICATION RunSpec
CONSTANTS
  Graph <- SmallGraph
  MaxDepth = 0
  MaxIds = 2
  Pfx = {"p", "q:"}
  Pool = {"a", "o", "z", "pz"}
  MaxTicks = 2
  StartLibs = {1, 2, 3}
CONSTRAINT RunConstraint
INVARIANTS
  MCSetsWF InstOnce DepsFirst ReadyLoaded LawBatch LawShared
CHECK_DEADLOCK FALSE
