SPECIFICATION Spec
CONSTANTS N = 3
          VecArities = {1}
INVARIANTS InvEquivalence InvExplore InvUnfolding InvBoundedHash InvDeepNotSmall
