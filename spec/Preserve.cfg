SPECIFICATION Spec
INVARIANT HeldAlive
POSTCONDITION Accepted
CHECK_DEADLOCK FALSE
