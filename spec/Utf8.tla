------------------------------- MODULE Utf8 -------------------------------
(* Unicode scalar values and their UTF-8 encoding as integer arithmetic; a strict decoder.
   Pure definitions (no constants, no variables), shared by Str, StrTrace and StrSweep. *)
EXTENDS Integers, Sequences, FiniteSets, SequencesExt

IsScalar(c) == c \in 0..1114111 /\ c \notin 55296..57343
Width(c) == IF c < 128 THEN 1 ELSE IF c < 2048 THEN 2 ELSE IF c < 65536 THEN 3 ELSE 4
Utf8(c) ==
   IF c < 128 THEN <<c>>
   ELSE IF c < 2048 THEN <<192 + (c \div 64), 128 + (c % 64)>>
   ELSE IF c < 65536 THEN <<224 + (c \div 4096), 128 + ((c \div 64) % 64), 128 + (c % 64)>>
   ELSE <<240 + (c \div 262144), 128 + ((c \div 4096) % 64), 128 + ((c \div 64) % 64), 128 + (c % 64)>>
Utf8Seq(s) == FoldLeft(LAMBDA acc, c : acc \o Utf8(c), <<>>, s)
ByteLen(s) == FoldLeft(LAMBDA acc, c : acc + Width(c), 0, s)
\* byte offset of character index i (0-based, 0..Len(s)) -- what a cursor is in the implementation
ByteOff(s, i) == ByteLen(SubSeq(s, 1, i))
IsCont(x) == x \in 128..191
\* number of characters that start before byte offset off (the implementation's cursor->index)
CharsBefore(b, off) == Cardinality({k \in 1..off : ~IsCont(b[k])})
IsBoundary(s, off) == \E i \in 0..Len(s) : ByteOff(s, i) = off
IndexOfOff(s, off) == CHOOSE i \in 0..Len(s) : ByteOff(s, i) = off

Bad == <<-1>>
\* strict decoder: the code point sequence of a well-formed UTF-8 byte sequence, Bad otherwise
\* (rejects stray continuation bytes, truncation, overlong forms, surrogates, > U+10FFFF)
Decode(b) ==
   LET n == Len(b)
       D[k \in 1..(n + 1)] ==
          IF k = n + 1 THEN <<>>
          ELSE LET x == b[k]
                   w == IF x < 128 THEN 1 ELSE IF x \in 194..223 THEN 2
                        ELSE IF x \in 224..239 THEN 3 ELSE IF x \in 240..244 THEN 4 ELSE 0
               IN IF w = 0 \/ k + w - 1 > n THEN Bad
                  ELSE IF \E j \in 1..(w - 1) : ~IsCont(b[k + j]) THEN Bad
                  ELSE LET c == IF w = 1 THEN x
                                ELSE IF w = 2 THEN (x - 192) * 64 + (b[k + 1] - 128)
                                ELSE IF w = 3 THEN (x - 224) * 4096 + (b[k + 1] - 128) * 64 + (b[k + 2] - 128)
                                ELSE (x - 240) * 262144 + (b[k + 1] - 128) * 4096 + (b[k + 2] - 128) * 64 + (b[k + 3] - 128)
                           rest == D[k + w]
                       IN IF ~IsScalar(c) \/ Utf8(c) # SubSeq(b, k, k + w - 1) \/ rest = Bad THEN Bad
                          ELSE <<c>> \o rest
   IN D[1]
WellFormed(b) == Decode(b) # Bad

=============================================================================
