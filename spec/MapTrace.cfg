SPECIFICATION TraceSpec
CONSTANTS Keys <- NoKeys
          NV = 1000
          Tabs <- TTabs
INVARIANTS NoDuplicateKey SameBindings SameSize DeadEmpty ValuesInRange
POSTCONDITION Accepted
CHECK_DEADLOCK FALSE
