---------------------------- MODULE AdtDeque ----------------------------
(* SRFI 134 immutable deques as finite sequences. *)
EXTENDS AdtBase

DQTable == <<
  <<"ideque", S_s, 6>>, <<"list->ideque", S_s, 3>>, <<"tabulate", S_x, 1>>, <<"unfold", S_x, 1>>, <<"unfold-right", S_x, 1>>,
  <<"generator->ideque", S_s, 1>>,
  <<"empty?", S_v, 2>>, <<"front", S_v, 5>>, <<"back", S_v, 5>>, <<"length", S_v, 3>>, <<"->list", S_v, 3>>, <<"->generator", S_v, 1>>,
  <<"add-front", S_vk, 9>>, <<"add-back", S_vk, 9>>, <<"remove-front", S_v, 8>>, <<"remove-back", S_v, 8>>,
  <<"ref", S_vx, 4>>, <<"take", S_vx, 3>>, <<"take-right", S_vx, 3>>, <<"drop", S_vx, 3>>, <<"drop-right", S_vx, 3>>, <<"split-at", S_vx, 3>>,
  <<"append", S_vw, 4>>, <<"append3", S_vw, 1>>, <<"reverse", S_v, 4>>, <<"count", S_vxk, 2>>, <<"zip", S_vw, 1>>,
  <<"map", S_vx, 3>>, <<"filter-map", S_vxk, 2>>, <<"for-each", S_v, 1>>, <<"for-each-right", S_v, 1>>,
  <<"fold", S_v, 2>>, <<"fold-right", S_v, 2>>, <<"append-map", S_v, 2>>,
  <<"filter", S_vxk, 3>>, <<"remove", S_vxk, 3>>, <<"partition", S_vxk, 3>>,
  <<"find", S_vxk, 2>>, <<"find-right", S_vxk, 2>>, <<"take-while", S_vxk, 2>>, <<"take-while-right", S_vxk, 2>>,
  <<"drop-while", S_vxk, 2>>, <<"drop-while-right", S_vxk, 2>>, <<"span", S_vxk, 2>>, <<"break", S_vxk, 2>>,
  <<"any", S_vxk, 1>>, <<"every", S_vxk, 1>>, <<"=", S_vw, 3>> >>
DQNorm(o, s) ==
  LET n == IF o.v \in DOMAIN s THEN Len(s[o.v]) ELSE 0 IN
  IF o.op \in {"tabulate", "unfold", "unfold-right"} THEN [o EXCEPT !.x = o.x % 7]
  ELSE IF o.op = "ref" THEN [o EXCEPT !.x = IF n = 0 THEN 0 ELSE o.x % n]
  ELSE IF o.op \in {"take", "take-right", "drop", "drop-right", "split-at"} THEN [o EXCEPT !.x = o.x % (n + 1)]
  ELSE IF o.op = "map" THEN [o EXCEPT !.x = o.x % NFun]
  ELSE [o EXCEPT !.x = o.x % NPred]
DQPre(o, s) ==
  /\ (o.op \in {"front", "back", "remove-front", "remove-back", "ref"} => s[o.v] # <<>>)
  /\ (o.op \in {"append", "append3"} => Len(s[o.v]) + Len(s[o.w]) <= 40)
  /\ (o.op = "append-map" => Len(s[o.v]) <= 30)
  /\ (o.op = "ref" => o.x < Len(s[o.v]))
  /\ (o.op \in {"take", "take-right", "drop", "drop-right", "split-at"} => o.x <= Len(s[o.v]))
DQEval(o, s, M) ==
  LET A == s[o.v]  C == s[o.w]  n == Len(s[o.v])
      P(e) == Pred(o.x, o.k, e)
      NP(e) == ~Pred(o.x, o.k, e)
      Is(nm) == o.op = nm  Is2(nm, n2) == o.op \in {nm, n2}
      Count == [i \in 1..o.x |-> i - 1]
  IN CASE o.op \in {"ideque", "list->ideque", "generator->ideque"} -> Res(<<o.ks>>, None)
       [] Is2("tabulate", "unfold") -> Res(<<Count>>, None)
       [] Is("unfold-right") -> Res(<<RevSeq(Count)>>, None)
       [] Is("empty?") -> Res(<<>>, <<B(A = <<>>)>>)
       [] Is("front") -> Res(<<>>, <<A[1]>>)
       [] Is("back") -> Res(<<>>, <<A[n]>>)
       [] Is("length") -> Res(<<>>, <<n>>)
       [] o.op \in {"->list", "->generator", "for-each"} -> Res(<<>>, A)
       [] Is("for-each-right") -> Res(<<>>, RevSeq(A))
       [] Is("add-front") -> Res(<<<<o.k>> \o A>>, None)
       [] Is("add-back") -> Res(<<A \o <<o.k>>>>, None)
       [] Is("remove-front") -> Res(<<Tail(A)>>, None)
       [] Is("remove-back") -> Res(<<Take(A, n - 1)>>, None)
       [] Is("ref") -> Res(<<>>, <<A[o.x + 1]>>)
       [] Is("take") -> Res(<<Take(A, o.x)>>, None)
       [] Is("take-right") -> Res(<<Drop(A, n - o.x)>>, None)
       [] Is("drop") -> Res(<<Drop(A, o.x)>>, None)
       [] Is("drop-right") -> Res(<<Take(A, n - o.x)>>, None)
       [] Is("split-at") -> Res(<<Take(A, o.x), Drop(A, o.x)>>, None)
       [] Is("append") -> Res(<<A \o C>>, None)
       [] Is("append3") -> Res(<<A \o C \o A>>, None)
       [] Is("reverse") -> Res(<<RevSeq(A)>>, None)
       [] Is("count") -> Res(<<>>, <<Cardinality({i \in DOMAIN A : P(A[i])})>>)
       \* ideque of the lists (a_i c_i), as long as the shorter one; observed flattened
       [] Is("zip") -> Res(<<>>, [i \in 1..(IF n < Len(C) THEN n ELSE Len(C)) |-> <<A[i], C[i]>>])
       [] Is("map") -> Res(<<[i \in DOMAIN A |-> Fun(o.x, M, A[i])]>>, None)
       \* (lambda (e) (and (P e) (+ e 1)))
       [] Is("filter-map") -> Res(<<MapSeq(SelectSeq(A, P), LAMBDA e : e + 1)>>, None)
       [] Is("fold") -> Res(<<>>, RevSeq(A))                 \* (ideque-fold cons '() d)
       [] Is("fold-right") -> Res(<<>>, A)                   \* (ideque-fold-right cons '() d)
       [] Is("append-map") -> Res(<<FlattenSeq([i \in DOMAIN A |-> <<A[i], A[i]>>])>>, None)
       [] Is("filter") -> Res(<<SelectSeq(A, P)>>, None)
       [] Is("remove") -> Res(<<SelectSeq(A, NP)>>, None)
       [] Is("partition") -> Res(<<SelectSeq(A, P), SelectSeq(A, NP)>>, None)
       [] Is("find") -> Res(<<>>, <<IF FirstIdx(A, P) = 0 THEN -1 ELSE A[FirstIdx(A, P)]>>)
       [] Is("find-right") -> Res(<<>>, <<IF LastIdx(A, P) = 0 THEN -1 ELSE A[LastIdx(A, P)]>>)
       [] Is("take-while") -> Res(<<Take(A, PrefixLen(A, P))>>, None)
       [] Is("drop-while") -> Res(<<Drop(A, PrefixLen(A, P))>>, None)
       [] Is("take-while-right") -> Res(<<Drop(A, n - SuffixLen(A, P))>>, None)
       [] Is("drop-while-right") -> Res(<<Take(A, n - SuffixLen(A, P))>>, None)
       [] Is("span") -> Res(<<Take(A, PrefixLen(A, P)), Drop(A, PrefixLen(A, P))>>, None)
       [] Is("break") -> Res(<<Take(A, PrefixLen(A, NP)), Drop(A, PrefixLen(A, NP))>>, None)
       [] Is("any") -> Res(<<>>, <<B(\E i \in DOMAIN A : P(A[i]))>>)
       [] Is("every") -> Res(<<>>, <<B(\A i \in DOMAIN A : P(A[i]))>>)
       [] Is("=") -> Res(<<>>, <<B(A = C)>>)
DQLaws(s, live, M) ==
  /\ \A v \in live :
       LET A == s[v]
           E(name, x, k) == DQEval(Op(name, v, v, k, x, <<>>), s, M)
           N(name, x, k) == E(name, x, k).new
       IN /\ \A x \in 0..Len(A) : \A tk \in {N("take", x, 0)[1]}, dr \in {N("drop", x, 0)[1]} :
               /\ tk \o dr = A /\ N("drop-right", x, 0)[1] \o N("take-right", x, 0)[1] = A
               /\ N("split-at", x, 0) = <<tk, dr>> /\ Len(N("take-right", x, 0)[1]) = x
          /\ \A x \in 0..(NPred - 1), k \in 0..(M - 1) : \A sp \in {N("span", x, k)}, br \in {N("break", x, k)}, fl \in {N("filter", x, k)[1]} :
               /\ sp[1] \o sp[2] = A /\ br[1] \o br[2] = A
               /\ N("take-while", x, k)[1] = sp[1] /\ N("drop-while", x, k)[1] = sp[2]
               /\ N("drop-while-right", x, k)[1] \o N("take-while-right", x, k)[1] = A
               /\ Len(fl) + Len(N("remove", x, k)[1]) = Len(A)
               /\ E("count", x, k).obs = {<<Len(fl)>>}
          /\ N("reverse", 0, 0)[1] = Reverse(A)
  /\ \A v \in live, w \in live : Len(DQEval(Op("append", v, w, 0, 0, <<>>), s, M).new[1]) = Len(s[v]) + Len(s[w])
=========================================================================
