---------------------------- MODULE Prim ----------------------------
(* C01: contracts of the primitives that index memory, and containment of errors in a session.
   A session owns three mutable objects (a vector of integers, a string of code points, a bytevector)
   and an immutable list.  A call is <<op, obj, args...>> where obj names the object the call is
   applied to ("V" vector, "S" string, "B" bytevector, "L" list, "N" a number, "C" a char) - also of the
   wrong type - and integer arguments range over boundary values (-1, 0, len-1, len, len+1 and sentinels
   standing for fixnum extremes and bignums).
   Contract(call, state) = <<class, value, state'>> with class
      "val" : in domain - the result must equal value and the objects become state'
      "err" : the call cannot be answered without touching memory outside an object (index out of
              range, wrong object type, wrong arity): it must end in a Scheme error and change nothing
      "any" : R7RS says "it is an error" but no memory is at stake: value or error, state unchanged.
   Huge(i): sentinels |i| >= 10^9 stand for fixnum extremes / bignums / the band 2^60..2^61 in which a length
   times the element size wraps around in 64-bit arithmetic (driver substitutes them). *)
EXTENDS Integers, Sequences, FiniteSets, TLC, SequencesExt, Json
VARIABLES sst, last     \* abstract session state, label of the last call

Huge(i) == i >= 1000000000 \/ i <= -1000000000
Unspec == <<"unspec">>
IntV(i) == <<"i", i>>
SeqV(tag, q) == <<tag, q>>

\* state: record [V |-> Seq(Int), S |-> Seq(codepoint), B |-> Seq(byte), L |-> Seq(Int)]
TypeOf(o) == CASE o = "V" -> "vector" [] o = "S" -> "string" [] o = "B" -> "bytevector" [] o = "L" -> "list"
               [] o = "N" -> "number" [] o = "C" -> "char" [] OTHER -> "other"
Obj(st, o) == CASE o = "V" -> st.V [] o = "S" -> st.S [] o = "B" -> st.B [] o = "L" -> st.L [] OTHER -> <<>>
InRange(i, n) == ~Huge(i) /\ 0 <= i /\ i < n
RangeOK(s, e, n) == ~Huge(s) /\ ~Huge(e) /\ 0 <= s /\ s <= e /\ e <= n
Scalar(c) == ~Huge(c) /\ ((0 <= c /\ c <= 55295) \/ (57344 <= c /\ c <= 1114111))
ValOK(o, x) == CASE o = "V" -> TRUE [] o = "S" -> Scalar(x) [] o = "B" -> ~Huge(x) /\ 0 <= x /\ x <= 255 [] OTHER -> FALSE
Put(st, o, q) == CASE o = "V" -> [st EXCEPT !.V = q] [] o = "S" -> [st EXCEPT !.S = q] [] o = "B" -> [st EXCEPT !.B = q] [] OTHER -> st
ErrR(st) == <<"err", Unspec, st>>
ShapeR(st) == <<"shape", Unspec, st>>     \* out-of-domain mutator: any outcome; the objects may change but keep their shape
Clamp(i, n) == IF i < 0 THEN 0 ELSE IF i > n THEN n ELSE i
AnyR(st) == <<"any", Unspec, st>>
ValR(v, st) == <<"val", v, st>>
Tag(o) == CASE o = "V" -> "vec" [] o = "S" -> "str" [] o = "B" -> "bv" [] OTHER -> "list"
Fill(q, x, s, e) == [i \in 1..Len(q) |-> IF i > s /\ i <= e THEN x ELSE q[i]]
\* copy src[s+1..e] into dst at offset at (sources are read before the write: memmove semantics)
CopyInto(dst, at, src, s, e) == [i \in 1..Len(dst) |-> IF i > at /\ i <= at + (e - s) THEN src[s + (i - at)] ELSE dst[i]]

\* UTF-8 layout of a string of code points: a string cursor is a byte offset
BLen(cp) == IF cp < 128 THEN 1 ELSE IF cp < 2048 THEN 2 ELSE IF cp < 65536 THEN 3 ELSE 4
RECURSIVE ByteSize(_, _)
ByteSize(q, n) == IF n = 0 THEN 0 ELSE ByteSize(q, n - 1) + BLen(q[n])         \* bytes of the first n characters
CharAt(q, off) == {i \in 1..Len(q) : ByteSize(q, i - 1) = off}                    \* the character starting at byte offset off
CharEndingAt(q, off) == {i \in 1..Len(q) : ByteSize(q, i) = off}

Contract(c, st) ==
  LET op == c[1]
      o == c[2]
      q == Obj(st, o)
      n == Len(q)
  IN
  CASE op = "ref" ->          \* vector-ref / string-ref / bytevector-u8-ref / list-ref according to want = c[3]
         IF TypeOf(o) # c[3] THEN ErrR(st)
         ELSE IF InRange(c[4], n) THEN ValR(IntV(q[c[4] + 1]), st) ELSE ErrR(st)
    [] op = "set" ->          \* <<"set", o, want, i, x>>
         IF TypeOf(o) # c[3] \/ o = "L" THEN ErrR(st)
         ELSE IF ~InRange(c[4], n) THEN ErrR(st)
         ELSE IF ~ValOK(o, c[5]) THEN AnyR(st)
         ELSE ValR(Unspec, Put(st, o, [q EXCEPT ![c[4] + 1] = c[5]]))
    [] op = "len" -> IF TypeOf(o) # c[3] THEN ErrR(st) ELSE ValR(IntV(n), st)
    [] op = "sub" ->          \* substring / vector-copy / bytevector-copy / string-copy / ->list with start end: <<"sub", o, want, s, e>>
         IF TypeOf(o) # c[3] \/ o = "L" THEN (IF c[5] > c[4] THEN ErrR(st) ELSE AnyR(st))     \* wrong type: an access is needed only for a non-empty range
         ELSE IF RangeOK(c[4], c[5], n) THEN ValR(SeqV(Tag(o), SubSeq(q, c[4] + 1, c[5])), st)
         ELSE IF c[5] > c[4] THEN <<"errv", SeqV(Tag(o), SubSeq(q, Clamp(c[4], n) + 1, Clamp(c[5], n))), st>>   \* error, or the clamped range
         ELSE AnyR(st)                                                                                          \* empty / inverted range: no access needed
    [] op = "tolist" ->       \* vector->list / string->list with start end
         IF TypeOf(o) # c[3] \/ o = "L" \/ o = "B" THEN (IF c[5] > c[4] THEN ErrR(st) ELSE AnyR(st))
         ELSE IF RangeOK(c[4], c[5], n) THEN ValR(SeqV("list", SubSeq(q, c[4] + 1, c[5])), st)
         ELSE IF c[5] > c[4] THEN <<"errv", SeqV("list", SubSeq(q, Clamp(c[4], n) + 1, Clamp(c[5], n))), st>>
         ELSE AnyR(st)
    [] op = "fill" ->         \* vector-fill! / string-fill! / bytevector-fill! with start end: <<"fill", o, want, x, s, e>>
         IF TypeOf(o) # c[3] \/ o = "L" THEN (IF c[6] > c[5] THEN ErrR(st) ELSE AnyR(st))
         ELSE IF ~RangeOK(c[5], c[6], n) THEN ShapeR(st)          \* may fill the in-bounds part before failing, or clamp
         ELSE IF ~ValOK(o, c[4]) THEN AnyR(st)
         ELSE ValR(Unspec, Put(st, o, Fill(q, c[4], c[5], c[6])))
    [] op = "copy!" ->        \* (xxx-copy! to at from start end) on the same object kind: <<"copy!", o, want, at, s, e>>, to = from = o (aliasing)
         IF TypeOf(o) # c[3] \/ o = "L" THEN (IF c[6] > c[5] THEN ErrR(st) ELSE AnyR(st))
         ELSE IF ~RangeOK(c[5], c[6], n) \/ Huge(c[4]) \/ c[4] < 0 \/ c[4] + (c[6] - c[5]) > n THEN ShapeR(st)   \* partial / clamped copies are memory safe
         ELSE ValR(Unspec, Put(st, o, CopyInto(q, c[4], q, c[5], c[6])))
    [] op = "tail" ->         \* list-tail
         IF o # "L" THEN (IF c[3] = 0 THEN AnyR(st) ELSE ErrR(st))      \* (list-tail x 0) needs no access: x itself may come back
         ELSE IF ~Huge(c[3]) /\ 0 <= c[3] /\ c[3] <= n THEN ValR(SeqV("list", SubSeq(q, c[3] + 1, n)), st) ELSE ErrR(st)
    [] op = "make" ->         \* make-vector / make-string / make-bytevector k: <<"make", kind, k>>
         IF ~Huge(c[3]) /\ 0 <= c[3] /\ c[3] <= 64 THEN ValR(IntV(c[3]), st)        \* observed: the length of the result
         ELSE IF ~Huge(c[3]) /\ c[3] > 64 THEN AnyR(st)
         ELSE ErrR(st)
    [] op = "int->char" -> IF Scalar(c[3]) THEN ValR(IntV(c[3]), st) ELSE AnyR(st)
    [] op = "cur" ->          \* <<"cur", o, which, off>>: string-cursor-next / -prev / -ref with a cursor made from ANOTHER, longer string
         LET off == c[4]
             sz == ByteSize(q, n)
         IN IF o # "S" THEN ErrR(st)
            ELSE IF c[3] = "next" THEN (IF CharAt(q, off) # {} THEN ValR(IntV(off + BLen(q[CHOOSE i \in CharAt(q, off) : TRUE])), st)
                                        ELSE IF off < 0 \/ off > sz THEN ErrR(st) ELSE AnyR(st))      \* at the end / inside a character: in bounds
            ELSE IF c[3] = "prev" THEN (IF CharEndingAt(q, off) # {} THEN ValR(IntV(ByteSize(q, (CHOOSE i \in CharEndingAt(q, off) : TRUE) - 1)), st)
                                        ELSE IF off < 0 \/ off > sz THEN ErrR(st) ELSE AnyR(st))      \* at the start: the before-start sentinel
            ELSE (IF CharAt(q, off) # {} THEN ValR(IntV(q[CHOOSE i \in CharAt(q, off) : TRUE]), st)
                  ELSE IF off < 0 \/ off >= sz THEN ErrR(st) ELSE AnyR(st))
    [] op = "types" ->        \* define c[3] fresh record types, construct / mutate / read one instance of each: the sum of (a + b') = 4 per type
         IF ~Huge(c[3]) /\ c[3] >= 0 THEN ValR(IntV(4 * c[3]), st) ELSE AnyR(st)
    [] op = "arity" -> ErrR(st)                 \* a call with a wrong number of arguments
    [] op = "nonproc" -> ErrR(st)               \* application of a non-procedure
    [] op = "car" -> IF o = "L" /\ n > 0 THEN ValR(IntV(q[1]), st) ELSE ErrR(st)      \* car/cdr of a non-pair
    [] op = "arith" -> ErrR(st)                 \* arithmetic on a non-number
    [] op = "cyc" ->                            \* equal? / member / assoc on circular data must terminate (R7RS 6.1): isomorphic => found
         IF c[3] \in {0, 1, 2} THEN ValR(IntV(1), st) ELSE IF c[3] = 3 THEN ValR(IntV(0), st) ELSE ValR(IntV(2), st)
    [] OTHER -> AnyR(st)

InitState == [V |-> <<10, 20, 30>>, S |-> <<97, 955, 99>>, B |-> <<1, 2, 3>>, L |-> <<7, 8, 9>>]

\* ---- the enumerated call space (model checking): every op x object x boundary arguments
Objs == {"V", "S", "B", "L", "N", "C"}
Wants == {"vector", "string", "bytevector", "list"}
Idx == {-1, 0, 1, 2, 3, 4, 1000000001, 1000000002, -1000000001, -1000000002}
CONSTANT DoDump
CONSTANT Vals          \* element values offered to the mutators (small in model checking, richer when dumping cases)
AllCalls ==
     {<<"ref", o, w, i>> : o \in Objs, w \in Wants, i \in Idx}
  \cup {<<"set", o, w, i, x>> : o \in {"V", "S", "B", "N"}, w \in {"vector", "string", "bytevector"}, i \in Idx, x \in Vals}
  \cup {<<"len", o, w>> : o \in Objs, w \in Wants}
  \cup {<<"sub", o, w, s, e>> : o \in {"V", "S", "B", "N"}, w \in {"vector", "string", "bytevector"}, s \in Idx, e \in Idx}
  \cup {<<"tolist", o, w, s, e>> : o \in {"V", "S", "C"}, w \in {"vector", "string"}, s \in Idx, e \in Idx}
  \cup {<<"fill", o, w, x, s, e>> : o \in {"V", "S"}, w \in {"vector", "string"}, x \in {65, 256}, s \in {-1, 0, 1, 3, 4, 1000000001}, e \in {-1, 0, 2, 3, 4, 1000000002}}
  \cup {<<"copy!", o, w, at, s, e>> : o \in {"V", "S", "B"}, w \in {"vector", "string", "bytevector"}, at \in {-1, 0, 1, 2, 3, 4}, s \in {-1, 0, 1, 2, 3, 4}, e \in {0, 1, 2, 3, 4, 1000000001}}
  \cup {<<"tail", o, i>> : o \in {"L", "V", "N"}, i \in Idx}
  \cup {<<"make", k, i>> : k \in {"vector", "string", "bytevector", "wstring"},      \* wstring: make-string with a 4-byte fill character
                            i \in {-1, 0, 1, 5, 1000000001, 1000000002, -1000000002,
                                   1000000003, 1000000004, 1000000005}}   \* 2^60, 2^61-1, 2^61: length x element size wraps in 64 bits
  \cup {<<"int->char", "N", x>> : x \in {0, 65, 55295, 55296, 57343, 57344, 1114111, 1114112, -1, 1000000002}}
  \cup {<<"cur", o, w, off>> : o \in {"S", "V", "N"}, w \in {"next", "prev", "ref"}, off \in {-1, 0, 1, 2, 3, 4, 5, 6, 100}}
  \cup {<<"types", "N", k>> : k \in {1, 2, 7, 19, 40, 45, 90}}
  \cup {<<"arity", o, k>> : o \in {"V", "S", "L"}, k \in {0, 1, 3, 4}}
  \cup {<<"nonproc", o>> : o \in Objs}
  \cup {<<"car", o>> : o \in Objs}
  \cup {<<"arith", o>> : o \in {"V", "S", "L", "C"}}
  \cup {<<"cyc", o, k>> : o \in {"carcyc", "cdrcyc", "veccyc", "mixcyc"}, k \in 0..4}

\* used by the check to obtain the enumerated case space together with the outcome class of each call
DumpConstraint == Len(sst.V) > 3   \* false in every state: only the initial state is generated when dumping
DumpCalls == PrintT(<<"CALLS", ToJson(SetToSeq({<<c, Contract(c, InitState)[1]>> : c \in AllCalls}))>>)
FullVals == {65, 0, 255, 256, 955, 55296, 1114112, -1}
MCVals == {65}
\* model checking bound: at most one cell differs from the initial objects
DiffCount == Cardinality({i \in 1..3 : sst.V[i] # InitState.V[i]}) + Cardinality({i \in 1..3 : sst.S[i] # InitState.S[i]}) + Cardinality({i \in 1..3 : sst.B[i] # InitState.B[i]})
MCConstraint == DiffCount <= 1
OneVal == {65}

\* ---- model: a session applies arbitrary calls; the abstract state follows the contract
Init == sst = InitState /\ last = <<"none">> /\ (IF DoDump THEN DumpCalls ELSE TRUE)
Apply(c) == LET r == Contract(c, sst) IN sst' = r[3] /\ last' = <<r[1], c[1]>>
Next == \E c \in AllCalls : Apply(c)
Spec == Init /\ [][Next]_<<sst, last>>
\* the objects keep their lengths and element domains whatever is called (containment at the model level)
Shape == /\ Len(sst.V) = 3 /\ Len(sst.S) = 3 /\ Len(sst.B) = 3 /\ sst.L = <<7, 8, 9>>
         /\ \A i \in 1..3 : Scalar(sst.S[i]) /\ sst.B[i] \in 0..255
=====================================================================
