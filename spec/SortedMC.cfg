SPECIFICATION Spec
CONSTANTS MaxLen = 4
          NKeys = 2
INVARIANTS WF AgreeStable AgreeSort AgreeMerge AgreeDedup AgreeKth StableImpliesSort
CHECK_DEADLOCK FALSE
