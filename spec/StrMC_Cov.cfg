SPECIFICATION Spec
CONSTANTS
  Alphabet <- Two
  NRegs = 1
  NCur = 1
  MaxLen = 1
  Lits <- LitsSmall
  UsePorts = TRUE
  UseCursors = TRUE
VIEW View
INVARIANTS TypeOK LenIsCount Utf8RoundTrip CursorIndexBijection
PROPERTY ErrKeepsState
