---------------------------- MODULE BigNat ----------------------------
(* C04 / C17: exact integers and rationals of any size, on top of TLC's 32-bit integers.

   natural  = little-endian sequence of digits 0..B-1 (B = 2^W) without a most significant zero; 0 = <<>>
   integer  = <<s, m>>   s = 1 negative, s = 0 otherwise; m natural; zero is <<0, <<>>>> only
   rational = <<n, d>>   n integer, d natural # 0 (not necessarily in lowest terms: equality and order are
                         decided by cross multiplication; lowest terms is a separate predicate with a
                         Bezout certificate)

   Every operator is a single pass with FoldLeft over the digit indices (no accumulator recursion).
   BigNatMC.tla model checks them against TLC's built-in integers at W = 2 before they are used
   at W = 10 to judge the implementation (NumTrace.tla, BitsTrace.tla).                                *)
EXTENDS Integers, Sequences, SequencesExt
CONSTANT W                 \* bits per digit
B == 2^W

Idx(n) == [i \in 1..n |-> i]
D(a, i) == IF i <= Len(a) THEN a[i] ELSE 0
Zeros(n) == [i \in 1..n |-> 0]
IsNat(a) == /\ \A i \in 1..Len(a) : a[i] >= 0 /\ a[i] < B
            /\ (Len(a) > 0 => a[Len(a)] # 0)
\* drop most significant zeros
Trim(a) == LET k == FoldLeft(LAMBDA m, i : IF a[i] # 0 THEN i ELSE m, 0, Idx(Len(a)))
           IN IF k = Len(a) THEN a ELSE SubSeq(a, 1, k)
MaxI(x, y) == IF x >= y THEN x ELSE y
MinI(x, y) == IF x <= y THEN x ELSE y

\* ---- naturals
\* a natural given as a TLC integer (small values only)
RECURSIVE NatOf(_)
NatOf(n) == IF n = 0 THEN <<>> ELSE <<n % B>> \o NatOf(n \div B)
Cmp(a, b) == IF Len(a) # Len(b) THEN (IF Len(a) < Len(b) THEN -1 ELSE 1)
             ELSE FoldLeft(LAMBDA c, i : IF a[i] = b[i] THEN c ELSE IF a[i] < b[i] THEN -1 ELSE 1, 0, Idx(Len(a)))
Add(a, b) == LET n == MaxI(Len(a), Len(b)) + 1
                 r == FoldLeft(LAMBDA acc, i : LET t == D(a, i) + D(b, i) + acc[1]
                                               IN <<t \div B, Append(acc[2], t % B)>>,
                               <<0, <<>> >>, Idx(n))
             IN Trim(r[2])
\* a - b for a >= b
Sub(a, b) == LET r == FoldLeft(LAMBDA acc, i : LET t == a[i] - D(b, i) - acc[1]
                                               IN IF t < 0 THEN <<1, Append(acc[2], t + B)>> ELSE <<0, Append(acc[2], t)>>,
                               <<0, <<>> >>, Idx(Len(a)))
             IN Trim(r[2])
\* a * m + c for small m, c  (TLC integers with B*m + c far below 2^31)
RECURSIVE LenSmall(_)
LenSmall(n) == IF n = 0 THEN 0 ELSE 1 + LenSmall(n \div B)
MulAddSmall(a, m, c) ==
   LET r == FoldLeft(LAMBDA acc, i : LET t == D(a, i) * m + acc[1]
                                     IN <<t \div B, Append(acc[2], t % B)>>,
                     <<c, <<>> >>, Idx(Len(a) + LenSmall(m + c) + 1))
   IN Trim(r[2])
\* column k (1-based) of the schoolbook product: sum of a[i]*b[k+1-i]
Col(a, b, k) == LET lo == MaxI(1, k + 1 - Len(b))
                    hi == MinI(Len(a), k)
                IN FoldLeft(LAMBDA s, j : s + a[lo + j - 1] * b[k + 2 - lo - j], 0, Idx(hi - lo + 1))
Mul(a, b) == IF Len(a) = 0 \/ Len(b) = 0 THEN <<>> ELSE
             LET r == FoldLeft(LAMBDA acc, k : LET t == Col(a, b, k) + acc[1]
                                               IN <<t \div B, Append(acc[2], t % B)>>,
                               <<0, <<>> >>, Idx(Len(a) + Len(b)))
             IN Trim(r[2])
MulOK(a, b, r) == Mul(a, b) = r
Pow2(k) == [i \in 1..(k \div W + 1) |-> IF i = k \div W + 1 THEN 2^(k % W) ELSE 0]
ShiftLeft(a, k) == IF Len(a) = 0 THEN <<>> ELSE Zeros(k \div W) \o MulAddSmall(a, 2^(k % W), 0)
\* a^n by squaring, recursion depth log2(n)
RECURSIVE NPow(_, _)
NPow(a, n) == IF n = 0 THEN <<1>> ELSE
              LET h == NPow(a, n \div 2)  hh == Mul(h, h) IN IF n % 2 = 0 THEN hh ELSE Mul(hh, a)
\* number of significant bits
RECURSIVE BitLenSmall(_)
BitLenSmall(n) == IF n = 0 THEN 0 ELSE 1 + BitLenSmall(n \div 2)
BitLen(a) == IF Len(a) = 0 THEN 0 ELSE (Len(a) - 1) * W + BitLenSmall(a[Len(a)])
IsEvenNat(a) == Len(a) = 0 \/ a[1] % 2 = 0

\* ---- integers
Zero == <<0, <<>> >>
One == <<0, <<1>> >>
IsInt(x) == /\ Len(x) = 2 /\ x[1] \in {0, 1} /\ IsNat(x[2]) /\ (Len(x[2]) = 0 => x[1] = 0)
MkInt(s, m) == IF Len(m) = 0 THEN Zero ELSE <<s, m>>
INeg(x) == MkInt(1 - x[1], x[2])
IAbs(x) == <<0, x[2]>>
ISign(x) == IF Len(x[2]) = 0 THEN 0 ELSE IF x[1] = 1 THEN -1 ELSE 1
IAdd(x, y) == IF x[1] = y[1] THEN MkInt(x[1], Add(x[2], y[2]))
              ELSE LET c == Cmp(x[2], y[2])
                   IN IF c = 0 THEN Zero
                      ELSE IF c > 0 THEN MkInt(x[1], Sub(x[2], y[2])) ELSE MkInt(y[1], Sub(y[2], x[2]))
ISub(x, y) == IAdd(x, INeg(y))
IMul(x, y) == MkInt(IF x[1] = y[1] THEN 0 ELSE 1, Mul(x[2], y[2]))
ICmp(x, y) == IF x[1] # y[1] THEN (IF x[1] = 1 THEN -1 ELSE 1)
              ELSE IF x[1] = 0 THEN Cmp(x[2], y[2]) ELSE Cmp(y[2], x[2])
ILt(x, y) == ICmp(x, y) < 0
ILe(x, y) == ICmp(x, y) <= 0
IPow(x, n) == MkInt(IF x[1] = 1 /\ n % 2 = 1 THEN 1 ELSE 0, NPow(x[2], n))
IntOf(n) == IF n < 0 THEN <<1, NatOf(-n)>> ELSE <<0, NatOf(n)>>
IShiftLeft(x, k) == MkInt(x[1], ShiftLeft(x[2], k))
IIsEven(x) == IsEvenNat(x[2])

\* ---- rationals (denominator positive, any common factor allowed)
IsRat(q) == Len(q) = 2 /\ IsInt(q[1]) /\ IsNat(q[2]) /\ Len(q[2]) > 0
QOfInt(x) == <<x, <<1>> >>
QIsInt(q) == q[2] = <<1>>
DenI(q) == <<0, q[2]>>
QEq(p, q) == IMul(p[1], DenI(q)) = IMul(q[1], DenI(p))
QCmp(p, q) == ICmp(IMul(p[1], DenI(q)), IMul(q[1], DenI(p)))
QAdd(p, q) == <<IAdd(IMul(p[1], DenI(q)), IMul(q[1], DenI(p))), Mul(p[2], q[2])>>
QNeg(p) == <<INeg(p[1]), p[2]>>
QSub(p, q) == QAdd(p, QNeg(q))
QMul(p, q) == <<IMul(p[1], q[1]), Mul(p[2], q[2])>>
QInv(p) == <<MkInt(p[1][1], p[2]), p[1][2]>>                  \* p # 0
QDiv(p, q) == QMul(p, QInv(q))                                \* q # 0
QSign(p) == ISign(p[1])
QPow(p, n) == IF n >= 0 THEN <<IPow(p[1], n), NPow(p[2], n)>>
              ELSE QInv(<<IPow(p[1], -n), NPow(p[2], -n)>>)    \* p # 0

\* ---- defining relations (certificates, where needed, come from untrusted glue and are checked here)
\* a = q*b + r  with the remainder on the side of the dividend (truncate) / of the divisor (floor)
DivEq(a, b, q, r) == a = IAdd(IMul(q, b), r)
TruncRem(a, b, r) == Cmp(r[2], b[2]) < 0 /\ (ISign(r) = 0 \/ ISign(r) = ISign(a))
FloorRem(a, b, r) == Cmp(r[2], b[2]) < 0 /\ (ISign(r) = 0 \/ ISign(r) = ISign(b))
TruncDiv(a, b, q, r) == ISign(b) # 0 /\ DivEq(a, b, q, r) /\ TruncRem(a, b, r)
FloorDiv(a, b, q, r) == ISign(b) # 0 /\ DivEq(a, b, q, r) /\ FloorRem(a, b, r)
\* g = gcd(a, b) >= 0:  a = g*x, b = g*y, s*x + t*y = 1   (cert = <<x, y, s, t>>);  gcd(0,0) = 0
GcdOK(a, b, g, cert) ==
   IF ISign(a) = 0 /\ ISign(b) = 0 THEN g = Zero
   ELSE /\ ISign(g) = 1
        /\ IMul(g, cert[1]) = a /\ IMul(g, cert[2]) = b
        /\ IAdd(IMul(cert[3], cert[1]), IMul(cert[4], cert[2])) = One
\* l = lcm(a, b) >= 0:  with g = gcd(a,b), b = g*y :  l = |a*y|   (cert = <<g, x, y, s, t>>)
LcmOK(a, b, l, cert) ==
   IF ISign(a) = 0 \/ ISign(b) = 0 THEN l = Zero
   ELSE GcdOK(a, b, cert[1], Tail(cert)) /\ l = IAbs(IMul(a, cert[3]))
\* n/d in lowest terms: s*n + t*d = 1   (cert = <<s, t>>)
Coprime(n, d, cert) == IAdd(IMul(cert[1], n), IMul(cert[2], <<0, d>>)) = One
\* s = floor(sqrt(n)), r = n - s^2
SqrtOK(n, s, r) == /\ ISign(n) >= 0 /\ ISign(s) >= 0 /\ ISign(r) >= 0
                   /\ IAdd(IMul(s, s), r) = n
                   /\ ILe(r, IAdd(s, s))                       \* n < (s+1)^2
\* integer parts of a rational n/d (d > 0)
FloorOK(q, f) == LET fd == IMul(f, DenI(q)) IN ILe(fd, q[1]) /\ ILt(q[1], IAdd(fd, DenI(q)))
CeilOK(q, f) == LET fd == IMul(f, DenI(q)) IN ILe(q[1], fd) /\ ILt(ISub(fd, DenI(q)), q[1])
TruncOK(q, f) == IF ISign(q[1]) >= 0 THEN FloorOK(q, f) ELSE CeilOK(q, f)
\* nearest integer, ties to even: |2(n - f d)| <= d, equality only for even f
RoundOK(q, f) == LET e2 == IAbs(IAdd(ISub(q[1], IMul(f, DenI(q))), ISub(q[1], IMul(f, DenI(q)))))
                     c == ICmp(e2, DenI(q))
                 IN c < 0 \/ (c = 0 /\ IIsEven(f))

\* ---- positional notation: Horner evaluation of a digit string (character codes) in a radix 2..36
DigitVal(c) == IF c >= 48 /\ c <= 57 THEN c - 48
               ELSE IF c >= 97 /\ c <= 122 THEN c - 87
               ELSE IF c >= 65 /\ c <= 90 THEN c - 55 ELSE 99
IsDigits(cs, radix) == Len(cs) > 0 /\ \A i \in 1..Len(cs) : DigitVal(cs[i]) < radix
Horner(cs, radix) == FoldLeft(LAMBDA acc, c : MulAddSmall(acc, radix, DigitVal(c)), <<>>, cs)
\* [+-] digits [ / digits ]  denotes the rational q
IndexOf(cs, ch) == FoldLeft(LAMBDA m, i : IF m = 0 /\ cs[i] = ch THEN i ELSE m, 0, Idx(Len(cs)))
Denotes(cs, radix, q) ==
   /\ Len(cs) > 0
   /\ LET neg == cs[1] = 45
          body == IF cs[1] \in {43, 45} THEN Tail(cs) ELSE cs
          sl == IndexOf(body, 47)
          ns == IF sl = 0 THEN body ELSE SubSeq(body, 1, sl - 1)
          ds == IF sl = 0 THEN <<49>> ELSE SubSeq(body, sl + 1, Len(body))
      IN /\ IsDigits(ns, radix) /\ IsDigits(ds, radix)
         /\ LET d == Horner(ds, radix) IN
            /\ Len(d) > 0
            /\ QEq(<<MkInt(IF neg THEN 1 ELSE 0, Horner(ns, radix)), d>>, q)
=======================================================================
