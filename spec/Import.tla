------------------------------ MODULE Import ------------------------------
(* C14 -- library imports expose exactly the requested bindings and nothing else.

   R7RS 5.2 / 5.6 as set algebra.  A library graph is a sequence of library records

      Graph[l] = [ imports |-> << import set, ... >>,          \* over libraries < l (no cycles)
                   defs    |-> << <<name, kind>>, ... >>,      \* definitions of the body
                   exports |-> << <<external, internal>>, ... >> ]   \* (export x) = <<x,x>>, (export (rename i e)) = <<e,i>>

   A *binding* is <<library, internal name>> : the definition of that name in that library's body.  It is
   a LOCATION: it holds a current value, which the defining library may assign (while its body runs and
   later, through procedures it exports); an importer never gets a copy.
   An import set denotes a finite map  visible name -> binding  (Names).  Identifiers are strings.

   defs entries are <<name, kind, arg, code>>:
      "var"  arg = what it holds: "list" (heap value) | "fix" | "char" | "bool" (immediates), code = unique number
      "proc" "mac"   compute their tag through the private helper          "priv"  never exported
      "tick"         counts its calls in a private variable
      "bump"         assigns every variable of its library (version + 1) and returns the new version
      "rd"           arg = an identifier in the library's scope that denotes a variable: returns its current value
      "relay"        arg = an identifier in scope that denotes some library's bump: calls it (a third library mutates)

   import sets (tagged tuples, exactly the JSON arrays the harness renders to Scheme):
      <<"lib", l>>  <<"only", s, <<id..>>>>  <<"except", s, <<id..>>>>  <<"rename", s, <<<<from,to>>..>>>>
      <<"prefix", s, p>>  <<"drop", s, p>>        (drop = chibi's drop-prefix, the inverse of prefix)

   Only cases whose meaning R7RS fixes are well-formed (WF): every identifier named by only / except /
   rename occurs in the inner set ("it is an error" otherwise), a rename produces no clash, drop-prefix
   is applied only where every name carries the prefix.

   Two independent formulations are given and model checked against each other (ImportMC.tla):
   Names (forward: transform the whole map, innermost first) and Lookup (backward: resolve one visible
   name from the outside in). *)
EXTENDS Integers, Sequences, FiniteSets, TLC, SequencesExt

CONSTANT Graph

Libs == 1..Len(Graph)
Rng(s) == {s[i] : i \in DOMAIN s}
NoDup(s) == Cardinality(Rng(s)) = Len(s)
None == <<>>
Kinds == {"var", "proc", "mac", "tick", "priv", "bump", "rd", "relay"}
VKinds == {"list", "fix", "char", "bool"}

Lib(l) == <<"lib", l>>
Only(s, ids) == <<"only", s, ids>>
Except(s, ids) == <<"except", s, ids>>
Rename(s, pairs) == <<"rename", s, pairs>>
Prefix(s, p) == <<"prefix", s, p>>
Drop(s, p) == <<"drop", s, p>>

\* TLC keeps [x \in S |-> e] as an unevaluated closure and re-evaluates e at every application; @@ (a Java
\* operator) yields the explicit function.  Without it the nested maps below cost exponential time.
Force(f) == f @@ <<>>
HasPrefix(n, p) == Len(n) > Len(p) /\ SubSeq(n, 1, Len(p)) = p
Strip(n, p) == SubSeq(n, Len(p) + 1, Len(n))

RECURSIVE Base(_)
Base(e) == IF e[1] = "lib" THEN e[2] ELSE Base(e[2])
RECURSIVE Depth(_)
Depth(e) == IF e[1] = "lib" THEN 0 ELSE 1 + Depth(e[2])

(* ---------------- forward formulation; T = export maps of the libraries already known ------------- *)
RECURSIVE NamesG(_, _)
NamesG(T, e) ==
   IF e[1] = "lib" THEN T[e[2]]
   ELSE LET S == NamesG(T, e[2])
            D == DOMAIN S
        IN Force(
           CASE e[1] = "only"   -> [n \in D \cap Rng(e[3]) |-> S[n]]
             [] e[1] = "except" -> [n \in D \ Rng(e[3]) |-> S[n]]
             [] e[1] = "rename" -> LET P == Rng(e[3])
                                       Froms == {p[1] : p \in P}
                                       Tos == {p[2] : p \in P}
                                   IN [n \in (D \ Froms) \cup Tos |->
                                         IF n \in Tos THEN S[(CHOOSE p \in P : p[2] = n)[1]] ELSE S[n]]
             [] e[1] = "prefix" -> [n \in {e[3] \o m : m \in D} |-> S[Strip(n, e[3])]]
             [] e[1] = "drop"   -> [n \in {Strip(m, e[3]) : m \in D} |-> S[e[3] \o n]])

RECURSIVE WFG(_, _)
WFG(T, e) ==
   IF e[1] = "lib" THEN Len(e) = 2 /\ e[2] \in DOMAIN T
   ELSE /\ Len(e) = 3
        /\ WFG(T, e[2])
        /\ LET D == DOMAIN NamesG(T, e[2])
           IN CASE e[1] \in {"only", "except"} -> NoDup(e[3]) /\ Rng(e[3]) \subseteq D
                [] e[1] = "rename" -> LET P == Rng(e[3])
                                          Froms == {p[1] : p \in P}
                                          Tos == {p[2] : p \in P}
                                      IN /\ NoDup(e[3])
                                         /\ Cardinality(Froms) = Len(e[3])     \* one rename per identifier
                                         /\ Cardinality(Tos) = Len(e[3])       \* no two renamed to one name
                                         /\ Froms \subseteq D
                                         /\ Tos \cap (D \ Froms) = {}         \* no clash with a kept name
                [] e[1] = "prefix" -> Len(e[3]) >= 1
                [] e[1] = "drop"   -> Len(e[3]) >= 1 /\ \A m \in D : HasPrefix(m, e[3])
                [] OTHER -> FALSE

(* ---------------- backward formulation: what does visible name n denote? -------------------------- *)
RECURSIVE LookupG(_, _, _)
LookupG(T, e, n) ==
   CASE e[1] = "lib"    -> IF n \in DOMAIN T[e[2]] THEN T[e[2]][n] ELSE None
     [] e[1] = "only"   -> IF n \in Rng(e[3]) THEN LookupG(T, e[2], n) ELSE None
     [] e[1] = "except" -> IF n \in Rng(e[3]) THEN None ELSE LookupG(T, e[2], n)
     [] e[1] = "rename" -> (IF \E p \in Rng(e[3]) : p[2] = n
                              THEN LookupG(T, e[2], (CHOOSE p \in Rng(e[3]) : p[2] = n)[1])
                            ELSE IF \E p \in Rng(e[3]) : p[1] = n THEN None
                            ELSE LookupG(T, e[2], n))
     [] e[1] = "prefix" -> IF HasPrefix(n, e[3]) THEN LookupG(T, e[2], Strip(n, e[3])) ELSE None
     [] e[1] = "drop"   -> LookupG(T, e[2], e[3] \o n)

(* ---------------- libraries ------------------------------------------------------------------------ *)
DefNames(l) == {d[1] : d \in Rng(Graph[l].defs)}
Def(b) == CHOOSE d \in Rng(Graph[b[1]].defs) : d[1] = b[2]
Kind(b) == Def(b)[2]
\* union of several import sets (of one library / one program): a visible name may arrive twice only with one binding
MergeOK(maps) == \A i, j \in DOMAIN maps : \A n \in (DOMAIN maps[i]) \cap (DOMAIN maps[j]) : maps[i][n] = maps[j][n]
Merge(maps) == Force([n \in UNION {DOMAIN maps[i] : i \in DOMAIN maps} |->
                  maps[CHOOSE i \in DOMAIN maps : n \in DOMAIN maps[i]][n]])
ImportMaps(T, l) == Force([i \in DOMAIN Graph[l].imports |-> NamesG(T, Graph[l].imports[i])])
ImportedG(T, l) == Merge(ImportMaps(T, l))
\* the binding an identifier denotes inside the body of library l
ExportsG(T, l) ==
   LET Imp == ImportedG(T, l)
       X == Rng(Graph[l].exports)
   IN Force([x \in {p[1] : p \in X} |->
         LET i == (CHOOSE p \in X : p[1] = x)[2] IN IF i \in DefNames(l) THEN <<l, i>> ELSE Imp[i]])
LibWFG(T, l) ==
   /\ \A i \in DOMAIN Graph[l].imports : WFG(T, Graph[l].imports[i])
   /\ MergeOK(ImportMaps(T, l))
   /\ NoDup([i \in DOMAIN Graph[l].defs |-> Graph[l].defs[i][1]])
   /\ \A d \in Rng(Graph[l].defs) : Len(d) = 4 /\ d[2] \in Kinds
   /\ \A d \in Rng(Graph[l].defs) : d[2] = "var" => d[3] \in VKinds /\ d[4] \in 1..249
   /\ \A d \in Rng(Graph[l].defs) : d[2] \in {"rd", "relay"} =>
          /\ d[3] \in DefNames(l) \cup DOMAIN ImportedG(T, l)
          /\ LET b == IF d[3] \in DefNames(l) THEN <<l, d[3]>> ELSE ImportedG(T, l)[d[3]]
             IN Kind(b) = (IF d[2] = "rd" THEN "var" ELSE "bump")
   /\ DefNames(l) \cap DOMAIN ImportedG(T, l) = {}          \* redefining an imported name is an error
   /\ NoDup([i \in DOMAIN Graph[l].exports |-> Graph[l].exports[i][1]])
   /\ \A p \in Rng(Graph[l].exports) : p[2] \in DefNames(l) \cup DOMAIN ImportedG(T, l)
   /\ \A p \in Rng(Graph[l].exports) : \A d \in Rng(Graph[l].defs) : d[1] = p[2] => d[2] # "priv"

\* export maps of all libraries, built bottom-up (library l may import only from libraries < l)
ExpTab == FoldLeft(LAMBDA T, l : Append(T, ExportsG(T, l)), <<>>, [l \in Libs |-> l])
VarDefs == UNION {{<<l, d>> : d \in {x \in Rng(Graph[l].defs) : x[2] = "var"}} : l \in Libs}
GraphWF == /\ \A l \in Libs : LibWFG(SubSeq(ExpTab, 1, l - 1), l)
           /\ \A x, y \in VarDefs : x[2][4] = y[2][4] => x = y          \* the codes identify the variables

\* (TLC re-evaluates ExpTab at every use: state machines keep it in a variable and use the ...G operators)
Names(e) == NamesG(ExpTab, e)
WF(e) == WFG(ExpTab, e)
Lookup(e, n) == LookupG(ExpTab, e, n)
Exports(l) == ExpTab[l]
Bindings == UNION {{<<l, n>> : n \in DefNames(l)} : l \in Libs}
\* the binding an identifier denotes inside the body of library l
BindInG(T, l, n) == IF n \in DefNames(l) THEN <<l, n>> ELSE ImportedG(SubSeq(T, 1, l - 1), l)[n]
\* the value location b holds after its library's variables have been assigned v times by the library itself
\* (one shape per class of value so that TLC can compare them: heap values carry library, name and version)
Val(b, v) == LET d == Def(b) IN
             CASE d[3] = "list" -> <<b[1], b[2], v>>
               [] d[3] = "fix"  -> <<"fix", d[4] * 100000 + v, 0, 0>>
               [] d[3] = "char" -> <<"char", 65536 + d[4] * 4096 + (v % 4096), 0, 0>>
               [] d[3] = "bool" -> <<"bool", v % 2, 0, 0>>
Immediate(b) == Def(b)[3] \in {"fix", "char", "bool"}

\* a program / environment imports several sets at once
SetsWFG(T, sets) == /\ \A i \in DOMAIN sets : WFG(T, sets[i])
                    /\ MergeOK(Force([i \in DOMAIN sets |-> NamesG(T, sets[i])]))
VisibleG(T, sets) == Merge(Force([i \in DOMAIN sets |-> NamesG(T, sets[i])]))
SetsWF(sets) == SetsWFG(ExpTab, sets)
Visible(sets) == VisibleG(ExpTab, sets)

\* instantiation: a library's body runs after the bodies of the libraries it imports
Deps(l) == {Base(Graph[l].imports[i]) : i \in DOMAIN Graph[l].imports}
RECURSIVE Closure(_)
Closure(l) == {l} \cup UNION {Closure(d) : d \in Deps(l)}
Needed(sets) == UNION {Closure(Base(sets[i])) : i \in DOMAIN sets}

\* every identifier mentioned anywhere in the graph (definitions incl. private ones, exported names)
GraphNamesG(T) == UNION {DefNames(l) \cup DOMAIN T[l] : l \in Libs}
GraphNames == GraphNamesG(ExpTab)
=============================================================================
