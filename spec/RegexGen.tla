---------------------------- MODULE RegexGen ----------------------------
(* C20 case generation, exhaustive part: the state space of RegexMC (every SRE of the bounded
   grammar x every subject over Sigma up to MaxLen) is enumerated by TLC and every state is
   written out as one conformance case  CASE [sre, subject]  (sets become JSON arrays).
   SREs outside Regex!Tractable (huge classes inside w/nocase: minutes of compile time) are skipped. *)
EXTENDS RegexMC, Json
Dump == Tractable(r) => PrintT(<<"CASE", ToJson(<<r, s>>)>>)
=========================================================================
