SPECIFICATION TraceSpec
CONSTANTS
  Ids <- TIds
  NoId = 0
  Menu <- TMenu
  InitSeg = 8
  GrowSizes = {}
  MaxSegs = 64
  NRegs = 8
  TiedRegs = FALSE
  MaxSaves = 64
  AllowTmp = FALSE
  FirstFitOnly = FALSE
INVARIANTS TypeOK Tiling FreeSorted RefsValid NoPrematureFree HeldValid NoLeak FinalizeOnlyDead EphSound EphBrokenAfterCollect
POSTCONDITION TraceAccepted
CHECK_DEADLOCK FALSE
