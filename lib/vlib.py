"""Shared machinery for the chibi-scheme TLA+ verification checks.

build-from-tree, TLC runner, evidence writer, known findings, trace helpers.
"""
import json, os, re, shutil, subprocess, sys, time, hashlib, random, tempfile

VERIF = os.path.dirname(os.path.dirname(os.path.abspath(__file__)))
REPO = os.environ.get("VERIF_REPO", "/repo")
SPEC = os.path.join(VERIF, "spec")
JAR = "/opt/veriftools/tla/tla2tools.jar"
CM = "/opt/veriftools/tla/CommunityModules-deps.jar"
NCPU = os.cpu_count() or 4


class Broken(Exception):
    """The machinery (not the property) failed: exit 2, never a VIOLATION line."""


class Violation(Exception):
    def __init__(self, msg, replay=None, key=None):
        Exception.__init__(self, msg)
        self.replay = replay
        self.key = key


# --------------------------------------------------------------------------
# scratch space
# --------------------------------------------------------------------------
class Scratch:
    def __init__(self, tag):
        base = os.environ.get("VERIF_SCRATCH", "/var/tmp")
        self.path = os.path.join(base, "verif-%s-%d" % (tag, os.getpid()))

    def __enter__(self):
        shutil.rmtree(self.path, ignore_errors=True)
        os.makedirs(self.path)
        return self

    def __exit__(self, *a):
        if not os.environ.get("VERIF_KEEP"):
            shutil.rmtree(self.path, ignore_errors=True)

    def sub(self, name):
        p = os.path.join(self.path, name)
        os.makedirs(p, exist_ok=True)
        return p

    def file(self, name):
        return os.path.join(self.path, name)


# --------------------------------------------------------------------------
# building the implementation under test from /repo's working tree
# --------------------------------------------------------------------------
def limit_files():
    """a run-away implementation under test must not fill the disk with trace output (SIGXFSZ = crash)"""
    import resource
    resource.setrlimit(resource.RLIMIT_FSIZE, (1 << 30, 1 << 30))


class Build:
    def __init__(self, path):
        self.path = path
        self.exe = os.path.join(path, "chibi-scheme")
        self.lib = os.path.join(path, "lib")
        self.extra_mod = []

    def env(self, extra=None):
        e = dict(os.environ)
        e["LD_LIBRARY_PATH"] = self.path
        e["CHIBI_IGNORE_SYSTEM_PATH"] = "1"
        e["CHIBI_MODULE_PATH"] = ":".join(self.extra_mod + [self.lib, REPO + "/lib"])
        for k in list(e):
            if k.startswith("CHIBI_VERIF"):
                del e[k]
        if extra:
            e.update(extra)
        return e

    def cmd(self, *args, heap=None):
        c = [self.exe]
        if heap:
            c += ["-h", str(heap)]
        return c + list(args)

    def run(self, args, env=None, timeout=60, stdin=None, cwd=None, noaslr=False):
        c = self.cmd(*args)
        if noaslr:
            c = ["setarch", "-R"] + c
        return subprocess.run(c, env=self.env(env), timeout=timeout, input=stdin, preexec_fn=limit_files,
                              stdout=subprocess.PIPE, stderr=subprocess.PIPE, cwd=cwd or REPO)


def build_repo(dest, cflags="", verif=True, targets=("chibi-scheme", "chibi-compiled-libs"), jobs=None, cc=None, ldflags=""):
    """Configure and build /repo's current working tree out of tree.  Nothing is written into /repo."""
    flags = "-Wno-error " + ("-DCHIBI_VERIF=1 " if verif else "") + cflags
    t0 = time.time()
    extra = ["-DCMAKE_SHARED_LINKER_FLAGS=" + ldflags, "-DCMAKE_EXE_LINKER_FLAGS=" + ldflags, "-DCMAKE_MODULE_LINKER_FLAGS=" + ldflags] if ldflags else []
    r = subprocess.run(["cmake", "-G", "Ninja", "-S", REPO, "-B", dest, "-DCMAKE_BUILD_TYPE=RelWithDebInfo",
                        "-DCMAKE_C_FLAGS=" + flags] + extra, env=dict(os.environ, CC=cc) if cc else None, stdout=subprocess.PIPE, stderr=subprocess.STDOUT)
    if r.returncode != 0:
        raise Broken("cmake configure failed:\n" + r.stdout.decode(errors="replace")[-2000:])
    try:
        r = subprocess.run(["ninja", "-C", dest] + (["-j", str(jobs)] if jobs else []) + list(targets),
                           stdout=subprocess.PIPE, stderr=subprocess.STDOUT, timeout=1500)
    except subprocess.TimeoutExpired:
        subprocess.run(["pkill", "-9", "-f", dest + "/chibi-scheme"])
        raise Broken("build of /repo did not finish within 25 min (the interpreter runs during the build: it probably hangs)")
    if r.returncode != 0:
        raise Broken("build of /repo failed:\n" + r.stdout.decode(errors="replace")[-3000:])
    b = Build(dest)
    b.seconds = time.time() - t0
    return b


def compile_c(build, src, out, extra=(), shared=False, cc="cc", verif=True):
    """Compile a C harness against /repo's headers and the scratch libchibi-scheme."""
    cmd = [cc, "-O1", "-g"] + (["-DCHIBI_VERIF=1"] if verif else []) + [ "-DSEXP_USE_DL=1", "-DSEXP_USE_INTTYPES=0", "-DSEXP_USE_NTPGETTIME=1",
           "-I", os.path.join(REPO, "include"), "-I", os.path.join(build.path, "include")]
    if shared:
        cmd += ["-shared", "-fPIC"]
    cmd += [src, "-o", out, "-L", build.path, "-lchibi-scheme", "-lm", "-ldl", "-Wl,-rpath," + build.path] + list(extra)
    r = subprocess.run(cmd, stdout=subprocess.PIPE, stderr=subprocess.STDOUT)
    if r.returncode != 0:
        raise Broken("harness compile failed (%s):\n%s" % (src, r.stdout.decode(errors="replace")[-3000:]))
    return out


def build_probe(build, sc):
    """Build the (verif probe) foreign library in scratch space and put it on the module path."""
    mod = sc.sub("mod")
    d = os.path.join(mod, "verif")
    os.makedirs(d, exist_ok=True)
    src = os.path.join(VERIF, "harness", "probe", "verif")
    shutil.copy(os.path.join(src, "probe.sld"), d)
    compile_c(build, os.path.join(src, "probe.c"), os.path.join(d, "probe.so"), shared=True)
    if mod not in build.extra_mod:
        build.extra_mod.insert(0, mod)
    return mod


# --------------------------------------------------------------------------
# TLC
# --------------------------------------------------------------------------
class TLCResult:
    def __init__(self):
        self.rc = None
        self.out = ""
        self.generated = 0
        self.distinct = 0
        self.depth = 0
        self.violated = None      # name of violated invariant / property
        self.error = None         # tool / spec error text
        self.coverage = {}        # action -> (taken, generated)
        self.seconds = 0.0
        self.trace = []           # list of state texts on violation

    @property
    def ok(self):
        return self.rc == 0 and not self.violated and not self.error

    def summary(self):
        return dict(rc=self.rc, generated=self.generated, distinct=self.distinct, depth=self.depth,
                    violated=self.violated, error=(self.error or "")[:300], seconds=round(self.seconds, 2))


def run_tlc(module, cfg, workdir, env=None, workers=None, simulate=None, depth=None, seed=None,
            coverage=False, timeout=900, heap="8g", deadlock=True, dfs=False, extra=(), continue_=False, cwd=None):
    """Run TLC on spec/<module>.tla with spec/<cfg>.  workdir gets the metadir.  Returns TLCResult."""
    res = TLCResult()
    meta = tempfile.mkdtemp(prefix="tlc-", dir=workdir)
    java = ["java", "-XX:+UseParallelGC", "-Xss512m", "-Xmx" + heap]
    if dfs:
        java.append("-Dtlc2.tool.queue.IStateQueue=StateDeque")
    cmd = java + ["-cp", JAR + ":" + CM, "tlc2.TLC", "-noGenerateSpecTE", "-metadir", meta,
                  "-workers", str(workers or NCPU), "-config", cfg]
    if not deadlock:
        cmd.append("-deadlock")
    if coverage:
        cmd += ["-coverage", "1"]
    if simulate:
        cmd += ["-simulate", "num=%d" % simulate]
        if depth:
            cmd += ["-depth", str(depth)]
    if seed is not None:
        cmd += ["-seed", str(seed)]
    if continue_:
        cmd.append("-continue")
    cmd += list(extra) + [module]
    e = dict(os.environ)
    if env:
        e.update({k: str(v) for k, v in env.items()})
    t0 = time.time()
    try:
        p = subprocess.run(cmd, cwd=cwd or SPEC, env=e, stdout=subprocess.PIPE, stderr=subprocess.STDOUT, timeout=timeout)
        res.rc = p.returncode
        res.out = p.stdout.decode(errors="replace")
    except subprocess.TimeoutExpired as ex:
        res.rc = -9
        res.out = (ex.stdout or b"").decode(errors="replace")
        res.error = "TLC timeout after %ds" % timeout
    res.seconds = time.time() - t0
    shutil.rmtree(meta, ignore_errors=True)
    out = res.out
    m = re.findall(r"(\d+) states generated, (\d+) distinct states found", out)
    if m:
        res.generated, res.distinct = int(m[-1][0]), int(m[-1][1])
    m = re.search(r"The depth of the complete state graph search is (\d+)", out)
    if m:
        res.depth = int(m.group(1))
    m = re.search(r"Invariant (\S+) is violated", out)
    if m:
        res.violated = m.group(1)
    m = re.search(r"Temporal properties were violated|Action property (\S+) is violated|Error: Deadlock reached", out)
    if m and not res.violated:
        res.violated = m.group(1) or ("Deadlock" if "Deadlock" in m.group(0) else "TemporalProperty")
    if res.rc not in (0, -9) and not res.violated:
        m = re.search(r"(Error:.*?)(?:\n\n|\Z)", out, re.S)
        res.error = (m.group(1) if m else out[-1500:])
    if "Parsing or semantic analysis failed" in out or "*** Errors:" in out:
        res.error = "parse error:\n" + out[-2500:]
    if "Error: The behavior up to this point is" in out or "Error: The following behavior" in out:
        res.trace = re.findall(r"State \d+:.*?(?=\nState \d+:|\n\d+ states generated|\Z)", out, re.S)
    if coverage:
        for m in re.finditer(r"<(\w+) line (\d+), col \d+ to line \d+, col \d+ of module (\w+)>: (\d+):(\d+)", out):
            name = m.group(1)
            t, g = int(m.group(4)), int(m.group(5))
            a = res.coverage.get(name, (0, 0))
            res.coverage[name] = (a[0] + t, a[1] + g)
    return res


def require_tlc_ok(r, what):
    if r.error:
        raise Broken("%s: TLC failed: %s" % (what, r.error[:3000]))
    return r


def check_coverage(r, required, what):
    """Vacuity guard: every required action must have been taken at least once."""
    missing = [a for a in required if r.coverage.get(a, (0, 0))[0] == 0]
    if missing:
        raise Broken("%s: vacuous model run, actions never taken: %s" % (what, missing))


# --------------------------------------------------------------------------
# trace files
# --------------------------------------------------------------------------
def read_ndjson(path):
    out = []
    if not os.path.exists(path):
        return out
    with open(path, errors="replace") as f:
        for line in f:
            line = line.strip()
            if not line:
                continue
            try:
                out.append(json.loads(line))
            except ValueError:
                out.append({"e": "Garbled", "raw": line[:200]})
    return out


def write_ndjson(path, events):
    with open(path, "w") as f:
        for ev in events:
            f.write(json.dumps(ev, separators=(",", ":")) + "\n")


_sym_cache = {}


def resolve_frames(build, frames):
    """'libchibi-scheme.so.0+0x1234' -> function name using nm on the scratch build."""
    names = []
    for fr in frames:
        m = re.match(r"(.+)\+0x([0-9a-f]+)$", fr)
        if not m:
            names.append(fr)
            continue
        lib, off = m.group(1), int(m.group(2), 16)
        path = None
        for root, _, files in os.walk(build.path):
            if lib in files:
                path = os.path.realpath(os.path.join(root, lib))
                break
        if not path:
            names.append(fr)
            continue
        if path not in _sym_cache:
            out = subprocess.run(["nm", "-n", "--defined-only", path], stdout=subprocess.PIPE).stdout.decode()
            syms = []
            for line in out.splitlines():
                p = line.split()
                if len(p) == 3 and p[1] in "tTwW":
                    syms.append((int(p[0], 16), p[2]))
            _sym_cache[path] = syms
        best = fr
        for a, n in _sym_cache[path]:
            if a <= off:
                best = n
            else:
                break
        names.append(best)
    return names


# --------------------------------------------------------------------------
# known findings
# --------------------------------------------------------------------------
def load_known(prop):
    p = os.path.join(VERIF, "known-findings.json")
    if not os.path.exists(p):
        return {}
    data = json.load(open(p))
    return {f["key"]: f for f in data.get("findings", []) if f["property"] == prop and f.get("status", "open") == "open"}


# --------------------------------------------------------------------------
# check context: evidence, verdict
# --------------------------------------------------------------------------
class Check:
    def __init__(self, prop, level="model_checking"):
        self.prop = prop
        self.level = level
        self.tier = os.environ.get("VERIF_TIER", "quick")
        self.seed = int(os.environ.get("VERIF_SEED", "1") or 1)
        self.t0 = time.time()
        self.cov = {"states": 0, "transitions": 0, "traces_validated_against_impl": 0, "samples": [],
                    "evaluations": 0, "distinct_nontrivial": 0, "rule": "", "mc_runs": [], "exhaustive": False}
        self.assumptions = []
        self.violations = []      # (message, replay path, key)
        self.known_hits = []
        self.known = load_known(prop)
        self.rng = random.Random(self.seed)
        # VERIF_EVIDENCE: where evidence and replay files go (default /verif/evidence); runs against seeded changes set it to a
        # scratch directory so that the committed evidence always describes a run on /repo's own tree
        self.evidence_dir = os.environ.get("VERIF_EVIDENCE") or os.path.join(VERIF, "evidence")
        self.replay_dir = os.path.join(self.evidence_dir, "replay", prop)
        shutil.rmtree(self.replay_dir, ignore_errors=True)      # replay artefacts belong to one run

    @property
    def thorough(self):
        return self.tier == "thorough"

    def add_mc(self, name, r, exhaustive=True):
        self.cov["states"] += r.distinct
        self.cov["transitions"] += r.generated
        self.cov["mc_runs"].append(dict(name=name, **r.summary(), exhaustive=exhaustive,
                                        actions={k: v[0] for k, v in r.coverage.items()}))

    def sample(self, s, limit=6):
        if len(self.cov["samples"]) < limit:
            self.cov["samples"].append(s)

    def save_replay(self, name, content):
        os.makedirs(self.replay_dir, exist_ok=True)
        p = os.path.join(self.replay_dir, name)
        if isinstance(content, (dict, list)):
            content = json.dumps(content, indent=1)
        with open(p, "w") as f:
            f.write(content)
        return p

    def report(self, key, msg, replay_name, replay_content):
        """A rejection by the specification: known finding or violation."""
        if key in self.known:
            if key not in self.known_hits:
                self.known_hits.append(key)
            return False
        path = self.save_replay(replay_name, replay_content)
        self.violations.append((msg, path, key))
        return True

    def finish(self):
        wall = time.time() - self.t0
        ev = {"property_id": self.prop, "tier": self.tier, "seed": self.seed, "level": self.level,
              "coverage": self.cov, "assumptions": self.assumptions, "wall_s": round(wall, 2),
              "violations": len(self.violations), "known_findings_hit": self.known_hits}
        if not self.cov["samples"]:
            self.cov["samples"] = ["(no sample recorded)"]
        os.makedirs(self.evidence_dir, exist_ok=True)
        with open(os.path.join(self.evidence_dir, self.prop + ".json"), "w") as f:
            json.dump(ev, f, indent=1, default=str)
        for k in self.known_hits:
            print("KNOWN-FINDING: property=%s %s" % (self.prop, self.known[k].get("what", k)))
        for msg, path, key in self.violations:
            print("VIOLATION property=%s replay=%s" % (self.prop, path))
            print("  key=%s %s" % (key, msg))
        sys.stdout.flush()
        return 1 if self.violations else 0


def chunks(lst, n):
    for i in range(0, len(lst), n):
        yield lst[i:i + n]


def parallel(fn, items, jobs=None):
    from concurrent.futures import ThreadPoolExecutor
    with ThreadPoolExecutor(max_workers=jobs or NCPU) as ex:
        return list(ex.map(fn, items))
