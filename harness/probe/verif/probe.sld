(define-library (verif probe)
  (export verif-gc-schedule verif-alloc-count verif-emit verif-stack-top verif-stack-length
          verif-heap-total verif-reset-ids verif-set-slices verif-fixnum-bits verif-saves-depth)
  (import (scheme base))
  (include-shared "probe"))
