/* (verif probe) -- tiny foreign library built by the checks against /repo's headers.
   Gives Scheme drivers access to the guarded hooks (arm a GC schedule after the
   libraries are loaded, emit driver events into the same trace) and to a few
   scalars of the running context (stack top / length) for C05.  Not a repo change. */
#include <chibi/eval.h>

SEXP_API void sexp_verif_reset_ids (void);
SEXP_API void sexp_verif_set_slices (const char *spec);

static sexp probe_gc_schedule (sexp ctx, sexp self, sexp_sint_t n, sexp spec) {
  sexp_assert_type(ctx, sexp_stringp, SEXP_STRING, spec);
  sexp_verif_gc_schedule(sexp_string_data(spec));
  return SEXP_VOID;
}
static sexp probe_alloc_count (sexp ctx, sexp self, sexp_sint_t n) {
  return sexp_make_fixnum(sexp_verif_alloc_count());
}
static sexp probe_emit (sexp ctx, sexp self, sexp_sint_t n, sexp json) {
  sexp_assert_type(ctx, sexp_stringp, SEXP_STRING, json);
  sexp_verif_emit("%s", sexp_string_data(json));
  return SEXP_VOID;
}
static sexp probe_stack_top (sexp ctx, sexp self, sexp_sint_t n) {
  return sexp_make_fixnum(sexp_context_top(ctx));
}
static sexp probe_stack_length (sexp ctx, sexp self, sexp_sint_t n) {
  return sexp_make_fixnum(sexp_stack_length(sexp_context_stack(ctx)));
}
static sexp probe_heap_total (sexp ctx, sexp self, sexp_sint_t n) {
  sexp_heap h; sexp_uint_t t = 0;
  for (h = sexp_context_heap(ctx); h; h = h->next) t += h->size;
  return sexp_make_fixnum(t);
}
static sexp probe_reset_ids (sexp ctx, sexp self, sexp_sint_t n) {
  sexp_verif_reset_ids();
  return SEXP_VOID;
}
static sexp probe_set_slices (sexp ctx, sexp self, sexp_sint_t n, sexp spec) {
  sexp_assert_type(ctx, sexp_stringp, SEXP_STRING, spec);
  sexp_verif_set_slices(sexp_string_data(spec));
  return SEXP_VOID;
}
static sexp probe_fixnum_bits (sexp ctx, sexp self, sexp_sint_t n) {
  return sexp_make_fixnum(SEXP_FIXNUM_BITS);
}
static sexp probe_saves_depth (sexp ctx, sexp self, sexp_sint_t n) {
  struct sexp_gc_var_t *s; long k = 0;
  for (s = sexp_context_saves(ctx); s; s = s->next) k++;
  return sexp_make_fixnum(k);
}

sexp sexp_init_library (sexp ctx, sexp self, sexp_sint_t n, sexp env, const char* version, const sexp_abi_identifier_t abi) {
  if (!(sexp_version_compatible(ctx, version, sexp_version) && sexp_abi_compatible(ctx, abi, SEXP_ABI_IDENTIFIER)))
    return SEXP_ABI_ERROR;
  sexp_define_foreign(ctx, env, "verif-gc-schedule", 1, probe_gc_schedule);
  sexp_define_foreign(ctx, env, "verif-alloc-count", 0, probe_alloc_count);
  sexp_define_foreign(ctx, env, "verif-emit", 1, probe_emit);
  sexp_define_foreign(ctx, env, "verif-stack-top", 0, probe_stack_top);
  sexp_define_foreign(ctx, env, "verif-stack-length", 0, probe_stack_length);
  sexp_define_foreign(ctx, env, "verif-heap-total", 0, probe_heap_total);
  sexp_define_foreign(ctx, env, "verif-reset-ids", 0, probe_reset_ids);
  sexp_define_foreign(ctx, env, "verif-set-slices", 1, probe_set_slices);
  sexp_define_foreign(ctx, env, "verif-fixnum-bits", 0, probe_fixnum_bits);
  sexp_define_foreign(ctx, env, "verif-saves-depth", 0, probe_saves_depth);
  return SEXP_VOID;
}
