/* preserve.c -- drives sexp_preserve_object / sexp_release_object along a script and reports, after every full
   collection, which objects were reclaimed (observed through one ephemeron per object; the ephemerons live in a
   vector that is itself rooted).  Script lines:  A id words | P id | R id | C
   Objects are vectors referenced from nowhere but the preservation list (the C array holds them as raw pointers,
   which the precise collector does not see). */
#include <stdio.h>
#include <stdlib.h>
#include <string.h>
#include <chibi/eval.h>
#define MAXID 4096
int main (int argc, char **argv) {
  sexp ctx; static sexp raw[MAXID]; static char reported[MAXID];
  char line[128]; FILE *in; long id, w; int i, first;
  sexp_gc_var2(ephs, tmp);
  if (argc < 2) return 2;
  sexp_scheme_init();
  ctx = sexp_make_eval_context(NULL, NULL, NULL, 0, 0);
  sexp_gc_preserve2(ctx, ephs, tmp);
  ephs = sexp_make_vector(ctx, sexp_make_fixnum(MAXID), SEXP_FALSE);
  in = fopen(argv[1], "r");
  if (!in) return 2;
  while (fgets(line, sizeof(line), in)) {
    switch (line[0]) {
    case 'A':
      sscanf(line + 1, "%ld %ld", &id, &w);
      tmp = sexp_make_vector(ctx, sexp_make_fixnum(w), SEXP_ZERO);
      raw[id] = tmp;
      tmp = sexp_make_ephemeron(ctx, tmp, SEXP_TRUE);
      sexp_vector_data(ephs)[id] = tmp;
      tmp = SEXP_FALSE;
      printf("{\"e\":\"Alloc\",\"id\":%ld}\n", id);
      break;
    case 'P':
      sscanf(line + 1, "%ld", &id);
      sexp_preserve_object(ctx, raw[id]);
      printf("{\"e\":\"Preserve\",\"id\":%ld}\n", id);
      break;
    case 'R':
      sscanf(line + 1, "%ld", &id);
      sexp_release_object(ctx, raw[id]);
      printf("{\"e\":\"Release\",\"id\":%ld}\n", id);
      break;
    case 'C':
      sexp_gc(ctx, NULL);
      printf("{\"e\":\"Collect\",\"dead\":[");
      first = 1;
      for (i = 0; i < MAXID; i++)
        if (raw[i] && !reported[i] && sexp_pointerp(sexp_vector_data(ephs)[i]) && sexp_brokenp(sexp_vector_data(ephs)[i])) {
          printf("%s%d", first ? "" : ",", i); first = 0; reported[i] = 1;
        }
      printf("]}\n");
      break;
    }
    fflush(stdout);
  }
  printf("{\"e\":\"Done\"}\n");
  return 0;
}
