/* microheap.c -- replay driver for Heap.tla behaviours on the REAL allocator/collector.
 *
 * A stack-allocated dummy context (as sexp_bootstrap_context does) owns a heap of a
 * few chunks; sexp_alloc / sexp_gc / sexp_sweep / sexp_grow_heap are the real ones
 * from the tree under test.  The driver executes the actions of a behaviour produced
 * by TLC and RECORDS what the implementation did (projected state after every step);
 * it does not judge -- HeapTrace.tla does.
 *
 * usage: microheap <script> ; trace goes to $CHIBI_VERIF_TRACE
 * script lines:
 *   X initseg maxchunks        reset: fresh heap of initseg chunks
 *   A id kind size ns dk r     allocate (kind: node|data|eph|fin; dk: reg|save|none)
 *   T id slot v                obj[id].slots[slot] := v   (v = 0: immediate)
 *   R r v                      regs[r] := v
 *   P v                        push v on the saves stack (sexp_gc_preserve)
 *   O                          pop the saves stack (sexp_gc_release)
 *   C                          sexp_gc
 *   G n                        sexp_grow_heap(request n chunks)
 */
#include <stdio.h>
#include <stdlib.h>
#include <string.h>
#include <chibi/eval.h>

#define MAXID 64
#define NREGS 8
#define MAXSAVES 64
#define CH ((long)sexp_heap_align(1))

SEXP_API sexp_uint_t sexp_allocated_bytes (sexp ctx, sexp x);

static struct sexp_struct dummy;
static sexp d = &dummy;
static sexp ids[MAXID + 1];
static sexp regs[NREGS + 1];
static struct sexp_gc_var_t regvars[NREGS + 1];
static sexp saves[MAXSAVES];
static struct sexp_gc_var_t savevars[MAXSAVES];
static int nsaves = 0;
static sexp_uint_t fin_tag;
static char finlog[4096];
static size_t finlog_len = 0;
static long last_gc_count = 0;

static int seg_of (void *p, long *off) {
  sexp_heap h; int i = 0;
  for (h = sexp_context_heap(d); h; h = h->next, i++)
    if ((char*)p >= (char*)h->data && (char*)p < (char*)h->data + h->size) {
      *off = ((char*)p - (char*)h->data) / CH; return i;
    }
  *off = -1; return -1;
}

static sexp fin_finalizer (sexp ctx, sexp self, sexp_sint_t n, sexp x) {
  long off; int s = seg_of(x, &off);
  finlog_len += snprintf(finlog + finlog_len, sizeof(finlog) - finlog_len, "%s[%d,%ld]", finlog_len ? "," : "", s, off);
  return SEXP_VOID;
}

static size_t put_addr (char *buf, size_t len, sexp v) {
  long off; int s;
  if (!v || !sexp_pointerp(v)) return snprintf(buf, len, "[-1,-1]");
  s = seg_of(v, &off);
  if (s < 0) return snprintf(buf, len, "[-2,-2]");
  return snprintf(buf, len, "[%d,%ld]", s, off);
}

/* projected state: segments, free lists, every object with its slots as addresses, roots */
static char stbuf[1 << 16];
static const char* state (void) {
  size_t o = 0, len = sizeof(stbuf); sexp_heap h; sexp_free_list r; int si, first, j, n; sexp p, end, *v;
  o += snprintf(stbuf+o, len-o, "\"segs\":[");
  for (h = sexp_context_heap(d), si = 0; h; h = h->next, si++) o += snprintf(stbuf+o, len-o, "%s%ld", si ? "," : "", (long)(h->size / CH));
  o += snprintf(stbuf+o, len-o, "],\"free\":[");
  for (h = sexp_context_heap(d), si = 0, first = 1; h; h = h->next, si++)
    for (r = h->free_list->next; r && o + 64 < len; r = r->next, first = 0)
      o += snprintf(stbuf+o, len-o, "%s[%d,%ld,%ld]", first ? "" : ",", si, (long)(((char*)r - (char*)h->data) / CH), (long)(r->size / CH));
  o += snprintf(stbuf+o, len-o, "],\"objs\":[");
  for (h = sexp_context_heap(d), si = 0, first = 1; h; h = h->next, si++) {
    p = sexp_heap_first_block(h); end = sexp_heap_end(h); r = h->free_list->next;
    while (p < end && o + 256 < len) {
      while (r && (char*)r < (char*)p) r = r->next;
      if ((char*)r == (char*)p) { p = (sexp)((char*)p + r->size); continue; }
      {
        size_t size = sexp_heap_align(sexp_allocated_bytes(d, p));
        const char *kind = "other";
        if (size == 0) break;
        n = 0; v = NULL;
        if (sexp_vectorp(p)) { kind = "node"; n = sexp_vector_length(p); v = sexp_vector_data(p); }
        else if (sexp_bytesp(p)) kind = "data";
        else if (sexp_pointer_tag(p) == SEXP_EPHEMERON) { kind = "eph"; n = 2; v = &sexp_ephemeron_key(p); }
        else if (sexp_pointer_tag(p) == fin_tag) kind = "fin";
        o += snprintf(stbuf+o, len-o, "%s[%d,%ld,%ld,\"%s\",%d,[", first ? "" : ",", si,
                      (long)(((char*)p - (char*)h->data) / CH), (long)(size / CH), kind, (int)sexp_brokenp(p));
        for (j = 0; j < n && o + 64 < len; j++) { if (j) stbuf[o++] = ','; o += put_addr(stbuf+o, len-o, v[j]); }
        o += snprintf(stbuf+o, len-o, "]]");
        first = 0;
        p = (sexp)((char*)p + size);
      }
    }
  }
  o += snprintf(stbuf+o, len-o, "],\"regs\":[");
  for (j = 1; j <= NREGS; j++) { if (j > 1) stbuf[o++] = ','; o += put_addr(stbuf+o, len-o, regs[j]); }
  o += snprintf(stbuf+o, len-o, "],\"saves\":[");
  for (j = 0; j < nsaves; j++) { if (j) stbuf[o++] = ','; o += put_addr(stbuf+o, len-o, saves[j]); }
  o += snprintf(stbuf+o, len-o, "]");
  return stbuf;
}

static void emit_fin_if_gc (void) {
  if ((long)sexp_context_gc_count(d) != last_gc_count) {
    last_gc_count = sexp_context_gc_count(d);
    sexp_verif_emit("\"e\":\"Fin\",\"fin\":[%s]", finlog);
    finlog_len = 0; finlog[0] = 0;
  }
}

static void reset_heap (long initseg, long maxchunks) {
  sexp_heap h, next; int j;
  sexp globals = sexp_context_globals(d);
  for (h = sexp_context_heap(d); h; h = next) { next = h->next; sexp_free_heap(h); }
  memset(&dummy, 0, sizeof(dummy));
  sexp_pointer_tag(d) = SEXP_CONTEXT;
  sexp_context_globals(d) = globals;
  sexp_context_heap(d) = sexp_make_heap(initseg * CH, maxchunks * CH, 0);
  memset(ids, 0, sizeof(ids));
  nsaves = 0; finlog_len = 0; finlog[0] = 0; last_gc_count = 0;
  /* registers = permanently registered C locals at the bottom of the saves list */
  for (j = 1; j <= NREGS; j++) {
    regs[j] = SEXP_FALSE;
    regvars[j].var = &regs[j];
    regvars[j].next = sexp_context_saves(d);
    sexp_context_saves(d) = &regvars[j];
  }
  sexp_verif_emit("\"e\":\"Reset\",\"init\":%ld,\"max\":%ld,%s", initseg, maxchunks, state());
}

int main (int argc, char **argv) {
  sexp ctx, t; FILE *in; char line[256], kind[16], dk[16]; long a, b, c, e; int id;
  sexp_gc_var1(name);
  if (argc < 2) { fprintf(stderr, "usage: microheap script\n"); return 2; }
  sexp_scheme_init();
  ctx = sexp_make_eval_context(NULL, NULL, NULL, 0, 0);
  sexp_gc_preserve1(ctx, name);
  name = sexp_c_string(ctx, "verif-fin", -1);
  t = sexp_register_type(ctx, name, SEXP_FALSE, SEXP_FALSE, SEXP_ZERO, SEXP_ZERO, SEXP_ZERO, SEXP_ZERO, SEXP_ZERO,
                         sexp_make_fixnum(sexp_sizeof_header + sizeof(sexp)), SEXP_ZERO, SEXP_ZERO,
                         SEXP_ZERO, SEXP_ZERO, SEXP_ZERO, SEXP_ZERO, SEXP_ZERO, NULL, "fin_finalizer", (sexp_proc2)fin_finalizer);
  if (!sexp_typep(t)) { fprintf(stderr, "cannot register type\n"); return 2; }
  fin_tag = sexp_type_tag(t);
  memset(&dummy, 0, sizeof(dummy));
  sexp_pointer_tag(d) = SEXP_CONTEXT;
  sexp_context_globals(d) = sexp_context_globals(ctx);
  /* from here on the real context is never used again (its mark bits get dirty) */
  in = fopen(argv[1], "r");
  if (!in) { perror(argv[1]); return 2; }
  while (fgets(line, sizeof(line), in)) {
    switch (line[0]) {
    case 'X':
      sscanf(line + 1, "%ld %ld", &a, &b);
      reset_heap(a, b);
      break;
    case 'A': {
      sexp res = NULL; long off; int s;
      if (sscanf(line + 1, "%d %15s %ld %ld %15s %ld", &id, kind, &a, &b, dk, &c) != 6) break;
      sexp_markedp(d) = 0;
      if (!strcmp(kind, "node")) res = sexp_make_vector(d, sexp_make_fixnum(b), SEXP_FALSE);
      else if (!strcmp(kind, "data")) res = sexp_make_bytes(d, sexp_make_fixnum(a * CH - sexp_sizeof(bytes) - 1), SEXP_VOID);
      else if (!strcmp(kind, "eph")) res = sexp_make_ephemeron(d, SEXP_FALSE, SEXP_FALSE);
      else if (!strcmp(kind, "fin")) res = sexp_alloc_tagged(d, sexp_sizeof_header + sizeof(sexp), fin_tag);
      emit_fin_if_gc();
      if (!res || sexp_exceptionp(res)) {
        sexp_verif_emit("\"e\":\"AllocFail\",\"id\":%d,\"kind\":\"%s\",\"size\":%ld,\"ns\":%ld,%s", id, kind, a, b, state());
        break;
      }
      ids[id] = res;
      if (!strcmp(dk, "reg")) regs[c] = res;
      else if (!strcmp(dk, "save") && nsaves < MAXSAVES) {
        saves[nsaves] = res; savevars[nsaves].var = &saves[nsaves];
        savevars[nsaves].next = sexp_context_saves(d); sexp_context_saves(d) = &savevars[nsaves]; nsaves++;
      }
      s = seg_of(res, &off);
      sexp_verif_emit("\"e\":\"Alloc\",\"id\":%d,\"kind\":\"%s\",\"size\":%ld,\"ns\":%ld,\"dk\":\"%s\",\"r\":%ld,\"seg\":%d,\"off\":%ld,%s",
                      id, kind, a, b, dk, c, s, off, state());
      break; }
    case 'T':
      sscanf(line + 1, "%d %ld %ld", &id, &a, &b);
      { sexp o = ids[id], v = b ? ids[b] : SEXP_FALSE;
        if (sexp_vectorp(o)) sexp_vector_data(o)[a - 1] = v;
        else if (sexp_pointer_tag(o) == SEXP_EPHEMERON) { if (a == 1) sexp_ephemeron_key(o) = v; else sexp_ephemeron_value(o) = v; }
        sexp_verif_emit("\"e\":\"Set\",\"id\":%d,\"slot\":%ld,\"v\":%ld,%s", id, a, b, state()); }
      break;
    case 'R':
      sscanf(line + 1, "%ld %ld", &a, &b);
      regs[a] = b ? ids[b] : SEXP_FALSE;
      sexp_verif_emit("\"e\":\"Reg\",\"r\":%ld,\"v\":%ld,%s", a, b, state());
      break;
    case 'P':
      sscanf(line + 1, "%ld", &a);
      if (nsaves < MAXSAVES) {
        saves[nsaves] = ids[a]; savevars[nsaves].var = &saves[nsaves];
        savevars[nsaves].next = sexp_context_saves(d); sexp_context_saves(d) = &savevars[nsaves]; nsaves++;
      }
      sexp_verif_emit("\"e\":\"Push\",\"v\":%ld,%s", a, state());
      break;
    case 'O':
      if (nsaves > 0) { nsaves--; sexp_context_saves(d) = savevars[nsaves].next; }
      sexp_verif_emit("\"e\":\"Pop\",%s", state());
      break;
    case 'C':
      sexp_markedp(d) = 0;
      sexp_gc(d, NULL);
      emit_fin_if_gc();
      sexp_verif_emit("\"e\":\"State\",%s", state());
      break;
    case 'G':
      sscanf(line + 1, "%ld", &a);
      e = sexp_grow_heap(d, a * CH, 0);
      sexp_verif_emit("\"e\":\"State\",\"grew\":%ld,%s", e, state());
      break;
    default:
      break;
    }
  }
  sexp_verif_emit("\"e\":\"Done\"");
  return 0;
}
