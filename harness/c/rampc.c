/* rampc.c -- C10: a bounded live set through the C API (no libraries loaded, so the heap starts at its initial segment):
   two live vectors, each replaced by one a few words larger (8 KB .. 40 KB, wrapping around), with a handful of
   short-lived pairs in between.  Every request has to be served from coalesced dead storage; the collections are
   reported by hook H2 into the trace, HeapSummary.tla judges tiling, free lists and the bound on the total.
   usage: rampc <allocations> <step> */
#include <stdio.h>
#include <stdlib.h>
#include <chibi/eval.h>
int main (int argc, char **argv) {
  sexp ctx; long i, j, n = argc > 1 ? atol(argv[1]) : 60000, step = argc > 2 ? atol(argv[2]) : 4, len;
  unsigned long sum = 0;
  sexp_gc_var2(cur, prev);
  sexp_scheme_init();
  ctx = sexp_make_eval_context(NULL, NULL, NULL, 0, 0);
  sexp_gc_preserve2(ctx, cur, prev);
  cur = prev = SEXP_FALSE;
  for (i = 0; i < n; i++) {
    len = 1000 + (step * i) % 4000;
    for (j = 0; j < 20; j++) prev = sexp_cons(ctx, sexp_make_fixnum(j), SEXP_NULL);
    prev = cur;
    cur = sexp_make_vector(ctx, sexp_make_fixnum(len), sexp_make_fixnum(i & 1023));
    if (sexp_exceptionp(cur)) { printf("allocation %ld failed\n", i); return 2; }
    sum += sexp_unbox_fixnum(sexp_vector_data(cur)[len / 2]) + (sexp_vectorp(prev) ? sexp_vector_length(prev) : 0);
  }
  printf("%lu\n", sum);
  sexp_gc_release2(ctx);
  return 0;
}
