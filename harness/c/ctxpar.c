/* ctxpar.c -- C13: N OS threads, each with its own parentless context.  Events are collected per thread
   (no shared lock while running) and printed by the main thread after joining, in per-thread order. */
#include <stdio.h>
#include <stdlib.h>
#include <string.h>
#include <pthread.h>
#include <chibi/eval.h>

#define MAXT 16
static int nthreads, rounds, racy_init;
static char results[MAXT][512];
static int okflag[MAXT], foreign[MAXT];

static const char *forms[] = {
  "(import (scheme base) (srfi 69) (srfi 95) (chibi string) (chibi ast))",
  "(define secret-%d %d)",
  "(define (fib n) (if (< n 2) n (+ (fib (- n 1)) (fib (- n 2)))))",
  "(define h (make-hash-table equal?))",
  "(let lp ((i 0)) (when (< i %d) (hash-table-set! h (number->string (* i %d)) (make-vector 8 i)) (lp (+ i 1))))",
  "(define l (sort (map (lambda (i) (modulo (* i %d) 1009)) (hash-table-values (let ((g (make-hash-table eqv?))) (let lp ((i 0)) (when (< i 300) (hash-table-set! g i i) (lp (+ i 1)))) g))) <))",
  "(define-record-type Rec%d (mk-rec a) rec? (a rec-a))",
  /* a structure deep enough to overflow the collector's inline mark stack, kept alive over several collections */
  "(define big (let lp ((i 0) (a '())) (if (< i 5000) (lp (+ i 1) (cons (list i i i) a)) a)))",
  "(define (big-sum) (let lp ((l big) (s 0)) (if (null? l) s (lp (cdr l) (+ s (car (car l)) (car (cdr (car l))))))))",
  "(define gcsum (let lp ((k 0) (s 0)) (if (< k 12) (begin (gc) (lp (+ k 1) (+ s (big-sum) (length (make-list 300 k))))) s)))",
  NULL };
/* types registered by a context BEFORE it imports a C-backed library: differs per thread (type tags are per context) */
static const char *pre_types = "(define-record-type PreT%d (mk-pre%d a) pre%d? (a pre%d-a))";
static const char *late_forms[] = {
  "(import (srfi 27))",
  "(define rnd-ok (guard (e (#t 'error)) (let ((r (random-integer 10))) (if (and (integer? r) (<= 0 r 9)) 'ok 'bad))))",
  NULL };
static const char *final_fmt =
  "(string-append (number->string (fib %d)) \":\" (number->string (hash-table-size h)) \":\" (number->string (apply + l))"
  "   \":\" (symbol->string (string->symbol (string-append \"sym-\" (number->string %d)))) \":\" (number->string (rec-a (mk-rec %d)))"
  "   \":\" (string-join (map number->string (list (string-length (make-string %d #\\x3bb)) (expt %d 30))) \",\")"
  "   \":\" (number->string gcsum) \":\" (symbol->string rnd-ok))";

static void* worker (void *arg) {
  int t = (int)(long)arg, j; sexp ctx, res; char buf[4096], probe[256];
  if (racy_init) sexp_scheme_init();
  ctx = sexp_make_eval_context(NULL, NULL, NULL, 0, 0);
  sexp_load_standard_env(ctx, NULL, SEXP_SEVEN);
  sexp_load_standard_ports(ctx, NULL, stdin, stdout, stderr, 1);
  { int f, q; int a1[] = {0, t, 0, 0, 400 + 37 * t, 7 + 2 * t, t, 0, 0, 0}, a2[] = {0, 1000 + t, 0, 0, 3 + t, 0, 0, 0, 0, 0};
    sexp_eval_string(ctx, "(import (scheme base))", -1, NULL);
    for (q = 0; q < (t % 4); q++) { snprintf(buf, sizeof(buf), pre_types, q, q, q, q); sexp_eval_string(ctx, buf, -1, NULL); }
    sexp_eval_string(ctx, late_forms[0], -1, NULL);
    for (f = 0; forms[f]; f++) { snprintf(buf, sizeof(buf), forms[f], a1[f], a2[f]); res = sexp_eval_string(ctx, buf, -1, NULL); }
    sexp_eval_string(ctx, late_forms[1], -1, NULL); }
  snprintf(buf, sizeof(buf), final_fmt, 15 + (t % 5), t, 50 + t, 5 + t, 3 + t);
  res = sexp_eval_string(ctx, buf, -1, NULL);
  okflag[t] = sexp_stringp(res);
  if (okflag[t]) snprintf(results[t], sizeof(results[t]), "%s", sexp_string_data(res));
  else snprintf(results[t], sizeof(results[t]), "not-a-string");
  foreign[t] = 0;
  for (j = 0; j < nthreads; j++) {
    if (j == t) continue;
    snprintf(probe, sizeof(probe), "(guard (e (#t 'unbound)) secret-%d)", j);
    res = sexp_eval_string(ctx, probe, -1, NULL);
    if (!(sexp_symbolp(res))) foreign[t]++;
    snprintf(probe, sizeof(probe), "(guard (e (#t 'unbound)) (rec-a (mk-rec 1)) Rec%d)", j);
    res = sexp_eval_string(ctx, probe, -1, NULL);
    if (!(sexp_symbolp(res))) foreign[t]++;
  }
  sexp_eval_string(ctx, "(begin (import (chibi ast)) (gc))", -1, NULL);
  sexp_destroy_context(ctx);
  return NULL;
}

int main (int argc, char **argv) {
  pthread_t th[MAXT]; int r, t;
  nthreads = argc > 1 ? atoi(argv[1]) : 4; rounds = argc > 2 ? atoi(argv[2]) : 2; racy_init = argc > 3 ? atoi(argv[3]) : 0;
  if (nthreads > MAXT) nthreads = MAXT;
  if (!racy_init) sexp_scheme_init();
  /* solo phase: one thread at a time */
  printf("{\"e\":\"Round\",\"mode\":\"solo\"}\n");
  for (t = 0; t < nthreads; t++) {
    printf("{\"e\":\"Start\",\"t\":%d}\n", t);
    pthread_create(&th[t], NULL, worker, (void*)(long)t);
    pthread_join(th[t], NULL);
    printf("{\"e\":\"Result\",\"mode\":\"solo\",\"t\":%d,\"ok\":%d,\"foreign\":%d,\"res\":\"%s\"}\n", t, okflag[t], foreign[t], results[t]);
  }
  for (r = 0; r < rounds; r++) {
    printf("{\"e\":\"Round\",\"mode\":\"par\"}\n");
    for (t = 0; t < nthreads; t++) { printf("{\"e\":\"Start\",\"t\":%d}\n", t); pthread_create(&th[t], NULL, worker, (void*)(long)t); }
    for (t = 0; t < nthreads; t++) pthread_join(th[t], NULL);
    for (t = 0; t < nthreads; t++)
      printf("{\"e\":\"Result\",\"mode\":\"par\",\"t\":%d,\"ok\":%d,\"foreign\":%d,\"res\":\"%s\"}\n", t, okflag[t], foreign[t], results[t]);
    fflush(stdout);
  }
  printf("{\"e\":\"Done\"}\n");
  return 0;
}
