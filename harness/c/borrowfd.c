/* borrowfd.c -- C16: a descriptor that the interpreter only BORROWS (the process's stderr wrapped by the embedding API's
   sexp_print_exception when it is given no port) must never be closed by a finalizer.  Emits Begin / CollectCall /
   Collected / EndRun / Exit in the vocabulary of FdTrace.tla into the hook trace; the closes themselves are logged by
   hook H7 inside the interpreter. */
#include <stdio.h>
#include <fcntl.h>
#include <dirent.h>
#include <stdlib.h>
#include <chibi/eval.h>
static int nfd_above (int lo) {
  DIR *d = opendir("/proc/self/fd"); struct dirent *e; int n = 0, dfd;
  if (!d) return -1;
  dfd = dirfd(d);
  while ((e = readdir(d))) { int f = atoi(e->d_name); if (e->d_name[0] != '.' && f > lo && f != dfd) n++; }
  closedir(d);
  return n;
}
int main (void) {
  sexp ctx, e; int i, base;
  sexp_scheme_init();
  ctx = sexp_make_eval_context(NULL, NULL, NULL, 0, 0);
  sexp_load_standard_env(ctx, NULL, SEXP_SEVEN);
  base = nfd_above(2);
  sexp_verif_emit("\"e\":\"Begin\"");
  for (i = 0; i < 3; i++) {
    e = sexp_eval_string(ctx, "(vector-ref (vector 1 2) 7)", -1, NULL);
    sexp_print_exception(ctx, e, SEXP_FALSE);          /* no port given: the interpreter wraps stderr itself */
    e = SEXP_FALSE;
    sexp_verif_emit("\"e\":\"CollectCall\"");
    sexp_eval_string(ctx, "(make-vector 50000 0)", -1, NULL);
    sexp_gc(ctx, NULL);
    sexp_gc(ctx, NULL);
    sexp_verif_emit("\"e\":\"Collected\",\"nfd\":%d", nfd_above(2) - base);
  }
  sexp_verif_emit("\"e\":\"EndRun\"");
  sexp_verif_emit("\"e\":\"Exit\",\"rc\":%d", fcntl(2, F_GETFD) != -1 ? 0 : 1);
  return 0;
}
