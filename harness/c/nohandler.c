/* nohandler.c -- C01: errors that NO handler catches must come back to the embedding caller as an error object.
   argv[1]: a Scheme file of definitions (the prim driver without its main), argv[2]: a script, one case per line:
       <call as JSON>\t<Scheme expression>
   Every expression is evaluated with sexp_eval_string from C (no handler installed); the outcome class, the state of
   the session objects and a probe are printed in the event format of prim-driver.scm, to be judged by PrimTrace.tla. */
#include <stdio.h>
#include <stdlib.h>
#include <string.h>
#include <chibi/eval.h>

int main (int argc, char **argv) {
  sexp ctx, res, st;
  char *line = NULL; size_t cap = 0; long id = 0;
  FILE *f;
  if (argc < 3) return 2;
  sexp_scheme_init();
  ctx = sexp_make_eval_context(NULL, NULL, NULL, 0, 0);
  sexp_load_standard_env(ctx, NULL, SEXP_SEVEN);
  sexp_load_standard_ports(ctx, NULL, stdin, stdout, stderr, 1);
  {
    sexp_gc_var1(path);
    sexp_gc_preserve1(ctx, path);
    path = sexp_c_string(ctx, argv[1], -1);
    res = sexp_load(ctx, path, NULL);
    sexp_gc_release1(ctx);
    if (sexp_exceptionp(res)) { sexp_print_exception(ctx, res, sexp_current_error_port(ctx)); return 3; }
  }
  f = fopen(argv[2], "r");
  if (!f) return 2;
  while (getline(&line, &cap, f) > 0) {
    char *tab = strchr(line, '\t');
    if (!tab) continue;
    *tab = 0;
    id++;
    printf("{\"e\":\"Begin\",\"id\":%ld}\n", id); fflush(stdout);
    res = sexp_eval_string(ctx, tab + 1, -1, NULL);
    {
      int err = sexp_exceptionp(res);
      st = sexp_eval_string(ctx, "(state-json)", -1, NULL);
      printf("{\"e\":\"Call\",\"id\":%ld,\"c\":%s,\"class\":\"%s\",\"val\":[\"unspec\"],%s}\n", id, line, err ? "err" : "val",
             sexp_stringp(st) ? sexp_string_data(st) : "\"V\":[],\"S\":[],\"B\":[],\"probe\":0");
      fflush(stdout);
    }
  }
  printf("{\"e\":\"Done\"}\n");
  sexp_destroy_context(ctx);
  return 0;
}
