/* deeprec.c -- C05: non-tail recursion of increasing depth evaluated through the embedding API.
   Records, per depth, the outcome class (value / error object), whether the value is right, the stack
   length afterwards, and whether the same context still evaluates a probe program. */
#include <stdio.h>
#include <stdlib.h>
#include <string.h>
#include <chibi/eval.h>

int main (int argc, char **argv) {
  sexp ctx, res; int i, first = 1, lim = 0; char buf[256];
  unsigned long hsize = 0, hmax = 0;
  sexp_scheme_init();
  /* "H<size>:<max>" as first argument: a context with a heap LIMIT - growing the stack may then fail for lack of memory
     before the configured stack maximum is reached: the outcome must still be a value or an error object, never a crash */
  if (argc > 1 && argv[1][0] == 'H') { sscanf(argv[1] + 1, "%lu:%lu", &hsize, &hmax); first = 2; lim = 1; }
  ctx = sexp_make_eval_context(NULL, NULL, NULL, hsize, hmax);
  sexp_load_standard_env(ctx, NULL, SEXP_SEVEN);
  sexp_load_standard_ports(ctx, NULL, stdin, stdout, stderr, 1);
  sexp_eval_string(ctx, "(define (deep n) (if (= n 0) 0 (+ 1 (deep (- n 1)))))", -1, NULL);
  sexp_eval_string(ctx, "(define (deep2 n acc) (if (= n 0) acc (let ((r (deep2 (- n 1) (cons n acc)))) (cdr r))))", -1, NULL);
  sexp_eval_string(ctx, "(define (deep3 n) (if (= n 0) 0 (+ 1 (apply deep3 (list (- n 1))))))", -1, NULL);
  sexp_eval_string(ctx, "(define (deep4 n . r) (if (= n 0) (length r) (+ 1 (apply deep4 (- n 1) r))))", -1, NULL);
  sexp_eval_string(ctx, "(define (f5 . xs) (length xs))", -1, NULL);
  sexp_eval_string(ctx, "(define (deep5 n l) (if (= n 0) (apply f5 l) (+ 1 (deep5 (- n 1) l))))", -1, NULL);
  for (i = first; i < argc; i++) {
    long d = atol(argv[i]); int which = d < 0; long depth = which ? -d : d;
    /* depths 3000000+k: recursion of depth k through apply; 4000000+k: through apply with a 100-element rest list */
    long wide = 0;   /* 5000000+k: a call spreading a k-thousand element list (apply) under 50 frames */
    if (d >= 5000000 && d < 6000000) { which = 4; wide = (d - 5000000) * 1000; depth = 50; }
    else if (d >= 4000000 && d < 5000000) { which = 3; depth = d - 4000000; }
    else if (d >= 3000000 && d < 4000000) { which = 2; depth = d - 3000000; }
    long unit = depth > 30000 ? 1000 : 1;
    sexp probe; int valok = 0, isval, probeok;
    if (which == 4) snprintf(buf, sizeof(buf), "(- (deep5 %ld (make-list %ld 1)) %ld)", depth, wide, wide);
    else if (which == 2) snprintf(buf, sizeof(buf), "(deep3 %ld)", depth);
    else if (which == 3) snprintf(buf, sizeof(buf), "(- (apply deep4 %ld (make-list 100 1)) 100)", depth);
    else snprintf(buf, sizeof(buf), which ? "(length (cons 0 (deep2 %ld '())))" : "(deep %ld)", depth);
    res = sexp_eval_string(ctx, buf, -1, NULL);
    isval = !sexp_exceptionp(res);
    if (isval && sexp_fixnump(res)) valok = (which == 1) ? (sexp_unbox_fixnum(res) == 1) : (sexp_unbox_fixnum(res) == depth);
    probe = sexp_eval_string(ctx, "(let loop ((i 0) (a '())) (if (< i 100) (loop (+ i 1) (cons i a)) (apply + a)))", -1, NULL);
    probeok = sexp_fixnump(probe) && sexp_unbox_fixnum(probe) == 4950;
    printf("{\"e\":\"Deep\",\"d\":%ld,\"unit\":%ld,\"fn\":%d,\"outcome\":\"%s\",\"valok\":%d,\"probe\":%d,\"len\":%ld,\"w\":%ld,\"lim\":%d}\n",
           depth / unit, unit, which, isval ? "value" : "error", valok, probeok, (long)sexp_stack_length(sexp_context_stack(ctx)), wide / 1000, lim);
    fflush(stdout);
  }
  sexp_destroy_context(ctx);
  return 0;
}
