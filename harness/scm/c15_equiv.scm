;; C15 driver prelude (Equiv half).  checks/c15.py prepends an import form and appends the generated
;; (run-batch ...) forms.  The driver evaluates routes, applies eq?/eqv?/equal?/hash of the real
;; interpreter and RECORDS the answers as ndjson on stdout; it never judges.
;;
;; events:  {"e":"Batch","b":id,"n":instances,"bg":0|1}
;;          {"e":"Begin","a":i,"b":j}                (bg=1 only: before every hash / comparison; j=0 for hash)
;;          {"e":"Inst","i":inst,"t":term,"r":route,"fresh":0|1,"err":0|1,"sz":bytes,"bw":[bytes..],"h":["hash",...]}
;;             sz = object-size of the value, bw = object-size of the first bignums met while walking it
;;          {"e":"Obs","a":i,"b":j,"eq":0|1,"eqv":0|1,"equal":0|1,"pequal":0|1|-1,"mem":0|1|-1,"ass":0|1|-1,"err":0|1}
;;             equal = (scheme base) equal?, pequal = the primitive equal? of (chibi), mem = (member a (list b)),
;;             ass = (assoc a (list (cons b 0))) with their default predicate; -1 = not asked (cyclic batch)
;;          {"e":"EndBatch","b":id}

;; ---- helpers available to route expressions
(define (cyc . xs)                      ; circular list of the given elements
  (let ((l (apply list xs)))
    (set-cdr! (list-tail l (- (length l) 1)) l)
    l))
(define (spare n k)                     ; n computed in a buffer k words wider: equal value, other layout
  (let ((big (expt 2 (* 64 k))))
    (- (+ big n) big)))
(define (idf x) x)
(define (nest n leaf)                   ; ((((leaf) 0) 0) ...) n levels, fresh pairs
  (let lp ((i 0) (x leaf)) (if (= i n) x (lp (+ i 1) (list x 0)))))
(define (nest1 n leaf)                  ; like nest with (list x 1)
  (let lp ((i 0) (x leaf)) (if (= i n) x (lp (+ i 1) (list x 1)))))
(define (nestv n leaf)
  (let lp ((i 0) (x leaf)) (if (= i n) x (lp (+ i 1) (vector 0 x)))))
(define (iota* n from)                  ; (from from+1 ... from+n-1)
  (let lp ((i (- n 1)) (a '())) (if (< i 0) a (lp (- i 1) (cons (+ from i) a)))))
(define (from-port str) (read (open-input-string str)))
;; deeply nested data, built iteratively (no recursion in the builder): the leaf wrapped k times in
;;   deep-lt : (list x 1)  fresh two-element list      deep-vf : (vector x 1.5) with a fresh flonum
;;   deep-car: (list x)
(define flo-one 1.0)
(define (deep-lt k leaf) (let lp ((i 0) (x leaf)) (if (= i k) x (lp (+ i 1) (list x 1)))))
(define (deep-lt2 k leaf) (do ((i 0 (+ i 1)) (x leaf (cons x (cons 1 '())))) ((= i k) x)))
(define (deep-vf k leaf) (let lp ((i 0) (x leaf)) (if (= i k) x (lp (+ i 1) (vector x (+ flo-one 0.5))))))
(define (deep-vf2 k leaf) (do ((i 0 (+ i 1)) (x leaf (let ((v (make-vector 2 (* flo-one 1.5)))) (vector-set! v 0 x) v))) ((= i k) x)))
(define (deep-car k leaf) (let lp ((i 0) (x leaf)) (if (= i k) x (lp (+ i 1) (list x)))))
(define (deep-car2 k leaf) (do ((i 0 (+ i 1)) (x leaf (cons x '()))) ((= i k) x)))

;; ---- output
(define (out . xs) (for-each (lambda (x) (display x)) xs))
(define (flush) (flush-output-port (current-output-port)))
(define (b01 x) (if x 1 0))
(define (out-strings ls)
  (out "[")
  (let lp ((ls ls) (first #t))
    (when (pair? ls)
      (if (not first) (out ","))
      (out "\"" (car ls) "\"")
      (lp (cdr ls) #f)))
  (out "]"))

(define (hashes x)
  (append (list (hash x) (hash x 1009) (hash x 23) (default-hash x))
          (if (string? x) (list (string-hash x) (string-hash x 1009)) '())))

;; byte sizes of the bignum objects inside x (numerators, complex parts, list/vector elements), at most
;; 12 of them, walking at most 200 objects: how the value is laid out, for the report only
(define (bignum-sizes x)
  (let ((acc '()) (budget 200))
    (let walk ((x x))
      (when (and (> budget 0) (< (length acc) 12))
        (set! budget (- budget 1))
        (cond ((and (exact-integer? x) (not (fixnum? x))) (set! acc (cons (object-size x) acc)))
              ((and (exact? x) (rational? x) (not (integer? x))) (walk (numerator x)) (walk (denominator x)))
              ((and (number? x) (not (real? x))) (walk (real-part x)) (walk (imag-part x)))
              ((pair? x) (walk (car x)) (walk (cdr x)))
              ((vector? x) (vector-for-each walk x)))))
    (reverse acc)))

(define (make-inst id term route fresh thunk) (vector id term route fresh thunk #f))
(define (inst-id i) (vector-ref i 0))
(define (inst-val i) (vector-ref i 5))

(define (eval-inst! bg i)
  (if (= bg 1) (begin (out "{\"e\":\"Begin\",\"a\":" (inst-id i) ",\"b\":0}\n") (flush)))
  (let* ((ok #t)
         (v (guard (e (#t (set! ok #f) #f)) ((vector-ref i 4))))
         (hs (if ok (guard (e (#t (set! ok #f) '())) (hashes v)) '())))
    (vector-set! i 5 v)
    (out "{\"e\":\"Inst\",\"i\":" (inst-id i) ",\"t\":" (vector-ref i 1) ",\"r\":" (vector-ref i 2)
         ",\"fresh\":" (vector-ref i 3) ",\"err\":" (if ok 0 1) ",\"sz\":" (if ok (object-size v) 0) ",\"bw\":")
    (out "[")
    (let lp ((ls (if ok (bignum-sizes v) '())) (first #t))
      (when (pair? ls) (if (not first) (out ",")) (out (car ls)) (lp (cdr ls) #f)))
    (out "],\"h\":")
    (out-strings hs)
    (out "}\n")
    ok))

(define (observe bg a b)
  (if (= bg 1) (begin (out "{\"e\":\"Begin\",\"a\":" (inst-id a) ",\"b\":" (inst-id b) "}\n") (flush)))
  (let* ((x (inst-val a)) (y (inst-val b)) (ok #t)
         (r (guard (e (#t (set! ok #f) (list #f #f #f -1 -1 -1)))
              (list (eq? x y) (eqv? x y) (equal? x y)
                    (if (= bg 1) -1 (b01 (prim:equal? x y)))
                    (if (= bg 1) -1 (b01 (member x (list y))))
                    (if (= bg 1) -1 (b01 (assoc x (list (cons y 0)))))))))
    (out "{\"e\":\"Obs\",\"a\":" (inst-id a) ",\"b\":" (inst-id b)
         ",\"eq\":" (b01 (car r)) ",\"eqv\":" (b01 (cadr r)) ",\"equal\":" (b01 (caddr r))
         ",\"pequal\":" (cadddr r) ",\"mem\":" (list-ref r 4) ",\"ass\":" (list-ref r 5) ",\"err\":" (if ok 0 1) "}\n")))

(define (run-batch b bg insts)
  (out "{\"e\":\"Batch\",\"b\":" b ",\"n\":" (length insts) ",\"bg\":" bg "}\n")
  (let lp ((ls insts) (ok #t))
    (cond ((pair? ls) (lp (cdr ls) (and (eval-inst! bg (car ls)) ok)))
          (ok (for-each (lambda (a) (for-each (lambda (b) (observe bg a b)) insts)) insts))))
  (out "{\"e\":\"EndBatch\",\"b\":" b "}\n")
  (flush))
