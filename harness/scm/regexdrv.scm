;; C20 driver: runs (chibi regexp) on (sre, subject) pairs read as data and RECORDS the results (never judges).
;; usage: chibi-scheme regexdrv.scm cases.scm
;; input : one datum per SRE:   (sre (id . "subject") (id . "subject") ...)   in this order, all in one process
;;         (a sub-form (pcre "str") of the sre is replaced by (pcre->sre "str") first)
;; output: one JSON object per case on stdout:
;;   {"id":k,"err":0|1,"m":0|1,"mf":0|1,"mm":[[s,e]..],"sf":0|1,"ss":[[s,e]..]}
;;   m  = (regexp-matches? sre subject)
;;   mf/mm = (regexp-matches sre subject): found?, spans of submatch 0..(regexp-match-count)
;;   sf/ss = (regexp-search sre subject) likewise;  #f start/end is logged as -1
(import (scheme base) (scheme read) (scheme write) (scheme file) (scheme process-context)
        (chibi regexp) (chibi regexp pcre))

;; (pcre "\\d") inside an SRE datum stands for the SRE that the PCRE front end produces for that string
(define (expand x)
  (cond ((and (pair? x) (eq? (car x) 'pcre) (pair? (cdr x)) (string? (cadr x)) (null? (cddr x)))
         (pcre->sre (cadr x)))
        ((pair? x) (cons (expand (car x)) (expand (cdr x))))
        (else x)))

(define (idx x) (if (and (integer? x) (exact? x)) x -1))

(define (write-spans m)
  (write-string "[")
  (let ((n (regexp-match-count m)))
    (let lp ((i 0))
      (when (<= i n)
        (if (> i 0) (write-string ","))
        (write-string "[")
        (write (idx (regexp-match-submatch-start m i)))
        (write-string ",")
        (write (idx (regexp-match-submatch-end m i)))
        (write-string "]")
        (lp (+ i 1)))))
  (write-string "]"))

(define (emit-error id)
  (write-string "{\"id\":") (write id)
  (write-string ",\"err\":1,\"m\":0,\"mf\":0,\"mm\":[],\"sf\":0,\"ss\":[]}")
  (newline))

(define (run-case rx id str)
  ;; compute everything first so that an error leaves no partial line
  (let ((res (guard (e (#t #f))
               (let* ((m? (regexp-matches? rx str))
                      (mm (regexp-matches rx str))
                      (ss (regexp-search rx str)))
                 (if (not (boolean? m?)) (error "regexp-matches? returned a non-boolean" m?))
                 (let ((out (open-output-string)))
                   (parameterize ((current-output-port out))
                     (write-string "{\"id\":") (write id)
                     (write-string ",\"err\":0,\"m\":") (write (if m? 1 0))
                     (write-string ",\"mf\":") (write (if mm 1 0))
                     (write-string ",\"mm\":") (if mm (write-spans mm) (write-string "[]"))
                     (write-string ",\"sf\":") (write (if ss 1 0))
                     (write-string ",\"ss\":") (if ss (write-spans ss) (write-string "[]"))
                     (write-string "}"))
                   (get-output-string out))))))
    (cond (res (write-string res) (newline))
          (else (emit-error id)))
    (flush-output-port)))

(define (run-sre sre cases)
  ;; the first subject goes through the SRE datum itself (compiled by every call), the others
  ;; through the regexp object compiled once from the same datum
  (let ((rx (guard (e (#t #f)) (regexp sre))))
    (let lp ((cs cases) (first? #t))
      (when (pair? cs)
        (cond
         ((not rx) (emit-error (caar cs)))
         (else (run-case (if first? sre rx) (caar cs) (cdar cs))))
        (lp (cdr cs) #f)))))

(let ((file (cadr (command-line))))
  (call-with-input-file file
    (lambda (in)
      (let lp ()
        (let ((x (read in)))
          (unless (eof-object? x)
            (run-sre (guard (e (#t (car x))) (expand (car x))) (cdr x))
            (lp))))))
  (flush-output-port))
