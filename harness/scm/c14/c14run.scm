;; usage: chibi-scheme c14run.scm <casefile>     (environment path of the C14 driver)
(import (scheme base) (scheme process-context) (verif c14drv))
(c14-run-file (cadr (command-line)))
