;; churn.scm -- bounded-live-set allocation workload (C10 recycling / C02 schedule independence)
;; usage: chibi-scheme churn.scm <seed> <iterations> <slots> <flavour>
;; Keeps a ring of <slots> objects alive, replaces a pseudo-random slot each iteration with a new
;; object of a pseudo-random kind and size, and folds a checksum over what it reads back, so that
;; a prematurely reclaimed or corrupted object changes the printed result.
(import (scheme base) (scheme write) (scheme process-context) (scheme char)
        (srfi 69) (chibi ast))

(define args (command-line))
(define (arg n default)
  (if (> (length args) n) (string->number (list-ref args n)) default))
(define seed (arg 1 1))
(define iterations (arg 2 20000))
(define nslots (arg 3 64))
(define flavour (arg 4 0))

(define state (+ 12345 (* seed 7919)))
(define (rnd n)
  (set! state (modulo (+ (* state 1103515245) 12345) 2147483648))
  (modulo (quotient state 65536) n))

(define-record-type Box3 (make-box3 a b c) box3? (a box3-a) (b box3-b set-box3-b!) (c box3-c))

(define ring (make-vector nslots #f))
(define checksum 0)
(define (mix! n) (set! checksum (modulo (+ (* checksum 31) n) 1000000007)))

(define (make-thing k i)
  (case k
    ((0) (cons i (rnd 100)))
    ((1) (let ((n (+ 1 (rnd 40)))) (let ((v (make-vector n i))) (vector-set! v (rnd n) (* i 2)) v)))
    ((2) (make-string (+ 1 (rnd 60)) (integer->char (+ 97 (rnd 26)))))
    ((3) (let ((n (+ 1 (rnd 200)))) (let ((b (make-bytevector n (rnd 256)))) (bytevector-u8-set! b (rnd n) (rnd 256)) b)))
    ((4) (* (+ i 1) (expt 3 (+ 40 (rnd 80)))))
    ((5) (make-box3 i (list i i) (number->string i)))
    ((6) (let ((x (rnd 1000))) (lambda (y) (+ x y i))))
    ((7) (let loop ((n (rnd 30)) (acc '())) (if (= n 0) acc (loop (- n 1) (cons (* n i) acc)))))
    ((8) (string->symbol (string-append "sym" (number->string (rnd 5000)))))
    ((9) (let ((h (make-hash-table equal?))) (hash-table-set! h i (rnd 10)) (hash-table-set! h (number->string i) i) h))
    ((10) (call-with-current-continuation (lambda (k) (vector k i))))
    ((11) (let ((p (open-output-string))) (write i p) (write-string "-xyz" p) p))
    ((12) (inexact (/ i (+ 1 (rnd 97)))))
    ((13) (/ (+ i 1) (+ 2 (rnd 1000))))
    ((14) (make-vector (+ 500 (rnd 3000)) (rnd 7)))
    (else (list->string (list #\a (integer->char (+ 955 (rnd 20))) #\z)))))

(define (observe x)
  (cond
   ((pair? x) (mix! (if (list? x) (length x) 1)) (if (number? (car x)) (mix! (modulo (car x) 1009))))
   ((vector? x) (mix! (vector-length x))
                (let ((e (vector-ref x (quotient (vector-length x) 2)))) (if (number? e) (mix! (modulo e 1009)))))
   ((string? x) (mix! (string-length x)) (mix! (char->integer (string-ref x 0))))
   ((bytevector? x) (mix! (bytevector-length x)) (mix! (bytevector-u8-ref x 0)))
   ((and (number? x) (exact? x) (integer? x)) (mix! (modulo x 1000003)))
   ((box3? x) (mix! (box3-a x)) (mix! (length (box3-b x))) (mix! (string-length (box3-c x))))
   ((procedure? x) (mix! (modulo (x 1) 1009)))
   ((symbol? x) (mix! (string-length (symbol->string x))))
   ((hash-table? x) (mix! (hash-table-size x)))
   ((output-port? x) (mix! (string-length (get-output-string x))))
   ((and (number? x) (inexact? x)) (mix! (modulo (exact (truncate (* x 100))) 1009)))
   ((number? x) (mix! (modulo (numerator x) 1009)) (mix! (modulo (denominator x) 1009)))
   (else (mix! 7))))

(define nkinds (case flavour ((0) 16) ((1) 4) ((2) 14) (else 16)))

(let loop ((i 0))
  (when (< i iterations)
    (let ((slot (rnd nslots)))
      (let ((old (vector-ref ring slot)))
        (if old (observe old)))
      (vector-set! ring slot (make-thing (rnd nkinds) i)))
    (if (= 0 (modulo i 997)) (let ((j (rnd nslots))) (let ((x (vector-ref ring j))) (if x (observe x)))))
    (loop (+ i 1))))

(let fin ((j 0))
  (when (< j nslots)
    (let ((x (vector-ref ring j))) (if x (observe x)))
    (fin (+ j 1))))
(display "checksum ") (display checksum) (newline)
