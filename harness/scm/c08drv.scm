;; C08 driver: builds data from construction recipes, writes them with every writer, reads the
;; text back with both readers and RECORDS node tables (ndjson on stdout).  It never judges.
;;
;; usage: chibi-scheme c08drv.scm rt  <recipes>     round trips
;;        chibi-scheme c08drv.scm txt <texts>       texts (code point lists) fed to both readers
;;
;; The input files contain only parentheses, spaces and small non-negative decimal integers, so the
;; reader under test is trusted for nothing else.  All output integers are printed by put-int below
;; (quotient/remainder), not by the printer under test.
;;
;; recipe file: a sequence of cases  (id root (cyclic writer-mask) node ...)  ; writer-mask: 1 native
;; 2 write-simple 4 write 8 write-shared (plain writers are never run on cyclic data: they need not
;; terminate); node k (1-based) is
;;   (0 car cdr) pair | (1 id ...) vector | (2 num den) ratio | (3 re im) complex      (children by id)
;;   (10) () | (11 b) boolean | (12 sign d0 d1 ..) integer, base 1024 little endian
;;   (13 w3 w2 w1 w0) flonum bits, w3 most significant | (14) NaN | (15 cp) char
;;   (16 cp ..) string | (17 cp ..) symbol | (18 byte ..) bytevector
(import (scheme base) (scheme char) (scheme inexact) (scheme complex) (scheme file)
        (scheme process-context) (scheme bytevector)
        (rename (only (chibi) read write) (read native-read) (write native-write))
        (prefix (scheme write) w:) (prefix (scheme read) r:))

;; ---------------------------------------------------------------- output
(define out (current-output-port))
(define (put-int n)
  (cond ((< n 0) (write-char #\- out) (put-int (- 0 n)))
        ((< n 10) (write-char (integer->char (+ 48 n)) out))
        (else (put-int (quotient n 10)) (write-char (integer->char (+ 48 (remainder n 10))) out))))
(define (put-ints ls)
  (write-char #\[ out)
  (let lp ((ls ls) (first #t))
    (cond ((pair? ls)
           (if (not first) (write-char #\, out))
           (put-int (car ls))
           (lp (cdr ls) #f))))
  (write-char #\] out))
(define (put s) (write-string s out))

;; ---------------------------------------------------------------- canonicaliser: datum -> node table
;; uses only eq?, pair?/car/cdr, vector?/vector-ref/vector-length and atom predicates/accessors
(define (int->digits n)              ; sign + base-1024 little endian digits, exact arithmetic only
  (let ((s (if (< n 0) 1 0)))
    (let lp ((n (abs n)) (r '()))
      (if (= n 0)
          (cons s (reverse r))
          (lp (quotient n 1024) (cons (remainder n 1024) r))))))

(define (flonum-words x)             ; IEEE-754 bits, most significant 16-bit word first
  (let ((bv (make-bytevector 8 0)))
    (bytevector-ieee-double-set! bv 0 x (endianness little))
    (list (+ (bytevector-u8-ref bv 6) (* 256 (bytevector-u8-ref bv 7)))
          (+ (bytevector-u8-ref bv 4) (* 256 (bytevector-u8-ref bv 5)))
          (+ (bytevector-u8-ref bv 2) (* 256 (bytevector-u8-ref bv 3)))
          (+ (bytevector-u8-ref bv 0) (* 256 (bytevector-u8-ref bv 1))))))

(define (string->cps s) (map char->integer (string->list s)))

;; a node is a vector #(kind children payload)
(define (table x)
  (let ((seen '()) (count 0) (acc '()))
    (define (add! kind ch pl)
      (set! count (+ count 1))
      (let ((cell (vector kind ch pl)))
        (set! acc (cons cell acc))
        cell))
    (define (atom! kind pl) (add! kind '() pl) count)
    (define (visit x)
      (cond
       ((or (pair? x) (vector? x))
        (let ((hit (assq x seen)))
          (if hit
              (cdr hit)
              (let* ((cell (add! (if (pair? x) "pair" "vec") '() '()))
                     (id count))
                (set! seen (cons (cons x id) seen))
                (vector-set!
                 cell 1
                 (if (pair? x)
                     (let* ((a (visit (car x))) (d (visit (cdr x)))) (list a d))
                     (let lp ((i 0) (r '()))
                       (if (= i (vector-length x))
                           (reverse r)
                           (let ((c (visit (vector-ref x i)))) (lp (+ i 1) (cons c r)))))))
                id))))
       ((null? x) (atom! "null" '()))
       ((eq? x #t) (atom! "bool" '(1)))
       ((eq? x #f) (atom! "bool" '(0)))
       ((char? x) (atom! "char" (list (char->integer x))))
       ((string? x) (atom! "str" (string->cps x)))
       ((symbol? x) (atom! "sym" (string->cps (symbol->string x))))
       ((bytevector? x)
        (atom! "bytes" (let lp ((i (- (bytevector-length x) 1)) (r '()))
                         (if (< i 0) r (lp (- i 1) (cons (bytevector-u8-ref x i) r))))))
       ((number? x)
        (cond
         ((not (real? x))
          (let* ((cell (add! "cpx" '() '())) (id count)
                 (a (visit (real-part x))) (b (visit (imag-part x))))
            (vector-set! cell 1 (list a b))
            id))
         ((and (exact? x) (integer? x)) (atom! "int" (int->digits x)))
         ((exact? x)
          (let* ((cell (add! "rat" '() '())) (id count)
                 (a (visit (numerator x))) (b (visit (denominator x))))
            (vector-set! cell 1 (list a b))
            id))
         ((nan? x) (atom! "nan" '()))
         (else (atom! "flo" (flonum-words x)))))
       ((eof-object? x) (atom! "other" '(1)))
       (else (atom! "other" '(0)))))
    (let ((root (visit x)))
      (cons root (reverse acc)))))

(define (put-table t)
  (put "{\"r\":") (put-int (car t)) (put ",\"n\":[")
  (let lp ((ls (cdr t)) (first #t))
    (cond ((pair? ls)
           (if (not first) (put ","))
           (put "{\"k\":\"") (put (vector-ref (car ls) 0)) (put "\",\"c\":")
           (put-ints (vector-ref (car ls) 1)) (put ",\"p\":")
           (put-ints (vector-ref (car ls) 2)) (put "}")
           (lp (cdr ls) #f))))
  (put "]}"))

;; ---------------------------------------------------------------- builder: recipe -> datum
(define (digits->int sign ds)
  (let lp ((ds (reverse ds)) (n 0))
    (if (null? ds) (if (= sign 1) (- 0 n) n) (lp (cdr ds) (+ (* n 1024) (car ds))))))

(define two52 4503599627370496)
(define (words->flonum w3 w2 w1 w0)
  ;; exact arithmetic + flonum scaling by powers of two (exact in binary floating point)
  (let* ((sign (quotient w3 32768))
         (e (quotient (remainder w3 32768) 16))
         (m (+ (* (remainder w3 16) 281474976710656) (* w2 4294967296) (* w1 65536) w0))
         (mag (cond
               ((= e 2047) (if (= m 0) (/ 1.0 0.0) (/ 0.0 0.0)))
               ((= e 0) (* (* (inexact m) (expt 2.0 -537)) (expt 2.0 -537)))     ; subnormal: m * 2^-1074
               (else (let ((f (inexact (+ two52 m))) (k (- e 1075)))             ; (2^52+m) * 2^(e-1075)
                       (cond ((>= k 0) (* f (expt 2.0 k)))
                             ((>= k -1000) (* f (expt 2.0 k)))
                             (else (* (* f (expt 2.0 -1000)) (expt 2.0 (+ k 1000))))))))))
    (if (= sign 1) (- mag) mag)))

(define (build-nodes root specs)
  (let* ((n (length specs))
         (specv (list->vector specs))
         (objs (make-vector (+ n 1) #f)))
    (define (spec i) (vector-ref specv (- i 1)))
    ;; pass 1: atoms and empty compounds (numbers with number children are built on demand)
    (define (build-atom! i)
      (or (vector-ref objs i)
          (let* ((s (spec i)) (k (car s)) (a (cdr s))
                 (v (case k
                      ((0) (cons #f #f))
                      ((1) (make-vector (length a) #f))
                      ((2) (/ (build-atom! (car a)) (build-atom! (cadr a))))
                      ((3) (make-rectangular (build-atom! (car a)) (build-atom! (cadr a))))
                      ((10) '())
                      ((11) (= (car a) 1))
                      ((12) (digits->int (car a) (cdr a)))
                      ((13) (apply words->flonum a))
                      ((14) (/ 0.0 0.0))
                      ((15) (integer->char (car a)))
                      ((16) (list->string (map integer->char a)))
                      ((17) (string->symbol (list->string (map integer->char a))))
                      ((18) (let ((bv (make-bytevector (length a) 0)))
                              (let lp ((i 0) (a a))
                                (cond ((pair? a) (bytevector-u8-set! bv i (car a)) (lp (+ i 1) (cdr a)))))
                              bv))
                      (else (error "bad recipe node" s)))))
            (vector-set! objs i v)
            v)))
    (let lp ((i 1)) (cond ((<= i n) (build-atom! i) (lp (+ i 1)))))
    ;; pass 2: link
    (let lp ((i 1))
      (cond ((<= i n)
             (let* ((s (spec i)) (k (car s)) (a (cdr s)) (v (vector-ref objs i)))
               (case k
                 ((0) (set-car! v (vector-ref objs (car a))) (set-cdr! v (vector-ref objs (cadr a))))
                 ((1) (let lp2 ((j 0) (a a))
                        (cond ((pair? a) (vector-set! v j (vector-ref objs (car a))) (lp2 (+ j 1) (cdr a))))))))
             (lp (+ i 1)))))
    (vector-ref objs root)))

;; ---------------------------------------------------------------- writers / readers
(define (write-to-string w x)
  (let ((p (open-output-string)))
    (w x p)
    (get-output-string p)))

(define writers
  (list (list "native" native-write 1)
        (list "simple" w:write-simple 2)
        (list "write" w:write 4)
        (list "shared" w:write-shared 8)))
(define readers
  (list (cons "native" native-read)
        (cons "ss" r:read)))

(define (event-read id wname rname rd text)
  (put "{\"e\":\"Read\",\"id\":") (put-int id)
  (put ",\"w\":\"") (put wname) (put "\",\"r\":\"") (put rname) (put "\"")
  (let* ((p (open-input-string text))
         (y (guard (e (#t (cons 'c08-error e))) (list (rd p)))))
    (cond
     ((and (pair? y) (eq? (car y) 'c08-error))
      (put ",\"ok\":0,\"g\":{\"r\":0,\"n\":[]},\"rest\":0"))
     (else
      (let ((t (guard (e (#t #f)) (table (car y)))))
        (cond
         (t (put ",\"ok\":1,\"g\":") (put-table t))
         (else (put ",\"ok\":2,\"g\":{\"r\":0,\"n\":[]}"))))
      (let ((z (guard (e (#t 'c08-error)) (rd p))))
        (put ",\"rest\":")
        (put-int (cond ((eof-object? z) 1) ((eq? z 'c08-error) 2) (else 0)))))))
  (put "}\n"))

(define (run-rt file)
  (call-with-input-file file
    (lambda (in)
      (let lp ()
        (let ((c (native-read in)))
          (cond
           ((not (eof-object? c))
            (let* ((id (car c)) (root (cadr c)) (specs (cddr c)) (cyclic (= 1 (car (car specs))))
                   (mask (cadr (car specs)))
                   (specs (cdr specs)))
              (put "{\"e\":\"Begin\",\"id\":") (put-int id) (put "}\n")
              (flush-output-port out)
              (let ((x (build-nodes root specs)))
                (put "{\"e\":\"Datum\",\"id\":") (put-int id) (put ",\"g\":") (put-table (table x)) (put "}\n")
                (for-each
                 (lambda (w)
                   (cond
                    ((and cyclic (member (car w) '("native" "simple"))))   ; not meaningful on cycles
                    ((even? (quotient mask (car (cddr w)))))
                    (else
                     (let ((text (guard (e (#t #f)) (write-to-string (cadr w) x))))
                       (put "{\"e\":\"Write\",\"id\":") (put-int id)
                       (put ",\"w\":\"") (put (car w)) (put "\",\"ok\":") (put-int (if text 1 0))
                       (put ",\"t\":") (put-ints (if text (string->cps text) '())) (put "}\n")
                       (if text
                           (for-each (lambda (r) (event-read id (car w) (car r) (cdr r) text)) readers))))))
                 writers))
              (put "{\"e\":\"End\",\"id\":") (put-int id) (put "}\n")
              (flush-output-port out))
            (lp))))))))

(define (run-txt file)
  (call-with-input-file file
    (lambda (in)
      (let lp ()
        (let ((c (native-read in)))
          (cond
           ((not (eof-object? c))
            (let* ((id (car c)) (text (list->string (map integer->char (cdr c)))))
              (put "{\"e\":\"Begin\",\"id\":") (put-int id) (put "}\n")
              (put "{\"e\":\"Text\",\"id\":") (put-int id) (put ",\"t\":") (put-ints (cdr c)) (put "}\n")
              (flush-output-port out)
              (for-each (lambda (r) (event-read id "text" (car r) (cdr r) text)) readers)
              (put "{\"e\":\"End\",\"id\":") (put-int id) (put "}\n")
              (flush-output-port out))
            (lp))))))))

(let ((args (cdr (command-line))))
  (put "{\"e\":\"Info\",\"simple_is_native\":") (put-int (if (eq? w:write-simple native-write) 1 0)) (put "}\n")
  (cond
   ((equal? (car args) "rt") (run-rt (cadr args)))
   ((equal? (car args) "txt") (run-txt (cadr args)))
   (else (error "usage"))))
