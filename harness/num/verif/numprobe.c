/* (verif numprobe) -- foreign helpers for the C04 driver, built by the check against /repo's headers.
   Moves IEEE doubles in and out of Scheme as four 16-bit words without any arithmetic of the
   implementation under test being involved.  Not a repo change. */
#include <chibi/eval.h>
#include <string.h>
#include <stdint.h>

static sexp np_double_to_words (sexp ctx, sexp self, sexp_sint_t n, sexp x) {
  double d; uint64_t u; int i;
  sexp_gc_var1(res);
  sexp_assert_type(ctx, sexp_flonump, SEXP_FLONUM, x);
  d = sexp_flonum_value(x);
  memcpy(&u, &d, 8);
  sexp_gc_preserve1(ctx, res);
  res = SEXP_NULL;
  for (i = 0; i < 4; i++)        /* least significant word first, consed to the front */
    res = sexp_cons(ctx, sexp_make_fixnum((u >> (16 * i)) & 0xFFFF), res);
  sexp_gc_release1(ctx);
  return res;
}

static sexp np_words_to_double (sexp ctx, sexp self, sexp_sint_t n, sexp w3, sexp w2, sexp w1, sexp w0) {
  double d; uint64_t u;
  sexp_assert_type(ctx, sexp_fixnump, SEXP_FIXNUM, w3);
  sexp_assert_type(ctx, sexp_fixnump, SEXP_FIXNUM, w2);
  sexp_assert_type(ctx, sexp_fixnump, SEXP_FIXNUM, w1);
  sexp_assert_type(ctx, sexp_fixnump, SEXP_FIXNUM, w0);
  u = ((uint64_t)(sexp_unbox_fixnum(w3) & 0xFFFF) << 48) | ((uint64_t)(sexp_unbox_fixnum(w2) & 0xFFFF) << 32)
    | ((uint64_t)(sexp_unbox_fixnum(w1) & 0xFFFF) << 16) | (uint64_t)(sexp_unbox_fixnum(w0) & 0xFFFF);
  memcpy(&d, &u, 8);
  return sexp_make_flonum(ctx, d);
}

static sexp np_fixnum_bits (sexp ctx, sexp self, sexp_sint_t n) {
  /* n is a fixnum iff -2^k <= n < 2^k, k = word size - tag bits - sign bit (SEXP_MAX_FIXNUM = 2^k - 1) */
  return sexp_make_fixnum(sizeof(sexp_sint_t) * 8 - SEXP_FIXNUM_BITS - 1);
}

sexp sexp_init_library (sexp ctx, sexp self, sexp_sint_t n, sexp env, const char* version, const sexp_abi_identifier_t abi) {
  if (!(sexp_version_compatible(ctx, version, sexp_version) && sexp_abi_compatible(ctx, abi, SEXP_ABI_IDENTIFIER)))
    return SEXP_ABI_ERROR;
  sexp_define_foreign(ctx, env, "double->words", 1, np_double_to_words);
  sexp_define_foreign(ctx, env, "words->double", 4, np_words_to_double);
  sexp_define_foreign(ctx, env, "fixnum-value-bits", 0, np_fixnum_bits);
  return SEXP_VOID;
}
