(define-library (verif numprobe)
  (export double->words words->double fixnum-value-bits)
  (import (scheme base))
  (include-shared "numprobe"))
