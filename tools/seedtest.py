#!/usr/bin/env python3
"""tools/seedtest.py <patch.diff> <Cxx> [tier]  -- run one check against /repo's HEAD + a seeded change.
Uses a scratch worktree (VERIF_REPO) so that /repo itself is never modified; prints the tail of the check output
and whether a VIOLATION was reported.  Equivalent to `git -C /repo apply p; ./check Cxx; git -C /repo checkout -- .`"""
import os, subprocess, sys, shutil, json, time
patch, prop = sys.argv[1], sys.argv[2]
tier = sys.argv[3] if len(sys.argv) > 3 else "quick"
wt = "/var/tmp/seedtest-%s-%d" % (prop, os.getpid())
subprocess.run(["git", "-C", "/repo", "worktree", "add", "-q", "--detach", wt, "HEAD"], check=True)
try:
    r = subprocess.run(["git", "-C", wt, "apply", os.path.abspath(patch)], stdout=subprocess.PIPE, stderr=subprocess.STDOUT)
    if r.returncode != 0:
        print("PATCH DOES NOT APPLY:", r.stdout.decode()[-500:]); sys.exit(3)
    env = dict(os.environ, VERIF_REPO=wt, VERIF_TIER=tier, VERIF_EVIDENCE="/var/tmp/seed-evidence")
    t0 = time.time()
    p = subprocess.run(["./check", prop, "--tier", tier], cwd="/verif", env=env, stdout=subprocess.PIPE, stderr=subprocess.STDOUT)
    out = p.stdout.decode(errors="replace")
    viol = [l for l in out.splitlines() if l.startswith("VIOLATION")]
    keys = [l.strip() for l in out.splitlines() if l.strip().startswith("key=")]
    print(json.dumps({"property": prop, "patch": patch, "exit": p.returncode, "violations": len(viol), "keys": [k[:200] for k in keys[:6]],
                      "seconds": round(time.time() - t0)}, indent=1))
    if p.returncode not in (0, 1):
        print(out[-1500:])
finally:
    subprocess.run(["git", "-C", "/repo", "worktree", "remove", "--force", wt])
    shutil.rmtree(wt, ignore_errors=True)
