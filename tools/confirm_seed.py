#!/usr/bin/env python3
"""tools/confirm_seed.py <mutant-dir> <Cxx> <name>  -- independently confirm a seeded change, store it under
/verif/seeded/<name>/ and run the property's check against it.
 1. unchanged build (cached at /var/tmp/seed-base-build) : demo must PASS
 2. worktree + patch: must build, the repository's ctest must pass (91/91), demo must FAIL
 3. ./check <Cxx> --tier quick with VERIF_REPO=<worktree>: VIOLATION expected
Everything under /var/tmp is removed afterwards."""
import json, os, shutil, subprocess, sys, time
src, prop, name = sys.argv[1], sys.argv[2], sys.argv[3]
props = sys.argv[4].split(",") if len(sys.argv) > 4 else [prop]
dest = "/verif/seeded/%s" % name
os.makedirs(dest, exist_ok=True)
for f in ([] if os.path.realpath(src) == os.path.realpath(dest) else os.listdir(src)):
    if os.path.isfile(os.path.join(src, f)):
        shutil.copy(os.path.join(src, f), dest)
    elif os.path.isdir(os.path.join(src, f)) and not f.endswith("build"):
        shutil.copytree(os.path.join(src, f), os.path.join(dest, f), dirs_exist_ok=True)
meta = json.load(open(os.path.join(dest, "meta.json")))
log = {}

def sh(cmd, **kw):
    return subprocess.run(cmd, stdout=subprocess.PIPE, stderr=subprocess.STDOUT, **kw)

base = "/var/tmp/seed-base-build"
if not os.path.exists(os.path.join(base, "chibi-scheme")):
    sh(["cmake", "-G", "Ninja", "-S", "/repo", "-B", base]); sh(["ninja", "-C", base])
wt = "/var/tmp/seedwt-%s" % name
bd = wt + "-build"
sh(["git", "-C", "/repo", "worktree", "remove", "--force", wt]); shutil.rmtree(wt, ignore_errors=True); shutil.rmtree(bd, ignore_errors=True)
sh(["git", "-C", "/repo", "worktree", "add", "-q", "--detach", wt, "HEAD"])
try:
    r = sh(["git", "-C", wt, "apply", os.path.join(dest, "patch.diff")])
    log["applies"] = r.returncode == 0
    r = sh(["bash", os.path.join(dest, "run.sh"), base], cwd=dest, timeout=1200, env=dict(os.environ, CHIBI_SRC="/repo"))
    log["demo_unchanged_exit"] = r.returncode
    sh(["cmake", "-G", "Ninja", "-S", wt, "-B", bd])
    r = sh(["ninja", "-C", bd]); log["builds"] = r.returncode == 0
    r = sh(["ctest", "--test-dir", bd, "-j6", "--timeout", "900"], timeout=3000)
    tail = r.stdout.decode(errors="replace")[-400:]
    log["ctest"] = "100% tests passed" in tail
    log["ctest_tail"] = tail.strip().splitlines()[-4:]
    r = sh(["bash", os.path.join(dest, "run.sh"), bd], cwd=dest, timeout=1200, env=dict(os.environ, CHIBI_SRC=wt))
    log["demo_changed_exit"] = r.returncode
    log["confirmed"] = bool(log["applies"] and log["builds"] and log["ctest"] and log["demo_unchanged_exit"] == 0 and log["demo_changed_exit"] != 0)
    checks = {}
    for p in props:
        t0 = time.time()
        r = sh(["./check", p, "--tier", "quick"], cwd="/verif", env=dict(os.environ, VERIF_REPO=wt, VERIF_EVIDENCE="/var/tmp/seed-evidence"))
        out = r.stdout.decode(errors="replace")
        checks[p] = {"exit": r.returncode, "violations": sum(1 for l in out.splitlines() if l.startswith("VIOLATION")),
                     "keys": [l.strip()[:220] for l in out.splitlines() if l.strip().startswith("key=")][:5], "seconds": round(time.time() - t0)}
        if r.returncode not in (0, 1):
            checks[p]["tail"] = out[-600:]
    log["checks"] = checks
finally:
    sh(["git", "-C", "/repo", "worktree", "remove", "--force", wt]); shutil.rmtree(wt, ignore_errors=True); shutil.rmtree(bd, ignore_errors=True)
meta["lead_confirmation"] = log
json.dump(meta, open(os.path.join(dest, "meta.json"), "w"), indent=1)
print(name, json.dumps(log)[:1500])
