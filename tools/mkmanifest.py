#!/usr/bin/env python3
"""Regenerates /verif/MANIFEST.json from the table below (one source of truth, validated against the schema)."""
import json, os, subprocess, sys
HERE = os.path.dirname(os.path.dirname(os.path.abspath(__file__)))

ALL = ["C%02d" % i for i in range(1, 21)]

CLAIMED = {
    "C02": dict(
        engine="heap",
        technique="TLA+ model checking (TLC) of Heap.tla rooting discipline + TLC-generated behaviours replayed on the real collector (HeapTrace.tla) + forced-collection schedule sweep of real programs validated by TLC (HeapSummary.tla: every collection well-formed, output equals the reference run)",
        category="model_checking",
        text="Heap.tla models roots exactly as the code has them (context registers, saves stack of registered C locals) with Collect enabled between any two mutator steps; "
             "NoPrematureFree/HeldValid are model checked (and shown to fail, as a negative test, when an unregistered local is held across an allocation). The real collector is driven "
             "along TLC-generated behaviours and its heap compared object by object after every step. Real programs touching the allocating C primitives are run under forced-collection "
             "schedules (every allocation of sliding windows, every n-th with phases, seeded random, and a collection at each of the N allocations that follow a large allocation, i.e. right after a stack / vector / string / table grew; freed memory poisoned) and TLC accepts a run only if every post-GC heap walk is clean and "
             "its output and exit status equal those of the reference run. A rejected run is bisected to the fatal collection and keyed by the C function holding the unrooted value.",
        design_ref="5/C02",
        note="The quick tier puts a collection before every allocation of every program (every=2, both phases) plus a seeded sparse schedule and the after-growth schedules; thorough adds every=1 and more frequencies and three heap sizes; programs are a fixed catalogue of 13 in harness/scm/gcprogs (C primitives of the core and of the C-backed libraries); a rejected run is reported only if it fails again when repeated; "
             "collections are armed only after library loading (bootstrap keeps raw C strings in traced slots by design). Trusted: TLC, hooks H1-H3."),
    "C16": dict(
        engine="heap",
        technique="TLA+ model checking (TLC) of Heap.tla (ephemeron rule, finalizers) and Fd.tla + TLC-generated ephemeron/finalizer behaviours replayed on the real collector (HeapTrace.tla) + descriptor histories of the real interpreter validated by TLC (FdTrace.tla)",
        category="model_checking",
        text="The ephemeron rule (value traced iff key reachable, fixpoint), broken-iff-key-reclaimed, and finalize-exactly-the-dead-once are actions/invariants of Heap.tla, model checked on small "
             "configurations and used by TLC to accept or reject every step of TLC-generated behaviours executed on the real sexp_gc (micro heap: ephemerons, a finalizable type with a logging finalizer). "
             "Fd.tla states descriptor ownership: closed exactly once, only by an explicit close of a reachable owner or by a finalizer of an unreachable one, all dropped owners closed by the next collection; "
             "seeded histories of file/fileno ports (incl. forced collections at arbitrary points and an EMFILE exhaustion loop under ulimit) are validated event by event with /proc/self/fd as ground truth.",
        design_ref="5/C16",
        note="Weak hash tables of (chibi weak) are covered only through the ephemeron primitive they are built on. Trusted: TLC, hooks H2/H7, the driver's scrubbing of VM temporaries."),
    "C10": dict(
        engine="heap",
        technique="TLA+ model checking (TLC) of Heap.tla + TLC-generated behaviours replayed on the real allocator/collector and validated by TLC trace validation (HeapTrace.tla); whole-program GC traces validated by HeapSummary.tla",
        category="model_checking",
        text="Heap.tla (segments, free lists, objects, roots, collect, grow) is model checked exhaustively on focused small configurations; "
             "TLC-generated action sequences are executed on the real sexp_alloc/sexp_gc/sexp_grow_heap on a micro heap and every step's full projected heap state "
             "is accepted or rejected by TLC against the same actions with Tiling/FreeSorted/RefsValid/NoLeak evaluated at every state; every collection of whole-program "
             "workloads is validated against the summary spec (tiling sums, anomaly counters of the post-GC walk, append-only segments, bounded growth). "
             "Preserve.tla specifies the embedding API's root multiset (sexp_preserve_object / sexp_release_object): histories in FIFO, LIFO and random release order, with repeated preservation and "
             "releases of unpreserved objects, are run through harness/c/preserve.c and TLC accepts a collection only if it reclaimed exactly the objects without an outstanding preservation.",
        design_ref="5/C10",
        note="Trusted: TLC, the JSON trace reader, the projection code of the harness and of hook H2 (itself cross-checked against the model on the micro heap). "
             "Default 64-bit non-Boehm configuration only; fragmentation quality not decided."),
}

PENDING_REASON = "check not built yet in this round (see DESIGN.md section 8 for the build order); not claimed"


def main():
    # property checks contributed as checks/cxx.manifest.json are included once listed in APPROVED
    for pid in APPROVED:
        f = os.path.join(HERE, "checks", pid.lower() + ".manifest.json")
        if os.path.exists(f) and pid not in CLAIMED:
            CLAIMED[pid] = json.load(open(f))
    checks = []
    for pid in ALL:
        if pid not in CLAIMED:
            continue
        c = CLAIMED[pid]
        checks.append({
            "property_id": pid,
            "quick_cmd": "./check %s --tier quick" % pid,
            "thorough_cmd": "./check %s --tier thorough" % pid,
            "evidence_file": "/verif/evidence/%s.json" % pid,
            "replay_cmd_template": "./check %s --replay {path}" % pid,
            "engine": c["engine"],
            "level_claimed": {"category": c["category"], "text": c["text"], "design_ref": c["design_ref"]},
            "level_note": c["note"],
            "technique": c["technique"],
        })
    hooks = subprocess.run(["git", "-C", "/repo", "log", "--format=%H %s"], stdout=subprocess.PIPE).stdout.decode().splitlines()
    hook_commits = [l.split()[0] for l in hooks if " verif hook" in l]
    m = {
        "version": 1,
        "setup_cmd": "./check --setup",
        "hooks": {
            "guard": "CHIBI_VERIF",
            "enable": "out-of-tree scratch build: cmake -G Ninja -S /repo -B $SCRATCH -DCMAKE_C_FLAGS='-Wno-error -DCHIBI_VERIF=1' && ninja chibi-scheme chibi-compiled-libs (done by every check from /repo's working tree)",
            "baseline_off_cmd": "cmake --build /repo/_build && ctest --test-dir /repo/_build -j8 --timeout 900",
            "source_commits": hook_commits,
            "add_only": True,
        },
        "engines": [
            {"name": "heap", "path": "/verif/spec/Heap.tla", "serves_properties": ["C10", "C02", "C16"],
             "kind_free_text": "TLA+ spec of allocator/collector; TLC model checking, behaviour generation (-simulate), trace validation of the real gc.c"},
            {"name": "core", "path": "/verif/spec/Core.tla", "serves_properties": ["C03", "C05", "C06", "C07", "C09"],
             "kind_free_text": "definitional CESK machine in TLA+ run by TLC on generated programs; outputs of the real interpreter compared by TLC"},
            {"name": "prim", "path": "/verif/spec/Prim.tla", "serves_properties": ["C01"],
             "kind_free_text": "contract table of memory-indexing primitives; TLC-enumerated call space; session trace validation"},
            {"name": "ctx", "path": "/verif/spec/Ctx.tla", "serves_properties": ["C13"],
             "kind_free_text": "model of context isolation; pthread harness + trace validation (sampled OS schedules)"},
            {"name": "codec", "path": "/verif/spec/Codec.tla", "serves_properties": ["C19"], "kind_free_text": "index-arithmetic specs of codecs / accessors, strict JSON and CSV decoders in TLA+; trace validation"},
            {"name": "equiv-map", "path": "/verif/spec/Equiv.tla", "serves_properties": ["C15"], "kind_free_text": "graph equality, equivalence laws, finite-map model of hash tables; trace validation"},
            {"name": "import", "path": "/verif/spec/Import.tla", "serves_properties": ["C14"], "kind_free_text": "set algebra of R7RS import sets and library instantiation; TLC as case generator; trace validation"},
            {"name": "text", "path": "/verif/spec/Regex.tla", "serves_properties": ["C20", "C12", "C08", "C04", "C17"], "kind_free_text": "SRE denotation by Brzozowski derivatives and a split-based definition, cross-checked by TLC; TLC-generated cases; trace validation"},
            {"name": "num", "path": "/verif/spec/BigNat.tla", "serves_properties": ["C04", "C17", "C09"], "kind_free_text": "digit-sequence integers/rationals with defining relations, SRFI 151 as infinite two's-complement bit strings; checked against TLC integers at base 4; trace validation at base 2^10"},
            {"name": "sched", "path": "/verif/spec/Sched.tla", "serves_properties": ["C11"],
             "kind_free_text": "TLA+ transcription of the green-thread scheduler and SRFI 18 primitives; MC with liveness; trace validation under forced time slices"},
        ],
        "checks": checks,
        "not_applicable": [{"property_id": p, "reason": NA.get(p, PENDING_REASON)} for p in ALL if p not in CLAIMED],
        "notes": "Every check builds /repo's working tree out of tree with -DCHIBI_VERIF=1, runs TLC on the specifications under /verif/spec and validates traces of the real code with TLC. "
                 "Exit 0 = held, exit 1 + VIOLATION line = violated, exit 2 = broken machinery (never a verdict). known-findings.json lists genuine defects.",
    }
    with open(os.path.join(HERE, "MANIFEST.json"), "w") as f:
        json.dump(m, f, indent=1)
    try:
        import jsonschema
        jsonschema.validate(m, json.load(open("/root/.vp/MANIFEST.schema.json")))
        print("MANIFEST.json valid;", len(checks), "checks claimed")
    except ImportError:
        print("jsonschema not available; MANIFEST.json written")


NA = {}
APPROVED = ["C11", "C03", "C05", "C06", "C09", "C01", "C13", "C07", "C19", "C15", "C14", "C20", "C12", "C08", "C04", "C17", "C18"]

if __name__ == "__main__":
    main()
