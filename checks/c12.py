"""C12 -- strings are sequences of Unicode scalar values whatever the byte encoding.

   spec/Str.tla (+ Utf8.tla) states the semantics: string registers are sequences of code points, every
   string operation is an action on them, the byte encoding is the arithmetic function Utf8.  TLC
     * model checks the specification on small constants (LenIsCount, Utf8RoundTrip, CursorIndexBijection,
       ErrKeepsState) -- focused configurations StrMC_*.cfg;
     * enumerates / simulates the cases (StrEnum.tla: every width-changing string-set! on every string of
       length <= 3 over the boundary alphabet, the reader cases, the error-class calls; StrGen.tla: seeded
       random histories of <= 40 operations, three profiles);
     * validates what the real interpreter did: harness/scm/strdrv.scm interprets the histories on real
       strings and logs every register after every step, StrTrace.tla accepts or rejects every history;
       harness/scm/strsweep.scm pushes every scalar value through char->string->utf8->string->char and
       StrSweep.tla validates every code point (and that none is missing).
   python orchestrates, converts formats and classifies rejected cases into keys; it never decides."""
import collections, hashlib, json, math, os, re, shutil, subprocess, sys, threading, time
from concurrent.futures import ThreadPoolExecutor
sys.path.insert(0, os.path.join(os.path.dirname(os.path.abspath(__file__)), "..", "lib"))
import vlib
from vlib import Broken

DRV = os.path.join(vlib.VERIF, "harness", "scm", "strdrv.scm")
SWEEP = os.path.join(vlib.VERIF, "harness", "scm", "strsweep.scm")
ALL_OPS = ["MakeString", "FromList", "String", "FromVector", "FromBytes", "ReadEsc", "ReadRaw", "FromUtf8", "Length", "Ref",
           "Set", "Substring", "Copy", "Append", "Append3", "CopyBang", "Fill", "ToList", "ToVector", "ToUtf8", "Cmp",
           "Reverse", "TakeDrop", "CurStart", "CurEnd", "CurNext", "CurPrev", "CurForward", "CurBack", "CurFromIndex",
           "CurRef", "CurInfo", "CurCmp", "SubstringCursor", "CurRefOn", "CurIndexOn", "IndexOf", "IndexRight", "OpenIn",
           "ReadChar", "PeekChar", "ReadString", "OpenOut", "WriteChar", "WriteString", "GetOut", "FileRT"]
MC_ACTIONS = ["MakeString", "FromList", "StringOf", "FromVector", "FromBytes", "FromUtf8", "ReadEsc", "ReadRaw", "Length",
              "Ref", "Set", "Substring", "Copy", "Append2", "Append3", "CopyBang", "Fill", "ToList", "ToVector", "ToUtf8",
              "Cmp", "StrReverse", "TakeDrop", "CurStart", "CurEnd", "CurNext", "CurPrev", "CurForward", "CurBack",
              "CurFromIndex", "CurRef", "CurInfo", "CurCmp", "SubstringCursor", "CurRefOn", "CurIndexOn", "IndexOf",
              "IndexRight", "OpenIn", "ReadChar", "PeekChar", "ReadString", "OpenOut", "WriteChar", "WriteString", "GetOut",
              "FileRT"]


SLOTS = threading.BoundedSemaphore(12)      # driver / TLC processes running at the same time
LOCK = threading.Lock()


# --------------------------------------------------------------------------
# cases
# --------------------------------------------------------------------------
class Case:
    __slots__ = ("id", "kind", "steps", "tag")

    def __init__(self, cid, kind, steps, tag=None):
        self.id, self.kind, self.steps, self.tag = cid, kind, steps, tag

    def to_json(self):
        return {"id": self.id, "kind": self.kind, "tag": self.tag, "steps": self.steps}


def sx(x):
    if isinstance(x, (list, tuple)):
        return "(" + " ".join(sx(y) for y in x) + ")"
    if isinstance(x, str):
        return '"%s"' % x
    return str(x)


def write_script(path, cases):
    with open(path, "w") as f:
        for c in cases:
            f.write("(%d %s)\n" % (c.id, " ".join(sx(s) for s in c.steps)))


def width(c):                       # used for *keys and coverage classes only*, never for a verdict
    return 1 if c < 0x80 else 2 if c < 0x800 else 3 if c < 0x10000 else 4


# --------------------------------------------------------------------------
# TLC as generator
# --------------------------------------------------------------------------
def gen_histories(sc, cfg, want, seed, workers=4, depth=120, timeout=300):
    num = max(1, math.ceil(want / workers))
    r = vlib.run_tlc("StrGen.tla", cfg, sc.path, workers=workers, simulate=num, depth=depth, seed=seed,
                     deadlock=False, timeout=timeout, heap="3g")
    if r.violated:
        raise Broken("StrGen (%s): invariant %s violated while generating:\n%s" % (cfg, r.violated, r.out[-3000:]))
    if r.error:
        raise Broken("StrGen (%s) failed: %s" % (cfg, r.error[:2000]))
    hs, seen = [], set()
    for line in r.out.splitlines():
        m = re.match(r'<<"HIST", "(.*)">>$', line.strip())
        if m:
            txt = m.group(1).replace('\\"', '"')
            if txt not in seen:
                seen.add(txt)
                hs.append(json.loads(txt))
    # TLC prints the history of every successor generated at depth D: drop proper prefixes
    hs.sort(key=lambda h: json.dumps(h))
    keep = []
    for i, h in enumerate(hs):
        nxt = hs[i + 1] if i + 1 < len(hs) else None
        if nxt is not None and len(nxt) > len(h) and nxt[:len(h)] == h:
            continue
        if h:
            keep.append(h)
    if not keep:
        raise Broken("StrGen (%s) produced no history:\n%s" % (cfg, r.out[-2000:]))
    return keep


def enumerate_cases(sc):
    d = sc.sub("enum")
    r = vlib.run_tlc("StrEnum.tla", "StrEnumErr.cfg", sc.path, env={"ENUMDIR": d}, workers=1, timeout=300, heap="3g", deadlock=False)
    if r.error or r.violated:
        raise Broken("StrEnum failed: %s %s" % (r.violated, (r.error or "")[:2000]))
    out = {}
    for n in ("SET", "SET4", "READER", "CMP", "COPY", "UTF8", "LONGSET", "ERRPREFIX"):
        p = os.path.join(d, n + ".json")
        if not os.path.exists(p):
            raise Broken("StrEnum did not write %s" % p)
        out[n] = json.load(open(p))
    errs, seen = [], set()
    for m in re.finditer(r'<<"ENUM", "ERR", "(.*)">>', r.out):
        txt = m.group(1).replace('\\"', '"')
        if txt not in seen:
            seen.add(txt)
            errs.append(json.loads(txt))
    if len(errs) < 100 or len(out["SET"]) != 13376:
        raise Broken("StrEnum enumerated too little: %d error cases, %d set cases" % (len(errs), len(out["SET"])))
    out["ERR"] = errs
    return out


# --------------------------------------------------------------------------
# running the driver, validating with TLC
# --------------------------------------------------------------------------
def parse_log(path):
    """events of a driver log; a truncated last line (crash) is dropped"""
    evs = []
    with open(path, errors="replace") as f:
        for line in f:
            line = line.strip()
            if not line:
                continue
            try:
                evs.append(json.loads(line))
            except ValueError:
                break
    return evs


def run_shard(build, sc, label, cases, timeout=600):
    """Runs the cases through the driver.  Returns (log path, crashed cases).  A crash/timeout of the
    interpreter loses the history it happened in (reported by the caller); the rest is re-run."""
    log = sc.file("log_%s.ndjson" % label)
    tmpf = sc.file("tmp_%s.txt" % label)
    crashed = []
    todo = list(cases)
    part = 0
    with open(log, "w") as out:
        while todo:
            script = sc.file("hist_%s_%d.scm" % (label, part))
            plog = sc.file("log_%s_%d.ndjson" % (label, part))
            write_script(script, todo)
            try:
                with open(plog, "w") as pf:
                    p = subprocess.run(build.cmd(DRV, script, tmpf), env=build.env(), cwd=vlib.REPO, stdout=pf,
                                       stderr=subprocess.PIPE, timeout=timeout)
                rc, err = p.returncode, p.stderr.decode(errors="replace")
            except subprocess.TimeoutExpired:
                rc, err = -9, "timeout"
            evs = parse_log(plog)
            done_ids = [e["id"] for e in evs if e.get("e") == "Reset"]
            if rc == 0 and len(done_ids) == len(todo):
                for e in evs:
                    out.write(json.dumps(e, separators=(",", ":")) + "\n")
                break
            if rc == 0:
                raise Broken("driver exited 0 but logged %d of %d histories (%s): %s" % (len(done_ids), len(todo), label, err[-500:]))
            if not done_ids:
                # died before logging anything: is the interpreter usable at all?
                try:
                    t = build.run(["-e", "(begin (write (+ 1 2)) (newline))"], timeout=60)
                    alive = t.returncode == 0 and t.stdout.strip() == b"3"
                except subprocess.TimeoutExpired:
                    alive = False
                if not alive or rc >= 0:
                    raise Broken("driver failed before the first history (%s): rc=%s %s" % (label, rc, err[-1500:]))
                crashed.append((todo[0], rc, -1, "died while loading the driver (literals, string library): " + err[-300:]))
                break
            # the history being executed when the process died
            k = len(done_ids) - 1
            victim = todo[k]
            nsteps = 0
            for e in reversed(evs):
                if e.get("e") == "Reset":
                    break
                nsteps += 1
            crashed.append((victim, rc, nsteps, err[-300:]))
            # keep the complete histories before it
            cut = max(i for i, e in enumerate(evs) if e.get("e") == "Reset")
            for e in evs[:cut]:
                out.write(json.dumps(e, separators=(",", ":")) + "\n")
            todo = todo[k + 1:]
            part += 1
            if part >= 4:
                # the interpreter keeps dying (memory corrupted by earlier steps): four crashes are reported,
                # the remaining histories of this shard are not run (and not counted as validated)
                break
    return log, crashed


def validate_log(sc, log, cfg="StrTrace.cfg", timeout=1200):
    r = vlib.run_tlc("StrTrace.tla", cfg, sc.path, env={"TRACE": log}, workers=1, timeout=timeout, heap="4g")
    rejected = {}
    for m in re.finditer(r'<<"HISTORY_REJECTED", (-?\d+), (\d+)>>', r.out):
        rejected.setdefault(int(m.group(1)), int(m.group(2)))
    return r, rejected


def campaign(chk, build, sc, name, cases, cfg="StrTrace.cfg", shards=8, stats=None, prefix=""):
    """Runs and validates a list of cases.  Returns number of accepted cases; reports the rejected ones."""
    if not cases:
        return 0
    byid = {c.id: c for c in cases}
    nev = sum(len(c.steps) + 1 for c in cases) * (4 if "Long" in cfg else 1)
    n = max(1, min(shards, nev // 7000 + 1, len(cases)))
    parts = [cases[i::n] for i in range(n)]

    def work(i):
        with SLOTS:
            return work1(i)

    def work1(i):
        label = "%s_%d" % (name, i)
        # a shard takes a few seconds; a build variant whose memory gets corrupted may also hang
        log, crashed = run_shard(build, sc, label, parts[i], timeout=150 if prefix else 600)
        evs = parse_log(log)
        if not evs:
            return label, log, crashed, None, {}, evs
        cfg_i = cfg
        r, rejected = validate_log(sc, log, cfg_i)
        if rejected:
            # rule out tool flakiness: the verdict must be reproducible
            r2, rejected2 = validate_log(sc, log, cfg_i)
            if rejected2 != rejected:
                raise Broken("TLC verdict on %s not reproducible: %s vs %s" % (log, rejected, rejected2))
        return label, log, crashed, r, rejected, evs
    results = vlib.parallel(work, list(range(n)), jobs=min(n, 8))
    accepted = 0
    rejected_all = []
    for label, log, crashed, r, rejected, evs in results:
        for victim, rc, nsteps, err in crashed:
            op = victim.steps[nsteps][0] if 0 <= nsteps < len(victim.steps) else "?"
            key = "%scrash:%s" % (prefix, "driver-startup" if nsteps < 0 else victim.kind)
            with LOCK:
                bykey = chk.cov.setdefault("rejections_by_key", {})
                bykey[key] = bykey.get(key, 0) + 1
                if bykey[key] > 3:
                    continue
            chk.report(key, "the interpreter died (rc=%s) during step %d (%s) of a %s history" % (rc, nsteps + 1, op, victim.kind),
                       "crash_%s_%d.json" % (name, victim.id), {"key": key, "case": victim.to_json(), "variant": prefix, "rc": rc, "step": nsteps, "stderr": err})
        if r is None:
            continue
        if r.violated:
            p = chk.save_replay("tlc_%s.txt" % label, r.out[-20000:])
            chk.violations.append(("an invariant of Str.tla (%s) fails on a state reached by the implementation trace %s" % (r.violated, label), p, "%s%s:invariant:%s" % (prefix, name, r.violated)))
            continue
        if r.error and "Postcondition" not in r.error:
            raise Broken("StrTrace failed on %s: %s" % (log, r.error[:2500]))
        if not r.ok:
            raise Broken("StrTrace did not consume the log %s: %s" % (log, r.out[-1500:]))
        ids = [e["id"] for e in evs if e.get("e") == "Reset"]
        nsteps = sum(1 for e in evs if e.get("e") == "Step")
        if r.depth != len(evs) + 1:
            raise Broken("StrTrace consumed %d of %d events of %s" % (r.depth - 1, len(evs), log))
        accepted += len(ids) - len(rejected)
        if stats is not None:
            stats["rejected_ids"] |= set(rejected)
            stats["steps"] += nsteps
            cur = None
            for e in evs:
                if e.get("e") == "Reset":
                    cur = e["id"]
                else:               # judged by TLC (accepted or part of a rejected history)
                    stats["ops"][e["op"]] += 1
                    if e["err"]:
                        stats["errsteps"] += 1
                    if any(cp >= 128 for reg in e["cp"] for cp in reg):
                        stats["nonascii_ids"].add(cur)
                    if e["op"] == "Set" and not e["err"]:
                        stats["set_ok"] += 1
        for cid, at in rejected.items():
            rejected_all.append((byid[cid], evs[at - 1] if 0 < at <= len(evs) else {}, evs, at))
    with LOCK:
        report_rejections(chk, name, rejected_all, prefix)
    return accepted


def report_rejections(chk, name, rejected, prefix=""):
    """classify every rejected case into a structural key; the first cases of a key are reported
    (VIOLATION or known finding), all are counted in the evidence"""
    bykey = chk.cov.setdefault("rejections_by_key", {})
    # attribute reader cases to single characters where a one-character case already failed
    badchars = collections.defaultdict(set)
    # once a string-set! with a negative index went through (a write before the buffer), the process memory is
    # damaged: later rejections of the same driver process are keyed as its consequence, not as new structures
    first_oob = {}
    for case, ev, evs, at in rejected:
        if ev.get("op") == "Set" and ev.get("err") == 0 and ev["a"][1] < 0:
            first_oob[id(evs)] = min(at, first_oob.get(id(evs), at))
    for case, ev, evs, at in sorted(rejected, key=lambda x: len(x[1].get("l") or [])):
        op = ev.get("op", "Reset")
        key = "%s%s" % (prefix, op)           # structural: what fails, not which campaign produced it
        if op == "Reset":
            key = prefix + "literal-table-differs"
        elif case.kind == "reader":
            l = ev.get("l") or []
            if op in ("ReadEsc", "ReadRaw"):
                key += ":native-reader" if ev["a"][1] == 0 else ":scheme-read"
            hit = [c for c in l if c in badchars[op]]
            if len(l) == 1:
                badchars[op].add(l[0])
                key += ":U+%04X" % l[0]
            elif hit:
                key += ":U+%04X" % hit[0]
            else:
                key += ":" + "-".join("U+%04X" % c for c in l)
        elif case.kind == "errclass" and ev.get("err") == 0 and case.steps and case.steps[-1][0] == op:
            key += ":no-error"
        elif case.kind == "set" and op == "Set":
            s, i, c = case.tag
            pos = "only" if len(s) == 1 else "first" if i == 0 else "last" if i == len(s) - 1 else "middle"
            key += ":w%dto%d:%s" % (width(s[i]), width(c), pos)
        elif ev.get("err") == 1:
            key += ":raised"
        if op == "Cmp" and any(0 in ev["cp"][r - 1] for r in ev["a"] if r <= 3):
            key += ":operand-has-U+0000"
        if op in ("Ref", "Set", "CurFromIndex") and ev.get("err") == 0 and ev["a"][2 if op == "CurFromIndex" else 1] < 0:
            key = "%s%s:negative-index-accepted" % (prefix, op)
        elif ev.get("e") == "Step" and ev.get("cp") != ev.get("ref") and not any(x == [-2] for x in ev["cp"] + ev["ref"]):
            # two observations of the implementation disagree with each other
            key = prefix + "string-ref-disagrees-with-string->list"
        if prefix == "indextable:" and ev.get("e") == "Step" and max(ev["len"]) >= 128 and not key.endswith(":no-error"):
            # whatever operation notices it first: the index table of a string of 128 or more characters
            key = prefix + "index-lookup-on-string-of-128-or-more-characters"
        if id(evs) in first_oob and at > first_oob[id(evs)] and "negative-index-accepted" not in key:
            key = prefix + "after-out-of-bounds-write"
        bykey[key] = bykey.get(key, 0) + 1
        if bykey[key] > 3:
            continue
        # the history up to the rejected event, as the implementation logged it
        start = at - 1
        while start > 0 and evs[start].get("e") != "Reset":
            start -= 1
        chk.report(key, "%s history %d rejected by Str.tla at step %d: %s" % (case.kind, case.id, at - start - 1, json.dumps({k: ev.get(k) for k in ("op", "a", "l", "err", "out")})),
                   "%s%s_%d.json" % (prefix.replace(":", "_"), name, case.id),
                   {"key": key, "case": case.to_json(), "variant": prefix, "rejected_step": at - start - 1, "rejected_event": ev,
                    "log_before": evs[max(start, at - 6):at - 1]})


# --------------------------------------------------------------------------
# scalar value sweep
# --------------------------------------------------------------------------
def sweep_chunk(build, sc, lo, hi, label):
    log = sc.file("sweep_%s.ndjson" % label)
    with open(log, "w") as f:
        try:
            p = subprocess.run(build.cmd(SWEEP, str(lo), str(hi)), env=build.env(), cwd=vlib.REPO, stdout=f, stderr=subprocess.PIPE, timeout=600)
            rc = p.returncode
        except subprocess.TimeoutExpired:
            rc = -9
    return log, rc


def validate_sweep(sc, log):
    r = vlib.run_tlc("StrSweep.tla", "StrSweep.cfg", sc.path, env={"TRACE": log}, workers=1, timeout=900, heap="4g")
    bad = [(int(a), int(b)) for a, b in re.findall(r'<<"BLOCK_REJECTED", (\d+), (\d+)>>', r.out)]
    return r, sorted(set(bad))


def sweep(chk, build, sc, planes):
    def work(pl):
        with SLOTS:
            return work1(pl)

    def work1(pl):
        lo, hi = pl * 65536, (pl + 1) * 65536
        log, rc = sweep_chunk(build, sc, lo, hi, "p%d" % pl)
        evs = parse_log(log)
        if rc != 0 or not evs or evs[0] != {"e": "SweepBegin", "from": lo} or evs[-1] != {"e": "SweepEnd", "to": hi}:
            return pl, log, rc, None, [], evs
        r, bad = validate_sweep(sc, log)
        return pl, log, rc, r, bad, evs
    total = 0
    for pl, log, rc, r, bad, evs in vlib.parallel(work, planes, jobs=8):
        if r is None:
            key = "sweep:crash"
            chk.report(key, "the sweep driver died / was cut short on plane %d (rc=%s)" % (pl, rc), "sweep_crash_p%d.json" % pl,
                       {"key": key, "plane": pl, "rc": rc, "last_event": (evs[-1] if evs else None) and {k: v for k, v in evs[-1].items() if k in ("e", "from", "n")}})
            continue
        if r.error and "Postcondition" not in r.error:
            raise Broken("StrSweep failed on plane %d: %s" % (pl, r.error[:2000]))
        if not r.ok or r.depth != len(evs) + 1:
            raise Broken("StrSweep did not consume the log of plane %d (coverage gap?): %s" % (pl, r.out[-1500:]))
        n = sum(e["n"] for e in evs if e.get("e") == "Sweep")
        nbad = 0
        for frm, cnt in bad:
            # isolate the code points: one block per code point, validated again by TLC
            blk = [e for e in evs if e.get("e") == "Sweep" and e["from"] == frm][0]
            single = [{"e": "SweepBegin", "from": frm}]
            for k in range(cnt):
                single.append({"e": "Sweep", "from": frm + k, "n": 1, **{f: [blk[f][k]] for f in ("b1", "b2", "b3", "d1", "d2", "len")}})
            single.append({"e": "SweepEnd", "to": frm + cnt})
            p1 = sc.file("sweep_iso_%d.ndjson" % frm)
            vlib.write_ndjson(p1, single)
            r1, bad1 = validate_sweep(sc, p1)
            if r1.error and "Postcondition" not in r1.error:
                raise Broken("StrSweep failed while isolating block %d: %s" % (frm, r1.error[:1500]))
            if not bad1:
                raise Broken("StrSweep rejected block %d but none of its code points" % frm)
            for cp, _ in bad1:
                nbad += 1
                rec = {f: blk[f][cp - frm] for f in ("b1", "b2", "b3", "d1", "d2", "len")}
                key = "sweep:%d-byte" % width(cp)
                with LOCK:
                    bykey = chk.cov.setdefault("rejections_by_key", {})
                    bykey[key] = bykey.get(key, 0) + 1
                    if bykey[key] > 3:
                        continue
                chk.report(key, "U+%04X does not survive char->string->utf8->string->char: %s" % (cp, json.dumps(rec)),
                           "sweep_U+%04X.json" % cp, {"key": key, "cp": cp, "logged": rec})
        total += n - nbad
        chk.cov["traces_validated_against_impl"] += 1
    return total


# --------------------------------------------------------------------------
# self test of the binding (soundness rule 5): corrupted logs must be rejected
# --------------------------------------------------------------------------
def selftest(chk, sc, good_log):
    # material: histories of this run that TLC accepts (on a defective implementation some are not)
    r0, rejected0 = validate_log(sc, good_log)
    evs = parse_log(good_log)
    hists, cur = [], []
    for e in evs:
        if e.get("e") == "Reset" and cur:
            hists.append(cur)
            cur = []
        cur.append(e)
    if cur:
        hists.append(cur)
    hists = [h for h in hists if h[0].get("e") == "Reset" and h[0]["id"] not in rejected0 and len(h) >= 8
             and any(any(c >= 128 for c in reg) for reg in h[-1]["cp"])]
    if len(hists) < 8:
        if chk.violations or chk.known_hits:
            # the implementation is so far off that hardly any history is accepted: the violations speak for themselves
            chk.cov["selftest_corruptions_rejected"] = "skipped: fewer than 8 accepted histories to corrupt"
            return
        raise Broken("self test: not enough material in %s" % good_log)

    def mut_bytes(h):
        e = h[-1]; r = max(range(3), key=lambda k: len(e["b"][k])); e["b"][r][-1] ^= 1
    def mut_len(h):
        h[-1]["len"][0] += 1
    def mut_cp(h):
        e = h[-1]; r = max(range(3), key=lambda k: len(e["cp"][k])); e["cp"][r][0] += 1
    def mut_ref(h):
        e = h[-1]; r = max(range(3), key=lambda k: len(e["ref"][k])); e["ref"][r] = e["ref"][r][::-1] + [65]
    def mut_err(h):
        h[3]["err"] = 1 - h[3]["err"]
    def mut_out(h):
        h[-1]["out"] = h[-1]["out"] + [7]
    def mut_drop(h):
        k = next((i for i, e in enumerate(h) if e.get("op") in ("Set", "FromList", "MakeString", "Append", "String") and not e["err"] and i + 1 < len(h)), None)
        if k is None:
            h[-1]["len"][1] += 1
        else:
            del h[k]
            h[-1]["len"][0] += 0
    def mut_lits(h):
        h[0]["lits"][1] = [66]
    muts = [mut_bytes, mut_len, mut_cp, mut_ref, mut_err, mut_out, mut_lits]
    out, expect = [], []
    for i, m in enumerate(muts):
        h = json.loads(json.dumps(hists[i]))
        h[0]["id"] = 900000 + i
        m(h)
        out += h
        expect.append(900000 + i)
    # one untouched history must still be accepted
    h = json.loads(json.dumps(hists[7])); h[0]["id"] = 900099
    out += h
    p = sc.file("selftest.ndjson")
    vlib.write_ndjson(p, out)
    r, rejected = validate_log(sc, p)
    if r.error and "Postcondition" not in r.error:
        raise Broken("self test: StrTrace failed: %s" % r.error[:1500])
    if sorted(rejected) != expect:
        raise Broken("self test of the binding failed: corrupted histories %s, TLC rejected %s" % (expect, sorted(rejected)))
    chk.cov["selftest_corruptions_rejected"] = len(expect)
    # the sweep validator: one wrong byte, one wrong decoded value, one missing code point
    blocks = [{"e": "SweepBegin", "from": 2040},
              {"e": "Sweep", "from": 2040, "n": 2, "b1": [[223, 184], [223, 185]], "b2": [[223, 184], [223, 185]], "b3": [[223, 184], [223, 185]], "d1": [2040, 2041], "d2": [2040, 2041], "len": [1, 1]},
              {"e": "Sweep", "from": 2042, "n": 1, "b1": [[223, 187]], "b2": [[223, 186]], "b3": [[223, 186]], "d1": [2042], "d2": [2042], "len": [1]},
              {"e": "Sweep", "from": 2043, "n": 1, "b1": [[223, 187]], "b2": [[223, 187]], "b3": [[223, 187]], "d1": [2043], "d2": [2044], "len": [1]},
              {"e": "SweepEnd", "to": 2044}]
    p = sc.file("selftest_sweep.ndjson")
    vlib.write_ndjson(p, blocks)
    r, bad = validate_sweep(sc, p)
    if [b[0] for b in bad] != [2042, 2043] or not r.ok:
        raise Broken("self test of the sweep validator failed: %s %s" % (bad, r.out[-800:]))
    del blocks[2]
    vlib.write_ndjson(p, blocks)
    r, bad = validate_sweep(sc, p)
    if r.ok:
        raise Broken("self test: the sweep validator accepted a log with a missing code point")


# --------------------------------------------------------------------------
def mc_jobs(chk, sc, thorough):
    jobs = [("Cov", True, 2), ("A2", False, 2)]
    if thorough:
        jobs += [("A", False, 3), ("B3", False, 3), ("B", False, 3), ("C", False, 3), ("A3", False, 4)]

    def one(j):
        name, cov, w = j
        return j, vlib.run_tlc("StrMC.tla", "StrMC_%s.cfg" % name, sc.path, workers=w, coverage=cov, timeout=1500 if thorough else 600, heap="4g")
    return jobs, one


def finish_mc(chk, results):
    for (name, cov, w), r in results:
        vlib.require_tlc_ok(r, "StrMC_" + name)
        if r.violated:
            p = chk.save_replay("mc_%s.txt" % name, r.out[-20000:])
            chk.violations.append(("Str.tla (%s): %s violated in the model" % (name, r.violated), p, "model:" + r.violated))
            continue
        if r.distinct < 300:
            raise Broken("StrMC_%s explored only %d states" % (name, r.distinct))
        if cov:
            missing = [a for a in MC_ACTIONS if r.coverage.get(a, (0, 0))[1] == 0]
            if missing:
                raise Broken("StrMC_%s: vacuous model run, actions never enabled: %s" % (name, missing))
        chk.add_mc("StrMC_" + name, r)


def build_cases(chk, en, hist_main, hist_nul, hist_long):
    """cut TLC's enumerations / histories into cases"""
    nid = [0]

    def mk(kind, steps, tag=None):
        nid[0] += 1
        return Case(nid[0], kind, steps, tag)
    cons = ["FromList", "String", "FromBytes", "ReadRaw"]
    sets = []
    if chk.thorough:
        src = en["SET"] + en["SET4"]
    else:
        # quick: every string of length 1 and 2, a third of the length-3 strings rotating with the seed (each string
        # with all its positions and replacements), a sample of the length-4 cases
        third = chk.seed % 3
        src = [c for c in en["SET"] if len(c[0]) < 3 or sum(c[0]) % 3 == third] + chk.rng.sample(en["SET4"], 300)
    for k, (s, i, c, b) in enumerate(src):
        how = cons[k % 4]
        first = [how, [1, k % 2] if how == "ReadRaw" else [1], b if how == "FromBytes" else s]
        sets.append(mk("set", [first, ["Set", [1, i, c], []], ["Ref", [1, i], []]], (s, i, c)))
    reader = []
    for l in en["READER"]:
        for w in (0, 1):
            reader.append(mk("reader", [["ReadEsc", [1, w], l], ["Length", [1], []]]))
            if 34 not in l and 92 not in l:
                reader.append(mk("reader", [["ReadRaw", [1, w], l], ["Length", [1], []]]))
    errs = en["ERR"]
    if not chk.thorough:
        byop = collections.defaultdict(list)
        for e in errs:
            byop[e[0]].append(e)
        errs = []
        for op in sorted(byop):
            errs += byop[op] if len(byop[op]) <= 100 else chk.rng.sample(byop[op], 100)
    errc = [mk("errclass", en["ERRPREFIX"] + [e]) for e in errs]
    pairs = en["CMP"]
    if not chk.thorough:        # quick: every pair of strings that both contain U+0000, a sample of the others
        both = [p for p in pairs if 0 in p[0] and 0 in p[1]]
        rest = [p for p in pairs if not (0 in p[0] and 0 in p[1])]
        pairs = both + chk.rng.sample(rest, 300)
    cmpc = []
    for k, (x, y) in enumerate(pairs):
        cmpc.append(mk("cmp", [[("FromList", "String", "FromBytes")[k % 2], [1], x], ["FromList", [2], y], ["Cmp", [1, 2], []], ["Cmp", [2, 1], []], ["Cmp", [1, 1], []]]))
    copyc = []
    for s_, at, a, b in (en["COPY"] if chk.thorough else [c for k, c in enumerate(en["COPY"]) if k % 3 == chk.seed % 3]):
        form = 2 if (a, b) != (0, len(s_)) else chk.rng.randrange(3)
        form = 1 if form == 2 and b == len(s_) and chk.rng.randrange(2) else form
        copyc.append(mk("copy", [["FromList", [1], s_], ["CopyBang", [1, at, 1, form, a, b], []], ["ToUtf8", [1, 0, 0, len(s_)], []]]))
        copyc.append(mk("copy", [["FromList", [1], s_], ["String", [2], s_[::-1]], ["CopyBang", [1, at, 2, form, a, b], []], ["CopyBang", [2, at, 16, 2, 0, min(4, len(s_) - at)], []]]))
    for src_, i, j, bi, bj in en["UTF8"]:
        copyc.append(mk("utf8", [["FromUtf8", [1, src_, bi, bj], []], ["ToUtf8", [src_, 2, i, j], []], ["ToList", [src_, 2, i, j], []],
                                 ["Copy", [2, src_, 2, i, j], []], ["Substring", [3, src_, i, j], []]]))
    main = [mk("hist", h) for h in hist_main]
    nul = [mk("nul", h) for h in hist_nul]
    lng = [mk("long", h) for h in hist_long]
    for n, c1, i, c2 in (en["LONGSET"] if chk.thorough else chk.rng.sample(en["LONGSET"], 80)):
        lng.append(mk("longset", [["MakeString", [1, n, c1], []], ["Set", [1, i, c2], []], ["Ref", [1, n - 1], []],
                                  ["CurFromIndex", [1, 1, n - 1], []], ["CurInfo", [1], []], ["Substring", [3, 1, i, n], []]]))
    return sets, reader, errc, cmpc + copyc, main, nul, lng


def run():
    chk = vlib.Check("C12")
    T = chk.thorough
    # many JVMs run side by side: keep each one's helper threads few
    os.environ.setdefault("JAVA_TOOL_OPTIONS", "-XX:ParallelGCThreads=2 -XX:CICompilerCount=2")
    with vlib.Scratch("c12") as sc:
        pool = ThreadPoolExecutor(max_workers=6)
        jobs, one = mc_jobs(chk, sc, T)
        mc_f = [pool.submit(one, j) for j in jobs]
        build_f = pool.submit(vlib.build_repo, sc.sub("build"), "", True, ("chibi-scheme", "chibi-compiled-libs"), 6)
        # ---- GEN: TLC enumerates and simulates
        want = (5000, 600, 300) if T else (240, 60, 40)
        en_f = pool.submit(enumerate_cases, sc)
        g1 = pool.submit(gen_histories, sc, "StrGenMain.cfg", want[0], chk.seed * 7919 + 1, 4, 120, 1200)
        g2 = pool.submit(gen_histories, sc, "StrGenNul.cfg", want[1], chk.seed * 7919 + 2, 2, 120, 600)
        g3 = pool.submit(gen_histories, sc, "StrGenLong.cfg", want[2], chk.seed * 7919 + 3, 2, 120, 900)
        build = build_f.result()
        en, hist_main, hist_nul, hist_long = en_f.result(), g1.result(), g2.result(), g3.result()
        sets, reader, errc, cmpc, main, nul, lng = build_cases(chk, en, hist_main, hist_nul, hist_long)
        groups = [("set", sets, "StrTrace.cfg"), ("reader", reader, "StrTrace.cfg"), ("err", errc, "StrTrace.cfg"), ("cmp", cmpc, "StrTrace.cfg"),
                  ("hist", main, "StrTrace.cfg"), ("nul", nul, "StrTrace.cfg"), ("long", lng, "StrTraceLong.cfg")]
        stats = {"steps": 0, "ops": collections.Counter(), "errsteps": 0, "nonascii_ids": set(), "rejected_ids": set(), "set_ok": 0}
        acc = {}
        phase = chk.cov.setdefault("phase_seconds", {})
        phase["build+generate"] = round(time.time() - chk.t0, 1)
        pool2 = ThreadPoolExecutor(max_workers=8)
        allstats = {name: {"steps": 0, "ops": collections.Counter(), "errsteps": 0, "nonascii_ids": set(), "rejected_ids": set(), "set_ok": 0} for name, _, _ in groups}

        def timed(name, cases, cfg):
            t0 = time.time()
            a = campaign(chk, build, sc, name, cases, cfg, shards=8, stats=allstats[name])
            phase[name] = round(time.time() - t0, 1)
            return a
        if T:
            planes = list(range(17))
        else:
            planes = sorted({0, 1, 16, chk.rng.randrange(2, 16)})
        t0s = time.time()
        sweep_f = pool2.submit(sweep, chk, build, sc, planes)
        futs = {name: pool2.submit(timed, name, cases, cfg) for name, cases, cfg in groups}
        for name in futs:
            acc[name] = futs[name].result()
            st = allstats[name]
            stats["steps"] += st["steps"]; stats["errsteps"] += st["errsteps"]; stats["set_ok"] += st["set_ok"]
            stats["ops"].update(st["ops"]); stats["nonascii_ids"] |= st["nonascii_ids"]; stats["rejected_ids"] |= st["rejected_ids"]
        # ---- vacuity guards on what the implementation was actually driven through
        missing = [op for op in ALL_OPS if stats["ops"][op] == 0]
        if missing:
            raise Broken("operations never validated against the implementation: %s" % missing)
        if stats["set_ok"] < (10000 if T else 4000) or stats["errsteps"] < 200:
            raise Broken("too few string-set! / error-class steps validated: %d / %d" % (stats["set_ok"], stats["errsteps"]))
        # ---- binding self test on a real log of this run
        selftest(chk, sc, sc.file("log_hist_0.ndjson"))
        # ---- exhaustive scalar sweep
        ncp = sweep_f.result()
        phase["sweep"] = round(time.time() - t0s, 1)
        pool2.shutdown()
        chk.cov["sweep_planes"] = planes
        chk.cov["sweep_code_points_validated"] = ncp
        # ---- thorough: the same cases on the two string-index cache configurations of the implementation
        variants = {}
        if T:
            for vname, flag in (("indextable", "-DSEXP_USE_STRING_INDEX_TABLE=1"), ("refcache", "-DSEXP_USE_STRING_REF_CACHE=1")):
                vb = vlib.build_repo(sc.sub("build_" + vname), cflags=flag)
                vacc = 0
                for name, cases, cfg in (("set", sets[::4], "StrTrace.cfg"), ("err", errc[::3], "StrTrace.cfg"),
                                         ("hist", main[:1500], "StrTrace.cfg"), ("long", lng, "StrTraceLong.cfg")):
                    vacc += campaign(chk, vb, sc, "%s_%s" % (vname, name), cases, cfg, shards=8, prefix=vname + ":")
                variants[vname] = vacc
                shutil.rmtree(vb.path, ignore_errors=True)
            chk.cov["variant_builds_cases_accepted"] = variants
        # ---- MC results
        t0 = time.time()
        finish_mc(chk, [f.result() for f in mc_f])
        phase["waiting_for_mc"] = round(time.time() - t0, 1)
        pool.shutdown()
        # ---- evidence
        total_cases = sum(len(c) for _, c, _ in groups)
        nacc = sum(acc.values())
        chk.cov["traces_validated_against_impl"] += nacc
        chk.cov["cases"] = {name: {"run": len(cases), "accepted": acc[name]} for name, cases, _ in groups}
        chk.cov["steps_validated"] = stats["steps"]
        chk.cov["error_class_steps"] = stats["errsteps"]
        chk.cov["ops_exercised"] = dict(stats["ops"])
        chk.cov["evaluations"] = total_cases + len(planes) + sum(variants.values())
        distinct = {hashlib.sha1(json.dumps(c.steps).encode()).hexdigest() for _, cases, _ in groups for c in cases
                    if c.id in stats["nonascii_ids"] and c.id not in stats["rejected_ids"]}
        chk.cov["distinct_nontrivial"] = len(distinct)
        chk.cov["rule"] = ("a case = one Reset-delimited operation history executed on the real interpreter and accepted step by step by TLC against Str.tla "
                           "(set: TLC-enumerated construct+string-set!+string-ref for every string of length<=3 over the 8 boundary code points x position x replacement; "
                           "reader/err: TLC-enumerated literal-syntax and error-class calls; hist/nul/long: TLC -simulate histories of <=40 operations); distinct = different step "
                           "sequences; non-trivial = some register held a non-ASCII character during the history; the sweep counts one trace per plane of 65536 code points")
        chk.cov["exhaustive"] = True
        for c in (sets[len(sets) // 2], main[0], errc[0]):
            chk.sample({"kind": c.kind, "steps": c.steps[:12]})
        ev0 = [e for e in parse_log(sc.file("log_hist_0.ndjson")) if e.get("e") == "Step"][:3]
        chk.sample({"logged_events": ev0})
        chk.assumptions += [
            "default build configuration (UTF-8 strings, no index table / ref cache); the thorough tier repeats the cases on -DSEXP_USE_STRING_INDEX_TABLE=1 and -DSEXP_USE_STRING_REF_CACHE=1 builds",
            "string<? etc. are taken to be the lexicographic order of code points (what R7RS suggests and chibi documents); string=? / equal? are equality of the sequences",
            "string-copy! is judged only on its defined domain (target large enough); mutation of literals and use of a cursor after its string was modified are not generated",
            "error class: out-of-range index / range / negative length / end cursor / foreign cursor beyond the string must raise a Scheme error and leave every register unchanged",
            "trusted: TLC, the JSON reader, the Scheme driver's logging code (number output through the native writer)"]
    return chk.finish()


def replay(path):
    """Re-runs a saved case on a fresh build of /repo and lets TLC judge it again."""
    data = json.load(open(path))
    print(json.dumps({k: v for k, v in data.items() if k not in ("log_before",)}, indent=1)[:5000])
    if "case" not in data:
        return 0
    os.environ.setdefault("VERIF_TIER", "quick")
    flag = {"indextable:": "-DSEXP_USE_STRING_INDEX_TABLE=1", "refcache:": "-DSEXP_USE_STRING_REF_CACHE=1"}.get(data.get("variant") or "", "")
    with vlib.Scratch("c12r") as sc:
        build = vlib.build_repo(sc.sub("build"), cflags=flag)
        c = data["case"]
        case = Case(c["id"], c["kind"], c["steps"], c.get("tag"))
        log, crashed = run_shard(build, sc, "replay", [case])
        if crashed:
            print("REPLAY: the interpreter died again (rc=%s) at step %d" % (crashed[0][1], crashed[0][2] + 1))
            return 1
        r, rejected = validate_log(sc, log, "StrTraceLong.cfg" if case.kind == "long" else "StrTrace.cfg")
        for e in parse_log(log)[-3:]:
            print(json.dumps(e)[:600])
        if rejected:
            print("REPLAY: TLC rejects the history again at event %s" % rejected)
            return 1
        print("REPLAY: TLC accepts the history now (%s)" % r.summary())
        return 0
