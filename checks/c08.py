"""C08 -- external representations round-trip; both reader/writer pairs agree.

   Specification: spec/Datum.tla (data as rooted labelled graphs, Equal = same unfolding, Iso = same graph),
   spec/TextRead.tla (abstract token-level reader with datum labels + R7RS atom grammar + abstract writer),
   both model checked on all small graphs / short strings (DatumMC, TextReadMC).
   Conformance: construction recipes (TLC-enumerated small graphs incl. cycles and sharing; seeded and
   systematic atoms: integers, ratios, complex, flonum sweeps by bit pattern, characters by UTF-8 width,
   strings with escapes, symbols needing |..|; random trees and labelled graphs) are executed by
   harness/scm/c08drv.scm on the real chibi-scheme; it records the node table of the datum, the text each
   writer produced and the node table each reader made of it.  spec/DatumTrace.tla (TLC) accepts or rejects
   every record: abstract-reader(tokens(text)) vs datum, reader result vs datum, reader vs reader; the same
   for mutated texts fed to both readers (outcome classes).  Python generates, converts and reports only."""
import json, math, os, random, re, struct, sys, time
from fractions import Fraction
import vlib
from vlib import Broken

DRV = os.path.join(vlib.VERIF, "harness", "scm", "c08drv.scm")
KCODE = {"pair": 0, "vec": 1, "rat": 2, "cpx": 3, "null": 10, "bool": 11, "int": 12, "flo": 13, "nan": 14,
         "char": 15, "str": 16, "sym": 17, "bytes": 18}
W_NATIVE, W_SIMPLE, W_WRITE, W_SHARED = 1, 2, 4, 8
W_ALL = W_NATIVE | W_WRITE | W_SHARED           # write-simple IS the native writer (checked via the Info event)
W_ATOMS = W_NATIVE | W_SHARED                   # for atoms write and write-shared run the same code


# ------------------------------------------------------------------------------------------------
# graphs (python side: construction only)
# ------------------------------------------------------------------------------------------------
class G:
    """A datum graph under construction; ids are 1-based, allocated in depth-first preorder by the builders."""
    def __init__(self):
        self.n = []

    def add(self, k, c=None, p=None):
        self.n.append([k, list(c or []), list(p or [])])
        return len(self.n)

    def set(self, i, c):
        self.n[i - 1][1] = list(c)

    def json(self, root=1):
        return {"r": root, "n": [{"k": k, "c": c, "p": p} for k, c, p in self.n]}

    def recipe(self):
        out = []
        for k, c, p in self.n:
            out.append("(%d %s)" % (KCODE[k], " ".join(str(v) for v in (c + p))))
        return " ".join(out)


def int_payload(v):
    if v == 0:
        return [0]
    s, v, d = (1 if v < 0 else 0), abs(v), []
    while v:
        d.append(v % 1024)
        v //= 1024
    return [s] + d


def flo_words(bits):
    return [(bits >> 48) & 0xFFFF, (bits >> 32) & 0xFFFF, (bits >> 16) & 0xFFFF, bits & 0xFFFF]


def is_nan_bits(bits):
    return (bits >> 52) & 0x7FF == 0x7FF and bits & ((1 << 52) - 1) != 0


def dbits(x):
    return struct.unpack(">Q", struct.pack(">d", x))[0]


def add_atom(g, a):
    """a = ('int', v) | ('rat', Fraction) | ('flo', bits) | ('cpx', a1, a2) | ('char', cp) | ('str', [cps]) | ('sym', [cps])
           | ('bytes', [..]) | ('bool', b) | ('null',)"""
    t = a[0]
    if t == "int":
        return g.add("int", p=int_payload(a[1]))
    if t == "rat":
        f = a[1]
        if f.denominator == 1:
            return g.add("int", p=int_payload(f.numerator))
        i = g.add("rat")
        n = g.add("int", p=int_payload(f.numerator))
        d = g.add("int", p=int_payload(f.denominator))
        g.set(i, [n, d])
        return i
    if t == "flo":
        if is_nan_bits(a[1]):
            return g.add("nan")
        return g.add("flo", p=flo_words(a[1]))
    if t == "cpx":
        i = g.add("cpx")
        r = add_atom(g, a[1])
        m = add_atom(g, a[2])
        g.set(i, [r, m])
        return i
    if t == "char":
        return g.add("char", p=[a[1]])
    if t in ("str", "sym", "bytes"):
        return g.add(t, p=a[1])
    if t == "bool":
        return g.add("bool", p=[1 if a[1] else 0])
    if t == "null":
        return g.add("null")
    raise ValueError(a)


def shared_cdr_chain(g, root):
    """structural feature of a recipe graph: some pair P has as cdr a pair A referenced more than once whose cdr is
       again a pair or vector referenced more than once (a labelled list cell whose tail needs a label too)"""
    indeg = {}
    seen, stack = set(), [root]
    indeg[root] = 1
    while stack:
        i = stack.pop()
        if i in seen:
            continue
        seen.add(i)
        for c in g.n[i - 1][1]:
            indeg[c] = indeg.get(c, 0) + 1
            stack.append(c)
    empties = sum(indeg.get(i, 0) for i in seen if g.n[i - 1][0] == "vec" and not g.n[i - 1][1])     # chibi has ONE empty vector object

    def sh(i):
        k, c, _ = g.n[i - 1]
        return (k in ("pair", "vec") and indeg.get(i, 0) > 1) or (k == "vec" and not c and empties > 1)
    for i in seen:
        if g.n[i - 1][0] == "pair":
            a = g.n[i - 1][1][1]
            if g.n[a - 1][0] == "pair" and sh(a) and sh(g.n[a - 1][1][1]):
                return True
    return False


class Cases:
    def __init__(self):
        self.cases = []

    def add(self, cls, g, root=1, cyc=0, mask=W_ALL, note=None):
        if cls.startswith(("tlc-graph", "graph-")) and shared_cdr_chain(g, root):
            note = "%s %s" % (cls, note or "")
            cls = "graph+shared-cdr-chain"        # one class whatever the generator: the keys do not depend on the seed
        cid = len(self.cases) + 1
        # the abstract reader is run on the text of every case except two of three of the big sweep vectors
        big = len(g.n) > 200 and cls.split(":")[0] in ("flo-half", "flo-pow2-ulp", "flo-random", "flo-subnormal", "flo-short", "char-u1", "char-u2", "char-u3", "char-u4")
        self.sweep = getattr(self, "sweep", 0) + (1 if big else 0)
        self.cases.append({"id": cid, "cls": cls, "g": g.json(root), "cyc": cyc, "mask": mask, "tr": (not big) or self.sweep % 3 == 0,
                           "recipe": "(%d %d (%d %d) %s)" % (cid, root, cyc, mask, g.recipe()), "note": note})
        return cid

    def atom(self, cls, a, mask=W_ATOMS, note=None):
        g = G()
        add_atom(g, a)
        return self.add(cls, g, mask=mask, note=note)

    def vector_of(self, cls, atoms, mask=W_ATOMS, note=None):
        g = G()
        v = g.add("vec")
        g.set(v, [add_atom(g, a) for a in atoms])
        return self.add(cls, g, mask=mask, note=note)


def scalar(cp):
    return 0 <= cp < 0xD800 or 0xE000 <= cp <= 0x10FFFF


def uclass(cp):
    return "u1" if cp < 0x80 else "u2" if cp < 0x800 else "u3" if cp < 0x10000 else "u4"


# ------------------------------------------------------------------------------------------------
# case generators
# ------------------------------------------------------------------------------------------------
def gen_numbers(cs, rng, thorough):
    ints = [0, 1, -1, 9, 10, -10, 255, 256, 1023, 1024, -1024, 99999, 10 ** 9, 2 ** 31 - 1, 2 ** 31, -2 ** 31]
    for k in (30, 31, 32, 52, 53, 60, 61, 62, 63, 64, 65, 66, 127, 128, 129, 255, 256, 512) + ((1023, 1024, 2047) if thorough else ()):
        ints += [2 ** k, 2 ** k - 1, 2 ** k + 1, -2 ** k, -2 ** k - 1, -2 ** k + 1]
    for k in range(1, 70 if not thorough else 320, 1 if not thorough else 3):
        ints += [10 ** k, 10 ** k - 1, -10 ** k]
    for a in ints:
        cs.atom("int-edge" if abs(a) >= 2 ** 60 else "int-small", ("int", a), note=str(a) if abs(a) < 10 ** 30 else None)
    for i in range(400 if thorough else 60):
        bits = rng.choice([8, 20, 40, 61, 62, 63, 64, 65, 100, 128, 200, 400, 600, 1500])
        cs.atom("int-random", ("int", rng.getrandbits(bits) * rng.choice([1, -1])))
    # a vector of many integers (also exercises the list reader/writer on long sequences)
    cs.vector_of("int-vector", [("int", rng.getrandbits(rng.choice([10, 62, 64, 130])) * rng.choice([1, -1])) for _ in range(200)])
    for i in range(300 if thorough else 60):
        nb, db = rng.choice([(3, 3), (10, 10), (62, 62), (64, 30), (30, 64), (130, 70), (300, 300)])
        f = Fraction(rng.getrandbits(nb) * rng.choice([1, -1]), rng.getrandbits(db) + 2)
        cs.atom("rat", ("rat", f))
    for f in (Fraction(1, 2), Fraction(-1, 2), Fraction(1, 3), Fraction(-7, 10 ** 20), Fraction(2 ** 62, 3), Fraction(3, 2 ** 62), Fraction(-2 ** 64 - 1, 2 ** 64)):
        cs.atom("rat", ("rat", f))
    # exact complex
    for i in range(120 if thorough else 30):
        def part():
            c = rng.random()
            if c < 0.5:
                return ("int", rng.randint(-20, 20))
            if c < 0.7:
                return ("int", rng.getrandbits(70) * rng.choice([1, -1]))
            return ("rat", Fraction(rng.randint(-50, 50), rng.randint(2, 30)))
        re_, im = part(), part()
        if (im[0] == "int" and im[1] == 0) or (im[0] == "rat" and im[1] == 0):
            im = ("int", 1)
        cs.atom("cpx-exact", ("cpx", re_, im))
    for re_, im in ((0, 1), (0, -1), (1, 1), (1, -1), (-1, 2), (0, 2), (5, -7)):
        cs.atom("cpx-exact", ("cpx", ("int", re_), ("int", im)))
    # inexact complex, ordinary parts; parts printed with an exponent are a class of their own
    plain = [0.5, 1.0, -1.5, 2.25, 12345.678, -3.75, 0.1, 123.456, 1024.0, -0.001]
    expo = [1e21, 1e-7, -2.5e-10, 6.02e23, 1e100, -1e-300]
    for ca, la in (("plain", plain), ("exp", expo)):
        for cb, lb in (("plain", plain), ("exp", expo)):
            for a in la:
                for b in lb:
                    cs.atom("cpx-inexact-real-%s-imag-%s" % (ca, cb), ("cpx", ("flo", dbits(a)), ("flo", dbits(b))), note="%r %r" % (a, b))
    # inexact complex with non-finite or signed-zero parts
    specials = {"pinf": 0x7FF0000000000000, "ninf": 0xFFF0000000000000, "nan": 0x7FF8000000000000,
                "nzero": 0x8000000000000000, "pzero": 0, "one": dbits(1.0), "mone": dbits(-1.5)}
    kind = {"pinf": "inf", "ninf": "inf", "nan": "nan", "nzero": "zero", "pzero": "zero", "one": "fin", "mone": "fin"}
    for ra in specials:
        for ia in specials:
            if kind[ra] == "fin" and kind[ia] == "fin":
                continue
            cs.atom("cpx-real-%s-imag-%s" % (kind[ra], kind[ia]), ("cpx", ("flo", specials[ra]), ("flo", specials[ia])), note="%s %s" % (ra, ia))


def gen_complex_matrix(cs):
    """complex numbers whose parts are drawn from every shape of real number generated elsewhere (fixnum, bignum, ratio with
       fixnum / bignum numerator and denominator, both signs, flonums plain / with exponent / signed zero / infinite / NaN),
       in ALL pairings (chibi represents mixed exactness as well).  The flonums are values that round-trip as reals
       (the decimal->double defect has its own classes), so a rejection here concerns the complex syntax."""
    big, big2 = 12345678901234567890123, 98765432109876543210987654321
    shapes = {
        "int": [("int", v) for v in (5, -7, 1, -1, big, -big)],
        "ratio": [("rat", Fraction(a, b)) for a, b in ((2, 3), (-2, 3), (7, big), (-7, big))],
        "ratio-bignum-numerator": [("rat", Fraction(a, b)) for a, b in ((big, 7), (-big, 7), (big2, big), (-big2, big))],
        "flo": [("flo", dbits(v)) for v in (1.5, -2.25, 1e21, -1e-7, 0.0, -0.0)],
        "nonfinite": [("flo", b) for b in (0x7FF0000000000000, 0xFFF0000000000000, 0x7FF8000000000000)],
    }
    for rs, rl in shapes.items():
        for ims, il in shapes.items():
            for a in rl + ([("int", 0)] if rs == "int" else []):
                for b in il:
                    cs.atom("cpxm-real-%s-imag-%s" % (rs, ims), ("cpx", a, b))


def half_to_double_bits(h):
    return dbits(struct.unpack(">e", struct.pack(">H", h))[0])


def gen_flonums(cs, rng, thorough, nrandom):
    singles = [("pzero", 0), ("nzero", 1 << 63), ("pinf", 0x7FF << 52), ("ninf", 0xFFF << 52), ("nan", 0x7FF8 << 48),
               ("nan-payload", 0xFFF0000000000001), ("max", 0x7FEFFFFFFFFFFFFF), ("min-normal", 1 << 52),
               ("max-subnormal", (1 << 52) - 1), ("min-subnormal", 1), ("one", dbits(1.0)), ("tenth", dbits(0.1)),
               ("third", dbits(1 / 3)), ("1e21", dbits(1e21)), ("1e22", dbits(1e22)), ("1e23", dbits(1e23)), ("2^53", dbits(2.0 ** 53)),
               ("2^53+2", dbits(2.0 ** 53 + 2)), ("1e100", dbits(1e100)), ("1e-100", dbits(1e-100)), ("5e-324", 1), ("pi", dbits(math.pi)),
               ("123456789012345678", dbits(123456789012345678.0)), ("0.000001", dbits(0.000001)), ("1e-7", dbits(1e-7)),
               ("9007199254740993", dbits(9007199254740993.0)), ("4.35", dbits(4.35)), ("2.2250738585072011e-308", 0x000FFFFFFFFFFFFF),
               ("1.7976931348623157e308", 0x7FEFFFFFFFFFFFFF), ("-1.5", dbits(-1.5)), ("100.0", dbits(100.0)), ("1e15", dbits(1e15)),
               ("1e16", dbits(1e16)), ("1e17", dbits(1e17)), ("123456.789", dbits(123456.789))]
    for name, b in singles:
        cs.atom("flo-special:" + name, ("flo", b))
    # all 2^16 half-precision values widened to double (NaN patterns collapse to NaN: a few are kept)
    vals = []
    for h in range(65536):
        b = half_to_double_bits(h)
        if is_nan_bits(b) and (h & 0x3FF) not in (1, 0x200, 0x3FF):
            continue
        vals.append(b)
    for i, ch in enumerate(vlib.chunks(vals, 256)):
        cs.vector_of("flo-half", [("flo", b) for b in ch], note="half-precision block %d" % i)
    # powers of two and their neighbours, every exponent
    p2 = []
    for e in range(0, 2047):
        for m in (0, 1, (1 << 52) - 1):
            for s in (0, 1):
                b = (s << 63) | (e << 52) | m
                p2.append(b)
    for ch in vlib.chunks(p2, 256):
        cs.vector_of("flo-pow2-ulp", [("flo", b) for b in ch])
    sub = [rng.getrandbits(52) | (rng.getrandbits(1) << 63) for _ in range(512)] + [1 << k for k in range(52)] + [(1 << k) - 1 for k in range(1, 53)]
    for ch in vlib.chunks(sub, 256):
        cs.vector_of("flo-subnormal", [("flo", b) for b in ch])
    # flonums with a short decimal representation (at most 15 significant digits, small exponent) and integers below 2^53
    short = []
    for _ in range(1024):
        c = rng.random()
        if c < 0.5:
            short.append(dbits(round(rng.uniform(-1000, 1000), rng.randint(0, 6))))
        elif c < 0.75:
            short.append(dbits(float(rng.getrandbits(rng.randint(1, 49)) * rng.choice([1, -1]))))
        else:
            short.append(dbits(rng.randint(1, 99999) * 10.0 ** rng.randint(-10, 15)))
    for ch in vlib.chunks(short, 256):
        cs.vector_of("flo-short", [("flo", b) for b in ch])
    rnd = []
    for _ in range(nrandom):
        c = rng.random()
        if c < 0.6:
            b = rng.getrandbits(64)                                   # uniform over bit patterns (all exponents)
        elif c < 0.8:
            b = dbits(rng.uniform(-1e6, 1e6))
        elif c < 0.9:
            b = dbits(round(rng.uniform(-1000, 1000), rng.randint(0, 6)))   # short decimals
        else:
            b = dbits(float(rng.getrandbits(rng.randint(1, 70))))     # integers as flonums
        if not is_nan_bits(b):
            rnd.append(b)
    for ch in vlib.chunks(rnd, 256):
        cs.vector_of("flo-random", [("flo", b) for b in ch])


def gen_chars(cs, rng, thorough):
    if thorough:
        cps = [c for c in range(0x110000) if scalar(c)]
    else:
        cps = set(range(0, 0x300)) | set(range(0x7F0, 0x810)) | set(range(0xFFF0, 0x10010)) | {0xD7FF, 0xE000, 0x10FFFF, 0x10FFFE, 0xFFFD, 0xFEFF, 0x2028, 0x2029, 0x1F600, 0x20000, 0xE0001, 0x100000}
        for _ in range(1500):
            cps.add(rng.choice([rng.randrange(0x300, 0x800), rng.randrange(0x800, 0xD800), rng.randrange(0xE000, 0x10000),
                                rng.randrange(0x10000, 0x110000)]))
        cps = sorted(c for c in cps if scalar(c))
    by = {}
    for c in cps:
        by.setdefault(uclass(c), []).append(c)
    for u, ls in sorted(by.items()):
        for ch in vlib.chunks(ls, 256):
            cs.vector_of("char-" + u, [("char", c) for c in ch], note="U+%04X..U+%04X" % (ch[0], ch[-1]))
            cs.atom("str-" + u, ("str", ch))
            # symbols: the same characters, 16 per symbol (the first with a letter in front)
            for sy in vlib.chunks(ch, 32):
                cs.atom("sym-" + u, ("sym", [97] + sy if u != "u1" else sy))
    # every ASCII character as a datum of its own (named characters, delimiters, controls)
    for c in range(128):
        cs.atom("char-ascii:%d" % c, ("char", c), mask=W_ALL)
    for c in (0x80, 0x7FF, 0x800, 0xFFFF, 0x10000, 0x10FFFF, 0x3BB, 0x1F600):
        cs.atom("char-single-" + uclass(c), ("char", c), mask=W_ALL)


def S(s):
    return [ord(c) for c in s]


def gen_strings(cs, rng, thorough):
    special = ["", "a", " ", "\a", "\b", "\t", "\n", "\r", "\"", "\\", "\x00", "\x1b", "\x7f", "\\x41;", "\\n", "a\\", "\\\"", "|", ";", "#", "'",
               "line1\nline2", "tab\there", "q\"uote", "back\\slash", "nul\x00mid", "\x01\x02\x1f", "a\x80b", "\u03bb", "\U0001F600", "\uffff", "\U0010FFFF",
               "(", ")", "#|", "|#", "\\x", "x41;", "\\\\x41;", "\r\n", " \n ", "\\\n  a", "a;b", "%s%d", "\u2028", "\ufeff", "\x0c", "\x0b", "\x7f\x80", "~"]
    for s in special:
        cs.atom("str-special", ("str", S(s)), mask=W_ALL, note=repr(s))
    cs.atom("str-ascii-all", ("str", list(range(128))))
    alpha = S("ab\\\"|;#x41 \n\t\r\a\b") + [0, 1, 27, 127, 128, 255, 0x3BB, 0x10000]
    for i in range(600 if thorough else 120):
        cs.atom("str-random", ("str", [rng.choice(alpha) for _ in range(rng.randint(0, 12))]))
    for n in (127, 128, 129, 255, 256) + ((1000,) if thorough else ()):
        cs.atom("str-long", ("str", [rng.choice(S("abc \\\"\n") + [0x3BB]) for _ in range(n)]), note="length %d" % n)


def symclass(cps):
    s = "".join(chr(c) for c in cps)
    if s == "":
        return "empty"
    if any(c >= 0x80 for c in cps):
        return max(uclass(c) for c in cps)
    if any(c < 32 or c == 127 for c in cps):
        return "control"
    if " " in s:
        return "space"
    if "|" in s or "\\" in s:
        return "bar-or-backslash"
    if "#" in s:
        return "hash"
    if s[0] in "'`,":
        return "abbrev-prefix:" + {"'": "quote", "`": "backquote", ",": "comma"}[s[0]]
    if any(c in s for c in "()\";"):
        return "delimiter"
    low = s.lower()
    if re.match(r"^[+-](inf|nan)\.0", low):
        return "infnan" + ("" if s == low else "-uppercase")
    if s[0].isdigit():
        return "digit-first"
    if s[0] == "." and len(s) > 1 and s[1].isdigit():
        return "dot-digit"
    if s[0] in "+-" and len(s) > 1 and (s[1].isdigit() or s[1] == "."):
        return "sign-number-like"
    if s[0] in "+-" and len(s) > 1 and s[1] in "iI":
        return "sign-i"
    if s in (".", "+", "-", "...", ".."):
        return "peculiar"
    if s[0] == ".":
        return "dot-first"
    if any(c in s for c in "'`,"):
        return "abbrev-char-inside"
    if any(c in s for c in "{}[]"):
        return "bracket"
    if any(c.isupper() for c in s):
        return "uppercase"
    return "plain"


def gen_symbols(cs, rng, thorough):
    seen = set()

    def sym(s):
        cps = S(s) if isinstance(s, str) else list(s)
        t = tuple(cps)
        if t in seen:
            return
        seen.add(t)
        cs.atom("sym:" + symclass(cps), ("sym", cps), mask=W_ALL, note="".join(chr(c) for c in cps) if all(32 <= c < 127 for c in cps) else None)
    curated = ["", " ", "a", "A", "Hello", "a b", "a|b", "a\\b", "|", "\\", "#a", "a#", "#", "#t", "#f", "#\\a", "#!eof", "a;b", ";", "a'b", "'a", "`a", ",a", ",@a",
               "a`b", "a,b", "@a", "(", ")", "()", "a(b", "\"", "a\"b", "{a", "a}", "[a]", "{", "}", "+", "-", ".", "..", "...", ".a", "a.", "a.b", "+i", "-i", "+I", "+5i", "i", "e",
               "+a", "-a", "->", "-->", "<=?", "!$%&*/:<=>?^_~", "1", "12", "1a", "1+", "+1", "-1", "+1a", "1/2", "-1/2", "1e5", "1.5", ".5", ".5e", "+.5", "-.5", "-.5e", ".e1",
               "+e1", "+.e", "+.", "-.", "+..", "1.", "1e", "0x1", "#x1", "+inf.0", "-inf.0", "+nan.0", "-nan.0", "+Inf.0", "-INF.0", "+NaN.0", "+inf.0i", "+inf.1", "inf.0", "nan.0",
               "+nanx", "+infx", "+in", "nan", "inf", "1@2", "a@b", "@", "1+2i", "+2i", "e1", "E1", "1E5", "d", "1d5", "1f5", "lambda", "quote", "a\nb", "a\tb", "a\rb", "\x00", "a\x00b", "\x7f", "\x01",
               "\u03bb", "a\u03bb", "\U0001F600", "\uffff", "\U0010FFFF", "caf\u00e9", "1\u03bb", "+\u03bb", ".\u03bb", "x" * 127, "x" * 128, "x" * 129, "x" * 300, "|" * 5, "\\" * 4, "a|b|c", "||",
               "#|", "|#", "#;", "#(", "#u8(", "#0=", "#0#", "#\\", "-0", "+0", "00", "-", "--1", "+-1", "1-", "1+i", "1i", "i1", "-i1", "+ii", "+i.", "+.i", "-.i", "+.1i", "+1.", "1.e1", "1.e", ".1e+", ".1e+1", "1e+1", "1e-1", "1e+",
               "1/", "/1", "1/2/3", "1//2", "+1/2", "1/2e3", "1.5/2", "1/0", "0/1", "1e1000", "-1e1000", "1e-1000", "#e1", "#i1", "#b1", "#o7", "#d9"]
    for s in curated:
        sym(s)
    a1 = "a1+-.ei/@#|\\ '`,(;\"{AnF0"
    for c in a1:
        sym(c)
    for c in a1:
        for d in a1:
            sym(c + d)
    num = "+-.1ei"
    for n in range(3, 5 if not thorough else 6):
        def rec(prefix, k):
            if k == 0:
                sym(prefix)
                return
            for c in num:
                rec(prefix + c, k - 1)
        rec("", n)
    if thorough:
        for c in a1:
            for d in a1:
                for e in a1:
                    sym(c + d + e)
    alpha = S("abcxyzABC0123456789+-.*/<=>!?:$%_&~^@#|\\ '`,();\"{}[]\t\n") + [0x3BB, 0xE9, 0x4E2D, 0x1F600, 0, 127]
    for i in range(1500 if thorough else 300):
        sym([rng.choice(alpha) for _ in range(rng.randint(1, 8))])
    for i in range(400 if thorough else 100):       # number-like with inf/nan fragments
        frag = ["+", "-", "inf.0", "nan.0", "Inf.0", "NAN.0", "i", "1", ".", "e", "/", "@", "2", "I", "x"]
        sym("".join(rng.choice(frag) for _ in range(rng.randint(1, 4))))


def rand_atom(rng):
    c = rng.random()
    if c < 0.2:
        return ("int", rng.choice([0, 1, -1, 42, 2 ** 62, -2 ** 70, rng.getrandbits(80)]))
    if c < 0.3:
        return ("flo", dbits(rng.choice([0.0, -0.0, 1.5, -2.25, 1e21, 1e-7, 0.1, 3.0])))
    if c < 0.4:
        return ("sym", S(rng.choice(["a", "b", "foo", "quote", "x y", "", "+", "...", "A", "set-car!", "lambda", "\u03bb"])))
    if c < 0.5:
        return ("str", S(rng.choice(["", "s", "a\"b", "x\ny", "\\", "\u03bb"])))
    if c < 0.6:
        return ("char", rng.choice([97, 32, 10, 0, 40, 41, 0x3BB, 127]))
    if c < 0.7:
        return ("bool", rng.random() < 0.5)
    if c < 0.8:
        return ("null",)
    if c < 0.85:
        return ("rat", Fraction(rng.randint(-9, 9) or 1, rng.randint(2, 9)))
    if c < 0.9:
        return ("bytes", [rng.randrange(256) for _ in range(rng.randint(0, 5))])
    if c < 0.95:
        return ("cpx", ("int", rng.randint(-3, 3)), ("int", rng.choice([-2, -1, 1, 2])))
    return ("nan",) if False else ("flo", 0x7FF8 << 48)


def rand_tree(g, rng, depth):
    """random tree of the given maximal depth: proper / improper lists, vectors, atoms"""
    if depth == 0 or rng.random() < 0.2:
        return add_atom(g, rand_atom(rng))
    c = rng.random()
    if c < 0.6:      # list of n elements, maybe dotted
        n = rng.randint(1, 4)
        first = None
        prev = None
        for j in range(n):
            p = g.add("pair")
            a = rand_tree(g, rng, depth - 1)
            g.set(p, [a, 0])
            if prev:
                g.n[prev - 1][1][1] = p
            else:
                first = p
            prev = p
        tail = add_atom(g, rand_atom(rng)) if rng.random() < 0.25 else g.add("null")
        if g.n[tail - 1][0] in ("pair",):
            tail = g.add("null")
        g.n[prev - 1][1][1] = tail
        return first
    v = g.add("vec")
    g.set(v, [rand_tree(g, rng, depth - 1) for _ in range(rng.randint(0, 4))])
    return v


def gen_trees(cs, rng, thorough):
    for i in range(1500 if thorough else 250):
        d = rng.randint(1, 6)
        g = G()
        r = rand_tree(g, rng, d)
        if len(g.n) <= 400:
            cs.add("tree-depth%d" % d, g, root=r)
    # long and deep
    for n in (1, 2, 100, 300) + ((2000,) if thorough else ()):
        g = G()
        prev = None
        for j in range(n):
            p = g.add("pair")
            a = g.add("int", p=int_payload(j))
            g.set(p, [a, 0])
            if prev:
                g.n[prev - 1][1][1] = p
            prev = p
        g.n[prev - 1][1][1] = g.add("null")
        cs.add("list-long", g, note="length %d" % n)
    for n in (10, 200):
        g = G()
        prev = None
        for j in range(n):     # nesting in the car
            p = g.add("pair")
            if prev:
                g.n[prev - 1][1] = [p, g.add("null")]
            prev = p
        g.n[prev - 1][1] = [g.add("sym", p=S("deep")), g.add("null")]
        # the () nodes were allocated after the inner pair: fine, ids need not be in preorder
        cs.add("nest-deep", g, note="depth %d" % n)
    g = G()
    v = g.add("vec")
    g.set(v, [])
    cs.add("vec-empty", g)
    for kind, items in (("bytes-empty", []), ("bytes-all", list(range(256))), ("bytes-random", [rng.randrange(256) for _ in range(40)])):
        cs.atom(kind, ("bytes", items), mask=W_ALL)
    for q in ("quote", "quasiquote", "unquote", "unquote-splicing"):
        g = G()
        p1 = g.add("pair")
        s = g.add("sym", p=S(q))
        p2 = g.add("pair")
        a = g.add("sym", p=S("a"))
        n = g.add("null")
        g.set(p1, [s, p2])
        g.set(p2, [a, n])
        cs.add("quote-form", g, note="(%s a)" % q)


def gen_graphs_random(cs, rng, thorough):
    """rooted graphs with sharing and cycles, up to 8 labelled nodes"""
    for i in range(1200 if thorough else 250):
        ncomp = rng.randint(1, 9)
        g = G()
        comp = []
        for j in range(ncomp):
            comp.append(g.add("pair" if rng.random() < 0.65 else "vec"))
        acyclic = rng.random() < 0.35

        def target(j):
            c = rng.random()
            if c < 0.55:
                cand = [k for k in range(ncomp) if (k > j or not acyclic)]
                if cand:
                    return comp[rng.choice(cand)]
            if c < 0.7:
                return g.add("null")
            return add_atom(g, rand_atom(rng))
        for j, i_ in enumerate(comp):
            if g.n[i_ - 1][0] == "pair":
                g.set(i_, [target(j), target(j)])
            else:
                g.set(i_, [target(j) for _ in range(rng.randint(0, 4))])
        cs.add("graph-random", g, root=comp[0], cyc=0 if acyclic else 1)
    # rings of k pairs, all of them also referenced from a vector: k labels
    for k in (1, 2, 3, 6, 12):
        g = G()
        v = g.add("vec")
        ps = [g.add("pair") for _ in range(k)]
        for j, p in enumerate(ps):
            g.set(p, [g.add("int", p=int_payload(j)), ps[(j + 1) % k]])
        g.set(v, ps + ps)
        cs.add("graph-ring", g, cyc=1, note="%d labels" % k)
    # vector containing itself; car-cycles; shared tail; shared empty vector
    g = G(); v = g.add("vec"); g.set(v, [v, v]); cs.add("graph-self-vector", g, cyc=1)
    g = G(); p = g.add("pair"); g.set(p, [p, p]); cs.add("graph-self-pair", g, cyc=1)
    g = G(); p = g.add("pair"); g.set(p, [p, g.add("null")]); cs.add("graph-car-cycle", g, cyc=1)
    g = G(); a = g.add("pair"); b = g.add("pair"); g.set(a, [g.add("int", p=[0, 1]), b]); g.set(b, [g.add("int", p=[0, 2]), b]); cs.add("graph-tail-cycle", g, cyc=1)
    g = G(); v = g.add("vec"); e = g.add("vec"); g.set(v, [e, e]); cs.add("graph-shared-empty-vector", g)
    g = G(); a = g.add("pair"); t = g.add("pair"); g.set(t, [g.add("sym", p=S("t")), g.add("null")]); b = g.add("pair"); g.set(a, [t, b]); g.set(b, [g.add("int", p=[0, 1]), t])
    cs.add("graph-shared-tail", g)
    # DAG with exponential unfolding (2^12 leaves when written without labels)
    g = G()
    prev = g.add("sym", p=S("leaf"))
    for j in range(12):
        p = g.add("pair")
        g.set(p, [prev, prev])
        prev = p
    cs.add("graph-dag-deep", g, root=prev, mask=W_SHARED)


LABEL_SIZES_QUICK = [23, 24, 25, 26, 47, 48, 49, 50, 95, 96, 97, 98, 192, 193, 200]
LABEL_SIZES_THOROUGH = [1, 2, 15, 16, 17, 22, 23, 24, 25, 26, 46, 47, 48, 49, 50, 94, 95, 96, 97, 98, 190, 191, 192, 193, 194, 200, 385, 400]


def label_epoch(n):
    """which size of the native reader's label table (24, doubling) the highest label n-1 needs"""
    for lim in (23, 47, 95, 191, 383):
        if n - 1 < lim:
            return "table%d" % (lim + 1)
    return "table768+"


def gen_labels(cs, rng, thorough):
    """data with MANY shared nodes, i.e. many datum labels when written by write-shared (and by write for the
       self-cyclic families); label counts at and around every size of the native reader's label table, in several
       orders of definition and reference"""
    for n in (LABEL_SIZES_THOROUGH if thorough else LABEL_SIZES_QUICK):
        ep = label_epoch(n)

        def shared_nodes(g, kind):
            ids = []
            for i in range(n):
                if kind == "pair":
                    p = g.add("pair")
                    g.set(p, [g.add("int", p=int_payload(i)), g.add("null")])
                elif kind == "vec":
                    p = g.add("vec")
                    g.set(p, [g.add("int", p=int_payload(i))])
                else:                                   # self-cyclic pair (i . <itself>): labelled by write as well
                    p = g.add("pair")
                    g.set(p, [g.add("int", p=int_payload(i)), p])
                ids.append(p)
            return ids
        boundary = sorted(set(k for k in (0, 1, 15, 16, 22, 23, 24, 25, 46, 47, 48, 49, 94, 95, 96, 97, 190, 191, 192, 193, n - 2, n - 1) if 0 <= k < n))
        fams = [("adjacent", "pair", lambda ids: [x for i in ids for x in (i, i)]),
                ("defs-then-refs", "pair", lambda ids: ids + ids),
                ("defs-then-refs", "vec", lambda ids: ids + ids),
                ("reverse-refs", "pair", lambda ids: ids + ids[::-1]),
                ("adjacent-then-late-refs", "pair", lambda ids: [x for i in ids for x in (i, i)] + [ids[k] for k in boundary] + [ids[k] for k in reversed(boundary)]),
                ("selfcyclic-defs-then-refs", "self", lambda ids: ids + ids),
                ("selfcyclic-reverse-refs", "self", lambda ids: ids + ids[::-1])]
        for fam, kind, order in fams:
            g = G()
            v = g.add("vec")
            ids = shared_nodes(g, kind)
            g.set(v, order(ids))
            cs.add("labels-%s-%s:%s" % (fam, kind, ep), g, cyc=1 if kind == "self" else 0, note="%d labels" % n)
        # nested definitions: a list whose every cell is also an element of the root vector; and the same closed to a ring
        for ring in (False, True):
            g = G()
            v = g.add("vec")
            ps = [g.add("pair") for _ in range(n)]
            for j, p in enumerate(ps):
                g.set(p, [g.add("int", p=int_payload(j)), ps[j + 1] if j + 1 < n else (ps[0] if ring else g.add("null"))])
            g.set(v, ps + ps[::-1])
            cs.add("labels-%s:%s" % ("nested-ring" if ring else "nested-list", ep), g, cyc=1 if ring else 0, mask=W_SHARED,       # (write labels one cell only and unfolds the rest: quadratic text)
                   note="%d labels" % n)
        # every shared node points back to the root vector (one label referenced n times from inside) and is shared itself
        g = G()
        v = g.add("vec")
        ps = []
        for j in range(n):
            p = g.add("pair")
            g.set(p, [g.add("int", p=int_payload(j)), v])
            ps.append(p)
        g.set(v, ps + ps)
        cs.add("labels-back-to-root:%s" % ep, g, cyc=1, note="%d labels" % (n + 1))


def tlc_graphs(sc, thorough):
    """small graphs enumerated by TLC from DatumMC (mode gen / gen4)"""
    out = []
    runs = []
    for cfg in ["DatumMC_gen.cfg"] + (["DatumMC_gen4.cfg"] if thorough else []):
        r = vlib.run_tlc("DatumMC.tla", cfg, sc.path, workers=1, timeout=900, heap="4g")
        vlib.require_tlc_ok(r, cfg)
        if r.violated:
            raise Broken("%s: invariant %s violated" % (cfg, r.violated))
        n = 0
        for line in r.out.splitlines():
            if line.startswith('<<"GRAPH", "'):
                js = json.loads(line[len('<<"GRAPH", '):-2])
                out.append(json.loads(js))
                n += 1
        if n == 0 or n != r.distinct:
            raise Broken("%s: %d graphs printed, %d states" % (cfg, n, r.distinct))
        runs.append((cfg, r))
    return out, runs


def add_tlc_graphs(cs, graphs):
    for e in graphs:
        g = G()
        for nd in e["g"]["n"]:
            g.add(nd["k"], nd["c"], nd["p"])
        cs.add("tlc-graph:%s%s" % ("cyclic" if e["cyc"] else "acyclic", "-shared" if e["shr"] else ""), g, root=e["g"]["r"], cyc=e["cyc"])


# ------------------------------------------------------------------------------------------------
# lexing (boundaries only; the specification checks the result: TextRead!LexOK)
# ------------------------------------------------------------------------------------------------
WS = {32, 9, 10, 13, 12}
DELIM = WS | {40, 41, 34, 59, 124}


def lex(t):
    toks = []
    n = len(t)
    i = 0

    def emit(ty, j):
        toks.append({"t": ty, "s": t[i:j], "o": i + 1})
        return j
    while i < n:
        c = t[i]
        if c in WS:
            j = i
            while j < n and t[j] in WS:
                j += 1
            i = emit("ws", j)
        elif c == 40:
            i = emit("open", i + 1)
        elif c == 41:
            i = emit("close", i + 1)
        elif c in (34, 124):
            j = i + 1
            while j < n and t[j] != c:
                j += 2 if t[j] == 92 else 1
            i = emit("str" if c == 34 else "psym", min(j + 1, n))
        elif c in (39, 96):
            i = emit("abbr", i + 1)
        elif c == 44:
            i = emit("abbr", i + 2 if i + 1 < n and t[i + 1] == 64 else i + 1)
        elif c == 35 and i + 1 < n and t[i + 1] == 40:
            i = emit("vopen", i + 2)
        elif c == 35 and t[i:i + 4] == [35, 117, 56, 40]:
            i = emit("bopen", i + 4)
        else:
            if c == 35 and i + 1 < n and 48 <= t[i + 1] <= 57:
                j = i + 1
                while j < n and 48 <= t[j] <= 57:
                    j += 1
                if j < n and t[j] in (61, 35):
                    i = emit("ldef" if t[j] == 61 else "lref", j + 1)
                    continue
            j = i + 3 if (c == 35 and i + 2 < n and t[i + 1] == 92) else i + 1
            while j < n and t[j] not in DELIM:
                j += 1
            i = emit("dot" if t[i:j] == [46] else "atom", j)
    return toks


# ------------------------------------------------------------------------------------------------
# running the driver, building traces, TLC
# ------------------------------------------------------------------------------------------------
def run_driver(build, sc, mode, lines, tag, timeout=600):
    inp = sc.file("in_%s.txt" % tag)
    with open(inp, "w") as f:
        f.write("\n".join(lines) + "\n")
    try:
        p = build.run([DRV, mode, inp], timeout=timeout)
        rc, out, err = p.returncode, p.stdout.decode(errors="replace"), p.stderr.decode(errors="replace")
    except Exception as ex:       # timeout: the partial output is what we have
        rc, out, err = -9, (getattr(ex, "stdout", b"") or b"").decode(errors="replace"), "timeout"
    lines = [l.strip() for l in out.splitlines()]
    return rc, [l for l in lines if l.startswith("{") and l.endswith("}")], err


_ID = re.compile(r'"id":(\d+)')


def etype(line):
    return line[6:line.index('"', 6)]        # lines start with {"e":"


def case_events(lines):
    """group the driver's raw ndjson lines by case id, in order (they are parsed only where python has to add tokens)"""
    by = {}
    info = None
    for l in lines:
        if l.startswith('{"e":"Info"'):
            info = json.loads(l)
            continue
        m = _ID.search(l[:40])
        if m:
            by.setdefault(int(m.group(1)), []).append(l)
    return by, info


def parsed(by, cid):
    return [json.loads(l) for l in by.get(cid, [])]


def make_trace(path, cases, by, kind):
    """write the ndjson trace for TLC: recipe + recorded events (+ tokens) per case"""
    n = 0
    with open(path, "w") as f:
        for c in cases:
            if kind == "rt":
                f.write('{"e":"Recipe","id":%d,"g":%s}\n' % (c["id"], json.dumps(c["g"], separators=(",", ":"))))
            for l in by.get(c["id"], []):
                if isinstance(l, dict):
                    l = json.dumps(l, separators=(",", ":"))
                if l.startswith('{"e":"Write"'):
                    e = json.loads(l)
                    e["nt"] = 0 if c.get("tr", True) else 1
                    e["tok"] = lex(e["t"]) if e["nt"] == 0 else []
                    l = json.dumps(e, separators=(",", ":"))
                elif l.startswith('{"e":"Text"'):
                    e = json.loads(l)
                    e["tok"] = lex(e["t"])
                    e["j"] = c.get("judge", "total")
                    l = json.dumps(e, separators=(",", ":"))
                f.write(l + "\n")
                n += 1
        f.write('{"e":"Fin"}\n')
    return n


def validate(sc, path, timeout=1500):
    r = vlib.run_tlc("DatumTrace.tla", "DatumTrace.cfg", sc.path, env={"TRACE": path}, workers=1, timeout=timeout, heap="3g")
    rej = []
    summ = None
    r.details = {}
    r.textcls = {}
    out = r.out           # TLC wraps long tuples over several lines
    for m in re.finditer(r'<<\s*"C08DETAIL",\s*(\d+),\s*"([^"]*)",\s*"([^"]*)",\s*(\d+),\s*(\d+)\s*>>', out):
        r.details[(int(m.group(1)), m.group(2), m.group(3))] = (int(m.group(4)), int(m.group(5)))
    for m in re.finditer(r'<<\s*"C08TEXT",\s*(\d+),\s*"([^"]*)",\s*"([^"]*)",\s*"([^"]*)"\s*>>', out):
        r.textcls.setdefault(int(m.group(1)), {"j": m.group(2)})[m.group(3)] = m.group(4)
    for m in re.finditer(r'<<\s*"C08REJECT",\s*(\d+),\s*"([^"]*)",\s*"([^"]*)",\s*"([^"]*)"\s*>>', out):
        t = (int(m.group(1)), m.group(2), m.group(3), m.group(4))
        if t not in rej:
            rej.append(t)
    m = re.search(r'<<\s*"C08SUMMARY",\s*(\d+),\s*(\d+),\s*(\d+),\s*(\d+),\s*(\d+),\s*(\d+)\s*>>', out)
    if m:
        summ = [int(x) for x in m.groups()]
    consumed = r.rc == 0 and not r.error and not r.violated and summ is not None
    return r, rej, summ, consumed


def shard(cases, by, maxbytes=2_500_000):
    """split into groups of cases with a bounded amount of recorded data"""
    groups, cur, size = [], [], 0
    k = max(1, len(cases) // 40)
    cases = [c for j in range(k) for c in cases[j::k]]          # interleave the classes over the shards
    for c in cases:
        s = sum(len(l) for l in by.get(c["id"], [])) + 200
        if cur and size + s > maxbytes:
            groups.append(cur)
            cur, size = [], 0
        cur.append(c)
        size += s
    if cur:
        groups.append(cur)
    return groups


def campaign(chk, sc, build, cases, kind, label, jobs_drv=8, jobs_tlc=6):
    """run cases on the implementation, validate with TLC; returns (rejections, counters)"""
    # --- implementation
    chunks = [cases[i::jobs_drv] for i in range(jobs_drv)] if len(cases) > 64 else [cases]
    chunks = [c for c in chunks if c]

    def drv(args):
        k, ch = args
        lines = [c["recipe"] if kind == "rt" else c["textline"] for c in ch]
        return run_driver(build, sc, kind, lines, "%s_%d" % (label, k), timeout=1500)
    t0 = time.time()
    results = vlib.parallel(drv, list(enumerate(chunks)), jobs=jobs_drv)
    chk.cov.setdefault("timing_s", {})["driver_" + label] = round(time.time() - t0, 1)
    by = {}
    for (rc, evs, err), ch in zip(results, chunks):
        b, info = case_events(evs)
        if info is None:
            raise Broken("driver did not start: rc=%s %s" % (rc, err[-800:]))
        if info.get("simple_is_native") != 1:
            raise Broken("write-simple is no longer the native writer: extend the writer masks")
        by.update(b)
        # a crashed / hung driver leaves cases without events: the first unfinished case is the culprit (its Begin
        # without End is what TLC rejects), everything after it was never attempted and runs in a fresh process
        todo, rc_, err_, rounds = ch, rc, err, 0
        while True:
            missing = [c for c in todo if c["id"] not in by or not by[c["id"]][-1].startswith('{"e":"End"')]
            if not missing:
                break
            first, rest = missing[0], missing[1:]
            if first["id"] not in by:
                by[first["id"]] = ['{"e":"Begin","id":%d}' % first["id"]]
            chk.cov.setdefault("driver_incomplete_cases", []).append({"id": first["id"], "cls": first["cls"], "rc": rc_, "stderr": err_[-300:]})
            rounds += 1
            if not rest or rounds > 200:
                break
            rc_, evs2, err_ = run_driver(build, sc, kind, [c["recipe"] if kind == "rt" else c["textline"] for c in rest],
                                         "%s_retry_%d" % (label, first["id"]), timeout=1500)
            b2, _ = case_events(evs2)
            by.update(b2)
            todo = rest
    # --- TLC
    groups = shard(cases, by)

    def val(args):
        k, grp = args
        path = sc.file("trace_%s_%d.ndjson" % (label, k))
        make_trace(path, grp, by, kind)
        r, rej, summ, consumed = validate(sc, path)
        return grp, path, r, rej, summ, consumed
    rejs = []
    tot = [0, 0, 0, 0, 0, 0]
    t0 = time.time()
    details = chk.__dict__.setdefault("c08_details", {})
    textcls = chk.__dict__.setdefault("c08_textcls", {})
    for grp, path, r, rej, summ, consumed in vlib.parallel(val, list(enumerate(groups)), jobs=jobs_tlc):
        details.update(r.details)
        textcls.update(r.textcls)
        if not consumed:
            raise Broken("DatumTrace did not consume trace %s: %s\n%s" % (path, r.summary(), r.out[-2500:]))
        if summ[4] != len(rej):
            raise Broken("reject count %d does not match the %d printed rejections" % (summ[4], len(rej)))
        if summ[0] != len(grp):
            raise Broken("trace of %d cases but TLC counted %d" % (len(grp), summ[0]))
        tot = [a + b for a, b in zip(tot, summ)]
        rejs += rej
        chk.cov["timing_s"].setdefault("tlc_shards_" + label, []).append(round(r.seconds, 1))
    chk.cov["timing_s"]["tlc_" + label] = round(time.time() - t0, 1)
    return rejs, tot, by


def report_rejections(chk, sc, build, cases, rejs, by, kind):
    """group TLC's rejections by structural key, confirm one representative per key in isolation, report"""
    cmap = {c["id"]: c for c in cases}
    GROUP = {"not-equal": "roundtrip", "not-iso": "roundtrip", "read-error": "roundtrip", "read-malformed": "roundtrip", "text-not-consumed": "roundtrip",
             "text-not-equal": "text", "text-not-iso": "text", "text-syntax": "text", "text-lex": "text",
             "readers-differ-outcome": "readers-differ", "readers-differ-datum": "readers-differ", "no-end": "crash-or-hang"}      # other reasons are their own group
    WFAM = {"native": "native-writer", "simple": "native-writer", "write": "srfi38-writer", "shared": "srfi38-writer"}
    percase = {}
    for cid, why, w, r in rejs:
        percase.setdefault(cid, []).append((why, w, r))
    keys = {}
    for cid, ls in percase.items():
        c = cmap[cid]
        groups = {}
        for why, w, r in ls:
            groups.setdefault(GROUP.get(why, why), []).append((why, w, r))
        for grp, members in groups.items():
            key = "%s:%s" % (c["cls"], grp)
            fams = set(WFAM[w] for _, w, _ in members if w in WFAM)
            if len(fams) == 1:
                key += ":" + fams.pop() + "-only"
            if grp == "roundtrip":
                readers = set(r for _, _, r in members)
                if len(readers) == 1:
                    key += ":reader=" + readers.pop()
            keys.setdefault(key, []).extend((cid,) + m for m in members)
    # confirm one representative per key: a fresh driver process and a fresh TLC run over all representatives together
    reps = {}
    for key, ls in sorted(keys.items()):
        ls.sort()
        reps[key] = ls[0]
    rcases = sorted(set(v[0] for v in reps.values()))
    confirmed = 0
    if rcases:
        sub = [cmap[i] for i in rcases]
        rc, evs, err = run_driver(build, sc, kind, [c["recipe"] if kind == "rt" else c["textline"] for c in sub], "confirm_" + kind, timeout=600)
        b, _ = case_events(evs)
        for c in sub:
            if c["id"] not in b:       # crashed: isolate by running alone
                rc1, evs1, err1 = run_driver(build, sc, kind, [c["recipe"] if kind == "rt" else c["textline"]], "confirm1_%d" % c["id"], timeout=300)
                b1, _ = case_events(evs1)
                b[c["id"]] = b1.get(c["id"], ['{"e":"Begin","id":%d}' % c["id"]])
        path = sc.file("confirm_%s.ndjson" % kind)
        make_trace(path, sub, b, kind)
        r, rej2, summ, consumed = validate(sc, path, timeout=900)
        if not consumed:
            raise Broken("confirmation run not consumed: %s" % r.out[-1500:])
        rej2 = set(rej2)
        for key, first in sorted(reps.items()):
            ls = keys[key]
            cid = first[0]
            c = cmap[cid]
            if first not in rej2:
                chk.cov.setdefault("unconfirmed_rejections", []).append({"key": key, "first": first})
                continue
            confirmed += 1
            det = getattr(chk, "c08_details", {}).get((cid, first[2], first[3]))
            content = {"key": key, "kind": kind, "case": c, "reason": first[1], "writer": first[2], "reader": first[3],
                       "cases_with_this_key": len(set(t[0] for t in ls)), "differing_nodes_of": det, "events": parsed(b, cid),
                       "texts": {e["w"]: "".join(chr(x) for x in e["t"])[:2000] for e in parsed(b, cid) if e["e"] == "Write"},
                       "how": "./check C08 --replay <this file> re-runs the case on a fresh build and lets TLC judge it"}
            chk.report(key, "%s (%d case(s)); first: case %d writer=%s reader=%s %s%s" % (
                first[1], len(set(t[0] for t in ls)), cid, first[2], first[3], (c.get("note") or "")[:60],
                (" [%d of %d nodes differ]" % det) if det else ""), "c08_%s.json" % re.sub(r"[^A-Za-z0-9_.-]", "_", key)[:100], content)
    return keys, confirmed


def binding_selftest(chk, sc, cases, by, rejected):
    """soundness rule 5: corrupt recorded fields of an accepted case and require TLC to reject each corruption"""
    import copy
    base = None
    for c in cases:
        if c["cls"].startswith("tree-depth") and c["id"] not in rejected and 6 <= len(c["g"]["n"]) <= 40:
            evs = parsed(by, c["id"])
            if any(e["e"] == "Read" and any(nd["k"] in ("int", "sym", "char") for nd in e["g"]["n"]) for e in evs):
                base = c
                break
    if base is None:
        raise Broken("binding self-test: no accepted tree case to corrupt")
    evs0 = parsed(by, base["id"])
    variants = []

    def variant(name, expect, f):
        c = dict(base)
        c["id"] = 900000 + len(variants) + 1
        evs = copy.deepcopy(evs0)
        for e in evs:
            e["id"] = c["id"]
        evs = f(evs)
        variants.append((c, evs, name, expect))

    def corrupt_read(evs):
        e = [e for e in evs if e["e"] == "Read"][1]
        nd = [nd for nd in e["g"]["n"] if nd["k"] in ("int", "sym", "char")][0]
        nd["p"] = nd["p"][:-1] + [nd["p"][-1] + 1] if nd["p"] and nd["k"] != "int" else ([0, 7] if nd["p"] != [0, 7] else [0, 8])
        return evs

    def corrupt_sharing(evs):          # a reader that returns an extra reference to the same node: not Iso for write-shared
        e = [e for e in evs if e["e"] == "Read" and e["w"] == "shared"][0]
        pairs = [i for i, nd in enumerate(e["g"]["n"]) if nd["k"] in ("pair", "vec") and nd["c"]]
        tgt = pairs[0]
        e["g"]["n"][tgt]["c"][0] = tgt + 1          # car := the node itself
        return evs

    def drop_end(evs):
        return [e for e in evs if e["e"] != "End"]

    def corrupt_text(evs):
        e = [e for e in evs if e["e"] == "Write"][0]
        e["t"] = e["t"][:-1]
        return evs

    def corrupt_rest(evs):
        [e for e in evs if e["e"] == "Read"][0]["rest"] = 0
        return evs

    def corrupt_datum(evs):
        e = [e for e in evs if e["e"] == "Datum"][0]
        nd = [nd for nd in e["g"]["n"] if nd["k"] in ("int", "sym", "char")][0]
        nd["k"], nd["p"] = "null", []
        return evs

    def read_error(evs):
        e = [e for e in evs if e["e"] == "Read"][0]
        e["ok"], e["g"] = 0, {"r": 0, "n": []}
        return evs
    variant("value changed by a reader", {"not-equal", "not-iso", "readers-differ-datum"}, corrupt_read)
    variant("sharing changed by a reader", {"not-iso", "read-malformed", "not-equal"}, corrupt_sharing)
    variant("End event removed", {"no-end"}, drop_end)
    variant("text truncated", {"text-syntax", "text-lex", "text-not-equal", "text-not-iso"}, corrupt_text)
    variant("reader left input", {"text-not-consumed"}, corrupt_rest)
    variant("datum differs from recipe", {"build-mismatch", "not-equal", "not-iso", "text-not-equal", "text-not-iso"}, corrupt_datum)
    variant("reader raised", {"read-error", "readers-differ-outcome"}, read_error)
    vcases = [v[0] for v in variants] + [dict(base, id=900099)]
    vby = {v[0]["id"]: v[1] for v in variants}
    ok_evs = copy.deepcopy(evs0)
    for e in ok_evs:
        e["id"] = 900099
    vby[900099] = ok_evs
    path = sc.file("selftest.ndjson")
    make_trace(path, vcases, vby, "rt")
    r, rej, summ, consumed = validate(sc, path, timeout=600)
    if not consumed:
        raise Broken("binding self-test: trace not consumed: %s" % r.out[-1500:])
    res = {}
    for c, evs, name, expect in variants:
        got = set(t[1] for t in rej if t[0] == c["id"])
        res[name] = sorted(got)
        if not (got & expect):
            raise Broken("binding self-test: corruption '%s' was not rejected as expected (got %s)" % (name, sorted(got)))
    if any(t[0] == 900099 for t in rej):
        raise Broken("binding self-test: the uncorrupted copy was rejected: %s" % [t for t in rej if t[0] == 900099])
    chk.cov["binding_selftest"] = res


# ------------------------------------------------------------------------------------------------
# texts for the reader-agreement part
# ------------------------------------------------------------------------------------------------
VALID_TEXTS = [
    "@number",
    "#e1.5", "#i1/2", "#x1F", "#b101", "#o17", "#d10", "#x-1f", "#e1e3", "#i5", "#xAbC", "#X1f", "#E1.5", "#I5", "1e3", "1E3", "-1.5e-3", ".5", "+.5", "-.5", "5.",
    "1e400", "-1e400", "1e-400", "+inf.0", "-inf.0", "+nan.0", "1+2i", "1-2i", "-i", "+i", "+2i", "1/2+3/4i", "1.5+2.5i", "1@0", "123456789012345678901234567890", "-123456789012345678901234567890",
    "1/2", "-1/2", "2/4", "10/5", "+5", "-0", "-0.0", "0.0", "00012", "#e-0.5", "#i-1/3", "#e1e-3", "#b-101/11", "#o-17", "#x10/F", "#e1.25e2", "#d1.5",
    "@number-two-prefixes",
    "#e#x10", "#x#e10", "#i#b11", "#b#i11", "#d#e1.5", "#e#d1.5", "#d#i1/3", "#i#d1/3", "#x#i-ff", "#o#e17",
    "@misc",
    "#t", "#f", "#true", "#false", "()", "#()", "#u8()", "#u8(0 1 255)", "#u8(#xFF #b1 #o7)", "'a", "`a", ",a", ",@a", "'()", "''a", "'(a . b)", "`(a ,b ,@c)", "'#(a)", "'\"s\"", "' a",
    "@comment",
    "; c\na", "#;a b", "#;(a b) c", "#|x|#a", "#|a#|b|#c|#d", " a ", "\ta\n", "(a #;b)", "(a #;b . c)", "(a . #;b c)", "(a ;x\n b)", "(a #|x|# b)", "", " ", ";", "; only a comment", "#;a", "#|x|#", "a;b",
    "#;#;a b c", "(#;a)", "#(#;a)", "#;()a",
    "@label",
    "#0=a", "(#0=a #0#)", "#0=(a . #0#)", "#1=(a #1#)", "#10=(a #10#)", "(#0=(a) #1=(b) #0# #1#)", "#0=#(#0#)", "#0=(#1=(#0# #1#))", "(#0=\"s\" #0#)", "(#0=#u8(1) #0#)", "#0=(a b . #0#)",
    "(#0=(a) . #0#)", "#(#0=(a) #0# #0#)", "#0=(#0# . #0#)", "(#1=(a) #0=(b) #1# #0#)", "'#0=(a . #0#)", "(#0=(a) #;#0# #0#)",
    "@list",
    "(1 .5)", "(1 . 5)", "(a . b)", "(a b . c)", "(a . (b . (c . ())))", "(a .b)", "(1 .a)", "(a.b)", "a.b", "...", "(a ... b)", "(a . ...)", "(... . a)", "((a))", "(() ())", "(()())", "(a(b)c)", "(a\"b\"c)",
    "#(a #(b) ())", "(a . b )", "( a . b)", "(a .\nb)", "(a\n.\nb)",
    "@string",
    "\"a\\\nb\"", "\"a\\  \n  b\"", "\"\\a\\b\\t\\n\\r\\\"\\\\\"", "\"\\x41;\"", "\"\\x3bb;\"", "\"\\x0;\"", "\"\\x00041;\"", "\"\\x10FFFF;\"", "\"a|b\"", "\"\\|\"", "\"\\t\\t\"", "\"\"",
    "\"\u03bb\"", "\"\U0001F600\"", "\"a\nb\"", "\"tab\there\"", "\"a;b\"", "\"(\"", "\"#|\"",
    "@symbol",
    "abc", "ABC", "|ABC|", "|a b|", "||", "|a\\x41;b|", "|\\x3bb;|", "|\\||", "|a\\tb|", "|a\\nb|", "|\u03bb|", "\u03bb", "a\u03bb", "!$%&*/:<=>?^_~", "+", "-", "->", "-a", "+a", "+.a", "-..", "..",
    "a1", "a+b", "a-b", "a@b", "<=?", "set!", "list->vector", "+soup+", "V17a", "|two words|", "|two\\x20;words|", "|\\x41;|", "the-word-recursion-has-many-meanings",
    "@char",
    "#\\a", "#\\A", "#\\space", "#\\newline", "#\\x41", "#\\x", "#\\(", "#\\)", "#\\;", "#\\\"", "#\\ ", "#\\\u03bb", "#\\\U00010000", "#\\\U0010FFFF", "#\\\u00e9", "#\\\uffff", "#\\null", "#\\alarm", "#\\backspace", "#\\delete",
    "#\\escape", "#\\return", "#\\tab", "#\\x0", "#\\x3bb", "#\\x10FFFF", "#\\x03BB", "#\\#", "#\\'", "#\\|", "#\\\\", "#\\1", "#\\x1", "(#\\a #\\b)", "(#\\a)", "#(#\\()", "#\\t", "#\\n", "#\\s",
]
MALFORMED_TEXTS = [
    "\"\\X41;\"", "#\\X41", "#T", "#F", "(#t#f)", "|a|b", "a|b|", "|a||b|", 
    "#1#", "(#0# . #0=a)", "#0=#0#", "#0=(a . #1#)", "(#0=a #0=b)", "(a . b c)", "(. a)", "(a .)", "( . )", ")", "#(a . b)", "#u8(256)", "#u8(-1)", "#u8(a)", "#u8(1 . 2)", "#u8(1.0)", "\"\\q\"", "\"\\x41\"",
    "\"\\x;\"", "\"\\xD800;\"", "\"\\x110000;\"", "#\\x110000", "#\\xD800", "#\\foo", "1/0", "#b102", "#o8", "#xg", "#tr", "#\\nul", "#\\altmode", "#\\SPACE", "1_000", "1,000", "1'000", "a\\ b", "\\a",
    "a\\", "[a]", "{a}", "[", "]", "{", "}", "#\\", "#", "#;", "#|", "#z", "#!", "#!eof", "#!fold-case A", "#!unknown", "a#|x|#", "#e", "#x", "#e1/0", "#i", "1e", "1e+", "1/", "+-1", "--1", "1+", "1++2i", "1+2", "i", "1i",
    "#0", "#0=", "#=a", "##", "#0=)", "(#0=)", "'", "`", ",", ",@", "(')", "#(')", "(a . 'b c)", "(a . . b)", "(a .. b)", "#u8", "#u8 (1)", "# (a)", "#u9(1)", "#vu8(1)", "#f32(1.0)", "#s8(1)", "#c64(1)",
    "|a", "\"a", "(a", "#(a", "#u8(1", "(a . ", "(a . b", "#0=(a", "'(", "#;(", "#|x", "#;", "\"\\", "|\\", "(\"", "((((((((((", "#\\x110000000000000000000",
    "\x00", "a\x00b", "(a\x00b)", "\x7f", "\x01", "\x0c a", "\u00a0a", "\u2028a", "\ufeffa", "(\x0ba)",
]


def gen_label_texts(rng, thorough):
    """hand-written texts with many datum labels whose numbers are NOT the consecutive 0,1,2.. a writer produces:
       descending, strided, shuffled, on strings / bytevectors / atoms, referenced in several orders; and references
       to labels that are never defined.  (class, judgement, text)"""
    out = []
    sizes = LABEL_SIZES_THOROUGH if thorough else [3, 23, 24, 25, 26, 47, 48, 49, 50, 96, 97, 200]

    def item(kind, j):
        return {"pair": "(%d)" % j, "vec": "#(%d)" % j, "str": "\"s%d\"" % j, "bytes": "#u8(%d)" % (j % 256), "sym": "x%d" % j, "int": "%d" % (1000 + j),
                "char": "#\\a"}[kind]

    def text(nums, refs, kinds=("pair",), close=")"):
        return "(" + " ".join("#%d=%s" % (m, item(kinds[j % len(kinds)], j)) for j, m in enumerate(nums)) + "".join(" #%d#" % m for m in refs) + close
    for n in sizes:
        ep = label_epoch(n)
        asc = list(range(n))
        desc = asc[::-1]
        # numbers descending inside blocks of 16 (the native reader accepts a new label up to 16 above the highest seen)
        blk, lo = [], 0
        while lo < n:
            hi_ = min(lo + 16, n - 1) if lo == 0 else min(lo + 15, n - 1)
            blk += list(range(hi_, lo - 1, -1))
            lo = hi_ + 1
        out.append(("labels-text-descending-blocks:" + ep, "agree", text(blk, asc)))
        out.append(("labels-text-descending-blocks:" + ep, "agree", text(blk, blk[::-1])))
        # a window of 16 ahead of the highest label is what the native reader accepts: shuffled inside that window
        nums, hi, pool = [], -1, set()
        while len(nums) < n:
            cand = [m for m in range(max(0, hi - 40), hi + 17) if m not in pool]
            m = rng.choice(cand)
            nums.append(m)
            pool.add(m)
            hi = max(hi, m)
        out.append(("labels-text-shuffled:" + label_epoch(hi + 1), "agree", text(nums, sorted(nums))))
        out.append(("labels-text-shuffled:" + label_epoch(hi + 1), "agree", text(nums, nums[::-1])))
        # stride 16 (the largest step the native reader accepts)
        st = [16 * j for j in range(max(2, n // 16 + 1))]
        out.append(("labels-text-stride16:" + label_epoch(st[-1] + 1), "agree", text(st, st[::-1])))
        # labels on data that writers never label
        out.append(("labels-text-on-atoms:" + ep, "agree", text(asc, desc + asc, kinds=("str", "bytes", "vec", "sym", "int", "char", "pair"))))
        # references to the boundary labels only, after all definitions
        bd = [k for k in (0, 22, 23, 24, 46, 47, 48, 94, 95, 96, 190, 191, 192, n - 1) if k < n]
        out.append(("labels-text-boundary-refs:" + ep, "agree", text(asc, bd + bd[::-1])))
        # forward structure: every labelled list refers to the first and is referred to from the end
        out.append(("labels-text-cycles:" + ep, "agree", "#0=(" + " ".join("#%d=(%d #0#)" % (j, j) for j in range(1, n)) + "".join(" #%d#" % j for j in range(n - 1, -1, -1)) + ")"))
        # one reference to a label that is never defined, after n definitions
        for m in sorted(set([n, n + 1, 23, 24, 47, 48, 95, 96, 191, 192, 300, 1000, 99999]) - set(asc)):
            out.append(("labels-text-undefined:" + ep, "undefined", text(asc, [0, m])))
        out.append(("labels-text-undefined:" + ep, "undefined", text(st, [st[-1] + 1])))
        out.append(("labels-text-undefined:" + ep, "undefined", text(st, [st[-1] - 1])))
    # steps of more than 16, large numbers: valid R7RS (a label is any <uinteger 10>)
    for t in ("#100=(a . #100#)", "(#0=a #17=b #17# #0#)", "(#0=a #16=b #33=c #33#)", "#1000=x", "(#1000=(a) #1000#)", "(#5=a #2=b #30=c #5# #2# #30#)",
              "#99999=(a #99999#)", "(#24=a #24#)", "(#23=a #23#)", "(#17=a #0=b #17#)"):
        out.append(("labels-text-gap", "agree", t))
    for t in ("(#0=a #4294967296#)", "(#0=a #18446744073709551616#)", "(#0=a #99999999999999999999#)", "#4294967296=(a . #4294967296#)", "(#0=a #00000000000000000000#)"):
        out.append(("labels-text-huge-number", "total", t))
    return [(c, j, S(t)) for c, j, t in out]


def gen_texts(rng, written, thorough):
    """(class, judgement, code points).  judgement "agree": both readers must produce the same outcome (texts from
       the writers, valid R7RS texts); "truncated": TLC decides whether the prefix is an incomplete datum (both readers
       must signal an error) or a complete one (agree); "total": R7RS leaves the outcome open, only termination is required."""
    out = []
    texts = sorted(set(tuple(t) for t in written if 0 < len(t) <= 300))
    rng.shuffle(texts)
    n = 3000 if thorough else 500
    for t in texts[:n]:
        out.append(("written", "agree", list(t)))
    for t in texts[:n]:
        t = list(t)
        out.append(("truncated", "truncated", t[:rng.randrange(len(t))]))
        c = rng.random()
        if c < 0.3:
            j = rng.randrange(len(t))
            m, cls = t[:j] + t[j + 1:], "mut-delete"
        elif c < 0.6:
            j = rng.randrange(len(t) + 1)
            m, cls = t[:j] + [rng.choice(S("()#.\"|\\'`, 0123456789=ei+-x;"))] + t[j:], "mut-insert"
        elif c < 0.85:
            j = rng.randrange(len(t))
            m, cls = t[:j] + [rng.choice(S("()#.\"|\\ 19=a"))] + t[j + 1:], "mut-replace"
        else:
            j, k = sorted((rng.randrange(len(t)), rng.randrange(len(t))))
            m, cls = t[:j] + t[k:] + t[j:k], "mut-swap"
        out.append((cls, "total", m))
    section = "misc"
    for s in VALID_TEXTS:
        if s.startswith("@"):
            section = s[1:]
            continue
        out.append(("valid-" + section, "agree", S(s)))
        for k in range(1, len(s)):
            out.append(("truncated", "truncated", S(s)[:k]))
    for s in MALFORMED_TEXTS:
        out.append(("malformed", "total", S(s)))
    # rationals whose denominator is not an exact integer (the denominator is read as a number of its own)
    for t in ("1/2e3i", "23/30e+10i", "3/0e1i", "1/2e3", "1/2.5", "1/2.5i", "1/2/3i", "1/2e0", "-1/2e3i", "#e1/2e3i", "#x1/2e3i", "1/1e400i", "1/+inf.0i", "1/+nan.0i",
              "1/2e3+1i", "1/2+1e3i", "1/0.0i", "1/-2i", "1/+2i", "1/2e-3i", "(1/2e3i)", "1/2@1e3", "1/2e3@1"):
        out.append(("malformed-rational-denominator", "total", S(t)))
    out += gen_label_texts(rng, thorough)
    for d in (100, 1000) + ((10000,) if thorough else ()):
        out.append(("deep-open", "truncated", S("(" * d)))
        out.append(("deep-vector-open", "truncated", S("#(" * d)))
        out.append(("deep-nest", "agree", S("(" * d + "a" + ")" * d)))
        out.append(("deep-vector", "agree", S("#(" * d + ")" * d)))
        out.append(("deep-quote", "agree", S("'" * d + "a")))
        out.append(("deep-close", "total", S(")" * d)))
        out.append(("long-list", "agree", S("(" + "a " * d + ")")))
        out.append(("long-string", "agree", S("\"" + "ab\\n" * d + "\"")))
        out.append(("long-symbol", "agree", S("x" * d)))
        out.append(("long-integer", "agree", S("1" + "0" * d)))
    # number syntax from the R7RS grammar (valid by construction), every combination of features; the class names them
    bodies = {"": {"int": ["7", "123", "0"], "bigint": ["123456789012345678901234567890"], "ratio": ["3/4", "10/4", "123456789012345678901/7"],
                   "decimal": ["1.5", ".25", "3.", "1e3", "2.5e-3"], "decimal-long": ["1234567890123456789012345.678", "1.2345678901234567e+25", "4.35e-30"]},
              "#d": None,
              "#x": {"int": ["1f", "A0", "0"], "bigint": ["123456789abcdefABCDEF0123456789"], "ratio": ["a/f", "10/8"]},
              "#b": {"int": ["101", "0"], "bigint": ["1" + "01" * 40], "ratio": ["101/11"]},
              "#o": {"int": ["17", "0"], "bigint": ["7654321" * 5], "ratio": ["17/5"]}}
    bodies["#d"] = bodies[""]
    for radix in ("", "#d", "#x", "#b", "#o"):
        for exact in ("", "#e", "#i"):
            for pre in sorted(set([radix + exact, exact + radix])):
                for upper in (False, True):
                    if upper and not pre:
                        continue
                    p = pre.upper() if upper else pre
                    for kind, bl in sorted(bodies[radix].items()):
                        for shape in ("real", "complex"):
                            cls = "number-%s-%s%s%s%s" % (shape, kind, "-radix" if radix else "", "-" + exact[1] + "prefix" if exact else "", "-uppercase" if upper else "")
                            for j, bdy in enumerate(bl):
                                for sign in ("", "-") if j == 0 else ("",):
                                    txt = p + sign + bdy
                                    if shape == "complex":
                                        txt += "-" + bl[(j + 1) % len(bl)] + "i"
                                    out.append((cls, "agree", S(txt)))
    return out


# ------------------------------------------------------------------------------------------------
def run():
    chk = vlib.Check("C08")
    thorough = chk.thorough
    rng = chk.rng
    with vlib.Scratch("c08") as sc:
        build = vlib.build_repo(sc.sub("build"))
        # ---------------- model checking of the specifications (in the background of the conformance runs)
        from concurrent.futures import ThreadPoolExecutor
        pool = ThreadPoolExecutor(max_workers=3)
        mcs = [("DatumMC_pairs", "DatumMC.tla", "DatumMC_pairs.cfg", 4),
               ("TextReadMC_rt", "TextReadMC.tla", "TextReadMC_rt.cfg", 2),
               ("TextReadMC_num", "TextReadMC.tla", "TextReadMC_num.cfg", 2),
               ("TextReadMC_int", "TextReadMC.tla", "TextReadMC_int.cfg", 1),
               ("TextReadMC_esc", "TextReadMC.tla", "TextReadMC_esc.cfg", 1)]
        if thorough:
            mcs.append(("DatumMC_single", "DatumMC.tla", "DatumMC_single.cfg", 4))
        futs = [(name, pool.submit(vlib.run_tlc, mod, cfg, sc.path, workers=w, timeout=1200, heap="4g")) for name, mod, cfg, w in mcs]
        # ---------------- cases
        cs = Cases()
        graphs, genruns = tlc_graphs(sc, thorough)
        for cfg, r in genruns:
            chk.add_mc(cfg.replace(".cfg", ""), r)
        add_tlc_graphs(cs, graphs)
        gen_graphs_random(cs, rng, thorough)
        gen_labels(cs, rng, thorough)
        gen_trees(cs, rng, thorough)
        gen_numbers(cs, rng, thorough)
        gen_complex_matrix(cs)
        gen_flonums(cs, rng, thorough, 1000000 if thorough else 10000)
        gen_chars(cs, rng, thorough)
        gen_strings(cs, rng, thorough)
        gen_symbols(cs, rng, thorough)
        cases = cs.cases
        timing = chk.cov.setdefault("timing_s", {})
        timing["generate"] = round(time.time() - chk.t0, 1)
        # batches bound the amount of recorded data held at a time (thorough: > 1 GB of node tables)
        batches, cur, size = [], [], 0
        for c in cases:
            w = len(c["g"]["n"]) * (3 + 6 * bin(c["mask"]).count("1"))
            if cur and size + w > 2500000:
                batches.append(cur)
                cur, size = [], 0
            cur.append(c)
            size += w
        if cur:
            batches.append(cur)
        rejs, tot, written = [], [0] * 6, []
        selftested = False
        for bi, batch in enumerate(batches):
            r1, t1, by = campaign(chk, sc, build, batch, "rt", "rt%d" % bi, jobs_drv=8, jobs_tlc=6 if not thorough else 10)
            rejs += r1
            tot = [a_ + b_ for a_, b_ in zip(tot, t1)]
            bad = set(t[0] for t in r1)
            for c in batch:
                if c["id"] in bad:
                    continue
                if c["cls"] in ("graph-ring", "tree-depth4", "sym:bar-or-backslash", "cpx-exact", "tlc-graph:cyclic-shared") and len(chk.cov["samples"]) < 5:
                    ws = [e for e in parsed(by, c["id"]) if e["e"] == "Write"]
                    if ws and not any(s_.get("class") == c["cls"] for s_ in chk.cov["samples"]):
                        chk.sample({"class": c["cls"], "datum": c["g"] if len(c["g"]["n"]) < 12 else "(%d nodes)" % len(c["g"]["n"]),
                                    "texts": {e["w"]: "".join(chr(x) for x in e["t"])[:200] for e in ws}}, limit=5)
                if len(written) < 40000 and len(c["g"]["n"]) <= 60:
                    for l in by.get(c["id"], []):
                        if l.startswith('{"e":"Write"'):
                            e = json.loads(l)
                            if e.get("ok") == 1 and 0 < len(e["t"]) <= 300:
                                written.append(e["t"])
            if not selftested and any(c["cls"].startswith("tree-depth") for c in batch):
                binding_selftest(chk, sc, batch, by, bad)
                selftested = True
            del by
        if not selftested:
            raise Broken("binding self-test did not run")
        timing["roundtrip_campaign"] = round(time.time() - chk.t0, 1)
        keys, confirmed = report_rejections(chk, sc, build, cases, rejs, None, "rt")
        timing["roundtrip_confirm"] = round(time.time() - chk.t0, 1)
        rejected_cases = set(t[0] for t in rejs)
        chk.cov["roundtrip_cases"] = len(cases)
        chk.cov["roundtrip_batches"] = len(batches)
        chk.cov["roundtrip_cases_rejected"] = len(rejected_cases)
        chk.cov["writes_validated"] = tot[1]
        chk.cov["texts_read_by_abstract_reader"] = tot[5]
        chk.cov["reads_validated"] = tot[2]
        chk.cov["rejection_keys"] = {k: len(set(t[0] for t in v)) for k, v in sorted(keys.items())}
        classes = {}
        for c in cases:
            classes[c["cls"].split(":")[0]] = classes.get(c["cls"].split(":")[0], 0) + 1
        chk.cov["case_classes"] = classes
        nflo = sum(sum(1 for nd in c["g"]["n"] if nd["k"] in ("flo", "nan")) for c in cases)
        nchar = sum(sum(1 for nd in c["g"]["n"] if nd["k"] == "char") for c in cases)
        chk.cov["flonums_round_tripped"] = nflo
        chk.cov["char_data_round_tripped"] = nchar
        if tot[2] < 4 * len(cases) or tot[1] < 2 * len(cases) or nflo < 60000 or tot[5] < len(cases):
            raise Broken("vacuous run: %s reads / %s writes for %d cases, %d flonums" % (tot[2], tot[1], len(cases), nflo))
        # ---------------- texts fed to both readers
        tcases = []
        for cls, judge, t in gen_texts(rng, written, thorough):
            if not all(scalar(x) for x in t):
                continue
            cid = len(tcases) + 1
            tcases.append({"id": cid, "cls": "text-" + cls, "judge": judge, "t": t, "textline": "(%d %s)" % (cid, " ".join(str(x) for x in t)),
                           "note": "".join(chr(x) for x in t)[:80]})
        trejs, ttot, tby = campaign(chk, sc, build, tcases, "txt", "txt", jobs_drv=8, jobs_tlc=6)
        timing["text_campaign"] = round(time.time() - chk.t0, 1)
        tkeys, tconf = report_rejections(chk, sc, build, tcases, trejs, tby, "txt")
        timing["text_confirm"] = round(time.time() - chk.t0, 1)
        # informational: outcome classes (as determined by TLC) on texts whose outcome R7RS leaves open
        tmap = {c["id"]: c for c in tcases}
        drift = [(tmap[i]["cls"], tmap[i]["note"], v.get("native"), v.get("ss")) for i, v in sorted(chk.c08_textcls.items())
                 if v.get("j") == "total" and v.get("native") != v.get("ss")]
        chk.cov["unjudged_texts_where_readers_differ"] = {"count": len(drift), "examples": [
            {"class": a, "text": b, "native": c_, "ss": d} for a, b, c_, d in drift[:25]]}
        judged = {}
        for v in chk.c08_textcls.values():
            judged[v.get("j")] = judged.get(v.get("j"), 0) + 1
        chk.cov["text_judgements"] = judged
        if judged.get("agree", 0) < 500 or judged.get("error", 0) < 100:
            raise Broken("vacuous text run: judgements %s" % judged)
        chk.cov["text_cases"] = len(tcases)
        chk.cov["text_reads_validated"] = ttot[3]
        chk.cov["text_rejection_keys"] = {k: len(set(t[0] for t in v)) for k, v in sorted(tkeys.items())}
        ncrash = len(chk.cov.get("driver_incomplete_cases", []))          # a crashed case has no reads: a verdict, not vacuity
        if ttot[3] < 2 * (len(tcases) - ncrash) - 4:
            raise Broken("vacuous text run: %d reads for %d texts" % (ttot[3], len(tcases)))
        chk.sample({"class": "text case", "text": tcases[len(tcases) // 2]["note"], "events": parsed(tby, tcases[len(tcases) // 2]["id"])})
        # ---------------- model checking results
        for name, f in futs:
            r = f.result()
            vlib.require_tlc_ok(r, name)
            if r.violated:
                raise Broken("%s: the specification violates its own law %s" % (name, r.violated))
            if r.distinct < 100:
                raise Broken("%s: vacuous model run (%d states)" % (name, r.distinct))
            chk.add_mc(name, r)
        timing["mc_done"] = round(time.time() - chk.t0, 1)
        chk.cov["exhaustive"] = False
        chk.cov["traces_validated_against_impl"] = (len(cases) - len(rejected_cases)) + (len(tcases) - len(set(t[0] for t in trejs)))
        chk.cov["evaluations"] = tot[1] + tot[2] + ttot[3]
        chk.cov["distinct_nontrivial"] = len(set(json.dumps(c["g"], sort_keys=True) for c in cases)) + len(set(tuple(c["t"]) for c in tcases))
        chk.cov["rule"] = ("a case = one datum (recipe graph) written by every applicable writer and read back by both readers, or one text read by both readers; "
                           "evaluations = writer and reader executions judged by TLC; distinct = distinct recipe graphs + distinct texts")
        chk.assumptions += ["the driver's canonicaliser (eq?, car/cdr, vector-ref, char->integer, symbol->string, quotient/remainder, bytevector-ieee-double-set!) "
                            "reports data faithfully; it is cross-checked by TLC against the recipe graph of every case (build-mismatch)",
                            "the text of an inexact number is not evaluated by the specification (needs real arithmetic): flonums are judged by bit identity of "
                            "the value read back and by the shape of the text only",
                            "write-simple is the same procedure as the native write (checked at run time)"]
    return chk.finish()


def replay(path):
    d = json.load(open(path))
    print(json.dumps({k: v for k, v in d.items() if k != "events"}, indent=1)[:6000])
    c = d["case"]
    kind = d.get("kind", "rt")
    with vlib.Scratch("c08r") as sc:
        build = vlib.build_repo(sc.sub("build"))
        rc, evs, err = run_driver(build, sc, kind, [c["recipe"] if kind == "rt" else c["textline"]], "replay", timeout=300)
        b, _ = case_events(evs)
        if c["id"] not in b:
            b[c["id"]] = ['{"e":"Begin","id":%d}' % c["id"]]
        p = sc.file("replay.ndjson")
        make_trace(p, [c], b, kind)
        r, rej, summ, consumed = validate(sc, p, timeout=600)
        for e in parsed(b, c["id"]):
            if e["e"] == "Write":
                print("writer %-7s -> %s" % (e["w"], "".join(chr(x) for x in e["t"])[:300]))
        print("TLC: consumed=%s summary=%s rejections=%s" % (consumed, summ, rej))
        if not consumed:
            return 2
        return 1 if rej else 0
