"""C18 -- sorting and container libraries conform to their abstract data types.
   Sorting: Sorted.tla states what a (stable) sort / merge / selection is; SortedMC checks the relations against
   reference formulations; every SRFI 95 / SRFI 132 entry point is run on TLC-enumerated small inputs and on
   seeded adversarial inputs up to 2000 elements, and TLC (SortedTrace.tla) accepts or rejects every recorded call.
   Containers: Adt.tla is a state machine over a version store (persistence is part of the model) with the abstract
   semantics of SRFI 113 sets/bags, SRFI 146 mappings, (chibi iset), SRFI 101, 117, 134 and a selection of SRFI 1/133;
   TLC model checks its laws, generates operation histories, and AdtTrace.tla judges every recorded observation."""
import json, os, re, sys, time
import vlib
from vlib import Broken

SCM = os.path.join(vlib.VERIF, "harness", "scm")
SORTDRV = os.path.join(SCM, "c18sort.scm")
ADTDRV = os.path.join(SCM, "c18adt.scm")


# ------------------------------------------------------------------------------------------------
# helpers
# ------------------------------------------------------------------------------------------------
def fname(key):
    """file-name-safe, injective enough rendering of a report key"""
    for a, b in (("<", "lt"), (">", "gt"), ("=", "eq"), ("?", "p"), ("!", "x"), ("+", "plus"), ("/", "-"), (":", "_")):
        key = key.replace(a, b)
    return re.sub(r"[^A-Za-z0-9_-]+", "_", key)


def sexp(x):
    """python value -> s-expression text (format conversion for the drivers)"""
    if isinstance(x, bool):
        return "#t" if x else "#f"
    if isinstance(x, int):
        return str(x)
    if isinstance(x, str):
        return x                      # symbols / pre-rendered
    if isinstance(x, (list, tuple)):
        return "(" + " ".join(sexp(y) for y in x) + ")"
    raise Broken("cannot render %r" % (x,))


def tlc_hists(r):
    """HIST lines printed by a generator spec -> python values"""
    out = []
    for m in re.finditer(r'<<"HIST", "(.*)">>', r.out):
        out.append(json.loads(m.group(1).replace('\\"', '"').replace("\\\\", "\\")))
    return out


def rejected(r):
    """(event index, reason) pairs printed by a trace spec"""
    rej = [(int(m.group(1)), m.group(2)) for m in re.finditer(r'<<"REJECT", (\d+), "([^"]*)">>', r.out)]
    bad = re.findall(r'<<"(BADCASE|BADTABLE)", (\d+)', r.out)
    return rej, bad


def trace_verdict(r, nevents, what):
    """-> list of (index, reason) of rejected events; raises Broken on tool problems / inconsistent verdicts"""
    if r.error and "Postcondition" not in r.error:
        raise Broken("%s: TLC failed: %s" % (what, r.error[:2500]))
    rej, bad = rejected(r)
    if bad:
        raise Broken("%s: generator produced an out-of-domain case or an inconsistent key table: %s" % (what, bad[:5]))
    if r.ok:
        if rej:
            raise Broken("%s: accepted trace with REJECT lines" % what)
        return []
    m = re.search(r'"TRACE_REJECTED_AT", (\d+), (\d+)', r.out)
    if not m:
        raise Broken("%s: TLC neither accepted nor rejected: %s" % (what, r.out[-1500:]))
    if not rej:
        # stopped before the End event without a recorded rejection: an event no action could consume
        raise Broken("%s: trace not consumable at event %s of %s: %s" % (what, m.group(1), m.group(2), r.out[-800:]))
    return rej


# ------------------------------------------------------------------------------------------------
# sorting
# ------------------------------------------------------------------------------------------------
# fn -> (family, sequence kinds, wraps, merge?, range?, extra)
LIST, VEC = "list", "vector"
W95 = ["key", "clo", "bare", "bareclo"]
W132 = ["clo", "bare", "bareclo"]
SORT_FNS = {
    "sort": ("sort", [LIST, VEC], W95), "sort!": ("sort", [LIST, VEC], W95),
    "sorted?": ("sorted?", [LIST, VEC], ["key", "clo", "bare"]),
    "merge": ("merge-list", [LIST], W95), "merge!": ("merge-list", [LIST], W95),
    "list-sorted?": ("sorted?", [LIST], W132), "vector-sorted?": ("sorted?", [VEC], W132),
    "list-sort": ("sort", [LIST], W132), "list-stable-sort": ("sort", [LIST], W132),
    "list-sort!": ("sort", [LIST], W132), "list-stable-sort!": ("sort", [LIST], W132),
    "vector-sort": ("sort", [VEC], W132), "vector-stable-sort": ("sort", [VEC], W132),
    "vector-sort!": ("sort", [VEC], W132), "vector-stable-sort!": ("sort", [VEC], W132),
    "vector-sort/range": ("sort", [VEC], W132), "vector-stable-sort/range": ("sort", [VEC], W132),
    "vector-sort!/range": ("sort", [VEC], W132), "vector-stable-sort!/range": ("sort", [VEC], W132),
    "list-merge": ("merge-list", [LIST], W132), "list-merge!": ("merge-list", [LIST], W132),
    "vector-merge": ("merge-vector", [VEC], W132), "vector-merge!": ("merge-vector", [VEC], W132),
    "list-delete-neighbor-dups": ("dedup", [LIST], W132), "list-delete-neighbor-dups!": ("dedup", [LIST], W132),
    "vector-delete-neighbor-dups": ("dedup", [VEC], W132), "vector-delete-neighbor-dups!": ("dedup", [VEC], W132),
    "vector-find-median": ("median", [VEC], W132), "vector-find-median!": ("median", [VEC], W132),
    "vector-select!": ("select", [VEC], W132), "vector-separate!": ("select", [VEC], W132),
}
MERGE_FNS = [f for f, v in SORT_FNS.items() if v[0].startswith("merge")]
RANGE_FNS = [f for f in SORT_FNS if f.endswith("/range")] + ["vector-delete-neighbor-dups", "vector-delete-neighbor-dups!",
                                                              "vector-select!", "vector-separate!"]
DOMS = ["fix", "flo", "mixed", "big", "str", "chr"]
NUMERIC = ("fix", "flo", "mixed", "big")
DOM_RANKS = {"big": 20}


def sort_path(c):
    """which comparison path of lib/srfi/95/qsort.c the case takes (report key only)"""
    if SORT_FNS[c["fn"]][0] != "sort":
        return "scheme"
    if c["wrap"] == "bare" and c["dom"] in NUMERIC:
        return "opcode-" + c["ord"]
    return "callback"


def sort_key(c, why):
    fam = SORT_FNS[c["fn"]][0]
    path = sort_path(c)
    if c["fn"] == "vector-find-median!" and why in ("not-ordered", "not-a-permutation", "not-stable"):
        # the sorting step of vector-find-median! (it calls vector-sort!) went wrong: same family and path as the sorts
        fam = "sort"
        path = ("opcode-" + c["ord"]) if (c["wrap"] == "bare" and c["dom"] in NUMERIC) else "callback"
    k = "sort:%s:%s:%s:%s" % (fam, why, path, c["seq"])
    if path.startswith("opcode") and why != "not-stable":
        k += ":" + c["dom"]
    return k


def patterns(rng, n, d):
    """adversarial rank sequences of length n over (at most) d distinct ranks"""
    d = max(1, d)
    sc = lambda i: (i * d) // max(1, n)        # spread 0..n-1 over 0..d-1, monotone
    pats = {
        "sorted": [sc(i) for i in range(n)],
        "reversed": [sc(n - 1 - i) for i in range(n)],
        "organ-pipe": [sc(min(2 * i, 2 * (n - 1 - i) + 1)) for i in range(n)],
        "constant": [d // 2] * n,
        "random": [rng.randrange(d) for _ in range(n)],
        "two-values": [rng.randrange(2) * (d - 1) for _ in range(n)],
        "sawtooth": [(i * 7) % d for i in range(n)],
        "sorted-one-swap": None,
        "runs": None,
    }
    s = [sc(i) for i in range(n)]
    if n >= 2:
        i, j = rng.randrange(n), rng.randrange(n)
        s[i], s[j] = s[j], s[i]
    pats["sorted-one-swap"] = s
    r, out = [], []
    while len(out) < n:
        ln = rng.randrange(1, 9)
        b = rng.randrange(d)
        out += [min(d - 1, b + x) for x in range(ln)]
    pats["runs"] = out[:n]
    return pats


def up_sequence(rng, n, d):
    return sorted(rng.randrange(max(1, d)) for _ in range(n))


def mk_case(cid, fn, seq, wrap, dom, ordr, a, b=(), s=0, e=None, s2=0, e2=None, k=0, to=0, tl=0, pat=""):
    return dict(id=cid, fn=fn, seq=seq, wrap=wrap, dom=dom, ord=ordr, a=list(a), b=list(b), s=s, e=len(a) if e is None else e,
                s2=s2, e2=len(b) if e2 is None else e2, k=k, to=to, tl=tl, pat=pat)


def case_sexp(c):
    return "(" + " ".join("(%s . %s)" % (k, sexp(c[k]) if not isinstance(c[k], list) else sexp(c[k]))
                          for k in ("id", "seq", "wrap", "dom", "ord", "s", "e", "s2", "e2", "k", "to", "tl")) + \
        ' (fn . "%s") (a %s) (b %s))' % (c["fn"], " ".join(map(str, c["a"])), " ".join(map(str, c["b"])))


def finish_case(rng, c):
    """fill in range / k / target arguments for the entry points that take them"""
    fn, n = c["fn"], len(c["a"])
    if fn in RANGE_FNS:
        mode = rng.randrange(4)
        if mode == 0:
            c["s"], c["e"] = 0, n
        elif mode == 1:
            c["s"], c["e"] = rng.randrange(n + 1), n
        else:
            s = rng.randrange(n + 1)
            c["s"], c["e"] = s, rng.randrange(s, n + 1)
    if fn in ("vector-select!", "vector-separate!"):
        w = c["e"] - c["s"]
        if w == 0:                       # k must index the range: use the whole (non-empty) vector or drop the case
            if n == 0:
                return None
            c["s"], c["e"], w = 0, n, n
        c["k"] = rng.choice([0, w - 1, w // 2, rng.randrange(w)])
    if fn in ("vector-merge", "vector-merge!"):
        # ranges of sorted vectors are sorted
        if rng.randrange(2):
            na, nb = len(c["a"]), len(c["b"])
            c["s"] = rng.randrange(na + 1); c["e"] = rng.randrange(c["s"], na + 1)
            c["s2"] = rng.randrange(nb + 1); c["e2"] = rng.randrange(c["s2"], nb + 1)
        if fn == "vector-merge!":
            m = (c["e"] - c["s"]) + (c["e2"] - c["s2"])
            c["to"] = rng.choice([0, 0, 1, 3])
            c["tl"] = c["to"] + m + rng.choice([0, 0, 2])
    return c


def sort_cases(chk, sc):
    """the case list: TLC-enumerated small inputs for every entry point + seeded adversarial inputs"""
    rng = chk.rng
    cases = []
    combos = [(w, d, o) for w in W95 for d in DOMS for o in ("lt", "gt")]

    def pick(fn, i):
        fam, seqs, wraps = SORT_FNS[fn]
        for j in range(len(combos)):
            w, d, o = combos[(i * 7 + j + chk.seed) % len(combos)]
            if w in wraps:
                return seqs[(i + chk.seed) % len(seqs)], w, d, o
    # --- exhaustive small inputs, enumerated by TLC
    r = vlib.run_tlc("SortedGen.tla", "SortedGen.cfg", sc.path, workers=1, timeout=120, heap="1g")
    vlib.require_tlc_ok(r, "SortedGen")
    singles = [h[0] for h in tlc_hists(r)]
    r = vlib.run_tlc("SortedGen.tla", "SortedGenPairs.cfg", sc.path, workers=1, timeout=120, heap="1g")
    vlib.require_tlc_ok(r, "SortedGenPairs")
    pairs = tlc_hists(r)
    if len(singles) != 364 or len(pairs) != 400:
        raise Broken("SortedGen enumerated %d / %d inputs (expected 364 / 400)" % (len(singles), len(pairs)))
    reps = 6 if chk.thorough else 1
    i = 0
    for fn in SORT_FNS:
        for rep in range(reps):
            if fn in MERGE_FNS:
                for a, b in pairs:
                    i += 1
                    seq, w, d, o = pick(fn, i)
                    if o == "gt":
                        a, b = [2 - x for x in a], [2 - x for x in b]       # non-increasing in rank = sorted for the converse ordering
                    cases.append(mk_case(0, fn, seq, w, d, o, a, b, pat="tlc-enumerated"))
            else:
                for a in singles:
                    i += 1
                    seq, w, d, o = pick(fn, i)
                    cases.append(mk_case(0, fn, seq, w, d, o, a, pat="tlc-enumerated"))
    # --- fixed boundary inputs: integers whose difference exceeds the fixnum range, ties between exact and inexact keys
    for seq in (LIST, VEC):
        for o in ("lt", "gt"):
            for fn in ("sort", "sort!", "list-stable-sort" if seq == LIST else "vector-stable-sort"):
                cases.append(mk_case(0, fn, seq, "bare", "big", o, [14, 3, 8, 4, 13, 5, 15, 2], pat="fixnum-boundary"))
                cases.append(mk_case(0, fn, seq, "bare", "mixed", o, [2, 2, 0, 2, 1, 2, 2, 1], pat="exact-inexact-ties"))
                cases.append(mk_case(0, fn, seq, "bare", "flo", o, [1, 1, 0, 1, 1], pat="exact-inexact-ties"))
                cases.append(mk_case(0, fn, seq, "clo", "fix", o, [1, 0], pat="two-elements"))
                cases.append(mk_case(0, fn, seq, "clo", "fix", o, [2, 1, 0], pat="three-elements"))
    # --- seeded adversarial inputs
    lens_small = [0, 1, 2, 3, 4, 5, 6, 7, 8, 9, 12, 15, 16, 17, 24, 31, 32, 33, 48, 63, 64, 65, 100, 127, 128, 129, 199]
    lens_big = [255, 256, 257, 500, 511, 512, 513, 1000, 1023, 1024, 1025, 1999, 2000]
    nsmall, nbig = (6000, 700) if chk.thorough else (700, 45)
    fns = list(SORT_FNS)
    for j in range(nsmall + nbig):
        fn = fns[j % len(fns)] if j < nsmall else rng.choice(fns)
        n = rng.choice(lens_small) if j < nsmall else rng.choice(lens_big)
        fam, seqs, wraps = SORT_FNS[fn]
        seq, w, d, o = rng.choice(seqs), rng.choice(wraps), rng.choice(DOMS), rng.choice(["lt", "gt"])
        if j % 5 == 0:
            w, d = ("bare" if "bare" in wraps else w), rng.choice(["flo", "mixed", "big", "fix"])      # type-directed path
        nr = DOM_RANKS.get(d, 2000)
        dist = min(nr, rng.choice([1, 2, 3, 5, 16, max(1, n // 2), max(1, n)]))
        if fn in MERGE_FNS:
            na = rng.randrange(n + 1)
            a, b = up_sequence(rng, na, dist), up_sequence(rng, n - na, dist)
            if o == "gt":
                a, b = a[::-1], b[::-1]
            pat = "sorted-pair"
        else:
            ps = patterns(rng, n, dist)
            pat = rng.choice(sorted(ps))
            a, b = ps[pat], []
        c = finish_case(rng, mk_case(0, fn, seq, w, d, o, a, b, pat=pat))
        if c:
            cases.append(c)
    out = []
    for c in cases:
        c = finish_case(rng, c) if c["pat"] == "tlc-enumerated" else c
        if c:
            c["id"] = len(out) + 1
            out.append(c)
    return out


def run_sort_shard(build, sc, idx, cases):
    f = sc.file("sortcases_%d.scm" % idx)
    with open(f, "w") as fh:
        for c in cases:
            fh.write(case_sexp(c) + "\n")
    p = build.run([SORTDRV, f], timeout=600)
    t = sc.file("sorttrace_%d.ndjson" % idx)
    with open(t, "wb") as fh:
        fh.write(p.stdout)
        fh.write(b'{"e":"End"}\n')
    return dict(idx=idx, trace=t, rc=p.returncode, err=p.stderr.decode(errors="replace")[-600:], cases=cases)


def validate_sort(sc, trace, to=900):
    return vlib.run_tlc("SortedTrace.tla", "SortedTrace.cfg", sc.path, env={"TRACE": trace}, workers=1, timeout=to, heap="3g")


def sorting(chk, sc, build):
    # ---- the relations agree with their reference formulations
    cfg = sc.file("SortedMC.cfg")
    with open(cfg, "w") as f:
        f.write("SPECIFICATION Spec\nCONSTANTS MaxLen = %d\n NKeys = %d\nINVARIANTS WF AgreeStable AgreeSort AgreeMerge AgreeDedup "
                "AgreeKth StableImpliesSort\nCHECK_DEADLOCK FALSE\n" % ((4, 2) if chk.thorough else (3, 2)))
    r = vlib.run_tlc("SortedMC.tla", cfg, sc.path, workers=4, timeout=1200, heap="6g")
    vlib.require_tlc_ok(r, "SortedMC")
    if r.violated:
        raise Broken("Sorted.tla disagrees with its reference formulation: %s" % r.violated)
    chk.add_mc("SortedMC", r)
    # ---- cases on the implementation
    cases = sort_cases(chk, sc)
    weight = lambda c: 40 + len(c["a"]) + len(c["b"])
    shards, cur, w = [], [], 0
    for c in cases:
        cur.append(c); w += weight(c)
        if w > 60000:
            shards.append(cur); cur, w = [], 0
    if cur:
        shards.append(cur)
    runs = vlib.parallel(lambda t: run_sort_shard(build, sc, t[0], t[1]), list(enumerate(shards)), jobs=8)
    accepted, classes = 0, set()

    def judge(run):
        r = validate_sort(sc, run["trace"])
        evs = vlib.read_ndjson(run["trace"])
        calls = [e for e in evs if e.get("e") == "Call"]
        if run["rc"] != 0 or len(calls) != len(run["cases"]):
            raise Broken("sort driver failed (rc %s, %d of %d calls logged): %s" % (run["rc"], len(calls), len(run["cases"]), run["err"]))
        return run, r, evs

    rejs = {}                     # key -> list of (size, case, event, why, table events)
    for run, r, evs in vlib.parallel(judge, runs, jobs=6):
        rejset = dict(trace_verdict(r, len(evs), "SortedTrace shard %d" % run["idx"]))
        bycase = {c["id"]: c for c in run["cases"]}
        for i, ev in enumerate(evs, 1):
            if ev.get("e") != "Call":
                continue
            c = bycase[ev["id"]]
            if i not in rejset:
                accepted += 1
                classes.add((c["fn"], c["wrap"], c["dom"], c["ord"], c["seq"], min(len(c["a"]) + len(c["b"]), 9), c["pat"]))
                if len(c["a"]) in (6, 7) and c["pat"] != "tlc-enumerated":
                    chk.sample({"sort_case": {k: c[k] for k in ("fn", "seq", "wrap", "dom", "ord", "a", "b", "pat")}, "out": ev["out"], "res": ev["res"]}, limit=3)
                continue
            tabs = [e for e in evs if e.get("e") == "Table" and e["dom"] == c["dom"] and e["ord"] == c["ord"]]
            rejs.setdefault(sort_key(c, rejset[i]), []).append((len(c["a"]) + len(c["b"]), c, ev, rejset[i], tabs))
    smallest = {key: sorted(rejs[key], key=lambda t: (t[0], t[1]["id"]))[0] for key in rejs}
    if smallest:
        # re-validate the smallest rejected call of every kind once more, all in one trace
        evs1, pos, seen_tabs = [], {}, set()
        for key in sorted(smallest):
            n, c, ev, why, tabs = smallest[key]
            for tb in tabs:
                if (tb["dom"], tb["ord"]) not in seen_tabs:
                    seen_tabs.add((tb["dom"], tb["ord"]))
                    evs1.append(tb)
            evs1.append(ev)
            pos[len(evs1)] = key
        one = sc.file("sortone.ndjson")
        vlib.write_ndjson(one, evs1 + [{"e": "End"}])
        again = {pos[i] for i, why in trace_verdict(validate_sort(sc, one, to=600), 0, "SortedTrace re-validation") if i in pos}
        if again != set(smallest):
            raise Broken("calls rejected in the batch but accepted when validated again: %s" % sorted(set(smallest) - again))
    for key in sorted(rejs):
        lst = sorted(rejs[key], key=lambda t: (t[0], t[1]["id"]))
        n, c, ev, why, tabs = lst[0]
        chk.report(key, "%s: %s (%d rejected calls of this kind; smallest: %s of %s keys, %s, ordering %s): %s" %
                   (c["fn"], why, len(lst), c["seq"], c["dom"], c["wrap"], c["ord"],
                    json.dumps({"a": ev["a"], "b": ev["b"], "out": ev["out"], "res": ev["res"]}) if n <= 12 else "%d elements" % n),
                   "%s.json" % fname(key),
                   {"key": key, "why": why, "rejected_calls_of_this_kind": len(lst), "case": c, "event": ev,
                    "entry_points": sorted({t[1]["fn"] for t in lst}),
                    "rerun": "render the case with c18.case_sexp() into a file and run harness/scm/c18sort.scm on it; validate with spec/SortedTrace.tla"})
    chk.cov["sort_calls_rejected"] = sum(len(v) for v in rejs.values())
    chk.cov["sort_calls_accepted"] = accepted
    chk.cov["sort_entry_points"] = len({c[0] for c in classes})
    if len({c[0] for c in classes}) < len(SORT_FNS) - 3:
        raise Broken("only %d of %d sort entry points had an accepted call" % (len({c[0] for c in classes}), len(SORT_FNS)))
    return len(cases), accepted, len(classes)


def adt_events(trace):
    """split a trace into histories: list of (start index (1-based event number of the Reset), [events])"""
    evs = vlib.read_ndjson(trace)
    hists, cur = [], None
    for i, e in enumerate(evs, 1):
        if e.get("e") == "Reset":
            cur = (i, [])
            hists.append(cur)
        elif e.get("e") == "Op" and cur is not None:
            cur[1].append((i, e))
    return evs, hists


# operations that share their implementation are reported under one family name (report key only)
FAMILY = {
    "bag": {"=?": "order", "<?": "order", ">?": "order", "<=?": "order", ">=?": "order"},
    "map": {"<?": "proper-order", ">?": "proper-order", "range=": "split", "range<": "split", "range<=": "split", "range>": "split",
            "range>=": "split", "split": "split", "catenate": "split"},
    "deque": {"take": "take-drop", "take-right": "take-drop", "drop": "take-drop", "drop-right": "take-drop", "split-at": "take-drop"},
    "queue": {"set-list!": "set-list", "map!": "set-list", "unfold+": "set-list", "unfold-right+": "set-list"},
    "iset": {"intersection": "intersection-difference", "difference": "intersection-difference"},
}


def adt_key(kind, op, why):
    """clobber = an operation changed an OLDER live version (one key per library: any operation may be the one that trips
    over shared structure); otherwise library:operation-family:what-was-wrong (obs / val / probe / error).
    The linear-update variant of an operation shares the key of the plain one."""
    if kind == "queue" and why in ("clobber", "probe"):
        # a mutator that leaves the queue's front/back pointers inconsistent shows either way, at any later mutator
        return "queue:end-pointers:probe"
    if why == "clobber":
        return "%s:clobber" % kind
    base = op[:-1] if op.endswith("!") and op[:-1] and kind != "queue" else op
    fam = FAMILY.get(kind, {}).get(op, FAMILY.get(kind, {}).get(base, base))
    return "%s:%s:%s" % (kind, fam, why)


def adt_plan(chk, kind):
    """(number of histories, depth) per generation run"""
    if chk.thorough:
        return [(1200, 8), (600, 16), (200, 50), (40, 200)]
    return [(100, 8), (40, 16), (10, 50), (2, 200)]


def dbg(*a):
    if os.environ.get("C18_DEBUG"):
        sys.stderr.write("[c18 %6.1f] %s\n" % (time.time() - T0, " ".join(str(x) for x in a)))


T0 = time.time()


def adt_kind(chk, sc, build, kind):
    """MC + generate + run + validate one container library; returns a result dict (reports are made by the caller)"""
    out = dict(kind=kind, mc=None, hists=0, accepted=0, ops=0, classes=set(), rejs={}, samples=[])
    # ---- the model's own laws on all small histories
    mv = KINDS[kind][4][1 if chk.thorough else 0]
    r = vlib.run_tlc("Adt.tla", adt_cfg(sc, kind, "MC", maxver=mv), sc.path, workers=2, timeout=1500, heap="4g")
    vlib.require_tlc_ok(r, "AdtMC %s" % kind)
    if r.violated:
        raise Broken("Adt.tla (%s) violates its own law %s" % (kind, r.violated))
    if r.distinct < 50:
        raise Broken("AdtMC %s explored only %d states" % (kind, r.distinct))
    out["mc"] = r
    dbg(kind, "MC", r.distinct, r.generated, round(r.seconds, 1))
    # ---- histories from TLC, run on the implementation, judged by TLC
    rng = __import__("random").Random(chk.seed * 131 + sum(map(ord, kind)))
    plan = adt_plan(chk, kind)
    gens = vlib.parallel(lambda t: adt_gen(sc, kind, t[1][0], t[1][1] + 1, chk.seed * 1000 + t[0] * 17 + len(kind)),
                         list(enumerate(plan)), jobs=2)
    allh = [(depth, h) for (num, depth), hs in zip(plan, gens) for h in hs]
    dbg(kind, "generated", len(allh), "histories")
    shards, cur, w = [], [], 0
    for dh in allh:
        cur.append(dh); w += len(dh[1])
        if w > 7000:
            shards.append(cur); cur, w = [], 0
    if cur:
        shards.append(cur)

    def run_shard(t):
        si, shard = t
        hs = [h for _, h in shard]
        offs = [rng.choice(ISET_OFFSETS) if kind == "iset" else 0 for _ in hs]
        t1 = time.time()
        trace = adt_run(build, sc, kind, si, hs, offs)
        t2 = time.time()
        r = adt_validate(sc, kind, trace)
        dbg(kind, "shard", si, len(hs), "histories: driver", round(t2 - t1, 1), "validate", round(r.seconds, 1))
        return shard, offs, trace, r

    for shard, offs, trace, r in vlib.parallel(run_shard, list(enumerate(shards)), jobs=3):
        evs, hists = adt_events(trace)
        rej = trace_verdict_adt(r, "AdtTrace %s" % kind)
        if len(hists) != len(shard):
            raise Broken("adt driver (%s) logged %d of %d histories" % (kind, len(hists), len(shard)))
        rejidx = {i: (op, why) for i, op, why in rej}
        for hi, (start, ops) in enumerate(hists):
            depth = shard[hi][0]
            out["hists"] += 1
            bad = [(i, e) for i, e in ops if i in rejidx]
            if not bad:
                out["accepted"] += 1
                out["ops"] += len(ops)
                for i, e in ops:
                    out["classes"].add((kind, e["op"]["op"]))
                if depth == 16 and len(out["samples"]) < 1:
                    out["samples"].append({"kind": kind, "offset": str(offs[hi]), "history": [
                        dict(op=e["op"], obs=e["obs"], new=e["val"]) for i, e in ops[:14]]})
                continue
            # every rejection is reported: after a rejection AdtTrace poisons exactly the versions that can no longer be
            # trusted and does not judge operations that use them, so later rejections stand on their own
            first = bad[0][0]
            for i, e in ops:
                if i < first:
                    out["classes"].add((kind, e["op"]["op"]))
            for i, e in bad:
                op, why = rejidx[i]
                key = adt_key(kind, op, why)
                prefix = [x for j, x in ops if j <= i]
                old = out["rejs"].get(key)
                # prefer a history in which this is the first rejection, then the shortest
                rank = (0 if i == first else 1, len(prefix))          # prefer a history where it is the first rejection
                if old is None or rank < old["rank"]:
                    out["rejs"][key] = dict(key=key, kind=kind, op=op, why=why, offset=str(offs[hi]), nops=len(prefix), events=prefix,
                                            rank=rank, count=(old["count"] if old else 0) + 1)
                else:
                    old["count"] += 1
    return out


def trace_verdict_adt(r, what):
    if r.error and "Postcondition" not in r.error:
        raise Broken("%s: TLC failed: %s" % (what, r.error[:2500]))
    if re.search(r'<<"BADCASE"', r.out):
        raise Broken("%s: a generated history is not applicable in the model: %s" % (what, re.findall(r'<<"BADCASE".*', r.out)[:3]))
    rej = [(int(m.group(1)), m.group(2), m.group(3)) for m in re.finditer(r'<<"REJECT", (\d+), "([^"]*)", "([^"]*)">>', r.out)]
    if r.ok:
        if rej:
            raise Broken("%s: accepted trace with REJECT lines" % what)
        return []
    if not re.search(r'"TRACE_REJECTED_AT"', r.out):
        raise Broken("%s: TLC neither accepted nor rejected: %s" % (what, r.out[-1500:]))
    if not rej:
        raise Broken("%s: trace not consumable: %s" % (what, r.out[-800:]))
    return rej


def containers(chk, sc, build):
    first = ["map", "iset", "set", "bag"]
    rest = ["ralist", "deque", "queue", "seq"]
    if chk.thorough or os.environ.get("C18_KINDS") == "all":
        kinds = first + rest
    else:
        k = chk.seed % 4
        kinds = first + [rest[k], rest[(k + 1) % 4]]
    results = vlib.parallel(lambda kd: adt_kind(chk, sc, build, kd), kinds, jobs=len(kinds))
    total_h = total_acc = 0
    classes = set()
    for res in results:
        chk.add_mc("AdtMC_" + res["kind"], res["mc"])
        total_h += res["hists"]
        total_acc += res["accepted"]
        classes |= res["classes"]
        for smp in res["samples"]:
            chk.sample(smp, limit=8)
        # re-validate the shortest rejected history of every kind once more, all in one trace
        # (isolates them from the batch they came from and guards against a tool hiccup)
        keys = sorted(res["rejs"])
        if keys:
            evs1, pos = [], {}
            for key in keys:
                c = res["rejs"][key]
                evs1.append({"e": "Reset", "off": c["offset"]})
                evs1 += c["events"]
                pos[len(evs1)] = key
            one = sc.file("adtone_%s.ndjson" % res["kind"])
            vlib.write_ndjson(one, evs1 + [{"e": "End"}])
            rej1 = trace_verdict_adt(adt_validate(sc, res["kind"], one, to=600), "AdtTrace re-validation")
            again = {pos[i] for i, op, why in rej1 if i in pos and (op, why) == (res["rejs"][pos[i]]["op"], res["rejs"][pos[i]]["why"])}
            if again != set(keys):
                raise Broken("histories rejected in the batch but accepted when validated again: %s" % sorted(set(keys) - again))
        for key in keys:
            c = res["rejs"][key]
            last = c["events"][-1]
            chk.report(key, "%s %s: %s (%d rejected operations of this kind; shortest history %d operations; last: %s -> obs %s new %s changed %s%s)" %
                       (c["kind"], c["op"], c["why"], c["count"], c["nops"], json.dumps(last["op"]), json.dumps(last["obs"]),
                        json.dumps(last["val"]), json.dumps(last.get("chg")), (" error " + last.get("msg", "")) if last.get("err") else ""),
                       "adt_%s.json" % fname(key),
                       {"key": key, "kind": c["kind"], "why": c["why"], "rejected_operations_of_this_kind": c["count"],
                        "offset": c["offset"], "history": [dict(e["op"], n=e["n"]) for e in c["events"]], "events": c["events"],
                        "rerun": "render the history with c18.hist_sexp() into a file, run harness/scm/c18adt.scm <kind> 16 <file>, validate with spec/AdtTrace.tla (cfg from c18.adt_cfg)"})
        chk.cov.setdefault("containers", {})[res["kind"]] = dict(histories=res["hists"], accepted=res["accepted"],
                                                                  accepted_operations=res["ops"], rejected_kinds=sorted(res["rejs"]))
    for kd in kinds:
        nops = len({c for c in classes if c[0] == kd})
        if nops < 10:
            raise Broken("only %d distinct operations of %s were exercised" % (nops, kd))
    return total_h, total_acc, len(classes), kinds


def binding_selftest(chk, sc, build):
    """DESIGN 3.5: a corrupted recorded result must be rejected by TLC (sorting and containers)"""
    c = mk_case(1, "list-stable-sort", LIST, "clo", "fix", "lt", [2, 0, 1, 0, 2])
    run = run_sort_shard(build, sc, 9001, [c])
    evs = vlib.read_ndjson(run["trace"])
    if trace_verdict(validate_sort(sc, run["trace"], to=300), len(evs), "selftest sort"):
        raise Broken("selftest: the uncorrupted sort trace is rejected")
    for ev in evs:
        if ev.get("e") == "Call":
            ev["out"][0], ev["out"][1] = ev["out"][1], ev["out"][0]          # equal keys swapped: not stable any more
    t = sc.file("selftest_sort.ndjson")
    vlib.write_ndjson(t, evs)
    if not trace_verdict(validate_sort(sc, t, to=300), len(evs), "selftest sort"):
        raise Broken("selftest: a corrupted sort result was accepted")
    h = [dict(op="mapping", v=0, w=0, k=0, x=1, ks=[3, 1, 2], n=1), dict(op="delete", v=1, w=0, k=0, x=0, ks=[1], n=1),
         dict(op="ref", v=1, w=0, k=1, x=0, ks=[], n=0), dict(op="peek", v=1, w=0, k=0, x=0, ks=[], n=0)]
    tr = adt_run(build, sc, "map", 9002, [h])
    if trace_verdict_adt(adt_validate(sc, "map", tr, to=300), "selftest map"):
        raise Broken("selftest: the uncorrupted mapping trace is rejected")
    evs = vlib.read_ndjson(tr)
    for field, fn in (("obs", lambda e: e["op"]["op"] == "ref"), ("val", lambda e: e["op"]["op"] == "delete")):
        bad = json.loads(json.dumps(evs))
        for e in bad:
            if e.get("e") == "Op" and fn(e["op"] and e):
                if field == "obs":
                    e["obs"] = [e["obs"][0] + 1]
                else:
                    e["val"] = [e["val"][0][:-1]]
        t = sc.file("selftest_map_%s.ndjson" % field)
        vlib.write_ndjson(t, bad)
        if not trace_verdict_adt(adt_validate(sc, "map", t, to=300), "selftest map"):
            raise Broken("selftest: a corrupted mapping %s was accepted" % field)
    chk.cov["binding_selftest"] = "corrupted sort output, mapping observation and mapping version rejected by TLC"


def run():
    chk = vlib.Check("C18")
    with vlib.Scratch("c18") as sc:
        build = vlib.build_repo(sc.sub("build"))
        jobs = [("sort", lambda: sorting(chk, sc, build)), ("adt", lambda: containers(chk, sc, build))]
        if os.environ.get("C18_ONLY"):
            jobs = [j for j in jobs if j[0] == os.environ["C18_ONLY"]]
        res = dict(zip([j[0] for j in jobs], vlib.parallel(lambda j: j[1](), jobs, jobs=2)))
        if chk.thorough or os.environ.get("C18_SELFTEST"):
            binding_selftest(chk, sc, build)
        if "sort" in res:
            ncases, acc, ncls = res["sort"]
            chk.cov["traces_validated_against_impl"] += acc
            chk.cov["evaluations"] += ncases
            chk.cov["distinct_nontrivial"] += ncls
        if "adt" in res:
            nh, nacc, ncls, kinds = res["adt"]
            chk.cov["traces_validated_against_impl"] += nacc
            chk.cov["evaluations"] += nh
            chk.cov["distinct_nontrivial"] += ncls
            chk.cov["container_kinds_run"] = kinds
        chk.cov["rule"] = ("sorting: a case = one call of a SRFI 95/132 entry point, distinct = (entry point, element wrapping, key domain, "
                           "ordering, sequence type, size class, input pattern); containers: a case = one TLC-generated operation history "
                           "(8-200 operations) run on the library, accepted iff every observation, every new version and every older "
                           "version agrees with Adt.tla; distinct = (library, operation) pairs with an accepted call")
        chk.assumptions += ["the key tables of the sort driver are ranked consistently by the ordering predicates (logged and checked by TLC per run)",
                            "procedure arguments of the container operations come from the coded families of spec/AdtBase.tla",
                            "TLC, the JSON trace reader, the canonicalisation code of the drivers (sorting of set/bag/mapping contents)"]
    return chk.finish()


def replay(path):
    print(open(path).read()[:8000])
    return 0


# ------------------------------------------------------------------------------------------------
# containers
# ------------------------------------------------------------------------------------------------
K16 = "{" + ", ".join(map(str, range(16))) + "}"
ISET_KEYS = "<- ISetKeysGen"
KINDS = {
    # kind: (keys for MC, M for MC, keys for Gen/Trace, M, MaxVer for MC quick/thorough)
    "set": ("{0, 1, 2}", 3, K16, 16, (3, 4)),
    "bag": ("{0, 1, 2}", 3, K16, 16, (2, 3)),
    "map": ("{0, 1, 2}", 3, K16, 16, (2, 3)),
    "iset": ("{0, 1, 2, 130}", 3, ISET_KEYS, 16, (2, 3)),
    "ralist": ("{0, 1, 2}", 3, K16, 16, (3, 3)),
    "queue": ("{0, 1, 2}", 3, K16, 16, (2, 3)),
    "deque": ("{0, 1, 2}", 3, K16, 16, (2, 3)),
    "seq": ("{0, 1, 2}", 3, K16, 16, (2, 3)),
}
ISET_OFFSETS = [0, 0, 2 ** 31, -(2 ** 40), 2 ** 62 - 200, -(2 ** 62) + 100, 2 ** 64]


def keyspec(k):
    return k if k.startswith("<-") else "= " + k


def adt_cfg(sc, kind, mode, depth=0, maxver=2, klen=None):
    mck, mcm, gk, gm, _ = KINDS[kind]
    f = sc.file("Adt_%s_%s_%d.cfg" % (mode, kind, depth))
    with open(f, "w") as fh:
        if mode == "MC":
            fh.write("SPECIFICATION Spec\nCONSTANTS Kind = \"%s\"\n Keys %s\n M = %d\n MaxVer = %d\n KLen = %d\n GenDepth = 0\n"
                     "INVARIANTS TypeInv LawInv CanonInv LiveInv\nPROPERTIES Persist\nCHECK_DEADLOCK FALSE\n"
                     % (kind, keyspec(mck), mcm, maxver, 1 if klen is None else klen))
        elif mode == "Gen":
            fh.write("SPECIFICATION GenSpec\nCONSTANTS Kind = \"%s\"\n Keys %s\n M = %d\n MaxVer = 0\n KLen = %d\n GenDepth = %d\n"
                     "INVARIANTS Dump\nCHECK_DEADLOCK FALSE\n" % (kind, keyspec(gk), gm, 4 if klen is None else klen, depth))
        else:
            fh.write("SPECIFICATION TraceSpec\nCONSTANTS Kind = \"%s\"\n Keys %s\n M = %d\n MaxVer = 0\n KLen = 4\n GenDepth = 0\n"
                     "POSTCONDITION Accepted\nCHECK_DEADLOCK FALSE\n" % (kind, keyspec(gk), gm))
    return f


def adt_gen(sc, kind, num, depth, seed):
    """histories generated by TLC -simulate from Adt.tla; + a final peek of every live version"""
    r = vlib.run_tlc("Adt.tla", adt_cfg(sc, kind, "Gen", depth), sc.path, workers=1, simulate=num, depth=depth, seed=seed,
                     timeout=600, heap="2g")
    vlib.require_tlc_ok(r, "AdtGen %s" % kind)
    hs = []
    for h in tlc_hists(r):
        ops = [dict(e["o"], n=e["n"]) for e in h["h"]] + [dict(op="peek", v=v, w=0, k=0, x=0, ks=[], n=0) for v in h["live"]]
        hs.append(ops)
    if len(hs) != num:
        raise Broken("AdtGen %s: %d histories instead of %d" % (kind, len(hs), num))
    return hs


def hist_sexp(ops, offset=0):
    return "(%d %s)" % (offset, " ".join('("%s" %d %d %d %d (%s) %d)' % (o["op"], o["v"], o["w"], o["k"], o["x"], " ".join(map(str, o["ks"])), o.get("n", 0))
                                         for o in ops))


def adt_run(build, sc, kind, idx, hists, offsets=None):
    f = sc.file("hist_%s_%d.scm" % (kind, idx))
    with open(f, "w") as fh:
        for i, h in enumerate(hists):
            fh.write(hist_sexp(h, offsets[i] if offsets else 0) + "\n")
    p = build.run([ADTDRV, kind, str(KINDS[kind][3]), f], timeout=900)
    t = sc.file("adttrace_%s_%d.ndjson" % (kind, idx))
    with open(t, "wb") as fh:
        fh.write(p.stdout)
        fh.write(b'{"e":"End"}\n')
    if p.returncode != 0:
        raise Broken("adt driver (%s) failed rc=%s: %s" % (kind, p.returncode, p.stderr.decode(errors="replace")[-800:]))
    return t


def adt_validate(sc, kind, trace, to=900):
    return vlib.run_tlc("AdtTrace.tla", adt_cfg(sc, kind, "Trace"), sc.path, env={"TRACE": trace}, workers=1, timeout=to, heap="3g")
