"""C03 -- compiled evaluation implements the semantics of the core language.
   Core.tla (definitional abstract machine) is run by TLC on every generated program, in both operand
   orders (order insensitivity of the generated programs is thereby checked, not assumed), and its terminal
   output is compared by TLC with what the real read-compile-run pipeline printed."""
import random
import vlib, coregen as cg, corecommon as cc, qqgen
from vlib import Broken


def run():
    chk = vlib.Check("C03")
    with vlib.Scratch("c03") as sc:
        build = vlib.build_repo(sc.sub("build"))
        vlib.build_probe(build, sc)
        rng = random.Random(chk.seed)
        progs, kinds = [], {}
        pid = 0
        for pat in cg.PATTERNS:
            for depth in (1, 2, 3, 4):
                for pos in cg.POSITIONS:
                    pid += 1
                    progs.append((pid, cg.wrap_toplevel(cg.capture_case(pat, depth, pos))))
                    kinds[pid] = "capture:%s:%s:depth%d" % (pat, pos, depth)
        nrand = 9000 if chk.thorough else 260
        for _ in range(nrand):
            pid += 1
            progs.append((pid, cg.wrap_toplevel(cg.Gen03(rng).program())))
            kinds[pid] = "random"
        for rep in range(40 if chk.thorough else 3):
            for name, node in cg.lazy_cases(rng):
                pid += 1
                progs.append((pid, cg.wrap_toplevel(node)))
                kinds[pid] = "lazy:%s" % name
        for rep in range(60 if chk.thorough else 4):
            for name, node in cg.forms_cases(rng):
                pid += 1
                progs.append((pid, cg.wrap_toplevel(node)))
                kinds[pid] = "form:%s" % name
        for name, node in qqgen.qq_cases(rng, 400 if chk.thorough else 14):
            pid += 1
            progs.append((pid, cg.wrap_toplevel(node)))
            kinds[pid] = "quasiquote:%s" % name
        results = cc.run_all(build, sc, progs, "c03")
        ok1, bad1, rs1 = cc.validate(sc, progs, results, "l2r", cfg="CoreRun.cfg")
        ok2, bad2, rs2 = cc.validate(sc, progs, results, "r2l", cfg="CoreRunR2L.cfg")
        for r in rs1 + rs2:
            chk.cov["states"] += r.distinct
            chk.cov["transitions"] += r.generated
        chk.cov["mc_runs"] = [dict(name="CoreRun (left-to-right)", programs=len(ok1) + len(bad1)), dict(name="CoreRun (right-to-left)", programs=len(ok2) + len(bad2))]
        good = ok1 & ok2
        for pid_, node in progs:
            if pid_ in good:
                continue
            why = "order-sensitive-or-mismatch" if (pid_ in ok1) != (pid_ in ok2) else "mismatch"
            key = "c03:%s:%s" % (kinds[pid_].split(":depth")[0], why)
            chk.report(key, "program %d (%s): machine and implementation disagree (l2r %s, r2l %s)" % (pid_, kinds[pid_], bad1.get(pid_, "ok"), bad2.get(pid_, "ok")),
                       "prog_%d.json" % pid_, {"key": key, "kind": kinds[pid_], "scheme": node.scm, "core": node.core, "implementation": results.get(pid_)})
        for kname, txt in list(bad1.items()) + list(bad2.items()):
            if isinstance(kname, tuple):
                raise Broken("Core machine invariant %s violated: %s" % (kname[1], txt[-800:]))
        chk.cov["traces_validated_against_impl"] = len(good)
        chk.cov["evaluations"] = len(progs)
        chk.cov["distinct_nontrivial"] = len({n.scm for _, n in progs})
        chk.cov["rule"] = "84 systematic capture patterns (pattern x position x depth 1-4) + seeded random closed programs + lazy family + 16 further derived-form shapes (cond/case =>, let-values family, define-values, case-lambda, multi-variable do, letrec, apply with leading arguments ...) + nested quasiquote templates (levels 0-2, unquote / unquote-splicing at every level, dotted tails); distinct program texts"
        chk.cov["exhaustive"] = False
        chk.sample({"scheme": progs[5][1].scm[:400], "implementation_output": results.get(progs[5][0])})
        chk.sample({"scheme": progs[90][1].scm[:700]})
        if len(good) < len(progs) * 0.5 and not chk.violations:
            raise Broken("too few programs validated")
        chk.assumptions += ["the generator's desugaring of derived forms (let family, cond, case, and/or, do, named let, quasiquote, internal define) is trusted glue",
                            "integers stay within TLC's 32-bit range; exact arithmetic at large magnitude is C04"]
    return chk.finish()


def replay(path):
    print(open(path).read()[:8000])
    return 0
