"""S-expressions shared by the C07 generator and Hygiene.tla: parse Scheme text into the tagged JSON form the
specification reads (["sym",name] ["int",n] ["bool",0|1] ["str",s] ["list",[...]]) and print it back."""
import re

TOKEN = re.compile(r"""\s*(?:;[^\n]*\n\s*)*(\(|\)|'|"(?:[^"\\]|\\.)*"|[^\s()';"]+)""")


def parse_all(text):
    toks = TOKEN.findall(text + "\n")
    pos = [0]

    def rd():
        t = toks[pos[0]]
        pos[0] += 1
        if t == "(":
            items = []
            while toks[pos[0]] != ")":
                items.append(rd())
            pos[0] += 1
            return ["list", items]
        if t == ")":
            raise ValueError("unexpected )")
        if t == "'":
            return ["list", [["sym", "quote"], rd()]]
        if t.startswith('"'):
            return ["str", t[1:-1]]
        if t in ("#t", "#true"):
            return ["bool", 1]
        if t in ("#f", "#false"):
            return ["bool", 0]
        if re.fullmatch(r"-?\d+", t):
            return ["int", int(t)]
        return ["sym", t]
    out = []
    while pos[0] < len(toks):
        out.append(rd())
    return out


def parse(text):
    r = parse_all(text)
    if len(r) != 1:
        raise ValueError("expected one datum, got %d" % len(r))
    return r[0]


def show(x):
    t = x[0]
    if t == "sym":
        return x[1]
    if t == "int":
        return str(x[1])
    if t == "bool":
        return "#t" if x[1] else "#f"
    if t == "str":
        return '"%s"' % x[1]
    if t == "list":
        if len(x[1]) == 2 and x[1][0] == ["sym", "quote"]:
            return "'" + show(x[1][1])
        return "(" + " ".join(show(i) for i in x[1]) + ")"
    raise ValueError(x)


def rename(x, mapping):
    if x[0] == "sym":
        return ["sym", mapping.get(x[1], x[1])]
    if x[0] == "list":
        return ["list", [rename(i, mapping) for i in x[1]]]
    return x


def symbols(x, acc=None):
    acc = set() if acc is None else acc
    if x[0] == "sym":
        acc.add(x[1])
    elif x[0] == "list":
        for i in x[1]:
            symbols(i, acc)
    return acc


def prelude_records(path):
    recs = []
    for d in parse_all(open(path).read()):
        assert d[0] == "list" and d[1][0] == ["sym", "define-syntax"], d
        recs.append({"name": d[1][1][1], "spec": d[1][2]})
    return recs
