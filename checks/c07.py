"""C07 -- macro expansion is hygienic and referentially transparent.
   A catalogue of macro shapes (binding-introducing, free reference to a global helper, recursive macro, nested
   ellipsis, macro-defining macro, let-syntax / letrec-syntax closing over a local, loop-introducing macro,
   er- / sc- / rsc-macro-transformer renditions) is used inside programs whose user variables are then
   consistently renamed - to fresh names, to the temporaries and free names of the macro templates, to core
   keywords and standard procedures.  The meaning of every program is fixed by its reference expansion (written
   with collision-free names by the generator) run on the Core machine by TLC; the renamed programs run on chibi
   and TLC compares.  Renaming invariance = all renamings of a program produce the machine's output."""
import itertools, json, random, re
import vlib, coregen as cg, corecommon as cc
from coregen import N, I, B, S, V, lam, app, prim, if_, begin, let, letstar, emit, set_, named_let, fresh, when, VOID
from vlib import Broken

MACROS = r"""
(define (helper x) (+ x 100))
(define-syntax my-or2 (syntax-rules () ((_ a b) (let ((t a)) (if t t b)))))
(define-syntax my-or3 (syntax-rules () ((_) #f) ((_ e) e) ((_ e r ...) (let ((t e)) (if t t (my-or3 r ...))))))
(define-syntax swap! (syntax-rules () ((_ a b) (let ((tmp a)) (set! a b) (set! b tmp)))))
(define-syntax call-helper (syntax-rules () ((_ e) (helper e))))
(define-syntax my-lists (syntax-rules () ((_ (a ...) ...) (list (list a ...) ...))))
(define-syntax def-getter (syntax-rules () ((_ name val) (define-syntax name (syntax-rules () ((_) (let ((t val)) t)))))))
(def-getter get7 7)
(define-syntax my-repeat (syntax-rules () ((_ n body) (let loop ((i 0)) (if (< i n) (begin body (loop (+ i 1))) i)))))
(define-syntax my-let1 (syntax-rules () ((_ x e body) ((lambda (x) body) e))))
(define-syntax inc-all! (syntax-rules () ((_ v ...) (begin (set! v (+ v 1)) ...))))
(define-syntax my-case2 (syntax-rules (otherwise) ((_ e (otherwise r)) r) ((_ e (v r)) (if (= e v) r 'no-match))))
(define-syntax def-lister (syntax-rules () ((_ name v) (define-syntax name (syntax-rules () ((_) (list v v)))))))
(define-syntax call-later (syntax-rules () ((_ e) (later-helper e))))
(define-syntax later-ref (syntax-rules () ((_) later-value)))
(define-syntax er-or2 (er-macro-transformer (lambda (form rename compare)
  (let ((a (cadr form)) (b (car (cddr form))))
    (list (rename 'let) (list (list (rename 't) a)) (list (rename 'if) (rename 't) (rename 't) b))))))
(define-syntax sc-or2 (sc-macro-transformer (lambda (form env)
  (let ((a (make-syntactic-closure env '() (cadr form))) (b (make-syntactic-closure env '() (car (cddr form)))))
    (list 'let (list (list 't a)) (list 'if 't 't b))))))
(define-syntax rsc-or2 (rsc-macro-transformer (lambda (form env)
  (let* ((a (cadr form)) (b (car (cddr form))) (r (lambda (s) (make-syntactic-closure env '() s))) (t (r 't)))
    (list (r 'let) (list (list t a)) (list (r 'if) t t b))))))
"""

# top-level definitions that come AFTER every program has been compiled: the templates above refer to them forward
LATE = "(define (later-helper x) (+ x 200))\n(define later-value 77)\n"

FALSE = N(["const", ["b", 0]], "#f")


def m_later(e):
    return N(prim("+", e, I(200)).core, "(call-later %s)" % e.scm)


def m_later_ref():
    return N(I(77).core, "(later-ref)")


def m_or2(name, a, b):
    t = fresh("mt")
    return N(let([(t, a)], if_(V(t), V(t), b)).core, "(%s %s %s)" % (name, a.scm, b.scm))


def m_or3(args):
    if not args:
        core = FALSE.core
    else:
        core = args[-1].core
        for a in reversed(args[:-1]):
            t = fresh("mt")
            core = ["app", ["lam", [t], "", ["if", ["var", t], ["var", t], core]], [a.core]]
    return N(core, "(my-or3 %s)" % " ".join(a.scm for a in args))


def m_swap(x, y):
    t = fresh("mtmp")
    return N(let([(t, V(x))], begin(set_(x, V(y)), set_(y, V(t)))).core, "(swap! %s %s)" % (x, y))


def m_helper(e):
    return N(prim("+", e, I(100)).core, "(call-helper %s)" % e.scm)


def m_lists(rows):
    core = prim("list", *[prim("list", *row) for row in rows]).core
    return N(core, "(my-lists %s)" % " ".join("(%s)" % " ".join(a.scm for a in row) for row in rows))


def m_get7():
    return N(I(7).core, "(get7)")


def m_repeat(n, body):
    loop, i = fresh("mloop"), fresh("mi")
    core = named_let(loop, [(i, I(0))], if_(prim("<", V(i), I(n)), begin(body, app(V(loop), [prim("+", V(i), I(1))])), V(i))).core
    return N(core, "(my-repeat %d %s)" % (n, body.scm))


def m_let1(x, e, body):
    return N(app(lam([x], None, body), [e]).core, "(my-let1 %s %s %s)" % (x, e.scm, body.scm))


def m_incall(vs):
    return N(begin(*[set_(v, prim("+", V(v), I(1))) for v in vs]).core, "(inc-all! %s)" % " ".join(vs))


def m_case2(e, var, r):
    return N(if_(prim("=", e, V(var)), r, S("no-match")).core, "(my-case2 %s (%s %s))" % (e.scm, var, r.scm))


def m_case2_lit(e, r):
    return N(r.core, "(my-case2 %s (otherwise %s))" % (e.scm, r.scm))


def m_def_lister(name, v):
    """internal (def-lister name v) at the head of a body, followed by uses (name) = (list v v)"""
    return N(["prim", "void", []], "(def-lister %s %s)" % (name, v)), N(prim("list", V(v), V(v)).core, "(%s)" % name)


def local_syntax(kind, outer, inner_binder, inner_val):
    """(let-syntax ((m (syntax-rules () ((_) OUTER)))) ((lambda (INNER) (list (m) INNER)) val))  ->  macro sees OUTER of its definition"""
    core = app(lam([inner_binder], None, prim("list", V(outer), V(inner_binder))), [inner_val]).core
    scm = "(%s ((lm (syntax-rules () ((_) %s)))) ((lambda (%s) (list (lm) %s)) %s))" % (kind, outer, inner_binder, inner_binder, inner_val.scm)
    return N(core, scm)


def bodies(rng, u):
    """statement lists over user variables u[0..3] exercising the macro shapes"""
    U = [V(x) for x in u]
    out = []
    out.append([emit(m_or2("my-or2", FALSE, U[0])), emit(m_or2("my-or2", U[1], U[2]))])
    out.append([emit(m_or3([FALSE, FALSE, U[0]])), emit(m_or3([U[3], U[1]])), emit(m_or3([]))])
    out.append([m_swap(u[0], u[1]), emit(prim("list", U[0], U[1])), m_swap(u[2], u[0]), emit(prim("list", U[0], U[1], U[2]))])
    out.append([emit(m_helper(U[0])), emit(m_helper(prim("+", U[1], U[2])))])
    out.append([emit(m_lists([[U[0], U[1]], [U[2]], []])), emit(m_lists([[prim("+", U[0], U[3])]]))])
    out.append([emit(prim("+", m_get7(), U[0]))])
    out.append([emit(m_repeat(3, set_(u[0], prim("+", U[0], U[1])))), emit(U[0])])
    out.append([emit(m_let1(u[3], prim("+", U[0], I(1)), prim("list", U[3], U[0])))])
    out.append([m_incall([u[0], u[2]]), emit(prim("list", U[0], U[1], U[2]))])
    out.append([emit(local_syntax("let-syntax", u[0], u[1], I(55))), emit(local_syntax("letrec-syntax", u[2], u[3], I(66)))])
    for nm in ("er-or2", "sc-or2", "rsc-or2"):
        out.append([emit(m_or2(nm, FALSE, U[0])), emit(m_or2(nm, U[1], U[2])), emit(m_or2(nm, m_or2(nm, FALSE, FALSE), U[3]))])
    # literals: a user variable spelled like a literal of the macro is NOT the literal (it has a different binding)
    out.append([emit(m_case2(I(1), u[0], S("taken"))), emit(m_case2(I(7), u[1], S("taken"))), emit(m_case2(U[2], u[2], U[3]))])
    out.append([emit(m_case2_lit(I(5), U[0])), emit(m_case2(I(2), u[1], m_case2_lit(I(0), U[2])))])
    # a macro-defining macro used INSIDE the scope of the user variables: the generated macro's free identifiers
    # (list) still mean what they meant where the outer macro was defined
    d1, use1 = m_def_lister("lgone", u[1])
    d2, use2 = m_def_lister("lgtwo", u[3])
    out.append([d1, d2, emit(use1), emit(use2), emit(m_or2("my-or2", FALSE, use1))])
    # free identifiers of a template whose top-level definitions come after the use has been compiled
    out.append([emit(m_later(U[0])), emit(prim("+", m_later_ref(), U[1])), emit(m_later(m_or2("my-or2", FALSE, U[2])))])
    # combinations: macro uses nested in macro uses
    out.append([emit(m_or2("my-or2", m_or3([FALSE, FALSE]), m_helper(U[0]))), emit(m_repeat(2, m_swap(u[0], u[1]))), emit(prim("list", U[0], U[1]))])
    out.append([emit(m_let1(u[3], m_or2("my-or2", FALSE, U[1]), m_lists([[U[3], m_get7()], [m_helper(U[3])]])))])
    return out


# names a user variable may be renamed to: temporaries and free names of the templates, core keywords, standard
# procedures (none of them is written by the user code inside the scope of the renamed variables)
POOL = ["t", "tmp", "loop", "i", "helper", "x", "a", "b", "e", "r", "n", "body", "name", "val", "v",
        "if", "let", "set!", "begin", "list", "define", "define-syntax", "syntax-rules", "quote", "cond", "else", "or", "and", "not", "car", "cons", "<",
        "form", "rename", "compare", "env", "lm", "get7", "my-or2", "swap!", "otherwise", "later-helper", "later-value"]


_MSYMS = {}


def macro_symbols():
    """{macro name: symbols written by its definition} for the catalogue's define-syntax forms (and forms that define macros)"""
    if not _MSYMS:
        import sexpr
        for form in sexpr.parse_all(MACROS + LATE):
            if form[0] == "list" and len(form[1]) >= 2 and form[1][0][0] == "sym":
                head = form[1][0][1]
                if head == "define-syntax" and form[1][1][0] == "sym":
                    _MSYMS[form[1][1][1]] = sexpr.symbols(form)
                elif head not in ("define",) and form[1][1][0] == "sym":          # (def-getter get7 7): a macro-defining use
                    _MSYMS[form[1][1][1]] = sexpr.symbols(form) | _MSYMS.get(head, set())
    return _MSYMS


def rename(node, mapping):
    def walk(c):
        if isinstance(c, list):
            if len(c) >= 2 and c[0] in ("var", "set") and isinstance(c[1], str):
                return [c[0], mapping.get(c[1], c[1])] + [walk(x) for x in c[2:]]
            if c and c[0] == "lam":
                return ["lam", [mapping.get(p, p) for p in c[1]], mapping.get(c[2], c[2]) if c[2] else "", walk(c[3])]
            if c and c[0] == "letrec":
                return ["letrec", [mapping.get(p, p) for p in c[1]], [walk(x) for x in c[2]], walk(c[3])]
            return [walk(x) for x in c]
        return c
    scm = node.scm
    for k, v in mapping.items():
        scm = re.sub(r"(?<![A-Za-z0-9!?*<>=/+\-_])%s(?![A-Za-z0-9!?*<>=/+\-_])" % re.escape(k), lambda m: v, scm)
    return N(walk(node.core), scm)


def run():
    chk = vlib.Check("C07")
    with vlib.Scratch("c07") as sc:
        build = vlib.build_repo(sc.sub("build"))
        vlib.build_probe(build, sc)
        rng = random.Random(chk.seed)
        progs, kinds, groups = [], {}, {}
        pid = 0
        u = ["UVARA", "UVARB", "UVARC", "UVARD"]
        shape_bodies = bodies(rng, u)
        nren = 40 if chk.thorough else 9
        for si, st in enumerate(shape_bodies):
            tail = [emit(V(x)) for x in u]
            inner = begin(*st, *tail, I(0))
            body = N(inner.core, " ".join(x.scm for x in list(st) + tail) + " 0")      # lambda body without a user-written `begin`
            base = cg.wrap_toplevel(emit(app(lam(u, None, body), [I(1), I(2), I(3), I(4)])))
            # identifiers the user code writes inside the scope of the renamed variables: a consistent renaming must not capture them
            used = set(re.findall(r"[A-Za-z!?*<>=/+\-_][A-Za-z0-9!?*<>=/+\-_]*", body.scm)) | {"emit"}
            if "'" in body.scm:
                used.add("quote")          # 'x is (quote x): the user code writes the keyword
            pool = [p for p in POOL if p not in used]          # a renaming must not capture an identifier the user code writes
            rens = [dict(zip(u, ["fresh%d" % k for k in range(4)]))]
            for p in pool[:]:
                pass
            for _ in range(nren):
                tgt = rng.sample(pool, 4)
                rens.append(dict(zip(u, tgt)))
            # every pool name is used at least once for the first variable
            for p in pool:
                if not chk.thorough and rng.random() < 0.5:
                    continue
                others = [q for q in pool if q != p]
                rens.append(dict(zip(u, [p] + rng.sample(others, 3))))
            # the names written by the definitions of the macros THIS body uses (template temporaries, free identifiers,
            # literals, pattern variables): each of them for each of the user variables, deterministically
            hot = set()
            for mname, syms in macro_symbols().items():
                if mname in used:
                    hot |= syms
            for h in sorted(hot & set(pool)):
                for k in range(4):
                    others = rng.sample([q for q in pool if q != h], 3)
                    tgt = others[:k] + [h] + others[k:]
                    rens.append(dict(zip(u, tgt)))
            for ri, mp in enumerate(rens):
                pid += 1
                progs.append((pid, rename(base, mp)))
                kinds[pid] = "shape%d" % si
                groups[pid] = (si, mp)
        extra_defs = "(import (only (chibi) er-macro-transformer sc-macro-transformer rsc-macro-transformer make-syntactic-closure))\n" + MACROS
        # programs that use a forward-referenced free identifier run ALONE (one interpreter each): only the first compiled use of
        # such an identifier creates its top-level cell, so in a shared file all but the first renaming would see it already bound
        solo = [(i, n) for i, n in progs if "call-later" in n.scm or "later-ref" in n.scm]
        rest = [(i, n) for i, n in progs if not ("call-later" in n.scm or "later-ref" in n.scm)]
        results = cc.run_all(build, sc, rest, "c07", extra_defs=extra_defs, batch=40, late_defs=LATE)
        results.update(cc.run_all(build, sc, solo, "c07solo", extra_defs=extra_defs, batch=1, late_defs=LATE))
        chk.cov["programs_run_alone"] = len(solo)
        ok, bad, rs = cc.validate(sc, progs, results, "c07", cfg="CoreRunR2L.cfg")
        for r in rs:
            chk.cov["states"] += r.distinct
            chk.cov["transitions"] += r.generated
        for kname, txt in bad.items():
            if isinstance(kname, tuple):
                raise Broken("Core machine invariant %s violated: %s" % (kname[1], txt[-800:]))
        for pid_, node in progs:
            if pid_ in ok or pid_ not in bad:
                continue
            si, mp = groups[pid_]
            tgt = sorted(set(mp.values()))
            fresh_ok = any(q in ok for q, g in groups.items() if g[0] == si and all(v.startswith("fresh") for v in g[1].values()))
            key = "c07:shape%d:%s" % (si, "renaming-changes-result" if fresh_ok else "reference-expansion-differs")
            chk.report(key, "macro shape %d with user variables renamed to %s: chibi's result differs from the reference expansion (%s)" % (si, tgt, bad[pid_]),
                       "hyg_%d.json" % pid_, {"key": key, "renaming": mp, "scheme": node.scm, "macros": MACROS, "implementation": results.get(pid_), "core": node.core})
        hyg_ok, hyg_n = hygiene_phase(chk, build, sc, rng)
        chk.cov["traces_validated_against_impl"] = len(ok) + hyg_ok
        chk.cov["shapes"] = len(shape_bodies)
        chk.cov["evaluations"] = len(progs)
        chk.cov["distinct_nontrivial"] = len({n.scm for _, n in progs})
        chk.cov["rule"] = "a case = (macro shape body, consistent renaming of the 4 user variables into fresh names / template temporaries and free names / core keywords / standard procedures not written by the user code in scope)"
        chk.cov["exhaustive"] = False
        chk.sample({"scheme": progs[3][1].scm[:700], "renaming": groups[progs[3][0]][1], "implementation_output": results.get(progs[3][0])})
        if len(ok) < len(progs) * 0.5 and not chk.violations:
            raise Broken("too few programs validated")
        chk.assumptions += ["catalogue phase (incl. er-/sc-/rsc-macro-transformer renditions, toplevel helper, macro-defining macros with define-syntax): the meaning of a macro use is the generator's reference expansion run on Core.tla",
                            "model phase: Hygiene.tla (marks + labels renaming algorithm, R7RS 7.3 derived forms as data) covers syntax-rules with literals, one and two ellipsis levels, let-syntax/letrec-syntax, macro-defining macros; not dotted patterns, vectors, (... ...), custom ellipsis, toplevel definitions"]
    return chk.finish()


def hygiene_phase(chk, build, sc, rng):
    """Phase 2: generated syntax-rules macros; Hygiene.tla gives the expansion, TLC proves it invariant under the
    renamings and runs it on the Core machine; every renamed copy runs on the real interpreter."""
    import collections, os
    import sexpr, hyggen
    Node = collections.namedtuple("Node", "scm core")
    ncases = 400 if chk.thorough else 60
    nren = 8 if chk.thorough else 5
    cases, progs, pid = [], [], 0
    for c in range(ncases):
        text, body = hyggen.G(rng).program()
        sx = sexpr.parse(text)
        rens = hyggen.renamings(rng, body, nren, text)
        ids = []
        for rn in rens:
            pid += 1
            progs.append((pid, Node(sexpr.show(sexpr.rename(sx, dict(rn))), None)))
            ids.append(pid)
        cases.append({"id": c + 1, "sx": sx, "rens": rens, "ids": ids, "text": text})
    res = cc.run_all(build, sc, progs, "hyg", batch=40)
    pre = sc.file("hyg_prelude.ndjson")
    vlib.write_ndjson(pre, sexpr.prelude_records(os.path.join(vlib.VERIF, "spec", "r7rs-derived.scm")))
    shards = list(vlib.chunks(cases, max(1, (len(cases) + 7) // 8)))

    def one(ish):
        i, part = ish
        path = sc.file("hyg_%d.ndjson" % i)
        vlib.write_ndjson(path, [{"id": c["id"], "sx": c["sx"], "rens": c["rens"],
                                  "outs": [{"status": res.get(k, {}).get("status", "missing"), "out": res.get(k, {}).get("out", [])} for k in c["ids"]]} for c in part])
        r = vlib.run_tlc("HygRun.tla", "HygRun.cfg", sc.path, env={"TRACE": path, "PRELUDE": pre}, workers=2, timeout=1500, heap="3g")
        if r.error:
            raise Broken("HygRun failed: %s" % r.error[:1500])
        return r
    verdicts = collections.Counter()
    bad = []
    for r in vlib.parallel(one, list(enumerate(shards)), jobs=8):
        chk.cov["states"] += r.distinct
        chk.cov["transitions"] += r.generated
        for line in r.out.splitlines():
            m = re.match(r'<<"(OK|MISMATCH|EXPERR|NOTINVARIANT)", (\d+)(?:, (\d+))?', line)
            if m:
                verdicts[m.group(1)] += 1
                if m.group(1) != "OK":
                    bad.append((m.group(1), int(m.group(2)), int(m.group(3)) if m.group(3) else 0))
    if verdicts["EXPERR"] or verdicts["NOTINVARIANT"]:
        what = [b for b in bad if b[0] in ("EXPERR", "NOTINVARIANT")][0]
        raise Broken("Hygiene.tla / generator problem: %s on case %d: %s" % (what[0], what[1], cases[what[1] - 1]["text"][:600]))
    expected = sum(len(c["rens"]) for c in cases)
    if verdicts["OK"] + verdicts["MISMATCH"] != expected:
        raise Broken("HygRun produced %d verdicts for %d renamed programs" % (verdicts["OK"] + verdicts["MISMATCH"], expected))
    by_case = collections.defaultdict(list)
    for kind, cid, j in bad:
        by_case[cid].append(j)
    for cid, js in sorted(by_case.items()):
        c = cases[cid - 1]
        fresh_ok = 1 not in js
        key = "c07:syntax-rules:%s" % ("renaming-changes-result" if fresh_ok else "expansion-differs-from-model")
        j = js[0]
        chk.report(key, "generated macro program %d: chibi's output for renaming %s differs from the expansion by Hygiene.tla run on the Core machine (%d of %d renamings differ)"
                   % (cid, c["rens"][j - 1], len(js), len(c["rens"])),
                   "hygiene_%d.json" % cid, {"key": key, "program": c["text"], "renaming": c["rens"][j - 1], "renamed_program": progs[c["ids"][j - 1] - 1][1].scm,
                                             "implementation": res.get(c["ids"][j - 1]), "implementation_fresh_names": res.get(c["ids"][0])})
    chk.cov["hygiene_model"] = {"programs": len(cases), "renamed_copies": expected, "accepted": verdicts["OK"]}
    return verdicts["OK"], expected


def replay(path):
    print(open(path).read()[:8000])
    return 0
