"""Shared pieces of the Heap-based checks (C10, C02, C16): model checking runs of Heap.tla,
behaviour generation with TLC, replay on the micro heap, trace validation with HeapTrace.tla."""
import json, os, re, subprocess, sys
sys.path.insert(0, os.path.join(os.path.dirname(os.path.abspath(__file__)), "..", "lib"))
import vlib
from vlib import Broken

INVS = ["TypeOK", "Tiling", "FreeSorted", "NoAdjacentFree", "RefsValid", "NoPrematureFree", "HeldValid",
        "NoLeak", "FinalizeOnlyDead", "EphSound", "EphBrokenAfterCollect"]


def mc(chk, sc, cfgname, expect_violation=None, timeout=600, workers=None):
    r = vlib.run_tlc("HeapMC.tla", "HeapMC_%s.cfg" % cfgname, sc.path, workers=workers or vlib.NCPU,
                     coverage=False, timeout=timeout)
    if expect_violation:
        if r.violated != expect_violation:
            raise Broken("negative model test HeapMC_%s: expected %s to be violated, got %s %s"
                         % (cfgname, expect_violation, r.violated, r.error))
        chk.cov["mc_runs"].append(dict(name="HeapMC_" + cfgname, negative=True, **r.summary()))
        return r
    vlib.require_tlc_ok(r, "HeapMC_" + cfgname)
    if r.violated:
        # the design itself admits a bad state: that is a violation of the property at design level
        p = chk.save_replay("mc_%s.txt" % cfgname, r.out[-20000:])
        chk.violations.append(("Heap.tla (%s): invariant %s violated in the model" % (cfgname, r.violated), p, "model:" + r.violated))
        return r
    if r.distinct < 100:
        raise Broken("HeapMC_%s explored only %d states" % (cfgname, r.distinct))
    chk.add_mc("HeapMC_" + cfgname, r)
    return r


def gen_behaviours(sc, cfg="HeapGen.cfg", num=20, depth=200, seed=1, workers=8, timeout=300):
    """TLC -simulate on HeapGen: returns a list of action-label histories (distinct, maximal ones)."""
    r = vlib.run_tlc("HeapGen.tla", cfg, sc.path, workers=workers, simulate=num, depth=depth, seed=seed,
                     deadlock=False, timeout=timeout, heap="4g")
    if r.violated:
        raise Broken("HeapGen: model invariant %s violated during generation" % r.violated)
    hs = []
    seen = set()
    for line in r.out.splitlines():
        m = re.match(r'<<"HIST", "(.*)">>$', line)
        if m:
            txt = m.group(1).replace('\\"', '"')
            if txt in seen:
                continue
            seen.add(txt)
            hs.append(json.loads(txt))
    if not hs:
        raise Broken("HeapGen produced no behaviours:\n" + r.out[-2000:])
    # TLC prints the history of every successor at depth D; keep one per distinct prefix-of-all-but-last
    byprefix = {}
    for h in hs:
        byprefix.setdefault(json.dumps(h[:-1]), h)
    return list(byprefix.values())


def to_script(hist, initseg, maxchunks):
    lines = ["X %d %d" % (initseg, maxchunks)]
    for a in hist:
        k = a[0]
        if k == "Alloc":
            lines.append("A %d %s %d %d %s %d" % (a[1], a[2], a[3], a[4], a[5], a[6]))
        elif k == "Set":
            lines.append("T %d %d %d" % (a[1], a[2], a[3]))
        elif k == "Reg":
            lines.append("R %d %d" % (a[1], a[2]))
        elif k == "Push":
            lines.append("P %d" % a[1])
        elif k == "Pop":
            lines.append("O")
        elif k == "Collect":
            lines.append("C")
        elif k == "Grow":
            lines.append("G 1")
        elif k == "ObserveFin":
            pass
        elif k == "Fill":       # fill the rest of the first segment with rooted ballast, so that later objects go to a grown segment
            rest = a[1]
            if rest > 3:
                lines.append("A 15 data 3 0 reg 6")
                rest -= 3
            lines.append("A 16 data %d 0 reg 7" % rest)
        else:
            raise Broken("unknown action label %r" % (a,))
    return lines


def build_micro(build, sc):
    return vlib.compile_c(build, os.path.join(vlib.VERIF, "harness", "c", "microheap.c"), sc.file("microheap"))


def run_micro(build, exe, script_lines, trace_path, timeout=120):
    spath = trace_path + ".script"
    with open(spath, "w") as f:
        f.write("\n".join(script_lines) + "\n")
    if os.path.exists(trace_path):
        os.remove(trace_path)
    try:
        p = subprocess.run([exe, spath], env=build.env({"CHIBI_VERIF_TRACE": trace_path, "CHIBI_VERIF_WALK": "2"}),
                           stdout=subprocess.PIPE, stderr=subprocess.PIPE, timeout=timeout)
        rc = p.returncode
    except subprocess.TimeoutExpired:
        rc = -9
    return rc, spath


def validate_micro(sc, trace_path, timeout=600):
    return vlib.run_tlc("HeapTrace.tla", "HeapTrace.cfg", sc.path, env={"TRACE": trace_path}, workers=1, timeout=timeout, heap="6g")


def rejected_at(r):
    m = re.search(r'"TRACE_REJECTED_AT", (\d+), (\d+)', r.out)
    return (int(m.group(1)), int(m.group(2))) if m else None


def split_runs(events):
    """Split a concatenated micro-heap trace at Reset events: list of (start_index, events)."""
    runs, cur, start = [], [], 0
    for i, ev in enumerate(events):
        if ev.get("e") == "Reset" and cur:
            runs.append((start, cur))
            cur, start = [], i
        cur.append(ev)
    if cur:
        runs.append((start, cur))
    return runs


def classify_micro_rejection(events, idx):
    """Structural key of a rejected micro-heap run: what kind of step was rejected and how the
    implementation state differs.  Used for known-findings matching."""
    ev = events[idx] if idx < len(events) else {}
    e = ev.get("e")
    key = "micro:%s" % e
    # look ahead to the State/next event with objs to see whether an ephemeron references a non-object
    for nxt in events[idx:idx + 4]:
        objs = nxt.get("objs")
        if objs is None:
            continue
        starts = {(o[0], o[1]) for o in objs}
        for o in objs:
            if o[3] == "eph":
                key_a, val_a = o[5][0], o[5][1]
                if tuple(val_a) != (-1, -1) and tuple(val_a) not in starts and tuple(key_a) in starts:
                    return "ephemeron-value-freed-while-key-alive"
        break
    return key


def micro_campaign(chk, sc, build, hists, initseg, maxchunks, label, batch=150):
    """Replay behaviours on the real allocator, validate each batch with TLC (batches in parallel); on rejection isolate the run."""
    exe = build_micro(build, sc)
    groups = list(enumerate(vlib.chunks(hists, batch)))

    def do_batch(item):
        bi, group = item
        lines = []
        for h in group:
            lines += to_script(h, initseg, maxchunks)
        tpath = sc.file("micro_%s_%d.ndjson" % (label, bi))
        rc, spath = run_micro(build, exe, lines, tpath)
        events = vlib.read_ndjson(tpath)
        r = validate_micro(sc, tpath)
        return bi, group, rc, events, r
    accepted = 0
    for bi, group, rc, events, r in vlib.parallel(do_batch, groups, jobs=6):
        if r.error and "Postcondition" not in (r.error or ""):
            raise Broken("HeapTrace failed on batch %s_%d: %s" % (label, bi, r.error[:2000]))
        if r.ok and rc == 0:
            accepted += len(group)
            chk.cov["transitions_replayed"] = chk.cov.get("transitions_replayed", 0) + len(events)
            if bi == 0:
                chk.sample({"behaviour": group[0][:12], "first_events": [{k: v for k, v in e.items() if k in ("e", "id", "kind", "size", "seg", "off")} for e in events[:6]]})
            continue
        # isolate: validate each run separately
        runs = split_runs(events)
        for ri, (start, evs) in enumerate(runs):
            one = sc.file("micro_%s_%d_%d.ndjson" % (label, bi, ri))
            vlib.write_ndjson(one, evs)
            r1 = validate_micro(sc, one)
            crashed = not any(e.get("e") == "Done" for e in evs) and ri == len(runs) - 1 and rc != 0
            if r1.ok and not crashed:
                accepted += 1
                continue
            if r1.error and "Postcondition" not in r1.error:
                raise Broken("HeapTrace failed on isolated run: %s" % r1.error[:2000])
            r2 = validate_micro(sc, one)       # confirm (tool flakiness guard)
            if r2.ok and not crashed:
                accepted += 1
                continue
            if r1.violated:
                key = "micro-invariant:%s" % r1.violated
                where = "invariant %s violated" % r1.violated
                idx = max(0, r1.depth - 2)
            else:
                ra = rejected_at(r1)
                idx = (ra[0] - 1) if ra else len(evs) - 1
                key = classify_micro_rejection(evs, idx) if not crashed else "micro:crash"
                where = "event %d (%s) not explained by Heap.tla" % (idx + 1, evs[idx].get("e") if idx < len(evs) else "?")
            h = group[ri] if ri < len(group) else None
            chk.report(key, "micro-heap run rejected: %s" % where,
                       "micro_%s_%d_%d.json" % (label, bi, ri),
                       {"key": key, "where": where, "behaviour": h, "script": to_script(h, initseg, maxchunks) if h else None,
                        "rejected_event": evs[idx] if idx < len(evs) else None,
                        "previous_event": evs[idx - 1] if 0 < idx <= len(evs) else None,
                        "replay": "./check %s --replay <this file>" % chk.prop})
    chk.cov["traces_validated_against_impl"] += accepted
    return accepted


def chain_scripts():
    """Deterministic family (C16/C02/C10): ephemeron chains k1 -> (value k2) -> (value v) in every allocation order of
    the five objects (allocation order = address order = the order in which the collector scans them), with and
    without a second heap segment in between; roots: k1 (reg 1), e1 (reg 2), e2 (reg 3); k2 and v are reachable only
    through ephemeron values.  v is a node, a finalizable object, or an ephemeron whose own key is k1.  After a
    collection everything must still be there, nothing finalized, nothing broken; dropping k1 afterwards breaks all."""
    import itertools
    out = []
    names = ["k1", "e1", "k2", "e2", "v"]
    for vkind in ("node", "fin"):
        for perm in itertools.permutations(names):
            for growat in (None, 2, 4):
                ids = {n: i + 1 for i, n in enumerate(perm)}
                h = []
                for pos, n in enumerate(perm):
                    if growat is not None and pos == growat:
                        h.append(["Fill", 7 - growat])
                    if n in ("e1", "e2"):
                        shape = ["eph", 1, 2]
                    elif n == "v":
                        shape = [vkind, 1, 1 if vkind == "node" else 0]
                    else:
                        shape = ["node", 1, 1]
                    reg = {"k1": 1, "e1": 2, "e2": 3, "k2": 4, "v": 5}[n]
                    h.append(["Alloc", ids[n], shape[0], shape[1], shape[2], "reg", reg])
                h += [["Set", ids["e1"], 1, ids["k1"]], ["Set", ids["e1"], 2, ids["k2"]],
                      ["Set", ids["e2"], 1, ids["k2"]], ["Set", ids["e2"], 2, ids["v"]],
                      ["Reg", 4, 0], ["Reg", 5, 0], ["Collect"], ["Collect"], ["Reg", 1, 0], ["Collect"]]
                out.append(h)
    return out
