"""C17 -- bitwise operations are two's-complement exact on all exact integers (SRFI 151).
   spec/Bits.tla gives every operation as the infinite two's-complement bit string of its result; BitsMC
   checks it against TLC's integers at base 4; operands from the TLC-enumerated boundary lattice of C04 (both
   signs, word lengths differing by 0-3, all-ones / zero words, shift counts and field bounds crossing word
   multiples in both directions) plus seeded random integers are run on the real (srfi 151) and every recorded
   call is accepted or rejected by TLC (BitsTrace.tla)."""
import os, sys
from fractions import Fraction
import vlib, numcommon as nc
from numcommon import Case
from vlib import Broken

OPS2 = ["bitwise-and", "bitwise-ior", "bitwise-xor", "bitwise-eqv", "bitwise-nand", "bitwise-nor",
        "bitwise-andc1", "bitwise-andc2", "bitwise-orc1", "bitwise-orc2", "any-bit-set?", "every-bit-set?"]
OPS1 = ["bitwise-not", "bit-count", "integer-length", "first-set-bit"]
FIELD1 = ["bit-field", "bit-field-any?", "bit-field-every?", "bit-field-clear", "bit-field-set", "bit-field-reverse"]
FIELD2 = ["bit-field-replace", "bit-field-replace-same"]
ALLOPS = OPS2 + OPS1 + FIELD1 + FIELD2 + ["bitwise-if", "arithmetic-shift", "bit-set?", "copy-bit", "bit-swap",
                                           "bit-field-rotate", "bits->list", "list->bits"]
EDGES = [0, 1, 2, 9, 10, 11, 31, 32, 33, 61, 62, 63, 64, 65, 66, 126, 127, 128, 129, 191, 192, 193, 255, 256, 257]


def words_int(rng, nwords, style):
    """An integer of exactly nwords 64-bit words with a given interior pattern."""
    M = (1 << 64) - 1
    ws = []
    for i in range(nwords):
        r = rng.random()
        if style == "ones":
            w = M
        elif style == "zeros":
            w = 0
        elif style == "mixed":
            w = M if r < 0.35 else (0 if r < 0.7 else rng.getrandbits(64))
        else:
            w = rng.getrandbits(64)
        ws.append(w)
    top = rng.choice([1, 1 << 63, M, rng.getrandbits(64) | 1])
    ws[-1] = top if style != "ones" else M
    if style == "zeros" and nwords > 1:
        ws[0] = rng.choice([0, 1, M])
    n = 0
    for i, w in enumerate(ws):
        n |= w << (64 * i)
    return n


def gen_cases(chk, mags, fixbits, scale):
    rng = chk.rng
    T = chk.thorough
    cases = []
    L = sorted(set(mags) | set(-m for m in mags))
    LS = [x for x in L if abs(x) < (1 << 330)]

    def add(op, a=(), k=(), tag=""):
        cases.append(Case(op, a, k, "", tag))

    def rnd(maxbits=400):
        r = rng.random()
        if r < 0.3:
            return rng.choice(L)
        if r < 0.65:
            n = words_int(rng, rng.randint(1, max(1, maxbits // 64)), rng.choice(["rand", "mixed", "ones", "zeros"]))
        else:
            n = rng.getrandbits(rng.randint(1, maxbits))
        return -n if rng.random() < 0.5 else n

    # 1. both signs x word lengths differing by 0..3 x interior patterns, every two-argument operation
    reps = 3 if T else 1
    for la in range(1, 7 if T else 6):
        for dl in range(0, 4):
            for sa in (1, -1):
                for sb in (1, -1):
                    for style in ("rand", "mixed", "ones", "zeros"):
                        for _ in range(reps):
                            a = sa * words_int(rng, la, style)
                            b = sb * words_int(rng, la + dl, rng.choice(["rand", "mixed", "ones", "zeros"]))
                            if rng.random() < 0.5:
                                a, b = b, a
                            for op in (OPS2 if T else rng.sample(OPS2, 5)):
                                add(op, (a, b), tag="lengths")
    # 2. lattice pairs
    for i in range(int((40000 if T else 2500) * scale)):
        a, b = rng.choice(L), rng.choice(L)
        for op in rng.sample(OPS2, 2):
            add(op, (a, b), tag="lattice-pair")
    for a in L:                                   # negations / complements of the same value, neighbours
        for b in (a, -a, -a - 1, a + 1, a - 1):
            add(rng.choice(OPS2), (a, b), tag="lattice-self")
    # 3. one-argument operations over the whole lattice
    for a in L:
        for op in OPS1:
            add(op, (a,), tag="lattice-unary")
    # 4. shifts: counts crossing word multiples in both directions
    for a in (L if T else rng.sample(L, min(len(L), int(140 * scale) + 10))):
        bl = abs(a).bit_length()
        counts = set(EDGES[:16]) | {bl - 1, bl, bl + 1, bl - 63, bl - 64, bl - 65, 64 * ((bl + 63) // 64), rng.randint(0, 300)}
        for c in sorted(counts):
            if c < 0 or c > 520:
                continue
            for sc_ in ((c, -c) if c else (0,)):
                if abs(a) < (1 << 330) or sc_ < 0 or c <= 130:
                    add("arithmetic-shift", (a,), (sc_,), tag="shift")
    # 5. single bits
    for i in range(int((12000 if T else 1200) * scale)):
        a = rnd()
        bl = abs(a).bit_length()
        k = rng.choice(EDGES + [bl - 1 if bl else 0, bl, bl + 1, bl + 64, rng.randint(0, bl + 70)])
        k2 = rng.choice(EDGES + [bl, max(0, bl - 1), rng.randint(0, bl + 70)])
        r = rng.random()
        if r < 0.34:
            add("bit-set?", (a,), (k,), tag="bit")
        elif r < 0.67:
            add("copy-bit", (a,), (k, rng.randint(0, 1)), tag="bit")
        else:
            add("bit-swap", (a,), (k, k2), tag="bit")
    # 6. fields with bounds crossing word multiples
    for i in range(int((30000 if T else 3000) * scale)):
        a = rnd(330)
        bl = abs(a).bit_length()
        s = rng.choice(EDGES + [max(0, bl - 1), bl, rng.randint(0, bl + 10)])
        e = s + rng.choice([0, 1, 2, 63, 64, 65, 127, 128, 129, rng.randint(0, 200), max(0, bl - s), max(0, bl + 1 - s)])
        r = rng.random()
        if r < 0.55:
            add(rng.choice(FIELD1), (a,), (s, e), tag="field")
        elif r < 0.8:
            add(rng.choice(FIELD2), (a, rnd(330)), (s, e), tag="field")
        elif e > s:
            w = e - s
            add("bit-field-rotate", (a,), (rng.choice([0, 1, -1, w, w - 1, w + 1, -w, 64, -64, 63, rng.randint(-300, 300)]), s, e), tag="field")
    # 6b. deterministic part: fixed operands x fixed bounds x every single-bit / field operation
    M64 = (1 << 64) - 1
    fixed = [1 << 63, -(1 << 63), 1 << 64, -(1 << 64), (1 << 128) - 1, -((1 << 128) - 1), (1 << 127) + 1, -((1 << 127) + 1),
             M64 << 64, -(M64 << 64), -5, -(1 << 61), (1 << 62) - 1, 0x5555555555555555555555555555555555, -0x5555555555555555555555555555555555]
    bounds = [(0, 64), (1, 63), (63, 65), (64, 128), (62, 127), (128, 192), (60, 200), (192, 320), (64, 64)]
    for a in fixed:
        for (s0, e0) in bounds:
            for op in FIELD1:
                add(op, (a,), (s0, e0), tag="fixed-field")
            for op in FIELD2:
                for b in (fixed[(fixed.index(a) + 3) % len(fixed)], -1, M64):
                    add(op, (a, b), (s0, e0), tag="fixed-field")
            if e0 > s0:
                for cnt in (1, -1, 64, e0 - s0 - 1):
                    add("bit-field-rotate", (a,), (cnt, s0, e0), tag="fixed-field")
            add("bit-set?", (a,), (s0,), tag="fixed-bit")
            add("copy-bit", (a,), (e0, 1), tag="fixed-bit")
            add("copy-bit", (a,), (s0, 0), tag="fixed-bit")
            add("bit-swap", (a,), (s0, e0), tag="fixed-bit")
            add("arithmetic-shift", (a,), (-e0,), tag="fixed-shift")
            add("arithmetic-shift", (a,), (s0,), tag="fixed-shift")
        for b in fixed:
            for op in OPS2:
                add(op, (a, b), tag="fixed-pair")
        for op in OPS1:
            add(op, (a,), tag="fixed-unary")
        add("bits->list", (a,), (130,), tag="fixed-list")
        for b in (fixed[1], fixed[4], -1):
            add("bitwise-if", (a, b, fixed[(fixed.index(a) + 5) % len(fixed)]), tag="fixed-if")
            add("bitwise-if", (b, a, fixed[(fixed.index(a) + 7) % len(fixed)]), tag="fixed-if")
    # 7. bitwise-if
    for i in range(int((8000 if T else 800) * scale)):
        add("bitwise-if", (rnd(), rnd(), rnd()), tag="if")
    # 8. random operands, a few large
    for i in range(int((30000 if T else 3000) * scale)):
        big = (i % 60 == 0)
        a, b = rnd(4000 if big and T else (1500 if big else 400)), rnd(4000 if big and T else (1500 if big else 400))
        add(rng.choice(OPS2), (a, b), tag="random")
        if i % 3 == 0:
            add(rng.choice(OPS1), (a,), tag="random")
    # 9. lists of bits
    for i in range(int((3000 if T else 300) * scale)):
        a = rnd(260)
        add("bits->list", (a,), (rng.choice([0, 1, 63, 64, 65, 128, abs(a).bit_length(), abs(a).bit_length() + rng.randint(0, 70)]),), tag="list")
        n = rng.choice([0, 1, 61, 62, 63, 64, 65, 127, 128, 129, rng.randint(0, 260)])
        add("list->bits", (), [rng.choice([0, 1, 1]) for _ in range(n)], tag="list")
    # 9b. sparse words (see numcommon): fixed extremal shapes and a seeded slice in the quick tier, the full cross product
    #     with every two-term sum / difference in the thorough tier; both signs; sparse x dense, sparse x fixnum
    SF = nc.sparse_fixed()
    SFs = [v for m in SF for v in (m, -m)]
    SR = nc.sparse_random(rng, int((3000 if T else 300) * scale) + 20)
    SRs = [m * rng.choice((1, -1)) for m in SR]
    SP = nc.sparse_pairs() if T else []
    SPs = [v for m in SP for v in (m, -m)]
    right32 = nc.word_counts(4, 32)                       # ..., 31, 32, 33, 63, 64, 65, ... 257
    all8 = nc.word_counts(4, 8)
    pos = nc.sparse_positions(5)
    sfix = [1 << 32, (1 << 32) - 1, -(1 << 32), 1 << 31, -(1 << 31), 0xFFFF0000, -0xFFFF0000, (1 << 61) + (1 << 31), -((1 << 61) + (1 << 31)),
            (1 << 62) - (1 << 32), -(1 << 62), 1, -1, 0xFF, -0x100]
    for a in SFs:
        # quick: the whole-half-word counts always, plus a seeded slice of the +-1 neighbours
        for c in (all8 if T else [32, 64, 96, 128, 192, 256] + rng.sample(right32, 4)):
            add("arithmetic-shift", (a,), (-c,), tag="sparse-shift")
        for c in (all8 if T else rng.sample(right32, 2)):
            add("arithmetic-shift", (a,), (c,), tag="sparse-shift")
        for op in OPS1:
            add(op, (a,), tag="sparse-unary")
    for a in SRs:
        for c in rng.sample(all8, 8):
            add("arithmetic-shift", (a,), (-c,), tag="sparse-shift")
        add("arithmetic-shift", (a,), (rng.choice(all8),), tag="sparse-shift")
        for op in OPS1:
            add(op, (a,), tag="sparse-unary")
    for a in SPs:
        for c in right32:
            add("arithmetic-shift", (a,), (-c,), tag="sparse-shift")
        add(rng.choice(OPS1), (a,), tag="sparse-unary")
    for i in range(int((40000 if T else 3500) * scale)):
        a = rng.choice(SFs) if rng.random() < 0.6 else rng.choice(SRs)
        r = rng.random()
        if r < 0.35:
            b = rng.choice(SFs + SRs)
        elif r < 0.7:
            b = words_int(rng, rng.randint(1, 5), rng.choice(["rand", "mixed"])) * rng.choice((1, -1))
        else:
            b = rng.choice(sfix)
        if rng.random() < 0.5:
            a, b = b, a
        add(rng.choice(OPS2), (a, b), tag="sparse-pair")
    for i in range(int((40000 if T else 3500) * scale)):
        a = rng.choice(SFs) if rng.random() < 0.6 else rng.choice(SRs)
        s0 = rng.choice(pos)
        e0 = rng.choice([p for p in pos if p >= s0] + [s0 + 32, s0 + 64])
        r = rng.random()
        if r < 0.4:
            add(rng.choice(FIELD1), (a,), (s0, e0), tag="sparse-field")
        elif r < 0.55:
            add(rng.choice(FIELD2), (a, rng.choice(SFs + SRs + sfix)), (s0, e0), tag="sparse-field")
        elif r < 0.7 and e0 > s0:
            add("bit-field-rotate", (a,), (rng.choice([1, -1, 8, 16, 31, 32, 33, 64, e0 - s0 - 1]), s0, e0), tag="sparse-field")
        elif r < 0.8:
            add("bit-set?", (a,), (s0,), tag="sparse-bit")
        elif r < 0.9:
            add("copy-bit", (a,), (s0, rng.randint(0, 1)), tag="sparse-bit")
        else:
            add("bit-swap", (a,), (s0, e0), tag="sparse-bit")
    for i in range(int((4000 if T else 300) * scale)):
        add("bitwise-if", (rng.choice(SFs + SRs), rng.choice(SFs + SRs + sfix), rnd()), tag="sparse-if")
        add("bits->list", (rng.choice(SFs),), (rng.choice(pos),), tag="sparse-list")
    for c in [c for c in cases if c.tag in ("sparse-shift", "sparse-unary")][::9]:
        cases.append(Case("pad:" + c.op, c.a, c.k, "", "spare-words"))
    # 10. the same calls on operands stored with spare most significant words (every 3rd case of the deterministic groups)
    for c in [c for c in cases if c.a and c.tag in ("fixed-pair", "fixed-field", "fixed-bit", "fixed-unary", "fixed-shift", "fixed-if", "fixed-list", "lattice-unary")][::3]:
        cases.append(Case("pad:" + c.op, c.a, c.k, "", "spare-words"))
    return nc.number_cases(cases)


def key17(fixbits):
    def key(c, out):
        ints = [x.numerator for x in c.a]
        big = any(not (-(1 << fixbits) <= x < (1 << fixbits)) for x in ints)
        neg = any(x < 0 for x in ints)
        op = c.op[4:] + ":spare-words" if c.op.startswith("pad:") else c.op
        return "%s:%s%s" % (op, "negative-" if neg else "", "bignum" if big else "fixnum")
    return key


def run():
    chk = vlib.Check("C17")
    import shutil
    shutil.rmtree(chk.replay_dir, ignore_errors=True)        # replay artefacts of earlier runs of this property
    scale = float(os.environ.get("VERIF_SCALE", "1"))
    with vlib.Scratch("c17") as sc:
        build = vlib.build_repo(sc.sub("build"))
        nc.build_numprobe(build, sc)
        r = vlib.run_tlc("BitsMC.tla", "BitsMC_T.cfg" if chk.thorough else "BitsMC.cfg", sc.path,
                         workers=min(16, vlib.NCPU) if chk.thorough else nc.JOBS, timeout=1500, heap="4g")
        vlib.require_tlc_ok(r, "BitsMC")
        if r.violated:
            raise Broken("Bits.tla disagrees with TLC's integers: %s\n%s" % (r.violated, "\n".join(r.trace[-1:])))
        if r.distinct < 1000:
            raise Broken("BitsMC explored only %d states" % r.distinct)
        chk.add_mc("BitsMC", r)
        chk.cov.setdefault("seconds", {})["build"] = round(build.seconds, 1)
        chk.cov["seconds"]["mc"] = round(r.seconds, 1)
        chk.cov["exhaustive"] = True
        mags = nc.lattice_from_spec(sc, "NumGen_T.cfg" if chk.thorough else "NumGen.cfg")
        chk.cov["lattice_magnitudes"] = len(mags)
        _, fixbits = nc.run_driver(build, sc, nc.number_cases([Case("bitwise-and", (1, 1))]), "probe")
        import time
        t0 = time.time()
        cases = gen_cases(chk, mags, fixbits, scale)
        chk.cov["seconds"]["generate"] = round(time.time() - t0, 1)
        rejected, outs, events, fixbits, cfg = nc.process(
            chk, sc, build, "BitsTrace.tla", lambda fb: nc.write_cfg(sc, "BitsTrace_run.cfg", {"FixBits": fb}), cases, "c17",
            timeout=1700 if chk.thorough else 600)
        byid = {c.id: c for c in cases}
        nc.confirm_and_report(chk, sc, "BitsTrace.tla", cfg, byid, events, outs, rejected, "c17", fixbits, keyfn=key17(fixbits))
        nc.binding_selftest(chk, sc, "BitsTrace.tla", cfg, events, rejected, "c17")
        acc = [c for c in cases if c.id not in rejected]
        chk.cov["traces_validated_against_impl"] = len(acc)
        chk.cov["evaluations"] = len(cases)
        chk.cov["rejected_cases"] = len(rejected)
        classes = set((c.op, tuple(("-" if x < 0 else "+") + str(min((abs(x.numerator).bit_length() + 63) // 64, 9)) for x in c.a),
                       tuple((k // 64, k % 64 in (0, 1, 63)) for k in c.k[:3]) if c.op != "list->bits" else (len(c.k) // 64,)) for c in acc)
        chk.cov["distinct_nontrivial"] = len(classes)
        chk.cov["rule"] = ("a case = one SRFI 151 call executed on the built interpreter and judged by TLC; distinct = distinct (operation, sign and "
                           "length in 64-bit words of each operand, word index of each count/bound and whether it sits on a word boundary) classes "
                           "among accepted cases")
        byop = {}
        for c in cases:
            byop[c.op] = byop.get(c.op, 0) + 1
        chk.cov["cases_per_operation"] = byop
        sampled = [c for c in cases if c.id in outs and c.id not in rejected]
        for c in sampled[1:: max(1, len(sampled) // 5)]:
            chk.sample({"call": c.scheme(), "implementation": outs.get(c.id), "tag": c.tag})
        missing = [op for op in ALLOPS if not any(c.op == op for c in acc)]
        if not any(c.op.startswith("pad:") for c in acc):
            missing.append("pad:*")
        if missing:
            raise Broken("vacuous: no accepted case for operations %s" % missing)
        chk.assumptions += ["operands reach the implementation as hexadecimal integer literals and results come back through number->string radix 16",
                            "TLC, the JSON reader and the Scheme driver's printing of what the implementation returned are trusted",
                            "(srfi 142) and (srfi 33) share the primitives of (srfi 151) (lib/srfi/151/bit.c) and are not driven separately"]
    return chk.finish()


def replay(path):
    return nc.replay(path, "C17")
