"""C09 -- optimisation passes and numeric build variants preserve program meaning.
   Programs rich in foldable arithmetic, constant lets with shadowing/mutation, constant tests and dead
   statements run on three builds of the tree (default, -DSEXP_USE_SIMPLIFY=0, -DSEXP_USE_CUSTOM_LONG_LONGS=1);
   TLC runs the Core machine on each program and compares with every build's output."""
import random
import vlib, coregen as cg, corecommon as cc
from vlib import Broken

VARIANTS = [("default", ""), ("nosimplify", "-DSEXP_USE_SIMPLIFY=0"), ("customll", "-DSEXP_USE_CUSTOM_LONG_LONGS=1")]


def run():
    chk = vlib.Check("C09")
    with vlib.Scratch("c09") as sc:
        builds = vlib.parallel(lambda v: (v[0], vlib.build_repo(sc.sub("build_" + v[0]), cflags=v[1], jobs=5)), VARIANTS, jobs=3)
        rng = random.Random(chk.seed)
        progs, pid = [], 0
        n9 = 5000 if chk.thorough else 220
        n3 = 2000 if chk.thorough else 80
        for _ in range(n9):
            pid += 1
            progs.append((pid, cg.wrap_toplevel(cg.Gen09(rng).program())))
        for _ in range(n3):
            pid += 1
            progs.append((pid, cg.wrap_toplevel(cg.Gen03(rng).program())))
        import qqgen
        for rep in range(40 if chk.thorough else 2):      # the remaining derived forms and nested quasiquote templates (see C03)
            for _name, node in cg.forms_cases(rng) + qqgen.qq_cases(rng, 6):
                pid += 1
                progs.append((pid, cg.wrap_toplevel(node)))
        total_ok = 0
        outs = {}
        for name, b in builds:
            import os, shutil
            # the driver imports (verif probe): build it per variant in its own module dir
            class _S:
                def __init__(self, p): self.p = p
                def sub(self, n):
                    d = os.path.join(self.p, n); os.makedirs(d, exist_ok=True); return d
            vlib.build_probe(b, _S(sc.sub("mod_" + name)))
            results = cc.run_all(b, sc, progs, "c09_" + name)
            outs[name] = results
            ok, bad, rs = cc.validate(sc, progs, results, name, cfg="CoreRunR2L.cfg")
            for r in rs:
                chk.cov["states"] += r.distinct
                chk.cov["transitions"] += r.generated
            for kname, txt in bad.items():
                if isinstance(kname, tuple):
                    raise Broken("Core machine invariant %s violated: %s" % (kname[1], txt[-800:]))
            total_ok += len(ok)
            for pid_, node in progs:
                if pid_ in ok or pid_ not in bad:
                    continue
                feats = [f for f in ("quotient", "remainder", "set!", "unused", "(if #f", "car") if f in node.scm]
                key = "c09:%s:%s" % (name, "+".join(feats[:3]))
                chk.report(key, "program %d on build '%s' differs from the machine (%s)" % (pid_, name, bad[pid_]),
                           "prog_%s_%d.json" % (name, pid_), {"key": key, "build": name, "scheme": node.scm, "core": node.core,
                                                              "this_build": results.get(pid_), "default_build": outs.get("default", {}).get(pid_)})
        # ---- numeric variant: exact-integer arithmetic of the 128-bit-emulation build judged by the C04 specification
        import numcommon
        for name, b in builds:
            if name == "nosimplify":
                continue
            res = numcommon.run_variant(chk, sc, b, "c09num_" + name, scale=1.0 if chk.thorough else 0.6, report=False)
            chk.cov.setdefault("numeric_variant", {})[name] = {"cases": res["cases"], "accepted": res["accepted"]}
            total_ok += res["accepted"]
            for key, info in res["rejected"].items():
                chk.report("c09:num:%s:%s" % (name, key), "build '%s': exact arithmetic call rejected by NumTrace: %s" % (name, info.get("call")),
                           "num_%s_%s.json" % (name, __import__("re").sub(r"[^A-Za-z0-9_]+", "_", key)), {"build": name, "key": key, "info": info})
        # ---- source-level folding across the fixnum/bignum boundary: literal operands in shapes the simplifier rewrites
        #      (direct, constant lets, shadowing, constant tests), every build, judged by Num.tla (values beyond TLC's ints)
        for name, b in builds:
            res = numcommon.run_variant(chk, sc, b, "c09fold_" + name, scale=1.0 if chk.thorough else 0.6, report=False, code=True)
            chk.cov.setdefault("fold_literals", {})[name] = {"cases": res["cases"], "accepted": res["accepted"]}
            total_ok += res["accepted"]
            if res["cases"] < 500:
                raise Broken("fold cases were not generated")
            for key, info in res["rejected"].items():
                chk.report("c09:fold:%s:%s" % (name, key), "build '%s': folded literal arithmetic rejected by NumTrace: %s => %s" % (name, info.get("source"), str(info.get("implementation_output"))[:200]),
                           "fold_%s_%s.json" % (name, __import__("re").sub(r"[^A-Za-z0-9_]+", "_", key)), {"build": name, "key": key, "info": info})
        chk.cov["traces_validated_against_impl"] = total_ok
        chk.cov["builds"] = [v[0] + " " + v[1] for v in VARIANTS]
        chk.cov["evaluations"] = len(progs) * len(VARIANTS)
        chk.cov["distinct_nontrivial"] = len({nd.scm for _, nd in progs})
        chk.cov["rule"] = "seeded programs over foldable arithmetic (incl. division by zero, non-numeric operands), constant lets with shadowing and mutation, constant tests, effects in non-tail positions, unused rest parameters; every program on every build"
        chk.cov["exhaustive"] = False
        chk.sample({"scheme": progs[0][1].scm[:800], "outputs": {n: outs[n].get(progs[0][0]) for n in outs}})
        if total_ok < len(progs) and not chk.violations:
            raise Broken("too few programs validated")
        chk.assumptions += ["Core-machine programs keep constants within 32 bits (TLC integers); fixnum-overflowing folds are covered by the literal-operand cases judged by Num.tla (single operations in six syntactic shapes, not arbitrary nestings)",
                            "a Simplify.tla transcription of simplify.c is not built: the claim is checked end to end (machine = both builds)"]
    return chk.finish()


def replay(path):
    print(open(path).read()[:8000])
    return 0
