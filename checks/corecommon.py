"""Shared machinery of the Core-machine checks (C03, C05, C06, C09): run generated programs on the real
interpreter, let TLC run the Core machine on the same programs and print a verdict per program."""
import json, os, re, subprocess, sys
import vlib
from vlib import Broken

DRIVER = os.path.join(vlib.VERIF, "harness", "scm", "core-driver.scm")


def run_batch(build, sc, progs, label, extra_defs="", timeout=120, late_defs=""):
    """progs: list of (id, node).  Returns {id: {"status","out"}}; programs that did not finish are missing.
    With late_defs every program is first COMPILED as a procedure, then late_defs is evaluated (top-level definitions
    the programs refer to before they exist), then the programs run."""
    drv = open(DRIVER).read()
    if late_defs:
        body = ("\n".join("(define (prog-%d) %s)" % (i, p.scm) for i, p in progs) + "\n" + late_defs + "\n"
                + "\n".join("(run-program %d prog-%d)" % (i, i) for i, p in progs))
    else:
        body = "\n".join("(run-program %d (lambda () %s))" % (i, p.scm) for i, p in progs)
    text = drv.replace(";;PROGRAMS", extra_defs + "\n" + body)
    path = sc.file("core_%s.scm" % label)
    with open(path, "w") as f:
        f.write(text)
    try:
        r = build.run([path], timeout=timeout)
        out, rc = r.stdout.decode(errors="replace"), r.returncode
    except subprocess.TimeoutExpired as ex:
        out, rc = (ex.stdout or b"").decode(errors="replace"), -9
    res, begun = {}, []
    for line in out.splitlines():
        try:
            d = json.loads(line)
        except ValueError:
            continue
        if "begin" in d:
            begun.append(d["begin"])
        elif "out" in d:
            res[d["id"]] = d
    return res, rc, begun


def run_all(build, sc, progs, label, extra_defs="", batch=60, late_defs=""):
    """Runs all programs in batches in parallel; a batch that crashes or hangs is re-run program by program."""
    chunks = list(vlib.chunks(progs, batch))

    def one(ic):
        i, chunk = ic
        res, rc, begun = run_batch(build, sc, chunk, "%s_%d" % (label, i), extra_defs, late_defs=late_defs)
        if len(res) < len(chunk):
            for pid, node in chunk:
                if pid not in res:
                    r1, rc1, _ = run_batch(build, sc, [(pid, node)], "%s_%d_%d" % (label, i, pid), extra_defs, timeout=60, late_defs=late_defs)
                    if pid in r1:
                        res[pid] = r1[pid]
                    else:
                        res[pid] = {"id": pid, "status": "crash" if rc1 != -9 else "timeout", "out": []}
        return res
    allres = {}
    for r in vlib.parallel(one, list(enumerate(chunks))):
        allres.update(r)
    return allres


def validate(sc, progs, results, label, cfg="CoreRun.cfg", extra=None, shards=None, timeout=None):
    """TLC runs the machine on every program and prints OK/MISMATCH per id.  Returns (ok_ids, bad, tlc results)."""
    items = list(progs)
    # shards of at most ~400 programs each (8 at least): TLC's time per shard stays bounded whatever the tier
    shards = shards or max(8, (len(items) + 399) // 400)
    timeout = timeout or 1800
    per = max(1, (len(items) + shards - 1) // shards)
    parts = list(vlib.chunks(items, per))

    def one(ip):
        i, part = ip
        path = sc.file("corerun_%s_%d.ndjson" % (label, i))
        with open(path, "w") as f:
            for pid, node in part:
                d = results.get(pid, {"status": "missing", "out": []})
                rec = {"id": pid, "status": d["status"], "out": d["out"], "prog": node.core}
                if extra and pid in extra:
                    rec.update(extra[pid])
                f.write(json.dumps(rec) + "\n")
        r = vlib.run_tlc("CoreRun.tla", cfg, sc.path, env={"TRACE": path}, workers=2, timeout=timeout, heap="3g")
        if r.error:
            raise Broken("CoreRun failed on %s: %s" % (path, r.error[:2000]))
        return r
    ok, bad, rs = set(), {}, []
    for r in vlib.parallel(one, list(enumerate(parts)), jobs=8):
        rs.append(r)
        if r.violated:
            bad[("invariant", r.violated)] = r.out[-3000:]
        for line in r.out.splitlines():
            m = re.match(r'<<"OK", (\d+), (\d+), (\d+)>>', line)
            if m:
                ok.add(int(m.group(1)))
            m = re.match(r'<<"MISMATCH", (\d+), "(\w+)", (\d+)>>', line)
            if m:
                bad[int(m.group(1))] = m.group(2)
    return ok, bad, rs
