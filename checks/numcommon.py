"""Shared machinery of C04 (exact arithmetic) and C17 (bitwise operations).

   python here only (a) generates operands, (b) runs the Scheme driver, (c) converts formats
   (hex text <-> base-2^10 digit arrays, by bit slicing), (d) attaches *certificates* (quotients,
   Bezout coefficients) that TLC checks, (e) shards traces over TLC processes and reports TLC's verdicts.
   It never decides whether a result is right: a certificate that does not fit makes TLC reject."""
import json, os, re, struct, sys
from fractions import Fraction
import vlib
from vlib import Broken

W = 10
DRIVER = os.path.join(vlib.VERIF, "harness", "scm", "numdrv.scm")
JOBS = int(os.environ.get("VERIF_JOBS") or (14 if os.environ.get("VERIF_TIER") == "thorough" else 8))


# --------------------------------------------------------------------------- format conversion
def nat_digits(n):
    out = []
    while n:
        out.append(n & 1023)
        n >>= 10
    return out


def digits_nat(d):
    n = 0
    for i, x in enumerate(d):
        n |= x << (10 * i)
    return n


def ival(n):
    return [1 if n < 0 else 0, nat_digits(abs(n))]


def qval(q):
    q = Fraction(q)
    return [ival(q.numerator), nat_digits(q.denominator)]


def lit(q):
    """Scheme literal of an exact rational: integers in hex, ratios in decimal (chibi's reader takes the denominator
    after a bignum numerator in base 10 whatever the radix -- finding string->number:bignum-numerator-ratio)."""
    q = Fraction(q)
    s = "-" if q < 0 else ""
    if q.denominator == 1:
        return "#x%s%x" % (s, abs(q.numerator))
    return "%d/%d" % (q.numerator, q.denominator)


def egcd(a, b):
    """(g, s, t) with s*a + t*b = g (certificate material, checked by TLC)."""
    s0, s1, t0, t1 = 1, 0, 0, 1
    while b:
        q = a // b
        a, b = b, a - q * b
        s0, s1 = s1, s0 - q * s1
        t0, t1 = t1, t0 - q * t1
    if a < 0:
        a, s0, t0 = -a, -s0, -t0
    return a, s0, t0


_HEX = re.compile(r"^(-?)([0-9a-f]+)(?:/([0-9a-f]+))?$")


def result_record(item):
    """{"x": hex text, "fx": 0|1} as printed by the driver -> result record of Num.tla, or None if the text
    is not an exact number (then the event carries err = 2 and TLC rejects it)."""
    if not isinstance(item, dict) or "x" not in item:
        return None
    m = _HEX.match(item["x"])
    if not m:
        return None
    n = int(m.group(2), 16) * (-1 if m.group(1) else 1)
    rat = 1 if m.group(3) is not None else 0
    d = int(m.group(3), 16) if rat else 1
    if d == 0:
        return None
    cert = []
    if rat:
        g, s, t = egcd(n, d)
        cert = [ival(s), ival(t)]
    return {"v": [ival(n), nat_digits(d)], "rat": rat, "fx": int(item.get("fx", 0)), "cert": cert}, (n, d)


def bits_class(n):
    n = abs(n)
    return n.bit_length()


def rep_class(q, fixbits=62):
    q = Fraction(q)
    if q.denominator != 1:
        return "ratio"
    if q.numerator == -(1 << fixbits):
        return "minfix"                                   # the most negative fixnum (its negation is not a fixnum)
    return "fix" if -(1 << fixbits) <= q.numerator < (1 << fixbits) else "big"


# --------------------------------------------------------------------------- cases
class Case:
    __slots__ = ("id", "op", "a", "k", "s", "tag", "key")

    def __init__(self, op, a=(), k=(), s="", tag="", key=None):
        self.id = 0
        self.op = op
        self.a = [Fraction(x) for x in a]
        self.k = list(k)
        self.s = s
        self.tag = tag
        self.key = key

    def sexp(self):
        return '(%d "%s" (%s) (%s) "%s")' % (self.id, self.op, " ".join(lit(x) for x in self.a),
                                             " ".join(str(x) for x in self.k), self.s)

    def scheme(self):
        """A readable reproduction of the call."""
        a = [lit(x) for x in self.a]
        k = [str(x) for x in self.k]
        op = self.op
        if op.startswith("pad:"):
            base = Case(op[4:], self.a, self.k, self.s)
            return "%s  ; with every integer operand x replaced by (- (+ x (expt 2 4700)) (expt 2 4700)): same value, spare high words" % base.scheme()
        if op == "keep":
            return "(let ((x %s) (y %s)) (list (%s x y) x y))  ; operands must be unchanged afterwards" % (a[0], a[1], self.s)
        if op == "neg":
            return "(- %s)" % a[0]
        if op == "inv":
            return "(/ %s)" % a[0]
        if op == "expt":
            return "(expt %s %s)" % (a[0], k[0])
        if op == "exact":
            return "(exact (words->double %s))  ; IEEE words, most significant first" % " ".join(k)
        if op == "number->string":
            return "(number->string %s %s)" % (a[0], k[0])
        if op == "string->number":
            return '(string->number "%s" %s)' % (self.s, k[0])
        if op == "eqv+-":
            return "(eqv? (+ %s %s) (- %s %s))" % tuple(a)
        if op == "eqv*/":
            return "(eqv? (* %s %s) (/ %s %s))" % tuple(a)
        if op in ("arithmetic-shift",):
            return "(%s %s %s)" % (op, a[0], k[0])
        if op in ("bit-set?",):
            return "(bit-set? %s %s)" % (k[0], a[0])
        if op == "copy-bit":
            return "(copy-bit %s %s %s)" % (k[0], a[0], "#t" if self.k[1] else "#f")
        if op == "bit-swap":
            return "(bit-swap %s %s %s)" % (k[0], k[1], a[0])
        if op == "bit-field-rotate":
            return "(bit-field-rotate %s %s %s %s)" % (a[0], k[0], k[1], k[2])
        if op == "list->bits":
            return "(list->bits '(%s))" % " ".join("#t" if b else "#f" for b in self.k)
        return "(%s %s)" % (op, " ".join(a + k))

    def structural_key(self, fixbits=62, out=None):
        """What kind of case this is: from its inputs, plus one structural feature of the recorded output
        (a ratio whose denominator has the magnitude of the most negative fixnum) -- never from a verdict."""
        if self.key:
            return self.key
        if self.op.startswith("pad:"):
            k = Case(self.op[4:], self.a, self.k, self.s).structural_key(fixbits, out)
            return k + ":spare-words" if k.startswith(self.op[4:] + ":") else k
        if self.op == "keep":
            if self.s in ("/", "floor-quotient") and self.a[1] < 0:
                return "operands-unchanged:%s:negative-divisor" % self.s
            return "operands-unchanged:%s:%s" % (self.s, ":".join(rep_class(x, fixbits) + ("-" if x < 0 else "") for x in self.a))
        fxh = "%x" % (1 << fixbits)
        cls = [rep_class(x, fixbits) for x in self.a]
        if self.op in ("=", "<", ">", "<=", ">=") and len(self.a) == 2 and "ratio" in cls:
            p1, p2 = self.a[0].numerator * self.a[1].denominator, self.a[1].numerator * self.a[0].denominator
            lim = 1 << fixbits
            if -lim <= p1 < lim and -lim <= p2 < lim and abs(p1 - p2) >= lim:
                return "compare:ratio:fixnum-cross-products-differ-by>=2^%d" % fixbits
        if any(x.denominator == (1 << fixbits) for x in self.a):
            return "ratio:denominator=2^%d" % fixbits
        if out and any(isinstance(r, dict) and r.get("x", "").split("/")[-1].lstrip("-") == fxh and "/" in r.get("x", "")
                       for r in out.get("r", [])):
            return "ratio:denominator=2^%d" % fixbits
        if any(x.denominator != 1 and x.numerator == -(1 << fixbits) for x in self.a):
            return "ratio:numerator=minfix"
        if out and any(isinstance(r, dict) and "/" in r.get("x", "") and r["x"].split("/")[0] == "-" + fxh for r in out.get("r", [])):
            return "ratio:numerator=minfix"
        if self.op in ("/", "inv", "floor/", "floor-quotient", "floor-remainder"):
            x = self.a[0] if self.op != "inv" else Fraction(1)
            y = self.a[-1]
            if y != 0 and (x / y).denominator == (1 << fixbits):
                return "ratio:denominator=2^%d" % fixbits                 # |denominator| = -(most negative fixnum)
        if self.op in ("floor/", "floor-quotient", "floor-remainder") and len(self.a) == 2:
            parts = [self.op, "negative-divisor" if self.a[1] < 0 else "positive-divisor",
                     "bignum-operand" if "big" in cls else "fixnum-operands"]
            if "minfix" in cls:
                parts.append("minfix")
            return ":".join(parts)
        if self.op in ("quotient", "remainder", "truncate/", "truncate-quotient", "truncate-remainder") and cls == ["minfix", "big"]:
            return "truncate-division:minfix:big"
        return ":".join([self.op] + [c + ("-" if x < 0 and c != "minfix" else "") for c, x in zip(cls, self.a)])


def number_cases(cases):
    for i, c in enumerate(cases):
        c.id = i + 1
    return cases


# --------------------------------------------------------------------------- "sparse word" operands
# Integers whose 64-bit words are empty in one half, one byte or one bit position: sums / differences of a few powers of
# two at sub-word boundaries of every word, and words that are zero in the low half / high half / low byte or all ones in
# one half only.  They expose code that walks bignum words through half words or int-sized temporaries (a dropped word
# that is non-zero only in bits 32..63, a carry through a word whose low 32 bits are all ones, ...), which dense random
# words and 2^k +- 1 never do.
SUB = (0, 1, 15, 16, 31, 32, 33, 47, 48, 62, 63)                 # bit offsets inside a word
WORD_PATTERNS = (0x0000000100000000, 0x0000000080000000, 0x8000000000000000, 0x0000010000000000,
                 0x00000000FFFFFFFF, 0xFFFFFFFF00000000, 0xFFFFFFFFFFFFFF00, 0x00000000000000FF,
                 0x0000FFFF00000000, 0xFFFF0000FFFF0000, 0x0000000100000001, 0x000000007FFFFFFF,
                 0xFFFFFFFF80000000, 0x7FFFFFFF00000000)


def sparse_positions(words=4):
    return [64 * w + o for w in range(words) for o in SUB]


def sparse_fixed(words=4):
    """Deterministic extremal shapes (magnitudes): a pattern in one word / in every word up to it, alone, under a one in
    the next word, and under a one several zero words higher."""
    out = set()
    for w in range(words):
        for p in WORD_PATTERNS:
            low = p << (64 * w)
            rep = sum(p << (64 * v) for v in range(w + 1))
            out.update([low, (1 << (64 * (w + 1))) + low, (1 << (64 * (words + 1))) + low, rep, (1 << (64 * (w + 1))) + rep])
    out.update(1 << pos for pos in sparse_positions(words + 1))
    out.discard(0)
    return sorted(out)


def sparse_random(rng, n, words=4):
    """Seeded: sums and differences of 2..4 powers of two at the sub-word positions (magnitudes)."""
    pos = sparse_positions(words + 1)
    out = []
    while len(out) < n:
        v = 0
        for _ in range(rng.randint(2, 4)):
            v += rng.choice((1, 1, -1)) * (1 << rng.choice(pos))
        if v:
            out.append(abs(v))
    return out


def sparse_pairs(words=4):
    """Thorough: every sum and difference of two powers of two at the sub-word positions (magnitudes)."""
    pos = sparse_positions(words + 1)
    out = set()
    for i, a in enumerate(pos):
        for b in pos[:i]:
            out.add((1 << a) + (1 << b))
            out.add((1 << a) - (1 << b))
    return sorted(out)


def word_counts(words=4, step=8):
    """Shift counts / bit positions at every multiple of step, +-1, up to `words` words."""
    return sorted(set(m + d for m in range(0, 64 * words + 1, step) for d in (-1, 0, 1) if m + d > 0))


# --------------------------------------------------------------------------- running the implementation
def build_numprobe(build, sc):
    mod = sc.sub("nummod_" + re.sub(r"[^A-Za-z0-9]+", "_", os.path.basename(build.path.rstrip("/"))))   # one per build
    d = os.path.join(mod, "verif")
    os.makedirs(d, exist_ok=True)
    src = os.path.join(vlib.VERIF, "harness", "num", "verif")
    import shutil
    shutil.copy(os.path.join(src, "numprobe.sld"), d)
    vlib.compile_c(build, os.path.join(src, "numprobe.c"), os.path.join(d, "numprobe.so"), shared=True)
    if mod not in build.extra_mod:
        build.extra_mod.insert(0, mod)


FOLD_R = ("+", "-", "*", "/", "quotient", "remainder", "neg")
FOLD_F = ("=", "<", ">", "<=", ">=")


def code_line(c):
    """(C09) the case as source text over literal operands, in one of several shapes the simplifier treats differently:
    direct application, constant-bound let (propagation then folding), shadowing lets, under a constant test, nested in a
    dead-branch conditional.  Only VM opcodes of class arithmetic / comparison are used (that is what simplify.c folds)."""
    a = [lit(x) for x in c.a]
    op = "-" if c.op == "neg" else c.op
    kind = "f" if c.op in FOLD_F else "r"
    shape = c.id % 6
    if len(a) == 1:
        e = ["(%s %s)", "(let ((x %s)) (%s x))", "(%s (+ %s 0))", "(let ((x 0)) (let ((x %s)) (%s x)))", "(if #t (%s %s) 0)", "(%s (if #f 1 %s))"][shape]
        e = e % ((a[0], op) if shape in (1, 3) else (op, a[0]))
    else:
        x, y = a
        e = ["(%(op)s %(x)s %(y)s)",
             "(let ((x %(x)s) (y %(y)s)) (%(op)s x y))",
             "(let ((x %(y)s)) (let ((x %(x)s) (y x)) (%(op)s x y)))",
             "(if (< 1 2) (%(op)s %(x)s %(y)s) 0)",
             "(%(op)s (if #f 0 %(x)s) (let ((z %(y)s)) z))",
             "(let ((x %(x)s)) (begin x (%(op)s x %(y)s)))"][shape] % {"op": op, "x": x, "y": y}
    if kind == "f":
        e = "(if %s #t #f)" % e if c.id % 2 else e
    return "(run-code %d (lambda () %s) '%s)" % (c.id, e, kind)


def run_driver(build, sc, cases, label, chunk=1500, timeout=None, code=False):
    """Run all cases on the implementation; returns ({id: output object}, fixbits).  A case on which the
    interpreter dies (signal) or hangs (timeout; a chunk normally takes about a second) gets {"crash": rc}; the
    rest of its chunk is run in a fresh process, at most a few times (then the rest stays unanswered)."""
    timeout = timeout or int(os.environ.get("VERIF_DRIVER_TIMEOUT", "40"))
    chunks = list(vlib.chunks(cases, chunk))
    fixbits = []

    def one(ic):
        i, cs = ic
        res = {}
        todo = list(cs)
        rnd = hangs = 0
        while todo and rnd < 6 and hangs < 2:
            path = sc.file("%s_in_%d_%d.scm" % (label, i, rnd))
            rnd += 1
            with open(path, "w") as f:
                for c in todo:
                    f.write((code_line(c) if code else c.sexp()) + "\n")
            try:
                p = build.run([DRIVER, path] + (["code"] if code else []), timeout=timeout)
                out, rc = p.stdout.decode(errors="replace"), p.returncode
            except Exception as ex:
                import subprocess
                out = (getattr(ex, "stdout", None) or b"").decode(errors="replace")
                rc = -9
                hangs += 1
            bye = False
            for line in out.splitlines():
                try:
                    o = json.loads(line)
                except ValueError:
                    continue
                if "fixbits" in o:
                    fixbits.append(o["fixbits"])
                if "bye" in o:
                    bye = True
                if "id" in o:
                    res[o["id"]] = o
            rest = [c for c in todo if c.id not in res]
            if bye or not rest:
                break
            res[rest[0].id] = {"id": rest[0].id, "crash": rc}      # the interpreter died while evaluating this call
            todo = rest[1:]
        return res

    outs = {}
    for res in vlib.parallel(one, list(enumerate(chunks)), jobs=JOBS):
        outs.update(res)
    if not fixbits:
        raise Broken("driver did not start (no hello line); is the build / numprobe broken?")
    if len(set(fixbits)) != 1:
        raise Broken("inconsistent fixnum width reported: %s" % set(fixbits))
    return outs, fixbits[0]


# --------------------------------------------------------------------------- events
DIV_CERT = ("remainder", "truncate-remainder", "modulo", "floor-remainder")


def make_event(c, out):
    """Recorded call -> trace event (one shape for every event).  err: 0 value(s) returned, 1 Scheme error,
    2 a result that is not an exact number / boolean / string as expected, 3 no answer (crash, hang)."""
    ev = {"e": "Call", "id": c.id, "op": c.op[4:] if c.op.startswith("pad:") else c.op, "a": [qval(x) for x in c.a], "k": list(c.k),
          "cs": [ord(ch) for ch in c.s], "f": [], "r": [], "c": [], "err": 0, "base": c.s if c.op == "keep" else ""}
    if out is None or "crash" in out:
        ev["err"] = 3
        return ev
    if "err" in out:
        ev["err"] = int(out["err"])
        return ev
    vals = []
    for item in out.get("r", []):
        rr = result_record(item)
        if rr is None:
            ev["err"] = 2
            return ev
        ev["r"].append(rr[0])
        vals.append(rr[1])
    for key in ("badw", "bads"):
        if key in out:
            ev["err"] = 2
            return ev
    if "f" in out:
        ev["f"] = [int(x) for x in out["f"]]
    if "l" in out:
        ev["f"] = [int(x) for x in out["l"]]
    if "w" in out:
        ev["f"] = [int(x) for x in out["w"]]
    if "s" in out:
        ev["cs"] = [ord(ch) for ch in out["s"]]
    # certificates
    ints = [x.numerator for x in c.a]
    bop = c.s if c.op == "keep" else (c.op[4:] if c.op.startswith("pad:") else c.op)
    if bop in DIV_CERT and vals and ints[1] != 0:
        r = vals[0][0]
        ev["c"] = [ival((ints[0] - r) // ints[1])]
    elif bop in ("gcd", "lcm"):
        a, b = ints
        g, _, _ = egcd(abs(a), abs(b))
        if g:
            x, y = a // g, b // g
            _, s, t = egcd(x, y)
            cert = [ival(x), ival(y), ival(s), ival(t)]
            ev["c"] = cert if bop == "gcd" else [ival(g)] + cert
    elif c.op in ("numerator", "denominator"):
        q = c.a[0]
        if q.denominator != 1:
            _, s, t = egcd(q.numerator, q.denominator)
            ev["c"] = [ival(s), ival(t)]
    return ev


def cost(c):
    """Rough TLC evaluation cost of a case (digit products), for balancing shards."""
    if c.op.startswith("pad:"):
        return cost(Case(c.op[4:], c.a, c.k, c.s))
    n = [max(1, abs(x.numerator).bit_length() // 10 + 1) + max(0, x.denominator.bit_length() // 10) for x in c.a] or [1]
    m = max(n)
    if c.op in ("+", "-", "=", "<", ">", "<=", ">=", "neg", "abs") and all(x.denominator == 1 for x in c.a):
        return 5 + m
    if c.op == "expt":
        e = abs(c.k[0]) + 1
        return 20 + (m * e) ** 2
    if c.op in ("number->string", "string->number"):
        return 20 + (len(c.s) + m * 4) * m
    if c.op.startswith("bit") or c.op in ("arithmetic-shift", "copy-bit", "any-bit-set?", "every-bit-set?",
                                         "integer-length", "first-set-bit", "list->bits"):
        extra = sum(abs(k) for k in c.k[:3]) // 10 if c.op != "list->bits" else len(c.k) // 10
        return 30 + 25 * (m + extra)
    return 20 + 3 * m * m


def shard(cases, nshards):
    order = sorted(cases, key=lambda c: -cost(c))
    bins = [[0, []] for _ in range(nshards)]
    for c in order:
        b = min(bins, key=lambda b: b[0])
        b[0] += cost(c)
        b[1].append(c)
    return [sorted(b[1], key=lambda c: c.id) for b in bins if b[1]]


_REJ = re.compile(r'<<"CASE_REJECTED", (\d+)>>')


def validate(chk, sc, module, cfgpath, cases, events, label, nshards=None, timeout=900):
    """TLC judges every event; returns the set of rejected case ids."""
    nshards = nshards or JOBS
    shards = shard(cases, nshards)

    def one(ish):
        i, cs = ish
        path = sc.file("%s_trace_%d.ndjson" % (label, i))
        vlib.write_ndjson(path, [events[c.id] for c in cs])
        r = vlib.run_tlc(module, cfgpath, sc.path, env={"TRACE": path}, workers=1, timeout=timeout, heap="3g")
        return cs, r

    rejected = set()
    for cs, r in vlib.parallel(one, list(enumerate(shards)), jobs=JOBS):
        ids = set(int(x) for x in _REJ.findall(r.out))
        if r.ok:
            if ids:
                raise Broken("%s: TLC accepted the trace but printed rejections" % label)
            continue
        if r.error and "Postcondition" not in r.error and "TRACE_REJECTED" not in r.out:
            raise Broken("%s: TLC failed on shard: %s" % (label, r.error[:2000]))
        if not ids:
            raise Broken("%s: trace not accepted but no case rejected:\n%s" % (label, r.out[-1500:]))
        if not ids <= set(c.id for c in cs):
            raise Broken("%s: rejected ids outside the shard" % label)
        rejected |= ids
    return rejected


def process(chk, sc, build, module, cfgmaker, cases, label, batch=60000, timeout=900, code=False):
    """driver -> events -> TLC, in batches (keeps memory flat in the thorough tier).
    Returns (rejected ids, {id: output} for rejected and sampled cases, {id: event} for rejected cases, fixbits, cfg path)."""
    rejected, keep_outs, keep_events = set(), {}, {}
    fixbits = cfg = None
    nb = 0
    import time
    tm = chk.cov.setdefault("seconds", {})
    for part in vlib.chunks(cases, batch):
        nb += 1
        t0 = time.time()
        outs, fb = run_driver(build, sc, part, "%s_b%d" % (label, nb), code=code)
        tm["driver"] = round(tm.get("driver", 0) + time.time() - t0, 1)
        if fixbits is None:
            fixbits, cfg = fb, cfgmaker(fb)
        elif fb != fixbits:
            raise Broken("fixnum width changed between batches")
        events = {c.id: make_event(c, outs.get(c.id)) for c in part}
        tm["events"] = round(tm.get("events", 0) + time.time() - t0 - 0, 1)
        t0 = time.time()
        rej = validate(chk, sc, module, cfg, part, events, "%s_b%d" % (label, nb), timeout=timeout)
        tm["tlc_validate"] = round(tm.get("tlc_validate", 0) + time.time() - t0, 1)
        rejected |= rej
        for i in rej:
            keep_outs[i] = outs.get(i)
            keep_events[i] = events[i]
        for c in part[:: max(1, len(part) // 40)]:
            keep_outs.setdefault(c.id, outs.get(c.id))
            if c.id not in rej:
                keep_events[c.id] = events[c.id]
        for f in os.listdir(sc.path):                       # traces and driver inputs of this batch are no longer needed
            if f.startswith("%s_b%d_" % (label, nb)):
                os.remove(os.path.join(sc.path, f))
    return rejected, keep_outs, keep_events, fixbits, cfg


def binding_selftest(chk, sc, module, cfg, events, rejected, label):
    """Soundness rule 5: one recorded field of each of a sample of *accepted* events is corrupted; TLC must reject every one."""
    import copy
    bad = []
    for cid in sorted(events):
        if cid in rejected or events[cid]["err"] != 0:
            continue
        ev = copy.deepcopy(events[cid])
        if ev["r"]:
            mag = ev["r"][-1]["v"][0][1]
            if mag:
                mag[0] ^= 1
            else:
                ev["r"][-1]["v"][0] = [0, [1]]
            what = "result digit"
        elif ev["f"]:
            ev["f"][-1] = (ev["f"][-1] + 1) % 2 if ev["f"][-1] in (0, 1) and ev["op"] not in ("inexact",) else (ev["f"][-1] ^ 1)
            what = "flag / word"
        elif ev["cs"]:
            ev["cs"][-1] = 49 if ev["cs"][-1] != 49 else 48
            what = "character"
        else:
            continue
        ev["id"] = len(bad) + 1
        bad.append(ev)
        if len(bad) >= 60:
            break
    if len(bad) < 10:
        raise Broken("%s: binding self-test has too few events (%d)" % (label, len(bad)))
    path = sc.file("%s_selftest.ndjson" % label)
    vlib.write_ndjson(path, bad)
    r = vlib.run_tlc(module, cfg, sc.path, env={"TRACE": path}, workers=1, timeout=600, heap="2g")
    got = sorted(int(x) for x in _REJ.findall(r.out))
    if r.ok or got != list(range(1, len(bad) + 1)):
        miss = sorted(set(range(1, len(bad) + 1)) - set(got))
        raise Broken("%s: binding self-test: corrupted events accepted by the trace spec: %s %s" % (
            label, [(bad[i - 1]["op"]) for i in miss][:10], (r.error or "")[:300]))
    chk.cov["binding_selftest_corrupted_events_rejected"] = len(bad)


def write_cfg(sc, name, spec_consts):
    p = sc.file(name)
    with open(p, "w") as f:
        f.write("SPECIFICATION TraceSpec\nCONSTANTS W = 10\n")
        for k, v in spec_consts.items():
            f.write("  %s = %s\n" % (k, v))
        f.write("POSTCONDITION Accepted\nCHECK_DEADLOCK FALSE\n")
    return p


def lattice_from_spec(sc, cfg, timeout=300):
    """The boundary lattice, enumerated by TLC from Num!Lattice."""
    r = vlib.run_tlc("NumGen.tla", cfg, sc.path, workers=1, timeout=timeout, heap="2g")
    vlib.require_tlc_ok(r, "NumGen")
    m = re.search(r'^"LATTICE (\[.*\])"$', r.out, re.M)
    if not m:
        raise Broken("NumGen printed no lattice:\n" + r.out[-1500:])
    mags = sorted(set(digits_nat(d) for d in json.loads(m.group(1))))
    if len(mags) < 50:
        raise Broken("lattice too small: %d" % len(mags))
    return mags


def confirm_and_report(chk, sc, module, cfgpath, cases_by_id, events, outs, rejected, label, fixbits, keyfn=None):
    """One representative per structural key is validated once more (all representatives in one fresh TLC run: rules out
    tool flakiness), then every key is reported.  Returns {key: [representative case, count]}."""
    reported = {}
    for cid in sorted(rejected):
        c = cases_by_id[cid]
        key = keyfn(c, outs.get(cid)) if keyfn else c.structural_key(fixbits, outs.get(cid))
        if key in reported:
            reported[key][1] += 1
        else:
            reported[key] = [c, 1]
    if reported:
        reps = sorted(c.id for c, _ in reported.values())
        path = sc.file("%s_confirm.ndjson" % label)
        vlib.write_ndjson(path, [events[i] for i in reps])
        r = vlib.run_tlc(module, cfgpath, sc.path, env={"TRACE": path}, workers=1, timeout=600, heap="2g")
        again = sorted(int(x) for x in _REJ.findall(r.out))
        if r.ok or again != reps:
            raise Broken("%s: re-validation of the rejected cases disagrees with the first run (tool flakiness?): %s vs %s / %s"
                         % (label, reps[:20], again[:20], (r.error or "")[:500]))
    for key, (c, n) in sorted(reported.items()):
        out = outs.get(c.id)
        msg = "%s rejected by the specification: implementation answered %s (%d rejected case(s) of this kind)" % (
            c.scheme()[:400], json.dumps(out)[:300], n)
        chk.report(key, msg, "%s_%s.json" % (label, re.sub(r"[^A-Za-z0-9]+", "_", key)[:70]),
                   {"key": key, "call": c.scheme(), "module": module, "fixbits": fixbits,
                    "case": {"op": c.op, "a": [lit(x) for x in c.a], "k": c.k, "s": c.s},
                    "implementation_output": out, "event": events[c.id], "count": n,
                    "how": "the event was rejected by TLC; to re-judge it: write the 'event' object as one line to a file F and run "
                           "TRACE=F java -cp tla2tools.jar:CommunityModules-deps.jar tlc2.TLC -workers 1 -config <cfg: SPECIFICATION TraceSpec, "
                           "CONSTANTS W = 10 FixBits = %d, POSTCONDITION Accepted> spec/%s" % (fixbits, module)})
    return reported


def unlit(t):
    t = t.strip()
    if t.startswith("#x"):
        return Fraction(int(t[2:], 16))
    return Fraction(t)


def replay(path, prop):
    """Re-run a saved failing call on the interpreter built from the current tree and let TLC judge the new recording."""
    d = json.load(open(path))
    print("saved finding  key=%s\n  call: %s\n  implementation answered (when saved): %s" % (
        d["key"], d["call"], json.dumps(d.get("implementation_output"))[:400]))
    with vlib.Scratch(prop.lower() + "-replay") as sc:
        build = vlib.build_repo(sc.sub("build"))
        build_numprobe(build, sc)
        c = Case(d["case"]["op"], [unlit(x) for x in d["case"]["a"]], d["case"]["k"], d["case"]["s"])
        number_cases([c])
        outs, fixbits = run_driver(build, sc, [c], "replay")
        ev = make_event(c, outs.get(c.id))
        tr = sc.file("replay.ndjson")
        vlib.write_ndjson(tr, [ev])
        cfg = write_cfg(sc, "replay.cfg", {"FixBits": fixbits})
        r = vlib.run_tlc(d["module"], cfg, sc.path, env={"TRACE": tr}, workers=1, timeout=600, heap="2g")
        print("  implementation answers now: %s" % json.dumps(outs.get(c.id))[:400])
        if r.ok:
            print("TLC: ACCEPTED (the current tree satisfies the specification on this call)")
            return 0
        if _REJ.findall(r.out):
            print("TLC: REJECTED by %s" % d["module"])
            print("VIOLATION property=%s replay=%s" % (prop, path))
            return 1
        raise Broken("replay: TLC failed: %s" % (r.error or r.out[-800:]))


# --------------------------------------------------------------------------- entry point for other checks (C09 variants)
def variant_cases(rng, fixbits, scale=1.0):
    """A few thousand exact-integer calls around the 64 / 65 / 128-bit product and quotient boundaries, i.e. the places
    where bignum.c goes through its double-word helper type (sexp_luint_t / sexp_lsint_t: fixnum*fixnum overflow,
    bignum*word, bignum/word, estimate-and-correct division, reading and printing bignums)."""
    cases = []
    fx = 1 << fixbits

    def add(op, a=(), k=(), s="", tag="variant"):
        cases.append(Case(op, a, k, s, tag))
    edge = []
    for kk in (15, 16, 30, 31, 32, 33, 47, 48, fixbits - 1, fixbits, 63, 64, 65, 95, 96, 126, 127, 128, 129, 191, 192):
        for d in (-1, 0, 1):
            edge += [(1 << kk) + d, -((1 << kk) + d)]
    edge += [0, 1, -1, 3, -3, 10, (1 << 64) - (1 << 32), ((1 << 64) - 1) << 64, ((1 << 128) - 1) // 3]
    fixs = [x for x in edge if -fx <= x < fx]
    # fixnum x fixnum: products needing exactly 62..66 and 120..125 signed bits
    for bits in list(range(fixbits - 2, fixbits + 5)) + list(range(2 * fixbits - 5, 2 * fixbits + 1)):
        for _ in range(int(12 * scale) + 2):
            ba = rng.randint(max(1, bits - fixbits), min(fixbits, bits - 1))
            a = rng.getrandbits(ba) | (1 << (ba - 1))
            b = (((1 << bits) - rng.randint(0, 3)) // a) or 1
            if b >= fx:
                b = fx - 1
            for sa, sb in ((1, 1), (-1, 1), (1, -1), (-1, -1)):
                add("*", (sa * a, sb * b))
    for a in fixs:
        for b in fixs:
            add("*", (a, b))
    # everything over the edge values
    ops = ["+", "-", "*", "quotient", "remainder", "modulo", "floor/", "truncate/", "gcd", "/", "<", "="]
    for a in edge:
        for b in rng.sample(edge, min(len(edge), int(14 * scale) + 4)):
            for op in rng.sample(ops, 3):
                if b == 0 and op in ("quotient", "remainder", "modulo", "floor/", "truncate/", "/"):
                    continue
                add(op, (a, b))
    # bignum by one word and by two words: quotients with all-ones / zero words, remainders 0, 1, b-1
    for _ in range(int(600 * scale)):
        b = rng.choice([rng.getrandbits(64) | (1 << 63), rng.getrandbits(rng.randint(1, 64)) | 1, (1 << 64) - 1, (1 << 63), (1 << 32) + 1,
                        rng.getrandbits(128) | (1 << 127), ((1 << 64) - 1) << 64, (1 << 127) - 1])
        q = rng.choice([rng.getrandbits(rng.randint(1, 200)), (1 << rng.randint(1, 200)) - 1, ((1 << 64) - 1) << rng.randint(0, 130), 1 << rng.randint(60, 200)])
        r = rng.choice([0, 1, b - 1, rng.randrange(b)])
        n = (q * b + r) * rng.choice([1, -1])
        d = b * rng.choice([1, -1])
        add(rng.choice(["quotient", "remainder", "modulo", "floor/", "truncate/", "gcd"]), (n, d))
        add("*", (q * rng.choice([1, -1]), d))
    # reading and printing go through word-sized multiply / divide
    for _ in range(int(120 * scale) + 10):
        v = rng.choice(edge) if rng.random() < 0.5 else rng.getrandbits(rng.randint(60, 300)) * rng.choice([1, -1])
        radix = rng.choice([2, 3, 8, 10, 16])
        add("number->string", (v,), (radix,))
        digs = "0123456789abcdef"
        m, t = abs(v), ""
        while m:
            t = digs[m % radix] + t
            m //= radix
        add("string->number", (), (radix,), ("-" if v < 0 else "") + (t or "0"))
    for _ in range(int(100 * scale) + 10):
        add("exact-integer-sqrt", (rng.choice([abs(x) for x in edge]) ** 2 + rng.choice([0, 1, -1]) if rng.random() < 0.6 else rng.getrandbits(rng.randint(60, 260)),))
        b = rng.choice([2, 3, 7, 10, -2, -3, (1 << 31) + 1, (1 << 32) - 1])
        add("expt", (b,), (rng.randint(0, 200 // max(2, abs(b).bit_length())),))
    cases = [c for c in cases if not (c.op == "exact-integer-sqrt" and c.a[0] < 0)]
    return number_cases(cases)


def fold_cases(rng, fixbits, scale=1.0):
    """(C09) operand pairs whose results cross the fixnum/bignum boundary in both directions, for source-level folding."""
    fx = 1 << fixbits
    edge = [0, 1, -1, 2, -2, 3, 7, 10, fx - 1, fx - 2, -fx, -fx + 1, fx, fx + 1, -fx - 1, (fx >> 1), (fx >> 1) + 1, -(fx >> 1), 1 << 31, (1 << 32) - 1, 1 << 32,
            3037000499, 3037000500, 1 << 63, (1 << 64) - 1, 1 << 64, -(1 << 64), (1 << 64) + 1, 1 << 100, (1 << 128) - 1, -(1 << 127)]
    cases = []
    for a in edge:
        for b in rng.sample(edge, min(len(edge), int(10 * scale) + 6)):
            for op in rng.sample(FOLD_R[:-1] + FOLD_F, 4):
                if b == 0 and op in ("/", "quotient", "remainder"):
                    continue
                cases.append(Case(op, (a, b), tag="fold"))
        cases.append(Case("neg", (a,), tag="fold"))
    for _ in range(int(300 * scale)):
        a = rng.getrandbits(rng.randint(1, 130)) * rng.choice([1, -1])
        b = rng.getrandbits(rng.randint(1, 70)) * rng.choice([1, -1])
        op = rng.choice(FOLD_R[:-1] + FOLD_F)
        if b == 0 and op in ("/", "quotient", "remainder"):
            b = 1
        cases.append(Case(op, (a, b), tag="fold"))
    return number_cases(cases)


def run_variant(chk, sc, build, label, scale=1.0, report=False, code=False):
    """Run the C04 driver on another build (e.g. vlib.build_repo(dir, cflags="-DSEXP_USE_CUSTOM_LONG_LONGS=1")) and let TLC
    (NumTrace.tla) judge every recorded call.  Returns
        {"cases": n, "accepted": n, "fixbits": k, "rejected": {structural key: {"call", "count", "implementation_output"}}}
    With report=True every rejected key is also reported through chk.report as '<label>:<key>' (replay file written).
    Does not touch chk.cov; the caller adds what it wants.  Seeded from chk.seed only, so every build of one run gets the same calls."""
    import random
    rng = random.Random("%s:variant" % chk.seed)          # the same calls for every build of one run
    build_numprobe(build, sc)
    _, fixbits = run_driver(build, sc, number_cases([Case("+", (1, 1))]), label + "_probe")
    cases = fold_cases(rng, fixbits, scale) if code else variant_cases(rng, fixbits, scale)
    saved = dict(chk.cov.get("seconds", {}))
    rejected, outs, events, fixbits, cfg = process(
        chk, sc, build, "NumTrace.tla", lambda fb: write_cfg(sc, "NumTrace_%s.cfg" % label, {"FixBits": fb}), cases, label, code=code)
    chk.cov["seconds"] = saved
    byid = {c.id: c for c in cases}
    res = {}
    if rejected:
        class _Collect:                      # same confirmation (second TLC run) and keys as C04, without reporting
            def __init__(self):
                self.items = []

            def report(self, key, msg, name, content):
                self.items.append((key, msg, name, content))
        col = _Collect()
        confirm_and_report(col, sc, "NumTrace.tla", cfg, byid, events, outs, rejected, label, fixbits)
        for key, msg, name, content in col.items:
            res[key] = {"call": content["call"], "count": content["count"], "implementation_output": content["implementation_output"]}
            if code:
                ev_id = content["event"]["id"]
                res[key]["source"] = code_line(byid[ev_id])
            if report:
                content = dict(content, key="%s:%s" % (label, key))
                chk.report("%s:%s" % (label, key), "[%s] %s" % (label, msg), name, content)
    return {"cases": len(cases), "accepted": len(cases) - len(rejected), "fixbits": fixbits, "rejected": res}
