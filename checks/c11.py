"""C11 -- green threads: mutual exclusion, no lost wake-ups, schedule independence.
   Sched.tla transcribes threads.c / interface.scm / the fuel loop; every scenario of the catalogue is
   model checked (safety + termination under fairness + a unique final output over all schedules); the
   same scenarios run on the real interpreter under forced time-slice lengths (hook H5) and every
   primitive / scheduler event (hook H6) is validated by TLC against the same actions (SchedTrace.tla)."""
import os, shutil, subprocess, sys, json
import vlib, schedscen, heapcommon as hc
from vlib import Broken

MENU = [1, 2, 3, 5, 8, 13, 21, 34, 55, 89, 144, 233, 377, 500]
DRIVER = os.path.join(vlib.VERIF, "harness", "scm", "sched-driver.scm")

MC_CFG = """SPECIFICATION FairSpec
CONSTANTS Threads <- ScThreads
 Script <- ScScript
 Mutexes <- ScMutexes
 Condvars <- ScCondvars
 Vars <- ScVars
INVARIANTS MutualExclusion CSExclusive QueuesWellFormed ScheduleIndependent
PROPERTY Termination
CHECK_DEADLOCK FALSE
"""
TR_CFG = """SPECIFICATION TraceSpec
CONSTANTS Threads <- ScThreads
 Script <- ScScript
 Mutexes <- ScMutexes
 Condvars <- ScCondvars
 Vars <- ScVars
INVARIANTS MutualExclusion CSExclusive QueuesWellFormed
CONSTRAINT TrackMax
POSTCONDITION Accepted
CHECK_DEADLOCK FALSE
"""


def slice_lists(rng, n_sys, n_rand):
    out = []
    # systematic: one or two non-default slices among the first 6 scheduler entries
    combos = [(pos, s) for pos in range(6) for s in MENU[:-1]]
    rng.shuffle(combos)
    for pos, s in combos[:n_sys]:
        l = [500] * 6
        l[pos] = s
        out.append(",".join(map(str, l)))
    for i in range(n_sys // 2):
        (p1, s1), (p2, s2) = rng.sample(combos, 2)
        l = [500] * 6
        l[p1] = s1
        l[p2] = s2
        out.append(",".join(map(str, l)))
    for i in range(n_rand):
        k = rng.randrange(3, 40)
        out.append(",".join(str(rng.choice(MENU[:9])) for _ in range(k)) + ",seed=%d" % rng.randrange(1, 10 ** 6))
    out.append("1,1,1,1,1,1,1,1,1,1,1,1,1,1,1,1,1,1,1,1,1,1,1,1,1,1,1,1,1,1,1,1,1,1,1,1,1,1,1,1,seed=7")
    out.append("")        # default quantum
    return out


def run():
    chk = vlib.Check("C11")
    with vlib.Scratch("c11") as sc:
        build = vlib.build_repo(sc.sub("build"))
        vlib.build_probe(build, sc)
        work = sc.sub("spec")
        for f in ("Sched.tla", "SchedTrace.tla"):
            shutil.copy(os.path.join(vlib.SPEC, f), work)
        names = schedscen.ALL if chk.thorough else schedscen.QUICK
        driver = open(DRIVER).read()
        total_acc = 0
        for name in names:
            # ---- MC
            mod = schedscen.write_tla(name, work)
            cfg = os.path.join(work, mod + ".cfg")
            soon = any(o.get("d") == 3 for th in schedscen.SCENARIOS[name]["threads"] for o in th)
            # a "soon" deadline expires at some later scheduler run, which one is left open: weak fairness of the scheduler
            # action does not force that choice, so Termination is only checked for scenarios without such deadlines
            open(cfg, "w").write(MC_CFG.replace("PROPERTY Termination\n", "") if soon else MC_CFG)
            r = vlib.run_tlc(mod + ".tla", cfg, sc.path, workers=8, timeout=900, cwd=work)
            vlib.require_tlc_ok(r, "Sched MC " + name)
            if r.violated:
                p = chk.save_replay("mc_%s.txt" % name, r.out[-20000:])
                chk.violations.append(("Sched.tla scenario %s: %s violated in the model" % (name, r.violated), p, "model:%s:%s" % (name, r.violated)))
                continue
            if r.distinct < 50:
                raise Broken("Sched MC %s explored only %d states" % (name, r.distinct))
            chk.add_mc("Sched_" + name, r)
            # ---- runs of the real interpreter under slice schedules
            prog = sc.file("run_%s.scm" % name)
            open(prog, "w").write(driver.replace(";;SCENARIO", schedscen.scheme_datum(name) + ";;"))
            lists = slice_lists(chk.rng, 150 if chk.thorough else 14, 300 if chk.thorough else 24)

            def one(i_sl):
                i, sl = i_sl
                t = sc.file("tr_%s_%d.ndjson" % (name, i))
                if os.path.exists(t):
                    os.remove(t)
                try:
                    p = build.run([prog], env={"CHIBI_VERIF_TRACE": t, "CHIBI_VERIF_WALK": "0", "CHIBI_VERIF_THREADS": "1", "VERIF_SLICES": sl}, timeout=30)
                    rc = p.returncode
                except subprocess.TimeoutExpired:
                    rc = -9
                evs = vlib.read_ndjson(t)
                try:
                    b = [k for k, e in enumerate(evs) if e.get("e") == "Begin"][0]
                except IndexError:
                    b = 0
                ends = [k for k, e in enumerate(evs) if e.get("e") == "EndRun"]
                cut = evs[b:(ends[0] + 1 if ends else len(evs))]
                cut = [e for e in cut if e.get("e") not in ("PortClose", "Close")]
                nm = schedscen.SCENARIOS[name]["mutexes"]
                for e in cut:       # condition variables are numbered after the mutexes by the hook: rename to 0..
                    if e.get("cv", -1) >= 0:
                        e["cv"] -= nm
                    for z in e.get("pz", []):
                        if z[4] == "C":
                            z[5] -= nm
                return dict(i=i, slices=sl, rc=rc, events=cut, complete=bool(ends))
            runs = vlib.parallel(one, list(enumerate(lists)))
            mod_t = schedscen.write_tla(name, work, trace=True)
            cfg_t = os.path.join(work, mod_t + "_trace.cfg")
            open(cfg_t, "w").write(TR_CFG)

            def validate(batch, tag):
                path = sc.file("batch_%s_%s.ndjson" % (name, tag))
                with open(path, "w") as f:
                    for run_ in batch:
                        for e in run_["events"]:
                            f.write(json.dumps(e, separators=(",", ":")) + "\n")
                r = vlib.run_tlc(mod_t + ".tla", cfg_t, sc.path, env={"TRACE": path}, workers=1, timeout=600, cwd=work, heap="4g")
                if r.error and "Postcondition" not in r.error:
                    raise Broken("SchedTrace failed (%s): %s" % (name, r.error[:1500]))
                r.accepted = (r.rc == 0 and not r.violated)
                return r
            batches = list(vlib.chunks(runs, 8))
            results = vlib.parallel(lambda b: (b[1], validate(b[1], "b%d" % b[0])), list(enumerate(batches)), jobs=8)
            for batch, r in results:
                if r.accepted:
                    total_acc += len(batch)
                    continue
                # isolate
                for run_ in batch:
                    r1 = validate([run_], "s%d" % run_["i"])
                    if r1.accepted:
                        total_acc += 1
                        continue
                    r2 = validate([run_], "s%d" % run_["i"])
                    if r2.accepted:
                        total_acc += 1
                        continue
                    import re
                    m = re.search(r'"TRACE_MAXL", (\d+), (\d+)', r1.out)
                    at = int(m.group(1)) if m else 0
                    evs = run_["events"]
                    ev = evs[at - 1] if 0 < at <= len(evs) else {}
                    if r1.violated:
                        key = "%s:invariant:%s" % (name, r1.violated)
                    elif not run_["complete"]:
                        key = "%s:no-termination" % name
                    else:
                        key = "%s:rejected:%s" % (name, ev.get("e"))
                    chk.report(key, "scenario %s under slices '%s': trace not explained by Sched.tla (%s; stopped at event %d %s)" %
                               (name, run_["slices"], r1.violated or "no behaviour consumes the log", at, {k: ev.get(k) for k in ("e", "t", "op", "res", "u", "m")}),
                               "sched_%s_%d.json" % (name, run_["i"]),
                               {"key": key, "scenario": name, "slices": run_["slices"], "rc": run_["rc"], "complete": run_["complete"],
                                "stopped_at": at, "event": ev, "before": evs[max(0, at - 8):at - 1], "script": schedscen.SCENARIOS[name]})
            if name == names[0]:
                chk.sample({"scenario": name, "slices": runs[0]["slices"], "events": [
                    {k: e.get(k) for k in ("e", "t", "op", "res", "u", "m", "v") if k in e} for e in runs[0]["events"][:14]]})
        chk.cov["traces_validated_against_impl"] = total_acc
        chk.cov["scenarios"] = names
        chk.cov["evaluations"] = total_acc
        chk.cov["distinct_nontrivial"] = total_acc
        chk.cov["rule"] = "a case = (scenario, list of forced time-slice lengths); distinct lists; every primitive and scheduler event validated"
        chk.cov["exhaustive"] = False
        if total_acc < 20 and not chk.violations:
            raise Broken("only %d runs validated" % total_acc)
        chk.assumptions += ["acceptance is by the transcription of the scheduler (round-robin rotation, first-waiter wake-up): a change of pure policy would be reported although the property may still hold (DESIGN 5/C11)",
                            "deadlines are abstracted to {untimed, already expired, far}: real-time accuracy of timeouts and fd-blocked threads are not decided"]
    return chk.finish()


def replay(path):
    print(open(path).read()[:6000])
    return 0
