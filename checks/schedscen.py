"""Scenario catalogue for C11: one source of truth rendered to (a) a TLA+ instance of Sched.tla and
(b) a Scheme datum interpreted by harness/scm/sched-driver.scm on the real green threads."""
import json, os

L, U, R, W = "lock", "unlock", "read", "write"


def op(o, **kw):
    d = {"op": o}
    d.update(kw)
    return d


def locker(m=0, x=0, rounds=1, yield_between=False):
    s = []
    for _ in range(rounds):
        s += [op(L, m=m), op(R, x=x, cs=m), op(W, x=x, k=1, cs=m), op(U, m=m)]
        if yield_between:
            s.append(op("yield"))
    return s + [op("end")]


def main_start_join(n, tail):
    return [op("start", u=i) for i in range(1, n + 1)] + [op("join", u=i) for i in range(1, n + 1)] + tail + [op("end")]


SCENARIOS = {}

# S1: two lockers incrementing a shared counter
SCENARIOS["S1"] = dict(threads=[main_start_join(2, [op(R, x=0), op("emit")]), locker(), locker()],
                       mutexes=1, condvars=0, vars=1, expect=[[0, 2]])
# S2: three lockers
SCENARIOS["S2"] = dict(threads=[main_start_join(3, [op(R, x=0), op("emit")]), locker(), locker(), locker()],
                       mutexes=1, condvars=0, vars=1, expect=[[0, 3]])
# S3: producer / consumer with a condition variable and a predicate loop
consumer = [op(L, m=0), op("brz", x=1, to=7), op(R, x=0), op("write", x=2, k=0), op(U, m=0), op("jmp", to=9),
            op(U, m=0, cv=0), op("jmp", to=1), op("end")]
producer = [op(L, m=0), op("set", x=0, k=7), op("set", x=1, k=1), op("signal", cv=0), op(U, m=0), op("end")]
SCENARIOS["S3"] = dict(threads=[main_start_join(2, [op(R, x=2), op("emit")]), consumer, producer],
                       mutexes=1, condvars=1, vars=3, expect=[[0, 7]])
# S4: broadcast to two waiters with predicate loops; each adds 1 to x2 under the mutex
waiter = [op(L, m=0), op("brz", x=1, to=7), op(R, x=2, cs=0), op(W, x=2, k=1, cs=0), op(U, m=0), op("jmp", to=9),
          op(U, m=0, cv=0), op("jmp", to=1), op("end")]
boss = [op("start", u=1), op("start", u=2), op("yield"), op(L, m=0), op("set", x=1, k=1), op("broadcast", cv=0), op(U, m=0),
        op("join", u=1), op("join", u=2), op(R, x=2), op("emit"), op("end")]
SCENARIOS["S4"] = dict(threads=[boss, waiter, waiter], mutexes=1, condvars=1, vars=3, expect=[[0, 2]])
# S5: join chain with results: T1 ends with result 5 (read of x0 preset), T2 joins T1 and ends with that result
t1 = [op("set", x=0, k=5), op(R, x=0), op("end")]
t2 = [op("join", u=1), op("end")]
SCENARIOS["S5"] = dict(threads=[[op("start", u=2), op("start", u=1), op("join", u=2), op("emit"), op("end")], t1, t2],
                       mutexes=0, condvars=0, vars=1, expect=[[0, 5]])
# S6: timed lock that must time out (main holds the mutex until the worker is done), timed cv wait that times out
tw = [op(L, m=0, d=1), op("write", x=0, k=10), op(L, m=1), op(U, m=1, cv=0, d=1), op("write", x=1, k=20), op("end")]
SCENARIOS["S6"] = dict(threads=[[op(L, m=0), op("start", u=1), op("join", u=1), op(U, m=0), op(R, x=0), op("emit"), op(R, x=1), op("emit"), op("end")], tw],
                       mutexes=2, condvars=1, vars=2, expect=[[0, 10], [0, 20]])
# S7: sleepers and yields: two workers sleep (timeout 0) between protected increments
sleeper = [op(L, m=0), op(R, x=0, cs=0), op(W, x=0, k=1, cs=0), op(U, m=0), op("sleep", d=1),
           op(L, m=0), op(R, x=0, cs=0), op(W, x=0, k=1, cs=0), op(U, m=0), op("end")]
SCENARIOS["S7"] = dict(threads=[main_start_join(2, [op(R, x=0), op("emit")]), sleeper, sleeper],
                       mutexes=1, condvars=0, vars=1, expect=[[0, 4]])
# S8: yield storm, two rounds each, two mutexes protecting two counters
def two_mutex(a, b):
    return [op(L, m=a), op(R, x=a, cs=a), op(W, x=a, k=1, cs=a), op(U, m=a), op("yield"),
            op(L, m=b), op(R, x=b, cs=b), op(W, x=b, k=1, cs=b), op(U, m=b), op("end")]
SCENARIOS["S8"] = dict(threads=[main_start_join(2, [op(R, x=0), op("emit"), op(R, x=1), op("emit")]), two_mutex(0, 1), two_mutex(1, 0)],
                       mutexes=2, condvars=0, vars=2, expect=[[0, 2], [0, 2]])

# S9: a far-timed waiter and untimed waiters are paused at the same time (ordering of the paused list), then all are woken
t_far = [op(L, m=0, d=2), op(R, x=0, cs=0), op(W, x=0, k=1, cs=0), op(U, m=0), op("end")]
t_unt = [op(L, m=1), op(R, x=1, cs=1), op(W, x=1, k=5, cs=1), op(U, m=1), op("end")]
t_unt2 = [op(L, m=1), op(R, x=1, cs=1), op(W, x=1, k=5, cs=1), op(U, m=1), op("end")]
SCENARIOS["S9"] = dict(threads=[[op(L, m=0), op(L, m=1), op("start", u=1), op("start", u=2), op("start", u=3), op("yield"), op("yield"), op("yield"),
                                 op(U, m=1), op(U, m=0), op("join", u=1), op("join", u=2), op("join", u=3),
                                 op(R, x=0), op("emit"), op(R, x=1), op("emit"), op("end")], t_far, t_unt, t_unt2],
                       mutexes=2, condvars=0, vars=2, expect=[[0, 1], [0, 10]])

# S10: thread-local parameters and dynamic-wind (C11's quantifier): every thread parameterizes THE SAME parameter object, yields inside
# the extents, nests a dynamic-wind and a second parameterize, and records what it sees.  In the model a thread's view of the
# parameter is a cell private to that thread (pz / pend / dwin / dwout are `set` on it, pget is `read`): that IS the statement
# "parameterize is thread-local, the scheduler switches dynamic environments with the thread"; the driver uses the real forms
# and logs the values it observes.  Cells: 1,2,3 = the parameter as seen by thread 0,1,2; 4.. = results.
def param_thread(cell, base, r1, r2, r3, wcell):
    return [op("pz", x=cell, k=base + 1), op("yield"), op("pget", x=cell), op(W, x=r1, k=0),
            op("dwin", x=wcell, k=1), op("yield"),
            op("pz", x=cell, k=base + 2), op("yield"), op("pget", x=cell), op(W, x=r2, k=0), op("pend", x=cell, k=base + 1),
            op("dwout", x=wcell, k=2),
            op("pget", x=cell), op(W, x=r1, k=100),
            op("pend", x=cell, k=0), op("pget", x=cell), op(W, x=r3, k=1000), op("end")]
main10 = ([op("start", u=1), op("pz", x=1, k=5), op("start", u=2), op("yield"), op("pget", x=1), op(W, x=4, k=0), op("pend", x=1, k=0),
           op("join", u=1), op("join", u=2), op("pget", x=1), op(W, x=5, k=0)]
          + sum([[op(R, x=c), op("emit")] for c in range(4, 14)], []) + [op("end")])
SCENARIOS["S10"] = dict(threads=[main10, param_thread(2, 10, 6, 7, 8, 9), param_thread(3, 20, 10, 11, 12, 13)],
                        mutexes=0, condvars=0, vars=14,
                        expect=[[0, 5], [0, 0], [0, 111], [0, 12], [0, 1000], [0, 2], [0, 121], [0, 22], [0, 1000], [0, 2]])

# S11: everybody is blocked, and the LAST thread to block waits untimed (on a condition variable); then a sleeper's deadline
# (a few milliseconds of real time, deadline class 3) passes while another thread is still in a far-timed wait.  The sleeper must be resumed (it signals the condition variable),
# whatever the order of the paused list.
s11_main = [op(L, m=1), op("start", u=1), op("start", u=2), op("yield"), op("yield"), op("yield"),
            op(L, m=0), op("brz", x=0, to=11), op(U, m=0), op("jmp", to=13), op(U, m=0, cv=0), op("jmp", to=7),
            op(U, m=1), op("join", u=1), op("join", u=2), op(R, x=0), op("emit"), op(R, x=1), op("emit"), op("end")]
s11_sleeper = [op("sleep", d=3), op(L, m=0), op("set", x=0, k=7), op("signal", cv=0), op(U, m=0), op("end")]
s11_far = [op(L, m=1, d=2), op(R, x=1, cs=1), op(W, x=1, k=3, cs=1), op(U, m=1), op("end")]
SCENARIOS["S11"] = dict(threads=[s11_main, s11_sleeper, s11_far], mutexes=2, condvars=1, vars=2, expect=[[0, 7], [0, 3]])

QUICK = ["S9", "S10", "S11", "S1", "S3", "S4", "S5", "S6", "S7", "S8"]
ALL = ["S9", "S10", "S11", "S1", "S2", "S3", "S4", "S5", "S6", "S7", "S8"]


def tla_value(v):
    if isinstance(v, str):
        return '"%s"' % v
    return str(v)


MODEL_OP = {"pz": "set", "pend": "set", "dwin": "set", "dwout": "set", "pget": "read"}


def tla_record(d):
    d = dict(d, op=MODEL_OP.get(d["op"], d["op"]))
    return "[" + ", ".join("%s |-> %s" % (k, tla_value(v)) for k, v in d.items()) + "]"


def tla_script(threads):
    parts = []
    for t, s in enumerate(threads):
        parts.append("  %s %d -> << %s >>" % ("CASE t =" if t == 0 else "  [] t =", t, ", ".join(tla_record(o) for o in s)))
    return "[t \\in 0..%d |->\n%s]" % (len(threads) - 1, "\n".join(parts).replace("  CASE t = 0", "  CASE t = 0"))


def write_tla(name, dest_dir, trace=False):
    sc = SCENARIOS[name]
    n = len(sc["threads"])
    mod = "SchedScen_%s" % name
    body = ["---------------------------- MODULE %s ----------------------------" % mod,
            "EXTENDS %s" % ("SchedTrace" if trace else "Sched"),
            "ScThreads == 0..%d" % (n - 1),
            "ScMutexes == 0..%d" % (sc["mutexes"] - 1),
            "ScCondvars == 0..%d" % (sc["condvars"] - 1),
            "ScVars == 0..%d" % (sc["vars"] - 1),
            "ScScript == " + tla_script(sc["threads"]),
            "ScExpect == << %s >>" % ", ".join("<<%d, %d>>" % (a, b) for a, b in sc["expect"]),
            "ScheduleIndependent == done => out = ScExpect",
            "=" * 77]
    with open(os.path.join(dest_dir, mod + ".tla"), "w") as f:
        f.write("\n".join(body) + "\n")
    return mod


def scheme_datum(name):
    sc = SCENARIOS[name]
    def sop(o):
        items = [o["op"]] + ["(%s . %s)" % (k, v) for k, v in o.items() if k != "op"]
        return "(" + " ".join(str(x) for x in items) + ")"
    threads = " ".join("#(" + " ".join(sop(o) for o in s) + ")" for s in sc["threads"])
    return "(define scenario-threads '#(%s))\n(define scenario-mutexes %d)\n(define scenario-condvars %d)\n(define scenario-vars %d)\n" % (
        threads, sc["mutexes"], sc["condvars"], sc["vars"])
