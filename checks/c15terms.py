"""C15: catalogue of abstract values (terms) and of the routes that compute them.

A term is a rooted graph (see spec/Equiv.tla): atoms are leaves identified by an id, pairs and vectors are
inner nodes; cyclic data are cyclic graphs.  A route is a Scheme expression that computes the term in its
own way (different arithmetic path, mutation vs. literal, other constructor ...).  Route attributes:
   fresh   1 if R7RS guarantees a newly allocated, non-empty object (so eqv?/eq? to anything else is #f)
   layout  what is special about the internal representation this route is meant to produce
   lkind   the kind of object that carries that layout (e.g. a list built around a wide-buffer bignum
           has layout 'spare-words', lkind 'bignum')
Nothing in here decides a verdict: the catalogue only says which abstract value an expression denotes
(python is used as a calculator to make sure a floating point route is exact), the comparison of abstract
values is done by TLC on the graphs.
"""
import math, random, struct

FIX_MIN, FIX_MAX = -(2 ** 62), 2 ** 62 - 1


class Route:
    def __init__(self, expr, fresh=0, layout="plain", lkind=None):
        self.expr, self.fresh, self.layout, self.lkind = expr, fresh, layout, lkind


class Term:
    def __init__(self, cls, kind, canon, nan=0):
        self.cls, self.kind, self.canon, self.nan = cls, kind, canon, nan
        self.id = None
        self.routes = []
        self.nodes = None        # for compound terms: list of (k, atom term | None, [child index])
        self.tags = set()        # e.g. 'key' (usable as hash table key), 'cyclic'
        self.near = []           # terms worth comparing with (different but similar)
        self.lit = None          # datum syntax of an atom, if it has one
        self.nest = None         # symbolic deep term: dict(shape, k, leaf Term, aux [Terms]) (see Equiv!NestGraph)

    def add(self, expr, fresh=0, layout="plain", lkind=None):
        if all(r.expr != expr for r in self.routes):
            self.routes.append(Route(expr, fresh, layout, lkind or self.kind))
        return self


def sstr(s):
    """Scheme string literal."""
    out = ['"']
    for ch in s:
        o = ord(ch)
        if ch in '"\\':
            out.append("\\" + ch)
        elif 32 <= o < 127:
            out.append(ch)
        else:
            out.append("\\x%x;" % o)
    out.append('"')
    return "".join(out)


def schar(ch):
    o = ord(ch)
    if 33 <= o < 127 and ch not in "()[]{}\";'`,|#\\":
        return "#\\" + ch
    return "#\\x%x" % o


def sflo(x):
    if x != x:
        return "+nan.0"
    if x == math.inf:
        return "+inf.0"
    if x == -math.inf:
        return "-inf.0"
    return repr(x)


class Catalogue:
    def __init__(self, seed, thorough=False):
        self.rng = random.Random(seed * 7919 + 15)
        self.thorough = thorough
        self.terms = []
        self.by_canon = {}
        self.build()

    # ------------------------------------------------------------------ atoms
    def atom(self, cls, kind, canon, nan=0):
        key = (cls, canon)
        t = self.by_canon.get(key)
        if t is None:
            t = Term(cls, kind, canon, nan)
            t.id = len(self.terms) + 1
            self.terms.append(t)
            self.by_canon[key] = t
        return t

    def int_(self, n, extra=True):
        kind = "fixnum" if FIX_MIN <= n <= FIX_MAX else "bignum"
        t = self.atom("int", kind, n)
        if t.routes:
            return t
        t.tags.add("key")
        t.lit = str(n)
        t.add(str(n))
        t.add("(string->number %s)" % sstr(str(n)))
        if not extra:
            return t
        a = n // 2
        t.add("(+ %d %d)" % (a, n - a))
        t.add("(- (- %d))" % n)
        for k in (2, 5):
            t.add("(spare %d %d)" % (n, k), layout="spare-words", lkind="bignum")
        t.add("(quotient (* %d (expt 2 200)) (expt 2 200))" % n, layout="spare-words", lkind="bignum")
        if n >= 0:
            t.add("(arithmetic-shift (arithmetic-shift %d 130) -130)" % n, layout="spare-words", lkind="bignum")
            t.add("(bitwise-and %d (- (expt 2 300) 1))" % n, layout="spare-words", lkind="bignum")
            if n < 2 ** 200:
                t.add("(remainder (+ (expt 2 200) %d) (expt 2 200))" % n, layout="spare-words", lkind="bignum")
            if n > 0 and n & (n - 1) == 0:
                e = n.bit_length() - 1
                t.add("(expt 2 %d)" % e)
                t.add("(arithmetic-shift 1 %d)" % e, layout="spare-words", lkind="bignum")
        if n % 1024 == 0 and n != 0:
            t.add("(* 1024 %d)" % (n // 1024))
        # flonum round trip only where it is exact and away from the fixnum border (exact of 2^62 is C04's business)
        if abs(n) < 2 ** 53 or (abs(n) & (abs(n) - 1) == 0 and 2 ** 64 <= abs(n) < 2 ** 1000):
            t.add("(exact (inexact %d))" % n)
        if n != 0:
            t.add("(numerator (/ %d 3))" % n if n % 3 else "(numerator (/ %d 7))" % n if n % 7 else "(+ %d 0)" % n)
        return t

    def ratio(self, p, q):
        g = math.gcd(p, q)
        p, q = p // g, q // g
        assert q > 1
        t = self.atom("ratio", "ratio", (p, q))
        if t.routes:
            return t
        t.tags.add("key")
        t.lit = "%d/%d" % (p, q)
        t.add("(/ %d %d)" % (p, q))
        t.add("(string->number %s)" % sstr("%d/%d" % (p, q)))
        t.add("(/ (* %d (expt 2 80)) (* %d (expt 2 80)))" % (p, q))
        t.add("(- (/ %d %d) 1)" % (p + q, q))
        t.add("(/ (spare %d 3) %d)" % (p, q), layout="spare-words", lkind="bignum")
        t.add("(/ %d (spare %d 3))" % (p, q), layout="spare-words", lkind="bignum")
        t.add("(* %d (/ 1 %d))" % (p, q))
        return t

    def flo(self, x, routes=(), lit=True):
        """lit: the decimal notation is short enough for any reader to be exact (reading decimals is
        another property's business); otherwise only exact arithmetic routes are used"""
        bits = struct.unpack("<Q", struct.pack("<d", x))[0]
        nan = 1 if x != x else 0
        t = self.atom("flo", "flonum", "nan" if nan else bits, nan)
        if t.routes:
            return t
        if not nan:
            t.tags.add("key")
        if lit:
            t.lit = sflo(x)
            t.add(sflo(x))
            t.add("(string->number %s)" % sstr(sflo(x)))
        for r in routes:
            t.add(r)
        return t

    def char(self, ch, routes=()):
        t = self.atom("char", "char", ord(ch))
        if t.routes:
            return t
        t.tags.add("key")
        t.lit = schar(ch)
        t.add(schar(ch))
        t.add("(integer->char %d)" % ord(ch))
        t.add("(string-ref %s 1)" % sstr("x" + ch + "y"))
        t.add("(car (string->list %s))" % sstr(ch))
        t.add("(read-char (open-input-string %s))" % sstr(ch + "z"))
        for r in routes:
            t.add(r)
        return t

    def sym(self, name):
        t = self.atom("sym", "symbol", name)
        if t.routes:
            return t
        t.tags.update(("key", "ident"))
        t.lit = "|%s|" % name
        t.add("'|%s|" % name)
        t.add("(string->symbol %s)" % sstr(name))
        if len(name) >= 2:
            t.add("(string->symbol (string-append %s %s))" % (sstr(name[:1]), sstr(name[1:])))
        t.add("(string->symbol (symbol->string '|%s|))" % name)
        t.add("(from-port %s)" % sstr("|%s|" % name))
        t.add("(car '(|%s| 1))" % name)
        return t

    def string(self, s):
        t = self.atom("str", "string", s)
        if t.routes:
            return t
        t.tags.add("key")
        if "\0" not in s:
            t.tags.add("strkey")     # string=? of the implementation is C12's business: it stops at a NUL
        n = len(s)
        lit = sstr(s)
        t.lit = lit
        fr = 1 if n > 0 else 0          # eqv? on empty strings is not fixed by R7RS
        t.add(lit, 0, "literal")
        t.add("(string-copy %s)" % lit, fr)
        h = n // 2
        t.add("(string-append %s %s)" % (sstr(s[:h]), sstr(s[h:])), fr)
        t.add("(substring %s 2 %d)" % (sstr("λx" + s + "yy"), n + 2), fr)
        t.add("(list->string (list %s))" % " ".join(schar(c) for c in s), fr)
        t.add("(utf8->string (string->utf8 %s))" % lit, fr)
        t.add("(let ((p (open-output-string))) (write-string %s p) (write-string %s p) (get-output-string p))"
              % (sstr(s[:h]), sstr(s[h:])), 0, "port")
        t.add("(read-string %d (open-input-string %s))" % (n, sstr(s + "tail")) if n else "(string)", 0, "port")
        t.add("(from-port %s)" % sstr(lit), 0, "read")
        if n:
            sets = " ".join("(string-set! s %d %s)" % (i, schar(c)) for i, c in enumerate(s))
            t.add("(let ((s (make-string %d #\\a))) %s s)" % (n, sets), 1, "mutated")
            # filled with a 2-byte character first: every string-set! to a different width reallocates
            t.add("(let ((s (make-string %d #\\x3bb))) %s s)" % (n, sets), 1, "mutated-resized")
            t.add("(let ((s (make-string %d #\\x10000))) %s s)" % (n, sets), 1, "mutated-resized")
            t.add("(let ((s (make-string %d #\\-))) (string-copy! s 0 %s 1 %d) s)" % (n, sstr("<" + s + ">"), n + 1), 1, "mutated")
            last = s[-1]
            other = "q" if last != "q" else "r"
            t.add("(let ((s (string-copy %s))) (string-set! s %d %s) s)" % (sstr(s[:-1] + other), n - 1, schar(last)), 1, "mutated")
            t.add("(let ((s (string-copy %s))) (string-set! s %d %s) s)" % (sstr(s[:-1] + "→"), n - 1, schar(last)), 1, "mutated-resized")
            t.add("(apply string-append (map string (list %s)))" % " ".join(schar(c) for c in s), 1)
            t.add("(vector->string (vector %s))" % " ".join(schar(c) for c in s), 1)
            if all(ord(c) >= 32 for c in s):
                t.add("(read-line (open-input-string %s))" % sstr(s + "\nrest"), 0, "port")
            if all("a" <= c <= "z" for c in s):
                t.add("(string-map char-downcase %s)" % sstr(s.upper()), 1)
                t.add("(string-downcase %s)" % sstr(s.upper()), 0)
        return t

    def bv(self, bs):
        bs = tuple(bs)
        t = self.atom("bv", "bytevector", bs)
        if t.routes:
            return t
        t.tags.add("key")
        n = len(bs)
        fr = 1 if n else 0
        body = " ".join(str(b) for b in bs)
        t.lit = "#u8(%s)" % body
        t.add("#u8(%s)" % body, 0, "literal")
        t.add("(bytevector %s)" % body, fr)
        t.add("(bytevector-copy (bytevector 7 %s 9) 1 %d)" % (body, n + 1), fr)
        h = n // 2
        t.add("(bytevector-append (bytevector %s) (bytevector %s))" % (" ".join(map(str, bs[:h])), " ".join(map(str, bs[h:]))), fr)
        t.add("(let ((b (make-bytevector %d 9))) %s b)" % (n, " ".join("(bytevector-u8-set! b %d %d)" % (i, b) for i, b in enumerate(bs))), fr, "mutated")
        t.add("(let ((b (make-bytevector %d 9))) (bytevector-copy! b 0 (bytevector 5 %s) 1) b)" % (n, body), fr, "mutated")
        t.add("(apply bytevector (list %s))" % body, fr)
        if n:
            t.add("(read-bytevector %d (open-input-bytevector (bytevector %s 1 2)))" % (n, body), 0, "port")
        if all(0 < b < 128 for b in bs):
            t.add("(string->utf8 %s)" % sstr("".join(chr(b) for b in bs)), fr)
        return t

    def simple(self, cls, kind, canon, routes, ident=True):
        t = self.atom(cls, kind, canon)
        t.tags.add("key")
        t.lit = routes[0][1:] if routes[0].startswith("'") else routes[0]
        if ident:
            t.tags.add("ident")
        for r in routes:
            t.add(r)
        return t

    # ------------------------------------------------------------------ compound terms
    def compound(self, shape):
        """shape: ('list', [shapes], tailshape|None) | ('vec', [shapes]) | Term (atom) ; acyclic."""
        canon = self.canon_of(shape)
        cls = "pair" if shape[0] == "list" else "vec"
        key = (cls, canon)
        t = self.by_canon.get(key)
        if t is not None:
            return t
        kind = "list" if cls == "pair" else "vector"
        if shape[0] == "vec" and not shape[1]:
            kind = "empty-vector"
        t = Term(cls, kind, canon)
        t.id = len(self.terms) + 1
        self.terms.append(t)
        self.by_canon[key] = t
        nodes = []

        def build(sh):
            idx = len(nodes)
            nodes.append(None)
            if isinstance(sh, Term):
                if sh.nodes is None:
                    nodes[idx] = ("atom", sh, [])
                else:               # embed the sub-term's graph
                    nodes.pop()
                    return build(sh.shape)
            elif sh[0] == "vec":
                ch = [build(x) for x in sh[1]]
                nodes[idx] = ("vec", None, ch)
            else:
                elems, tail = sh[1], sh[2]
                if not elems:
                    nodes.pop()
                    return build(tail if tail is not None else self.null)
                car = build(elems[0])
                cdr = build(("list", elems[1:], tail))
                nodes[idx] = ("pair", None, [car, cdr])
            return idx
        build(shape)
        t.nodes = nodes
        t.shape = shape
        leaves = self.leaves(shape)
        if all("key" in a.tags for a in leaves):
            t.tags.add("key")
        self.compound_routes(t, shape)
        return t

    def canon_of(self, sh):
        if isinstance(sh, Term):
            return ("T", sh.id) if sh.nodes is None else self.canon_of(sh.shape)
        if sh[0] == "vec":
            return ("V",) + tuple(self.canon_of(x) for x in sh[1])
        elems, tail = sh[1], sh[2]
        if not elems:
            return self.canon_of(tail if tail is not None else self.null)
        return ("P", self.canon_of(elems[0]), self.canon_of(("list", elems[1:], tail)))

    def leaves(self, sh):
        if isinstance(sh, Term):
            return [sh] if sh.nodes is None else self.leaves(sh.shape)
        if sh[0] == "vec":
            return [a for x in sh[1] for a in self.leaves(x)]
        out = [a for x in sh[1] for a in self.leaves(x)]
        if sh[2] is not None:
            out += self.leaves(sh[2])
        return out

    def expr_of(self, sh, style, pick):
        """One Scheme expression for shape sh.  pick(term) chooses a route of a leaf/sub-term.
        Returns (expr, layouts) where layouts is the set of (layout, lkind) of the leaf routes used."""
        if isinstance(sh, Term):
            r = pick(sh)
            return r.expr, {(r.layout, r.lkind)}
        lay = set()
        parts = []
        for x in sh[1]:
            e, l = self.expr_of(x, style, pick)
            parts.append(e)
            lay |= l
        if sh[0] == "vec":
            n = len(parts)
            body = " ".join(parts)
            if style == 0 or n == 0:
                e = "(vector %s)" % body if n else "(vector)"
            elif style == 1:
                e = "(list->vector (list %s))" % body
            elif style == 2:
                e = "(let ((v (make-vector %d 0))) %s v)" % (n, " ".join("(vector-set! v %d %s)" % (i, p) for i, p in enumerate(parts)))
            elif style == 3:
                e = "(vector-copy (vector 0 %s 0) 1 %d)" % (body, n + 1)
            elif style == 4:
                e = "(vector-append (vector %s) (vector %s))" % (" ".join(parts[:n // 2]), " ".join(parts[n // 2:]))
            elif style == 5:
                e = "(vector-map idf (vector %s))" % body
            else:
                e = "(let ((v (make-vector %d #f))) (vector-copy! v 0 (vector 9 %s) 1) v)" % (n, body)
            return e, lay
        tail = None
        if sh[2] is not None:
            tail, l = self.expr_of(sh[2], style, pick)
            lay |= l
        n = len(parts)
        if n == 0:
            return (tail or "'()"), lay
        body = " ".join(parts)
        if tail is not None:
            if style % 2 == 0:
                e = "(cons* %s %s)" % (body, tail) if False else self.conses(parts, tail)
            else:
                e = "(append (list %s) %s)" % (body, tail)
            return e, lay
        if style == 0:
            e = "(list %s)" % body
        elif style == 1:
            e = self.conses(parts, "'()")
        elif style == 2:
            e = "(list-copy (list %s))" % body
        elif style == 3:
            e = "(reverse (list %s))" % " ".join(reversed(parts))
        elif style == 4:
            e = "(append (list %s) (list %s))" % (" ".join(parts[:n // 2]), " ".join(parts[n // 2:]))
        elif style == 5:
            e = "(vector->list (vector %s))" % body
        elif style == 6:
            e = "(map idf (list %s))" % body
        elif style == 7:
            e = "(let ((l (make-list %d 0))) %s l)" % (n, " ".join("(set-car! (list-tail l %d) %s)" % (i, p) for i, p in enumerate(parts)))
        else:
            e = "(list-tail (list 8 9 %s) 2)" % body
        return e, lay

    @staticmethod
    def conses(parts, tail):
        e = tail
        for p in reversed(parts):
            e = "(cons %s %s)" % (p, e)
        return e

    def literal_of(self, sh):
        """external representation if every leaf has a literal datum syntax, else None"""
        if isinstance(sh, Term):
            if sh.nodes is not None:
                return self.literal_of(sh.shape)
            return sh.lit
        parts = [self.literal_of(x) for x in sh[1]]
        if any(p is None for p in parts):
            return None
        if sh[0] == "vec":
            return "#(%s)" % " ".join(parts)
        if sh[2] is not None:
            tl = self.literal_of(sh[2])
            if tl is None:
                return None
            return "(%s . %s)" % (" ".join(parts), tl) if parts else tl
        return "(%s)" % " ".join(parts)

    def compound_routes(self, t, shape):
        rng = self.rng
        leaves = self.leaves(shape)
        nonempty = bool(shape[1])
        fresh = 1 if nonempty else 0

        def summarise(lay):
            special = sorted(l for l in lay if l[0] not in ("plain", "literal", "port", "read"))
            if special:
                return special[0]
            return ("plain", t.kind)
        first = lambda a: a.routes[0]
        styles = list(range(7 if shape[0] == "vec" else 9))
        for st in styles:
            if st == 0:
                pick = first
            else:
                pick = lambda a: rng.choice(a.routes)
            e, lay = self.expr_of(shape, st, pick)
            layout, lkind = summarise(lay)
            t.add(e, fresh, layout, lkind)
        lit = self.literal_of(shape)
        if lit is not None:
            t.add("'" + lit, 0, "literal")
            t.add("(from-port %s)" % sstr(lit), 0, "read")

    # ------------------------------------------------------------------ deeply nested terms (symbolic)
    DEEP = {"lt": ("pair", "nested-list", "deep-lt"), "vf": ("vec", "nested-vector", "deep-vf"), "car": ("pair", "nested-carlist", "deep-car")}

    def deep(self, shape, k, leaf):
        """Nest(shape, k, leaf) of Equiv.tla: the leaf wrapped k times; declared symbolically, never unfolded."""
        cls, kind, fn = self.DEEP[shape]
        key = (cls, ("deep", shape, k, leaf.id))
        t = self.by_canon.get(key)
        if t is not None:
            return t
        t = Term(cls, kind, key[1])
        t.id = len(self.terms) + 1
        self.terms.append(t)
        self.by_canon[key] = t
        aux = {"lt": [self.int_(1), self.null], "vf": [self.flo(1.5)], "car": [self.null]}[shape]
        t.nest = dict(shape=shape, k=k, leaf=leaf, aux=aux)
        t.tags.update(("key", "deep"))
        le = leaf.routes[0].expr
        t.add("(%s %d %s)" % (fn, k, le), 1, "deep")
        t.add("(%s2 %d %s)" % (fn, k, le), 1, "deep")
        if k >= 3:
            t.add("(%s %d (%s2 %d %s))" % (fn, k - k // 3, fn, k // 3, le), 1, "deep")
        return t

    # ------------------------------------------------------------------ cyclic terms
    def cyclic(self, name, nodes, routes, near=()):
        """nodes: list of (k, atom Term|None, [child idx]) ; routes: list of expr (all fresh)."""
        t = Term("pair" if nodes[0][0] == "pair" else "vec", "cyclic-" + ("list" if nodes[0][0] == "pair" else "vector"), ("cyc", name))
        t.id = len(self.terms) + 1
        self.terms.append(t)
        self.by_canon[(t.cls, t.canon)] = t
        t.nodes = nodes
        t.tags.add("cyclic")
        for r in routes:
            t.add(r, 1, "cyclic")
        return t

    # ------------------------------------------------------------------ the catalogue
    def build(self):
        rng = self.rng
        I, F, S, L, V = self.int_, self.flo, self.string, (lambda *xs, tail=None: ("list", list(xs), tail)), (lambda *xs: ("vec", list(xs)))
        self.null = self.simple("null", "null", "()", ["'()", "(list)", "(cdr (list 1))", "(reverse '())", "(vector->list (vector))", "(list-copy '())", "(from-port \"()\")"])
        self.true = self.simple("bool", "boolean", True, ["#t", "(not #f)", "(= 1 1)", "(null? '())", "(from-port \"#true\")"])
        self.false = self.simple("bool", "boolean", False, ["#f", "(not #t)", "(eq? 'a 'b)", "(pair? '())", "(from-port \"#false\")"])
        # ---- exact integers: fixnum/bignum border, wide values, values that must normalise back to a fixnum
        ints = [0, 1, -1, 5, 255, 2 ** 30, 2 ** 61, FIX_MAX, FIX_MAX + 1, FIX_MIN, FIX_MIN - 1, 2 ** 63, 2 ** 64 - 1, 2 ** 64,
                2 ** 70, 2 ** 70 + 1, -(2 ** 70), 2 ** 128, 2 ** 128 - 1, 10 ** 30, -(10 ** 30), 3 ** 100, 2 ** 200 + 2 ** 70]
        for _ in range(12 if self.thorough else 3):
            ints.append(rng.getrandbits(rng.choice((66, 90, 127, 190, 260))) * rng.choice((1, -1)) or 7)
        its = [I(n) for n in ints]
        for a, b in ((2 ** 70, 2 ** 70 + 1), (2 ** 70, -(2 ** 70)), (FIX_MAX, FIX_MAX + 1), (FIX_MIN, FIX_MIN - 1), (2 ** 64, 2 ** 64 - 1),
                     (2 ** 128, 2 ** 128 - 1), (10 ** 30, -(10 ** 30)), (0, 1), (1, -1), (2 ** 63, 2 ** 64)):
            I(a).near.append(I(b))
            I(b).near.append(I(a))
        # ---- ratios
        rats = [self.ratio(1, 3), self.ratio(-1, 3), self.ratio(2, 3), self.ratio(1, 2), self.ratio(2 ** 70, 3), self.ratio(2 ** 70 + 1, 2 ** 70),
                self.ratio(3, 2 ** 70), self.ratio(-(10 ** 30), 7)]
        self.ratio(1, 2).add("(exact 0.5)")
        self.ratio(1, 3).near += [self.ratio(-1, 3), self.ratio(2, 3)]
        self.ratio(2 ** 70, 3).near += [self.ratio(2 ** 70 + 1, 2 ** 70), I(2 ** 70)]
        I(1).add("(* 1/3 3)").add("(/ (expt 2 80) (expt 2 80))").add("(make-rectangular 1 0)").add("(- (make-rectangular 1 2) (make-rectangular 0 2))")
        I(5).add("(- (expt 2 100) (- (expt 2 100) 5))").add("(exact (floor 5.0))").add("(length (list 1 2 3 4 5))").add("(gcd 15 (* 5 (expt 2 70)))").add("(string-length \"hello\")")
        I(0).add("(- (expt 2 100) (expt 2 100))").add("(* 0 (expt 2 80))").add("(exact 0.0)").add("(remainder (expt 2 80) 2)")
        I(2 ** 30).add("(quotient (expt 2 130) (expt 2 100))", layout="spare-words", lkind="bignum")
        # ---- exact and inexact complex
        c12 = self.atom("cplx", "complex", ("exact", 1, 2))
        c12.tags.add("key")
        for r in ("(make-rectangular 1 2)", "(string->number \"1+2i\")", "(* (make-rectangular 0 1) (make-rectangular 2 -1))", "(+ 1 (make-rectangular 0 2))",
                  "(make-rectangular (spare 1 2) (- (expt 2 90) (- (expt 2 90) 2)))"):
            c12.add(r)
        c1m2 = self.atom("cplx", "complex", ("exact", 1, -2))
        c1m2.tags.add("key")
        for r in ("(make-rectangular 1 -2)", "(string->number \"1-2i\")", "(- 1 (make-rectangular 0 2))"):
            c1m2.add(r)
        cbig = self.atom("cplx", "complex", ("exact", 2 ** 70, 1))
        cbig.tags.add("key")
        cbig.add("(make-rectangular (expt 2 70) 1)").add("(+ (expt 2 70) (make-rectangular 0 1))")
        cbig.add("(make-rectangular (spare (expt 2 70) 3) 1)", layout="spare-words", lkind="bignum")
        cf = self.atom("cplx", "complex", ("inexact", 1.5, 2.5))
        cf.tags.add("key")
        for r in ("(make-rectangular 1.5 2.5)", "(string->number \"1.5+2.5i\")", "(+ 1.5 (make-rectangular 0 2.5))"):
            cf.add(r)
        c12.near += [c1m2, cf, I(1)]
        cplx = [c12, c1m2, cbig, cf]
        # ---- flonums (python checks that every arithmetic route is exact)
        def fl(x, *routes, lit=True):
            return F(x, routes, lit)
        flos = [fl(0.0, "(- 1.5 1.5)", "(inexact 0)", "(+ -0.0 0.0)", "(* 0.0 1.5)"),
                fl(-0.0, "(- 0.0)", "(* -1.0 0.0)", "(/ -1.0 +inf.0)", "(* -0.0 1.5)"),
                fl(1.0, "(/ 3.0 3.0)", "(inexact 1)", "(+ 0.5 0.5)", "(string->number \"1e0\")", "(expt 2.0 0)", "(floor 1.5)"),
                fl(-1.0, "(- 1.0)", "(inexact -1)", "(/ 2.0 -2)"),
                fl(1.5, "(/ 3.0 2)", "(inexact 3/2)", "(+ 1 0.5)", "(string->number \"15e-1\")", "(* 0.5 3)"),
                fl(0.1, "(/ 1.0 10)"),
                fl(2.0 ** 100, "(expt 2.0 100)", "(inexact (expt 2 100))", "(* 1048576.0 (expt 2.0 80))", lit=False),
                fl(2.0 ** 62, "(inexact (expt 2 62))", "(expt 2.0 62)", "(* 2.0 (inexact (expt 2 61)))", lit=False),
                fl(2.0 ** 1000, "(expt 2.0 1000)", "(* (expt 2.0 500) (expt 2.0 500))", "(inexact (expt 2 1000))", lit=False),
                fl(math.inf, "(/ 1.0 0.0)", "(* (expt 2.0 1000) (expt 2.0 1000))", "(- -inf.0)"),
                fl(-math.inf, "(/ -1.0 0.0)", "(- +inf.0)"),
                fl(math.nan, "(/ 0.0 0.0)", "(- +inf.0 +inf.0)", "(* 0.0 +inf.0)", "(- (/ 0.0 0.0))")]
        F(0.0).near += [F(-0.0), I(0)]
        F(-0.0).near += [F(0.0), I(0)]
        F(1.0).near += [I(1), F(-1.0), F(1.5)]
        F(1.5).near += [self.ratio(3, 2), F(1.0)]
        F(2.0 ** 100).near += [I(2 ** 100), F(2.0 ** 62)]
        F(2.0 ** 62).near += [I(2 ** 62)]
        F(math.inf).near += [F(-math.inf), F(math.nan), F(2.0 ** 1000)]
        F(math.nan).near += [F(0.0), F(math.inf)]
        # ---- chars, symbols
        chars = [self.char("a", ["(char-downcase #\\A)"]), self.char("A", ["(char-upcase #\\a)"]), self.char("λ", ["(char-downcase #\\x39b)"]),
                 self.char("\0"), self.char(" "), self.char("\U0010ffff"), self.char("5", ["(string-ref (number->string 5) 0)"])]
        self.char("a").near += [self.char("A"), S("a"), I(97)]
        syms = [self.sym("abc"), self.sym("abd"), self.sym("a-rather-long-symbol-name-for-the-heap"), self.sym("a-rather-long-symbol-name-for-the-heaq"),
                self.sym("hello world"), self.sym(""), self.sym("nil"), self.sym("ABC")]
        self.sym("abc").near += [self.sym("abd"), self.sym("ABC"), S("abc")]
        self.sym("a-rather-long-symbol-name-for-the-heap").near += [self.sym("a-rather-long-symbol-name-for-the-heaq")]
        self.sym("nil").near += [self.null, self.false]
        self.sym("").near += [S(""), self.null]
        # ---- strings
        long_s = "".join(rng.choice("abcdefghij λ→") for _ in range(300))
        strs = [S(""), S("a"), S("abc"), S("hello"), S("hellp"), S("hell"), S("Hello"), S("λx→y"), S("hello\0world"), S("hello\0worle"),
                S("12345"), S("héllo"), S("\U00010000\U0001f600z"), S(long_s), S(long_s[:-1] + "!")]
        S("12345").add("(number->string 12345)", 1)
        S("hello").add("(symbol->string 'hello)", 0)
        S("hello").near += [S("hellp"), S("hell"), S("Hello"), self.sym("hello")]
        S("hello\0world").near += [S("hello\0worle"), S("hello")]
        S(long_s).near += [S(long_s[:-1] + "!")]
        S("").near += [self.bv(()), self.compound(V())]
        # ---- bytevectors
        long_b = [rng.randrange(256) for _ in range(300)]
        bvs = [self.bv(()), self.bv((1, 2, 3)), self.bv((1, 2, 4)), self.bv((1, 2)), self.bv((0, 255, 128, 0)), self.bv((104, 105)), self.bv(long_b), self.bv(long_b[:-1] + [long_b[-1] ^ 1])]
        self.bv((1, 2, 3)).near += [self.bv((1, 2, 4)), self.bv((1, 2))]
        self.bv((104, 105)).near += [S("hi")]
        self.bv(long_b).near += [self.bv(long_b[:-1] + [long_b[-1] ^ 1])]
        self.atoms_done = len(self.terms)
        # ---- lists and vectors
        big, big1 = I(2 ** 70), I(2 ** 70 + 1)
        C = self.compound
        comps = [C(L(I(1), I(2), I(3))), C(L(I(1), I(2), I(4))), C(L(I(1), I(2))), C(L(I(1), I(2), I(3), I(4))), C(L(I(1), I(2), tail=I(3))),
                 C(L(I(1))), C(L(L(I(1), I(2)), I(3))), C(L(I(1), L(I(2), I(3)))), C(L(S("a"), self.char("b"), self.sym("c"), F(1.5))),
                 C(L(big)), C(L(big1)), C(L(self.ratio(1, 3), big, S("hello"))), C(L(L(self.sym("a"), tail=I(1)), L(self.sym("b"), tail=I(2)))),
                 C(L(F(0.0))), C(L(F(-0.0))), C(L(I(0))), C(L(S("hello"), S("hellp"))), C(L(S("hello"), S("hello"))),
                 C(L(self.bv((1, 2, 3)), V(I(1), S("x")))), C(L(self.null)), C(L(self.false)), C(L(self.true, self.false)),
                 C(V()), C(V(I(1), I(2), I(3))), C(V(I(1), I(2), I(4))), C(V(I(1), I(2))), C(V(L(I(1), I(2)), V(I(3)))), C(V(I(1), S("a"), self.char("b"))),
                 C(V(big)), C(V(big1)), C(V(V(V(I(1))))), C(V(self.null)), C(V(F(1.0), I(1))), C(V(I(1), F(1.0))),
                 C(L(V(I(1), I(2), I(3)))), C(L(cbig, self.ratio(2 ** 70, 3)))]
        C(L(I(1), I(2), I(3))).near += [C(L(I(1), I(2), I(4))), C(L(I(1), I(2))), C(L(I(1), I(2), I(3), I(4))), C(L(I(1), I(2), tail=I(3))), C(V(I(1), I(2), I(3)))]
        C(L(L(I(1), I(2)), I(3))).near += [C(L(I(1), L(I(2), I(3)))), C(L(I(1), I(2), I(3)))]
        C(L(big)).near += [C(L(big1)), C(V(big)), big]
        C(V(big)).near += [C(V(big1))]
        C(L(F(0.0))).near += [C(L(F(-0.0))), C(L(I(0)))]
        C(L(S("hello"), S("hellp"))).near += [C(L(S("hello"), S("hello")))]
        C(V(I(1), I(2), I(3))).near += [C(V(I(1), I(2), I(4))), C(V(I(1), I(2))), C(L(V(I(1), I(2), I(3))))]
        C(V(F(1.0), I(1))).near += [C(V(I(1), F(1.0)))]
        C(L(self.null)).near += [self.null, C(L(self.false)), C(V(self.null))]
        C(V()).near += [self.null, C(V(self.null))]
        # long and deep structures
        n_long = 400
        ll = Term("pair", "long-list", ("longlist", n_long))
        lv = Term("vec", "long-vector", ("longvec", n_long))
        ll2 = Term("pair", "long-list", ("longlist2", n_long))
        dl = Term("pair", "deep-list", ("deeplist", 60, 1))
        dl2 = Term("pair", "deep-list", ("deeplist", 60, 2))
        dv = Term("vec", "deep-vector", ("deepvec", 60, 1))
        small = [I(i, extra=False) for i in range(1, n_long + 1)] + [I(0)]
        for t in (ll, lv, ll2, dl, dl2, dv):
            t.id = len(self.terms) + 1
            self.terms.append(t)
            self.by_canon[(t.cls, t.canon)] = t
        ll.nodes = self.list_nodes([I(i, extra=False) for i in range(1, n_long + 1)])
        ll2.nodes = self.list_nodes([I(i, extra=False) for i in range(1, n_long)] + [I(0)])
        lv.nodes = [("vec", None, list(range(1, n_long + 1)))] + [("atom", I(i, extra=False), []) for i in range(1, n_long + 1)]
        for r, f in (("(iota* %d 1)" % n_long, 1), ("(vector->list (list->vector (iota* %d 1)))" % n_long, 1), ("(reverse (reverse (iota* %d 1)))" % n_long, 1),
                     ("(map (lambda (x) (+ x 1)) (iota* %d 0))" % n_long, 1), ("(append (iota* 100 1) (iota* %d 101))" % (n_long - 100), 1)):
            ll.add(r, f)
        for r in ("(append (iota* %d 1) (list 0))" % (n_long - 1), "(let ((l (iota* %d 1))) (set-car! (list-tail l %d) 0) l)" % (n_long, n_long - 1)):
            ll2.add(r, 1)
        for r in ("(list->vector (iota* %d 1))" % n_long, "(vector-map (lambda (x) (+ x 1)) (list->vector (iota* %d 0)))" % n_long,
                  "(vector-append (list->vector (iota* 7 1)) (list->vector (iota* %d 8)))" % (n_long - 7)):
            lv.add(r, 1)
        ll.near += [ll2, lv]
        dl.nodes = self.nest_nodes(60, I(1), I(0), False)
        dl2.nodes = self.nest_nodes(60, I(2), I(0), False)
        dv.nodes = self.nest_nodes(60, I(1), I(0), True)
        dl.add("(nest 60 1)", 1).add("(nest 30 (nest 30 1))", 1).add("(list (nest 59 (spare 1 2)) 0)", 1)
        dl2.add("(nest 60 2)", 1).add("(nest 59 (list 2 0))", 1)
        dv.add("(nestv 60 1)", 1).add("(nestv 20 (nestv 40 1))", 1)
        dl.near += [dl2, dv]
        # wide vectors of fresh one-element lists: more than 10000 objects to compare, so that (scheme base)
        # equal? leaves its bounded fast path for the table-driven one although nothing is cyclic
        nw = 10050
        wv = Term("vec", "wide-vector", ("widevec", nw, 7))
        wv2 = Term("vec", "wide-vector", ("widevec", nw, 8))
        for t in (wv, wv2):
            t.id = len(self.terms) + 1
            self.terms.append(t)
            self.by_canon[(t.cls, t.canon)] = t
        wv.nodes = [("vec", None, [1] * nw), ("pair", None, [2, 3]), ("atom", I(7), []), ("atom", self.null, [])]
        wv2.nodes = [("vec", None, [1] * (nw - 1) + [4]), ("pair", None, [2, 3]), ("atom", I(7), []), ("atom", self.null, []),
                     ("pair", None, [5, 3]), ("atom", I(8), [])]
        wv.add("(vector-map (lambda (x) (list 7)) (make-vector %d 0))" % nw, 1)
        wv.add("(list->vector (map (lambda (x) (cons 7 '())) (iota* %d 0)))" % nw, 1)
        wv.add("(let ((v (make-vector %d #f))) (let lp ((i 0)) (when (< i %d) (vector-set! v i (list (spare 7 2))) (lp (+ i 1)))) v)" % (nw, nw), 1)
        wv2.add("(let ((v (vector-map (lambda (x) (list 7)) (make-vector %d 0)))) (vector-set! v %d (list 8)) v)" % (nw, nw - 1), 1)
        wv.near += [wv2]
        # the 60-fold (list x 1) nest written out as a graph: compared with the symbolic Nest("lt", 60, a)
        dn = Term("pair", "deep-list", ("nestgraph", 60, "a"))
        dn.id = len(self.terms) + 1
        self.terms.append(dn)
        self.by_canon[(dn.cls, dn.canon)] = dn
        dn.nodes = self.nest_nodes(60, self.sym("a"), I(1), False)
        dn.add("(nest1 60 'a)", 1).add("(list (nest1 59 (string->symbol \"a\")) 1)", 1)
        self.nest_graph_60 = dn
        self.big_terms = [ll, ll2, lv, dl, dl2, dv]
        self.wide_terms = [wv, wv2]
        # ---- cyclic data (every route allocates; the graphs are written out by hand)
        A1, A2, A3 = ("atom", I(1), []), ("atom", I(2), []), ("atom", I(3), [])
        P = lambda a, d: ("pair", None, [a, d])
        cy = []
        c12c = self.cyclic("c12", [P(2, 1), P(3, 0), A1, A2], ["(cyc 1 2)", "(cyc 1 2 1 2)", "(cons 1 (cyc 2 1))", "(let ((l (list 1 2 1))) (set-cdr! (cddr l) (cdr l)) l)",
                                                              "(cyc (spare 1 2) (- (expt 2 80) (- (expt 2 80) 2)))"])
        c13c = self.cyclic("c13", [P(2, 1), P(3, 0), A1, A3], ["(cyc 1 3)", "(cons 1 (cyc 3 1))"])
        c123 = self.cyclic("c123", [P(3, 1), P(4, 2), P(5, 0), A1, A2, A3], ["(cyc 1 2 3)", "(cons 1 (cons 2 (cyc 3 1 2)))"])
        c1 = self.cyclic("c1", [P(1, 0), A1], ["(cyc 1)", "(cyc 1 1 1)", "(cons 1 (cyc 1 1))"])
        c21 = self.cyclic("c21", [P(2, 1), P(3, 0), A2, A1], ["(cyc 2 1)", "(cdr (cyc 1 2))", "(cdr (cons 1 (cyc 2 1 2 1)))"])
        c012 = self.cyclic("c012", [P(3, 1), P(4, 2), P(5, 1), ("atom", I(0), []), A1, A2], ["(cons 0 (cyc 1 2))", "(cons 0 (cons 1 (cyc 2 1)))"])
        v1 = self.cyclic("v1", [("vec", None, [1, 0]), A1], ["(let ((v (vector 1 #f))) (vector-set! v 1 v) v)",
                                                           "(let ((v (vector 1 #f))) (vector-set! v 1 (vector 1 v)) v)",
                                                           "(let* ((v (vector 1 #f)) (w (vector 1 v))) (vector-set! v 1 w) (vector 1 w))"])
        v2 = self.cyclic("v2", [("vec", None, [1, 0]), A2], ["(let ((v (vector 2 #f))) (vector-set! v 1 v) v)"])
        v1b = self.cyclic("v1b", [("vec", None, [0, 1]), A1], ["(let ((v (vector #f 1))) (vector-set! v 0 v) v)",
                                                             "(let ((v (vector #f 1))) (vector-set! v 0 (vector v 1)) v)"])
        k1 = self.cyclic("k1", [P(0, 1), A1], ["(let ((p (cons #f 1))) (set-car! p p) p)", "(let ((p (cons #f 1))) (set-car! p (cons p 1)) p)"])
        k2 = self.cyclic("k2", [P(0, 1), A2], ["(let ((p (cons #f 2))) (set-car! p p) p)"])
        mut = self.cyclic("mut", [P(1, 2), A1, ("vec", None, [0])], ["(let* ((v (vector #f)) (p (cons 1 v))) (vector-set! v 0 p) p)",
                                                                    "(let* ((v (vector #f)) (p (cons 1 v))) (vector-set! v 0 (cons 1 (vector p))) p)"])
        # a cyclic list whose elements are equal bignums computed by different routes
        bigc = self.cyclic("cbig", [P(1, 0), ("atom", big, [])], ["(cyc (expt 2 70))", "(cyc (expt 2 70) (* 1024 (expt 2 60)))"])
        bigc.add("(cyc (spare (expt 2 70) 3))", 1, "spare-words", "bignum")
        fin = C(L(I(1), I(2), I(1), I(2)))
        self.cyclic_terms = [c12c, c13c, c123, c1, c21, c012, v1, v2, v1b, k1, k2, mut, bigc]
        self.cyclic_contrast = [fin, C(L(I(1))), C(V(I(1), I(1))), I(1)]
        self.groups = {"int": its, "ratio": rats, "cplx": cplx, "flo": flos, "char": chars, "sym": syms, "str": strs, "bv": bvs,
                       "misc": [self.null, self.true, self.false], "compound": comps + [fin], "big": self.big_terms + self.wide_terms}

    def list_nodes(self, atoms):
        n = len(atoms)
        nodes = []
        # node 2i = pair i, node 2i+1 = atom i ; last cdr = null
        for i, a in enumerate(atoms):
            nodes.append(("pair", None, [2 * i + 1, 2 * i + 2]))
            nodes.append(("atom", a, []))
        nodes.append(("atom", self.null, []))
        return nodes

    def nest_nodes(self, n, leaf, zero, vec):
        # list: (x 0) = pair(x, pair(0, null)) ; vec: #(0 x)
        nodes = []
        if vec:
            for i in range(n):
                nodes.append(("vec", None, [n + 1, i + 1 if i + 1 < n else n]))
            nodes.append(("atom", leaf, []))
            nodes.append(("atom", zero, []))
            return nodes
        for i in range(n):
            nodes.append(("pair", None, [i + 1 if i + 1 < n else n, n + 1]))
        nodes.append(("atom", leaf, []))          # index n
        nodes.append(("pair", None, [n + 2, n + 3]))   # (0)  index n+1
        nodes.append(("atom", zero, []))
        nodes.append(("atom", self.null, []))
        return nodes

    # ------------------------------------------------------------------ trace declarations
    def graph_json(self, t, local):
        """Term event payload; `local` maps catalogue term -> id used in this trace."""
        if t.nest is not None:
            return []
        if t.nodes is None:
            return [{"k": "atom", "a": local[t], "c": []}]
        out = []
        for k, a, ch in t.nodes:
            out.append({"k": k, "a": local[a] if a is not None else 0, "c": [c + 1 for c in ch]})
        return out

    def closure(self, terms):
        """terms plus every atom term their graphs mention, atoms first, in a stable order"""
        seen, order = set(), []

        def visit(t):
            if t in seen:
                return
            if t.nest is not None:
                visit(t.nest["leaf"])
                for a in t.nest["aux"]:
                    visit(a)
            elif t.nodes is not None:
                for k, a, ch in t.nodes:
                    if a is not None:
                        visit(a)
            seen.add(t)
            order.append(t)
        for t in terms:
            visit(t)
        return order
