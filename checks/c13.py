"""C13 -- independent contexts are isolated and can run in parallel OS threads.
   Ctx.tla (private state per context + idempotent racy process-wide init) is model checked over all
   interleavings of 3 contexts; a pthread harness creates 2-16 parentless contexts concurrently, each loading the
   standard environment and C-backed libraries, running its own workload with collections, probing for the other
   contexts' definitions, and destroying its context; TLC validates that every concurrent result equals the solo
   result and that nothing foreign is visible (CtxTrace.tla).  OS schedules are sampled: level exploration."""
import os, subprocess
import vlib, heapcommon as hc
from vlib import Broken


def run():
    chk = vlib.Check("C13", level="exploration")
    with vlib.Scratch("c13") as sc:
        build = vlib.build_repo(sc.sub("build"))
        r = vlib.run_tlc("Ctx.tla", "CtxMC.cfg", sc.path, workers=8, timeout=600)
        vlib.require_tlc_ok(r, "CtxMC")
        if r.violated:
            p = chk.save_replay("ctx_mc.txt", r.out[-10000:])
            chk.violations.append(("Ctx.tla: %s violated" % r.violated, p, "model:" + r.violated))
        chk.add_mc("CtxMC", r)
        exe = vlib.compile_c(build, os.path.join(vlib.VERIF, "harness", "c", "ctxpar.c"), sc.file("ctxpar"), extra=["-lpthread", "-Wno-format-extra-args"])
        configs = []
        reps = 30 if chk.thorough else 3
        for n in ([2, 3, 4, 8, 16] if chk.thorough else [2, 4, 8]):
            for rep in range(reps):
                configs.append((n, 3 if chk.thorough else 2, (rep + n) % 2, rep))

        def one(cfg):
            n, rounds, racy, rep = cfg
            cmd = [exe, str(n), str(rounds), str(racy)]
            if rep % 3 == 1:
                cmd = ["taskset", "-c", "0-%d" % max(0, min(15, n // 2))] + cmd     # oversubscribed: forces pre-emption inside the runtime
            try:
                p = subprocess.run(cmd, env=build.env(), cwd=vlib.REPO, stdout=subprocess.PIPE, stderr=subprocess.PIPE, timeout=600)
                rc, out = p.returncode, p.stdout.decode(errors="replace")
            except subprocess.TimeoutExpired as ex:
                rc, out = -9, (ex.stdout or b"").decode(errors="replace")
            t = sc.file("ctx_%d_%d_%d.ndjson" % (n, racy, rep))
            open(t, "w").write("\n".join(l for l in out.splitlines() if l.startswith("{")) + "\n")
            r = vlib.run_tlc("CtxTrace.tla", "CtxTrace.cfg", sc.path, env={"TRACE": t}, workers=1, timeout=120, heap="1g")
            return cfg, t, rc, r
        nres = 0
        for cfg, t, rc, r in vlib.parallel(one, configs, jobs=3):
            if r.error and "Postcondition" not in r.error:
                raise Broken("CtxTrace failed: %s" % r.error[:1000])
            evs = vlib.read_ndjson(t)
            if r.ok and rc == 0:
                chk.cov["traces_validated_against_impl"] += 1
                nres += sum(1 for e in evs if e.get("e") == "Result" and e.get("mode") == "par")
                continue
            ra = hc.rejected_at(r)
            idx = (ra[0] - 1) if ra else len(evs) - 1
            ev = evs[idx] if 0 <= idx < len(evs) else {}
            if rc != 0 and (not evs or evs[-1].get("e") != "Done"):
                key = "c13:crash:threads=%d" % cfg[0]
            elif ev.get("foreign"):
                key = "c13:foreign-definition-visible"
            elif ev.get("ok") == 0:
                key = "c13:workload-failed:%s" % ev.get("mode")
            else:
                key = "c13:result-differs-from-solo"
            chk.report(key, "threads=%d racy_init=%d: %s (exit %d)" % (cfg[0], cfg[2], ev, rc), "ctx_%d_%d_%d.json" % (cfg[0], cfg[2], cfg[3]),
                       {"key": key, "config": cfg, "event": ev, "rc": rc, "tail": evs[-4:]})
        # ---- race detector as the trace recorder: Ctx.tla says contexts share NOTHING but the idempotent process-wide init, so
        #      every pair of conflicting unsynchronised accesses by two threads that ThreadSanitizer observes in the interpreter is a
        #      counterexample to that, whether or not this schedule turned it into a wrong result
        import shutil, re
        if shutil.which("clang"):
            tb = vlib.build_repo(sc.sub("build_tsan"), cflags="-fsanitize=thread -O1 -g", verif=False, cc="clang", ldflags="-fsanitize=thread")
            texe = vlib.compile_c(tb, os.path.join(vlib.VERIF, "harness", "c", "ctxpar.c"), sc.file("ctxpar_tsan"),
                                  extra=["-lpthread", "-fsanitize=thread", "-Wno-format-extra-args"], cc="clang", verif=False)
            tconfigs = [(3, 1, 0), (4, 1, 1), (8, 2, 1)] + ([(16, 2, 0), (6, 3, 1), (2, 4, 0)] if chk.thorough else [])

            def trun(cfg):
                env = tb.env({"TSAN_OPTIONS": "halt_on_error=0 report_signal_unsafe=0 exitcode=0 history_size=4"})
                try:
                    p = subprocess.run([texe] + [str(x) for x in cfg], env=env, cwd=vlib.REPO, stdout=subprocess.PIPE, stderr=subprocess.PIPE, timeout=1200)
                    return cfg, p.returncode, p.stdout.decode(errors="replace"), p.stderr.decode(errors="replace")
                except subprocess.TimeoutExpired as ex:
                    return cfg, -9, "", (ex.stderr or b"").decode(errors="replace")
            races = 0
            for cfg, rc, out, err in vlib.parallel(trun, tconfigs, jobs=3):
                reports = err.split("WARNING: ThreadSanitizer: ")[1:]
                if rc != 0 and not reports:
                    chk.report("c13:tsan:crash:threads=%d" % cfg[0], "race-detector build: harness ended with status %d (threads=%d rounds=%d racy_init=%d)" % (rc, cfg[0], cfg[1], cfg[2]),
                               "tsan_crash_%d.json" % cfg[0], {"config": cfg, "rc": rc, "stderr": err[-1500:]})
                    continue
                seen = set()
                for rep in reports:
                    frames = re.findall(r"#0 (\S+) ", rep)
                    kind = rep.split(" ", 1)[0] + " " + rep.split("\n", 1)[0][:40]
                    fn = "+".join(sorted(set(frames[:2]))) or "?"
                    key = "c13:tsan:%s:%s" % (rep.split("(")[0].strip().replace(" ", "-")[:30], fn)
                    if key in seen:
                        continue
                    seen.add(key)
                    races += 1
                    chk.report(key, "race detector (threads=%d rounds=%d racy_init=%d): %s" % (cfg[0], cfg[1], cfg[2], rep[:300].replace("\n", " | ")),
                               "tsan_%s.json" % re.sub(r"[^A-Za-z0-9_]+", "_", key)[:80], {"key": key, "config": cfg, "report": rep[:4000]})
                chk.cov["traces_validated_against_impl"] += 1
            chk.cov["race_detector_runs"] = len(tconfigs)
            chk.cov["race_reports"] = races
        else:
            chk.assumptions.append("clang is not installed: the race-detector phase was skipped")
        chk.cov["evaluations"] = nres + len(configs)
        chk.cov["distinct_nontrivial"] = len(configs)
        chk.cov["concurrent_context_lifetimes_validated"] = nres
        chk.cov["rule"] = "a case = one process with n threads x rounds of concurrent context lifetimes (create, load env + C libraries, workload with collections, cross probes, destroy), half with the racy concurrent sexp_scheme_init, a third pinned to few cores"
        chk.sample({"threads": configs[0][0], "events": vlib.read_ndjson(sc.file("ctx_%d_%d_%d.ndjson" % (configs[0][0], configs[0][2], configs[0][3])))[:6]})
        if nres < 10 and not chk.violations:
            raise Broken("too few concurrent lifetimes validated")
        chk.assumptions += ["OS-level interleavings are sampled (repetitions, thread counts, core pinning), not enumerated; data races are those ThreadSanitizer observes in the sampled runs (clang build of the tree without hooks)"]
    return chk.finish()


def replay(path):
    print(open(path).read()[:6000])
    return 0
