"""C13 -- independent contexts are isolated and can run in parallel OS threads.
   Ctx.tla (private state per context + idempotent racy process-wide init) is model checked over all
   interleavings of 3 contexts; a pthread harness creates 2-16 parentless contexts concurrently, each loading the
   standard environment and C-backed libraries, running its own workload with collections, probing for the other
   contexts' definitions, and destroying its context; TLC validates that every concurrent result equals the solo
   result and that nothing foreign is visible (CtxTrace.tla).  OS schedules are sampled: level exploration."""
import os, subprocess
import vlib, heapcommon as hc
from vlib import Broken


def run():
    chk = vlib.Check("C13", level="exploration")
    with vlib.Scratch("c13") as sc:
        build = vlib.build_repo(sc.sub("build"))
        r = vlib.run_tlc("Ctx.tla", "CtxMC.cfg", sc.path, workers=8, timeout=600)
        vlib.require_tlc_ok(r, "CtxMC")
        if r.violated:
            p = chk.save_replay("ctx_mc.txt", r.out[-10000:])
            chk.violations.append(("Ctx.tla: %s violated" % r.violated, p, "model:" + r.violated))
        chk.add_mc("CtxMC", r)
        exe = vlib.compile_c(build, os.path.join(vlib.VERIF, "harness", "c", "ctxpar.c"), sc.file("ctxpar"), extra=["-lpthread", "-Wno-format-extra-args"])
        configs = []
        reps = 12 if chk.thorough else 3
        for n in ([2, 3, 4, 8, 16] if chk.thorough else [2, 4, 8]):
            for rep in range(reps):
                configs.append((n, 3 if chk.thorough else 2, (rep + n) % 2, rep))

        def one(cfg):
            n, rounds, racy, rep = cfg
            cmd = [exe, str(n), str(rounds), str(racy)]
            if rep % 3 == 1:
                cmd = ["taskset", "-c", "0-%d" % max(0, min(15, n // 2))] + cmd     # oversubscribed: forces pre-emption inside the runtime
            try:
                p = subprocess.run(cmd, env=build.env(), cwd=vlib.REPO, stdout=subprocess.PIPE, stderr=subprocess.PIPE, timeout=600)
                rc, out = p.returncode, p.stdout.decode(errors="replace")
            except subprocess.TimeoutExpired as ex:
                rc, out = -9, (ex.stdout or b"").decode(errors="replace")
            t = sc.file("ctx_%d_%d_%d.ndjson" % (n, racy, rep))
            open(t, "w").write("\n".join(l for l in out.splitlines() if l.startswith("{")) + "\n")
            r = vlib.run_tlc("CtxTrace.tla", "CtxTrace.cfg", sc.path, env={"TRACE": t}, workers=1, timeout=120, heap="1g")
            return cfg, t, rc, r
        nres = 0
        for cfg, t, rc, r in vlib.parallel(one, configs, jobs=3):
            if r.error and "Postcondition" not in r.error:
                raise Broken("CtxTrace failed: %s" % r.error[:1000])
            evs = vlib.read_ndjson(t)
            if r.ok and rc == 0:
                chk.cov["traces_validated_against_impl"] += 1
                nres += sum(1 for e in evs if e.get("e") == "Result" and e.get("mode") == "par")
                continue
            ra = hc.rejected_at(r)
            idx = (ra[0] - 1) if ra else len(evs) - 1
            ev = evs[idx] if 0 <= idx < len(evs) else {}
            if rc != 0 and (not evs or evs[-1].get("e") != "Done"):
                key = "c13:crash:threads=%d" % cfg[0]
            elif ev.get("foreign"):
                key = "c13:foreign-definition-visible"
            elif ev.get("ok") == 0:
                key = "c13:workload-failed:%s" % ev.get("mode")
            else:
                key = "c13:result-differs-from-solo"
            chk.report(key, "threads=%d racy_init=%d: %s (exit %d)" % (cfg[0], cfg[2], ev, rc), "ctx_%d_%d_%d.json" % (cfg[0], cfg[2], cfg[3]),
                       {"key": key, "config": cfg, "event": ev, "rc": rc, "tail": evs[-4:]})
        chk.cov["evaluations"] = nres + len(configs)
        chk.cov["distinct_nontrivial"] = len(configs)
        chk.cov["concurrent_context_lifetimes_validated"] = nres
        chk.cov["rule"] = "a case = one process with n threads x rounds of concurrent context lifetimes (create, load env + C libraries, workload with collections, cross probes, destroy), half with the racy concurrent sexp_scheme_init, a third pinned to few cores"
        chk.sample({"threads": configs[0][0], "events": vlib.read_ndjson(sc.file("ctx_%d_%d_%d.ndjson" % (configs[0][0], configs[0][2], configs[0][3])))[:6]})
        if nres < 10 and not chk.violations:
            raise Broken("too few concurrent lifetimes validated")
        chk.assumptions += ["OS-level interleavings are sampled (repetitions, thread counts, core pinning), not enumerated; data races without observable effect are not decided (needs a race detector)"]
    return chk.finish()


def replay(path):
    print(open(path).read()[:6000])
    return 0
